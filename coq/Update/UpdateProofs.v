(* Proofs about the update model (C02, C16), on top of the set-algebra lemmas of the region
   layer (C11, Region/RegionProofs.v: rgn_or_mem, rgn_and_mem, rgn_sub_mem, bbox_sup ...). *)
From LV Require Import Region.RegionDefs Region.RegionProofs0 Region.RegionProofs Gen.Funs_C11
     Update.UpdateDefs Update.UpdateFacts Update.UpdateProofs0.
From Coq Require Import ZifyBool.
Local Open Scope Z_scope.

Definition inS (W H x y : Z) : Prop := 0 <= x < W /\ 0 <= y < H.

(* The invariant of one client (DESIGN.md, C02):  W x H the framebuffer size, F the value the
   client must hold for each framebuffer pixel (the framebuffer content in the client's pixel
   format).  For every pixel p of the screen outside M:
       p in C      -> cfb (p - d) = F p       (the pending CopyRect will deliver it)
       p not in C  -> cfb p       = F p       (the client already has it)            *)
Record InvCore (W H : Z) (F : Z -> Z -> Z) (c : client) : Prop := mkInvCore {
  iWM : WF (cM c);
  iWC : WF (cC c);
  iWR : WF (cR c);
  iMin : forall x y, rgn_mem (cM c) x y = true -> inS W H x y;
  iCin : forall x y, rgn_mem (cC c) x y = true ->
                     inS W H x y /\ inS W H (x - cDX c) (y - cDY c);
  (* while the client's picture has not the size of the framebuffer (between
     rfbNewFramebuffer and the size message) everything is still marked modified *)
  iStale : (cPW c = W /\ cPH c = H) \/ (forall x y, inS W H x y -> rgn_mem (cM c) x y = true);
  iPix : cPW c = W -> cPH c = H ->
         forall x y, inS W H x y -> rgn_mem (cM c) x y = false ->
           (rgn_mem (cC c) x y = true -> pic_get (cPic c) (x - cDX c) (y - cDY c) = F x y) /\
           (rgn_mem (cC c) x y = false -> pic_get (cPic c) x y = F x y)
}.

(* the client's picture has the size of the framebuffer, or the size message is pending *)
Definition SizeOK (W H : Z) (c : client) : Prop :=
  (cPW c = W /\ cPH c = H) \/ (cUseNewFB c = true /\ cNewFBPending c = true).

Definition InvC (W H : Z) (F : Z -> Z -> Z) (c : client) : Prop :=
  InvCore W H F c /\ SizeOK W H c.

Definition cursor_ok (cur : option cursor_box) : Prop :=
  match cur with Some (_, _, cw, ch) => 0 < cw /\ 0 < ch | None => True end.

Definition Inv (st : state) : Prop :=
  0 < sW st /\ 0 < sH st /\ cursor_ok (sCursor st) /\
  Forall (fun c => InvC (sW st) (sH st) (fb_for st c) c) (sClients st).

Section RegionFacts.
  Lemma r_and_wf a b : WF a -> WF b -> WF (r_and a b).
  Proof. apply rgn_and_wf. Qed.
  Lemma r_sub_wf a b : WF a -> WF b -> WF (r_sub a b).
  Proof. apply rgn_sub_wf. Qed.
  Lemma r_and_mem a b x y : WF a -> WF b -> rgn_mem (r_and a b) x y = rgn_mem a x y && rgn_mem b x y.
  Proof. intros; apply rgn_and_mem; assumption. Qed.
  Lemma r_sub_mem a b x y :
    WF a -> WF b -> rgn_mem (r_sub a b) x y = rgn_mem a x y && negb (rgn_mem b x y).
  Proof. intros; apply rgn_sub_mem; assumption. Qed.

  Local Hint Resolve rgn_or_wf r_and_wf r_sub_wf offset_wf WF_empty create_rect_wf bbox_wf : wfdb.
  Ltac wf := match goal with |- WF _ => solve [eauto 8 with wfdb] end.
  Ltac msimp :=
    repeat first [ rewrite rgn_or_mem by wf | rewrite r_and_mem by wf | rewrite r_sub_mem by wf
                 | rewrite offset_mem | rewrite create_rect_mem | rewrite rgn_mem_empty ].
  Ltac msimp_in H :=
    repeat first [ rewrite rgn_or_mem in H by wf | rewrite r_and_mem in H by wf
                 | rewrite r_sub_mem in H by wf | rewrite offset_mem in H
                 | rewrite create_rect_mem in H | rewrite rgn_mem_empty in H ].

  (* projections / setters only: never unfold the region functions *)
  Ltac csimpl :=
    cbn [cM cC cDX cDY cR cUseCopy cShape cCurChanged cReady cCurX cCurY cSliceY cUseNewFB cUseExt
         cNewFBPending cReqChange cLastErr cBpp cPW cPH cPic cExt
         set_regions set_M set_flags set_curpos set_slice set_size_state set_pic set_cext set_bpp mark_client] in *.

  Lemma rect_rgn_wf rc : rect_nonempty rc -> WF (rect_rgn rc).
  Proof. destruct rc as [[[x1 y1] x2] y2]. cbn. intros [? ?]. apply create_rect_wf; assumption. Qed.

  Lemma rect_rgn_mem rc x y : rgn_mem (rect_rgn rc) x y = rect_mem rc x y.
  Proof. destruct rc as [[[x1 y1] x2] y2]. apply create_rect_mem. Qed.

  Lemma rgn_of_rects_wf l : Forall rect_nonempty l -> WF (rgn_of_rects l).
  Proof.
    unfold rgn_of_rects.
    assert (G : forall acc, WF acc -> Forall rect_nonempty l ->
                  WF (fold_left (fun acc rc => rgn_or acc (rect_rgn rc)) l acc)).
    { induction l as [|rc l IH]; intros acc Hacc H; [exact Hacc|].
      inversion H; subst. cbn. apply IH; [|assumption].
      apply rgn_or_wf; [assumption|apply rect_rgn_wf; assumption]. }
    apply G. apply WF_empty.
  Qed.

  (* ---------------------------------------------------------------- extensionality *)
  Lemma core_ext W H F c c' :
    InvCore W H F c ->
    cM c' = cM c -> cC c' = cC c -> cDX c' = cDX c -> cDY c' = cDY c -> cR c' = cR c ->
    cPW c' = cPW c -> cPH c' = cPH c -> cPic c' = cPic c ->
    InvCore W H F c'.
  Proof.
    intros I E1 E2 E3 E4 E5 E6 E7 E8. destruct I.
    constructor; rewrite ?E1, ?E2, ?E3, ?E4, ?E5, ?E6, ?E7, ?E8; assumption.
  Qed.

  Lemma sizeok_ext W H c c' :
    SizeOK W H c -> cPW c' = cPW c -> cPH c' = cPH c ->
    (cUseNewFB c = true -> cNewFBPending c = true ->
     (cPW c = W /\ cPH c = H) \/ (cUseNewFB c' = true /\ cNewFBPending c' = true)) ->
    SizeOK W H c'.
  Proof.
    intros [?|[Ha Hb]] E1 E2 Hf; unfold SizeOK; rewrite E1, E2; [left; assumption|].
    destruct (Hf Ha Hb); [left|right]; assumption.
  Qed.

  (* ---------------------------------------------------------------- growing M *)
  Lemma core_grow_M W H F F' c M' :
    InvCore W H F c -> WF M' ->
    (forall x y, rgn_mem (cM c) x y = true -> rgn_mem M' x y = true) ->
    (forall x y, rgn_mem M' x y = true -> inS W H x y) ->
    (forall x y, inS W H x y -> rgn_mem M' x y = false -> F' x y = F x y) ->
    InvCore W H F' (set_M c M').
  Proof.
    intros I HW Hsup Hin HF. destruct I. destruct c; csimpl.
    constructor; csimpl; try assumption.
    - destruct iStale0 as [?|Hall]; [left; assumption|right].
      intros x y Hs. apply Hsup, Hall, Hs.
    - intros Hw Hh x y Hs Hm.
      assert (Hm0 : rgn_mem cM x y = false).
      { destruct (rgn_mem cM x y) eqn:E; [|reflexivity]. apply Hsup in E. congruence. }
      rewrite (HF x y Hs Hm). apply iPix0; assumption.
  Qed.

  Lemma set_M_size W H c M' : SizeOK W H c -> SizeOK W H (set_M c M').
  Proof. destruct c; exact (fun h => h). Qed.

  (* rfbMarkRegionAsModified, also used for Draw (F' = the new framebuffer content) *)
  Lemma core_mark W H F F' c rg :
    InvCore W H F c -> WF rg ->
    (forall x y, rgn_mem rg x y = true -> inS W H x y) ->
    (forall x y, inS W H x y -> rgn_mem rg x y = false -> F' x y = F x y) ->
    InvCore W H F' (mark_client rg c).
  Proof.
    intros I HW Hin HF. pose proof (iWM _ _ _ _ I) as HWM. pose proof (iMin _ _ _ _ I) as HMin.
    unfold mark_client. apply core_grow_M with (F := F); try assumption.
    - wf.
    - intros x y Hm. msimp. rewrite Hm. reflexivity.
    - intros x y Hm. msimp_in Hm. apply orb_true_iff in Hm. destruct Hm; auto.
    - intros x y Hs Hm. msimp_in Hm. apply orb_false_iff in Hm. apply HF; tauto.
  Qed.

  Lemma inv_mark W H F F' c rg :
    InvC W H F c -> WF rg ->
    (forall x y, rgn_mem rg x y = true -> inS W H x y) ->
    (forall x y, inS W H x y -> rgn_mem rg x y = false -> F' x y = F x y) ->
    InvC W H F' (mark_client rg c).
  Proof.
    intros [I S] HW Hin HF. split; [apply core_mark with (F := F); assumption|].
    apply set_M_size. exact S.
  Qed.

  (* the client learns the size (NewFBSize message / out of band) *)
  Lemma core_resize W H F c : InvCore W H F c -> InvCore W H F (client_resize c W H).
  Proof.
    intros I. unfold client_resize.
    destruct ((cPW c =? W) && (cPH c =? H)) eqn:E; [exact I|].
    destruct I. destruct c; csimpl.
    constructor; csimpl; try assumption.
    - left. split; reflexivity.
    - intros _ _ x y Hs Hm. destruct iStale0 as [[? ?]|Hall]; [lia|].
      rewrite (Hall x y Hs) in Hm. discriminate.
  Qed.

  Lemma resize_size W H c : SizeOK W H (client_resize c W H).
  Proof.
    unfold client_resize, SizeOK. destruct ((cPW c =? W) && (cPH c =? H)) eqn:E.
    - left. lia.
    - destruct c; cbn. left. split; reflexivity.
  Qed.

  Lemma client_resize_bpp c W H : cBpp (client_resize c W H) = cBpp c.
  Proof. unfold client_resize. destruct ((cPW c =? W) && (cPH c =? H)); destruct c; reflexivity. Qed.

  (* ---------------------------------------------------------------- FramebufferUpdateRequest *)
  Lemma req_clip_inside W H x y w h x' y' w' h' :
    0 <= x -> 0 <= y -> req_clip W H x y w h = Some (x', y', w', h') ->
    x' = x /\ y' = y /\ x + w' <= W /\ y + h' <= H.
  Proof.
    intros Hx Hy. unfold req_clip.
    destruct (w >? W - x) eqn:E1; destruct (h >? H - y) eqn:E2; cbv zeta;
      split_ifs; intros Hs; inversion Hs; subst; repeat split; lia.
  Qed.

  (* the four fields of a FramebufferUpdateRequest are unsigned 16-bit wire values; an empty
     request is ignored by the library (fix d5a464d), so nothing else has to be excluded *)
  Definition req_ok (W H x y w h : Z) : Prop := 0 <= x /\ 0 <= y /\ 0 <= w /\ 0 <= h.

  Lemma req_clip_nonneg W H x y w h x' y' w' h' :
    0 <= w -> 0 <= h -> req_clip W H x y w h = Some (x', y', w', h') -> 0 <= w' /\ 0 <= h'.
  Proof.
    intros Hw Hh. unfold req_clip.
    pose proof (Z.mod_pos_bound (W - x) 65536 ltac:(lia)). pose proof (Z.mod_pos_bound (H - y) 65536 ltac:(lia)).
    destruct (w >? W - x) eqn:E1; destruct (h >? H - y) eqn:E2; cbv zeta;
      split_ifs; intros Hs; inversion Hs; subst; split; lia.
  Qed.

  Lemma inv_request W H F c incr x y w h :
    InvC W H F c -> req_ok W H x y w h -> InvC W H F (request_client W H incr x y w h c).
  Proof.
    intros [I S] (Hx & Hy & Hwn & Hhn). unfold request_client.
    destruct (req_clip W H x y w h) as [[[[x' y'] w'] h']|] eqn:E; [|split; assumption].
    destruct (req_clip_inside _ _ _ _ _ _ _ _ _ _ Hx Hy E) as (-> & -> & Hxw & Hyh).
    destruct (req_clip_nonneg _ _ _ _ _ _ _ _ _ _ Hwn Hhn E) as [Hw1 Hh1].
    destruct ((w' =? 0) || (h' =? 0)) eqn:Ez; [split; assumption|].
    assert (Hw : 0 < w') by lia. assert (Hh : 0 < h') by lia.
    assert (Ht : WF (rgn_create_rect x y (x + w') (y + h'))) by (apply create_rect_wf; lia).
    destruct I. destruct c; csimpl.
    destruct incr.
    - split; [constructor; csimpl; try assumption; try wf|exact S].
    - assert (HI : InvCore W H F
                (mkClient (rgn_or cM (rgn_create_rect x y (x + w') (y + h')))
                          (r_sub cC (rgn_create_rect x y (x + w') (y + h'))) cDX cDY
                          (rgn_or cR (rgn_create_rect x y (x + w') (y + h')))
                          cUseCopy cShape cCurChanged true cCurX cCurY cSliceY cUseNewFB cUseExt
                          (if cUseExt then true else cNewFBPending) cReqChange cLastErr cBpp cPW cPH cPic cExt)).
      { constructor; csimpl; try assumption; try wf.
        - intros x0 y0 Hm. msimp_in Hm. apply orb_true_iff in Hm. destruct Hm as [Hm|Hm]; [auto|].
          unfold rect_mem in Hm. unfold inS. lia.
        - intros x0 y0 Hm. msimp_in Hm. apply andb_true_iff in Hm. apply iCin0. tauto.
        - destruct iStale0 as [?|Hall]; [left; assumption|right].
          intros x0 y0 Hs. msimp. rewrite (Hall _ _ Hs). reflexivity.
        - intros Hw0 Hh0 x0 y0 Hs Hm. msimp_in Hm. apply orb_false_iff in Hm. destruct Hm as [Hm1 Hm2].
          msimp. rewrite Hm2. rewrite andb_true_r. apply iPix0; assumption. }
      assert (HS : SizeOK W H
                (mkClient (rgn_or cM (rgn_create_rect x y (x + w') (y + h')))
                          (r_sub cC (rgn_create_rect x y (x + w') (y + h'))) cDX cDY
                          (rgn_or cR (rgn_create_rect x y (x + w') (y + h')))
                          cUseCopy cShape cCurChanged true cCurX cCurY cSliceY cUseNewFB cUseExt
                          (if cUseExt then true else cNewFBPending) cReqChange cLastErr cBpp cPW cPH cPic cExt)).
      { unfold SizeOK in *. csimpl. destruct S as [?|[? ?]]; [left; assumption|right]. split; [assumption|]. destruct cUseExt; [reflexivity|assumption]. }
      destruct cUseExt; split; assumption.
  Qed.

  (* ---------------------------------------------------------------- the cursor box *)
  Lemma cursor_clip_ok st c rc :
    0 < sW st -> 0 < sH st -> cursor_clip st c = Some rc ->
    rect_nonempty rc /\ forall x y, rect_mem rc x y = true -> inS (sW st) (sH st) x y.
  Proof.
    intros HW HH. unfold cursor_clip. destruct (sCursor st) as [[[[xh yh] cw] ch]|]; [|discriminate].
    pose proof (clip_rect2_inside (cCurX c - xh) (cCurY c - yh) (cCurX c - xh + cw) (cCurY c - yh + ch)
                                  0 0 (sW st) (sH st) HW HH) as Hc.
    destruct (sraClipRect2 _ _ _ _ _ _ _ _) as [[[[b x1] y1] x2] y2].
    destruct b; [|discriminate]. intros Hs; inversion Hs; subst.
    destruct Hc as (Ha & Hb & Hc & Hd & He). destruct He as [He _]. specialize (He eq_refl).
    split; [exact He|]. intros x y Hm. unfold rect_mem in Hm. unfold inS. lia.
  Qed.

  Lemma core_redraw_into st F c c0 :
    0 < sW st -> 0 < sH st ->
    InvCore (sW st) (sH st) F c ->
    InvCore (sW st) (sH st) F (set_M c (redraw_into st c0 (cM c))).
  Proof.
    intros HW HH I. unfold redraw_into.
    destruct (cursor_clip st c0) as [rc|] eqn:E.
    - destruct (cursor_clip_ok _ _ _ HW HH E) as [Hne Hin].
      apply (core_mark _ _ F F c (rect_rgn rc) I); [apply rect_rgn_wf; exact Hne| |auto].
      intros x y Hm. rewrite rect_rgn_mem in Hm. auto.
    - apply (core_ext _ _ _ c); try (destruct c; reflexivity). exact I.
  Qed.

  Lemma core_redraw st F c :
    0 < sW st -> 0 < sH st ->
    InvCore (sW st) (sH st) F c -> InvCore (sW st) (sH st) F (redraw_cursor_M st c).
  Proof. intros HW HH I. apply (core_redraw_into st); assumption. Qed.

  (* ---------------------------------------------------------------- SetEncodings *)
  (* a pending copy is given up: its destination becomes modified pixels *)
  Lemma core_drop_copy W H F c dx' dy' :
    InvCore W H F c -> InvCore W H F (set_regions c (rgn_or (cM c) (cC c)) rgn_empty dx' dy' (cR c)).
  Proof.
    intros I. pose proof (iWM _ _ _ _ I) as HWM. pose proof (iWC _ _ _ _ I) as HWC.
    destruct I. destruct c; csimpl.
    constructor; csimpl; try assumption; try apply WF_empty; try wf.
    - intros x y Hm. msimp_in Hm. apply orb_true_iff in Hm. destruct Hm as [Hm|Hm]; [auto|apply iCin0 in Hm; tauto].
    - intros x y Hm. rewrite rgn_mem_empty in Hm. discriminate.
    - destruct iStale0 as [?|Hall]; [left; assumption|right].
      intros x y Hsc. msimp. rewrite (Hall x y Hsc). reflexivity.
    - intros Hw Hh x y Hsc Hm. msimp_in Hm. apply orb_false_iff in Hm. destruct Hm as [HmM HmC].
      split; [intros Hc; rewrite rgn_mem_empty in Hc; discriminate|]. intros _.
      apply (iPix0 Hw Hh x y Hsc HmM). exact HmC.
  Qed.

  Lemma inv_setenc st F c copyrect shape newfb ext :
    0 < sW st -> 0 < sH st ->
    InvC (sW st) (sH st) F c -> InvC (sW st) (sH st) F (setenc_client st copyrect shape newfb ext c).
  Proof.
    intros HW HH [I S]. unfold setenc_client.
    set (c0 := set_flags c copyrect false false (cReady c) false false).
    assert (I0 : InvCore (sW st) (sH st) F c0)
      by (apply (core_ext _ _ _ c); try (destruct c; reflexivity); exact I).
    set (c1 := if shape
               then let c' := redraw_cursor_M st c0 in
                    set_flags c' (cUseCopy c') true true (cReady c') false false
               else c0).
    assert (I1 : InvCore (sW st) (sH st) F c1).
    { unfold c1. destruct shape; [|exact I0]. cbv zeta.
      apply (core_ext _ _ _ (redraw_cursor_M st c0)); try (destruct c; reflexivity).
      apply core_redraw; assumption. }
    set (c2 := if newfb then set_flags c1 (cUseCopy c1) (cShape c1) (cCurChanged c1) (cReady c1) true false else c1).
    set (c3a := if ext then set_flags c2 (cUseCopy c2) (cShape c2) (cCurChanged c2) (cReady c2) true true else c2).
    assert (I3a : InvCore (sW st) (sH st) F c3a).
    { apply (core_ext _ _ _ c1); [exact I1|..]; unfold c3a, c2; destruct ext; destruct newfb; destruct c1; reflexivity. }
    set (c3b := if setenc_drops_copy && negb copyrect && negb (rgn_is_empty (cC c3a))
                then set_regions c3a (rgn_or (cM c3a) (cC c3a)) rgn_empty 0 0 (cR c3a) else c3a).
    assert (I3b : InvCore (sW st) (sH st) F c3b).
    { unfold c3b. destruct (setenc_drops_copy && negb copyrect && negb (rgn_is_empty (cC c3a)));
        [apply core_drop_copy; exact I3a|exact I3a]. }
    assert (E3b : cPW c3b = cPW c /\ cPH c3b = cPH c /\ cNewFBPending c3b = cNewFBPending c).
    { assert (E3a : cPW c3a = cPW c /\ cPH c3a = cPH c /\ cNewFBPending c3a = cNewFBPending c).
      { unfold c3a, c2, c1, c0. destruct ext; destruct newfb; destruct shape; destruct c; cbn; repeat split. }
      unfold c3b. destruct (setenc_drops_copy && negb copyrect && negb (rgn_is_empty (cC c3a))); [|exact E3a].
      destruct E3a as (? & ? & ?). destruct c3a; cbn in *. repeat split; assumption. }
    set (c3 := if cShape c && negb (cShape c3b) then redraw_cursor_M st c3b else c3b).
    assert (I3 : InvCore (sW st) (sH st) F c3).
    { unfold c3. destruct (cShape c && negb (cShape c3b)); [apply core_redraw; assumption|exact I3b]. }
    assert (E3 : cPW c3 = cPW c /\ cPH c3 = cPH c /\ cNewFBPending c3 = cNewFBPending c).
    { unfold c3. destruct (cShape c && negb (cShape c3b)); [|exact E3b].
      destruct E3b as (? & ? & ?). destruct c3b; cbn in *. repeat split; assumption. }
    destruct E3 as (Ew & Eh & Ep).
    change (InvC (sW st) (sH st) F (if cUseNewFB c3 then c3 else client_resize c3 (sW st) (sH st))).
    destruct (cUseNewFB c3) eqn:Eu.
    - split; [exact I3|]. unfold SizeOK. rewrite Ew, Eh, Ep, Eu.
      destruct S as [?|[_ ?]]; [left; assumption|right; split; [reflexivity|assumption]].
    - split; [apply core_resize; exact I3|apply resize_size].
  Qed.

  (* ---------------------------------------------------------------- rfbScheduleCopyRegion *)
  (* generic form: (M1, C1) = the modified / copy regions after the "pending copy" case split *)
  Lemma core_sched_generic W H F F' c M1 C1 K dx dy :
    InvCore W H F c -> WF K -> WF M1 -> WF C1 ->
    (forall x y, rgn_mem K x y = true -> inS W H x y /\ inS W H (x - dx) (y - dy)) ->
    (forall x y, inS W H x y -> F' x y = if rgn_mem K x y then F (x - dx) (y - dy) else F x y) ->
    (forall x y, rgn_mem (cM c) x y = true -> rgn_mem M1 x y = true) ->
    (forall x y, rgn_mem M1 x y = true -> inS W H x y) ->
    (forall x y, rgn_mem C1 x y = true -> rgn_mem (cC c) x y = true /\ cDX c = dx /\ cDY c = dy) ->
    (forall x y, rgn_mem M1 x y = false -> rgn_mem (cC c) x y = true -> rgn_mem C1 x y = true) ->
    (forall x y, rgn_mem M1 x y = false -> rgn_mem K (x + dx) (y + dy) = true -> rgn_mem (cC c) x y = false) ->
    InvCore W H F' (set_regions c (rgn_or M1 (r_and (rgn_offset M1 dx dy) (rgn_or C1 K))) (rgn_or C1 K) dx dy (cR c)).
  Proof.
    intros I HK HM1 HC1 HKin HF Hsup HM1in HC1sub HC1keep HsrcC.
    destruct I. destruct c; csimpl.
    constructor; csimpl; try assumption; try wf.
    - intros x y Hm. msimp_in Hm. apply orb_true_iff in Hm. destruct Hm as [Hm|Hm]; [auto|].
      apply andb_true_iff in Hm. destruct Hm as [_ Hm]. apply orb_true_iff in Hm.
      destruct Hm as [Hm|Hm]; [|apply HKin; exact Hm].
      destruct (HC1sub _ _ Hm) as (Hc & _ & _). apply iCin0 in Hc. tauto.
    - intros x y Hm. msimp_in Hm. apply orb_true_iff in Hm. destruct Hm as [Hm|Hm]; [|apply HKin; exact Hm].
      destruct (HC1sub _ _ Hm) as (Hc & <- & <-). apply iCin0. exact Hc.
    - destruct iStale0 as [?|Hall]; [left; assumption|right].
      intros x y Hs. msimp. rewrite (Hsup _ _ (Hall _ _ Hs)). reflexivity.
    - intros Hw Hh x y Hs Hm. msimp_in Hm. apply orb_false_iff in Hm. destruct Hm as [Hm1 Hm2].
      assert (HmM : rgn_mem cM x y = false).
      { destruct (rgn_mem cM x y) eqn:E; [|reflexivity]. apply Hsup in E. congruence. }
      rewrite (HF x y Hs). msimp.
      destruct (rgn_mem K x y) eqn:EK.
      + (* destination of the new copy: the source pixel must be up to date at the client *)
        rewrite orb_true_r. split; [intros _|discriminate].
        rewrite orb_true_r, andb_true_r in Hm2.
        destruct (HKin _ _ EK) as [_ Hsrc].
        assert (HqM : rgn_mem cM (x - dx) (y - dy) = false).
        { destruct (rgn_mem cM (x - dx) (y - dy)) eqn:E; [|reflexivity]. apply Hsup in E. congruence. }
        assert (HqC : rgn_mem cC (x - dx) (y - dy) = false).
        { apply HsrcC; [exact Hm2|]. replace (x - dx + dx) with x by lia. replace (y - dy + dy) with y by lia. exact EK. }
        apply (iPix0 Hw Hh _ _ Hsrc HqM). exact HqC.
      + rewrite orb_false_r. split; intros Hc.
        * destruct (HC1sub _ _ Hc) as (Hc0 & <- & <-). apply (iPix0 Hw Hh _ _ Hs HmM). exact Hc0.
        * assert (Hc0 : rgn_mem cC x y = false).
          { destruct (rgn_mem cC x y) eqn:E; [|reflexivity]. rewrite (HC1keep _ _ Hm1 E) in Hc. discriminate. }
          apply (iPix0 Hw Hh _ _ Hs HmM). exact Hc0.
  Qed.

  Lemma sched_copy_size W H cur K dx dy c c' :
    sched_copy_client cur K dx dy c = Some c' -> SizeOK W H c -> SizeOK W H c' /\ cBpp c' = cBpp c.
  Proof.
    unfold sched_copy_client, SizeOK. destruct c; csimpl.
    destruct (cUseCopy && _); [|destruct (negb (rgn_is_empty cC)); intros Hs; inversion Hs; subst; csimpl; auto].
    destruct (negb (rgn_is_empty cC)); [destruct (negb (cDX =? dx) || negb (cDY =? dy))|];
      (destruct cShape; [intros Hs; inversion Hs; subst; csimpl; auto|]);
      destruct cur as [[[[xh yh] cw] ch]|];
      intros Hs; inversion Hs; subst; csimpl; auto.
  Qed.

  (* since fix 812461a rfbScheduleCopyRegion cannot fail (no NULL dereference) *)
  Lemma sched_copy_total cur K dx dy c : exists c', sched_copy_client cur K dx dy c = Some c'.
  Proof.
    unfold sched_copy_client. destruct (cUseCopy c && _); [|destruct (negb (rgn_is_empty (cC c))); eexists; reflexivity].
    destruct (if negb (rgn_is_empty (cC c)) then _ else _) as [M1 C1].
    destruct (cShape c); [eexists; reflexivity|].
    destruct cur as [[[[xh yh] cw] ch]|]; eexists; reflexivity.
  Qed.

  Lemma inv_sched_copy W H F F' cur K dx dy c c' :
    InvC W H F c -> WF K -> cursor_ok cur ->
    (forall x y, rgn_mem K x y = true -> inS W H x y /\ inS W H (x - dx) (y - dy)) ->
    (forall x y, inS W H x y -> F' x y = if rgn_mem K x y then F (x - dx) (y - dy) else F x y) ->
    sched_copy_client cur K dx dy c = Some c' -> InvC W H F' c'.
  Proof.
    intros [I S] HK Hcur HKin HF Hs.
    split; [|apply (sched_copy_size _ _ _ _ _ _ _ _ Hs S)].
    pose proof (iWM _ _ _ _ I) as HWM. pose proof (iWC _ _ _ _ I) as HWC.
    pose proof (iMin _ _ _ _ I) as HMin. pose proof (iCin _ _ _ _ I) as HCin.
    unfold sched_copy_client in Hs. destruct (cUseCopy c && _) eqn:Euc.
    2:{ (* no CopyRect: the destination is simply modified, a pending copy becomes modified pixels *)
      destruct (negb (rgn_is_empty (cC c))) eqn:Ene; inversion Hs; subst.
      - assert (HM' : WF (rgn_or (rgn_or (cM c) (cC c)) K)) by wf.
        destruct I. destruct c; csimpl.
        constructor; csimpl; try assumption; try apply WF_empty.
        + intros x y Hm. msimp_in Hm. apply orb_true_iff in Hm. destruct Hm as [Hm|Hm]; [|apply HKin; exact Hm].
          apply orb_true_iff in Hm. destruct Hm as [Hm|Hm]; [auto|apply iCin0 in Hm; tauto].
        + intros x y Hm. rewrite rgn_mem_empty in Hm. discriminate.
        + destruct iStale0 as [?|Hall]; [left; assumption|right].
          intros x y Hsc. msimp. rewrite (Hall x y Hsc). reflexivity.
        + intros Hw Hh x y Hsc Hm. msimp_in Hm. apply orb_false_iff in Hm. destruct Hm as [Hm HmK].
          apply orb_false_iff in Hm. destruct Hm as [HmM HmC].
          split; [intros Hc; rewrite rgn_mem_empty in Hc; discriminate|]. intros _.
          rewrite (HF _ _ Hsc), HmK. apply (iPix0 Hw Hh x y Hsc HmM). exact HmC.
      - apply core_grow_M with (F := F); try assumption; try wf.
        + intros x y Hm. msimp. rewrite Hm. reflexivity.
        + intros x y Hm. msimp_in Hm. apply orb_true_iff in Hm. destruct Hm as [Hm|Hm]; [auto|apply HKin; exact Hm].
        + intros x y Hsc Hm. msimp_in Hm. apply orb_false_iff in Hm. destruct Hm as [_ Hm].
          rewrite (HF _ _ Hsc), Hm. reflexivity. }
    (* the three cases for the pending copy *)
    assert (G : exists M1 C1,
              (if negb (rgn_is_empty (cC c)) then
                 if negb (cDX c =? dx) || negb (cDY c =? dy)
                 then (rgn_or (cM c) (cC c), rgn_empty)
                 else (rgn_or (cM c) (r_and (rgn_offset K (- dx) (- dy)) (cC c)), cC c)
               else (cM c, cC c)) = (M1, C1) /\
              WF M1 /\ WF C1 /\
              (forall x y, rgn_mem (cM c) x y = true -> rgn_mem M1 x y = true) /\
              (forall x y, rgn_mem M1 x y = true -> inS W H x y) /\
              (forall x y, rgn_mem C1 x y = true -> rgn_mem (cC c) x y = true /\ cDX c = dx /\ cDY c = dy) /\
              (forall x y, rgn_mem M1 x y = false -> rgn_mem (cC c) x y = true -> rgn_mem C1 x y = true) /\
              (forall x y, rgn_mem M1 x y = false -> rgn_mem K (x + dx) (y + dy) = true -> rgn_mem (cC c) x y = false)).
    { destruct (negb (rgn_is_empty (cC c))) eqn:Ee.
      - destruct (negb (cDX c =? dx) || negb (cDY c =? dy)) eqn:Ed.
        + exists (rgn_or (cM c) (cC c)), rgn_empty. split; [reflexivity|].
          split; [wf|]. split; [wf|]. split; [|split; [|split; [|split]]].
          * intros x y Hm. msimp. rewrite Hm. reflexivity.
          * intros x y Hm. msimp_in Hm. apply orb_true_iff in Hm.
            destruct Hm as [Hm|Hm]; [apply HMin in Hm|apply HCin in Hm]; tauto.
          * intros x y Hm. msimp_in Hm. discriminate.
          * intros x y Hm Hc. msimp_in Hm. rewrite Hc, orb_true_r in Hm. discriminate.
          * intros x y Hm _. msimp_in Hm. apply orb_false_iff in Hm. tauto.
        + exists (rgn_or (cM c) (r_and (rgn_offset K (- dx) (- dy)) (cC c))), (cC c). split; [reflexivity|].
          assert (Edx : cDX c = dx) by lia. assert (Edy : cDY c = dy) by lia.
          split; [wf|]. split; [wf|]. split; [|split; [|split; [|split]]].
          * intros x y Hm. msimp. rewrite Hm. reflexivity.
          * intros x y Hm. msimp_in Hm. apply orb_true_iff in Hm. destruct Hm as [Hm|Hm]; [apply HMin in Hm; tauto|].
            apply andb_true_iff in Hm. destruct Hm as [_ Hm]. apply HCin in Hm. tauto.
          * auto.
          * auto.
          * intros x y Hm HKm. msimp_in Hm. apply orb_false_iff in Hm. destruct Hm as [_ Hm].
            replace (x - - dx) with (x + dx) in Hm by lia. replace (y - - dy) with (y + dy) in Hm by lia.
            rewrite HKm in Hm. exact Hm.
      - exists (cM c), (cC c). split; [reflexivity|].
        assert (Hemp : forall x y, rgn_mem (cC c) x y = false).
        { intros x y. apply is_empty_mem. destruct (rgn_is_empty (cC c)); [reflexivity|discriminate]. }
        split; [assumption|]. split; [assumption|]. split; [|split; [|split; [|split]]]; auto.
        + intros x y Hm. rewrite Hemp in Hm. discriminate. }
    destruct G as (M1 & C1 & EG & HM1 & HC1 & G1 & G2 & G3 & G4 & G5).
    rewrite EG in Hs.
    pose proof (core_sched_generic W H F F' c M1 C1 K dx dy I HK HM1 HC1 HKin HF G1 G2 G3 G4 G5) as IS.
    set (C2 := rgn_or C1 K) in *.
    set (M2 := rgn_or M1 (r_and (rgn_offset M1 dx dy) C2)) in *.
    assert (HC2 : WF C2) by (unfold C2; wf).
    assert (HM2 : WF M2) by (unfold M2; wf).
    assert (HC2in : forall x y, rgn_mem C2 x y = true -> inS W H x y).
    { intros x y Hm. apply (iCin _ _ _ _ IS) in Hm. tauto. }
    destruct (cShape c); [inversion Hs; subst; exact IS|].
    destruct cur as [[[[xh yh] cw] ch]|]; [|inversion Hs; subst; exact IS].
    cbn in Hcur. destruct Hcur as [Hcw Hch].
    set (bx := rgn_create_rect (cCurX c - xh) (cCurY c - yh) (cCurX c - xh + cw) (cCurY c - yh + ch)) in *.
    assert (Hbx : WF bx) by (apply create_rect_wf; lia).
    set (cr1 := r_and bx C2) in *. set (cr2 := r_and (rgn_offset bx dx dy) C2) in *.
    assert (Hcr1 : WF cr1) by (unfold cr1; wf). assert (Hcr2 : WF cr2) by (unfold cr2; wf).
    set (M3 := if negb (rgn_is_empty cr1) then rgn_or M2 cr1 else M2) in *.
    set (M4 := if negb (rgn_is_empty cr2) then rgn_or M3 cr2 else M3) in *.
    assert (HM2in : forall x y, rgn_mem M2 x y = true -> inS W H x y) by (apply (iMin _ _ _ _ IS)).
    assert (HM3 : WF M3 /\ (forall x y, rgn_mem M2 x y = true -> rgn_mem M3 x y = true) /\
                  (forall x y, rgn_mem M3 x y = true -> inS W H x y)).
    { unfold M3. destruct (negb (rgn_is_empty cr1)); [|auto].
      split; [wf|]. split.
      - intros x y Hm. msimp. rewrite Hm. reflexivity.
      - intros x y Hm. msimp_in Hm. apply orb_true_iff in Hm. destruct Hm as [Hm|Hm]; [auto|].
        unfold cr1 in Hm. msimp_in Hm. apply andb_true_iff in Hm. destruct Hm as [_ Hm]. auto. }
    destruct HM3 as (HM3 & HM23 & HM3in).
    assert (HM4 : WF M4 /\ (forall x y, rgn_mem M2 x y = true -> rgn_mem M4 x y = true) /\
                  (forall x y, rgn_mem M4 x y = true -> inS W H x y)).
    { unfold M4. destruct (negb (rgn_is_empty cr2)); [|auto].
      split; [wf|]. split.
      - intros x y Hm. msimp. rewrite (HM23 _ _ Hm). reflexivity.
      - intros x y Hm. msimp_in Hm. apply orb_true_iff in Hm. destruct Hm as [Hm|Hm]; [auto|].
        unfold cr2 in Hm. msimp_in Hm. apply andb_true_iff in Hm. destruct Hm as [_ Hm]. auto. }
    destruct HM4 as (HM4 & HM24 & HM4in).
    inversion Hs; subst.
    apply (core_ext _ _ _ (set_M (set_regions c M2 C2 dx dy (cR c)) M4)); try (destruct c; reflexivity).
    apply core_grow_M with (F := F'); try assumption; auto.
  Qed.

  (* ---------------------------------------------------------------- rfbSendFramebufferUpdate *)
  Lemma raw_fold_sem src l : forall g x y,
    fold_left (apply_raw src) l g x y = if existsb (fun rc => rect_mem rc x y) l then src x y else g x y.
  Proof.
    induction l as [|rc l IH]; intros g x y; [reflexivity|].
    cbn [fold_left existsb]. rewrite IH. unfold apply_raw.
    destruct (existsb (fun rc0 => rect_mem rc0 x y) l); [rewrite orb_true_r; reflexivity|].
    rewrite orb_false_r. reflexivity.
  Qed.

  Lemma filter_raw_all r : WF r ->
    filter raw_emitted (rgn_iter false false r) = rgn_iter false false r.
  Proof.
    intros H.
    assert (G : forall l : list rect, (forall rc, In rc l -> raw_emitted rc = true) -> filter raw_emitted l = l).
    { induction l as [|a l IH]; intros Hl; [reflexivity|]. cbn. rewrite (Hl a (or_introl eq_refl)).
      f_equal. apply IH. intros rc Hrc. apply Hl. right. exact Hrc. }
    apply G. intros rc Hin.
    apply (iter_In_nonempty _ _ _ _ H) in Hin. destruct rc as [[[x1 y1] x2] y2]. cbn in *. lia.
  Qed.

  (* the client's picture after one update, by the RFB semantics, in terms of pixel sets *)
  Lemma client_apply_sem cf fb UC U4 dx dy x y :
    WF UC -> WF U4 ->
    client_apply cf fb (copy_wrects UC dx dy) dx dy (filter raw_emitted (rgn_iter false false U4)) x y =
    if rgn_mem U4 x y then fb x y
    else if rgn_mem UC x y then cf (x - dx) (y - dy) else cf x y.
  Proof.
    intros HUC HU4. unfold client_apply. rewrite raw_fold_sem, filter_raw_all by exact HU4.
    rewrite <- (mem_iter_dir false false U4 x y HU4).
    destruct (rgn_mem U4 x y); [reflexivity|].
    unfold copy_wrects. rewrite copy_seq_simul by (apply send_order_safe; exact HUC).
    rewrite <- (mem_iter_dir _ _ UC x y HUC). reflexivity.
  Qed.

  Lemma redraw_into_sup st c U :
    0 < sW st -> 0 < sH st -> WF U ->
    WF (redraw_into st c U) /\ (forall x y, rgn_mem U x y = true -> rgn_mem (redraw_into st c U) x y = true).
  Proof.
    intros HW HH HU. unfold redraw_into. destruct (cursor_clip st c) as [rc|] eqn:E; [|auto].
    destruct (cursor_clip_ok _ _ _ HW HH E) as [Hne _]. pose proof (rect_rgn_wf _ Hne) as Hrc.
    split; [wf|]. intros x y Hm. msimp. rewrite Hm. reflexivity.
  Qed.

  Lemma soft_cursor_spec st c1 U3 c2 U3c :
    0 < sW st -> 0 < sH st -> WF U3 -> soft_cursor st c1 U3 = (c2, U3c) ->
    WF U3c /\ (forall x y, rgn_mem U3 x y = true -> rgn_mem U3c x y = true) /\
    cM c2 = cM c1 /\ cC c2 = cC c1 /\ cDX c2 = cDX c1 /\ cDY c2 = cDY c1 /\ cR c2 = cR c1 /\
    cPW c2 = cPW c1 /\ cPH c2 = cPH c1 /\ cPic c2 = cPic c1 /\ cBpp c2 = cBpp c1 /\
    cUseNewFB c2 = cUseNewFB c1 /\ cNewFBPending c2 = cNewFBPending c1.
  Proof.
    intros HW HH HU. unfold soft_cursor.
    destruct (cShape c1); [intros Hs; inversion Hs; subst; repeat split; auto|].
    destruct (negb (cCurX c1 =? sCurX st) || negb (cCurY c1 =? sCurY st));
      [|intros Hs; inversion Hs; subst; repeat split; auto].
    intros Hs; inversion Hs; subst.
    destruct (redraw_into_sup st c1 U3 HW HH HU) as [Ha Hb].
    destruct (redraw_into_sup st (set_curpos c1 (sCurX st) (sCurY st)) _ HW HH Ha) as [Hc Hd].
    repeat split; try (destruct c1; reflexivity); auto.
  Qed.

  Lemma coalesce_spec st U : WF U ->
    WF (coalesce st U) /\ (forall x y, rgn_mem U x y = true -> rgn_mem (coalesce st U) x y = true).
  Proof.
    intros HU. unfold coalesce. destruct ((sMaxRects st >? 0) && (rgn_count U >? sMaxRects st)); [|auto].
    split; [wf|]. intros x y Hm. apply bbox_sup; assumption.
  Qed.

  (* the 16-bit count repair, characterised (never unfolded elsewhere) *)
  Lemma bbox_count_le1 r : rgn_count (rgn_bbox r) <= 1.
  Proof.
    rewrite rgn_bbox_unfold. destruct (fold_left bbox_step r _) as [[[a b] c] d].
    destruct ((c <? a) || (d <? b)); cbn; lia.
  Qed.

  Lemma count_fix_spec UC U : WF UC -> WF U ->
    WF (fst (count_fix UC U)) /\ WF (snd (count_fix UC U)) /\
    (forall x y, rgn_mem U x y = true -> rgn_mem (snd (count_fix UC U)) x y = true) /\
    (forall x y, rgn_mem (fst (count_fix UC U)) x y = true -> rgn_mem UC x y = true) /\
    (forall x y, rgn_mem UC x y = true ->
                 rgn_mem (fst (count_fix UC U)) x y = true \/ rgn_mem (snd (count_fix UC U)) x y = true) /\
    (fst (count_fix UC U) = UC \/ fst (count_fix UC U) = rgn_empty) /\
    rgn_count (fst (count_fix UC U)) + rgn_count (snd (count_fix UC U)) + 6 < 65535.
  Proof.
    intros HUC HU. unfold count_fix. cbv zeta.
    destruct (rgn_count UC + rgn_count U + 6 <? 65535) eqn:E1; cbn [fst snd].
    { repeat split; auto. lia. }
    destruct (rgn_count UC + rgn_count (rgn_bbox U) + 6 <? 65535) eqn:E2; cbn [fst snd].
    { split; [exact HUC|]. split; [wf|]. split; [intros x y Hm; apply bbox_sup; assumption|].
      repeat split; auto. lia. }
    assert (HB : WF (rgn_bbox U)) by wf.
    assert (HO : WF (rgn_or (rgn_bbox U) UC)) by wf.
    split; [apply WF_empty|]. split; [wf|].
    split; [intros x y Hm; apply bbox_sup; [exact HO|]; msimp; rewrite (bbox_sup U x y HU Hm); reflexivity|].
    split; [intros x y Hm; rewrite rgn_mem_empty in Hm; discriminate|].
    split; [intros x y Hm; right; apply bbox_sup; [exact HO|]; msimp; rewrite Hm; apply orb_true_r|].
    split; [right; reflexivity|].
    pose proof (bbox_count_le1 (rgn_or (rgn_bbox U) UC)). change (rgn_count rgn_empty) with 0. lia.
  Qed.

  Lemma slice_region_spec st c M U0 sy :
    0 < sW st -> WF M -> slice_region st c M = (U0, sy) ->
    WF U0 /\ (forall x y, rgn_mem U0 x y = true -> rgn_mem M x y = true).
  Proof.
    intros HW HM. unfold slice_region.
    destruct (sSliceH st >? 0) eqn:Eh; [|intros Hs; inversion Hs; subst; auto].
    destruct (rgn_pop_rect (rgn_bbox M) false false) as [[[[[rx1 ry1] rx2] ry2] rest]|];
      intros Hs; inversion Hs; subst; [|auto].
    set (y0 := if (cSliceY c <? ry1) || (cSliceY c >=? ry2) then ry1 else cSliceY c).
    assert (Hr : WF (rgn_create_rect 0 y0 (sW st) (y0 + sSliceH st))) by (apply create_rect_wf; lia).
    split; [wf|]. intros x y Hm. msimp_in Hm. apply andb_true_iff in Hm. tauto.
  Qed.

  Lemma send_update_inv st c sy C1 U2 sendShape c' m :
    0 < sW st -> 0 < sH st ->
    InvCore (sW st) (sH st) (fb_for st c) c -> cPW c = sW st -> cPH c = sH st ->
    C1 = r_sub (cC c) (cM c) -> WF U2 ->
    send_update st c sy C1 U2 sendShape = Some (c', m) ->
    InvCore (sW st) (sH st) (fb_for st c) c' /\ SizeOK (sW st) (sH st) c' /\ cBpp c' = cBpp c.
  Proof.
    intros HW HH I Hpw Hph EC1 HU2. unfold send_update, send_update_gen.
    pose proof (iWM _ _ _ _ I) as HWM. pose proof (iWC _ _ _ _ I) as HWC. pose proof (iWR _ _ _ _ I) as HWR.
    assert (HC1 : WF C1) by (subst C1; wf).
    set (UC := r_and (r_and C1 (cR c)) (rgn_offset (cR c) (cDX c) (cDY c))).
    set (U3 := r_sub U2 UC).
    set (M' := r_sub (r_sub (rgn_or (cM c) C1) U3) UC).
    assert (HUC : WF UC) by (unfold UC; wf).
    assert (HU3 : WF U3) by (unfold U3; wf).
    assert (HM' : WF M') by (unfold M'; wf).
    set (c1 := set_slice (set_regions c M' rgn_empty 0 0 rgn_empty) sy).
    destruct (soft_cursor st c1 U3) as [c2 U3c] eqn:Esc.
    destruct (soft_cursor_spec _ _ _ _ _ HW HH HU3 Esc)
      as (HU3c & Hsup3 & E1 & E2 & E3 & E4 & E5 & E6 & E7 & E8 & E9 & E10 & E11).
    destruct (count_fix_spec UC U3c HUC HU3c) as (HUCf & HU3f & Hsupf & HfUC & HUCcov & _ & _).
    set (UCf := fst (count_fix UC U3c)) in *. set (U3f := snd (count_fix UC U3c)) in *.
    destruct (coalesce_spec st U3f HU3f) as [HU4 Hsup4'].
    assert (Hsup4 : forall x y, rgn_mem U3c x y = true -> rgn_mem (coalesce st U3f) x y = true)
      by (intros x y Hm; apply Hsup4', Hsupf, Hm).
    set (U4 := coalesce st U3f) in *.
    set (c3 := if sendShape
               then set_flags c2 (cUseCopy c2) (cShape c2) false (cReady c2) (cUseNewFB c2) (cUseExt c2)
               else c2).
    destruct (rects_inside (sW st) (sH st) (filter raw_emitted (rgn_iter false false U4)) &&
              rects_inside (cPW c) (cPH c) (filter raw_emitted (rgn_iter false false U4)) &&
              rects_inside (cPW c) (cPH c) (copy_wrects UCf (cDX c) (cDY c)) &&
              rects_inside (cPW c) (cPH c)
                (map (fun rc => rect_shift rc (- cDX c) (- cDY c)) (copy_wrects UCf (cDX c) (cDY c))));
      [|discriminate].
    intros Hs. inversion Hs; subst c' m. clear Hs.
    assert (F3 : cM c3 = M' /\ cC c3 = rgn_empty /\ cDX c3 = 0 /\ cDY c3 = 0 /\ cR c3 = rgn_empty /\
                 cBpp c3 = cBpp c /\ cUseNewFB c3 = cUseNewFB c /\ cNewFBPending c3 = cNewFBPending c).
    { unfold c3. destruct sendShape; destruct c2; csimpl; subst; unfold c1; destruct c; csimpl; repeat split. }
    destruct F3 as (G1 & G2 & G3 & G4 & G5 & G6 & G7 & G8).
    split; [|split].
    - destruct I. constructor; (destruct c3; csimpl; subst).
      + exact HM'.
      + apply WF_empty.
      + apply WF_empty.
      + intros x y Hm. unfold M' in Hm. msimp_in Hm.
        apply andb_true_iff in Hm. destruct Hm as [Hm _]. apply andb_true_iff in Hm. destruct Hm as [Hm _].
        apply orb_true_iff in Hm. destruct Hm as [Hm|Hm]; [auto|].
        apply andb_true_iff in Hm. destruct Hm as [Hm _]. apply iCin0 in Hm. tauto.
      + intros x y Hm. rewrite rgn_mem_empty in Hm. discriminate.
      + left. split; assumption.
      + intros _ _ x y Hsc Hm. rewrite rgn_mem_empty.
        split; [discriminate|intros _].
        rewrite pic_get_build by (unfold inS in Hsc; lia).
        rewrite client_apply_sem by assumption.
        destruct (rgn_mem U4 x y) eqn:E4'; [reflexivity|].
        assert (E3' : rgn_mem U3 x y = false).
        { destruct (rgn_mem U3 x y) eqn:E; [|reflexivity]. rewrite (Hsup4 _ _ (Hsup3 _ _ E)) in E4'. discriminate. }
        unfold M' in Hm. msimp_in Hm. rewrite E3' in Hm. cbn [negb] in Hm. rewrite andb_true_r in Hm.
        assert (EUCf : rgn_mem UCf x y = rgn_mem UC x y).
        { destruct (rgn_mem UC x y) eqn:EUC0.
          - destruct (HUCcov x y EUC0) as [Hc|Hc]; [exact Hc|]. rewrite (Hsup4' _ _ Hc) in E4'. discriminate.
          - destruct (rgn_mem UCf x y) eqn:Ef; [|reflexivity]. rewrite (HfUC _ _ Ef) in EUC0. discriminate. }
        rewrite EUCf.
        destruct (rgn_mem UC x y) eqn:EUC.
        * (* delivered by CopyRect *)
          unfold UC in EUC. msimp_in EUC.
          apply andb_true_iff in EUC. destruct EUC as [EUC _]. apply andb_true_iff in EUC. destruct EUC as [EUC _].
          apply andb_true_iff in EUC. destruct EUC as [EC EM]. apply negb_true_iff in EM.
          apply (iPix0 Hpw Hph _ _ Hsc EM). exact EC.
        * cbn [negb] in Hm. rewrite andb_true_r in Hm. apply orb_false_iff in Hm. destruct Hm as [EM EC1].
          rewrite EM in EC1. cbn [negb] in EC1. rewrite andb_true_r in EC1.
          apply (iPix0 Hpw Hph _ _ Hsc EM). exact EC1.
    - left. destruct c3; csimpl. split; assumption.
    - destruct c3; csimpl. assumption.
  Qed.

  Lemma inv_send st c c' m :
    0 < sW st -> 0 < sH st ->
    InvC (sW st) (sH st) (fb_for st c) c -> send_client st c = Some (c', m) ->
    InvC (sW st) (sH st) (fb_for st c) c' /\ cBpp c' = cBpp c.
  Proof.
    intros HW HH [I S]. unfold send_client, send_client_gen.
    destruct (scaled_guard c); [discriminate|].
    destruct (cUseNewFB c && cNewFBPending c) eqn:Esc.
    - (* size short-circuit *)
      destruct (announced_size st c) as [aw ah].
      intros Hs; inversion Hs; subst. split; [split|].
      + apply core_resize. apply (core_ext _ _ _ c); try (destruct c; reflexivity). exact I.
      + apply resize_size.
      + rewrite client_resize_bpp. destruct c; reflexivity.
    - assert (Hsz : cPW c = sW st /\ cPH c = sH st).
      { destruct S as [?|[Ha Hb]]; [assumption|]. rewrite Ha, Hb in Esc. discriminate. }
      destruct Hsz as [Hpw Hph].
      pose proof (iWM _ _ _ _ I) as HWM. pose proof (iWC _ _ _ _ I) as HWC. pose proof (iWR _ _ _ _ I) as HWR.
      destruct (slice_region st c (cM c)) as [U0 sy] eqn:Esl.
      destruct (slice_region_spec _ _ _ _ _ HW HWM Esl) as [HU0 HU0sub].
      destruct (rgn_and (rgn_or U0 (r_sub (cC c) (cM c))) (cR c)) as [U2 b] eqn:Eand.
      assert (HU2 : WF U2).
      { replace U2 with (r_and (rgn_or U0 (r_sub (cC c) (cM c))) (cR c)) by (unfold r_and; rewrite Eand; reflexivity). wf. }
      destruct (negb b && rgn_is_empty U2 && (cShape c || (cCurX c =? sCurX st) && (cCurY c =? sCurY st))
                && negb (cShape c && cCurChanged c && cReady c)).
      + (* nothing to send: only C := C - M *)
        intros Hs; inversion Hs; subst. split; [split|destruct c; reflexivity].
        * destruct I. destruct c; csimpl. constructor; csimpl; try assumption; try wf.
          -- intros x y Hm. msimp_in Hm. apply andb_true_iff in Hm. apply iCin0. tauto.
          -- intros Hw Hh x y Hs0 Hm. msimp. rewrite Hm. cbn [negb]. rewrite andb_true_r. apply iPix0; assumption.
        * unfold SizeOK in *. destruct c; csimpl. exact S.
      + intros Hs.
        destruct (send_update_inv _ _ _ _ _ _ _ _ HW HH I Hpw Hph eq_refl HU2 Hs) as (Ia & Ib & Ic).
        split; [split|]; assumption.
  Qed.

  (* ---------------------------------------------------------------- state level *)
  Lemma invc_Fext W H F F' c :
    (forall x y, inS W H x y -> F' x y = F x y) -> InvC W H F c -> InvC W H F' c.
  Proof.
    intros HF [I S]. split; [|exact S]. destruct I. constructor; try assumption.
    intros Hw Hh x y Hs Hm. rewrite (HF _ _ Hs). apply iPix0; assumption.
  Qed.

  Lemma Forall_map_opt {A B} (f : A -> option B) (P : A -> Prop) (Q : B -> Prop) l l' :
    map_opt f l = Some l' -> (forall a b, f a = Some b -> P a -> Q b) -> Forall P l -> Forall Q l'.
  Proof.
    revert l'. induction l as [|a l IH]; intros l' Hm HPQ HP; cbn in Hm.
    - inversion Hm. constructor.
    - destruct (f a) as [b|] eqn:E; [|discriminate].
      destruct (map_opt f l) as [t|] eqn:Et; [|discriminate]. inversion Hm; subst.
      inversion HP; subst. constructor; [eapply HPQ; eassumption|apply IH; auto].
  Qed.

  Lemma Forall_upd_nth {A} (f : A -> option (A * option wmsg)) (P Q : A -> Prop) n l l' m :
    upd_nth n l f = Some (l', m) ->
    (forall a, P a -> Q a) -> (forall a a' m', f a = Some (a', m') -> P a -> Q a') ->
    Forall P l -> Forall Q l'.
  Proof.
    revert n l' m. induction l as [|a l IH]; intros n l' m Hu HPQ Hf HP; [destruct n; discriminate|].
    inversion HP; subst. destruct n; cbn in Hu.
    - destruct (f a) as [[a' m']|] eqn:E; [|discriminate]. inversion Hu; subst.
      constructor; [eapply Hf; eassumption|]. eapply Forall_impl; [|eassumption]. exact HPQ.
    - destruct (upd_nth n l f) as [[t m']|] eqn:E; [|discriminate]. inversion Hu; subst.
      constructor; [auto|]. eapply IH; eauto.
  Qed.

  Lemma fbf_set_fb st f x y :
    inS (sW st) (sH st) x y -> fbf (set_fb st (pic_build (sW st) (sH st) f)) x y = f x y.
  Proof. intros [? ?]. unfold fbf. destruct st; cbn in *. apply pic_get_build; assumption. Qed.

  Lemma copy_inside_sem W H K dx dy :
    WF K -> copy_inside W H K dx dy = true ->
    forall x y, rgn_mem K x y = true -> inS W H x y /\ inS W H (x - dx) (y - dy).
  Proof.
    intros HK Hc x y Hm. unfold copy_inside in Hc. apply andb_true_iff in Hc. destruct Hc as [H1 H2].
    rewrite (mem_iter_dir false false K x y HK) in Hm. apply existsb_exists in Hm.
    destruct Hm as (rc & Hin & Hrm).
    unfold rects_inside in *. rewrite forallb_forall in H1, H2.
    specialize (H1 rc Hin). specialize (H2 (rect_shift rc (- dx) (- dy)) (in_map _ _ _ Hin)).
    destruct rc as [[[x1 y1] x2] y2]. unfold rect_inside, rect_shift, rect_mem, inS in *. lia.
  Qed.

  Lemma mark_clip_inside W H x1 y1 x2 y2 rc :
    mark_clip W H x1 y1 x2 y2 = Some rc ->
    rect_nonempty rc /\ forall x y, rect_mem rc x y = true -> inS W H x y.
  Proof.
    intros Hc. pose proof (mark_clip_sem _ _ _ _ _ _ _ Hc) as Hs.
    destruct rc as [[[a b] c] d]. split; [cbn; lia|]. intros x y Hm. unfold rect_mem, inS in *. lia.
  Qed.

  (* the exclusions that are still real after the fixes 737e111 / 812461a / d179288: copy
     rectangles handed to the library are non-empty, requests are non-empty after clipping (F4 of
     C03), a cursor has a positive size.  Marks / draws with ANY arguments, rfbDoCopyRegion on ANY
     well-formed region and a NULL cursor are no longer excluded. *)
  Definition op_ok (st : state) (o : op) : Prop :=
    match o with
    | OpSchedCopy rects _ _ => Forall rect_nonempty rects
    | OpDoCopyRect x1 y1 x2 y2 _ _ => x1 < x2 /\ y1 < y2
    | OpDoCopyRegion rects _ _ => Forall rect_nonempty rects
    | OpRequest _ _ x y w h => req_ok (sW st) (sH st) x y w h
    | OpSetCursor cur => cursor_ok cur
    | _ => True
    end.

  Lemma do_copy_inv st K dx dy newf st' :
    Inv st -> WF K ->
    (forall x y, inS (sW st) (sH st) x y -> newf x y = copy_simul (fbf st) K dx dy x y) ->
    do_copy st K dx dy newf = Some st' -> Inv st'.
  Proof.
    intros (HW & HH & Hcur & Hcl) HK Hnew. unfold do_copy.
    destruct (copy_inside (sW st) (sH st) K dx dy) eqn:Eci; [|discriminate].
    pose proof (copy_inside_sem _ _ _ _ _ HK Eci) as HKin.
    destruct (map_opt (sched_copy_client (sCursor st) K dx dy) (sClients st)) as [cl|] eqn:Em; [|discriminate].
    intros Hs; inversion Hs; subst. clear Hs.
    unfold Inv. destruct st; cbn in *. repeat split; try assumption.
    eapply Forall_map_opt; [exact Em| |exact Hcl].
    intros c c' Hsc I. cbn in I.
    destruct (sched_copy_size sW sH _ _ _ _ _ _ Hsc (proj2 I)) as [_ Hbpp].
    eapply inv_sched_copy; [exact I|exact HK|exact Hcur|exact HKin| |exact Hsc].
    intros x y Hxy. unfold fb_for, fbf. cbn. rewrite Hbpp.
    rewrite pic_get_build by (unfold inS in Hxy; lia). rewrite (Hnew _ _ Hxy).
    unfold copy_simul, fbf. cbn. destruct (rgn_mem K x y); reflexivity.
  Qed.

  (* the deferral timer / scaled-screen fields never matter for the invariant *)
  Lemma inv_set_cext W H F c e : InvC W H F c -> InvC W H F (set_cext c e).
  Proof.
    intros [I S]. split; [apply (core_ext _ _ _ c); try (destruct c; reflexivity); exact I|].
    unfold SizeOK in *. destruct c; csimpl. exact S.
  Qed.

  (* rfbUpdateClient: whatever the clock says (deferring, not deferring, sending late, the clock
     running backwards), the invariant is kept: a deferred update is not lost, it stays in M / C / R *)
  Lemma inv_tick st c c' m :
    0 < sW st -> 0 < sH st ->
    InvC (sW st) (sH st) (fb_for st c) c -> tick_client st c = Some (c', m) ->
    InvC (sW st) (sH st) (fb_for st c) c' /\ cBpp c' = cBpp c.
  Proof.
    intros HW HH Ic. unfold tick_client.
    destruct (scaled_guard c); [discriminate|].
    destruct (pending st c && negb (rgn_is_empty (cR c))); [|intros Hs; inversion Hs; subst; auto].
    destruct (xDefer (sExt st) =? 0); [apply inv_send; assumption|].
    destruct (xDefU (cExt c) =? 0).
    - intros Hs; inversion Hs; subst. split; [apply inv_set_cext; exact Ic|destruct c; reflexivity].
    - destruct ((xNowS (sExt st) <? xDefS (cExt c)) || (elapsed_ms st c >? xDefer (sExt st)));
        [|intros Hs; inversion Hs; subst; auto].
      intros Hs.
      set (c0 := set_cext c (ext_timer (cExt c) (xDefS (cExt c)) 0)) in *.
      assert (E0 : fb_for st c0 = fb_for st c) by (unfold fb_for, c0; destruct c; reflexivity).
      assert (I0 : InvC (sW st) (sH st) (fb_for st c0) c0) by (rewrite E0; apply inv_set_cext; exact Ic).
      destruct (inv_send st c0 c' m HW HH I0 Hs) as [G1 G2]. rewrite E0 in G1.
      split; [exact G1|]. rewrite G2. destruct c; reflexivity.
  Qed.

  (* when everything is marked modified the pixel clause of the invariant is void: any F will do *)
  Lemma core_F_irrelevant W H F F' c :
    (forall x y, inS W H x y -> rgn_mem (cM c) x y = true) -> InvCore W H F c -> InvCore W H F' c.
  Proof.
    intros Hall I. destruct I. constructor; try assumption.
    intros Hw Hh x y Hs Hm. rewrite (Hall _ _ Hs) in Hm. discriminate.
  Qed.

  (* SetPixelFormat + non-incremental request of the whole screen *)
  Lemma inv_setpf st F F' bpp c :
    0 < sW st -> 0 < sH st ->
    InvC (sW st) (sH st) F c -> InvC (sW st) (sH st) F' (setpf_client st bpp c) /\
    cBpp (setpf_client st bpp c) = mkX (sBpp st) bpp.
  Proof.
    intros HW HH [I S]. unfold setpf_client.
    set (c1 := set_flags (set_bpp c (mkX (sBpp st) bpp)) (cUseCopy c) (cShape c) (cCurChanged c) true (cUseNewFB c) (cUseExt c)).
    assert (I1 : InvC (sW st) (sH st) F c1).
    { split; [apply (core_ext _ _ _ c); try (destruct c; reflexivity); exact I|].
      unfold SizeOK in *. destruct c; csimpl. exact S. }
    assert (Hok : req_ok (sW st) (sH st) 0 0 (sW st) (sH st)) by (unfold req_ok; lia).
    destruct (inv_request _ _ F c1 false 0 0 (sW st) (sH st) I1 Hok) as [I2 S2].
    assert (Hclip : req_clip (sW st) (sH st) 0 0 (sW st) (sH st) = Some (0, 0, sW st, sH st)).
    { unfold req_clip. destruct (sW st >? sW st - 0) eqn:E1; [lia|]. destruct (sH st >? sH st - 0) eqn:E2; [lia|].
      cbv zeta. rewrite E1, E2. reflexivity. }
    assert (Hall : forall x y, inS (sW st) (sH st) x y ->
                     rgn_mem (cM (request_client (sW st) (sH st) false 0 0 (sW st) (sH st) c1)) x y = true).
    { intros x y Hxy. pose proof (iWM _ _ _ _ (proj1 I1)) as HWM.
      assert (Ht : WF (rgn_create_rect 0 0 (0 + sW st) (0 + sH st))) by (apply create_rect_wf; lia).
      unfold request_client. rewrite Hclip. replace ((sW st =? 0) || (sH st =? 0)) with false by lia.
      unfold c1 in *. destruct c; csimpl. destruct cUseExt; csimpl; msimp;
        unfold rect_mem, inS in *; replace ((0 <=? x) && (x <? 0 + sW st) && (0 <=? y) && (y <? 0 + sH st)) with true by lia;
        apply orb_true_r. }
    split; [split; [apply core_F_irrelevant with (F := F); assumption|exact S2]|].
    unfold request_client. rewrite Hclip. replace ((sW st =? 0) || (sH st =? 0)) with false by lia.
    unfold c1. destruct c; csimpl. destruct cUseExt; reflexivity.
  Qed.

  (* SetScale: bookkeeping only (size message pending / resize message sent, chain extended) *)
  Lemma inv_setscale st F n c e' c' m :
    InvC (sW st) (sH st) F c -> setscale_client st n c = (e', c', m) ->
    InvC (sW st) (sH st) F c' /\ cBpp c' = cBpp c.
  Proof.
    intros [I S]. unfold setscale_client. cbv zeta.
    set (w := Z.quot (sW st) n). set (h := Z.quot (sH st) n).
    set (ok := (w =? sW st) && (h =? sH st) || existsb (fun '(a, b) => (a =? w) && (b =? h)) (xChain (sExt st))
               || negb ((w =? 0) || (h =? 0))).
    set (c1 := if ok then _ else c).
    assert (I1 : InvCore (sW st) (sH st) F c1 /\ cBpp c1 = cBpp c /\ cUseNewFB c1 = cUseNewFB c /\
                 cPW c1 = cPW c /\ cPH c1 = cPH c /\ (cNewFBPending c1 = true \/ c1 = c)).
    { unfold c1. destruct ok.
      - split; [apply (core_ext _ _ _ c); try (destruct c; reflexivity); exact I|].
        destruct c; csimpl. split; [reflexivity|]. split; [reflexivity|]. split; [reflexivity|].
        split; [reflexivity|]. left. reflexivity.
      - split; [exact I|]. split; [reflexivity|]. split; [reflexivity|]. split; [reflexivity|].
        split; [reflexivity|]. right. reflexivity. }
    destruct I1 as (I1 & B1 & U1 & W1 & H1 & P1).
    destruct (cUseNewFB c1 && cNewFBPending c1) eqn:E.
    - intros Hs; inversion Hs; subst. split; [split; [exact I1|]|exact B1].
      apply andb_true_iff in E. destruct E as [Ea Eb]. right. split; assumption.
    - destruct (announced_size st c1) as [aw ah]. intros Hs; inversion Hs; subst.
      split; [split|].
      + apply (core_ext _ _ _ c1); try (destruct c1; reflexivity). exact I1.
      + (* no size message can be pending for this client: its picture has the right size *)
        assert (Hsz : cPW c = sW st /\ cPH c = sH st).
        { destruct S as [?|[Ha Hb]]; [assumption|]. rewrite U1, Ha in E.
          destruct P1 as [P1|P1]; [rewrite P1 in E; discriminate|]. rewrite P1, Hb in E. discriminate. }
        left. destruct c1; csimpl. subst. exact Hsz.
      + rewrite <- B1. destruct c1; reflexivity.
  Qed.

  (* rfbNewFramebuffer re-establishes the invariant of a client from scratch: only its requested
     region is kept *)
  Lemma newfb_client_inv w h F c :
    0 < w -> 0 < h -> WF (cR c) -> InvC w h F (newfb_client w h c).
  Proof.
    intros Hw Hh HWR.
    assert (Hr : WF (rgn_create_rect 0 0 w h)) by (apply create_rect_wf; lia).
    set (c1 := set_regions c (rgn_create_rect 0 0 w h) rgn_empty 0 0 (cR c)).
    assert (I1 : InvCore w h F c1).
    { unfold c1. destruct c; csimpl. constructor; csimpl; try apply WF_empty; try assumption.
      - intros x y Hm. rewrite create_rect_mem in Hm. unfold rect_mem, inS in *. lia.
      - intros x y Hm. rewrite rgn_mem_empty in Hm. discriminate.
      - right. intros x y Hxy. rewrite create_rect_mem. unfold rect_mem, inS in *. lia.
      - intros _ _ x y Hxy Hm. rewrite create_rect_mem in Hm. unfold rect_mem, inS in *. lia. }
    unfold newfb_client. fold c1.
    destruct (cUseNewFB c1) eqn:Eu.
    - split.
      + apply (core_ext _ _ _ c1); try (destruct c; reflexivity). apply I1.
      + right. unfold c1 in *. destruct c; csimpl. split; [exact Eu|reflexivity].
    - split; [apply core_resize; apply I1|apply resize_size].
  Qed.

  Lemma rescale_client_R w h oW oH chain c : cR (snd (rescale_client w h oW oH chain c)) = cR c.
  Proof.
    unfold rescale_client. destruct (negb (rescale_visits c)).
    - cbn [snd]. destruct (cClosed c); [|reflexivity]. destruct (cScaled c); [|reflexivity]. destruct c; reflexivity.
    - destruct (cClosed c); [destruct c; reflexivity|].
      destruct (cScaled c) as [[sw sh]|]; [|reflexivity].
      match goal with |- context [if ?b then _ else _] => destruct b end; destruct c; reflexivity.
  Qed.

  Lemma rescale_clients_R w h oW oH l : forall chain,
    Forall (fun c => WF (cR c)) l -> Forall (fun c => WF (cR c)) (snd (rescale_clients w h oW oH l chain)).
  Proof.
    induction l as [|c l IH]; intros chain Hl; [constructor|].
    inversion Hl; subst. cbn [rescale_clients].
    pose proof (rescale_client_R w h oW oH chain c) as Ec.
    destruct (rescale_client w h oW oH chain c) as [ch1 c'].
    specialize (IH ch1 H2). destruct (rescale_clients w h oW oH l ch1) as [ch2 t']. cbn [snd] in *.
    constructor; [rewrite Ec; assumption|exact IH].
  Qed.

  Lemma step0_inv st o st' out : Inv st -> op_ok st o -> step0 st o = Some (st', out) -> Inv st'.
  Proof.
    intros HI Hok Hs. pose proof HI as (HW & HH & Hcur & Hcl).
    destruct o; cbn [step0] in Hs; cbn [op_ok] in Hok.
    - (* AddClient *)
      inversion Hs; subst. unfold Inv. destruct st; cbn in *. repeat split; try assumption.
      apply Forall_app. split; [exact Hcl|]. constructor; [|constructor].
      unfold new_client; cbn. split.
      + assert (Hr : WF (rgn_create_rect 0 0 sW sH)) by (apply create_rect_wf; lia).
        constructor; csimpl; try apply WF_empty; try assumption.
        * intros x y Hm. rewrite create_rect_mem in Hm. unfold rect_mem, inS in *. lia.
        * intros x y Hm. rewrite rgn_mem_empty in Hm. discriminate.
        * left. split; reflexivity.
        * intros _ _ x y Hxy Hm. rewrite create_rect_mem in Hm. unfold rect_mem, inS in *. lia.
      + left. split; reflexivity.
    - (* Mark *)
      destruct (mark_clip (sW st) (sH st) x1 y1 x2 y2) as [rc|] eqn:Emc; inversion Hs; subst; [|exact HI].
      unfold Inv. destruct st; cbn in *. repeat split; try assumption.
      apply Forall_map. eapply Forall_impl; [|exact Hcl]. intros c I. cbn in I.
      apply invc_Fext with (F := fb_for (mkState sW sH sBpp sFBid sFB sCursor sCurX sCurY sMaxRects sSliceH sClients sExt) c).
      { intros x y _. unfold fb_for, fbf. destruct c; reflexivity. }
      destruct (mark_clip_inside _ _ _ _ _ _ _ Emc) as [Hne Hrin].
      apply (inv_mark _ _ _ _ c (rect_rgn rc) I); [apply rect_rgn_wf; exact Hne| |auto].
      intros x y Hm. rewrite rect_rgn_mem in Hm. auto.
    - (* Draw *)
      destruct (mark_clip (sW st) (sH st) x1 y1 x2 y2) as [rc|] eqn:Emc; inversion Hs; subst; [|exact HI].
      unfold Inv. destruct st; cbn in *. repeat split; try assumption.
      apply Forall_map. eapply Forall_impl; [|exact Hcl]. intros c I. cbn in I.
      destruct (mark_clip_inside _ _ _ _ _ _ _ Emc) as [Hne Hrin].
      apply (inv_mark _ _ (fb_for (mkState sW sH sBpp sFBid sFB sCursor sCurX sCurY sMaxRects sSliceH sClients sExt) c) _ c (rect_rgn rc) I);
        [apply rect_rgn_wf; exact Hne| |].
      + intros x y Hm. rewrite rect_rgn_mem in Hm. auto.
      + intros x y Hxy Hm. rewrite rect_rgn_mem in Hm. unfold fb_for, fbf. cbn.
        replace (cBpp (mark_client (rect_rgn rc) c)) with (cBpp c) by (destruct c; reflexivity).
        rewrite pic_get_build by (unfold inS in Hxy; lia). unfold apply_raw. rewrite Hm. reflexivity.
    - (* SchedCopy *)
      destruct (do_copy st (rgn_of_rects rects) dx dy _) as [st1|] eqn:Ed; [|discriminate]. inversion Hs; subst.
      eapply do_copy_inv; [exact HI|apply rgn_of_rects_wf; exact Hok| |exact Ed]. auto.
    - (* DoCopyRect *)
      destruct (do_copy st (rgn_create_rect x1 y1 x2 y2) dx dy _) as [st1|] eqn:Ed; [|discriminate]. inversion Hs; subst.
      apply (do_copy_inv st (rgn_create_rect x1 y1 x2 y2) dx dy (docopy_fun (fbf st) (rgn_create_rect x1 y1 x2 y2) dx dy) st' HI); [destruct Hok; apply create_rect_wf; assumption| |exact Ed].
      intros x y _. apply docopy_rect_simul.
    - (* DoCopyRegion: any well-formed region (the order is the safe one since fix 737e111) *)
      pose proof Hok as Hne.
      destruct (do_copy st (rgn_of_rects rects) dx dy _) as [st1|] eqn:Ed; [|discriminate]. inversion Hs; subst.
      pose proof (rgn_of_rects_wf _ Hne) as HK.
      eapply do_copy_inv; [exact HI|exact HK| |exact Ed].
      intros x y _. apply docopy_region_simul. exact HK.
    - (* Request *)
      destruct (upd_nth c (sClients st) _) as [[l m]|] eqn:Eu; [|discriminate]. inversion Hs; subst.
      unfold Inv. destruct st; cbn in *. repeat split; try assumption.
      eapply Forall_upd_nth; [exact Eu| | |exact Hcl].
      + intros a Ia. exact Ia.
      + intros a a' m' Ha Ia.
        cbv beta in Ha. destruct (cScaled a); [discriminate|].
        inversion Ha; subst. cbn in Ia.
        apply invc_Fext with (F := fb_for (mkState sW sH sBpp sFBid sFB sCursor sCurX sCurY sMaxRects sSliceH sClients sExt) a).
        { intros x0 y0 _.
          assert (Hb : cBpp (request_client sW sH incr x y w h a) = cBpp a).
          { unfold request_client.
            destruct (req_clip sW sH x y w h) as [[[[? ?] ?] ?]|]; [|reflexivity].
            destruct (_ || _); [reflexivity|].
            destruct incr; destruct a; csimpl; [reflexivity|]. destruct cUseExt; reflexivity. }
          unfold fb_for, fbf. rewrite Hb. reflexivity. }
        apply inv_request; assumption.
    - (* SetEncodings *)
      destruct (upd_nth c (sClients st) _) as [[l m]|] eqn:Eu; [|discriminate]. inversion Hs; subst.
      unfold Inv. destruct st; cbn in *. repeat split; try assumption.
      eapply Forall_upd_nth; [exact Eu| | |exact Hcl].
      + intros a Ia. exact Ia.
      + intros a a' m' Ha Ia. inversion Ha; subst. cbn in Ia.
        set (st0 := mkState sW sH sBpp sFBid sFB sCursor sCurX sCurY sMaxRects sSliceH sClients sExt) in *.
        apply invc_Fext with (F := fb_for st0 a).
        { intros x0 y0 _.
          assert (Hb : cBpp (setenc_client st0 copyrect shape newfb ext a) = cBpp a).
          { unfold setenc_client.
            repeat match goal with
                   | |- context [if ?b then _ else _] => destruct b
                   end; unfold client_resize; repeat match goal with
                   | |- context [if ?b then _ else _] => destruct b
                   end; destruct a; reflexivity. }
          unfold fb_for. rewrite Hb. reflexivity. }
        apply (inv_setenc st0); assumption.
    - (* SetCursor *)
      inversion Hs; subst. clear Hs. unfold setcursor_state.
      set (cl1 := match sCursor st with
                  | Some _ => map (fun c => if cShape c then c else redraw_cursor_M st c) (sClients st)
                  | None => sClients st end).
      assert (H1 : Forall (fun c => InvC (sW st) (sH st) (fb_for st c) c) cl1).
      { unfold cl1. destruct (sCursor st) as [cb|]; [|exact Hcl]. apply Forall_map.
        eapply Forall_impl; [|exact Hcl]. intros c [I S]. destruct (cShape c); [split; assumption|].
        apply invc_Fext with (F := fb_for st c).
        { intros x y _. unfold fb_for. destruct c; reflexivity. }
        split; [apply core_redraw; assumption|apply set_M_size; exact S]. }
      set (st1 := set_cursor (set_clients st cl1) cur).
      assert (E1 : sW st1 = sW st /\ sH st1 = sH st) by (destruct st; split; reflexivity).
      destruct E1 as [EW EH].
      unfold Inv. replace (sW (set_clients st1 _)) with (sW st) by (destruct st; reflexivity).
      replace (sH (set_clients st1 _)) with (sH st) by (destruct st; reflexivity).
      split; [assumption|]. split; [assumption|]. split; [destruct st; exact Hok|].
      replace (sClients (set_clients st1 _)) with
          (map (fun c => (fun s c0 => if cShape c0 then c0 else redraw_cursor_M s c0) st1
                     (set_flags c (cUseCopy c) (cShape c) true (cReady c) (cUseNewFB c) (cUseExt c))) cl1)
        by (destruct st; reflexivity).
      apply Forall_map. eapply Forall_impl; [|exact H1]. intros c [I S].
      set (c1 := set_flags c (cUseCopy c) (cShape c) true (cReady c) (cUseNewFB c) (cUseExt c)).
      assert (I1 : InvC (sW st) (sH st) (fb_for st c) c1).
      { split; [apply (core_ext _ _ _ c); try (destruct c; reflexivity); exact I|].
        unfold SizeOK in *. destruct c; csimpl. exact S. }
      destruct I1 as [I1 S1]. cbv beta.
      assert (HF : forall c2, cBpp c2 = cBpp c -> forall x y, inS (sW st) (sH st) x y ->
                     fb_for (set_clients st1 (map (fun c0 => if cShape c0 then c0 else redraw_cursor_M st1 c0)
                        (map (fun c0 => set_flags c0 (cUseCopy c0) (cShape c0) true (cReady c0) (cUseNewFB c0) (cUseExt c0)) cl1))) c2 x y
                     = fb_for st c x y).
      { intros c2 Hb x y _. unfold fb_for. rewrite Hb. destruct st; reflexivity. }
      destruct (cShape c1) eqn:Esh.
      + apply invc_Fext with (F := fb_for st c); [|split; assumption].
        intros x y Hxy. unfold fb_for. replace (cBpp c1) with (cBpp c) by (destruct c; reflexivity).
        destruct st; reflexivity.
      + apply invc_Fext with (F := fb_for st c).
        { intros x y Hxy. unfold fb_for.
          replace (cBpp (redraw_cursor_M st1 c1)) with (cBpp c) by (destruct c; reflexivity).
          destruct st; reflexivity. }
        rewrite <- EW, <- EH. split; [apply core_redraw; rewrite ?EW, ?EH; assumption|].
        apply set_M_size. rewrite EW, EH. exact S1.
    - (* Knobs *)
      inversion Hs; subst. unfold Inv. destruct st; cbn in *. repeat split; try assumption.
    - (* Tick *)
      destruct (upd_nth c (sClients st) (tick_client st)) as [[l m]|] eqn:Eu; [|discriminate]. inversion Hs; subst.
      unfold Inv.
      replace (sW (set_clients st l)) with (sW st) by (destruct st; reflexivity).
      replace (sH (set_clients st l)) with (sH st) by (destruct st; reflexivity).
      replace (sCursor (set_clients st l)) with (sCursor st) by (destruct st; reflexivity).
      replace (sClients (set_clients st l)) with l by (destruct st; reflexivity).
      repeat split; try assumption.
      eapply Forall_upd_nth with (P := fun c => InvC (sW st) (sH st) (fb_for st c) c); [exact Eu| | |exact Hcl].
      + intros a Ia. apply invc_Fext with (F := fb_for st a); [|exact Ia].
        intros x y _. unfold fb_for. destruct st; reflexivity.
      + intros a a' m' Ha Ia.
        destruct (inv_tick st a a' m' HW HH Ia Ha) as [G1 G2]. apply invc_Fext with (F := fb_for st a); [|exact G1].
        intros x y _. unfold fb_for. rewrite G2. destruct st; reflexivity.
    - (* Send *)
      destruct (upd_nth c (sClients st) (send_client st)) as [[l m]|] eqn:Eu; [|discriminate]. inversion Hs; subst.
      unfold Inv.
      replace (sW (set_clients st l)) with (sW st) by (destruct st; reflexivity).
      replace (sH (set_clients st l)) with (sH st) by (destruct st; reflexivity).
      replace (sCursor (set_clients st l)) with (sCursor st) by (destruct st; reflexivity).
      replace (sClients (set_clients st l)) with l by (destruct st; reflexivity).
      repeat split; try assumption.
      eapply Forall_upd_nth with (P := fun c => InvC (sW st) (sH st) (fb_for st c) c); [exact Eu| | |exact Hcl].
      + intros a Ia. apply invc_Fext with (F := fb_for st a); [|exact Ia].
        intros x y _. unfold fb_for. destruct st; reflexivity.
      + intros a a' m' Ha Ia.
        destruct (inv_send st a a' m' HW HH Ia Ha) as [G1 G2].
        apply invc_Fext with (F := fb_for st a); [|exact G1].
        intros x y _. unfold fb_for. rewrite G2. destruct st; reflexivity.
    - (* NewFB *)
      destruct ((0 <? w) && (0 <? h) && fmt_ok bpp) eqn:Eok; [|discriminate].
      apply andb_prop in Eok. destruct Eok as [Eok _].
      inversion Hs; subst. clear Hs.
      unfold Inv, newfb_state.
      pose proof (rescale_clients_R w h (sW st) (sH st) (rev (sClients st)) []) as HR.
      destruct (rescale_clients w h (sW st) (sH st) (rev (sClients st)) []) as [chain rcl].
      cbn [sW sH sCursor sClients snd] in *.
      split; [lia|]. split; [lia|]. split; [exact Hcur|].
      apply Forall_map. apply Forall_rev. eapply Forall_impl; [|apply HR].
      + intros c HWR. apply newfb_client_inv; [lia|lia|].
        unfold reselect. destruct (bpp =? UpdateDefs.sBpp st); [exact HWR|destruct c; exact HWR].
      + apply Forall_rev. eapply Forall_impl; [|exact Hcl]. intros c [I _]. apply (iWR _ _ _ _ I).
    - (* SetDesktopSize *)
      destruct (c <? length (sClients st))%nat; [|discriminate].
      destruct (nscreens =? 0); inversion Hs; subst; [exact HI|].
      unfold Inv.
      replace (sW (set_clients st _)) with (sW st) by (destruct st; reflexivity).
      replace (sH (set_clients st _)) with (sH st) by (destruct st; reflexivity).
      replace (sCursor (set_clients st _)) with (sCursor st) by (destruct st; reflexivity).
      replace (sClients (set_clients st (setdesktop_clients_at c hookres (sClients st))))
        with (setdesktop_clients_at c hookres (sClients st)) by (destruct st; reflexivity).
      repeat split; try assumption.
      assert (Hone : forall l0 b a, InvC (sW st) (sH st) (fb_for st a) a ->
                       InvC (sW st) (sH st)
                            (fb_for (set_clients st l0) (setdesktop_one b hookres a)) (setdesktop_one b hookres a)).
      { intros l0 b a [I S].
        apply invc_Fext with (F := fb_for st a).
        { intros x y _. unfold fb_for, setdesktop_one.
          destruct b; destruct (hookres =? 0); try destruct (sds_keeps_own_answer && _); destruct a; destruct st; reflexivity. }
        split.
        - apply (core_ext _ _ _ a); try (unfold setdesktop_one; destruct b; destruct (hookres =? 0); try destruct (sds_keeps_own_answer && _); destruct a; reflexivity).
          exact I.
        - unfold SizeOK, setdesktop_one in *. destruct b; destruct (hookres =? 0); try destruct (sds_keeps_own_answer && _); destruct a; csimpl; tauto. }
      clear Hs HI.
      generalize (setdesktop_clients_at c hookres (sClients st)) at 1. intros l0.
      revert Hcl. generalize (sClients st). revert c.
      intros n l. revert n. induction l as [|a l IH]; intros n Hl; [destruct n; constructor|].
      inversion Hl; subst. destruct n; cbn [setdesktop_clients_at].
      + constructor; [apply Hone; assumption|]. apply Forall_map. eapply Forall_impl; [|eassumption].
        intros a0 Ia0. apply Hone. exact Ia0.
      + constructor; [apply Hone; assumption|apply IH; assumption].
    - (* Time *)
      inversion Hs; subst. unfold Inv. destruct st; cbn in *. repeat split; try assumption.
    - (* Defer *)
      inversion Hs; subst. unfold Inv. destruct st; cbn in *. repeat split; try assumption.
    - (* SetPixelFormat *)
      destruct ((bpp =? 1) || (bpp =? 2) || (bpp =? 4)); [|discriminate].
      destruct (upd_nth c (sClients st) _) as [[l m]|] eqn:Eu; [|discriminate]. inversion Hs; subst.
      unfold Inv.
      replace (sW (set_clients st l)) with (sW st) by (destruct st; reflexivity).
      replace (sH (set_clients st l)) with (sH st) by (destruct st; reflexivity).
      replace (sCursor (set_clients st l)) with (sCursor st) by (destruct st; reflexivity).
      replace (sClients (set_clients st l)) with l by (destruct st; reflexivity).
      repeat split; try assumption.
      eapply Forall_upd_nth with (P := fun c => InvC (sW st) (sH st) (fb_for st c) c); [exact Eu| | |exact Hcl].
      + intros a Ia. apply invc_Fext with (F := fb_for st a); [|exact Ia].
        intros x y _. unfold fb_for. destruct st; reflexivity.
      + intros a a' m' Ha Ia. cbv beta in Ha. destruct (cScaled a); [discriminate|]. inversion Ha; subst.
        apply (inv_setpf st (fb_for st a) _ bpp a HW HH Ia).
    - (* SetScale *)
      destruct (scale <=? 0); [discriminate|].
      destruct (nth_error (sClients st) c) as [cl|] eqn:En; [|discriminate].
      destruct (setscale_client st scale cl) as [[e' cl'] m] eqn:Ess.
      destruct (upd_nth c (sClients st) _) as [[l m0]|] eqn:Eu; [|discriminate]. inversion Hs; subst.
      unfold Inv.
      replace (sW (set_sext (set_clients st l) e')) with (sW st) by (destruct st; reflexivity).
      replace (sH (set_sext (set_clients st l) e')) with (sH st) by (destruct st; reflexivity).
      replace (sCursor (set_sext (set_clients st l) e')) with (sCursor st) by (destruct st; reflexivity).
      replace (sClients (set_sext (set_clients st l) e')) with l by (destruct st; reflexivity).
      repeat split; try assumption.
      assert (Icl : InvC (sW st) (sH st) (fb_for st cl) cl).
      { rewrite Forall_forall in Hcl. apply Hcl. eapply nth_error_In; eassumption. }
      destruct (inv_setscale st _ _ _ _ _ _ Icl Ess) as [G1 G2].
      eapply Forall_upd_nth with (P := fun c => InvC (sW st) (sH st) (fb_for st c) c); [exact Eu| | |exact Hcl].
      + intros a Ia. apply invc_Fext with (F := fb_for st a); [|exact Ia].
        intros x y _. unfold fb_for. destruct st; reflexivity.
      + intros a a' m' Ha _. inversion Ha; subst.
        apply invc_Fext with (F := fb_for st cl); [|exact G1].
        intros x y _. unfold fb_for. rewrite G2. destruct st; reflexivity.
    - (* Close: only the life flag *)
      destruct (upd_nth c (sClients st) _) as [[l m]|] eqn:Eu; [|discriminate]. inversion Hs; subst.
      unfold Inv.
      replace (sW (set_clients st l)) with (sW st) by (destruct st; reflexivity).
      replace (sH (set_clients st l)) with (sH st) by (destruct st; reflexivity).
      replace (sCursor (set_clients st l)) with (sCursor st) by (destruct st; reflexivity).
      replace (sClients (set_clients st l)) with l by (destruct st; reflexivity).
      repeat split; try assumption.
      eapply Forall_upd_nth with (P := fun c => InvC (sW st) (sH st) (fb_for st c) c); [exact Eu| | |exact Hcl].
      + intros a Ia. apply invc_Fext with (F := fb_for st a); [|exact Ia].
        intros x y _. unfold fb_for. destruct st; reflexivity.
      + intros a a' m' Ha Ia. inversion Ha; subst.
        apply invc_Fext with (F := fb_for st a); [|apply inv_set_cext; exact Ia].
        intros x y _. unfold fb_for. destruct a; destruct st; reflexivity.
    - (* Reap: only the life flags *)
      destruct (existsb cDangling (sClients st)); [discriminate|]. inversion Hs; subst.
      unfold Inv.
      replace (sW (set_clients st _)) with (sW st) by (destruct st; reflexivity).
      replace (sH (set_clients st _)) with (sH st) by (destruct st; reflexivity).
      replace (sCursor (set_clients st _)) with (sCursor st) by (destruct st; reflexivity).
      match goal with |- context [sClients (set_clients st ?l)] =>
        replace (sClients (set_clients st l)) with l by (destruct st; reflexivity) end.
      repeat split; try assumption.
      apply Forall_map. eapply Forall_impl; [|exact Hcl]. intros a Ia.
      destruct (cClosed a).
      + apply invc_Fext with (F := fb_for st a); [|apply inv_set_cext; exact Ia].
        intros x y _. unfold fb_for. destruct a; destruct st; reflexivity.
      + apply invc_Fext with (F := fb_for st a); [|exact Ia].
        intros x y _. unfold fb_for. destruct st; reflexivity.
    - (* DrawPal: as Draw, the painted values are arbitrary *)
      destruct cols as [|col0 cols']; [discriminate|]. set (cols := col0 :: cols') in *.
      destruct (mark_clip (sW st) (sH st) x1 y1 x2 y2) as [rc|] eqn:Emc; inversion Hs; subst; [|exact HI].
      unfold Inv. destruct st; cbn in *. repeat split; try assumption.
      apply Forall_map. eapply Forall_impl; [|exact Hcl]. intros c I. cbn in I.
      destruct (mark_clip_inside _ _ _ _ _ _ _ Emc) as [Hne Hrin].
      apply (inv_mark _ _ (fb_for (mkState sW sH sBpp sFBid sFB sCursor sCurX sCurY sMaxRects sSliceH sClients sExt) c) _ c (rect_rgn rc) I);
        [apply rect_rgn_wf; exact Hne| |].
      + intros x y Hm. rewrite rect_rgn_mem in Hm. auto.
      + intros x y Hxy Hm. rewrite rect_rgn_mem in Hm. unfold fb_for, fbf. cbn [UpdateDefs.sFB UpdateDefs.sBpp UpdateDefs.set_fb UpdateDefs.set_clients].
        replace (cBpp (mark_client (rect_rgn rc) c)) with (cBpp c) by (destruct c; reflexivity).
        rewrite pic_get_build by (unfold inS in Hxy; lia). unfold apply_raw. rewrite Hm. reflexivity.
  Qed.

  Lemma step_inv st o st' out : Inv st -> op_ok st o -> step st o = Some (st', out) -> Inv st'.
  Proof.
    intros HI Hok. unfold step. destruct (op_target o) as [c|]; [destruct (live_at st c); [|discriminate]|];
      apply step0_inv; assumption.
  Qed.

  (* run-level: validity of every operation in the state where it is executed *)
  Fixpoint run_ok (st : state) (ops : list op) : Prop :=
    match ops with
    | [] => True
    | o :: t => op_ok st o /\ forall st' out, step st o = Some (st', out) -> run_ok st' t
    end.

  Theorem run_inv ops : forall st st', Inv st -> run_ok st ops -> run st ops = Some st' -> Inv st'.
  Proof.
    induction ops as [|o t IH]; intros st st' HI Hok Hr; cbn in Hr.
    - inversion Hr; subst. exact HI.
    - destruct Hok as [Ho Hrest]. destruct (step st o) as [[st1 out]|] eqn:Es; [|discriminate].
      apply (IH st1); [exact (step_inv _ _ _ _ HI Ho Es)|exact (Hrest _ _ eq_refl)|exact Hr].
  Qed.

  Lemma init_inv W H bpp : 0 < W -> 0 < H -> Inv (init_state W H bpp).
  Proof.
    intros HW HH. unfold Inv, init_state. cbn. repeat split; try assumption; try constructor.
    all: vm_compute; reflexivity.
  Qed.

End RegionFacts.
