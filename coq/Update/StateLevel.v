(* C16: statements at the level of states / steps (the helper-level lemmas of NewFB.v tied to
   [newfb_state] and [step]), the size short-circuit for ANY client (scaled or not) and the universal
   facts about the scaled screens rebuilt by rfbNewFramebuffer. *)
From LV Require Import Region.RegionDefs Region.RegionSem Region.RegionProofs0 Region.RegionProofs
     Gen.Consts_C16
     Update.UpdateDefs Update.UpdateFacts Update.UpdateProofs0 Update.UpdateProofs Update.UpdateThms Update.NewFB.
From Coq Require Import ZifyBool.
Local Open Scope Z_scope.

(* ------------------------------------------------------------------ the size short-circuit, any client *)
(* a client with a pending size message gets exactly that message - one pseudo-rectangle carrying the size
   of ITS screen (the scaled one for a scaled client) - and nothing else, whatever else is pending *)
Lemma size_shortcircuit st c :
  cUseNewFB c = true -> cNewFBPending c = true ->
  exists c',
    send_client st c =
      Some (c', Some (1, [if cUseExt c
                          then WExt (cReqChange c mod 65536) (cLastErr c mod 65536)
                                    (fst (announced_size st c)) (snd (announced_size st c))
                          else WNewFB (fst (announced_size st c)) (snd (announced_size st c))])) /\
    cNewFBPending c' = false /\ cScaled c' = cScaled c /\
    cM c' = cM c /\ cC c' = cC c /\ cR c' = cR c.
Proof.
  intros Hu Hp. unfold send_client, send_client_gen, scaled_guard.
  rewrite Hu, Hp. cbn [andb negb].
  destruct (cScaled c) eqn:Esc; cbn [negb]; destruct (announced_size st c) as [aw ah]; cbn [fst snd];
    eexists; (split; [reflexivity|]);
    unfold client_resize; match goal with |- context [if ?b then _ else _] => destruct b end;
    unfold cScaled in *; destruct c; cbn in *; repeat split; assumption.
Qed.

(* ------------------------------------------------------------------ rescale_client, universally *)
Lemma find_factor_spec fuel : forall f oW oH sw sh,
  let r := find_factor fuel f oW oH sw sh in
  r = 0 \/ (f <= r /\ Z.quot oW r = sw /\ Z.quot oH r = sh).
Proof.
  induction fuel as [|k IH]; intros f oW oH sw sh; cbn [find_factor]; [left; reflexivity|].
  destruct ((Z.quot oW f =? sw) && (Z.quot oH f =? sh)) eqn:E.
  - right. lia.
  - destruct (IH (f + 1) oW oH sw sh) as [H0|H1]; [left; exact H0|right; lia].
Qed.

(* what rfbNewFramebuffer does to one client's scaled screen: the chain only grows; a connected client
   that still has a scaled screen afterwards has one of the NEW framebuffer - its size is (w/f, h/f) for
   a factor f > 1 that reproduces its old scaled size from the old framebuffer size, both dimensions are
   positive, the size is in the chain, and the size message is pending *)
Lemma rescale_client_spec w h oW oH chain c :
  let r := rescale_client w h oW oH chain c in
  incl chain (fst r) /\
  (cLive c = true -> cLive (snd r) = true /\
     forall s, cScaled (snd r) = Some s ->
       In s (fst r) /\ 0 < fst s /\ 0 < snd s /\ cNewFBPending (snd r) = true /\
       exists f sw sh, cScaled c = Some (sw, sh) /\ 1 < f /\ s = (Z.quot w f, Z.quot h f) /\
                       Z.quot oW f = sw /\ Z.quot oH f = sh).
Proof.
  unfold rescale_client, rescale_visits, cClosed.
  destruct (cLive c) eqn:EL.
  2:{ cbn [orb negb]. split; [|discriminate].
      repeat match goal with
             | |- context [if ?b then _ else _] => destruct b
             | |- context [match ?o with Some _ => _ | None => _ end] => destruct o as [[? ?]|]
             end; cbn [fst]; try apply incl_refl; apply incl_tl, incl_refl. }
  cbn [orb negb].
  assert (E1 : xLife (cExt c) =? 1 = false) by (unfold cLive in EL; lia).
  assert (E3 : xLife (cExt c) =? 3 = false) by (unfold cLive in EL; lia).
  rewrite E1, E3. cbn [orb].
  destruct (cScaled c) as [[sw sh]|] eqn:Esc.
  2:{ cbn [fst snd]. split; [apply incl_refl|]. intros _. split; [exact EL|]. intros s Hs. congruence. }
  set (f := find_factor (Z.to_nat (Z.max oW oH)) 1 oW oH sw sh).
  destruct ((f >? 1) && (Z.quot w f >? 0) && (Z.quot h f >? 0)) eqn:Eok.
  2:{ cbn [fst snd]. split; [apply incl_refl|]. intros _.
      split; [unfold cLive in *; destruct c; exact EL|].
      intros s Hs. unfold cScaled in Hs. destruct c; cbn in Hs. discriminate. }
  cbn [fst snd].
  pose proof (find_factor_spec (Z.to_nat (Z.max oW oH)) 1 oW oH sw sh) as Hf. fold f in Hf. cbv zeta in Hf.
  assert (Hf1 : 1 < f) by lia.
  destruct Hf as [Hf|(Hf2 & Hq1 & Hq2)]; [lia|].
  split.
  { destruct (_ || _); [apply incl_refl|apply incl_tl, incl_refl]. }
  intros _. split; [unfold cLive in *; destruct c; exact EL|].
  intros s Hs.
  destruct ((Z.quot w f =? w) && (Z.quot h f =? h)) eqn:Emain.
  { unfold cScaled in Hs. destruct c; cbn in Hs. discriminate. }
  assert (Es : s = (Z.quot w f, Z.quot h f)) by (unfold cScaled in Hs; destruct c; cbn in Hs; congruence).
  subst s. cbn [fst snd orb].
  split.
  { destruct (existsb _ chain) eqn:Eex; [|left; reflexivity].
    apply existsb_exists in Eex. destruct Eex as ([a b] & Hin & Hab).
    assert (Hab2 : a = Z.quot w f /\ b = Z.quot h f) by lia. destruct Hab2 as [-> ->]. exact Hin. }
  split; [lia|]. split; [lia|]. split; [destruct c; reflexivity|].
  exists f, sw, sh. repeat split; assumption.
Qed.

(* for the whole client list: afterwards every connected scaled client's screen is in the new chain *)
Lemma rescale_clients_spec w h oW oH l : forall chain,
  let r := rescale_clients w h oW oH l chain in
  incl chain (fst r) /\
  Forall (fun c' => cLive c' = true -> forall s, cScaled c' = Some s ->
                    In s (fst r) /\ 0 < fst s /\ 0 < snd s /\ cNewFBPending c' = true)
         (snd r) /\
  length (snd r) = length l.
Proof.
  induction l as [|c l IH]; intros chain; cbn [rescale_clients].
  - cbn. split; [apply incl_refl|]. split; [constructor|reflexivity].
  - pose proof (rescale_client_spec w h oW oH chain c) as Hc. cbv zeta in Hc.
    destruct (rescale_client w h oW oH chain c) as [ch1 c'] eqn:Erc. cbn [fst snd] in Hc.
    specialize (IH ch1). cbv zeta in IH.
    destruct (rescale_clients w h oW oH l ch1) as [ch2 t'] eqn:Erl. cbn [fst snd] in *.
    destruct Hc as [Hinc Hc]. destruct IH as (Hinc2 & Hall & Hlen).
    split; [eapply incl_tran; eassumption|]. split; [|cbn; lia].
    constructor; [|exact Hall].
    intros HL s Hs.
    (* c' is live only if c was live and visited *)
    assert (HLc : cLive c = true).
    { destruct (cLive c) eqn:E; [reflexivity|].
      revert Erc. unfold rescale_client, rescale_visits, cClosed. rewrite E. cbn [orb negb].
      unfold cLive in *.
      repeat match goal with
             | |- context [if ?b then _ else _] => destruct b eqn:?
             | |- context [match ?o with Some _ => _ | None => _ end] => destruct o as [[? ?]|]
             end; intros Hx; inversion Hx; subst; try congruence;
        try (destruct c; cbn in *; lia). }
    destruct (Hc HLc) as [_ Hc2]. destruct (Hc2 s Hs) as (H1 & H2 & H3 & H4 & _).
    split; [apply Hinc2; exact H1|]. repeat split; assumption.
Qed.

(* ------------------------------------------------------------------ newfb_state, at the level of the state *)
Lemma rescale_client_unscaled w h oW oH chain c :
  cScaled c = None -> cClosed c = false -> rescale_client w h oW oH chain c = (chain, c).
Proof.
  intros Hs Hc. unfold rescale_client. rewrite Hc, Hs.
  destruct (negb (rescale_visits c)); reflexivity.
Qed.

Lemma rescale_clients_In w h oW oH l : forall chain c,
  In c l -> cScaled c = None -> cClosed c = false -> In c (snd (rescale_clients w h oW oH l chain)).
Proof.
  induction l as [|a l IH]; intros chain c Hin Hs Hc; [destruct Hin|].
  cbn [rescale_clients].
  destruct (rescale_client w h oW oH chain a) as [ch1 a'] eqn:Ea.
  destruct (rescale_clients w h oW oH l ch1) as [ch2 t'] eqn:El. cbn [snd].
  destruct Hin as [->|Hin].
  - rewrite (rescale_client_unscaled _ _ _ _ _ _ Hs Hc) in Ea. inversion Ea; subst. left; reflexivity.
  - right. specialize (IH ch1 c Hin Hs Hc). rewrite El in IH. exact IH.
Qed.

(* every unscaled, not closed client c of the state is, after rfbNewFramebuffer, the record
   [newfb_client w h (reselect old new c)] of the new state *)
Lemma newfb_state_In st w h bpp seed c :
  In c (sClients st) -> cScaled c = None -> cClosed c = false ->
  In (newfb_client w h (reselect (sBpp st) bpp c)) (sClients (newfb_state st w h bpp seed)).
Proof.
  intros Hin Hs Hc. unfold newfb_state.
  pose proof (rescale_clients_In w h (sW st) (sH st) (rev (sClients st)) [] c) as HR.
  destruct (rescale_clients w h (sW st) (sH st) (rev (sClients st)) []) as [chain rcl].
  cbn [UpdateDefs.sClients snd] in *.
  apply in_map_iff. exists c. split; [reflexivity|]. apply (proj1 (in_rev rcl c)).
  apply HR; [apply (proj1 (in_rev _ _)); exact Hin|assumption|assumption].
Qed.

Lemma reselect_fields a b c :
  cUseNewFB (reselect a b c) = cUseNewFB c /\ cScaled (reselect a b c) = cScaled c /\
  cUseExt (reselect a b c) = cUseExt c /\ cReqChange (reselect a b c) = cReqChange c /\
  cLastErr (reselect a b c) = cLastErr c /\ cR (reselect a b c) = cR c.
Proof. unfold reselect. destruct (b =? a); [|destruct c]; repeat split. Qed.

(* C16_size_first at the level of the state: for every connected, unscaled client of the state that
   announced resize support there is a record in the new state whose next update is exactly the size
   pseudo-rectangle with the new size (and its reason / status), after which its picture has the new size,
   everything is modified and no copy is pending *)
Lemma size_first_state st w h bpp seed c :
  In c (sClients st) -> cUseNewFB c = true -> cScaled c = None -> cClosed c = false ->
  exists c1 c2,
    In c1 (sClients (newfb_state st w h bpp seed)) /\
    send_client (newfb_state st w h bpp seed) c1 =
      Some (c2, Some (1, [if cUseExt c then WExt (cReqChange c mod 65536) (cLastErr c mod 65536) w h
                          else WNewFB w h])) /\
    cNewFBPending c2 = false /\ cPW c2 = w /\ cPH c2 = h /\
    cM c2 = rgn_create_rect 0 0 w h /\ cC c2 = rgn_empty /\ cR c2 = cR c.
Proof.
  intros Hin Hu Hs Hc.
  destruct (reselect_fields (sBpp st) bpp c) as (F1 & F2 & F3 & F4 & F5 & F6).
  destruct (size_first st w h bpp seed (reselect (sBpp st) bpp c)) as (c2 & E1 & _ & E3 & E4 & E5 & E6 & E7 & E8 & _);
    [rewrite F1; exact Hu|rewrite F2; exact Hs|].
  exists (newfb_client w h (reselect (sBpp st) bpp c)), c2.
  split; [apply newfb_state_In; assumption|].
  rewrite F3, F4, F5 in E1. rewrite F6 in E8. repeat split; assumption.
Qed.

(* ------------------------------------------------------------------ SetDesktopSize, at the level of a step *)
Lemma setdesktop_clients_at_nth hr : forall l n m c,
  nth_error l m = Some c ->
  nth_error (setdesktop_clients_at n hr l) m = Some (setdesktop_one (Nat.eqb m n) hr c).
Proof.
  induction l as [|a t IH]; intros n m c Hm; [destruct m; discriminate|].
  destruct n as [|n']; destruct m as [|m']; cbn [setdesktop_clients_at nth_error Nat.eqb] in *.
  - inversion Hm; reflexivity.
  - rewrite nth_error_map, Hm. reflexivity.
  - inversion Hm; reflexivity.
  - apply IH. exact Hm.
Qed.

(* one SetDesktopSize message with at least one screen: the requester's record gets reason "this client"
   and the application's status (refusal: answer forced), every other record learns "other client" after an
   accepted request; nothing else in the state changes, in particular no size *)
Lemma setdesktop_step st n w h ns hr st' out m c :
  ns <> 0 -> step st (OpSetDesktopSize n w h ns hr) = Some (st', out) ->
  nth_error (sClients st) m = Some c ->
  nth_error (sClients st') m = Some (setdesktop_one (Nat.eqb m n) hr c) /\
  sW st' = sW st /\ sH st' = sH st /\ sBpp st' = sBpp st /\ sFB st' = sFB st /\ out = [].
Proof.
  intros Hns. unfold step. cbn [op_target]. destruct (live_at st n); [|discriminate]. cbn [step0].
  destruct (n <? length (sClients st))%nat; [|discriminate].
  replace (ns =? 0) with false by lia. intros Hs Hm. inversion Hs; subst.
  split; [|destruct st; repeat split].
  replace (sClients (set_clients st (setdesktop_clients_at n hr (sClients st))))
    with (setdesktop_clients_at n hr (sClients st)) by (destruct st; reflexivity).
  apply setdesktop_clients_at_nth. exact Hm.
Qed.
