(* C02 <-> C03: the count stage of the update model ([count_fix] + [coalesce] on sra regions) announces the same
   number as the count-stage model of property C03 (Wire/CountsModel.v, [announce_fixed] with both repairs,
   for an encoding that counts one rectangle per region rectangle: Raw) on any rectangle lists of the same
   lengths as the regions.  The two models were written independently from the same C text
   (rfbSendFramebufferUpdate, "goto countRects"). *)
From LV Require Import Region.RegionDefs Region.RegionSem Region.RegionProofs0 Region.RegionProofs
     Update.UpdateDefs Update.UpdateFacts Update.UpdateProofs0 Update.UpdateProofs Update.UpdateThms Update.NewFB Update.Slices Update.Count.
From LV Require Wire.CountsModel.
From Coq Require Import ZifyBool.
Local Open Scope Z_scope.

Lemma count_zero_empty r : WF r -> rgn_count r = 0 -> r = [].
Proof.
  intros Hr H0. rewrite (count_iter false false r) in H0.
  assert (Hi : rgn_iter false false r = []) by (destruct (rgn_iter false false r); [reflexivity|cbn in H0; lia]).
  assert (He : rgn_is_empty r = true).
  { apply (is_empty_sem r Hr). intros x y. rewrite (mem_iter_eq r x y Hr). unfold mem_iter. rewrite Hi. reflexivity. }
  destruct r; [reflexivity|discriminate].
Qed.

Lemma count_bbox_nonempty r : WF r -> r <> [] -> rgn_count (rgn_bbox r) = 1.
Proof.
  intros [lo W] Hne. rewrite rgn_bbox_unfold.
  pose proof (bbox_fold_y 0 0 r lo INT_MAX INT_MAX (1 - INT_MAX) (1 - INT_MAX) W) as G.
  destruct (fold_left bbox_step r _) as [[[a b] c] d].
  destruct G as (_ & _ & _ & _ & _ & G). destruct (G Hne) as [G1 G2].
  replace ((c <? a) || (d <? b)) with false by lia. reflexivity.
Qed.

Lemma count_bbox_empty : rgn_count (rgn_bbox []) = 0.
Proof. reflexivity. Qed.

Module CM := Wire.CountsModel.

Lemma stage_raw cmw cmh l : CM.count_stage 0 false cmw cmh l = Some (Z.of_nat (length l), false).
Proof.
  unfold CM.count_stage, CM.tight_unknown, CM.n_region_rects.
  replace (CM.is_tight_class 0) with false by (vm_compute; reflexivity).
  replace (CM.classify 0) with CM.EcOther by (vm_compute; reflexivity).
  reflexivity.
Qed.

Lemma finish_raw maxr s region1 n1 nc keep :
  exists region',
    CM.finish_count 0 maxr s region1 n1 false nc keep =
    Some (CM.wrap16 (nc + (if (maxr >? 0) && (n1 >? maxr) then 1 else n1) + s), region', false, keep).
Proof.
  unfold CM.finish_count, CM.exempt_from_coalescing.
  replace (CM.classify 0) with CM.EcOther by (vm_compute; reflexivity). cbn [negb andb].
  rewrite andb_true_r.
  destruct ((maxr >? 0) && (n1 >? maxr)); eexists; reflexivity.
Qed.

Lemma coalesce_count_eq st V : WF V ->
  rgn_count (coalesce st V) = if (sMaxRects st >? 0) && (rgn_count V >? sMaxRects st) then 1 else rgn_count V.
Proof.
  intros HV. unfold coalesce. destruct ((sMaxRects st >? 0) && (rgn_count V >? sMaxRects st)) eqn:E; [|reflexivity].
  apply count_bbox_nonempty; [exact HV|]. intros ->. change (rgn_count []) with 0 in E. lia.
Qed.

Lemma bbox_region_len (l : list CM.xywh) : Z.of_nat (length (CM.bbox_region l)) = if (Z.of_nat (length l) =? 0) then 0 else 1.
Proof. destruct l; reflexivity. Qed.

Lemma count_bbox_eq r : WF r -> rgn_count (rgn_bbox r) = if rgn_count r =? 0 then 0 else 1.
Proof.
  intros Hr. destruct (rgn_count r =? 0) eqn:E.
  - rewrite (count_zero_empty r Hr) by lia. reflexivity.
  - apply count_bbox_nonempty; [exact Hr|]. intros ->. change (rgn_count []) with 0 in E. lia.
Qed.

(* the announced count of the update model = the announced count of C03's count-stage model *)
Theorem count_stage_agrees st UC U (region copyl : list CM.xywh) cmw cmh s :
  WF UC -> WF U ->
  Z.of_nat (length region) = rgn_count U -> Z.of_nat (length copyl) = rgn_count UC ->
  exists region' keep,
    CM.announce_fixed true 0 false cmw cmh (sMaxRects st) region copyl s =
    Some (CM.wrap16 (rgn_count (fst (count_fix UC U)) + rgn_count (coalesce st (snd (count_fix UC U))) + s),
          region', false, keep).
Proof.
  intros HUC HU Hr Hc.
  unfold CM.announce_fixed. rewrite stage_raw. cbn [CM.obind orb]. rewrite Hr, Hc.
  unfold count_fix. cbv zeta.
  destruct (rgn_count UC + rgn_count U + 6 <? 65535) eqn:E1; cbn [fst snd].
  { destruct (finish_raw (sMaxRects st) s region (rgn_count U) (rgn_count UC) true) as [r' Ef].
    rewrite Ef, (coalesce_count_eq st U HU). eexists. eexists. reflexivity. }
  rewrite stage_raw. cbn [CM.obind orb negb]. rewrite bbox_region_len, Hr, <- (count_bbox_eq U HU).
  assert (HB : WF (rgn_bbox U)) by (apply bbox_wf; exact HU).
  destruct (rgn_count UC + rgn_count (rgn_bbox U) + 6 <? 65535) eqn:E2; cbn [fst snd].
  { destruct (finish_raw (sMaxRects st) s (CM.bbox_region region) (rgn_count (rgn_bbox U)) (rgn_count UC) true) as [r' Ef].
    rewrite Ef, (coalesce_count_eq st _ HB). eexists. eexists. reflexivity. }
  rewrite stage_raw. cbn [CM.obind].
  pose proof (bbox_count_le1 U) as H1.
  assert (HUCne : UC <> []) by (intros ->; change (rgn_count []) with 0 in E2; lia).
  assert (HO : WF (rgn_or (rgn_bbox U) UC)) by (apply rgn_or_wf; assumption).
  assert (Hgen : forall (V : RegionDefs.region) x y, rgn_mem V x y = true -> V <> []) by (intros V x y Hv ->; discriminate Hv).
  assert (HOne : rgn_or (rgn_bbox U) UC <> []).
  { destruct UC as [|[[s0 e0] xs0] t]; [congruence|].
    pose proof HUC as [lo0 Hs0].
    destruct (first_row_pixel _ _ _ _ _ Hs0) as [xf Hf].
    apply (Hgen _ xf s0). rewrite rgn_or_mem by assumption. apply orb_true_iff. right. exact Hf. }
  assert (Hlen : Z.of_nat (length (CM.bbox_region (CM.bbox_region region ++ copyl))) = 1).
  { rewrite bbox_region_len, app_length, Nat2Z.inj_add, Hc.
    pose proof (count_nonneg UC). assert (rgn_count UC <> 0) by (intros E0; apply HUCne, count_zero_empty; assumption).
    destruct (Z.of_nat (length (CM.bbox_region region)) + rgn_count UC =? 0) eqn:E; [lia|reflexivity]. }
  rewrite Hlen.
  destruct (finish_raw (sMaxRects st) s (CM.bbox_region (CM.bbox_region region ++ copyl)) 1 0 false) as [r' Ef].
  rewrite Ef. rewrite (coalesce_count_eq st _ (bbox_wf _ HO)), (count_bbox_nonempty _ HO HOne).
  change (rgn_count rgn_empty) with 0. eexists. eexists. reflexivity.
Qed.
