(* The remaining C02 statements: delivery, convergence when idle, CopyRect order, completeness
   of non-incremental requests, silence when up to date, copies never fail, and the former
   witnesses of F9 / F18 / F21 (fixed in /repo by 737e111, 812461a, d179288), which now pass. *)
From LV Require Import Region.RegionDefs Region.RegionProofs0 Region.RegionProofs Gen.Funs_C11
     Update.UpdateDefs Update.UpdateFacts Update.UpdateProofs0 Update.UpdateProofs.
From Coq Require Import ZifyBool.
Local Open Scope Z_scope.

Local Hint Resolve rgn_or_wf r_and_wf r_sub_wf offset_wf WF_empty create_rect_wf bbox_wf : wfdb.
Ltac wf := match goal with |- WF _ => solve [eauto 8 with wfdb] end.
Ltac msimp :=
  repeat first [ rewrite rgn_or_mem by wf | rewrite r_and_mem by wf | rewrite r_sub_mem by wf
               | rewrite offset_mem | rewrite create_rect_mem | rewrite rgn_mem_empty ].
Ltac msimp_in H :=
  repeat first [ rewrite rgn_or_mem in H by wf | rewrite r_and_mem in H by wf
               | rewrite r_sub_mem in H by wf | rewrite offset_mem in H
               | rewrite create_rect_mem in H | rewrite rgn_mem_empty in H ].

Ltac csimpl :=
  cbn [cM cC cDX cDY cR cUseCopy cShape cCurChanged cReady cCurX cCurY cSliceY cUseNewFB cUseExt
       cNewFBPending cReqChange cLastErr cBpp cPW cPH cPic cExt
       set_regions set_M set_flags set_curpos set_slice set_size_state set_pic set_cext set_bpp mark_client] in *.
Ltac ssimpl :=
  cbn [sW sH sBpp sFBid sFB sCursor sCurX sCurY sMaxRects sSliceH sClients sExt
       set_fb set_clients set_cursor set_knobs set_sext] in *.

(* ------------------------------------------------------------------ CopyRect order *)
(* applying the rectangles in rfbSendCopyRegion's order one after the other equals the
   simultaneous copy, for every well-formed region and every offset *)
Lemma copy_order_safe r dx dy f x y :
  WF r -> copy_seq f (rgn_iter (dx >? 0) (dy >? 0) r) dx dy x y = copy_simul f r dx dy x y.
Proof.
  intros H. rewrite copy_seq_simul by (apply send_order_safe; exact H).
  unfold copy_simul. rewrite <- (mem_iter_dir _ _ r x y H). reflexivity.
Qed.

(* ------------------------------------------------------------------ idle = converged *)
Lemma idle_converged st c :
  Inv st -> In c (sClients st) -> pending st c = false ->
  cPW c = sW st /\ cPH c = sH st /\
  forall x y, inS (sW st) (sH st) x y -> pic_get (cPic c) x y = fb_for st c x y.
Proof.
  intros (HW & HH & _ & Hcl) Hin Hp. rewrite Forall_forall in Hcl. destruct (Hcl c Hin) as [I S].
  unfold pending in Hp. repeat (apply orb_false_iff in Hp; destruct Hp as [Hp ?]).
  assert (Hsz : cPW c = sW st /\ cPH c = sH st).
  { destruct S as [?|[Ha Hb]]; [assumption|]. rewrite Ha, Hb in *. discriminate. }
  destruct Hsz as [Hw Hh]. split; [assumption|]. split; [assumption|].
  intros x y Hxy.
  assert (EM : rgn_mem (cM c) x y = false) by (apply is_empty_mem; destruct (rgn_is_empty (cM c)); [reflexivity|discriminate]).
  assert (EC : rgn_mem (cC c) x y = false) by (apply is_empty_mem; destruct (rgn_is_empty (cC c)); [reflexivity|discriminate]).
  apply (iPix _ _ _ _ I Hw Hh _ _ Hxy EM). exact EC.
Qed.

(* ------------------------------------------------------------------ delivery *)
(* without slicing, whatever was modified inside the requested region leaves M *)
Lemma send_clears_requested st c c' m :
  Inv st -> In c (sClients st) -> sSliceH st <= 0 ->
  cUseNewFB c && cNewFBPending c = false ->
  send_client st c = Some (c', m) ->
  forall x y, rgn_mem (cR c) x y = true ->
    rgn_mem (cM c') x y = false /\ rgn_mem (cC c') x y = false.
Proof.
  intros (HW & HH & _ & Hcl) Hin Hsl Esc Hs x y HR.
  rewrite Forall_forall in Hcl. destruct (Hcl c Hin) as [I S].
  pose proof (iWM _ _ _ _ I) as HWM. pose proof (iWC _ _ _ _ I) as HWC. pose proof (iWR _ _ _ _ I) as HWR.
  unfold send_client, send_client_gen in Hs. destruct (scaled_guard c) eqn:Eguard; [discriminate|]. rewrite Esc in Hs.
  unfold slice_region in Hs. replace (sSliceH st >? 0) with false in Hs by lia.
  destruct (rgn_and (rgn_or (cM c) (r_sub (cC c) (cM c))) (cR c)) as [U2 b] eqn:Eand.
  assert (EU2 : U2 = r_and (rgn_or (cM c) (r_sub (cC c) (cM c))) (cR c)) by (unfold r_and; rewrite Eand; reflexivity).
  destruct (negb b && rgn_is_empty U2 && _ && _) eqn:Eearly.
  - inversion Hs; subst c' m. clear Hs.
    apply andb_true_iff in Eearly. destruct Eearly as [Eearly _].
    apply andb_true_iff in Eearly. destruct Eearly as [Eearly _].
    apply andb_true_iff in Eearly. destruct Eearly as [_ Eemp].
    pose proof (is_empty_mem U2 x y Eemp) as E0. rewrite EU2 in E0. msimp_in E0.
    rewrite HR, andb_true_r in E0. apply orb_false_iff in E0. destruct E0 as [E1 E2].
    destruct c; csimpl. split; [exact E1|]. msimp. exact E2.
  - unfold send_update_gen in Hs.
    set (UC := r_and (r_and (r_sub (cC c) (cM c)) (cR c)) (rgn_offset (cR c) (cDX c) (cDY c))) in *.
    set (U3 := r_sub U2 UC) in *.
    set (M' := r_sub (r_sub (rgn_or (cM c) (r_sub (cC c) (cM c))) U3) UC) in *.
    destruct (soft_cursor st _ U3) as [c2 U3c] eqn:Esoft.
    assert (HU2 : WF U2) by (rewrite EU2; wf).
    assert (HUC : WF UC) by (unfold UC; wf).
    assert (HU3 : WF U3) by (unfold U3; wf).
    destruct (soft_cursor_spec _ _ _ _ _ HW HH HU3 Esoft) as (_ & _ & E1 & E2 & _).
    match type of Hs with (if ?cond then _ else _) = _ => destruct cond end; [|discriminate].
    inversion Hs; subst c' m. clear Hs.
    assert (EM : cM (set_pic (if cShape c && cCurChanged c && cReady c
                              then set_flags c2 (cUseCopy c2) (cShape c2) false (cReady c2) (cUseNewFB c2) (cUseExt c2)
                              else c2) (cPW c) (cPH c)
                             (pic_build (cPW c) (cPH c)
                                (client_apply (pic_get (cPic c)) (fb_for st c) (copy_wrects (fst (count_fix UC U3c)) (cDX c) (cDY c))
                                   (cDX c) (cDY c) (filter raw_emitted (rgn_iter false false (coalesce st (snd (count_fix UC U3c)))))))) = M').
    { destruct (cShape c && cCurChanged c && cReady c); destruct c2; csimpl; subst; destruct c; reflexivity. }
    assert (EC : cC (set_pic (if cShape c && cCurChanged c && cReady c
                              then set_flags c2 (cUseCopy c2) (cShape c2) false (cReady c2) (cUseNewFB c2) (cUseExt c2)
                              else c2) (cPW c) (cPH c)
                             (pic_build (cPW c) (cPH c)
                                (client_apply (pic_get (cPic c)) (fb_for st c) (copy_wrects (fst (count_fix UC U3c)) (cDX c) (cDY c))
                                   (cDX c) (cDY c) (filter raw_emitted (rgn_iter false false (coalesce st (snd (count_fix UC U3c)))))))) = rgn_empty).
    { destruct (cShape c && cCurChanged c && cReady c); destruct c2; csimpl; subst; destruct c; reflexivity. }
    rewrite EM, EC. split; [|reflexivity].
    unfold M', U3. msimp. rewrite EU2. msimp. rewrite HR.
    destruct (rgn_mem (cM c) x y); destruct (rgn_mem (cC c) x y); destruct (rgn_mem UC x y); reflexivity.
Qed.

(* ... hence (with the invariant after the send) every requested pixel of the screen is
   equal to the framebuffer in the client's picture *)
Lemma send_delivers st c c' m :
  Inv st -> In c (sClients st) -> sSliceH st <= 0 ->
  cUseNewFB c && cNewFBPending c = false ->
  send_client st c = Some (c', m) ->
  forall x y, inS (sW st) (sH st) x y -> rgn_mem (cR c) x y = true ->
    pic_get (cPic c') x y = fb_for st c x y.
Proof.
  intros HI Hin Hsl Esc Hs x y Hxy HR.
  destruct (send_clears_requested _ _ _ _ HI Hin Hsl Esc Hs x y HR) as [EM EC].
  destruct HI as (HW & HH & _ & Hcl). rewrite Forall_forall in Hcl. pose proof (Hcl c Hin) as Ic.
  destruct (inv_send st c c' m HW HH Ic Hs) as [[I' S'] Hb].
  assert (Hsz : cPW c' = sW st /\ cPH c' = sH st).
  { destruct S' as [?|[Ha Hb']]; [assumption|].
    (* the size flags are untouched outside the short-circuit *)
    destruct Ic as [_ [Hz|[Hc Hd]]]; [|rewrite Hc, Hd in Esc; discriminate].
    unfold send_client, send_client_gen in Hs. destruct (scaled_guard c) eqn:Eguard; [discriminate|]. rewrite Esc in Hs.
    destruct (slice_region st c (cM c)) as [U0 sy].
    destruct (rgn_and _ _) as [U2 b].
    match type of Hs with (if ?cond then _ else _) = _ => destruct cond end.
    - inversion Hs; subst. destruct c; csimpl. assumption.
    - unfold send_update_gen in Hs. destruct (soft_cursor _ _ _) as [c2 U3c] eqn:Esoft.
      match type of Hs with (if ?cond then _ else _) = _ => destruct cond end; [|discriminate].
      inversion Hs; subst.
      destruct (cShape c && cCurChanged c && cReady c); destruct c2; csimpl; assumption. }
  destruct Hsz as [Hw Hh].
  apply (iPix _ _ _ _ I' Hw Hh _ _ Hxy EM). exact EC.
Qed.

(* ------------------------------------------------------------------ wire-level coverage *)
Definition wraw_has (x y : Z) (w : wrect) : bool :=
  match w with WRaw a b c d => rect_mem (a, b, a + c, b + d) x y | _ => false end.
Definition wcopy_has (x y : Z) (w : wrect) : bool :=
  match w with WCopy a b c d _ _ => rect_mem (a, b, a + c, b + d) x y | _ => false end.

Lemma existsb_app' {A} (f : A -> bool) l1 l2 : existsb f (l1 ++ l2) = existsb f l1 || existsb f l2.
Proof. apply existsb_app. Qed.

Lemma wraw_has_raws x y l : existsb (wraw_has x y) (map wraw_of l) = existsb (fun rc => rect_mem rc x y) l.
Proof.
  rewrite existsb_map. apply existsb_ext'. intros [[[a b] c] d]. cbn.
  replace (a + (c - a)) with c by lia. replace (b + (d - b)) with d by lia. reflexivity.
Qed.
Lemma wraw_has_copies x y dx dy l : existsb (wraw_has x y) (map (wcopy_of dx dy) l) = false.
Proof. induction l as [|[[[a b] c] d] l IH]; [reflexivity|]. cbn. exact IH. Qed.
Lemma wcopy_has_copies x y dx dy l :
  existsb (wcopy_has x y) (map (wcopy_of dx dy) l) = existsb (fun rc => rect_mem rc x y) l.
Proof.
  rewrite existsb_map. apply existsb_ext'. intros [[[a b] c] d]. cbn.
  replace (a + (c - a)) with c by lia. replace (b + (d - b)) with d by lia. reflexivity.
Qed.
Lemma wcopy_has_raws x y l : existsb (wcopy_has x y) (map wraw_of l) = false.
Proof. induction l as [|[[[a b] c] d] l IH]; [reflexivity|]. cbn. exact IH. Qed.

(* every pixel that is modified AND requested (no slicing) is carried by a pixel rectangle of
   the update and is not the destination of a CopyRect *)
Lemma send_covers st c c' n rects :
  Inv st -> In c (sClients st) -> sSliceH st <= 0 ->
  cUseNewFB c && cNewFBPending c = false ->
  send_client st c = Some (c', Some (n, rects)) ->
  forall x y, rgn_mem (cM c) x y = true -> rgn_mem (cR c) x y = true ->
    existsb (wraw_has x y) rects = true /\ existsb (wcopy_has x y) rects = false.
Proof.
  intros (HW & HH & _ & Hcl) Hin Hsl Esc Hs x y HM HR.
  rewrite Forall_forall in Hcl. destruct (Hcl c Hin) as [I S].
  pose proof (iWM _ _ _ _ I) as HWM. pose proof (iWC _ _ _ _ I) as HWC. pose proof (iWR _ _ _ _ I) as HWR.
  unfold send_client, send_client_gen in Hs. destruct (scaled_guard c) eqn:Eguard; [discriminate|]. rewrite Esc in Hs.
  unfold slice_region in Hs. replace (sSliceH st >? 0) with false in Hs by lia.
  destruct (rgn_and (rgn_or (cM c) (r_sub (cC c) (cM c))) (cR c)) as [U2 b] eqn:Eand.
  assert (EU2 : U2 = r_and (rgn_or (cM c) (r_sub (cC c) (cM c))) (cR c)) by (unfold r_and; rewrite Eand; reflexivity).
  match type of Hs with (if ?cond then _ else _) = _ => destruct cond end; [discriminate|].
  unfold send_update_gen in Hs.
  set (UC := r_and (r_and (r_sub (cC c) (cM c)) (cR c)) (rgn_offset (cR c) (cDX c) (cDY c))) in *.
  set (U3 := r_sub U2 UC) in *.
  destruct (soft_cursor st _ U3) as [c2 U3c] eqn:Esoft.
  assert (HU2 : WF U2) by (rewrite EU2; wf).
  assert (HUC : WF UC) by (unfold UC; wf).
  assert (HU3 : WF U3) by (unfold U3; wf).
  destruct (soft_cursor_spec _ _ _ _ _ HW HH HU3 Esoft) as (HU3c & Hsup3 & _).
  destruct (count_fix_spec UC U3c HUC HU3c) as (HUCf & HU3f & Hsupf & HfUC & _).
  destruct (coalesce_spec st _ HU3f) as [HU4 Hsup4'].
  assert (Hsup4 : forall x y, rgn_mem U3c x y = true -> rgn_mem (coalesce st (snd (count_fix UC U3c))) x y = true)
    by (intros x0 y0 Hm0; apply Hsup4', Hsupf, Hm0).
  match type of Hs with (if ?cond then _ else _) = _ => destruct cond end; [|discriminate].
  inversion Hs; subst c' n rects. clear Hs.
  assert (EUC : rgn_mem UC x y = false).
  { unfold UC. msimp. rewrite HM. cbn [negb]. rewrite andb_false_r. reflexivity. }
  assert (EUCf : rgn_mem (fst (count_fix UC U3c)) x y = false).
  { destruct (rgn_mem (fst (count_fix UC U3c)) x y) eqn:Ef; [|reflexivity]. rewrite (HfUC _ _ Ef) in EUC. discriminate. }
  assert (EU3 : rgn_mem U3 x y = true).
  { unfold U3. msimp. rewrite EU2. msimp. rewrite HM, HR, EUC. reflexivity. }
  pose proof (Hsup4 _ _ (Hsup3 _ _ EU3)) as EU4.
  rewrite !existsb_app'.
  rewrite wraw_has_raws, wraw_has_copies, wcopy_has_copies, wcopy_has_raws.
  rewrite filter_raw_all by exact HU4.
  rewrite <- (mem_iter_dir false false _ x y HU4), EU4.
  unfold copy_wrects. rewrite <- (mem_iter_dir _ _ _ x y HUCf), EUCf.
  split.
  - rewrite orb_true_r. reflexivity.
  - destruct (cShape c && cCurChanged c && cReady c); [destruct (sCursor st) as [[[[? ?] cw] ch]|]; [destruct ((cw =? 0) || (ch =? 0))|]|]; reflexivity.
Qed.

Ltac Zify.zify_post_hook ::= Z.to_euclidean_division_equations.

(* a non-incremental request followed by the update: the whole requested area (inside the
   framebuffer) arrives as pixel data *)
Lemma nonincremental_full st c c' n rects x y w h x0 y0 :
  Inv st -> In c (sClients st) -> sSliceH st <= 0 ->
  req_ok (sW st) (sH st) x y w h -> w < 65536 -> h < 65536 ->
  let c1 := request_client (sW st) (sH st) false x y w h c in
  cUseNewFB c1 && cNewFBPending c1 = false ->
  send_client st c1 = Some (c', Some (n, rects)) ->
  rect_mem (x, y, x + w, y + h) x0 y0 = true -> inS (sW st) (sH st) x0 y0 ->
  existsb (wraw_has x0 y0) rects = true /\ existsb (wcopy_has x0 y0) rects = false.
Proof.
  intros HI Hin Hsl Hok Hw16 Hh16 c1 Esc Hs Hm Hxy.
  pose proof HI as (HW & HH & Hcur & Hcl). rewrite Forall_forall in Hcl. pose proof (Hcl c Hin) as Ic.
  (* the same state with c replaced by c1 is still invariant; only c1 matters below *)
  pose proof (inv_request _ _ _ _ false x y w h Ic Hok) as Ic1. fold c1 in Ic1.
  set (st1 := set_clients st [c1]).
  assert (HI1 : Inv st1).
  { unfold Inv, st1. destruct st; ssimpl. repeat split; try assumption. constructor; [|constructor].
    eapply invc_Fext; [|exact Ic1]. intros a b _.
    assert (Hb : cBpp c1 = cBpp c).
    { unfold c1, request_client. destruct (req_clip _ _ _ _ _ _) as [[[[? ?] ?] ?]|]; [|reflexivity].
      destruct (_ || _); [reflexivity|].
      destruct c; csimpl. destruct cUseExt; reflexivity. }
    unfold fb_for. rewrite Hb. reflexivity. }
  assert (Hs1 : send_client st1 c1 = Some (c', Some (n, rects))) by (unfold st1; destruct st; exact Hs).
  assert (Hmem : rgn_mem (cM c1) x0 y0 = true /\ rgn_mem (cR c1) x0 y0 = true).
  { destruct Hok as (Hx & Hy & Hwn & Hhn). unfold c1, request_client.
    destruct (req_clip (sW st) (sH st) x y w h) as [[[[x' y'] w'] h']|] eqn:E.
    - destruct (req_clip_inside _ _ _ _ _ _ _ _ _ _ Hx Hy E) as (-> & -> & Hxw & Hyh).
      assert (Hin' : rect_mem (x, y, x + w', y + h') x0 y0 = true).
      { unfold req_clip in E. unfold rect_mem, inS in *.
        destruct (w >? sW st - x) eqn:E1; destruct (h >? sH st - y) eqn:E2; cbv zeta in E;
          repeat match type of E with (if ?b then _ else _) = _ => destruct b eqn:? end;
          inversion E; subst; lia. }
      assert (Hw : 0 < w' /\ 0 < h') by (unfold rect_mem in Hin'; lia). destruct Hw as [Hw Hh].
      replace ((w' =? 0) || (h' =? 0)) with false by lia.
      assert (Ht : WF (rgn_create_rect x y (x + w') (y + h'))) by (apply create_rect_wf; lia).
      destruct Ic as [Ic _]. pose proof (iWM _ _ _ _ Ic) as HWM. pose proof (iWR _ _ _ _ Ic) as HWR.
      destruct c; csimpl. destruct cUseExt; csimpl; msimp; rewrite Hin'; rewrite !orb_true_r; split; reflexivity.
    - exfalso. unfold req_clip in E. unfold rect_mem, inS in *.
      destruct (w >? sW st - x) eqn:E1; destruct (h >? sH st - y) eqn:E2; cbv zeta in E;
        repeat match type of E with (if ?b then _ else _) = _ => destruct b eqn:? end;
        try discriminate; lia. }
  destruct Hmem as [HM HR].
  apply (send_covers st1 c1 c' n rects HI1); try assumption.
  all: unfold st1; destruct st; ssimpl; try (left; reflexivity); try exact Hsl.
Qed.

Ltac Zify.zify_post_hook ::= idtac.

(* ------------------------------------------------------------------ silence when up to date *)
Lemma idle_incremental_silent st c x y w h :
  pending st c = false -> cScaled c = None ->
  let c1 := request_client (sW st) (sH st) true x y w h c in
  tick_client st c1 = Some (c1, None) /\
  exists c', send_client st c1 = Some (c', None).
Proof.
  intros Hp Hsc c1. unfold pending in Hp.
  repeat (apply orb_false_iff in Hp; destruct Hp as [Hp ?]).
  assert (EM : cM c = []) by (destruct (cM c); [reflexivity|discriminate]).
  assert (EC : cC c = []) by (destruct (cC c); [reflexivity|discriminate]).
  assert (F1 : cM c1 = [] /\ cC c1 = [] /\ cShape c1 = cShape c /\ cCurChanged c1 = cCurChanged c /\
               cCurX c1 = cCurX c /\ cCurY c1 = cCurY c /\ cUseNewFB c1 = cUseNewFB c /\
               cNewFBPending c1 = cNewFBPending c /\ scaled_guard c1 = false).
  { unfold c1, request_client, scaled_guard, cScaled in *.
    destruct (req_clip _ _ _ _ _ _) as [[[[? ?] w1] h1]|]; [destruct ((w1 =? 0) || (h1 =? 0))|];
      destruct c; csimpl; subst; rewrite ?Hsc; repeat split. }
  destruct F1 as (G1 & G2 & G3 & G4 & G5 & G6 & G7 & G8 & G9).
  assert (Hp1 : pending st c1 = false).
  { unfold pending. rewrite G1, G2, G3, G4, G5, G6, G7, G8. cbn.
    rewrite Hp, H2, H1. reflexivity. }
  split.
  - unfold tick_client. rewrite G9, Hp1. reflexivity.
  - unfold send_client, send_client_gen. rewrite G9, G7, G8, H1.
    assert (Esl : slice_region st c1 (cM c1) = ([], snd (slice_region st c1 (cM c1)))).
    { rewrite G1. unfold slice_region. destruct (sSliceH st >? 0); reflexivity. }
    rewrite Esl. rewrite G1, G2. cbn [r_sub rgn_sub span_sub sub_loop sub_fuel fst length Nat.mul Nat.add].
    change (rgn_or [] []) with (@nil (span xspans)).
    change (rgn_and [] (cR c1)) with (@nil (span xspans), false).
    cbn [negb rgn_is_empty andb].
    rewrite G3, G4, G5, G6.
    destruct (cShape c) eqn:Es.
    + cbn in Hp. rewrite Hp. cbn. eexists. reflexivity.
    + cbn in H2. apply orb_false_iff in H2. destruct H2 as [Hx Hy].
      apply negb_false_iff in Hx. apply negb_false_iff in Hy. rewrite Hx, Hy. cbn. eexists. reflexivity.
Qed.

(* ------------------------------------------------------------------ the executable invariant *)
Lemma forallb_zrange n f : (forall v, 0 <= v < n -> f v = true) -> forallb f (zrange n) = true.
Proof. intros H. apply forallb_forall. intros v Hv. apply zrange_In in Hv. auto. Qed.

Lemma inv_client_b_complete st c :
  Inv st -> In c (sClients st) -> cPW c = sW st -> cPH c = sH st -> inv_client_b st c = true.
Proof.
  intros (HW & HH & _ & Hcl) Hin Hw Hh. rewrite Forall_forall in Hcl. destruct (Hcl c Hin) as [I S].
  unfold inv_client_b. apply forallb_zrange. intros y Hy. apply forallb_zrange. intros x Hx.
  unfold inv_pixel.
  rewrite <- (mem_iter_eq _ x y (iWM _ _ _ _ I)), <- (mem_iter_eq _ x y (iWC _ _ _ _ I)).
  destruct (rgn_mem (cM c) x y) eqn:EM; [reflexivity|].
  assert (Hxy : inS (sW st) (sH st) x y) by (split; assumption).
  destruct (iPix _ _ _ _ I Hw Hh x y Hxy EM) as [P1 P2].
  destruct (rgn_mem (cC c) x y) eqn:EC.
  - destruct (iCin _ _ _ _ I x y EC) as [_ [? ?]]. rewrite (P1 eq_refl). lia.
  - rewrite (P2 eq_refl). unfold inS in Hxy. lia.
Qed.

(* ------------------------------------------------------------------ copies never fail *)
Lemma map_opt_total {A B} (f : A -> option B) l :
  (forall a, exists b, f a = Some b) -> exists l', map_opt f l = Some l'.
Proof.
  intros Hf. induction l as [|a l IH]; [eexists; reflexivity|].
  destruct IH as [t Ht]. destruct (Hf a) as [b Hb]. cbn. rewrite Hb, Ht. eexists. reflexivity.
Qed.

(* an application copy whose destination and source lie inside the framebuffer always succeeds,
   whatever the clients' capabilities and whether or not the screen has a cursor
   (before fix 812461a: NULL dereference for a NULL cursor, F18) *)
Lemma do_copy_total st K dx dy newf :
  copy_inside (sW st) (sH st) K dx dy = true -> exists st', do_copy st K dx dy newf = Some st'.
Proof.
  intros Hc. unfold do_copy. rewrite Hc.
  destruct (map_opt_total (sched_copy_client (sCursor st) K dx dy) (sClients st)) as [cl Hcl].
  - intros c. apply sched_copy_total.
  - rewrite Hcl. eexists. reflexivity.
Qed.

Lemma copy_ops_total st x1 y1 x2 y2 rects dx dy :
  (copy_inside (sW st) (sH st) (rgn_create_rect x1 y1 x2 y2) dx dy = true ->
   exists r, step st (OpDoCopyRect x1 y1 x2 y2 dx dy) = Some r) /\
  (copy_inside (sW st) (sH st) (rgn_of_rects rects) dx dy = true ->
   (exists r, step st (OpDoCopyRegion rects dx dy) = Some r) /\
   (exists r, step st (OpSchedCopy rects dx dy) = Some r)).
Proof.
  split; intros Hc; [|split]; unfold step; cbn [op_target step0];
    match goal with |- context [do_copy st ?K dx dy ?f] =>
      destruct (do_copy_total st K dx dy f Hc) as [st' ->] end; eexists; reflexivity.
Qed.

(* ------------------------------------------------------------------ former witnesses *)
(* F9 (fixed by 737e111): two bands moved down by 5.  The order (dx<0,dy<0) used before the fix is
   unsafe for this region; the order used now is safe for every well-formed region
   (send_order_safe), so the history below keeps the invariant. *)
Definition f9_region : region := rgn_of_rects [(0, 5, 6, 8); (2, 8, 10, 12)].

Lemma f9_old_order_unsafe :
  order_safe_b 0 5 (rgn_iter (0 <? 0) (5 <? 0) f9_region) = false /\
  order_safe_b 0 5 (docopy_rects f9_region 0 5) = true.
Proof. split; vm_compute; reflexivity. Qed.

Definition f9_ops : list op :=
  [OpAddClient; OpSetEncodings 0 true true false false; OpRequest 0 false 0 0 12 12; OpTick 0;
   OpDraw 0 0 12 12 1; OpRequest 0 true 0 0 12 12; OpTick 0;
   OpDoCopyRegion [(0, 5, 6, 8); (2, 8, 10, 12)] 0 5].

Ltac run_ok_tac :=
  repeat (split; [first [exact I | solve [cbn; repeat split; lia] | solve [repeat constructor; cbn; lia]] |
                  let st' := fresh "st" in let out := fresh "out" in let Hs := fresh "Hs" in
                  intros st' out Hs; vm_compute in Hs; inversion Hs; subst; clear Hs]).

Lemma f9_history_keeps_inv :
  exists st', run (init_state 12 12 4) f9_ops = Some st' /\ Inv st' /\
              forall c, In c (sClients st') -> inv_client_b st' c = true.
Proof.
  destruct (run (init_state 12 12 4) f9_ops) as [st'|] eqn:E; [|vm_compute in E; discriminate].
  exists st'. split; [reflexivity|].
  assert (HI : Inv st').
  { apply (run_inv f9_ops (init_state 12 12 4) st'); [apply init_inv; lia| |exact E].
    unfold f9_ops. run_ok_tac. exact I. }
  split; [exact HI|]. intros c Hin.
  vm_compute in E. inversion E; subst. destruct Hin as [<-|[]]. vm_compute. reflexivity.
Qed.

(* F18 (fixed by 812461a): NULL cursor, client with CopyRect but without cursor-shape updates *)
Definition f18_ops : list op :=
  [OpSetCursor None; OpAddClient; OpSetEncodings 0 true false false false].

Lemma schedule_copy_null_cursor_ok :
  exists st, run (init_state 8 6 4) f18_ops = Some st /\ Inv st /\
             exists st', step st (OpDoCopyRect 4 2 7 4 3 1) = Some (st', []) /\ Inv st'.
Proof.
  destruct (run (init_state 8 6 4) f18_ops) as [st|] eqn:E; [|vm_compute in E; discriminate].
  exists st. split; [reflexivity|].
  assert (HI : Inv st).
  { apply (run_inv f18_ops (init_state 8 6 4) st); [apply init_inv; lia| |exact E].
    cbn. repeat split; auto. }
  split; [exact HI|].
  destruct (step st (OpDoCopyRect 4 2 7 4 3 1)) as [[st' out]|] eqn:Es.
  - assert (out = []) by (vm_compute in E; inversion E; subst; vm_compute in Es; inversion Es; reflexivity).
    subst. exists st'. split; [reflexivity|]. apply (step_inv _ _ _ _ HI) in Es; [exact Es|cbn; lia].
  - vm_compute in E. inversion E; subst. vm_compute in Es. discriminate.
Qed.

(* F21 (fixed by d179288): a mark wholly outside the screen is dropped: nothing changes *)
Lemma mark_outside_ignored st x1 y1 x2 y2 :
  Z.min (sW st) (Z.max x1 x2) <= Z.max 0 (Z.min x1 x2) \/ Z.min (sH st) (Z.max y1 y2) <= Z.max 0 (Z.min y1 y2) ->
  step st (OpMark x1 y1 x2 y2) = Some (st, []).
Proof.
  intros Hout. unfold step. cbn [op_target step0]. destruct (mark_clip (sW st) (sH st) x1 y1 x2 y2) as [[[[a b] c] d]|] eqn:E; [|reflexivity].
  exfalso. pose proof (mark_clip_sem _ _ _ _ _ _ _ E) as Hs. cbn in Hs. lia.
Qed.

(* ------------------------------------------------------------------ the deferral timer *)
(* while rfbUpdateClient defers (timer just started, or not yet expired) nothing but the timer
   changes: the update is not lost, it stays in M / C / R *)
Lemma tick_deferring_keeps st c c' m :
  tick_client st c = Some (c', m) -> xDefer (sExt st) <> 0 ->
  xDefU (cExt c) = 0 \/
  ((xNowS (sExt st) <? xDefS (cExt c)) || (elapsed_ms st c >? xDefer (sExt st)) = false) ->
  m = None /\ exists e, c' = set_cext c e.
Proof.
  unfold tick_client. intros Ht Hd Hcase.
  assert (Hsame : c = set_cext c (cExt c)) by (destruct c; reflexivity).
  destruct (scaled_guard c); [discriminate|].
  destruct (pending st c && negb (rgn_is_empty (cR c))).
  2:{ inversion Ht. split; [reflexivity|]. exists (cExt c). subst c'. exact Hsame. }
  replace (xDefer (sExt st) =? 0) with false in Ht by lia.
  destruct (xDefU (cExt c) =? 0) eqn:Eu.
  - inversion Ht. split; [reflexivity|]. eexists. reflexivity.
  - destruct Hcase as [Hc|Hc]; [lia|]. rewrite Hc in Ht. inversion Ht.
    split; [reflexivity|]. exists (cExt c). subst c'. exact Hsame.
Qed.

(* once more than deferUpdateTime ms have passed (or the clock jumped back) the pending update is
   sent exactly as rfbSendFramebufferUpdate would have sent it at once *)
Lemma tick_expired_sends st c :
  scaled_guard c = false -> pending st c && negb (rgn_is_empty (cR c)) = true ->
  xDefer (sExt st) <> 0 -> xDefU (cExt c) <> 0 ->
  (xNowS (sExt st) <? xDefS (cExt c)) || (elapsed_ms st c >? xDefer (sExt st)) = true ->
  tick_client st c = send_client st (set_cext c (ext_timer (cExt c) (xDefS (cExt c)) 0)).
Proof.
  intros Hg Hp Hd Hu He. unfold tick_client. rewrite Hg, Hp.
  replace (xDefer (sExt st) =? 0) with false by lia. replace (xDefU (cExt c) =? 0) with false by lia.
  rewrite He. reflexivity.
Qed.

(* ------------------------------------------------------------------ any lossless encoding *)
(* the client's picture after an update whose pixel rectangles are delivered by [deliver] instead
   of Raw *)
Definition client_apply_with (deliver : (Z -> Z -> Z) -> (Z -> Z -> Z) -> rect -> Z -> Z -> Z)
           (cf fb : Z -> Z -> Z) (copies : list rect) (dx dy : Z) (raws : list rect) : Z -> Z -> Z :=
  fold_left (deliver fb) raws (copy_seq cf copies dx dy).

(* what C01 proves about every lossless encoder / decoder pair: the decoded rectangle carries the
   framebuffer content, the rest of the picture is untouched *)
Definition delivers_fb (deliver : (Z -> Z -> Z) -> (Z -> Z -> Z) -> rect -> Z -> Z -> Z) : Prop :=
  forall src g rc x y, deliver src g rc x y = if rect_mem rc x y then src x y else g x y.

Lemma client_apply_with_eq deliver cf fb copies dx dy raws x y :
  delivers_fb deliver ->
  client_apply_with deliver cf fb copies dx dy raws x y = client_apply cf fb copies dx dy raws x y.
Proof.
  intros Hd. unfold client_apply_with, client_apply. generalize (copy_seq cf copies dx dy).
  induction raws as [|rc l IH]; intros g; [reflexivity|]. cbn [fold_left].
  rewrite IH. rewrite !raw_fold_sem. unfold apply_raw. rewrite Hd. reflexivity.
Qed.

Lemma pic_build_ext w h f g : (forall x y, f x y = g x y) -> pic_build w h f = pic_build w h g.
Proof.
  intros E. unfold pic_build. apply map_ext. intros y. apply map_ext. intros x. apply E.
Qed.

(* convergence needs nothing else from the encoding: the update sent with ANY encoding that
   delivers the framebuffer content leaves exactly the same client (regions, flags, picture) and
   the same rectangle geometry as the Raw model, so every C02 / C16 theorem about send_client holds
   for it; the pixel-exactness of each encoding is property C01 *)
Lemma any_lossless_encoding deliver st c :
  delivers_fb deliver -> send_client_gen (client_apply_with deliver) st c = send_client st c.
Proof.
  intros Hd. unfold send_client, send_client_gen.
  destruct (scaled_guard c); [reflexivity|].
  destruct (cUseNewFB c && cNewFBPending c); [reflexivity|].
  destruct (slice_region st c (cM c)) as [U0 sy]. destruct (rgn_and _ _) as [U2 b].
  match goal with |- (if ?cond then _ else _) = _ => destruct cond end; [reflexivity|].
  unfold send_update_gen. destruct (soft_cursor _ _ _) as [c2 U3c].
  match goal with |- (if ?cond then _ else _) = _ => destruct cond end; [|reflexivity].
  f_equal. f_equal. f_equal. apply pic_build_ext. intros x y. apply client_apply_with_eq. exact Hd.
Qed.

(* the invariant does not depend on the Tick schedule: whatever deferUpdateTime and the clock are *)
Lemma deferral_sound st c c' m :
  Inv st -> In c (sClients st) -> tick_client st c = Some (c', m) ->
  InvC (sW st) (sH st) (fb_for st c') c'.
Proof.
  intros (HW & HH & _ & Hcl) Hin Ht. rewrite Forall_forall in Hcl.
  destruct (inv_tick st c c' m HW HH (Hcl c Hin) Ht) as [G1 G2].
  apply invc_Fext with (F := fb_for st c); [|exact G1].
  intros x y _. unfold fb_for. rewrite G2. reflexivity.
Qed.

(* SetPixelFormat mid-session (followed by the non-incremental request of the whole screen a
   conforming client sends): the invariant holds for the new format, everything is modified *)
Lemma setpixelformat_resync st c bpp :
  Inv st -> In c (sClients st) ->
  let c' := setpf_client st bpp c in
  InvC (sW st) (sH st) (fb_for st c') c' /\ cBpp c' = mkX (sBpp st) bpp.
Proof.
  intros (HW & HH & _ & Hcl) Hin c'. rewrite Forall_forall in Hcl.
  apply (inv_setpf st (fb_for st c) (fb_for st c') bpp c HW HH (Hcl c Hin)).
Qed.
