(* C02_slices_converge: with progressiveSliceHeight > 0 a bounded number of request/send rounds
   empties the modified region.  One round = an incremental request for the whole screen followed by
   rfbSendFramebufferUpdate; nothing else happens in between (no new modification, no pending copy). *)
From LV Require Import Region.RegionDefs Region.RegionSem Region.RegionProofs0 Region.RegionProofs
     Gen.Funs_C11 Update.UpdateDefs Update.UpdateFacts Update.UpdateProofs0 Update.UpdateProofs
     Update.UpdateThms Update.NewFB.
From Coq Require Import ZifyBool.
Local Open Scope Z_scope.

Local Hint Resolve rgn_or_wf r_and_wf r_sub_wf offset_wf WF_empty create_rect_wf bbox_wf : wfdb.
Ltac wf := match goal with |- WF _ => solve [eauto 8 with wfdb] end.
Ltac msimp :=
  repeat first [ rewrite rgn_or_mem by wf | rewrite r_and_mem by wf | rewrite r_sub_mem by wf
               | rewrite offset_mem | rewrite create_rect_mem | rewrite rgn_mem_empty ].
Ltac msimp_in H :=
  repeat first [ rewrite rgn_or_mem in H by wf | rewrite r_and_mem in H by wf
               | rewrite r_sub_mem in H by wf | rewrite offset_mem in H
               | rewrite create_rect_mem in H | rewrite rgn_mem_empty in H ].
Ltac csimpl :=
  cbn [UpdateDefs.cM UpdateDefs.cC UpdateDefs.cDX UpdateDefs.cDY UpdateDefs.cR UpdateDefs.cUseCopy
       UpdateDefs.cShape UpdateDefs.cCurChanged UpdateDefs.cReady UpdateDefs.cCurX UpdateDefs.cCurY
       UpdateDefs.cSliceY UpdateDefs.cUseNewFB UpdateDefs.cUseExt UpdateDefs.cNewFBPending
       UpdateDefs.cReqChange UpdateDefs.cLastErr UpdateDefs.cBpp UpdateDefs.cPW UpdateDefs.cPH UpdateDefs.cPic UpdateDefs.cExt
       set_regions set_M set_flags set_curpos set_slice set_size_state set_pic set_cext set_bpp] in *.

Definition no_pix (r : region) : Prop := forall x y, rgn_mem r x y = false.

(* ------------------------------------------------------------------ the y range of the bounding box is tight *)
Definition ymin_of (acc : Z * Z * Z * Z) : Z := let '(_, b, _, _) := acc in b.
Definition ymax_of (acc : Z * Z * Z * Z) : Z := let '(_, _, _, d) := acc in d.

Lemma bbox_step_y acc s e xs :
  ymin_of (bbox_step acc (s, e, xs)) = Z.min (ymin_of acc) s /\
  ymax_of (bbox_step acc (s, e, xs)) = Z.max (ymax_of acc) e.
Proof.
  destruct acc as [[[a b] c] d]. unfold bbox_step.
  match goal with |- context [fold_left ?f0 xs (a, c)] => destruct (fold_left f0 xs (a, c)) as [xa xb] end.
  cbn. split.
  - destruct (s <? b) eqn:E; lia.
  - destruct (e >? d) eqn:E; lia.
Qed.

Fixpoint last_end (t : region) (dflt : Z) : Z :=
  match t with [] => dflt | (_, e, _) :: t' => last_end t' e end.

Lemma bbox_fold_ymin (P : xspans -> Prop) t : forall lo acc, sorted_from P lo t ->
  ymin_of (fold_left bbox_step t acc) =
  match t with [] => ymin_of acc | (s, _, _) :: _ => Z.min (ymin_of acc) s end.
Proof.
  induction t as [|[[s e] xs] t IH]; intros lo acc Hs; [reflexivity|].
  cbn [fold_left]. cbn in Hs. destruct Hs as (H1 & H2 & H3 & H4).
  rewrite (IH e _ H4). destruct (bbox_step_y acc s e xs) as [Ey _]. rewrite Ey.
  destruct t as [|[[s1 e1] xs1] t']; [reflexivity|]. cbn in H4. lia.
Qed.

Lemma last_end_ge (P : xspans -> Prop) t : forall lo d, sorted_from P lo t -> d <= lo -> d <= last_end t d /\ (t <> [] -> lo < last_end t d).
Proof.
  induction t as [|[[s e] xs] t IH]; intros lo d Hs Hd; cbn; [split; [lia|congruence]|].
  cbn in Hs. destruct Hs as (H1 & H2 & H3 & H4).
  destruct (IH e e H4 ltac:(lia)) as [Ha Hb]. split; [lia|]. intros _. lia.
Qed.

Lemma bbox_fold_ymax (P : xspans -> Prop) t : forall lo acc, sorted_from P lo t ->
  ymax_of (fold_left bbox_step t acc) =
  match t with [] => ymax_of acc | _ => Z.max (ymax_of acc) (last_end t 0) end.
Proof.
  induction t as [|[[s e] xs] t IH]; intros lo acc Hs; [reflexivity|].
  cbn [fold_left]. cbn in Hs. destruct Hs as (H1 & H2 & H3 & H4).
  rewrite (IH e _ H4). destruct (bbox_step_y acc s e xs) as [_ Ey]. rewrite Ey.
  destruct t as [|sp t']; [cbn; reflexivity|].
  cbn [last_end]. destruct (last_end_ge P (sp :: t') e e H4 ltac:(lia)) as [Ha _].
  destruct sp as [[s1 e1] xs1]. cbn [last_end] in *.
  (* last_end (sp::t') 0 = last_end t' e1 = last_end (sp::t') e *)
  lia.
Qed.

(* a pixel in the first row of the first band and in the last row of the last band *)
Lemma first_row_pixel lo s e xs t :
  sorted_from Py lo ((s, e, xs) :: t) -> exists x, rgn_mem ((s, e, xs) :: t) x s = true.
Proof.
  intros Hs. cbn in Hs. destruct Hs as (H1 & H2 & ([lox Hx] & Hne) & H4).
  destruct xs as [|[[x1 x2] u] xt]; [congruence|]. cbn in Hx. destruct Hx as (_ & Hx12 & _).
  exists x1. unfold rgn_mem. cbn [lookup]. replace ((s <=? s) && (s <? e)) with true by lia.
  unfold x_mem. cbn [lookup]. replace ((x1 <=? x1) && (x1 <? x2)) with true by lia. reflexivity.
Qed.

Lemma last_row_pixel t : forall lo, sorted_from Py lo t -> t <> [] ->
  exists x, rgn_mem t x (last_end t 0 - 1) = true.
Proof.
  induction t as [|[[s e] xs] t IH]; intros lo Hs Hne; [congruence|].
  destruct t as [|sp t'].
  - cbn [last_end]. cbn in Hs. destruct Hs as (H1 & H2 & ([lox Hx] & Hn) & _).
    destruct xs as [|[[x1 x2] u] xt]; [congruence|]. cbn in Hx. destruct Hx as (_ & Hx12 & _).
    exists x1. unfold rgn_mem. cbn [lookup]. replace ((s <=? e - 1) && (e - 1 <? e)) with true by lia.
    unfold x_mem. cbn [lookup]. replace ((x1 <=? x1) && (x1 <? x2)) with true by lia. reflexivity.
  - destruct sp as [[s1 e1] xs1].
    pose proof Hs as Hs0. cbn in Hs. destruct Hs as (H1 & H2 & H3 & H4).
    destruct (IH e H4 ltac:(discriminate)) as [x Hx]. exists x.
    destruct (last_end_ge Py ((s1, e1, xs1) :: t') e e H4 ltac:(lia)) as [_ Hb]. specialize (Hb ltac:(discriminate)).
    cbn [last_end] in *.
    unfold rgn_mem in *. cbn [lookup] in *.
    replace ((s <=? last_end t' e1 - 1) && (last_end t' e1 - 1 <? e)) with false by lia.
    exact Hx.
Qed.

(* the rectangle popped from the bounding box: rows [lo, hi) with a pixel in row lo and in row hi-1 *)
Lemma bbox_rows W H M :
  0 < W -> 0 < H -> H <= INT_MAX -> WF M ->
  (forall x y, rgn_mem M x y = true -> inS W H x y) ->
  (exists x y, rgn_mem M x y = true) ->
  exists x1 lo x2 hi rest,
    rgn_pop_rect (rgn_bbox M) false false = Some ((x1, lo, x2, hi), rest) /\
    0 <= lo /\ lo < hi /\ hi <= H /\
    (exists x, rgn_mem M x lo = true) /\ (exists x, rgn_mem M x (hi - 1) = true) /\
    (forall x y, rgn_mem M x y = true -> lo <= y < hi).
Proof.
  intros HW HH HHm [lo0 Hs] Hin (px & py & Hp).
  destruct M as [|[[s e] xs] t]; [discriminate|].
  rewrite rgn_bbox_unfold.
  pose proof (bbox_fold_ymin Py _ lo0 (INT_MAX, INT_MAX, 1 - INT_MAX, 1 - INT_MAX) Hs) as Emin.
  pose proof (bbox_fold_ymax Py _ lo0 (INT_MAX, INT_MAX, 1 - INT_MAX, 1 - INT_MAX) Hs) as Emax.
  pose proof (fun x y => bbox_fold_y x y _ lo0 INT_MAX INT_MAX (1 - INT_MAX) (1 - INT_MAX) Hs) as G.
  destruct (fold_left bbox_step _ _) as [[[a b] c] d].
  cbn [ymin_of ymax_of] in Emin, Emax.
  destruct (G px py) as (_ & _ & _ & _ & _ & G0). destruct (G0 ltac:(discriminate)) as [Gac Gbd].
  replace ((c <? a) || (d <? b)) with false by lia.
  destruct (first_row_pixel _ _ _ _ _ Hs) as [xf Hf].
  destruct (last_row_pixel _ lo0 Hs ltac:(discriminate)) as [xl Hl].
  pose proof (Hin _ _ Hf) as [_ Hfs]. pose proof (Hin _ _ Hl) as [_ Hls].
  assert (Eb : b = s) by (rewrite Emin; apply Z.min_r; lia).
  assert (HIM : 1 - INT_MAX <= 0) by (unfold INT_MAX; lia).
  set (L := last_end ((s, e, xs) :: t) 0) in *.
  change (last_end ((s, e, xs) :: t) 0) with L in Emax, Hls, Hl.
  assert (Ed : d = L) by (rewrite Emax; apply Z.max_r; lia).
  exists a, b, c, d, []. split; [reflexivity|].
  split; [lia|]. split; [lia|]. split; [lia|]. split; [exists xf; rewrite Eb; exact Hf|].
  split; [exists xl; rewrite Ed; exact Hl|].
  intros x y Hm. destruct (G x y) as (_ & _ & _ & _ & G1 & _). specialize (G1 Hm). lia.
Qed.

(* ------------------------------------------------------------------ one round *)
Definition round_client (st : state) (c : client) : client :=
  request_client (sW st) (sH st) true 0 0 (sW st) (sH st) c.

Definition slice_round (st : state) (c : client) : option client :=
  match send_client st (round_client st c) with Some (c', _) => Some c' | None => None end.

Fixpoint slice_rounds (st : state) (c : client) (n : nat) : option client :=
  match n with
  | O => Some c
  | S n' => match slice_round st c with Some c' => slice_rounds st c' n' | None => None end
  end.

Lemma slice_rounds_app st n : forall c m c1,
  slice_rounds st c n = Some c1 -> slice_rounds st c (n + m) = slice_rounds st c1 m.
Proof.
  induction n as [|n IH]; intros c m c1 H; cbn in *; [inversion H; reflexivity|].
  destruct (slice_round st c) as [c'|]; [|discriminate]. apply IH. exact H.
Qed.

(* the standing assumptions on the client between the rounds *)
Record P0 (st : state) (F : Z -> Z -> Z) (c : client) : Prop := mkP0 {
  p_core : InvCore (sW st) (sH st) F c;
  p_F : forall x y, fb_for st c x y = F x y;
  p_w : cPW c = sW st;
  p_h : cPH c = sH st;
  p_C : no_pix (cC c);
  p_nosize : cUseNewFB c && cNewFBPending c = false;
  p_unscaled : cScaled c = None;
  p_sy : 0 <= cSliceY c
}.

Definition in_band (y0 hgt y : Z) : bool := (y0 <=? y) && (y <? y0 + hgt).

(* what one round does to M and to progressiveSliceY *)
Definition round_effect (st : state) (c c' : client) : Prop :=
  (no_pix (cM c) /\ no_pix (cM c')) \/
  exists lo hi,
    0 <= lo /\ lo < hi /\ hi <= sH st /\
    (exists x, rgn_mem (cM c) x lo = true) /\ (exists x, rgn_mem (cM c) x (hi - 1) = true) /\
    (forall x y, rgn_mem (cM c) x y = true -> lo <= y < hi) /\
    let ys := if (cSliceY c <? lo) || (cSliceY c >=? hi) then lo else cSliceY c in
    (forall x y, rgn_mem (cM c') x y = rgn_mem (cM c) x y && negb (in_band ys (sSliceH st) y)) /\
    cSliceY c' = (if ys + sSliceH st >=? sH st then 0 else ys + sSliceH st).

Lemma req_clip_full W H : 0 < W -> 0 < H -> req_clip W H 0 0 W H = Some (0, 0, W, H).
Proof.
  intros HW HH. unfold req_clip. destruct (W >? W - 0) eqn:E1; [lia|]. destruct (H >? H - 0) eqn:E2; [lia|].
  cbv zeta. rewrite E1, E2. reflexivity.
Qed.

Lemma round_client_fields st c :
  0 < sW st -> 0 < sH st ->
  let c1 := round_client st c in
  cM c1 = cM c /\ cC c1 = cC c /\ cDX c1 = cDX c /\ cDY c1 = cDY c /\
  cR c1 = rgn_or (cR c) (rgn_create_rect 0 0 (0 + sW st) (0 + sH st)) /\
  cShape c1 = cShape c /\ cCurChanged c1 = cCurChanged c /\ cCurX c1 = cCurX c /\ cCurY c1 = cCurY c /\
  cSliceY c1 = cSliceY c /\ cUseNewFB c1 = cUseNewFB c /\ cNewFBPending c1 = cNewFBPending c /\
  cBpp c1 = cBpp c /\ cPW c1 = cPW c /\ cPH c1 = cPH c /\ cPic c1 = cPic c /\ cExt c1 = cExt c.
Proof.
  intros HW HH. unfold round_client, request_client. rewrite (req_clip_full _ _ HW HH).
  replace ((sW st =? 0) || (sH st =? 0)) with false by lia.
  destruct c; csimpl. repeat split.
Qed.

Lemma soft_cursor_more st c1 U3 c2 U3c :
  soft_cursor st c1 U3 = (c2, U3c) -> cSliceY c2 = cSliceY c1 /\ cExt c2 = cExt c1.
Proof.
  unfold soft_cursor. destruct (cShape c1); [intros Hs; inversion Hs; auto|].
  destruct (negb (cCurX c1 =? sCurX st) || negb (cCurY c1 =? sCurY st)); intros Hs; inversion Hs; auto.
  all: try (destruct c1; split; reflexivity).
Qed.

Lemma ys_nonneg sy lo hi : 0 <= sy -> 0 <= lo -> 0 <= (if (sy <? lo) || (sy >=? hi) then lo else sy).
Proof. intros. destruct ((sy <? lo) || (sy >=? hi)); lia. Qed.

Lemma next_y_nonneg ys hgt H : 0 <= ys -> 0 < hgt -> 0 <= (if ys + hgt >=? H then 0 else ys + hgt).
Proof. intros. destruct (ys + hgt >=? H); lia. Qed.

Lemma set_slice_regions_fields c M C dx dy R sy :
  let c' := set_slice (set_regions c M C dx dy R) sy in
  cM c' = M /\ cC c' = C /\ cSliceY c' = sy /\ cUseNewFB c' = cUseNewFB c /\
  cNewFBPending c' = cNewFBPending c /\ cExt c' = cExt c /\ cPW c' = cPW c /\ cPH c' = cPH c.
Proof. destruct c; repeat split. Qed.

Lemma round_spec st F c :
  0 < sW st -> 0 < sH st -> sH st <= INT_MAX -> 0 < sSliceH st ->
  P0 st F c ->
  exists c', slice_round st c = Some c' /\ P0 st F c' /\ round_effect st c c'.
Proof.
  intros HW HH HHm Hh [Ic HF Hpw Hph HC Hns Hus Hsy].
  pose proof (round_client_fields st c HW HH) as Hf. cbv zeta in Hf.
  set (c1 := round_client st c) in *.
  destruct Hf as (E1 & E2 & E3 & E4 & E5 & E6 & E7 & E8 & E9 & E10 & E11 & E12 & E13 & E14 & E15 & E16 & E17).
  pose proof (iWM _ _ _ _ Ic) as HWM. pose proof (iWC _ _ _ _ Ic) as HWC. pose proof (iWR _ _ _ _ Ic) as HWR.
  assert (Hrect : WF (rgn_create_rect 0 0 (0 + sW st) (0 + sH st))) by (apply create_rect_wf; lia).
  assert (HWR1 : WF (cR c1)) by (rewrite E5; wf).
  assert (HRall : forall x y, inS (sW st) (sH st) x y -> rgn_mem (cR c1) x y = true).
  { intros x y Hxy. rewrite E5. msimp. unfold rect_mem, inS in *.
    replace ((0 <=? x) && (x <? 0 + sW st) && (0 <=? y) && (y <? 0 + sH st)) with true by lia. apply orb_true_r. }
  (* the invariant for c1 *)
  assert (Ic1 : InvC (sW st) (sH st) (fb_for st c1) c1).
  { assert (Hfb : forall x y, fb_for st c1 x y = F x y) by (intros; unfold fb_for; rewrite E13; apply HF).
    apply invc_Fext with (F := F); [intros; apply Hfb|].
    unfold c1, round_client. apply inv_request; [|unfold req_ok; lia].
    split; [exact Ic|left; split; assumption]. }
  assert (Hg1 : scaled_guard c1 = false) by (unfold scaled_guard, cScaled in *; rewrite E17, Hus; reflexivity).
  destruct (send_total_c st c1 HW HH Ic1 Hg1) as [[c' m] Es].
  destruct (inv_send st c1 c' m HW HH Ic1 Es) as [[Ic' Sc'] Hb'].
  exists c'. split; [unfold slice_round; fold c1; rewrite Es; reflexivity|].
  (* unfold the send *)
  unfold send_client, send_client_gen in Es. rewrite Hg1 in Es.
  rewrite E11, E12, Hns in Es.
  assert (HC1 : no_pix (r_sub (cC c1) (cM c1))).
  { intros x y. rewrite E1, E2. msimp. rewrite (HC x y). reflexivity. }
  assert (HWC1 : WF (r_sub (cC c1) (cM c1))) by (rewrite E1, E2; wf).
  set (C1 := r_sub (cC c1) (cM c1)) in *.
  (* the slice *)
  assert (Hslice : exists U0 sy',
            slice_region st c1 (cM c1) = (U0, sy') /\ WF U0 /\
            ((no_pix (cM c) /\ no_pix U0 /\
              sy' = (if cSliceY c + sSliceH st >=? sH st then 0 else cSliceY c + sSliceH st)) \/
             exists lo hi,
               0 <= lo /\ lo < hi /\ hi <= sH st /\
               (exists x, rgn_mem (cM c) x lo = true) /\ (exists x, rgn_mem (cM c) x (hi - 1) = true) /\
               (forall x y, rgn_mem (cM c) x y = true -> lo <= y < hi) /\
               let ys := if (cSliceY c <? lo) || (cSliceY c >=? hi) then lo else cSliceY c in
               (forall x y, rgn_mem U0 x y = rgn_mem (cM c) x y && in_band ys (sSliceH st) y) /\
               sy' = (if ys + sSliceH st >=? sH st then 0 else ys + sSliceH st))).
  { unfold slice_region. rewrite E1, E10. replace (sSliceH st >? 0) with true by lia.
    destruct (cM c) as [|sp t] eqn:EM.
    - cbn. eexists. eexists. split; [reflexivity|]. split; [apply WF_empty|]. left.
      split; [intros x y; reflexivity|]. split; [intros x y; reflexivity|reflexivity].
    - rewrite <- EM in *.
      assert (Hpix : exists x y, rgn_mem (cM c) x y = true).
      { destruct HWM as [lo0 Hs0]. rewrite EM in Hs0. destruct sp as [[s e] xs].
        destruct (first_row_pixel _ _ _ _ _ Hs0) as [x Hx]. exists x, s. rewrite EM. exact Hx. }
      destruct (bbox_rows (sW st) (sH st) (cM c) HW HH HHm HWM (iMin _ _ _ _ Ic) Hpix)
        as (x1 & lo & x2 & hi & rest & Epop & Hlo & Hlh & Hhi & Hat1 & Hat2 & Hrows).
      rewrite Epop.
      set (ys := if (cSliceY c <? lo) || (cSliceY c >=? hi) then lo else cSliceY c).
      assert (Hys : 0 <= ys) by (apply ys_nonneg; assumption).
      assert (Hsl : WF (rgn_create_rect 0 ys (sW st) (ys + sSliceH st))).
      { apply create_rect_wf; [exact HW|]. clear - Hh. lia. }
      eexists. eexists. split; [reflexivity|]. split; [wf|]. right.
      exists lo, hi. repeat (split; [assumption|]). fold ys. split; [|reflexivity].
      intros x y. msimp. unfold in_band, rect_mem.
      destruct (rgn_mem (cM c) x y) eqn:Em; [|reflexivity].
      destruct (iMin _ _ _ _ Ic x y Em) as [Hx _]. cbn [andb]. clear - Hx. lia. }
  destruct Hslice as (U0 & sy' & Esl & HU0 & Hcases).
  rewrite Esl in Es.
  destruct (rgn_and (rgn_or U0 C1) (cR c1)) as [U2 b] eqn:Eand.
  assert (EU2 : U2 = r_and (rgn_or U0 C1) (cR c1)) by (unfold r_and; rewrite Eand; reflexivity).
  assert (HU2 : WF U2) by (rewrite EU2; wf).
  (* membership in U2 = membership in U0 (the requested region covers the screen, C1 is empty) *)
  assert (HU2m : forall x y, rgn_mem U2 x y = rgn_mem U0 x y && rgn_mem (cR c1) x y).
  { intros x y. rewrite EU2. msimp. rewrite (HC1 x y), orb_false_r. reflexivity. }
  (* the effect on M, in both branches *)
  assert (Hgoal : forall M', WF M' ->
            (forall x y, rgn_mem M' x y = rgn_mem (cM c) x y && negb (rgn_mem U2 x y)) ->
            cM c' = M' -> cSliceY c' = sy' -> round_effect st c c').
  { intros M' HWM' HM' EM' Esy'. unfold round_effect. destruct Hcases as [[Hn1 Hn2]|(lo & hi & A1 & A2 & A3 & A4 & A5 & A6 & A7)].
    - left. split; [exact Hn1|]. intros x y. rewrite EM', HM', (Hn1 x y). reflexivity.
    - right. exists lo, hi. repeat (split; [assumption|]). cbv zeta in A7 |- *. destruct A7 as [A7 A8].
      split; [|rewrite Esy'; exact A8].
      intros x y. rewrite EM', HM', HU2m, A7.
      destruct (rgn_mem (cM c) x y) eqn:Em; [|reflexivity]. cbn [andb].
      rewrite (HRall x y (iMin _ _ _ _ Ic x y Em)). rewrite andb_true_r. reflexivity. }
  assert (HP0 : forall (Ecc : no_pix (cC c')) (Efl : cUseNewFB c' && cNewFBPending c' = false)
                       (Esc : cScaled c' = None) (Ew : cPW c' = sW st) (Eh : cPH c' = sH st)
                       (Esy : 0 <= cSliceY c'), P0 st F c').
  { intros. constructor; try assumption.
    - destruct Ic' as [a1 a2 a3 a4 a5 a6 a7]. constructor; try assumption.
      intros Hw0 Hh0 x y Hxy Hm. rewrite <- (HF x y). replace (fb_for st c x y) with (fb_for st c1 x y)
        by (unfold fb_for; rewrite E13; reflexivity). apply a7; assumption.
    - intros x y. unfold fb_for. rewrite Hb', E13. apply HF. }
  assert (Hsy' : 0 <= sy').
  { destruct Hcases as [(_ & _ & A8)|(lo & hi & A1 & A2 & A3 & A4 & A5 & A6 & A7)].
    - rewrite A8. apply next_y_nonneg; assumption.
    - cbv zeta in A7. destruct A7 as [_ A8]. rewrite A8. apply next_y_nonneg; [apply ys_nonneg; assumption|assumption]. }
  match type of Es with (if ?cond then _ else _) = _ => destruct cond eqn:Econd end.
  - (* early return: nothing in the band was requested-and-modified *)
    inversion Es; subst c' m. clear Es.
    apply andb_true_iff in Econd. destruct Econd as [Econd _].
    apply andb_true_iff in Econd. destruct Econd as [Econd _].
    apply andb_true_iff in Econd. destruct Econd as [_ Eemp].
    destruct (set_slice_regions_fields c1 (cM c1) C1 (cDX c1) (cDY c1) (cR c1) sy')
      as (T1 & T2 & T3 & T4 & T5 & T6 & T7 & T8).
    split.
    + apply HP0.
      * rewrite T2. exact HC1.
      * rewrite T4, T5, E11, E12. exact Hns.
      * unfold cScaled in *. rewrite T6, E17. exact Hus.
      * rewrite T7, E14. exact Hpw.
      * rewrite T8, E15. exact Hph.
      * rewrite T3. exact Hsy'.
    + apply (Hgoal (cM c1)); [rewrite E1; exact HWM| |exact T1|exact T3].
      intros x y. rewrite E1, (is_empty_mem U2 x y Eemp), andb_true_r. reflexivity.
  - (* an update is sent *)
    unfold send_update_gen in Es.
    set (UC := r_and (r_and C1 (cR c1)) (rgn_offset (cR c1) (cDX c1) (cDY c1))) in *.
    set (U3 := r_sub U2 UC) in *.
    set (M' := r_sub (r_sub (rgn_or (cM c1) C1) U3) UC) in *.
    assert (HWM1 : WF (cM c1)) by (rewrite E1; exact HWM).
    assert (HUC : WF UC) by (unfold UC; wf).
    assert (HU3 : WF U3) by (unfold U3; wf).
    assert (HM' : WF M') by (unfold M'; wf).
    set (cX := set_slice (set_regions c1 M' rgn_empty 0 0 rgn_empty) sy') in *.
    destruct (soft_cursor st cX U3) as [c2 U3c] eqn:Esoft.
    destruct (soft_cursor_spec _ _ _ _ _ HW HH HU3 Esoft)
      as (_ & _ & S1 & S2 & _ & _ & _ & S6 & S7 & _ & _ & S10 & S11).
    destruct (soft_cursor_more _ _ _ _ _ Esoft) as [S12 S13].
    match type of Es with (if ?cond then _ else _) = _ => destruct cond end; [|discriminate].
    inversion Es; subst c' m. clear Es.
    set (c3 := if cShape c1 && cCurChanged c1 && cReady c1
               then set_flags c2 (cUseCopy c2) (cShape c2) false (cReady c2) (cUseNewFB c2) (cUseExt c2) else c2) in *.
    assert (F3 : cM c3 = M' /\ cC c3 = rgn_empty /\ cSliceY c3 = sy' /\ cUseNewFB c3 = cUseNewFB c1 /\
                 cNewFBPending c3 = cNewFBPending c1 /\ cExt c3 = cExt c1).
    { destruct (set_slice_regions_fields c1 M' rgn_empty 0 0 rgn_empty sy') as (X1 & X2 & X3 & X4 & X5 & X6 & _ & _).
      fold cX in X1, X2, X3, X4, X5, X6.
      unfold c3. destruct (cShape c1 && cCurChanged c1 && cReady c1); destruct c2; csimpl;
        repeat split; congruence. }
    destruct F3 as (G1 & G2 & G3 & G4 & G5 & G6).
    assert (R3 : forall pw ph pic,
              cM (set_pic c3 pw ph pic) = cM c3 /\ cC (set_pic c3 pw ph pic) = cC c3 /\
              cSliceY (set_pic c3 pw ph pic) = cSliceY c3 /\ cUseNewFB (set_pic c3 pw ph pic) = cUseNewFB c3 /\
              cNewFBPending (set_pic c3 pw ph pic) = cNewFBPending c3 /\ cExt (set_pic c3 pw ph pic) = cExt c3 /\
              cPW (set_pic c3 pw ph pic) = pw /\ cPH (set_pic c3 pw ph pic) = ph)
      by (intros; destruct c3; repeat split).
    match goal with |- P0 _ _ (set_pic c3 ?pw ?ph ?pic) /\ _ =>
      destruct (R3 pw ph pic) as (Q1 & Q2 & Q3 & Q4 & Q5 & Q6 & Q7 & Q8) end.
    split.
    + apply HP0.
      * intros x y. rewrite Q2, G2. reflexivity.
      * rewrite Q4, Q5, G4, G5, E11, E12. exact Hns.
      * unfold cScaled in *. rewrite Q6, G6, E17. exact Hus.
      * rewrite Q7, E14. exact Hpw.
      * rewrite Q8, E15. exact Hph.
      * rewrite Q3, G3. exact Hsy'.
    + apply (Hgoal M' HM'); [|rewrite Q1; exact G1|rewrite Q3; exact G3].
      intros x y. unfold M', U3. msimp. rewrite E1.
      assert (EUC : rgn_mem UC x y = false) by (unfold UC; msimp; rewrite (HC1 x y); reflexivity).
      rewrite EUC, (HC1 x y). cbn [negb]. rewrite orb_false_r, !andb_true_r. reflexivity.
Qed.

(* ------------------------------------------------------------------ the two phases of the sweep *)
Section Sweep.
  Variable st : state.
  Variable F : Z -> Z -> Z.
  Hypothesis HW : 0 < sW st.
  Hypothesis HH : 0 < sH st.
  Hypothesis HHm : sH st <= INT_MAX.
  Hypothesis Hh : 0 < sSliceH st.

  Definition rows (c : client) (a b : Z) : Prop := forall x y, rgn_mem (cM c) x y = true -> a <= y < b.

  (* the next slice starts at the top of what is left *)
  Definition at_top (c : client) : Prop :=
    (forall x y, rgn_mem (cM c) x y = true -> cSliceY c <= y) \/
    (forall x y, rgn_mem (cM c) x y = true -> y < cSliceY c).

  Lemma rows_screen c : P0 st F c -> rows c 0 (sH st).
  Proof. intros P x y Hm. destruct (iMin _ _ _ _ (p_core _ _ _ P) x y Hm) as [_ ?]. assumption. Qed.

  Lemma rounds_empty n : forall c, P0 st F c -> no_pix (cM c) ->
    exists c', slice_rounds st c n = Some c' /\ P0 st F c' /\ no_pix (cM c').
  Proof.
    induction n as [|n IH]; intros c P Hn; [exists c; auto|].
    destruct (round_spec st F c HW HH HHm Hh P) as (c1 & E1 & P1 & Eff).
    cbn [slice_rounds]. rewrite E1.
    apply IH; [exact P1|]. destruct Eff as [[_ ?]|(lo & hi & _ & _ & _ & (x & Hx) & _)]; [assumption|].
    rewrite (Hn x lo) in Hx. discriminate.
  Qed.

  (* phase B: every round removes the top [slice] rows of what is left *)
  Lemma phaseB n : forall c a b,
    P0 st F c -> rows c a b -> at_top c -> b - a <= Z.of_nat n * sSliceH st ->
    exists c', slice_rounds st c n = Some c' /\ P0 st F c' /\ no_pix (cM c').
  Proof.
    induction n as [|n IH]; intros c a b P Hr Ht Hb.
    - exists c. split; [reflexivity|]. split; [exact P|]. intros x y.
      destruct (rgn_mem (cM c) x y) eqn:E; [|reflexivity]. specialize (Hr x y E). lia.
    - destruct (round_spec st F c HW HH HHm Hh P) as (c1 & E1 & P1 & Eff).
      cbn [slice_rounds]. rewrite E1.
      destruct Eff as [[_ Hn1]|(lo & hi & A1 & A2 & A3 & (xl & Hxl) & (xh & Hxh) & A6 & A7)].
      + apply rounds_empty; assumption.
      + cbv zeta in A7. destruct A7 as [A7 A8].
        pose proof (Hr _ _ Hxl) as Hlo. pose proof (A6 _ _ Hxh) as Hhi.
        (* the slice starts at lo *)
        assert (Eys : (if (cSliceY c <? lo) || (cSliceY c >=? hi) then lo else cSliceY c) = lo).
        { destruct Ht as [Ht|Ht].
          - specialize (Ht _ _ Hxl). destruct ((cSliceY c <? lo) || (cSliceY c >=? hi)) eqn:E; lia.
          - specialize (Ht _ _ Hxh). replace ((cSliceY c <? lo) || (cSliceY c >=? hi)) with true by lia. reflexivity. }
        rewrite Eys in A7, A8.
        assert (Hr1 : rows c1 (lo + sSliceH st) b).
        { intros x y Hm. rewrite A7 in Hm. apply andb_true_iff in Hm. destruct Hm as [Hm Hb0].
          specialize (Hr _ _ Hm). specialize (A6 _ _ Hm). unfold in_band in Hb0. lia. }
        pose proof (rows_screen c1 P1) as Hs1.
        apply (IH c1 (lo + sSliceH st) b P1 Hr1); [|lia].
        destruct (lo + sSliceH st >=? sH st) eqn:Ew.
        * left. intros x y Hm. specialize (Hr1 _ _ Hm). specialize (Hs1 _ _ Hm). lia.
        * left. intros x y Hm. specialize (Hr1 _ _ Hm). lia.
  Qed.

  (* phase A: the sweep that is under way reaches the bottom; afterwards everything left lies
     above the row y0 where it started *)
  Lemma phaseA n : forall c y0,
    P0 st F c -> y0 <= cSliceY c ->
    (forall x y, rgn_mem (cM c) x y = true -> y < y0 \/ cSliceY c <= y) ->
    sH st - cSliceY c <= Z.of_nat n * sSliceH st ->
    exists m c', (m <= n)%nat /\ slice_rounds st c m = Some c' /\ P0 st F c' /\
                 rows c' 0 (Z.min y0 (sH st)) /\ at_top c'.
  Proof.
    induction n as [|n IH]; intros c y0 P Hy0 Hq Hb.
    - exists 0%nat, c. split; [lia|]. split; [reflexivity|]. split; [exact P|].
      pose proof (rows_screen c P) as Hs. split.
      + intros x y Hm. specialize (Hs _ _ Hm). destruct (Hq _ _ Hm); lia.
      + right. intros x y Hm. specialize (Hs _ _ Hm). lia.
    - destruct (round_spec st F c HW HH HHm Hh P) as (c1 & E1 & P1 & Eff).
      pose proof (rows_screen c P) as Hs.
      destruct Eff as [[Hn _]|(lo & hi & A1 & A2 & A3 & (xl & Hxl) & (xh & Hxh) & A6 & A7)].
      + exists 0%nat, c. split; [lia|]. split; [reflexivity|]. split; [exact P|]. split.
        * intros x y Hm. rewrite (Hn x y) in Hm. discriminate.
        * left. intros x y Hm. rewrite (Hn x y) in Hm. discriminate.
      + cbv zeta in A7. destruct A7 as [A7 A8].
        assert (Ehi : (cSliceY c >=? hi) = true \/ (cSliceY c >=? hi) = false) by (destruct (cSliceY c >=? hi); auto).
        destruct Ehi as [Ehi|Ehi].
        { (* already past everything: nothing of the old sweep is left *)
          exists 0%nat, c. split; [lia|]. split; [reflexivity|]. split; [exact P|]. split.
          - intros x y Hm. specialize (Hs _ _ Hm). specialize (A6 _ _ Hm). destruct (Hq _ _ Hm); lia.
          - right. intros x y Hm. specialize (A6 _ _ Hm). lia. }
        set (ys := if (cSliceY c <? lo) || (cSliceY c >=? hi) then lo else cSliceY c) in *.
        assert (Hys : cSliceY c <= ys) by (unfold ys; destruct ((cSliceY c <? lo) || (cSliceY c >=? hi)) eqn:E; lia).
        assert (Hbelow : forall x y, rgn_mem (cM c) x y = true -> y < y0 \/ ys <= y).
        { intros x y Hm. destruct (Hq _ _ Hm) as [?|?]; [left; assumption|].
          specialize (A6 _ _ Hm). unfold ys. destruct ((cSliceY c <? lo) || (cSliceY c >=? hi)); [right; lia|right; lia]. }
        assert (Hq1 : forall x y, rgn_mem (cM c1) x y = true -> y < y0 \/ ys + sSliceH st <= y).
        { intros x y Hm. rewrite A7 in Hm. apply andb_true_iff in Hm. destruct Hm as [Hm Hb0].
          destruct (Hbelow _ _ Hm); [left; assumption|]. unfold in_band in Hb0. right. lia. }
        pose proof (rows_screen c1 P1) as Hs1.
        destruct (ys + sSliceH st >=? sH st) eqn:Ew.
        * (* the sweep has reached the bottom *)
          exists 1%nat, c1. split; [lia|]. split; [cbn [slice_rounds]; rewrite E1; reflexivity|].
          split; [exact P1|]. split.
          -- intros x y Hm. specialize (Hs1 _ _ Hm). destruct (Hq1 _ _ Hm); lia.
          -- left. intros x y Hm. specialize (Hs1 _ _ Hm). rewrite A8. lia.
        * destruct (IH c1 y0 P1) as (m & c2 & Hm & E2 & P2 & R2 & T2).
          -- rewrite A8. lia.
          -- rewrite A8. exact Hq1.
          -- rewrite A8. lia.
          -- exists (S m), c2. split; [lia|]. split; [cbn [slice_rounds]; rewrite E1; exact E2|].
             split; [exact P2|]. split; assumption.
  Qed.

  (* a bounded number of request/send rounds empties the modified region *)
  Lemma slices_converge c :
    P0 st F c ->
    exists c', slice_rounds st c (Z.to_nat (sH st / sSliceH st + 2)) = Some c' /\
               P0 st F c' /\ no_pix (cM c').
  Proof.
    intros P.
    set (hh := sSliceH st). set (y0 := Z.min (cSliceY c) (sH st)).
    pose proof (p_sy _ _ _ P) as Hsy.
    set (nA := Z.to_nat ((sH st - y0) / hh + 1)). set (nB := Z.to_nat (y0 / hh + 1)).
    assert (Hy0 : 0 <= y0 <= sH st) by (unfold y0; lia).
    destruct (phaseA nA c y0 P) as (m & c1 & Hm & E1 & P1 & R1 & T1).
    - unfold y0. lia.
    - intros x y Hm0. destruct (Z.lt_ge_cases y (cSliceY c)); [|right; lia].
      left. pose proof (rows_screen c P _ _ Hm0). unfold y0. lia.
    - unfold nA. rewrite Z2Nat.id by (apply Z.add_nonneg_nonneg; [apply Z.div_pos; lia|lia]).
      pose proof (Z.mod_pos_bound (sH st - y0) hh Hh). pose proof (Z.div_mod (sH st - y0) hh ltac:(lia)).
      destruct (Z.le_ge_cases (cSliceY c) (sH st)); unfold y0 in *; fold hh; nia.
    - destruct (phaseB nB c1 0 (Z.min y0 (sH st)) P1 R1 T1) as (c2 & E2 & P2 & N2).
      { unfold nB. rewrite Z2Nat.id by (apply Z.add_nonneg_nonneg; [apply Z.div_pos; lia|lia]).
        pose proof (Z.mod_pos_bound y0 hh Hh). pose proof (Z.div_mod y0 hh ltac:(lia)). fold hh. nia. }
      (* pad with rounds on the empty region *)
      set (N := Z.to_nat (sH st / hh + 2)).
      assert (HN : (m + nB <= N)%nat).
      { assert (Hsum : Z.of_nat nA + Z.of_nat nB <= sH st / hh + 2).
        { unfold nA, nB. rewrite !Z2Nat.id by (apply Z.add_nonneg_nonneg; [apply Z.div_pos; lia|lia]).
          assert ((sH st - y0) / hh + y0 / hh <= sH st / hh).
          { pose proof (Z.div_mod (sH st - y0) hh ltac:(lia)). pose proof (Z.div_mod y0 hh ltac:(lia)).
            pose proof (Z.div_mod (sH st) hh ltac:(lia)).
            pose proof (Z.mod_pos_bound (sH st - y0) hh Hh). pose proof (Z.mod_pos_bound y0 hh Hh).
            pose proof (Z.mod_pos_bound (sH st) hh Hh). nia. }
          lia. }
        unfold N. apply Nat2Z.inj_le. rewrite Z2Nat.id by (apply Z.add_nonneg_nonneg; [apply Z.div_pos; lia|lia]).
        lia. }
      destruct (rounds_empty (N - (m + nB)) c2 P2 N2) as (c3 & E3 & P3 & N3).
      exists c3. split; [|split; assumption].
      replace N with (m + (nB + (N - (m + nB))))%nat by lia.
      rewrite (slice_rounds_app st m c _ c1 E1). rewrite (slice_rounds_app st nB c1 _ c2 E2). exact E3.
  Qed.
End Sweep.

(* after those rounds the client's picture is the framebuffer *)
Lemma P0_converged st F c :
  P0 st F c -> no_pix (cM c) ->
  forall x y, inS (sW st) (sH st) x y -> pic_get (cPic c) x y = F x y.
Proof.
  intros P Hn x y Hxy.
  apply (iPix _ _ _ _ (p_core _ _ _ P) (p_w _ _ _ P) (p_h _ _ _ P) x y Hxy (Hn x y)). apply (p_C _ _ _ P).
Qed.

Lemma P0_of_inv st c :
  Inv st -> In c (sClients st) -> no_pix (cC c) -> cUseNewFB c && cNewFBPending c = false ->
  cScaled c = None -> 0 <= cSliceY c -> P0 st (fb_for st c) c.
Proof.
  intros (HW & HH & _ & Hcl) Hin HC Hns Hus Hsy. rewrite Forall_forall in Hcl. destruct (Hcl c Hin) as [I S].
  assert (Hsz : cPW c = sW st /\ cPH c = sH st).
  { destruct S as [?|[Ha Hb]]; [assumption|]. rewrite Ha, Hb in Hns. discriminate. }
  destruct Hsz. constructor; auto.
Qed.

Theorem slices_converge_inv st c :
  Inv st -> In c (sClients st) -> sH st <= INT_MAX -> 0 < sSliceH st ->
  no_pix (cC c) -> cUseNewFB c && cNewFBPending c = false -> cScaled c = None -> 0 <= cSliceY c ->
  exists c', slice_rounds st c (Z.to_nat (sH st / sSliceH st + 2)) = Some c' /\
             no_pix (cM c') /\
             forall x y, inS (sW st) (sH st) x y -> pic_get (cPic c') x y = fb_for st c x y.
Proof.
  intros HI Hin HHm Hh HC Hns Hus Hsy. pose proof HI as (HW & HH & _).
  pose proof (P0_of_inv st c HI Hin HC Hns Hus Hsy) as P.
  destruct (slices_converge st (fb_for st c) HW HH HHm Hh c P) as (c' & E & P' & N).
  exists c'. split; [exact E|]. split; [exact N|]. apply P0_converged; assumption.
Qed.
