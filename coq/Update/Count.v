(* C02 / C03: the announced rectangle count of an update.
   With the two-stage repair of rfbSendFramebufferUpdate mirrored in [count_fix] (bounding box of the pixel
   region; then copy region merged into the pixel region), for EVERY state of the invariant and every client:
   the announced count n equals the number of rectangles that follow (cursor pseudo-rectangle + CopyRects +
   pixel rectangles; size pseudo-rectangle: 1) and n < 65535 (0xFFFF is reserved for LastRect mode): the
   16-bit field never wraps. *)
From LV Require Import Region.RegionDefs Region.RegionSem Region.RegionProofs0 Region.RegionProofs
     Update.UpdateDefs Update.UpdateFacts Update.UpdateProofs0 Update.UpdateProofs Update.UpdateThms Update.NewFB.
From Coq Require Import ZifyBool.
Local Open Scope Z_scope.

Local Hint Resolve rgn_or_wf r_and_wf r_sub_wf offset_wf WF_empty create_rect_wf bbox_wf : wfdb.
Ltac wf := match goal with |- WF _ => solve [eauto 8 with wfdb] end.

Lemma count_nonneg r : 0 <= rgn_count r.
Proof. rewrite (count_iter false false r). lia. Qed.

Lemma coalesce_count st U : rgn_count (coalesce st U) <= rgn_count U.
Proof.
  unfold coalesce. destruct ((sMaxRects st >? 0) && (rgn_count U >? sMaxRects st)) eqn:E; [|lia].
  pose proof (bbox_count_le1 U). lia.
Qed.

Theorem send_count st c c' n rects :
  Inv st -> In c (sClients st) -> send_client st c = Some (c', Some (n, rects)) ->
  n = Z.of_nat (length rects) /\ n < 65535.
Proof.
  intros HI Hin Hs. pose proof HI as (HW & HH & _ & Hcl). rewrite Forall_forall in Hcl. destruct (Hcl c Hin) as [I S].
  pose proof (iWM _ _ _ _ I) as HWM. pose proof (iWC _ _ _ _ I) as HWC. pose proof (iWR _ _ _ _ I) as HWR.
  unfold send_client, send_client_gen in Hs. destruct (scaled_guard c); [discriminate|].
  destruct (cUseNewFB c && cNewFBPending c) eqn:Esc.
  { destruct (announced_size st c). inversion Hs; subst. cbn. lia. }
  destruct (slice_region st c (cM c)) as [U0 sy] eqn:Esl.
  destruct (slice_region_spec _ _ _ _ _ HW HWM Esl) as [HU0 _].
  destruct (rgn_and (rgn_or U0 (r_sub (cC c) (cM c))) (cR c)) as [U2 b] eqn:Eand.
  assert (HU2 : WF U2).
  { replace U2 with (r_and (rgn_or U0 (r_sub (cC c) (cM c))) (cR c)) by (unfold r_and; rewrite Eand; reflexivity). wf. }
  match type of Hs with (if ?cond then _ else _) = _ => destruct cond end; [discriminate|].
  unfold send_update_gen in Hs.
  set (UC := r_and (r_and (r_sub (cC c) (cM c)) (cR c)) (rgn_offset (cR c) (cDX c) (cDY c))) in *.
  set (U3 := r_sub U2 UC) in *.
  assert (HUC : WF UC) by (unfold UC; wf).
  assert (HU3 : WF U3) by (unfold U3; wf).
  destruct (soft_cursor st _ U3) as [c2 U3c] eqn:Esoft.
  destruct (soft_cursor_spec _ _ _ _ _ HW HH HU3 Esoft) as (HU3c & _).
  destruct (count_fix_spec UC U3c HUC HU3c) as (HUCf & HU3f & _ & _ & _ & _ & Hbound).
  destruct (coalesce_spec st _ HU3f) as [HU4 _].
  pose proof (coalesce_count st (snd (count_fix UC U3c))) as Hco.
  match type of Hs with (if ?cond then _ else _) = _ => destruct cond end; [|discriminate].
  inversion Hs; subst c' n rects. clear Hs.
  rewrite !app_length, !map_length, filter_raw_all by exact HU4.
  unfold copy_wrects.
  rewrite (count_iter (cDX c >? 0) (cDY c >? 0) (fst (count_fix UC U3c))) in *.
  rewrite (count_iter false false (coalesce st (snd (count_fix UC U3c)))) in *.
  pose proof (count_nonneg (snd (count_fix UC U3c))) as Hn3.
  set (a := length (rgn_iter (cDX c >? 0) (cDY c >? 0) (fst (count_fix UC U3c)))) in *.
  set (b4 := length (rgn_iter false false (coalesce st (snd (count_fix UC U3c))))) in *.
  destruct (cShape c && cCurChanged c && cReady c); cbn [length];
    rewrite Z.mod_small by lia; lia.
Qed.
