(* C02: progressiveSliceY never becomes negative.
   [0 <= cSliceY c] for every client is an invariant of every operation (given Inv: the top of the bounding
   box of a modified region inside the screen is >= 0), so the slicing theorem needs no hypothesis on it in
   reachable states. *)
From LV Require Import Region.RegionDefs Region.RegionSem Region.RegionProofs0 Region.RegionProofs
     Update.UpdateDefs Update.UpdateFacts Update.UpdateProofs0 Update.UpdateProofs Update.UpdateThms Update.NewFB
     Update.Slices.
From Coq Require Import ZifyBool.
Local Open Scope Z_scope.

Definition SL (c : client) : Prop := 0 <= cSliceY c.
Definition SliceOK (st : state) : Prop := Forall SL (sClients st).

Lemma sl_keep c c' : cSliceY c' = cSliceY c -> SL c -> SL c'.
Proof. unfold SL. intros ->. auto. Qed.

(* the top of the bounding box of a region inside the screen *)
Lemma bbox_top_nonneg W H M x1 ry1 x2 ry2 rest :
  WF M -> (forall x y, rgn_mem M x y = true -> inS W H x y) ->
  rgn_pop_rect (rgn_bbox M) false false = Some ((x1, ry1, x2, ry2), rest) -> 0 <= ry1.
Proof.
  intros [lo0 Hs] Hin. destruct M as [|[[s e] xs] t]; [cbn; discriminate|].
  rewrite rgn_bbox_unfold.
  pose proof (bbox_fold_ymin Py _ lo0 (INT_MAX, INT_MAX, 1 - INT_MAX, 1 - INT_MAX) Hs) as Emin.
  destruct (fold_left bbox_step _ _) as [[[a b] c] d].
  cbn [ymin_of] in Emin.
  destruct (first_row_pixel _ _ _ _ _ Hs) as [xf Hf]. pose proof (Hin _ _ Hf) as [_ Hfs].
  destruct ((c <? a) || (d <? b)); [cbn; discriminate|].
  cbn. intros E; inversion E; subst. unfold INT_MAX. lia.
Qed.

Lemma slice_sy_nonneg st c M U0 sy :
  WF M -> (forall x y, rgn_mem M x y = true -> inS (sW st) (sH st) x y) -> 0 <= cSliceY c ->
  slice_region st c M = (U0, sy) -> 0 <= sy.
Proof.
  intros HM Hin Hc. unfold slice_region.
  destruct (sSliceH st >? 0) eqn:Eh; [|intros Hs; inversion Hs; subst; exact Hc].
  destruct (rgn_pop_rect (rgn_bbox M) false false) as [[[[[rx1 ry1] rx2] ry2] rest]|] eqn:Ep;
    intros Hs; inversion Hs; subst.
  - pose proof (bbox_top_nonneg _ _ _ _ _ _ _ _ HM Hin Ep) as H1.
    apply next_y_nonneg; [apply ys_nonneg; assumption|lia].
  - apply next_y_nonneg; [assumption|lia].
Qed.

Lemma sl_mark rg c : SL c -> SL (mark_client rg c).
Proof. apply sl_keep; destruct c; reflexivity. Qed.

Lemma sl_request W H incr x y w h c : SL c -> SL (request_client W H incr x y w h c).
Proof.
  apply sl_keep. unfold request_client. destruct (req_clip W H x y w h) as [[[[? ?] ?] ?]|]; [|reflexivity].
  destruct (_ || _); [reflexivity|].
  destruct incr; destruct c; csimpl; [reflexivity|]. destruct cUseExt; reflexivity.
Qed.

Lemma slice_resize c W H : cSliceY (client_resize c W H) = cSliceY c.
Proof. unfold client_resize. destruct (_ && _); [reflexivity|destruct c; reflexivity]. Qed.

Lemma sl_setenc st a b d e c : SL c -> SL (setenc_client st a b d e c).
Proof.
  apply sl_keep. unfold setenc_client.
  repeat match goal with
         | |- context [if ?b then _ else _] => destruct b
         end; unfold client_resize; repeat match goal with
         | |- context [if ?b then _ else _] => destruct b
         end; destruct c; reflexivity.
Qed.

Lemma sl_setdesktop b hr c : SL c -> SL (setdesktop_one b hr c).
Proof.
  apply sl_keep. unfold setdesktop_one. destruct b; destruct (hr =? 0); try destruct (sds_keeps_own_answer && _); destruct c; reflexivity.
Qed.

Lemma sl_sched cur K dx dy c c' : sched_copy_client cur K dx dy c = Some c' -> SL c -> SL c'.
Proof.
  intros Hs. apply sl_keep. revert Hs. unfold sched_copy_client. destruct c; csimpl.
  destruct (cUseCopy && _); [|destruct (negb (rgn_is_empty cC)); intros Hs; inversion Hs; subst; reflexivity].
  destruct (negb (rgn_is_empty cC)); [destruct (negb (cDX =? dx) || negb (cDY =? dy))|];
    (destruct cShape; [intros Hs; inversion Hs; subst; reflexivity|]);
    destruct cur as [[[[xh yh] cw] ch]|];
    intros Hs; inversion Hs; subst; reflexivity.
Qed.

Lemma slice_soft_cursor st c1 U3 c2 U3c : soft_cursor st c1 U3 = (c2, U3c) -> cSliceY c2 = cSliceY c1.
Proof.
  unfold soft_cursor. destruct (cShape c1); [intros Hs; inversion Hs; reflexivity|].
  destruct (_ || _); intros Hs; inversion Hs; subst; [destruct c1|]; reflexivity.
Qed.

Lemma sl_send st c c' m :
  0 < sW st -> 0 < sH st -> InvC (sW st) (sH st) (fb_for st c) c ->
  send_client st c = Some (c', m) -> SL c -> SL c'.
Proof.
  intros HW HH [I _] Hs Hc. revert Hs.
  pose proof (iWM _ _ _ _ I) as HWM. pose proof (iMin _ _ _ _ I) as HMin.
  unfold send_client, send_client_gen.
  destruct (scaled_guard c); [discriminate|].
  destruct (cUseNewFB c && cNewFBPending c).
  { destruct (announced_size st c) as [aw ah]. intros Hs; inversion Hs; subst.
    unfold SL. rewrite slice_resize. destruct c; exact Hc. }
  destruct (slice_region st c (cM c)) as [U0 sy] eqn:Esl.
  pose proof (slice_sy_nonneg st c (cM c) U0 sy HWM HMin Hc Esl) as Hsy.
  destruct (rgn_and _ _) as [U2 b].
  destruct (_ && _ && _ && _).
  { intros Hs; inversion Hs; subst. unfold SL. destruct c; exact Hsy. }
  unfold send_update_gen.
  destruct (soft_cursor st _ _) as [c2 U3c] eqn:Esc.
  apply slice_soft_cursor in Esc.
  destruct (_ && _ && _ && _); [|discriminate].
  intros Hs; inversion Hs; subst. clear Hs. unfold SL.
  replace (cSliceY (set_pic _ (cPW c) (cPH c) _)) with (cSliceY c2)
    by (destruct (cShape c && cCurChanged c && cReady c); destruct c2; reflexivity).
  rewrite Esc. destruct c; exact Hsy.
Qed.

Lemma sl_set_cext c e : SL c -> SL (set_cext c e).
Proof. apply sl_keep; destruct c; reflexivity. Qed.

Lemma invc_set_cext W H F c e : InvC W H F c -> InvC W H F (set_cext c e).
Proof.
  intros [I S]. split; [apply (core_ext _ _ _ c); try (destruct c; reflexivity); exact I|].
  unfold SizeOK in *. destruct c; exact S.
Qed.

Lemma sl_tick st c c' m :
  0 < sW st -> 0 < sH st -> InvC (sW st) (sH st) (fb_for st c) c ->
  tick_client st c = Some (c', m) -> SL c -> SL c'.
Proof.
  intros HW HH IC. unfold tick_client. destruct (scaled_guard c); [discriminate|].
  destruct (pending st c && negb (rgn_is_empty (cR c))); [|intros Hs; inversion Hs; auto].
  destruct (xDefer (sExt st) =? 0); [apply sl_send; assumption|].
  destruct (xDefU (cExt c) =? 0); [intros Hs; inversion Hs; subst; apply sl_set_cext|].
  destruct (_ || _); [|intros Hs; inversion Hs; auto].
  intros Hs Hc. eapply sl_send; [exact HW|exact HH| |exact Hs|apply sl_set_cext; exact Hc].
  apply invc_Fext with (F := fb_for st c); [intros x y _; unfold fb_for; destruct c; reflexivity|].
  apply invc_set_cext. exact IC.
Qed.

Lemma sl_setpf st bpp c : SL c -> SL (setpf_client st bpp c).
Proof. intros Hc. unfold setpf_client. apply sl_request. revert Hc. apply sl_keep; destruct c; reflexivity. Qed.

Lemma sl_setscale st n c e' c' m : setscale_client st n c = (e', c', m) -> SL c -> SL c'.
Proof.
  unfold setscale_client. cbv zeta.
  set (ok := _ || _ || negb _).
  set (c1 := if ok then _ else c).
  assert (H1 : cSliceY c1 = cSliceY c) by (unfold c1; destruct ok; [destruct c|]; reflexivity).
  destruct (cUseNewFB c1 && cNewFBPending c1); [intros Hs; inversion Hs; subst; apply sl_keep; exact H1|].
  destruct (announced_size st c1) as [aw ah]. intros Hs; inversion Hs; subst. apply sl_keep.
  rewrite <- H1. destruct c1; reflexivity.
Qed.

Lemma sl_newfb_client w h c : SL c -> SL (newfb_client w h c).
Proof.
  apply sl_keep. unfold newfb_client. match goal with |- context [if ?b then _ else _] => destruct b end;
    [destruct c; reflexivity|]. rewrite slice_resize. destruct c; reflexivity.
Qed.

Lemma sl_reselect a b c : SL c -> SL (reselect a b c).
Proof. apply sl_keep. unfold reselect. destruct (b =? a); [|destruct c]; reflexivity. Qed.

Lemma slice_rescale_client w h oW oH chain c : cSliceY (snd (rescale_client w h oW oH chain c)) = cSliceY c.
Proof.
  unfold rescale_client.
  repeat match goal with
         | |- context [if ?b then _ else _] => destruct b
         | |- context [match ?o with Some _ => _ | None => _ end] => destruct o as [[? ?]|]
         end; cbn [snd]; destruct c; reflexivity.
Qed.

Lemma sl_rescale_clients w h oW oH l : forall chain,
  Forall SL l -> Forall SL (snd (rescale_clients w h oW oH l chain)).
Proof.
  induction l as [|c l IH]; intros chain Hl; [constructor|].
  inversion Hl; subst. cbn [rescale_clients].
  pose proof (slice_rescale_client w h oW oH chain c) as Ec.
  destruct (rescale_client w h oW oH chain c) as [ch1 c'].
  specialize (IH ch1 H2). destruct (rescale_clients w h oW oH l ch1) as [ch2 t']. cbn [snd] in *.
  constructor; [unfold SL; rewrite Ec; assumption|exact IH].
Qed.

Lemma sclients_set_clients st l : sClients (set_clients st l) = l.
Proof. destruct st; reflexivity. Qed.

Lemma sl_map (g : client -> client) l : (forall c, SL c -> SL (g c)) -> Forall SL l -> Forall SL (map g l).
Proof. intros Hg Hl. apply Forall_map. eapply Forall_impl; [|exact Hl]. exact Hg. Qed.

Lemma sl_upd st f n l m :
  (forall a a' m', f a = Some (a', m') -> InvC (sW st) (sH st) (fb_for st a) a -> SL a -> SL a') ->
  Inv st -> SliceOK st -> upd_nth n (sClients st) f = Some (l, m) -> Forall SL l.
Proof.
  intros Hf (HW & HH & Hcur & Hcl) HT Hu.
  assert (Hboth : Forall (fun c => InvC (sW st) (sH st) (fb_for st c) c /\ SL c) (sClients st)).
  { apply Forall_forall. intros c Hin. unfold SliceOK in HT. rewrite Forall_forall in Hcl, HT. split; [apply Hcl|apply HT]; exact Hin. }
  eapply Forall_upd_nth; [exact Hu| | |exact Hboth].
  - intros a [_ Ha]. exact Ha.
  - intros a a' m' Ha [Ia Ta]. eapply Hf; eassumption.
Qed.

Lemma do_copy_sliceok st K dx dy newf st' : SliceOK st -> do_copy st K dx dy newf = Some st' -> SliceOK st'.
Proof.
  intros HN. unfold do_copy. destruct (copy_inside _ _ _ _ _); [|discriminate].
  destruct (map_opt _ _) as [cl|] eqn:Em; [|discriminate]. intros Hs; inversion Hs; subst. clear Hs.
  unfold SliceOK. rewrite sclients_set_clients.
  eapply Forall_map_opt; [exact Em| |exact HN].
  intros c c' Hsc Hc. eapply sl_sched; eassumption.
Qed.

Lemma step0_sliceok st o st' out : Inv st -> SliceOK st -> step0 st o = Some (st', out) -> SliceOK st'.
Proof.
  intros HI HN Hs. pose proof HI as (HW & HH & _ & _). unfold SliceOK in *.
  destruct o; cbn [step0] in Hs.
  - inversion Hs; subst. rewrite sclients_set_clients.
    apply Forall_app. split; [exact HN|]. constructor; [|constructor]. unfold SL, new_client. cbn. lia.
  - destruct (mark_clip _ _ _ _ _ _) as [rc|]; inversion Hs; subst; [|exact HN].
    rewrite sclients_set_clients. apply sl_map; [apply sl_mark|exact HN].
  - destruct (mark_clip _ _ _ _ _ _) as [rc|]; inversion Hs; subst; [|exact HN].
    rewrite sclients_set_clients. apply sl_map; [apply sl_mark|exact HN].
  - destruct (do_copy st _ dx dy _) as [st1|] eqn:Ed; [|discriminate]. inversion Hs; subst.
    exact (do_copy_sliceok _ _ _ _ _ _ HN Ed).
  - destruct (do_copy st _ dx dy _) as [st1|] eqn:Ed; [|discriminate]. inversion Hs; subst.
    exact (do_copy_sliceok _ _ _ _ _ _ HN Ed).
  - destruct (do_copy st _ dx dy _) as [st1|] eqn:Ed; [|discriminate]. inversion Hs; subst.
    exact (do_copy_sliceok _ _ _ _ _ _ HN Ed).
  - destruct (upd_nth c (sClients st) _) as [[l m]|] eqn:Eu; [|discriminate]. inversion Hs; subst.
    rewrite sclients_set_clients. eapply sl_upd; [|exact HI|exact HN|exact Eu].
    intros a a' m' Ha _ La. cbv beta in Ha. destruct (cScaled a); [discriminate|]. inversion Ha; subst.
    apply sl_request. exact La.
  - destruct (upd_nth c (sClients st) _) as [[l m]|] eqn:Eu; [|discriminate]. inversion Hs; subst.
    rewrite sclients_set_clients. eapply sl_upd; [|exact HI|exact HN|exact Eu].
    intros a a' m' Ha _ La. inversion Ha; subst. apply sl_setenc. exact La.
  - inversion Hs; subst. clear Hs. unfold setcursor_state. rewrite sclients_set_clients.
    apply Forall_map.
    assert (H1 : Forall SL (match sCursor st with
                   | Some _ => map (fun c => if cShape c then c else redraw_cursor_M st c) (sClients st)
                   | None => sClients st end)).
    { destruct (sCursor st); [|exact HN]. apply sl_map; [|exact HN].
      intros c0. destruct (cShape c0); [auto|apply sl_keep; destruct c0; reflexivity]. }
    eapply Forall_impl; [|exact H1]. intros c0.
    match goal with |- SL c0 -> SL (if ?b then ?x else ?y) => destruct b end; apply sl_keep; destruct c0; reflexivity.
  - inversion Hs; subst. destruct st; exact HN.
  - destruct (upd_nth c (sClients st) _) as [[l m]|] eqn:Eu; [|discriminate]. inversion Hs; subst.
    rewrite sclients_set_clients. eapply sl_upd; [|exact HI|exact HN|exact Eu].
    intros a a' m' Ha Ia La. eapply sl_tick; eassumption.
  - destruct (upd_nth c (sClients st) _) as [[l m]|] eqn:Eu; [|discriminate]. inversion Hs; subst.
    rewrite sclients_set_clients. eapply sl_upd; [|exact HI|exact HN|exact Eu].
    intros a a' m' Ha Ia La. eapply sl_send; eassumption.
  - destruct (_ && _ && fmt_ok bpp); [|discriminate]. inversion Hs; subst. clear Hs.
    unfold newfb_state.
    pose proof (sl_rescale_clients w h (sW st) (sH st) (rev (sClients st)) []) as HR.
    destruct (rescale_clients w h (sW st) (sH st) (rev (sClients st)) []) as [chain rcl].
    cbn [UpdateDefs.sClients snd] in *.
    apply Forall_map. apply Forall_rev. eapply Forall_impl; [|apply HR; apply Forall_rev; exact HN].
    intros c0 Hc. cbv beta. apply sl_newfb_client, sl_reselect. exact Hc.
  - destruct (c <? length (sClients st))%nat; [|discriminate].
    destruct (nscreens =? 0); inversion Hs; subst; [exact HN|].
    rewrite sclients_set_clients. clear Hs HI. revert c.
    induction HN as [|a l Ha Hl IH]; intros n; [destruct n; constructor|].
    destruct n; cbn [setdesktop_clients_at].
    + constructor; [apply sl_setdesktop; exact Ha|]. apply sl_map; [apply sl_setdesktop|exact Hl].
    + constructor; [apply sl_setdesktop; exact Ha|apply IH].
  - inversion Hs; subst. destruct st; exact HN.
  - inversion Hs; subst. destruct st; exact HN.
  - destruct (_ || _ || _); [|discriminate].
    destruct (upd_nth c (sClients st) _) as [[l m]|] eqn:Eu; [|discriminate]. inversion Hs; subst.
    rewrite sclients_set_clients. eapply sl_upd; [|exact HI|exact HN|exact Eu].
    intros a a' m' Ha _ La. cbv beta in Ha. destruct (cScaled a); [discriminate|]. inversion Ha; subst.
    apply sl_setpf. exact La.
  - destruct (scale <=? 0); [discriminate|].
    destruct (nth_error (sClients st) c) as [cl|] eqn:En; [|discriminate].
    destruct (setscale_client st scale cl) as [[e' cl'] m] eqn:Ess.
    destruct (upd_nth c (sClients st) _) as [[l m0]|] eqn:Eu; [|discriminate]. inversion Hs; subst.
    replace (sClients (set_sext (set_clients st l) e')) with l by (destruct st; reflexivity).
    assert (Lcl : SL cl).
    { rewrite Forall_forall in HN. apply HN. eapply nth_error_In; eassumption. }
    eapply sl_upd; [|exact HI|exact HN|exact Eu].
    intros a a' m' Ha _ _. inversion Ha; subst. eapply sl_setscale; eassumption.
  - destruct (upd_nth c (sClients st) _) as [[l m]|] eqn:Eu; [|discriminate]. inversion Hs; subst.
    rewrite sclients_set_clients. eapply sl_upd; [|exact HI|exact HN|exact Eu].
    intros a a' m' Ha _ La. inversion Ha; subst. apply sl_set_cext. exact La.
  - destruct (existsb cDangling (sClients st)); [discriminate|]. inversion Hs; subst.
    rewrite sclients_set_clients. apply sl_map; [|exact HN].
    intros a La. destruct (cClosed a); [apply sl_set_cext|]; exact La.
  - destruct cols as [|col0 cols']; [discriminate|].
    destruct (mark_clip _ _ _ _ _ _) as [rc|]; inversion Hs; subst; [|exact HN].
    rewrite sclients_set_clients. apply sl_map; [apply sl_mark|exact HN].
Qed.

Theorem step_sliceok st o st' out : Inv st -> SliceOK st -> step st o = Some (st', out) -> SliceOK st'.
Proof.
  intros HI HN. unfold step. destruct (op_target o) as [c|]; [destruct (live_at st c); [|discriminate]|];
    apply step0_sliceok; assumption.
Qed.

Theorem run_sliceok ops : forall st st',
  Inv st -> run_ok st ops -> SliceOK st -> run st ops = Some st' -> SliceOK st'.
Proof.
  induction ops as [|o t IH]; intros st st' HI Hok HT Hr; cbn in Hr.
  - inversion Hr; subst. exact HT.
  - destruct Hok as [Ho Hrest]. destruct (step st o) as [[st1 out]|] eqn:Es; [|discriminate].
    apply (IH st1); [exact (step_inv _ _ _ _ HI Ho Es)|exact (Hrest _ _ eq_refl)|exact (step_sliceok _ _ _ _ HI HT Es)|exact Hr].
Qed.

Lemma init_sliceok W H bpp : SliceOK (init_state W H bpp).
Proof. constructor. Qed.
