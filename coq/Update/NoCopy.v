(* C02: "a client that never advertised CopyRect, or withdrew it, is never sent a CopyRect" as a
   statement about whole histories.
   Invariant: for every client, useCopyRect = false -> copyRegion is empty.  It is kept by every operation:
   rfbScheduleCopyRegion gives such a client the pixels (and since b141ef8 folds an earlier pending copy into
   the modified region), SetEncodings without CopyRect turns a pending copy into modified pixels (690d81d),
   rfbNewFramebuffer and every update empty the copy region, nothing else writes the two fields.
   Corollary: no update sent to a client with useCopyRect = false contains a CopyRect rectangle. *)
From LV Require Import Region.RegionDefs Region.RegionSem Region.RegionProofs0 Region.RegionProofs
     Update.UpdateDefs Update.UpdateFacts Update.UpdateProofs0 Update.UpdateProofs Update.UpdateThms Update.NewFB
     Update.Slices Update.Trans Update.StateLevel Update.Audit02.
From Coq Require Import ZifyBool.
Local Open Scope Z_scope.

Definition NC (c : client) : Prop := cUseCopy c = false -> cC c = [].
Definition NoCopyInv (st : state) : Prop := Forall NC (sClients st).

Ltac nsimpl := cbn [cUseCopy cC cM cR cDX cDY cShape cCurChanged cReady cUseNewFB cUseExt cNewFBPending cReqChange cLastErr
                    set_regions set_flags set_size_state set_M set_pic set_slice set_curpos set_cext set_bpp] in *.

Lemma nc_keep c c' : cUseCopy c' = cUseCopy c -> cC c' = cC c -> NC c -> NC c'.
Proof. unfold NC. intros -> ->. auto. Qed.

Lemma nc_emptied c' : cC c' = [] -> NC c'.
Proof. unfold NC. auto. Qed.

Lemma nc_mark rg c : NC c -> NC (mark_client rg c).
Proof. apply nc_keep; destruct c; reflexivity. Qed.

Lemma r_sub_nil t : r_sub [] t = [].
Proof. reflexivity. Qed.

Lemma nc_request W H incr x y w h c : NC c -> NC (request_client W H incr x y w h c).
Proof.
  intros Hc. unfold request_client. destruct (req_clip W H x y w h) as [[[[x0 y0] w0] h0]|]; [|exact Hc].
  destruct (_ || _); [exact Hc|].
  destruct incr; [revert Hc; apply nc_keep; destruct c; reflexivity|].
  unfold NC in *. destruct c; nsimpl.
  destruct cUseExt; nsimpl; intros Hu; rewrite (Hc Hu); apply r_sub_nil.
Qed.

Lemma nc_resize c W H : NC c -> NC (client_resize c W H).
Proof. unfold client_resize. destruct (_ && _); [auto|]. apply nc_keep; destruct c; reflexivity. Qed.

Lemma setenc_usecopy st cr shape newfb ext c : cUseCopy (setenc_client st cr shape newfb ext c) = cr.
Proof.
  unfold setenc_client.
  repeat match goal with
         | |- context [if ?b then _ else _] => destruct b
         end; unfold client_resize; repeat match goal with
         | |- context [if ?b then _ else _] => destruct b
         end; destruct c; reflexivity.
Qed.

Lemma nc_setenc st cr shape newfb ext c : NC (setenc_client st cr shape newfb ext c).
Proof.
  unfold NC. rewrite setenc_usecopy. intros ->.
  pose proof (setenc_without_copyrect_no_copy st shape newfb ext c) as He.
  destruct (cC (setenc_client st false shape newfb ext c)); [reflexivity|discriminate].
Qed.

Lemma nc_setdesktop b hr c : NC c -> NC (setdesktop_one b hr c).
Proof.
  apply nc_keep; unfold setdesktop_one; destruct b; destruct (hr =? 0); try destruct (sds_keeps_own_answer && _);
    destruct c; reflexivity.
Qed.

Lemma nc_sched cur K dx dy c c' : sched_copy_client cur K dx dy c = Some c' -> NC c -> NC c'.
Proof.
  unfold sched_copy_client, NC. destruct c; csimpl.
  destruct cUseCopy; cbn [andb].
  - (* the client accepts CopyRect: whatever happens, it still does *)
    destruct (match cScaled _ with None => true | Some _ => false end).
    + destruct (if negb (rgn_is_empty cC) then _ else _) as [M1 C1].
      destruct cShape; [intros Hs; inversion Hs; subst; csimpl; discriminate|].
      destruct cur as [[[[xh yh] cw] ch]|]; intros Hs; inversion Hs; subst; csimpl; discriminate.
    + destruct (negb (rgn_is_empty cC)); intros Hs; inversion Hs; subst; csimpl; discriminate.
  - destruct (negb (rgn_is_empty cC)) eqn:E; intros Hs; inversion Hs; subst; csimpl; [reflexivity|auto].
Qed.

Lemma soft_cursor_copy st c1 U3 c2 U3c :
  soft_cursor st c1 U3 = (c2, U3c) -> cUseCopy c2 = cUseCopy c1 /\ cC c2 = cC c1.
Proof.
  unfold soft_cursor. destruct (cShape c1); [intros Hs; inversion Hs; auto|].
  destruct (_ || _); intros Hs; inversion Hs; subst; [destruct c1|]; auto.
Qed.

Lemma nc_send st c c' m : send_client st c = Some (c', m) -> NC c -> NC c'.
Proof.
  unfold send_client, send_client_gen.
  destruct (scaled_guard c); [discriminate|].
  destruct (cUseNewFB c && cNewFBPending c).
  { destruct (announced_size st c) as [aw ah]. intros Hs; inversion Hs; subst.
    intros Hc. apply nc_resize. revert Hc. apply nc_keep; destruct c; reflexivity. }
  destruct (slice_region st c (cM c)) as [U0 sy].
  destruct (rgn_and _ _) as [U2 b].
  destruct (_ && _ && _ && _).
  { intros Hs; inversion Hs; subst. unfold NC. destruct c; csimpl. intros Hc Hu. rewrite (Hc Hu). apply r_sub_nil. }
  unfold send_update_gen.
  destruct (soft_cursor st _ _) as [c2 U3c] eqn:Esc.
  apply soft_cursor_copy in Esc. destruct Esc as [_ EC].
  destruct (_ && _ && _ && _); [|discriminate].
  intros Hs _; inversion Hs; subst. clear Hs. apply nc_emptied.
  transitivity (cC c2); [destruct (cShape c && cCurChanged c && cReady c); destruct c2; reflexivity|].
  rewrite EC. destruct c; reflexivity.
Qed.

Lemma nc_set_cext c e : NC c -> NC (set_cext c e).
Proof. apply nc_keep; destruct c; reflexivity. Qed.

Lemma nc_tick st c c' m : tick_client st c = Some (c', m) -> NC c -> NC c'.
Proof.
  unfold tick_client. destruct (scaled_guard c); [discriminate|].
  destruct (pending st c && negb (rgn_is_empty (cR c))); [|intros Hs; inversion Hs; auto].
  destruct (xDefer (sExt st) =? 0); [apply nc_send|].
  destruct (xDefU (cExt c) =? 0); [intros Hs; inversion Hs; subst; apply nc_set_cext|].
  destruct (_ || _); [|intros Hs; inversion Hs; auto].
  intros Hs Hc. eapply nc_send; [exact Hs|]. apply nc_set_cext. exact Hc.
Qed.

Lemma nc_setpf st bpp c : NC c -> NC (setpf_client st bpp c).
Proof. intros Hc. unfold setpf_client. apply nc_request. revert Hc. apply nc_keep; destruct c; reflexivity. Qed.

Lemma nc_setscale st n c e' c' m : setscale_client st n c = (e', c', m) -> NC c -> NC c'.
Proof.
  unfold setscale_client. cbv zeta.
  set (ok := _ || _ || negb _).
  set (c1 := if ok then _ else c).
  assert (H1 : NC c -> NC c1) by (unfold c1; destruct ok; [apply nc_keep; destruct c; reflexivity|auto]).
  destruct (cUseNewFB c1 && cNewFBPending c1); [intros Hs; inversion Hs; subst; exact H1|].
  destruct (announced_size st c1) as [aw ah]. intros Hs Hc; inversion Hs; subst.
  generalize (H1 Hc). apply nc_keep; destruct c1; reflexivity.
Qed.

Lemma nc_newfb_client w h c : NC (newfb_client w h c).
Proof.
  apply nc_emptied. unfold newfb_client.
  match goal with |- context [if ?b then _ else _] => destruct b end; [destruct c; reflexivity|].
  rewrite client_resize_cC. destruct c; reflexivity.
Qed.

Lemma sclients_set_clients st l : sClients (set_clients st l) = l.
Proof. destruct st; reflexivity. Qed.

Lemma nc_map (g : client -> client) l : (forall c, NC c -> NC (g c)) -> Forall NC l -> Forall NC (map g l).
Proof. intros Hg Hl. apply Forall_map. eapply Forall_impl; [|exact Hl]. exact Hg. Qed.

Lemma nc_upd f n l l' m :
  (forall a a' m', f a = Some (a', m') -> NC a -> NC a') ->
  Forall NC l -> upd_nth n l f = Some (l', m) -> Forall NC l'.
Proof.
  intros Hf Hl Hu. eapply Forall_upd_nth; [exact Hu| | |exact Hl].
  - intros a Ha. exact Ha.
  - intros a a' m' Ha La. eapply Hf; eassumption.
Qed.

Lemma do_copy_nocopy st K dx dy newf st' : NoCopyInv st -> do_copy st K dx dy newf = Some st' -> NoCopyInv st'.
Proof.
  intros HN. unfold do_copy. destruct (copy_inside _ _ _ _ _); [|discriminate].
  destruct (map_opt _ _) as [cl|] eqn:Em; [|discriminate]. intros Hs; inversion Hs; subst. clear Hs.
  unfold NoCopyInv. rewrite sclients_set_clients.
  eapply Forall_map_opt; [exact Em| |exact HN].
  intros c c' Hsc Hc. eapply nc_sched; eassumption.
Qed.

Lemma step0_nocopy st o st' out : NoCopyInv st -> step0 st o = Some (st', out) -> NoCopyInv st'.
Proof.
  intros HN Hs. unfold NoCopyInv in *.
  destruct o; cbn [step0] in Hs.
  - inversion Hs; subst. rewrite sclients_set_clients.
    apply Forall_app. split; [exact HN|]. constructor; [|constructor]. apply nc_emptied. reflexivity.
  - destruct (mark_clip _ _ _ _ _ _) as [rc|]; inversion Hs; subst; [|exact HN].
    rewrite sclients_set_clients. apply nc_map; [apply nc_mark|exact HN].
  - destruct (mark_clip _ _ _ _ _ _) as [rc|]; inversion Hs; subst; [|exact HN].
    rewrite sclients_set_clients.
    apply nc_map; [apply nc_mark|exact HN].
  - destruct (do_copy st _ dx dy _) as [st1|] eqn:Ed; [|discriminate]. inversion Hs; subst.
    exact (do_copy_nocopy _ _ _ _ _ _ HN Ed).
  - destruct (do_copy st _ dx dy _) as [st1|] eqn:Ed; [|discriminate]. inversion Hs; subst.
    exact (do_copy_nocopy _ _ _ _ _ _ HN Ed).
  - destruct (do_copy st _ dx dy _) as [st1|] eqn:Ed; [|discriminate]. inversion Hs; subst.
    exact (do_copy_nocopy _ _ _ _ _ _ HN Ed).
  - destruct (upd_nth c (sClients st) _) as [[l m]|] eqn:Eu; [|discriminate]. inversion Hs; subst.
    rewrite sclients_set_clients. eapply nc_upd; [|exact HN|exact Eu].
    intros a a' m' Ha La. cbv beta in Ha. destruct (cScaled a); [discriminate|]. inversion Ha; subst.
    apply nc_request. exact La.
  - destruct (upd_nth c (sClients st) _) as [[l m]|] eqn:Eu; [|discriminate]. inversion Hs; subst.
    rewrite sclients_set_clients. eapply nc_upd; [|exact HN|exact Eu].
    intros a a' m' Ha _. inversion Ha; subst. apply nc_setenc.
  - inversion Hs; subst. clear Hs. unfold setcursor_state. rewrite sclients_set_clients.
    apply Forall_map.
    assert (H1 : Forall NC (match sCursor st with
                   | Some _ => map (fun c => if cShape c then c else redraw_cursor_M st c) (sClients st)
                   | None => sClients st end)).
    { destruct (sCursor st); [|exact HN]. apply nc_map; [|exact HN].
      intros c0. destruct (cShape c0); [auto|apply nc_keep; destruct c0; reflexivity]. }
    eapply Forall_impl; [|exact H1]. intros c0.
    match goal with |- NC c0 -> NC (if ?b then ?x else ?y) => destruct b end; apply nc_keep; destruct c0; reflexivity.
  - inversion Hs; subst. destruct st; exact HN.
  - destruct (upd_nth c (sClients st) _) as [[l m]|] eqn:Eu; [|discriminate]. inversion Hs; subst.
    rewrite sclients_set_clients. eapply nc_upd; [|exact HN|exact Eu].
    intros a a' m' Ha La. eapply nc_tick; eassumption.
  - destruct (upd_nth c (sClients st) _) as [[l m]|] eqn:Eu; [|discriminate]. inversion Hs; subst.
    rewrite sclients_set_clients. eapply nc_upd; [|exact HN|exact Eu].
    intros a a' m' Ha La. eapply nc_send; eassumption.
  - destruct (_ && _ && fmt_ok bpp); [|discriminate]. inversion Hs; subst. clear Hs.
    unfold newfb_state.
    destruct (rescale_clients w h (sW st) (sH st) (rev (sClients st)) []) as [chain rcl].
    cbn [UpdateDefs.sClients]. apply Forall_map. apply Forall_forall. intros c0 _. apply nc_newfb_client.
  - destruct (c <? length (sClients st))%nat; [|discriminate].
    destruct (nscreens =? 0); inversion Hs; subst; [exact HN|].
    rewrite sclients_set_clients. clear Hs. revert c.
    induction HN as [|a l Ha Hl IH]; intros n; [destruct n; constructor|].
    destruct n; cbn [setdesktop_clients_at].
    + constructor; [apply nc_setdesktop; exact Ha|]. apply nc_map; [apply nc_setdesktop|exact Hl].
    + constructor; [apply nc_setdesktop; exact Ha|apply IH].
  - inversion Hs; subst. destruct st; exact HN.
  - inversion Hs; subst. destruct st; exact HN.
  - destruct (_ || _ || _); [|discriminate].
    destruct (upd_nth c (sClients st) _) as [[l m]|] eqn:Eu; [|discriminate]. inversion Hs; subst.
    rewrite sclients_set_clients. eapply nc_upd; [|exact HN|exact Eu].
    intros a a' m' Ha La. cbv beta in Ha. destruct (cScaled a); [discriminate|]. inversion Ha; subst.
    apply nc_setpf. exact La.
  - destruct (scale <=? 0); [discriminate|].
    destruct (nth_error (sClients st) c) as [cl|] eqn:En; [|discriminate].
    destruct (setscale_client st scale cl) as [[e' cl'] m] eqn:Ess.
    destruct (upd_nth c (sClients st) _) as [[l m0]|] eqn:Eu; [|discriminate]. inversion Hs; subst.
    replace (sClients (set_sext (set_clients st l) e')) with l by (destruct st; reflexivity).
    assert (Lcl : NC cl).
    { rewrite Forall_forall in HN. apply HN. eapply nth_error_In; eassumption. }
    eapply nc_upd; [|exact HN|exact Eu].
    intros a a' m' Ha _. inversion Ha; subst. eapply nc_setscale; eassumption.
  - destruct (upd_nth c (sClients st) _) as [[l m]|] eqn:Eu; [|discriminate]. inversion Hs; subst.
    rewrite sclients_set_clients. eapply nc_upd; [|exact HN|exact Eu].
    intros a a' m' Ha La. inversion Ha; subst. apply nc_set_cext. exact La.
  - destruct (existsb cDangling (sClients st)); [discriminate|]. inversion Hs; subst.
    rewrite sclients_set_clients. apply nc_map; [|exact HN].
    intros a La. destruct (cClosed a); [apply nc_set_cext|]; exact La.
  - destruct cols as [|col0 cols']; [discriminate|].
    destruct (mark_clip _ _ _ _ _ _) as [rc|]; inversion Hs; subst; [|exact HN].
    rewrite sclients_set_clients. apply nc_map; [apply nc_mark|exact HN].
Qed.

Theorem step_nocopy st o st' out : NoCopyInv st -> step st o = Some (st', out) -> NoCopyInv st'.
Proof.
  intros HN. unfold step. destruct (op_target o) as [c|]; [destruct (live_at st c); [|discriminate]|];
    apply step0_nocopy; assumption.
Qed.

Theorem run_nocopy ops : forall st st', NoCopyInv st -> run st ops = Some st' -> NoCopyInv st'.
Proof.
  induction ops as [|o t IH]; intros st st' HN Hr; cbn in Hr.
  - inversion Hr; subst. exact HN.
  - destruct (step st o) as [[st1 out]|] eqn:Es; [|discriminate].
    apply (IH st1); [exact (step_nocopy _ _ _ _ HN Es)|exact Hr].
Qed.

Lemma init_nocopy W H bpp : NoCopyInv (init_state W H bpp).
Proof. constructor. Qed.

(* the history statement: after ANY history from the initial state, an update (rfbSendFramebufferUpdate or
   rfbUpdateClient) for a client whose useCopyRect flag is off - it never advertised CopyRect, or its last
   SetEncodings did not name it - contains no CopyRect rectangle *)
Theorem copyrect_only_if_advertised W H bpp ops st c c' n rects :
  0 < W -> 0 < H -> run_ok (init_state W H bpp) ops ->
  run (init_state W H bpp) ops = Some st ->
  In c (sClients st) -> cUseCopy c = false ->
  send_client st c = Some (c', Some (n, rects)) ->
  existsb is_wcopy rects = false.
Proof.
  intros HW HH Hok Hr Hin Hu Hs.
  pose proof (run_inv ops _ _ (init_inv W H bpp HW HH) Hok Hr) as HI.
  pose proof (run_nocopy ops _ _ (init_nocopy W H bpp) Hr) as HN.
  unfold NoCopyInv in HN. rewrite Forall_forall in HN.
  apply (no_copy_region_no_copyrect st c c' n rects HI Hin); [|exact Hs].
  rewrite (HN c Hin Hu). reflexivity.
Qed.
