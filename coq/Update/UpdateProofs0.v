(* Easy facts about the update model: clipping of rfbMarkRectAsModified and of
   FramebufferUpdateRequest, pictures. *)
From LV Require Import Region.RegionDefs Update.UpdateDefs.
From Coq Require Import ZifyBool.
Local Open Scope Z_scope.

Ltac split_ifs :=
  repeat match goal with
         | |- context [if ?c then _ else _] =>
           lazymatch c with
           | context [if _ then _ else _] => fail
           | _ => destruct c eqn:?
           end
         end.

(* rfbMarkRectAsModified (with the ">=" tests of fix d179288): whatever the arguments, the rectangle
   that is marked is the intersection of the (normalised) rectangle with the screen, and it is
   non-empty; a rectangle that does not meet the screen is dropped *)
Lemma mark_clip_sem W H x1 y1 x2 y2 rc :
  mark_clip W H x1 y1 x2 y2 = Some rc ->
  let '(a, b, c, d) := rc in
  a = Z.max 0 (Z.min x1 x2) /\ c = Z.min W (Z.max x1 x2) /\
  b = Z.max 0 (Z.min y1 y2) /\ d = Z.min H (Z.max y1 y2) /\ a < c /\ b < d.
Proof.
  unfold mark_clip.
  destruct (x1 >? x2) eqn:E1; destruct (y1 >? y2) eqn:E2; cbv zeta;
    split_ifs; intros Hs; inversion Hs; subst; repeat split; lia.
Qed.

Lemma mark_clip_none W H x1 y1 x2 y2 :
  mark_clip W H x1 y1 x2 y2 = None ->
  Z.min W (Z.max x1 x2) <= Z.max 0 (Z.min x1 x2) \/ Z.min H (Z.max y1 y2) <= Z.max 0 (Z.min y1 y2).
Proof.
  unfold mark_clip.
  destruct (x1 >? x2) eqn:E1; destruct (y1 >? y2) eqn:E2; cbv zeta;
    split_ifs; intros Hs; try discriminate; lia.
Qed.
