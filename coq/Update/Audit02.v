(* C02: statements added after the independent audit of the theorems.
   - the convergence statements restricted to the clients for which they are true OF THE C CODE: a client
     without cursor-shape support gets the cursor painted into its pixels when the screen has a cursor
     (rfbShowCursor before encoding; the model paints nothing, the correspondence masks those pictures);
   - a message IS emitted when something requested is modified (existential form, and the two-send form
     for a client whose size message is pending);
   - silence for a clean requested area while other areas are dirty. *)
From LV Require Import Region.RegionDefs Region.RegionSem Region.RegionProofs0 Region.RegionProofs
     Update.UpdateDefs Update.UpdateFacts Update.UpdateProofs0 Update.UpdateProofs Update.UpdateThms Update.NewFB
     Update.Slices Update.Trans Update.StateLevel.
From Coq Require Import ZifyBool.
Local Open Scope Z_scope.

Local Hint Resolve rgn_or_wf r_and_wf r_sub_wf offset_wf WF_empty create_rect_wf bbox_wf : wfdb.
Ltac wf := match goal with |- WF _ => solve [eauto 8 with wfdb] end.

(* no cursor is painted into this client's pixels *)
Definition NoSoftCursor (st : state) (c : client) : Prop := cShape c = true \/ sCursor st = None.

Lemma send_delivers_nocursor st c c' m :
  Inv st -> In c (sClients st) -> NoSoftCursor st c -> sSliceH st <= 0 ->
  cUseNewFB c && cNewFBPending c = false ->
  send_client st c = Some (c', m) ->
  forall x y, inS (sW st) (sH st) x y -> rgn_mem (cR c) x y = true ->
    pic_get (cPic c') x y = fb_for st c x y.
Proof. intros HI Hin _. apply send_delivers; assumption. Qed.

Lemma idle_converged_nocursor st c :
  Inv st -> In c (sClients st) -> NoSoftCursor st c -> pending st c = false ->
  cPW c = sW st /\ cPH c = sH st /\
  forall x y, inS (sW st) (sH st) x y -> pic_get (cPic c) x y = fb_for st c x y.
Proof. intros HI Hin _. apply idle_converged; assumption. Qed.

Lemma idle_converged_current_nocursor st c :
  Inv st -> TransOK st -> In c (sClients st) -> NoSoftCursor st c -> pending st c = false ->
  forall x y, inS (sW st) (sH st) x y ->
    pic_get (cPic c) x y = translate (sBpp st) (tTo (cBpp c)) (fbf st x y).
Proof. intros HI HT Hin _. apply idle_converged_current; assumption. Qed.

Lemma slices_converge_nocursor st c :
  Inv st -> In c (sClients st) -> NoSoftCursor st c -> sH st <= INT_MAX -> 0 < sSliceH st ->
  no_pix (cC c) -> cUseNewFB c && cNewFBPending c = false -> cScaled c = None -> 0 <= cSliceY c ->
  exists c', slice_rounds st c (Z.to_nat (sH st / sSliceH st + 2)) = Some c' /\
             no_pix (cM c') /\
             forall x y, inS (sW st) (sH st) x y -> pic_get (cPic c') x y = fb_for st c x y.
Proof. intros HI Hin _. apply slices_converge_inv; assumption. Qed.

(* ------------------------------------------------------------------ a message is emitted *)
Lemma send_emits_c st c x y :
  0 < sW st -> 0 < sH st -> InvC (sW st) (sH st) (fb_for st c) c ->
  sSliceH st <= 0 -> cUseNewFB c && cNewFBPending c = false -> scaled_guard c = false ->
  rgn_mem (cM c) x y = true -> rgn_mem (cR c) x y = true ->
  exists c' n rects, send_client st c = Some (c', Some (n, rects)).
Proof.
  intros HW HH IC Hsl Hsz Hg HM HR.
  destruct (send_total_c st c HW HH IC Hg) as [[c' m] Es].
  destruct m as [[n rects]|]; [exists c', n, rects; exact Es|exfalso].
  destruct IC as [I S].
  pose proof (iWM _ _ _ _ I) as HWM. pose proof (iWC _ _ _ _ I) as HWC. pose proof (iWR _ _ _ _ I) as HWR.
  revert Es. unfold send_client, send_client_gen. rewrite Hg, Hsz.
  unfold slice_region. replace (sSliceH st >? 0) with false by lia.
  set (C1 := r_sub (cC c) (cM c)).
  assert (HC1 : WF C1) by (unfold C1; wf).
  pose proof (rgn_and_mem (rgn_or (cM c) C1) (cR c) ltac:(wf) HWR x y) as Hmem.
  pose proof (rgn_and_bool (rgn_or (cM c) C1) (cR c) ltac:(wf) HWR) as Hb.
  pose proof (rgn_and_wf (rgn_or (cM c) C1) (cR c) ltac:(wf) HWR) as Hwf.
  destruct (rgn_and (rgn_or (cM c) C1) (cR c)) as [U2 b]. cbn [fst snd] in *.
  rewrite rgn_or_mem in Hmem by wf. rewrite HM, HR in Hmem. cbn in Hmem.
  assert (He : rgn_is_empty U2 = false).
  { destruct (rgn_is_empty U2) eqn:E; [|reflexivity].
    pose proof (proj1 (is_empty_sem U2 Hwf) E x y) as E2. rewrite E2 in Hmem. discriminate. }
  rewrite Hb, He. cbn [negb andb].
  unfold send_update_gen.
  destruct (soft_cursor st _ _) as [c2 U3c].
  destruct (_ && _ && _ && _); intros Es; inversion Es.
Qed.

(* something requested is modified -> an update message goes out (no slicing, no size message pending) *)
Lemma send_emits st c x y :
  Inv st -> In c (sClients st) -> sSliceH st <= 0 ->
  cUseNewFB c && cNewFBPending c = false -> scaled_guard c = false ->
  rgn_mem (cM c) x y = true -> rgn_mem (cR c) x y = true ->
  exists c' n rects, send_client st c = Some (c', Some (n, rects)).
Proof.
  intros (HW & HH & _ & Hcl) Hin. rewrite Forall_forall in Hcl. apply send_emits_c; auto.
Qed.

(* ... and when the size message is pending (every ExtendedDesktopSize client after a non-incremental
   request, every resize-capable client after rfbNewFramebuffer): the first send is the size message, the
   second one carries the pixels *)
Lemma send_emits_after_size st c x y :
  Inv st -> In c (sClients st) -> sSliceH st <= 0 -> cScaled c = None ->
  cUseNewFB c = true -> cNewFBPending c = true ->
  rgn_mem (cM c) x y = true -> rgn_mem (cR c) x y = true ->
  exists c1 m1 c2 n rects,
    send_client st c = Some (c1, Some m1) /\ send_client st c1 = Some (c2, Some (n, rects)).
Proof.
  intros (HW & HH & _ & Hcl) Hin Hsl Hsc Hu Hp HM HR. rewrite Forall_forall in Hcl. pose proof (Hcl c Hin) as IC.
  destruct (size_shortcircuit st c Hu Hp) as (c1 & Es & Hp1 & Hsc1 & EM & EC & ER).
  destruct (inv_send st c c1 _ HW HH IC Es) as [IC1 Hb].
  assert (IC1' : InvC (sW st) (sH st) (fb_for st c1) c1).
  { apply invc_Fext with (F := fb_for st c); [|exact IC1]. intros a b _. unfold fb_for. rewrite Hb. reflexivity. }
  assert (Hg1 : scaled_guard c1 = false) by (unfold scaled_guard; rewrite Hsc1, Hsc; reflexivity).
  destruct (send_emits_c st c1 x y HW HH IC1' Hsl) as (c2 & n & rects & Es2);
    [rewrite Hp1; apply andb_false_r|exact Hg1|rewrite EM; exact HM|rewrite ER; exact HR|].
  eexists c1, _, c2, n, rects. split; [exact Es|exact Es2].
Qed.

(* ------------------------------------------------------------------ a clean requested area is silent *)
(* nothing of what the client asked for is modified or waits for a copy, no cursor business is pending:
   rfbSendFramebufferUpdate sends nothing and leaves the picture alone - although other areas are dirty *)
Lemma clean_request_silent st c :
  Inv st -> In c (sClients st) ->
  cUseNewFB c && cNewFBPending c = false -> scaled_guard c = false ->
  (forall x y, rgn_mem (cR c) x y = true -> rgn_mem (cM c) x y = false /\ rgn_mem (cC c) x y = false) ->
  cShape c && cCurChanged c && cReady c = false ->
  (cShape c = true \/ (cCurX c = sCurX st /\ cCurY c = sCurY st)) ->
  exists c', send_client st c = Some (c', None) /\ cPic c' = cPic c /\ cR c' = cR c /\
             forall x y, rgn_mem (cM c') x y = rgn_mem (cM c) x y.
Proof.
  intros (HW & HH & _ & Hcl) Hin Hsz Hg Hclean Hshape Hcur. rewrite Forall_forall in Hcl.
  destruct (Hcl c Hin) as [I S].
  pose proof (iWM _ _ _ _ I) as HWM. pose proof (iWC _ _ _ _ I) as HWC. pose proof (iWR _ _ _ _ I) as HWR.
  unfold send_client, send_client_gen. rewrite Hg, Hsz, Hshape.
  destruct (slice_region st c (cM c)) as [U0 sy] eqn:Esl.
  destruct (slice_region_spec st c (cM c) U0 sy HW HWM Esl) as [HU0 HU0M].
  set (C1 := r_sub (cC c) (cM c)).
  assert (HC1 : WF C1) by (unfold C1; wf).
  pose proof (rgn_and_mem (rgn_or U0 C1) (cR c) ltac:(wf) HWR) as Hmem.
  pose proof (rgn_and_bool (rgn_or U0 C1) (cR c) ltac:(wf) HWR) as Hb.
  pose proof (rgn_and_wf (rgn_or U0 C1) (cR c) ltac:(wf) HWR) as Hwf.
  destruct (rgn_and (rgn_or U0 C1) (cR c)) as [U2 b]. cbn [fst snd] in *.
  assert (He : rgn_is_empty U2 = true).
  { apply (is_empty_sem U2 Hwf). intros x y. rewrite Hmem, rgn_or_mem by wf.
    destruct (rgn_mem (cR c) x y) eqn:ER; [|apply andb_false_r].
    destruct (Hclean x y ER) as [EM EC].
    assert (E0 : rgn_mem U0 x y = false).
    { destruct (rgn_mem U0 x y) eqn:E; [apply HU0M in E; congruence|reflexivity]. }
    unfold C1. rewrite r_sub_mem by wf. rewrite E0, EC. reflexivity. }
  rewrite Hb, He. cbn [negb andb].
  assert (Hc2 : (cShape c || (cCurX c =? sCurX st) && (cCurY c =? sCurY st)) = true).
  { destruct Hcur as [->|[-> ->]]; [reflexivity|]. rewrite !Z.eqb_refl. apply orb_true_r. }
  rewrite Hc2. cbn [andb].
  eexists. split; [reflexivity|]. destruct c; csimpl. repeat split.
Qed.

(* ------------------------------------------------------------------ CopyRect only while advertised *)
Lemma redraw_cC st x : cC (redraw_cursor_M st x) = cC x.
Proof. destruct x; reflexivity. Qed.

Lemma client_resize_cC c W H : cC (client_resize c W H) = cC c.
Proof. unfold client_resize. destruct (_ && _); [reflexivity|destruct c; reflexivity]. Qed.

(* C03-F25 (fixed 690d81d): after a SetEncodings that does not name CopyRect nothing is left in the copy
   region (a pending copy became modified pixels) ... *)
Lemma setenc_without_copyrect_no_copy st shape newfb ext c :
  rgn_is_empty (cC (setenc_client st false shape newfb ext c)) = true.
Proof.
  unfold setenc_client. cbv zeta.
  set (c3a := if ext then _ else _).
  set (c3b := if setenc_drops_copy && negb false && negb (rgn_is_empty (cC c3a)) then _ else c3a).
  assert (Hb : rgn_is_empty (cC c3b) = true).
  { unfold c3b, setenc_drops_copy. cbn [andb negb].
    destruct (rgn_is_empty (cC c3a)) eqn:E; cbn [negb]; [exact E|]. reflexivity. }
  set (c3 := if cShape c && negb (cShape c3b) then redraw_cursor_M st c3b else c3b).
  assert (H3 : cC c3 = cC c3b) by (unfold c3; destruct (cShape c && negb (cShape c3b)); [apply redraw_cC|reflexivity]).
  destruct (cUseNewFB c3); [|rewrite client_resize_cC]; rewrite H3; exact Hb.
Qed.

(* ... and an update for a client with an empty copy region carries no CopyRect *)
Definition is_wcopy (w : wrect) : bool := match w with WCopy _ _ _ _ _ _ => true | _ => false end.

Lemma no_copy_region_no_copyrect st c c' n rects :
  Inv st -> In c (sClients st) ->
  rgn_is_empty (cC c) = true -> send_client st c = Some (c', Some (n, rects)) ->
  existsb is_wcopy rects = false.
Proof.
  intros (HW & HH & _ & Hcl) Hin HC. rewrite Forall_forall in Hcl. destruct (Hcl c Hin) as [I _].
  pose proof (iWM _ _ _ _ I) as HWM. pose proof (iWC _ _ _ _ I) as HWC. pose proof (iWR _ _ _ _ I) as HWR.
  unfold send_client, send_client_gen. destruct (scaled_guard c); [discriminate|].
  destruct (cUseNewFB c && cNewFBPending c).
  { destruct (announced_size st c). intros Hs; inversion Hs; subst. destruct (cUseExt c); reflexivity. }
  destruct (slice_region st c (cM c)) as [U0 sy].
  destruct (rgn_and _ _) as [U2 b].
  destruct (_ && _ && _ && _); [discriminate|].
  unfold send_update_gen.
  set (UC := r_and (r_and (r_sub (cC c) (cM c)) (cR c)) (rgn_offset (cR c) (cDX c) (cDY c))).
  assert (HUC : WF UC) by (unfold UC; wf).
  assert (EUC : UC = []).
  { assert (He : rgn_is_empty UC = true).
    { apply (is_empty_sem UC HUC). intros x y. unfold UC.
      rewrite !r_and_mem by wf. rewrite r_sub_mem by wf.
      rewrite (proj1 (is_empty_sem (cC c) HWC) HC x y). reflexivity. }
    destruct UC; [reflexivity|discriminate]. }
  destruct (soft_cursor st _ _) as [c2 U3c].
  destruct (_ && _ && _ && _); [|discriminate].
  intros Hs; inversion Hs; subst. clear Hs.
  rewrite existsb_app.
  assert (H1 : existsb is_wcopy (if cShape c && cCurChanged c && cReady c
                                 then [match sCursor st with
                                       | Some (xh, yh, cw, ch) => if (cw =? 0) || (ch =? 0) then WCursor 0 0 0 0 else WCursor xh yh cw ch
                                       | None => WCursor 0 0 0 0 end] else []) = false).
  { destruct (_ && _ && _); [|reflexivity]. destruct (sCursor st) as [[[[? ?] cw] ch]|]; [destruct (_ || _)|]; reflexivity. }
  rewrite H1. cbn [orb]. unfold copy_wrects. rewrite EUC.
  assert (Ef : fst (count_fix [] U3c) = []).
  { unfold count_fix. cbv zeta. repeat match goal with |- context [if ?b then _ else _] => destruct b end; reflexivity. }
  rewrite Ef.
  assert (Ei : rgn_iter (cDX c >? 0) (cDY c >? 0) (@nil (span xspans)) = @nil rect)
    by (destruct (cDX c >? 0); destruct (cDY c >? 0); reflexivity).
  rewrite Ei.
  cbn [map app]. induction (filter raw_emitted _) as [|[[[x1 y1] x2] y2] l IH]; [reflexivity|exact IH].
Qed.
