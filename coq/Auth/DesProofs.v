(* Auth/DesProofs.v - known-answer vectors for Auth/Des.v (checked by vm_compute) and the
   basic facts the authentication proofs need. *)
From Coq Require Import NArith List Bool Lia.
From LV Require Import Auth.Des.
Import ListNotations.
Local Open Scope N_scope.

(* FIPS 81 / classic worked example *)
Example des_kat_1 : des_encrypt 0x133457799BBCDFF1 0x0123456789ABCDEF = Some 0x85E813540F0AB405.
Proof. vm_compute. reflexivity. Qed.
(* NBS SP 500-20 variable-plaintext test, key 0101..01 *)
Example des_kat_2 : des_encrypt 0x0101010101010101 0x8000000000000000 = Some 0x95F8A5E5DD31D900.
Proof. vm_compute. reflexivity. Qed.
Example des_kat_3 : des_encrypt 0x0101010101010101 0x0000000000000001 = Some 0x166B40B44ABA4BD6.
Proof. vm_compute. reflexivity. Qed.
(* variable-key test *)
Example des_kat_4 : des_encrypt 0x8001010101010101 0 = Some 0x95A8D72813DAA94D.
Proof. vm_compute. reflexivity. Qed.
(* permutation-operation and substitution-table tests *)
Example des_kat_5 : des_encrypt 0x1046913489980131 0 = Some 0x88D55E54F54C97B4.
Proof. vm_compute. reflexivity. Qed.
Example des_kat_6 : des_encrypt 0x7CA110454A1A6E57 0x01A1D6D039776742 = Some 0x690F5B0D9A26939B.
Proof. vm_compute. reflexivity. Qed.
Example des_kat_7 : des_encrypt 0x0131D9619DC1376E 0x5CD54CA83DEF57DA = Some 0x7A389D10354BD271.
Proof. vm_compute. reflexivity. Qed.
Example des_kat_dec : des_decrypt 0x133457799BBCDFF1 0x85E813540F0AB405 = Some 0x0123456789ABCDEF.
Proof. vm_compute. reflexivity. Qed.
(* weak key: encryption is an involution *)
Example des_kat_weak : des_encrypt 0x0101010101010101 0x95F8A5E5DD31D900 = Some 0x8000000000000000.
Proof. vm_compute. reflexivity. Qed.

(* the VNC cipher: password "password", challenge 00..0f (value cross-checked against libgcrypt
   by the correspondence run, op "des") *)
Example vnc_kat_len : forall r, vnc_encrypt [112;97;115;115;119;111;114;100] (map N.of_nat (seq 0 16)) = Some r ->
  length r = 16%nat.
Proof. vm_compute. intros r H. inversion H. reflexivity. Qed.

Example weak_empty_password : gcrypt_weak (vnc_key []) = true.
Proof. vm_compute. reflexivity. Qed.
Example weak_xxxxpppp : gcrypt_weak (vnc_key [120;120;120;120;112;112;112;112]) = true.
Proof. vm_compute. reflexivity. Qed.
Example not_weak_password : gcrypt_weak (vnc_key [112;97;115;115;119;111;114;100]) = false.
Proof. vm_compute. reflexivity. Qed.

(* ---------------------------------------------------------------- totality: DES never fails *)
Definition all64 : list N := map N.of_nat (seq 0 64).
Lemma lt64_in : forall b, b < 64 -> In b all64.
Proof.
  intros b Hb. unfold all64. rewrite <- (Nnat.N2Nat.id b). apply in_map. apply in_seq. lia.
Qed.

Definition is_some {A} (o : option A) : bool := match o with Some _ => true | None => false end.

Lemma sboxes_total_check :
  forallb (fun box => forallb (fun b => is_some (sbox_lookup box b)) all64) sboxes = true.
Proof. vm_compute. reflexivity. Qed.

Definition box_total (box : list N) : Prop := forall b, b < 64 -> exists v, sbox_lookup box b = Some v.

Lemma sboxes_total : Forall box_total sboxes.
Proof.
  apply Forall_forall. intros box Hin b Hb.
  pose proof sboxes_total_check as H. rewrite forallb_forall in H. specialize (H box Hin).
  rewrite forallb_forall in H. specialize (H b (lt64_in b Hb)).
  destruct (sbox_lookup box b); [eauto | discriminate].
Qed.

Lemma sbox_layer_some : forall boxes x pos acc,
  Forall box_total boxes -> exists v, sbox_layer boxes x pos acc = Some v.
Proof.
  induction boxes as [|box rest IH]; intros x pos acc HF; cbn [sbox_layer].
  - eauto.
  - inversion HF as [|? ? Hb Hr]; subst.
    destruct (Hb (N.land (N.shiftr x pos) 63)) as [v Hv].
    { change 63 with (N.ones 6). rewrite N.land_ones. apply N.mod_lt. discriminate. }
    rewrite Hv. apply IH. assumption.
Qed.

Lemma feistel_some : forall r k, exists v, feistel r k = Some v.
Proof.
  intros. unfold feistel.
  destruct (sbox_layer_some sboxes (N.lxor (permute 32 tbl_E r) k) 42 0 sboxes_total) as [v ->]. eauto.
Qed.

Lemma rounds_some : forall ks l r, exists v, rounds ks l r = Some v.
Proof.
  induction ks as [|k rest IH]; intros; cbn [rounds]; [eauto|].
  destruct (feistel_some r k) as [f ->]. apply IH.
Qed.

Lemma des_core_some : forall ks x, exists y, des_core ks x = Some y.
Proof.
  intros. unfold des_core.
  destruct (rounds_some ks (N.shiftr (permute 64 tbl_IP x) 32) (N.land (permute 64 tbl_IP x) mask32)) as [[l r] ->].
  eauto.
Qed.

Lemma des_block_bytes_some : forall dec k blk, exists y, des_block_bytes dec k blk = Some y /\ length y = 8%nat.
Proof.
  intros. unfold des_block_bytes.
  destruct dec; [destruct (des_core_some (rev (subkeys k)) (bytes_to_N blk)) as [y Hy]; unfold des_decrypt
                |destruct (des_core_some (subkeys k) (bytes_to_N blk)) as [y Hy]; unfold des_encrypt];
  rewrite Hy; eexists; split; try reflexivity; cbn [N_to_bytes]; repeat rewrite app_length; reflexivity.
Qed.

(* vnc_encrypt is total on 16-byte challenges and yields 16 bytes *)
Lemma vnc_encrypt_some : forall pw chal, length chal = 16%nat ->
  exists r, vnc_encrypt pw chal = Some r /\ length r = 16%nat.
Proof.
  intros pw chal Hl. unfold vnc_encrypt. rewrite Hl. cbn [Nat.eqb].
  destruct (des_block_bytes_some false (vnc_key pw) (firstn 8 chal)) as [a [-> Ha]].
  destruct (des_block_bytes_some false (vnc_key pw) (skipn 8 chal)) as [b [-> Hb]].
  eexists; split; [reflexivity|]. rewrite app_length. lia.
Qed.
