(* Auth/HandlerSweep.v - the process-global security-handler list (six handler objects: the two
   built-in ones and four application objects) as a finite-state system.

   [acyc st] : every ->next pointer is in range and following ->next from any object ends in NULL
   (so in particular the list from the head is finite).  By an exhaustive sweep over all 7^7 stores
   (vm_compute) it is shown, for both variants of rfbUnregisterSecurityHandler, that on every
   acyclic store every list operation of the mirror returns within its fuel, yields an acyclic
   store again, and that after the (un)registration switch of rfbSendSecurityTypeList the client's
   own built-in handler is a member of the list.  Bound: four application handler objects; their
   security types are irrelevant here (the list operations never look at them). *)
From Coq Require Import NArith ZArith List Bool Lia.
From LV Require Import Auth.Des Auth.AuthModel Gen.Consts_C05.
Import ListNotations.

Definition opts : list (option nat) := [None; Some 0; Some 1; Some 2; Some 3; Some 4; Some 5]%nat.

(* following ->next from cur ends in NULL within fuel steps, all objects met are in range *)
Fixpoint ends (fuel : nat) (st : hstore) (cur : option nat) : bool :=
  match cur with
  | None => true
  | Some c =>
      match fuel with
      | O => false
      | S f => match nth_error (h_next st) c with
               | None => false
               | Some nx => ends f st nx
               end
      end
  end.

Definition in_range (o : option nat) : bool :=
  match o with None => true | Some c => Nat.ltb c NHANDLERS end.

Definition acyc (st : hstore) : bool :=
  Nat.eqb (length (h_next st)) NHANDLERS && in_range (h_head st) && forallb in_range (h_next st) &&
  forallb (fun c => ends NHANDLERS st (Some c)) (seq 0 NHANDLERS) && ends NHANDLERS st (h_head st).

Definition is_some_acyc (o : option hstore) : bool :=
  match o with Some st' => acyc st' | None => false end.

Definition prim_id (primary : Z) : nat := if Z.eqb primary c05_rfbSecTypeNone then H_NONE else H_VNCAUTH.

Definition offer_ok (single : bool) (st : hstore) (primary : Z) : bool :=
  match offer_store single st primary with
  | Some st' =>
      acyc st' && match hs_member LIST_FUEL st' (h_head st') (prim_id primary) with Some true => true | _ => false end
  | None => false
  end.

(* the walk along the list stays within LIST_FUEL (99 is not an object) *)
Definition list_ok (st : hstore) : bool :=
  match hs_member LIST_FUEL st (h_head st) 99 with Some false => true | _ => false end.

Definition store_ok (single : bool) (st : hstore) : bool :=
  list_ok st &&
  forallb (fun k => is_some_acyc (hs_register REC_FUEL st (Some k)) &&
                    is_some_acyc (hs_unregister REC_FUEL single st (Some k))) [2; 3; 4; 5]%nat &&
  offer_ok single st c05_rfbSecTypeNone && offer_ok single st c05_rfbSecTypeVncAuth.

Definition chk (single : bool) (st : hstore) : bool := if acyc st then store_ok single st else true.

Definition sweep (single : bool) : bool :=
  forallb (fun h => forallb (fun n0 => forallb (fun n1 => forallb (fun n2 => forallb (fun n3 =>
  forallb (fun n4 => forallb (fun n5 => chk single (mkHs h [n0; n1; n2; n3; n4; n5]))
  opts) opts) opts) opts) opts) opts) opts.

Lemma sweep_head : sweep false = true.
Proof. vm_compute. reflexivity. Qed.

Lemma sweep_fix3 : sweep true = true.
Proof. vm_compute. reflexivity. Qed.

Lemma sweep_all : forall single, sweep single = true.
Proof. intros [|]; [exact sweep_fix3|exact sweep_head]. Qed.

Lemma in_range_opts : forall o, in_range o = true -> In o opts.
Proof.
  intros [c|] H; [|left; reflexivity]. unfold in_range in H. apply Nat.ltb_lt in H. unfold NHANDLERS in H.
  do 6 (destruct c as [|c]; [cbn; tauto|]). lia.
Qed.

(* the sweep, as a statement about every acyclic store *)
Lemma acyc_store_ok : forall single st, acyc st = true -> store_ok single st = true.
Proof.
  intros single [h nx] Ha. pose proof Ha as Ha0. unfold acyc in Ha. cbn [h_head h_next] in Ha.
  repeat (apply andb_true_iff in Ha; destruct Ha as [Ha ?]).
  apply Nat.eqb_eq in Ha.
  destruct nx as [|n0 [|n1 [|n2 [|n3 [|n4 [|n5 [|]]]]]]]; try discriminate Ha.
  match goal with H : forallb in_range _ = true |- _ => cbn [forallb] in H;
    repeat (apply andb_true_iff in H; destruct H as [? H]) end.
  pose proof (sweep_all single) as S. unfold sweep in S.
  rewrite forallb_forall in S. specialize (S h (in_range_opts h ltac:(assumption))).
  rewrite forallb_forall in S. specialize (S n0 (in_range_opts n0 ltac:(assumption))).
  rewrite forallb_forall in S. specialize (S n1 (in_range_opts n1 ltac:(assumption))).
  rewrite forallb_forall in S. specialize (S n2 (in_range_opts n2 ltac:(assumption))).
  rewrite forallb_forall in S. specialize (S n3 (in_range_opts n3 ltac:(assumption))).
  rewrite forallb_forall in S. specialize (S n4 (in_range_opts n4 ltac:(assumption))).
  rewrite forallb_forall in S. specialize (S n5 (in_range_opts n5 ltac:(assumption))).
  unfold chk in S. rewrite Ha0 in S. exact S.
Qed.

Lemma acyc_init : acyc hstore_init = true.
Proof. vm_compute. reflexivity. Qed.

Lemma acyc_length : forall st, acyc st = true -> length (h_next st) = NHANDLERS.
Proof.
  intros st Ha. unfold acyc in Ha. repeat (apply andb_true_iff in Ha; destruct Ha as [Ha ?]).
  apply Nat.eqb_eq in Ha. exact Ha.
Qed.

(* consequences in the form the process-level proofs use *)
Lemma acyc_list_ok : forall st, acyc st = true -> hs_member LIST_FUEL st (h_head st) 99 = Some false.
Proof.
  intros st Ha. pose proof (acyc_store_ok false st Ha) as H. unfold store_ok in H.
  repeat (apply andb_true_iff in H; destruct H as [H ?]). unfold list_ok in H.
  destruct (hs_member LIST_FUEL st (h_head st) 99) as [[|]|]; try discriminate. reflexivity.
Qed.

Lemma acyc_register : forall st k, acyc st = true -> is_ext k = true ->
  exists st', hs_register REC_FUEL st (Some k) = Some st' /\ acyc st' = true.
Proof.
  intros st k Ha Hk. pose proof (acyc_store_ok false st Ha) as H. unfold store_ok in H.
  repeat (apply andb_true_iff in H; destruct H as [H ?]).
  match goal with H : forallb _ [2;3;4;5]%nat = true |- _ => rewrite forallb_forall in H; specialize (H k) end.
  assert (Hin : In k [2;3;4;5]%nat).
  { unfold is_ext, NHANDLERS in Hk. apply andb_true_iff in Hk. destruct Hk as [A B].
    apply Nat.leb_le in A. apply Nat.ltb_lt in B. cbn. lia. }
  match goal with H : In k _ -> _ |- _ => specialize (H Hin); apply andb_true_iff in H; destruct H as [R _] end.
  destruct (hs_register REC_FUEL st (Some k)) as [st'|]; [|discriminate]. eauto.
Qed.

Lemma acyc_unregister : forall single st k, acyc st = true -> is_ext k = true ->
  exists st', hs_unregister REC_FUEL single st (Some k) = Some st' /\ acyc st' = true.
Proof.
  intros single st k Ha Hk. pose proof (acyc_store_ok single st Ha) as H. unfold store_ok in H.
  repeat (apply andb_true_iff in H; destruct H as [H ?]).
  match goal with H : forallb _ [2;3;4;5]%nat = true |- _ => rewrite forallb_forall in H; specialize (H k) end.
  assert (Hin : In k [2;3;4;5]%nat).
  { unfold is_ext, NHANDLERS in Hk. apply andb_true_iff in Hk. destruct Hk as [A B].
    apply Nat.leb_le in A. apply Nat.ltb_lt in B. cbn. lia. }
  match goal with H : In k _ -> _ |- _ => specialize (H Hin); apply andb_true_iff in H; destruct H as [_ U] end.
  destruct (hs_unregister REC_FUEL single st (Some k)) as [st'|]; [|discriminate]. eauto.
Qed.

Definition is_prim (z : Z) : Prop := z = c05_rfbSecTypeNone \/ z = c05_rfbSecTypeVncAuth.

Lemma acyc_offer : forall single st primary, acyc st = true -> is_prim primary ->
  exists st', offer_store single st primary = Some st' /\ acyc st' = true /\
              hs_member LIST_FUEL st' (h_head st') (prim_id primary) = Some true.
Proof.
  intros single st primary Ha Hp. pose proof (acyc_store_ok single st Ha) as H. unfold store_ok in H.
  repeat (apply andb_true_iff in H; destruct H as [H ?]).
  assert (Ho : offer_ok single st primary = true) by (destruct Hp as [->| ->]; assumption).
  unfold offer_ok in Ho. destruct (offer_store single st primary) as [st'|]; [|discriminate].
  apply andb_true_iff in Ho. destruct Ho as [A B]. exists st'. split; [reflexivity|]. split; [exact A|].
  destruct (hs_member LIST_FUEL st' (h_head st') (prim_id primary)) as [[|]|]; try discriminate. reflexivity.
Qed.
