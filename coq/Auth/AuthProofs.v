(* Auth/AuthProofs.v - proofs about the process model Auth/AuthModel.v *)
From Coq Require Import NArith ZArith List Bool Lia.
From LV Require Import Auth.Des Auth.DesProofs Auth.AuthModel Gen.Consts_C05.
Import ListNotations.

(* the version-line parser mirrors exactly this format string of rfbproto.h *)
Lemma version_format_tied :
  c05_rfbProtocolVersionFormat = [82; 70; 66; 32; 37; 48; 51; 100; 46; 37; 48; 51; 100; 10]%Z.
Proof. reflexivity. Qed.

(* ---------------------------------------------------------------- lists *)
Lemma nth_error_set_nth_eq : forall A (l : list A) i v, (i < length l)%nat -> nth_error (set_nth l i v) i = Some v.
Proof.
  induction l as [|x t IH]; intros i v Hi; cbn in Hi; [lia|].
  destruct i; cbn; [reflexivity|]. apply IH. lia.
Qed.

Lemma nth_error_set_nth_neq : forall A (l : list A) i j v, i <> j -> nth_error (set_nth l i v) j = nth_error l j.
Proof.
  induction l as [|x t IH]; intros i j v Hij; cbn; [destruct i; reflexivity|].
  destruct i, j; cbn; try reflexivity; try congruence. apply IH. congruence.
Qed.

Lemma set_nth_length : forall A (l : list A) i v, length (set_nth l i v) = length l.
Proof. induction l; intros [|i] v; cbn; auto. Qed.

Lemma Forall_set_nth : forall A (P : A -> Prop) l i v, Forall P l -> P v -> Forall P (set_nth l i v).
Proof.
  induction l as [|x t IH]; intros i v HF Hv; cbn; [destruct i; constructor|].
  inversion HF; subst. destruct i; constructor; auto.
Qed.

Lemma bytes_eqb_eq : forall a b, bytes_eqb a b = true -> a = b.
Proof.
  unfold bytes_eqb. induction a as [|x a IH]; intros [|y b] H; cbn in *; try discriminate; auto.
  apply andb_true_iff in H. destruct H as [Hl H]. apply andb_true_iff in H. destruct H as [Hxy H].
  apply N.eqb_eq in Hxy. subst. f_equal. apply IH. rewrite Hl. exact H.
Qed.

Lemma bytes_eqb_refl : forall a, bytes_eqb a a = true.
Proof.
  unfold bytes_eqb. induction a as [|x a IH]; cbn; auto.
  rewrite Nat.eqb_refl in *. cbn in *. rewrite N.eqb_refl. cbn. exact IH.
Qed.

(* ---------------------------------------------------------------- leaf facts *)
Lemma take_rand_length : forall rand n, length (fst (take_rand rand n)) = n.
Proof.
  intros. unfold take_rand. cbn [fst]. rewrite firstn_length, app_length, repeat_length. lia.
Qed.

Lemma encrypt_bytes_fixed : forall pw chal, length chal = 16%nat ->
  vnc_encrypt pw chal = Some (encrypt_bytes cfg_fixed pw chal).
Proof.
  intros pw chal Hl. unfold encrypt_bytes. cbn [cfg_fixed cfg_weak_refused andb].
  destruct (vnc_encrypt_some pw chal Hl) as [r [Hr _]]. rewrite Hr. reflexivity.
Qed.

Lemma check_list_in : forall cf pws chal resp i j,
  check_list cf pws chal resp i = Some j ->
  exists pw, In pw pws /\ bytes_eqb (encrypt_bytes cf pw chal) resp = true.
Proof.
  induction pws as [|pw rest IH]; intros chal resp i j H; cbn in H; [discriminate|].
  destruct (bytes_eqb (encrypt_bytes cf pw chal) resp) eqn:E.
  - exists pw. split; [left; reflexivity|exact E].
  - destruct (IH _ _ _ _ H) as [pw' [Hin Hb]]. exists pw'. split; [right; exact Hin|exact Hb].
Qed.

Lemma primary_of_protected : forall s c,
  primary_type s c = (if protected s c then c05_rfbSecTypeVncAuth else c05_rfbSecTypeNone).
Proof.
  intros. unfold primary_type, protected. destruct (has_password s), (c_rev c); reflexivity.
Qed.

(* the selection made by the FIXED rfbProcessClientSecurityType never runs a built-in handler
   other than the one of the client's own primary type, whatever the global list contains *)
Lemma hs_find_fixed_builtin : forall fuel st cur chosen (prot : bool) sel,
  hs_find fuel false st cur chosen (if prot then c05_rfbSecTypeVncAuth else c05_rfbSecTypeNone) = Some sel ->
  (sel = HNone -> prot = false) /\ (sel = HAuth -> prot = true).
Proof.
  induction fuel as [|f IH]; intros st cur chosen prot sel H; cbn [hs_find] in H; [discriminate|].
  destruct cur as [c|].
  - destruct (nth_error htypes c) as [t|] eqn:Et; [|discriminate].
    destruct (nth_error (h_next st) c) as [nx|] eqn:En; [|discriminate].
    match type of H with (if ?b then _ else _) = _ => destruct b eqn:Ec end.
    + injection H as <-.
      apply andb_true_iff in Ec. destruct Ec as [Etc Ec]. apply Z.eqb_eq in Etc. subst chosen.
      destruct c as [|[|c]].
      * compute in Et. inversion Et; subst t. destruct prot; compute in Ec; try discriminate; compute; split; intros; congruence.
      * compute in Et. inversion Et; subst t. destruct prot; compute in Ec; try discriminate; compute; split; intros; congruence.
      * cbn. split; intros; discriminate.
    + eapply IH. exact H.
  - injection H as <-. destruct prot; cbn [negb andb].
    + destruct (Z.eqb chosen c05_rfbSecTypeVncAuth); compute; split; intros; congruence.
    + destruct (Z.eqb chosen c05_rfbSecTypeNone); compute; split; intros; congruence.
Qed.

(* ---------------------------------------------------------------- soundness invariant *)
Definition ok (s : screen) (c : conn) : Prop :=
  (protected s c = true -> granted c = true -> proved s c) /\
  (c_st c = StAuth -> c_chal c = c_sent c /\ length (c_sent c) = 16%nat).

Definition same (c c' : conn) : Prop := c_screen c' = c_screen c /\ c_rev c' = c_rev c.

Lemma ok_idle : forall s c, granted c = false -> c_st c <> StAuth -> ok s c.
Proof. intros s c Ha Hs. split; intros; [congruence | contradiction]. Qed.

Lemma ok_unprotected : forall s c, protected s c = false -> c_st c <> StAuth -> ok s c.
Proof. intros s c Hp Hs. split; intros; [congruence | contradiction]. Qed.

Lemma ok_closed : forall s c, ok s (set_st c StClosed).
Proof. intros. apply ok_idle; cbn; congruence. Qed.

Lemma protected_same : forall s c c', same c c' -> protected s c' = protected s c.
Proof. intros s c c' [_ Hr]. unfold protected. rewrite Hr. reflexivity. Qed.

Lemma send_challenge_ok : forall s e c e' c',
  send_challenge e c = (e', c') -> same c c' /\ ok s c' /\ c_st c' = StAuth.
Proof.
  intros s e c e' c' H. unfold send_challenge in H.
  destruct (take_rand (e_rand e) (Z.to_nat c05_CHALLENGESIZE)) as [ch rest] eqn:Et.
  injection H as <- <-. split; [split; reflexivity|]. split; [|reflexivity].
  split; cbn; [discriminate|]. intros _. split; [reflexivity|].
  pose proof (take_rand_length (e_rand e) (Z.to_nat c05_CHALLENGESIZE)) as Hl. rewrite Et in Hl. exact Hl.
Qed.

Lemma client_init_ok : forall s c b c' co,
  client_init s c b = (c', co) -> ok s c -> granted c = true -> same c c' /\ ok s c'.
Proof.
  intros s c b c' co H [Hok _] Ha. unfold client_init in H. injection H as <- <-.
  split; [split; reflexivity|]. split; [|cbn; discriminate].
  intros Hp _. destruct (Hok Hp Ha) as [r [pw [H1 [H2 H3]]]]. exists r, pw. cbn. auto.
Qed.

Lemma client_init_unprotected : forall s c b c' co,
  client_init s c b = (c', co) -> protected s c = false -> same c c' /\ ok s c'.
Proof.
  intros s c b c' co H Hp. unfold client_init in H. injection H as <- <-.
  split; [split; reflexivity|]. apply ok_unprotected; cbn; [exact Hp|discriminate].
Qed.

Lemma auth_none_ok : forall s c c' co,
  auth_none s c = (c', co) -> protected s c = false -> same c c' /\ ok s c'.
Proof.
  intros s c c' co H Hp. unfold auth_none in H.
  set (c1 := if ((7 <? c_minor c)%Z && negb (c_minor c =? 889)%Z)%bool then add_out c auth_ok else c) in *.
  assert (Hs : same c c1) by (unfold c1; destruct ((7 <? c_minor c)%Z && negb (c_minor c =? 889)%Z)%bool; split; reflexivity).
  assert (Hp1 : protected s c1 = false) by (rewrite (protected_same s c c1 Hs); exact Hp).
  destruct (c_minor c =? 889)%Z.
  - destruct (client_init_unprotected s c1 1%N c' co H Hp1) as [[Ha Hb] Hok].
    destruct Hs as [Hs1 Hs2]. split; [split; congruence|exact Hok].
  - injection H as <- <-. split; [destruct Hs; split; cbn; assumption|].
    apply ok_unprotected; [exact Hp1|cbn; discriminate].
Qed.

Lemma send_type_list_ok : forall cf s e c primary e' c',
  send_type_list cf e c primary = (e', c') -> same c c' /\ ok s c'.
Proof.
  intros cf s e c primary e' c' H. unfold send_type_list in H.
  repeat match type of H with
  | (match ?x with _ => _ end) = _ => destruct x
  | (if ?x then _ else _) = _ => destruct x
  end; injection H as <- <-; (split; [split; reflexivity|apply ok_idle; cbn; congruence]).
Qed.

Lemma auth_new_client_ok : forall cf s e c e' c',
  auth_new_client cf s e c = (e', c') -> same c c' /\ ok s c'.
Proof.
  intros cf s e c e' c' H. unfold auth_new_client in H.
  destruct (c_minor c <? 7)%Z.
  - unfold send_type_33 in H. rewrite primary_of_protected in H.
    destruct (protected s c) eqn:Hp.
    + change (c05_rfbSecTypeVncAuth =? c05_rfbSecTypeNone)%Z with false in H.
      destruct (send_challenge_ok s _ _ _ _ H) as [[Ha Hb] [Hok _]]. split; [split; assumption|exact Hok].
    + change (c05_rfbSecTypeNone =? c05_rfbSecTypeNone)%Z with true in H.
      injection H as <- <-. split; [split; reflexivity|]. apply ok_unprotected; [exact Hp|cbn; discriminate].
  - eapply send_type_list_ok. exact H.
Qed.

Lemma on_version_ok : forall cf s e c msg e' c',
  on_version cf s e c msg = (e', c') -> same c c' /\ ok s c'.
Proof.
  intros cf s e c msg e' c' H. unfold on_version in H.
  destruct (parse_version msg) as [[ma mi]|].
  - destruct (negb (ma =? c05_rfbProtocolMajorVersion)%Z).
    + injection H as <- <-. split; [split; reflexivity|apply ok_closed].
    + destruct (auth_new_client_ok _ s _ _ _ _ H) as [[Ha Hb] Hok]. split; [split; assumption|exact Hok].
  - injection H as <- <-. split; [split; reflexivity|apply ok_closed].
Qed.

Lemma on_sectype_ok : forall s e c chosen e' c' co,
  on_sectype cfg_fixed s e c chosen = (e', c', co) -> same c c' /\ ok s c'.
Proof.
  intros s e c chosen e' c' co H. unfold on_sectype in H. cbn [cfg_fixed cfg_global_check] in H.
  rewrite primary_of_protected in H.
  destruct (hs_find LIST_FUEL false (e_hs e) (h_head (e_hs e)) (Z.of_N chosen)
              (if protected s c then c05_rfbSecTypeVncAuth else c05_rfbSecTypeNone)) as [sel|] eqn:Ef.
  - destruct (hs_find_fixed_builtin _ _ _ _ _ _ Ef) as [HN HA].
    destruct sel as [| |k|].
    + destruct (send_challenge e c) as [e1 c1] eqn:Es. injection H as <- <- <-.
      destruct (send_challenge_ok s _ _ _ _ Es) as [Hs [Hok _]]. split; assumption.
    + destruct (auth_none s c) as [c1 co1] eqn:Ea. injection H as <- <- <-.
      eapply auth_none_ok; [exact Ea|]. apply HN. reflexivity.
    + injection H as <- <- <-. split; [split; reflexivity|apply ok_closed].
    + injection H as <- <- <-. split; [split; reflexivity|apply ok_closed].
  - injection H as <- <- <-. split; [split; reflexivity|apply ok_closed].
Qed.

Lemma password_check_fixed : forall s c resp b c1,
  password_check cfg_fixed s c resp = (b, c1) ->
  same c c1 /\ c_resp c1 = c_resp c /\ c_sent c1 = c_sent c /\ c_st c1 = c_st c /\
  (b = true -> length (c_chal c) = 16%nat ->
   exists pw, In pw (screen_passwords s) /\ vnc_encrypt pw (c_chal c) = Some resp).
Proof.
  intros s c resp b c1 H. unfold password_check, screen_passwords in *.
  destruct (s_pw s) as [|pws fvo|content].
  - injection H as <- <-. repeat split; intros; discriminate.
  - destruct (check_list cfg_fixed pws (c_chal c) resp 0) as [i|] eqn:Ec.
    + injection H as <- <-.
      assert (Hsame : forall c2, c2 = (if (fvo <=? i)%Z then set_vo c true else c) ->
                same c c2 /\ c_resp c2 = c_resp c /\ c_sent c2 = c_sent c /\ c_st c2 = c_st c).
      { intros c2 ->. destruct (fvo <=? i)%Z; repeat split. }
      destruct (Hsame _ eq_refl) as [A [B [C D]]]. repeat split; try assumption; try apply A.
      intros _ Hl. destruct (check_list_in _ _ _ _ _ _ Ec) as [pw [Hin Hb]].
      exists pw. split; [exact Hin|]. apply bytes_eqb_eq in Hb. rewrite <- Hb. apply encrypt_bytes_fixed. exact Hl.
    + injection H as <- <-. repeat split; intros; discriminate.
  - destruct (decrypt_passwd_file content) as [pw|] eqn:Ed.
    + injection H as <- <-. repeat split.
      intros Hb Hl. exists pw. split; [left; reflexivity|].
      apply bytes_eqb_eq in Hb. rewrite <- Hb. apply encrypt_bytes_fixed. exact Hl.
    + injection H as <- <-. repeat split; intros; discriminate.
Qed.

Lemma on_response_ok : forall s e c resp e' c',
  on_response cfg_fixed s e c resp = (e', c') -> ok s c -> c_st c = StAuth -> same c c' /\ ok s c'.
Proof.
  intros s e c resp e' c' H [_ Hauth] Hst. destruct (Hauth Hst) as [Hch Hlen].
  unfold on_response in H.
  destruct (password_check cfg_fixed s (set_resp c resp) resp) as [b c1] eqn:Ep.
  destruct (password_check_fixed _ _ _ _ _ Ep) as [[S1 S2] [Hr [Hs [Hst1 Hpw]]]].
  cbn in S1, S2, Hr, Hs, Hst1.
  destruct b.
  - injection H as <- <-. split; [split; cbn; assumption|].
    split; [|cbn; discriminate]. intros _ _.
    destruct (Hpw eq_refl) as [pw [Hin Henc]]. { cbn. rewrite Hch. exact Hlen. }
    exists resp, pw. cbn. rewrite Hr, Hs. cbn in Henc. rewrite Hch in Henc. auto.
  - injection H as <- <-. split.
    + destruct (7 <? c_minor c)%Z; split; cbn; assumption.
    + apply ok_closed.
Qed.

Lemma on_message_ok : forall s e c msg e' c' co,
  on_message cfg_fixed s e c msg = (e', c', co) -> ok s c -> same c c' /\ ok s c'.
Proof.
  intros s e c msg e' c' co H Hok. unfold on_message in H.
  destruct (c_st c) eqn:Hst.
  - destruct (on_version cfg_fixed s e c msg) as [e1 c1] eqn:E. injection H as <- <- <-. eapply on_version_ok; eauto.
  - destruct msg as [|b msg]; [injection H as <- <- <-; split; [split; reflexivity|exact Hok]|].
    eapply on_sectype_ok; eauto.
  - destruct (on_response cfg_fixed s e c msg) as [e1 c1] eqn:E. injection H as <- <- <-.
    eapply on_response_ok; eauto.
  - destruct msg as [|b msg]; [injection H as <- <- <-; split; [split; reflexivity|exact Hok]|].
    destruct (client_init s c b) as [c1 co1] eqn:E. injection H as <- <- <-.
    eapply client_init_ok; eauto. unfold granted. rewrite Hst. reflexivity.
  - injection H as <- <- <-. split; [split; reflexivity|exact Hok].
  - injection H as <- <- <-. split; [split; reflexivity|exact Hok].
Qed.

(* ---------------------------------------------------------------- process level *)
Definition conn_ok (screens : list screen) (c : conn) : Prop :=
  exists s, nth_error screens (c_screen c) = Some s /\ ok s c.

Definition inv (p : proc) : Prop := Forall (conn_ok (p_screens p)) (p_conns p).

Lemma conn_ok_closed : forall scr c, conn_ok scr c -> conn_ok scr (set_st c StClosed).
Proof. intros scr c [s [Hs _]]. exists s. split; [exact Hs|apply ok_closed]. Qed.

Lemma close_others_Forall : forall (P : conn -> Prop) l ci scr,
  (forall c, P c -> P (set_st c StClosed)) -> Forall P l -> Forall P (close_others l ci scr).
Proof.
  intros P l ci scr Hc. unfold close_others. generalize 0%nat.
  induction l as [|c t IH]; intros i HF; cbn [close_others_from]; [constructor|].
  inversion HF; subst. constructor; [|apply IH; assumption].
  destruct (negb (Nat.eqb i ci) && Nat.eqb (c_screen c) scr && is_normal c); auto.
Qed.

Lemma put_conn_inv : forall p e ci c co,
  inv p -> conn_ok (p_screens p) c -> inv (put_conn p e ci c co).
Proof.
  intros p e ci c co Hinv Hc. unfold inv, put_conn. cbn [p_screens p_conns].
  destruct co.
  - apply close_others_Forall; [apply conn_ok_closed|]. apply Forall_set_nth; assumption.
  - apply Forall_set_nth; assumption.
Qed.

Lemma put_conn_screens : forall p e ci c co, p_screens (put_conn p e ci c co) = p_screens p.
Proof. reflexivity. Qed.

Lemma inv_nth : forall p ci c, inv p -> nth_error (p_conns p) ci = Some c -> conn_ok (p_screens p) c.
Proof.
  intros p ci c Hinv Hn. unfold inv in Hinv. rewrite Forall_forall in Hinv. apply Hinv.
  eapply nth_error_In. exact Hn.
Qed.

Lemma deliver_inv : forall fuel p ci buf eof, inv p -> inv (deliver fuel cfg_fixed p ci buf eof).
Proof.
  induction fuel as [|f IH]; intros p ci buf eof Hinv; cbn [deliver]; [exact Hinv|].
  destruct (nth_error (p_conns p) ci) as [c|] eqn:Hn; [|exact Hinv].
  pose proof (inv_nth _ _ _ Hinv Hn) as Hc.
  assert (Hclose : inv (put_conn p (env_of p) ci (set_st c StClosed) false))
    by (apply put_conn_inv; [exact Hinv|apply conn_ok_closed; exact Hc]).
  assert (Hround : forall st, c_st c = st ->
    inv (match buf with
         | [] => if eof then put_conn p (env_of p) ci (set_st c StClosed) false else p
         | _ :: _ =>
           if Nat.ltb (length buf) (msg_len st) then put_conn p (env_of p) ci (set_st c StClosed) false
           else
             match nth_error (p_screens p) (c_screen c) with
             | None => flag_err p
             | Some s =>
                 let (y, co) := on_message cfg_fixed s (env_of p) c (firstn (msg_len st) buf) in
                 let (e', c') := y in
                 match msg_len st with
                 | O => flag_err p
                 | S _ => deliver f cfg_fixed (put_conn p e' ci c' co) ci (skipn (msg_len st) buf) eof
                 end
             end
         end)).
  { intros st Hst.
    destruct buf as [|b buf]; [destruct eof; [exact Hclose|exact Hinv]|].
    destruct (Nat.ltb (length (b :: buf)) (msg_len st)); [exact Hclose|].
    destruct Hc as [s [Hs Hok]]. rewrite Hs.
    destruct (on_message cfg_fixed s (env_of p) c (firstn (msg_len st) (b :: buf))) as [[e' c'] co] eqn:Eo.
    destruct (on_message_ok _ _ _ _ _ _ _ Eo Hok) as [[Hs1 Hs2] Hok'].
    destruct (msg_len st); [exact Hinv|].
    apply IH. apply put_conn_inv; [exact Hinv|]. exists s. split; [rewrite Hs1; exact Hs|exact Hok']. }
  destruct (c_st c) eqn:Hst.
  - exact (Hround StPV eq_refl).
  - exact (Hround StSec eq_refl).
  - exact (Hround StAuth eq_refl).
  - exact (Hround StInit eq_refl).
  - destruct buf; [|exact Hinv]. destruct eof; [exact Hclose|exact Hinv].
  - exact Hinv.
Qed.

Lemma conn_ok_more_screens : forall scr extra c, conn_ok scr c -> conn_ok (scr ++ extra) c.
Proof.
  intros scr extra c [s [Hs Hok]]. exists s. split; [|exact Hok].
  rewrite nth_error_app1; [exact Hs|]. apply nth_error_Some. congruence.
Qed.

Lemma with_hs_inv : forall p o, inv p -> inv (with_hs p o).
Proof. intros p [st|] H; exact H. Qed.

Lemma step_inv : forall p o, inv p -> inv (step cfg_fixed p o).
Proof.
  intros p o Hinv. destruct o as [s|k|k|b|s rev bytes eof|c bytes eof]; cbn [step].
  - unfold inv in *. cbn [p_screens p_conns]. eapply Forall_impl; [|exact Hinv].
    intros c Hc. apply conn_ok_more_screens. exact Hc.
  - destruct (is_ext k); [apply with_hs_inv|]; exact Hinv.
  - destruct (is_ext k); [apply with_hs_inv|]; exact Hinv.
  - exact Hinv.
  - destruct (nth_error (p_screens p) s) as [scr|] eqn:Hs; [|exact Hinv].
    apply deliver_inv. unfold inv in *. cbn [p_screens p_conns]. apply Forall_app. split; [exact Hinv|].
    constructor; [|constructor]. exists scr. split; [exact Hs|]. apply ok_idle; cbn; congruence.
  - apply deliver_inv. exact Hinv.
Qed.

Lemma run_inv : forall ops p, inv p -> inv (run cfg_fixed p ops).
Proof.
  induction ops as [|o ops IH]; intros p H; cbn; [exact H|]. apply IH. apply step_inv. exact H.
Qed.

Lemma inv_init : inv proc_init.
Proof. constructor. Qed.

(* C05_sound: in every interleaved trace of the process (any screens, any application handlers,
   any connections inbound or reverse, any client bytes, any challenge bytes), with the fixed
   code, a non-reverse connection on a screen with a password that has reached
   RFB_INITIALISATION / RFB_NORMAL has answered the challenge sent to it with its DES encryption
   under one of the configured passwords. *)
Lemma sound_fixed : forall ops c s,
  let p := run cfg_fixed proc_init ops in
  In c (p_conns p) -> nth_error (p_screens p) (c_screen c) = Some s ->
  protected s c = true -> granted c = true -> proved s c.
Proof.
  intros ops c s p Hin Hs Hp Ha.
  pose proof (run_inv ops proc_init inv_init) as Hinv. fold p in Hinv.
  unfold inv in Hinv. rewrite Forall_forall in Hinv. destruct (Hinv c Hin) as [s' [Hs' [Hok _]]].
  rewrite Hs in Hs'. injection Hs' as <-. apply Hok; assumption.
Qed.

(* the statement is not vacuous: a trace in which a protected client is granted *)
Definition demo_pw : list N := [112;97;115;115;119;111;114;100]%N.
Definition demo_chal : list N := map N.of_nat (seq 0 16).
Definition demo_screen : screen := mkScreen (PwList [demo_pw] 1) 4 3 [112; 114]%N.
Definition v38 : list N := [82;70;66;32;48;48;51;46;48;48;56;10]%N.
Definition demo_resp : list N := match vnc_encrypt demo_pw demo_chal with Some r => r | None => [] end.
Definition demo_trace : list op :=
  [OScreen demo_screen; ORand demo_chal; OConn 0 false v38 false; OSend 0 [2%N] false;
   OSend 0 demo_resp false; OSend 0 [1%N] false].

Definition some_protected_granted (p : proc) : bool :=
  existsb (fun c => match nth_error (p_screens p) (c_screen c) with
                    | Some s => protected s c && granted c
                    | None => false
                    end) (p_conns p).

Example sound_fixed_nonvacuous : some_protected_granted (run cfg_fixed proc_init demo_trace) = true.
Proof. vm_compute. reflexivity. Qed.

(* ---------------------------------------------------------------- the code before the fixes *)
Definition open_screen : screen := mkScreen PwNone 5 6 [111; 112]%N.
Definition v33 : list N := [82;70;66;32;48;48;51;46;48;48;51;10]%N.

(* section 7 F1a: X (connection 0) of a protected screen is in RFB_SECURITY_TYPE, a connection to a
   password-less screen rewrites the process-global list to {None}, X chooses type 1 *)
Definition f1a_trace : list op :=
  [OScreen demo_screen; OScreen open_screen; OConn 0 false v38 false; OConn 1 false v38 false;
   OSend 0 [1%N] false; OSend 0 [1%N] false].

Lemma sound_global_list_refuted :
  exists ops c s, let p := run cfg_legacy proc_init ops in
    In c (p_conns p) /\ nth_error (p_screens p) (c_screen c) = Some s /\
    protected s c = true /\ c_st c = StNormal /\ ~ proved s c.
Proof.
  exists f1a_trace.
  exists (nth 0 (p_conns (run cfg_legacy proc_init f1a_trace)) (new_conn 0 false)), demo_screen.
  cbv zeta. split; [|split; [|split; [|split]]].
  - vm_compute. left. reflexivity.
  - vm_compute. reflexivity.
  - vm_compute. reflexivity.
  - vm_compute. reflexivity.
  - intros [r [pw [H _]]]. vm_compute in H. discriminate.
Qed.

(* the same trace on the fixed code: X is dropped *)
Example f1a_trace_fixed :
  map c_st (p_conns (run cfg_fixed proc_init f1a_trace)) = [StClosed; StSec].
Proof. vm_compute. reflexivity. Qed.

(* the reverse-connection variant *)
Definition f1a_rev_trace : list op :=
  [OScreen demo_screen; OConn 0 false v38 false; OConn 0 true v38 false; OSend 0 [1%N] false].
Example f1a_rev_legacy : map c_st (p_conns (run cfg_legacy proc_init f1a_rev_trace)) = [StInit; StSec].
Proof. vm_compute. reflexivity. Qed.
Example f1a_rev_fixed : map c_st (p_conns (run cfg_fixed proc_init f1a_rev_trace)) = [StClosed; StSec].
Proof. vm_compute. reflexivity. Qed.

(* section 7 F1b: empty password = all-zero DES key, refused by the backend; the failure is ignored, so
   the "encrypted" challenge is the challenge itself *)
Definition weak_screen : screen := mkScreen (PwList [[]] 1) 4 3 [119]%N.
Definition f1b_trace : list op :=
  [OScreen weak_screen; ORand demo_chal; OConn 0 false v33 false; OSend 0 demo_chal false].

Lemma weakkey_refuted :
  exists ops c s, let p := run cfg_legacy proc_init ops in
    In c (p_conns p) /\ nth_error (p_screens p) (c_screen c) = Some s /\
    protected s c = true /\ c_st c = StInit /\ ~ proved s c.
Proof.
  exists f1b_trace.
  exists (nth 0 (p_conns (run cfg_legacy proc_init f1b_trace)) (new_conn 0 false)), weak_screen.
  cbv zeta. split; [|split; [|split; [|split]]].
  - vm_compute. left. reflexivity.
  - vm_compute. reflexivity.
  - vm_compute. reflexivity.
  - vm_compute. reflexivity.
  - intros [r [pw [H1 [H2 H3]]]]. vm_compute in H1. injection H1 as <-.
    vm_compute in H2. destruct H2 as [<-|[]]. vm_compute in H3. discriminate.
Qed.

(* ... and the correct response is rejected; the fixed code does the opposite on both traces *)
Definition weak_resp : list N := match vnc_encrypt [] demo_chal with Some r => r | None => [] end.
Definition f1b_trace2 : list op :=
  [OScreen weak_screen; ORand demo_chal; OConn 0 false v33 false; OSend 0 weak_resp false].
Lemma weakkey_complete_refuted :
  map c_st (p_conns (run cfg_legacy proc_init f1b_trace2)) = [StClosed] /\
  map c_st (p_conns (run cfg_fixed proc_init f1b_trace2)) = [StInit] /\
  map c_st (p_conns (run cfg_fixed proc_init f1b_trace)) = [StClosed].
Proof. vm_compute. repeat split. Qed.

(* ---------------------------------------------------------------- completeness *)
(* the global list when the application registers no handler of its own: only the three states
   reachable through rfbSendSecurityTypeList *)
Definition bstore (st : hstore) : Prop :=
  st = hstore_init \/ st = mkHs (Some H_VNCAUTH) (repeat None (length htypes)) \/
  st = mkHs (Some H_NONE) (repeat None (length htypes)).

Definition is_prim (z : Z) : Prop := z = c05_rfbSecTypeNone \/ z = c05_rfbSecTypeVncAuth.

Lemma primary_is_prim : forall s c, is_prim (primary_type s c).
Proof. intros. rewrite primary_of_protected. destruct (protected s c); [right|left]; reflexivity. Qed.

(* fuel suffices for the list operations on these stores, the result is again such a store and
   the list sent is exactly the client's primary type *)
Definition bstore_for (primary : Z) : hstore :=
  mkHs (Some (if Z.eqb primary c05_rfbSecTypeNone then H_NONE else H_VNCAUTH)) (repeat None (length htypes)).

Lemma bstore_offer : forall st primary, bstore st -> is_prim primary ->
  exists st', offer_store st primary = Some st' /\ bstore st' /\
              forall legacy, offer_types legacy primary st' = Some [primary].
Proof.
  intros st primary Hb Hp. exists (bstore_for primary).
  destruct Hb as [-> | [-> | ->]]; destruct Hp as [-> | ->];
    (split; [vm_compute; reflexivity|]); (split; [unfold bstore; vm_compute; auto|]);
    intros [|]; vm_compute; reflexivity.
Qed.

(* the fixed lookup honours the client's own primary type whatever the list says *)
Lemma bstore_find : forall st primary, bstore st -> is_prim primary ->
  hs_find LIST_FUEL false st (h_head st) primary primary = Some (builtin_sel primary).
Proof. intros st primary [-> | [-> | ->]] [-> | ->]; vm_compute; reflexivity. Qed.

Lemma send_type_list_bstore : forall cf e c primary, bstore (e_hs e) -> is_prim primary ->
  exists st', bstore st' /\
    send_type_list cf e c primary =
      (mkEnv st' (e_rand e) (e_err e), set_st (add_out c [1%N; zbyte primary]) StSec).
Proof.
  intros cf e c primary Hb Hp. destruct (bstore_offer _ _ Hb Hp) as [st' [H1 [H2 H3]]].
  exists st'. split; [exact H2|]. unfold send_type_list. rewrite H1, H3. reflexivity.
Qed.

Lemma close_others_from_nth : forall l i0 ci scr j,
  nth_error (close_others_from i0 l ci scr) j =
  match nth_error l j with
  | Some c => Some (if negb (Nat.eqb (i0 + j) ci) && Nat.eqb (c_screen c) scr && is_normal c
                    then set_st c StClosed else c)
  | None => None
  end.
Proof.
  induction l as [|c t IH]; intros i0 ci scr j; cbn [close_others_from].
  - destruct j; reflexivity.
  - destruct j as [|j]; cbn [nth_error].
    + rewrite Nat.add_0_r. reflexivity.
    + rewrite IH. replace (S i0 + j)%nat with (i0 + S j)%nat by lia. reflexivity.
Qed.

Lemma put_conn_nth_self : forall p e ci c co c0,
  nth_error (p_conns p) ci = Some c0 -> nth_error (p_conns (put_conn p e ci c co)) ci = Some c.
Proof.
  intros p e ci c co c0 H. unfold put_conn. cbn [p_conns].
  assert (Hl : (ci < length (p_conns p))%nat) by (apply nth_error_Some; congruence).
  destruct co.
  - unfold close_others. rewrite close_others_from_nth. rewrite nth_error_set_nth_eq by exact Hl.
    cbn [Nat.add]. rewrite Nat.eqb_refl. reflexivity.
  - apply nth_error_set_nth_eq. exact Hl.
Qed.

Lemma put_conn_nth_other : forall p e ci c co j cj,
  j <> ci -> nth_error (p_conns p) j = Some cj -> is_normal cj = false ->
  nth_error (p_conns (put_conn p e ci c co)) j = Some cj.
Proof.
  intros p e ci c co j cj Hne H Hn. unfold put_conn. cbn [p_conns].
  destruct co.
  - unfold close_others. rewrite close_others_from_nth. rewrite nth_error_set_nth_neq by congruence.
    rewrite H. rewrite Hn. rewrite andb_false_r. reflexivity.
  - rewrite nth_error_set_nth_neq by congruence. exact H.
Qed.

Lemma deliver_nil : forall f cf p ci c,
  nth_error (p_conns p) ci = Some c -> deliver (S f) cf p ci [] false = p.
Proof.
  intros f cf p ci c H. cbn [deliver]. rewrite H. destruct (c_st c); reflexivity.
Qed.

Definition handshaking (c : conn) : Prop :=
  c_st c = StPV \/ c_st c = StSec \/ c_st c = StAuth \/ c_st c = StInit.

(* one complete message, delivered alone: exactly one application of the message handler *)
Lemma deliver_one : forall cf p ci c s msg e' c' co,
  nth_error (p_conns p) ci = Some c ->
  nth_error (p_screens p) (c_screen c) = Some s ->
  handshaking c -> length msg = msg_len (c_st c) ->
  on_message cf s (env_of p) c msg = (e', c', co) ->
  deliver (S (length msg)) cf p ci msg false = put_conn p e' ci c' co.
Proof.
  intros cf p ci c s msg e' c' co Hn Hs Hh Hl Ho.
  assert (Hpos : exists k, msg_len (c_st c) = S k).
  { destruct Hh as [H|[H|[H|H]]]; rewrite H; vm_compute; eexists; reflexivity. }
  destruct Hpos as [k Hk].
  cbn [deliver]. rewrite Hn.
  destruct msg as [|b msg]; [cbn in Hl; congruence|].
  assert (Hlt : Nat.ltb (length (b :: msg)) (msg_len (c_st c)) = false) by (apply Nat.ltb_ge; lia).
  assert (Hfirst : firstn (msg_len (c_st c)) (b :: msg) = b :: msg) by (rewrite <- Hl; apply firstn_all).
  assert (Hskip : skipn (msg_len (c_st c)) (b :: msg) = []) by (rewrite <- Hl; apply skipn_all).
  assert (Hend : deliver (length (b :: msg)) cf (put_conn p e' ci c' co) ci [] false = put_conn p e' ci c' co).
  { cbn [length]. eapply deliver_nil. eapply put_conn_nth_self. exact Hn. }
  destruct Hh as [H|[H|[H|H]]]; rewrite H in *; rewrite Hlt, Hs, Hfirst, Ho, Hk, <- Hk, Hskip; exact Hend.
Qed.

(* ---- the global list stays a [bstore] as long as the application registers nothing *)
Lemma send_challenge_hs : forall e c e' c', send_challenge e c = (e', c') -> e_hs e' = e_hs e.
Proof.
  intros e c e' c' H. unfold send_challenge in H.
  destruct (take_rand (e_rand e) (Z.to_nat c05_CHALLENGESIZE)). injection H as <- <-. reflexivity.
Qed.

Lemma on_message_bstore : forall cf s e c msg e' c' co,
  on_message cf s e c msg = (e', c', co) -> bstore (e_hs e) -> bstore (e_hs e').
Proof.
  intros cf s e c msg e' c' co H Hb. unfold on_message in H.
  destruct (c_st c).
  - destruct (on_version cf s e c msg) as [e1 c1] eqn:E. injection H as <- <- <-.
    unfold on_version in E. destruct (parse_version msg) as [[ma mi]|]; [|injection E as <- <-; exact Hb].
    destruct (negb (ma =? c05_rfbProtocolMajorVersion)%Z); [injection E as <- <-; exact Hb|].
    unfold auth_new_client in E. destruct (c_minor (set_minor c mi) <? 7)%Z.
    + unfold send_type_33 in E.
      destruct (primary_type s (set_minor c mi) =? c05_rfbSecTypeNone)%Z; [injection E as <- <-; exact Hb|].
      rewrite (send_challenge_hs _ _ _ _ E). exact Hb.
    + destruct (send_type_list_bstore cf e (set_minor c mi) _ Hb (primary_is_prim s (set_minor c mi))) as [st' [Hb' Heq]].
      rewrite Heq in E. injection E as <- <-. exact Hb'.
  - destruct msg as [|b msg]; [injection H as <- <- <-; exact Hb|].
    unfold on_sectype in H.
    destruct (hs_find LIST_FUEL (cfg_global_check cf) (e_hs e) (h_head (e_hs e)) (Z.of_N b) (primary_type s c)) as [[| |k|]|].
    + destruct (send_challenge e c) as [e1 c1] eqn:E. injection H as <- <- <-.
      rewrite (send_challenge_hs _ _ _ _ E). exact Hb.
    + destruct (auth_none s c). injection H as <- <- <-. exact Hb.
    + injection H as <- <- <-. exact Hb.
    + injection H as <- <- <-. exact Hb.
    + injection H as <- <- <-. exact Hb.
  - destruct (on_response cf s e c msg) as [e1 c1] eqn:E. injection H as <- <- <-.
    unfold on_response in E. destruct (password_check cf s (set_resp c msg) msg) as [[|] c2];
      injection E as <- <-; exact Hb.
  - destruct msg as [|b msg]; [injection H as <- <- <-; exact Hb|].
    destruct (client_init s c b). injection H as <- <- <-. exact Hb.
  - injection H as <- <- <-. exact Hb.
  - injection H as <- <- <-. exact Hb.
Qed.

(* what a delivery to connection cj leaves untouched *)
Lemma deliver_frame : forall fuel cf p cj buf eof,
  bstore (p_hs p) ->
  let p' := deliver fuel cf p cj buf eof in
  bstore (p_hs p') /\ p_screens p' = p_screens p /\
  (forall ci c, ci <> cj -> nth_error (p_conns p) ci = Some c -> is_normal c = false ->
                nth_error (p_conns p') ci = Some c).
Proof.
  induction fuel as [|f IH]; intros cf p cj buf eof Hb; cbn [deliver].
  - repeat split; auto.
  - assert (Hsame : bstore (p_hs p) /\ p_screens p = p_screens p /\
      (forall ci c, ci <> cj -> nth_error (p_conns p) ci = Some c -> is_normal c = false ->
                    nth_error (p_conns p) ci = Some c)) by (repeat split; auto).
    destruct (nth_error (p_conns p) cj) as [c|] eqn:Hn; [|exact Hsame].
    assert (Hclose : let p' := put_conn p (env_of p) cj (set_st c StClosed) false in
      bstore (p_hs p') /\ p_screens p' = p_screens p /\
      (forall ci c0, ci <> cj -> nth_error (p_conns p) ci = Some c0 -> is_normal c0 = false ->
                     nth_error (p_conns p') ci = Some c0)).
    { cbv zeta. split; [exact Hb|]. split; [reflexivity|].
      intros ci c0 Hne H0 Hn0. apply put_conn_nth_other; assumption. }
    assert (Hround : forall st, c_st c = st ->
      let p' := match buf with
         | [] => if eof then put_conn p (env_of p) cj (set_st c StClosed) false else p
         | _ :: _ =>
           if Nat.ltb (length buf) (msg_len st) then put_conn p (env_of p) cj (set_st c StClosed) false
           else
             match nth_error (p_screens p) (c_screen c) with
             | None => flag_err p
             | Some s =>
                 let (y, co) := on_message cf s (env_of p) c (firstn (msg_len st) buf) in
                 let (e', c') := y in
                 match msg_len st with
                 | O => flag_err p
                 | S _ => deliver f cf (put_conn p e' cj c' co) cj (skipn (msg_len st) buf) eof
                 end
             end
         end in
      bstore (p_hs p') /\ p_screens p' = p_screens p /\
      (forall ci c0, ci <> cj -> nth_error (p_conns p) ci = Some c0 -> is_normal c0 = false ->
                     nth_error (p_conns p') ci = Some c0)).
    { intros st Hst. cbv zeta.
      destruct buf as [|b buf]; [destruct eof; [exact Hclose|exact Hsame]|].
      destruct (Nat.ltb (length (b :: buf)) (msg_len st)); [exact Hclose|].
      destruct (nth_error (p_screens p) (c_screen c)) as [s|]; [|exact Hsame].
      destruct (on_message cf s (env_of p) c (firstn (msg_len st) (b :: buf))) as [[e' c'] co] eqn:Eo.
      destruct (msg_len st); [exact Hsame|].
      pose proof (on_message_bstore _ _ _ _ _ _ _ _ Eo Hb) as Hb'.
      destruct (IH cf (put_conn p e' cj c' co) cj (skipn (S n) (b :: buf)) eof Hb') as [I1 [I2 I3]].
      split; [exact I1|]. split; [rewrite I2; reflexivity|].
      intros ci c0 Hne H0 Hn0. apply I3; [exact Hne| |exact Hn0]. apply put_conn_nth_other; assumption. }
    destruct (c_st c) eqn:Hst.
    + exact (Hround StPV eq_refl).
    + exact (Hround StSec eq_refl).
    + exact (Hround StAuth eq_refl).
    + exact (Hround StInit eq_refl).
    + destruct buf; [|exact Hsame]. destruct eof; [exact Hclose|exact Hsame].
    + exact Hsame.
Qed.

(* operations that are not addressed to connection ci and are not application (un)registrations *)
Definition foreign (ci : nat) (o : op) : bool :=
  match o with
  | OReg _ | OUnreg _ => false
  | OSend c _ _ => negb (Nat.eqb c ci)
  | _ => true
  end.

Definition screens_kept (p p' : proc) : Prop :=
  forall s scr, nth_error (p_screens p) s = Some scr -> nth_error (p_screens p') s = Some scr.

Lemma step_frame : forall cf p o ci c,
  foreign ci o = true -> bstore (p_hs p) -> nth_error (p_conns p) ci = Some c -> is_normal c = false ->
  let p' := step cf p o in
  bstore (p_hs p') /\ screens_kept p p' /\ nth_error (p_conns p') ci = Some c.
Proof.
  intros cf p o ci c Hf Hb Hn Hnn. cbv zeta.
  destruct o as [s|k|k|b|s rev bytes eof|cj bytes eof]; cbn [step foreign] in *; try discriminate.
  - split; [exact Hb|]. split; [|exact Hn]. intros s0 scr H. cbn [p_screens].
    rewrite nth_error_app1; [exact H|]. apply nth_error_Some. congruence.
  - split; [exact Hb|]. split; [intros s0 scr H; exact H|exact Hn].
  - destruct (nth_error (p_screens p) s) as [scr0|]; [|split; [exact Hb|split; [intros s0 scr H; exact H|exact Hn]]].
    set (p1 := mkProc (p_hs p) (p_screens p) (p_conns p ++ [new_conn s rev]) (p_rand p) (p_err p) (p_unmod p)).
    assert (Hlt : (ci < length (p_conns p))%nat) by (apply nth_error_Some; congruence).
    destruct (deliver_frame (S (length bytes)) cf p1 (length (p_conns p)) bytes eof Hb) as [I1 [I2 I3]].
    split; [exact I1|]. split; [intros s0 scr H; rewrite I2; exact H|].
    apply I3; [lia| |exact Hnn]. unfold p1. cbn [p_conns]. rewrite nth_error_app1 by exact Hlt. exact Hn.
  - apply negb_true_iff in Hf. apply Nat.eqb_neq in Hf.
    destruct (deliver_frame (S (length bytes)) cf p cj bytes eof Hb) as [I1 [I2 I3]].
    split; [exact I1|]. split; [intros s0 scr H; rewrite I2; exact H|].
    apply I3; [congruence|exact Hn|exact Hnn].
Qed.

Lemma run_frame : forall cf tr p ci c,
  forallb (foreign ci) tr = true -> bstore (p_hs p) -> nth_error (p_conns p) ci = Some c -> is_normal c = false ->
  let p' := run cf p tr in
  bstore (p_hs p') /\ screens_kept p p' /\ nth_error (p_conns p') ci = Some c.
Proof.
  induction tr as [|o tr IH]; intros p ci c Hf Hb Hn Hnn; cbn [run fold_left].
  - split; [exact Hb|]. split; [intros s scr H; exact H|exact Hn].
  - cbn [forallb] in Hf. apply andb_true_iff in Hf. destruct Hf as [Ho Hf].
    destruct (step_frame cf p o ci c Ho Hb Hn Hnn) as [S1 [S2 S3]].
    destruct (IH (step cf p o) ci c Hf S1 S3 Hnn) as [R1 [R2 R3]].
    split; [exact R1|]. split; [|exact R3]. intros s scr H. apply R2. apply S2. exact H.
Qed.

Lemma check_list_complete : forall cf pws chal resp pw i0,
  In pw pws -> bytes_eqb (encrypt_bytes cf pw chal) resp = true ->
  exists i, check_list cf pws chal resp i0 = Some i.
Proof.
  induction pws as [|p0 rest IH]; intros chal resp pw i0 Hin Hb; [contradiction|].
  cbn [check_list]. destruct (bytes_eqb (encrypt_bytes cf p0 chal) resp) eqn:E; [eauto|].
  destruct Hin as [->|Hin]; [congruence|]. eapply IH; eauto.
Qed.

Lemma step_send : forall cf p ci bytes, step cf p (OSend ci bytes false) = deliver (S (length bytes)) cf p ci bytes false.
Proof. reflexivity. Qed.

Lemma msg_len_values : msg_len StPV = 12%nat /\ msg_len StSec = 1%nat /\ msg_len StAuth = 16%nat /\ msg_len StInit = 1%nat.
Proof. vm_compute. auto. Qed.

(* phase 1 (protocol >= 3.7): the version line is answered with the list [VncAuth] *)
Lemma phase_version : forall p ci c scr ver mi,
  nth_error (p_conns p) ci = Some c -> nth_error (p_screens p) (c_screen c) = Some scr ->
  c_st c = StPV -> protected scr c = true -> bstore (p_hs p) ->
  length ver = 12%nat -> parse_version ver = Some (c05_rfbProtocolMajorVersion, mi) -> (7 <= mi)%Z ->
  let p' := step cfg_fixed p (OSend ci ver false) in
  bstore (p_hs p') /\ p_screens p' = p_screens p /\ p_rand p' = p_rand p /\
  nth_error (p_conns p') ci =
    Some (set_st (add_out (set_minor c mi) [1%N; zbyte c05_rfbSecTypeVncAuth]) StSec).
Proof.
  intros p ci c scr ver mi Hn Hs Hst Hp Hb Hl Hv Hmi. cbv zeta. rewrite step_send.
  assert (Hprim : primary_type scr (set_minor c mi) = c05_rfbSecTypeVncAuth).
  { rewrite primary_of_protected. unfold protected in *. cbn [c_rev set_minor]. rewrite Hp. reflexivity. }
  destruct (send_type_list_bstore cfg_fixed (env_of p) (set_minor c mi) c05_rfbSecTypeVncAuth Hb (or_intror eq_refl))
    as [st' [Hb' Heq]].
  assert (Ho : on_message cfg_fixed scr (env_of p) c ver =
               (mkEnv st' (p_rand p) (p_err p),
                set_st (add_out (set_minor c mi) [1%N; zbyte c05_rfbSecTypeVncAuth]) StSec, false)).
  { unfold on_message. rewrite Hst. unfold on_version. rewrite Hv. rewrite Z.eqb_refl. cbn [negb].
    unfold auth_new_client. cbn [c_minor set_minor].
    assert (Hlt : (mi <? 7)%Z = false) by (apply Z.ltb_ge; exact Hmi). rewrite Hlt.
    rewrite Hprim, Heq. reflexivity. }
  rewrite (deliver_one cfg_fixed p ci c scr ver _ _ _ Hn Hs (or_introl Hst)
             ltac:(rewrite Hst, Hl; reflexivity) Ho).
  split; [exact Hb'|]. split; [reflexivity|]. split; [reflexivity|].
  eapply put_conn_nth_self. exact Hn.
Qed.

(* phase 2: choosing the offered type VncAuth is honoured whatever other connections did to the
   global list in the meantime: the challenge is the next 16 random bytes *)
Lemma phase_choice : forall p ci c scr,
  nth_error (p_conns p) ci = Some c -> nth_error (p_screens p) (c_screen c) = Some scr ->
  c_st c = StSec -> protected scr c = true -> bstore (p_hs p) ->
  let ch := fst (take_rand (p_rand p) 16) in
  let p' := step cfg_fixed p (OSend ci [zbyte c05_rfbSecTypeVncAuth] false) in
  bstore (p_hs p') /\ p_screens p' = p_screens p /\
  nth_error (p_conns p') ci = Some (set_st (add_out (set_sent (set_chal c ch) ch) ch) StAuth).
Proof.
  intros p ci c scr Hn Hs Hst Hp Hb. cbv zeta. rewrite step_send.
  assert (Hprim : primary_type scr c = c05_rfbSecTypeVncAuth) by (rewrite primary_of_protected, Hp; reflexivity).
  assert (Ho : on_message cfg_fixed scr (env_of p) c [zbyte c05_rfbSecTypeVncAuth] =
               (mkEnv (p_hs p) (snd (take_rand (p_rand p) 16)) (p_err p),
                set_st (add_out (set_sent (set_chal c (fst (take_rand (p_rand p) 16))) (fst (take_rand (p_rand p) 16)))
                                (fst (take_rand (p_rand p) 16))) StAuth, false)).
  { unfold on_message. rewrite Hst. unfold on_sectype. cbn [cfg_fixed cfg_global_check env_of e_hs].
    rewrite Hprim. change (Z.of_N (zbyte c05_rfbSecTypeVncAuth)) with c05_rfbSecTypeVncAuth.
    rewrite (bstore_find (p_hs p) c05_rfbSecTypeVncAuth Hb (or_intror eq_refl)).
    change (builtin_sel c05_rfbSecTypeVncAuth) with HAuth. cbv iota.
    unfold send_challenge, env_of. cbn [e_rand e_hs e_err]. change (Z.to_nat c05_CHALLENGESIZE) with 16%nat.
    destruct (take_rand (p_rand p) 16) as [ch rest]. reflexivity. }
  rewrite (deliver_one cfg_fixed p ci c scr [zbyte c05_rfbSecTypeVncAuth] _ _ _ Hn Hs (or_intror (or_introl Hst))
             ltac:(rewrite Hst; reflexivity) Ho).
  split; [exact Hb|]. split; [reflexivity|]. eapply put_conn_nth_self. exact Hn.
Qed.

(* phase 3: the DES encryption of the challenge under any configured password is accepted *)
Lemma phase_response : forall p ci c scr pw r,
  nth_error (p_conns p) ci = Some c -> nth_error (p_screens p) (c_screen c) = Some scr ->
  c_st c = StAuth -> length (c_chal c) = 16%nat ->
  In pw (screen_passwords scr) -> vnc_encrypt pw (c_chal c) = Some r ->
  let p' := step cfg_fixed p (OSend ci r false) in
  p_hs p' = p_hs p /\ p_screens p' = p_screens p /\
  exists c', nth_error (p_conns p') ci = Some c' /\ c_st c' = StInit /\ c_out c' = c_out c ++ auth_ok /\
             c_screen c' = c_screen c /\ c_rev c' = c_rev c /\ c_resp c' = Some r.
Proof.
  intros p ci c scr pw r Hn Hs Hst Hlen Hin Henc. cbv zeta. rewrite step_send.
  assert (Hr16 : length r = 16%nat).
  { destruct (vnc_encrypt_some pw (c_chal c) Hlen) as [r' [E L]]. congruence. }
  assert (Hmatch : bytes_eqb (encrypt_bytes cfg_fixed pw (c_chal c)) r = true).
  { pose proof (encrypt_bytes_fixed pw (c_chal c) Hlen) as E. rewrite Henc in E. injection E as <-. apply bytes_eqb_refl. }
  assert (Hpc : exists c1, password_check cfg_fixed scr (set_resp c r) r = (true, c1) /\
                  c_out c1 = c_out c /\ c_screen c1 = c_screen c /\ c_rev c1 = c_rev c /\ c_resp c1 = Some r).
  { unfold password_check, screen_passwords in *. destruct (s_pw scr) as [|pws fvo|content].
    - contradiction.
    - cbn [c_chal set_resp]. destruct (check_list_complete cfg_fixed pws (c_chal c) r pw 0%Z Hin Hmatch) as [i Hi].
      rewrite Hi. eexists. split; [reflexivity|]. destruct (fvo <=? i)%Z; repeat split.
    - destruct (decrypt_passwd_file content) as [pw'|]; [|contradiction].
      destruct Hin as [<-|[]]. cbn [c_chal set_resp]. rewrite Hmatch. eexists. split; [reflexivity|]. repeat split. }
  destruct Hpc as [c1 [Hpc [O1 [O2 [O3 O4]]]]].
  assert (Ho : on_message cfg_fixed scr (env_of p) c r = (env_of p, set_st (add_out c1 auth_ok) StInit, false)).
  { unfold on_message. rewrite Hst. unfold on_response. rewrite Hpc. reflexivity. }
  rewrite (deliver_one cfg_fixed p ci c scr r _ _ _ Hn Hs (or_intror (or_intror (or_introl Hst)))
             ltac:(rewrite Hst, Hr16; reflexivity) Ho).
  split; [reflexivity|]. split; [reflexivity|].
  eexists. split; [eapply put_conn_nth_self; exact Hn|]. cbn. rewrite O1. repeat split; assumption.
Qed.

(* phase 4: ClientInit is answered with ServerInit *)
Lemma phase_init : forall p ci c scr b,
  nth_error (p_conns p) ci = Some c -> nth_error (p_screens p) (c_screen c) = Some scr ->
  c_st c = StInit ->
  let p' := step cfg_fixed p (OSend ci [b] false) in
  exists c', nth_error (p_conns p') ci = Some c' /\ c_st c' = StNormal /\
             c_out c' = c_out c ++ server_init scr.
Proof.
  intros p ci c scr b Hn Hs Hst. cbv zeta. rewrite step_send.
  assert (Ho : on_message cfg_fixed scr (env_of p) c [b] =
               (env_of p, set_st (add_out c (server_init scr)) StNormal, negb (c_rev c) && N.eqb b 0)).
  { unfold on_message. rewrite Hst. reflexivity. }
  rewrite (deliver_one cfg_fixed p ci c scr [b] _ _ _ Hn Hs (or_intror (or_intror (or_intror Hst)))
             ltac:(rewrite Hst; reflexivity) Ho).
  eexists. split; [eapply put_conn_nth_self; exact Hn|]. split; reflexivity.
Qed.

(* C05_complete (protocol >= 3.7): a client that connects to a protected screen, chooses VncAuth
   and answers the challenge with its DES encryption under a configured password is told OK and
   is given ServerInit - whatever other connections (to this or other screens, inbound or
   reverse) and new screens do between its messages (tr1, tr2, tr3 arbitrary foreign traces).
   World: the application registers no security handler of its own ([bstore]). *)
Lemma complete_fixed : forall p0 s scr pw ver mi tr1 tr2 tr3 b,
  bstore (p_hs p0) -> nth_error (p_screens p0) s = Some scr -> has_password scr = true ->
  In pw (screen_passwords scr) ->
  length ver = 12%nat -> parse_version ver = Some (c05_rfbProtocolMajorVersion, mi) -> (7 <= mi)%Z ->
  let ci := length (p_conns p0) in
  forallb (foreign ci) tr1 = true -> forallb (foreign ci) tr2 = true -> forallb (foreign ci) tr3 = true ->
  let p1 := step cfg_fixed p0 (OConn s false ver false) in
  let p2 := run cfg_fixed p1 tr1 in
  let ch := fst (take_rand (p_rand p2) 16) in
  let p3 := step cfg_fixed p2 (OSend ci [zbyte c05_rfbSecTypeVncAuth] false) in
  let p4 := run cfg_fixed p3 tr2 in
  forall r, vnc_encrypt pw ch = Some r ->
  let p5 := step cfg_fixed p4 (OSend ci r false) in
  let p6 := run cfg_fixed p5 tr3 in
  let p7 := step cfg_fixed p6 (OSend ci [b] false) in
  exists c, nth_error (p_conns p7) ci = Some c /\ c_st c = StNormal /\
            c_out c = server_version ++ [1%N; zbyte c05_rfbSecTypeVncAuth] ++ ch ++ auth_ok ++ server_init scr.
Proof.
  intros p0 s scr pw ver mi tr1 tr2 tr3 b Hb Hs Hpw Hin Hl Hv Hmi ci F1 F2 F3 p1 p2 ch p3 p4 r Hr p5 p6 p7.
  (* phase 1 *)
  set (q := mkProc (p_hs p0) (p_screens p0) (p_conns p0 ++ [new_conn s false]) (p_rand p0) (p_err p0) (p_unmod p0)).
  assert (Hp1 : p1 = step cfg_fixed q (OSend ci ver false)).
  { unfold p1. cbn [step]. rewrite Hs. reflexivity. }
  assert (Hq : nth_error (p_conns q) ci = Some (new_conn s false)).
  { unfold q, ci. cbn [p_conns]. rewrite nth_error_app2 by lia. rewrite Nat.sub_diag. reflexivity. }
  assert (Hprot : protected scr (new_conn s false) = true) by (unfold protected; rewrite Hpw; reflexivity).
  destruct (phase_version q ci (new_conn s false) scr ver mi Hq Hs eq_refl Hprot Hb Hl Hv Hmi) as [B1 [S1 [_ C1]]].
  rewrite <- Hp1 in B1, S1, C1.
  set (c1 := set_st (add_out (set_minor (new_conn s false) mi) [1%N; zbyte c05_rfbSecTypeVncAuth]) StSec) in *.
  assert (K1 : nth_error (p_screens p1) s = Some scr) by (rewrite S1; exact Hs).
  (* tr1 *)
  destruct (run_frame cfg_fixed tr1 p1 ci c1 F1 B1 C1 eq_refl) as [B2 [S2 C2]]. fold p2 in B2, S2, C2.
  assert (K2 : nth_error (p_screens p2) s = Some scr) by (apply S2; exact K1).
  (* phase 2 *)
  destruct (phase_choice p2 ci c1 scr C2 K2 eq_refl Hprot B2) as [B3 [S3 C3]]. fold ch p3 in B3, S3, C3.
  set (c3 := set_st (add_out (set_sent (set_chal c1 ch) ch) ch) StAuth) in *.
  assert (K3 : nth_error (p_screens p3) s = Some scr) by (rewrite S3; exact K2).
  (* tr2 *)
  destruct (run_frame cfg_fixed tr2 p3 ci c3 F2 B3 C3 eq_refl) as [B4 [S4 C4]]. fold p4 in B4, S4, C4.
  assert (K4 : nth_error (p_screens p4) s = Some scr) by (apply S4; exact K3).
  (* phase 3 *)
  assert (Hch : length ch = 16%nat) by (apply take_rand_length).
  destruct (phase_response p4 ci c3 scr pw r C4 K4 eq_refl Hch Hin Hr) as [H5 [S5 [c5 [C5 [T5 [O5 [Sc5 [R5 _]]]]]]]].
  fold p5 in H5, S5, C5.
  assert (B5 : bstore (p_hs p5)) by (rewrite H5; exact B4).
  assert (K5 : nth_error (p_screens p5) s = Some scr) by (rewrite S5; exact K4).
  (* tr3 *)
  assert (N5 : is_normal c5 = false) by (unfold is_normal; rewrite T5; reflexivity).
  destruct (run_frame cfg_fixed tr3 p5 ci c5 F3 B5 C5 N5) as [B6 [S6 C6]]. fold p6 in B6, S6, C6.
  assert (K6 : nth_error (p_screens p6) (c_screen c5) = Some scr) by (rewrite Sc5; apply S6; exact K5).
  (* phase 4 *)
  destruct (phase_init p6 ci c5 scr b C6 K6 T5) as [c7 [C7 [T7 O7]]]. fold p7 in C7.
  exists c7. split; [exact C7|]. split; [exact T7|].
  rewrite O7, O5. cbn [c3 c1 c_out set_st add_out set_sent set_chal set_minor new_conn].
  repeat rewrite <- app_assoc. reflexivity.
Qed.

(* the hypotheses of [complete_fixed] are satisfiable, with other connections interleaved *)
Example complete_fixed_nonvacuous :
  let p0 := run cfg_fixed proc_init [OScreen demo_screen; OScreen open_screen; ORand demo_chal] in
  let tr := [OConn 1 false v38 false; OSend 1 [1%N] false; OConn 0 true v38 false] in
  bstore (p_hs p0) /\ nth_error (p_screens p0) 0 = Some demo_screen /\ has_password demo_screen = true /\
  In demo_pw (screen_passwords demo_screen) /\ parse_version v38 = Some (c05_rfbProtocolMajorVersion, 8%Z) /\
  forallb (foreign (length (p_conns p0))) tr = true /\
  vnc_encrypt demo_pw demo_chal = Some demo_resp.
Proof.
  cbv zeta. split; [left; reflexivity|]. split; [reflexivity|]. split; [reflexivity|].
  split; [left; reflexivity|]. split; [vm_compute; reflexivity|]. split; vm_compute; reflexivity.
Qed.

(* a process whose application never registers a handler stays in the [bstore] world *)
Definition no_app_op (o : op) : bool := match o with OReg _ | OUnreg _ => false | _ => true end.

Lemma step_bstore : forall cf p o, no_app_op o = true -> bstore (p_hs p) -> bstore (p_hs (step cf p o)).
Proof.
  intros cf p o Hn Hb. destruct o as [s|k|k|b|s rev bytes eof|cj bytes eof]; cbn [step no_app_op] in *;
    try discriminate; try exact Hb.
  - destruct (nth_error (p_screens p) s); [|exact Hb].
    apply (deliver_frame (S (length bytes)) cf
             (mkProc (p_hs p) (p_screens p) (p_conns p ++ [new_conn s rev]) (p_rand p) (p_err p) (p_unmod p))
             (length (p_conns p)) bytes eof Hb).
  - apply (deliver_frame (S (length bytes)) cf p cj bytes eof Hb).
Qed.

Lemma run_bstore : forall cf tr p, forallb no_app_op tr = true -> bstore (p_hs p) -> bstore (p_hs (run cf p tr)).
Proof.
  induction tr as [|o tr IH]; intros p Hf Hb; cbn [run fold_left]; [exact Hb|].
  cbn [forallb] in Hf. apply andb_true_iff in Hf. destruct Hf as [Ho Hf].
  apply IH; [exact Hf|]. apply step_bstore; assumption.
Qed.

(* ---------------------------------------------------------------- view-only passwords *)
Definition matches (cf : cfg) (chal resp pw : list N) : bool := bytes_eqb (encrypt_bytes cf pw chal) resp.

(* check_list returns the index of the FIRST matching password *)
Lemma check_list_first : forall cf pws chal resp i0 i,
  check_list cf pws chal resp i0 = Some i ->
  (i0 <= i)%Z /\
  (exists pw, nth_error pws (Z.to_nat (i - i0)) = Some pw /\ matches cf chal resp pw = true) /\
  (forall j pw, (j < Z.to_nat (i - i0))%nat -> nth_error pws j = Some pw -> matches cf chal resp pw = false).
Proof.
  induction pws as [|p0 rest IH]; intros chal resp i0 i H; cbn [check_list] in H; [discriminate|].
  fold (matches cf chal resp p0) in H. destruct (matches cf chal resp p0) eqn:E.
  - injection H as <-. split; [lia|]. rewrite Z.sub_diag. split.
    + exists p0. split; [reflexivity|exact E].
    + intros j pw Hj. cbn in Hj. lia.
  - destruct (IH _ _ _ _ H) as [Hle [[pw [Hn Hm]] Hfirst]].
    assert (Hz : Z.to_nat (i - i0) = S (Z.to_nat (i - (i0 + 1)))) by lia.
    split; [lia|]. rewrite Hz. split.
    + exists pw. split; [exact Hn|exact Hm].
    + intros j pw' Hj Hnj. destruct j as [|j]; cbn in Hnj.
      * injection Hnj as <-. exact E.
      * eapply Hfirst; [|exact Hnj]. lia.
Qed.

(* C05_viewonly: after a successful list check the session is view-only iff the first matching
   password sits at an index >= authPasswdFirstViewOnly *)
Lemma viewonly_fixed : forall p ci c scr pws fvo r i,
  nth_error (p_conns p) ci = Some c -> nth_error (p_screens p) (c_screen c) = Some scr ->
  s_pw scr = PwList pws fvo -> c_st c = StAuth -> c_vo c = false -> length r = 16%nat ->
  check_list cfg_fixed pws (c_chal c) r 0 = Some i ->
  let p' := step cfg_fixed p (OSend ci r false) in
  exists c', nth_error (p_conns p') ci = Some c' /\ c_st c' = StInit /\ c_vo c' = (fvo <=? i)%Z.
Proof.
  intros p ci c scr pws fvo r i Hn Hs Hpw Hst Hvo Hr Hi. cbv zeta. rewrite step_send.
  assert (Ho : on_message cfg_fixed scr (env_of p) c r =
    (env_of p, set_st (add_out (if (fvo <=? i)%Z then set_vo (set_resp c r) true else set_resp c r) auth_ok) StInit, false)).
  { unfold on_message. rewrite Hst. unfold on_response, password_check. rewrite Hpw. cbn [c_chal set_resp].
    rewrite Hi. reflexivity. }
  rewrite (deliver_one cfg_fixed p ci c scr r _ _ _ Hn Hs (or_intror (or_intror (or_introl Hst)))
             ltac:(rewrite Hst, Hr; reflexivity) Ho).
  eexists. split; [eapply put_conn_nth_self; exact Hn|]. split; [reflexivity|].
  destruct (fvo <=? i)%Z; cbn; [reflexivity|exact Hvo].
Qed.

Example viewonly_nonvacuous :
  map (fun c => (c_st c, c_vo c))
      (p_conns (run cfg_fixed proc_init
         [OScreen (mkScreen (PwList [[120%N]; demo_pw] 1) 4 3 []); ORand demo_chal; OConn 0 false v33 false;
          OSend 0 demo_resp false])) = [(StInit, true)].
Proof. vm_compute. reflexivity. Qed.

(* ---------------------------------------------------------------- message shapes per protocol version *)
(* protocol 3.3 (minor < 7): 4-byte security type, followed by the challenge when it is VncAuth *)
Lemma versions_33 : forall cf scr e c ver mi,
  c_st c = StPV -> parse_version ver = Some (c05_rfbProtocolMajorVersion, mi) -> (mi < 7)%Z ->
  exists e' c', on_message cf scr e c ver = (e', c', false) /\ c_minor c' = mi /\
    (protected scr c = false ->
       c_st c' = StInit /\ c_out c' = c_out c ++ be32 (Z.to_N c05_rfbSecTypeNone)) /\
    (protected scr c = true ->
       c_st c' = StAuth /\ c_sent c' = fst (take_rand (e_rand e) 16) /\
       c_out c' = c_out c ++ be32 (Z.to_N c05_rfbSecTypeVncAuth) ++ fst (take_rand (e_rand e) 16)).
Proof.
  intros cf scr e c ver mi Hst Hv Hmi. unfold on_message. rewrite Hst. unfold on_version. rewrite Hv.
  rewrite Z.eqb_refl. cbn [negb]. unfold auth_new_client. cbn [c_minor set_minor].
  assert (Hlt : (mi <? 7)%Z = true) by (apply Z.ltb_lt; exact Hmi). rewrite Hlt.
  unfold send_type_33. rewrite primary_of_protected.
  assert (Hp : protected scr (set_minor c mi) = protected scr c) by reflexivity. rewrite Hp.
  destruct (protected scr c).
  - change (c05_rfbSecTypeVncAuth =? c05_rfbSecTypeNone)%Z with false. cbv iota.
    unfold send_challenge. change (Z.to_nat c05_CHALLENGESIZE) with 16%nat.
    destruct (take_rand (e_rand e) 16) as [ch rest]. eexists. eexists. split; [reflexivity|].
    split; [reflexivity|]. split; [discriminate|]. intros _. cbn. rewrite <- app_assoc. auto.
  - change (c05_rfbSecTypeNone =? c05_rfbSecTypeNone)%Z with true. cbv iota.
    eexists. eexists. split; [reflexivity|]. split; [reflexivity|]. split; [|discriminate]. intros _. cbn. auto.
Qed.

(* protocol >= 3.7: count + list; without application handlers the list is exactly the type the
   screen requires for this client *)
Lemma versions_37 : forall cf scr e c ver mi,
  c_st c = StPV -> parse_version ver = Some (c05_rfbProtocolMajorVersion, mi) -> (7 <= mi)%Z -> bstore (e_hs e) ->
  exists e' c', on_message cf scr e c ver = (e', c', false) /\ c_minor c' = mi /\ c_st c' = StSec /\
    c_out c' = c_out c ++ [1%N; zbyte (primary_type scr c)].
Proof.
  intros cf scr e c ver mi Hst Hv Hmi Hb. unfold on_message. rewrite Hst. unfold on_version. rewrite Hv.
  rewrite Z.eqb_refl. cbn [negb]. unfold auth_new_client. cbn [c_minor set_minor].
  assert (Hlt : (mi <? 7)%Z = false) by (apply Z.ltb_ge; exact Hmi). rewrite Hlt.
  destruct (send_type_list_bstore cf e (set_minor c mi) _ Hb (primary_is_prim scr (set_minor c mi))) as [st' [_ Heq]].
  rewrite Heq. eexists. eexists. split; [reflexivity|]. repeat split.
Qed.

Lemma password_check_out : forall cf s c r b c1,
  password_check cf s c r = (b, c1) -> c_out c1 = c_out c /\ c_minor c1 = c_minor c.
Proof.
  intros cf s c r b c1 H. unfold password_check in H. destruct (s_pw s) as [|pws fvo|content].
  - injection H as <- <-. auto.
  - destruct (check_list cf pws (c_chal c) r 0); injection H as <- <-; [destruct (fvo <=? z)%Z|]; auto.
  - destruct (decrypt_passwd_file content); injection H as <- <-; auto.
Qed.

Lemma check_list_none : forall cf pws chal resp i0,
  (forall pw, In pw pws -> matches cf chal resp pw = false) -> check_list cf pws chal resp i0 = None.
Proof.
  induction pws as [|p0 rest IH]; intros chal resp i0 H; cbn [check_list]; [reflexivity|].
  fold (matches cf chal resp p0). rewrite (H p0 (or_introl eq_refl)). apply IH. intros pw Hin. apply H. right. exact Hin.
Qed.

Lemma no_match_fixed : forall pw chal r, length chal = 16%nat ->
  vnc_encrypt pw chal <> Some r -> matches cfg_fixed chal r pw = false.
Proof.
  intros pw chal r Hl Hne. unfold matches. destruct (bytes_eqb (encrypt_bytes cfg_fixed pw chal) r) eqn:E; [|reflexivity].
  exfalso. apply Hne. apply bytes_eqb_eq in E. rewrite <- E. apply encrypt_bytes_fixed. exact Hl.
Qed.

(* a response that is not the DES encryption of the challenge under a configured password is
   answered with SecurityResult failed (+ the reason string for minor > 7) and the connection is
   closed - for every response, every password list, every screen kind *)
Lemma versions_failure : forall scr e c r,
  c_st c = StAuth -> length (c_chal c) = 16%nat ->
  (forall pw, In pw (screen_passwords scr) -> vnc_encrypt pw (c_chal c) <> Some r) ->
  exists c', on_message cfg_fixed scr e c r = (e, c', false) /\ c_st c' = StClosed /\
    c_out c' = c_out c ++ auth_failed ++
               (if (7 <? c_minor c)%Z then be32 (N.of_nat (length reason_failed)) ++ reason_failed else []).
Proof.
  intros scr e c r Hst Hl Hno. unfold on_message. rewrite Hst. unfold on_response.
  assert (Hpc : exists c1, password_check cfg_fixed scr (set_resp c r) r = (false, c1)).
  { unfold password_check, screen_passwords in *. destruct (s_pw scr) as [|pws fvo|content].
    - eauto.
    - cbn [c_chal set_resp]. rewrite check_list_none; [eauto|].
      intros pw Hin. apply no_match_fixed; [exact Hl|]. apply Hno. exact Hin.
    - destruct (decrypt_passwd_file content) as [pw|]; [|eauto].
      cbn [c_chal set_resp]. fold (matches cfg_fixed (c_chal c) r pw).
      rewrite (no_match_fixed pw (c_chal c) r Hl (Hno pw (or_introl eq_refl))). eauto. }
  destruct Hpc as [c1 Hpc]. rewrite Hpc. destruct (password_check_out _ _ _ _ _ _ Hpc) as [O1 _]. cbn in O1.
  eexists. split; [reflexivity|]. split; [reflexivity|].
  destruct (7 <? c_minor c)%Z; cbn [c_out set_st add_out]; rewrite O1; [rewrite <- app_assoc|rewrite app_nil_r]; reflexivity.
Qed.

(* type None: SecurityResult OK only for minor > 7 and not the 3.889 client, which instead gets
   ServerInit at once (implicit shared ClientInit) *)
Lemma versions_none : forall scr c,
  let '(c', co) := auth_none scr c in
  c_out c' = c_out c ++
    (if ((7 <? c_minor c)%Z && negb (c_minor c =? 889)%Z)%bool then auth_ok else []) ++
    (if (c_minor c =? 889)%Z then server_init scr else []) /\
  c_st c' = (if (c_minor c =? 889)%Z then StNormal else StInit) /\ co = false.
Proof.
  intros scr c. unfold auth_none, client_init.
  destruct (c_minor c =? 889)%Z eqn:E889; destruct (7 <? c_minor c)%Z; cbn; repeat split;
    rewrite ?app_nil_r, ?andb_false_r; auto.
Qed.

(* ---------------------------------------------------------------- fuel *)
(* [deliver] is called with fuel S (length buf); any larger fuel gives the same result, i.e. the
   fuel-exhaustion branch is never taken *)
Lemma deliver_fuel_indep : forall f1 f2 cf p ci buf eof,
  (length buf < f1)%nat -> (length buf < f2)%nat ->
  deliver f1 cf p ci buf eof = deliver f2 cf p ci buf eof.
Proof.
  induction f1 as [|f1 IH]; intros f2 cf p ci buf eof H1 H2; [lia|].
  destruct f2 as [|f2]; [lia|]. cbn [deliver].
  destruct (nth_error (p_conns p) ci) as [c|]; [|reflexivity].
  assert (Hround : forall st,
    match buf with
    | [] => if eof then put_conn p (env_of p) ci (set_st c StClosed) false else p
    | _ :: _ =>
        if Nat.ltb (length buf) (msg_len st) then put_conn p (env_of p) ci (set_st c StClosed) false
        else match nth_error (p_screens p) (c_screen c) with
             | None => flag_err p
             | Some s =>
                 let (y, co) := on_message cf s (env_of p) c (firstn (msg_len st) buf) in
                 let (e', c') := y in
                 match msg_len st with
                 | O => flag_err p
                 | S _ => deliver f1 cf (put_conn p e' ci c' co) ci (skipn (msg_len st) buf) eof
                 end
             end
    end =
    match buf with
    | [] => if eof then put_conn p (env_of p) ci (set_st c StClosed) false else p
    | _ :: _ =>
        if Nat.ltb (length buf) (msg_len st) then put_conn p (env_of p) ci (set_st c StClosed) false
        else match nth_error (p_screens p) (c_screen c) with
             | None => flag_err p
             | Some s =>
                 let (y, co) := on_message cf s (env_of p) c (firstn (msg_len st) buf) in
                 let (e', c') := y in
                 match msg_len st with
                 | O => flag_err p
                 | S _ => deliver f2 cf (put_conn p e' ci c' co) ci (skipn (msg_len st) buf) eof
                 end
             end
    end).
  { intros st. destruct buf as [|b buf]; [reflexivity|].
    destruct (Nat.ltb (length (b :: buf)) (msg_len st)); [reflexivity|].
    destruct (nth_error (p_screens p) (c_screen c)) as [s|]; [|reflexivity].
    destruct (on_message cf s (env_of p) c (firstn (msg_len st) (b :: buf))) as [[e' c'] co].
    destruct (msg_len st) as [|n]; [reflexivity|].
    assert (Hlen : (length (skipn (S n) (b :: buf)) < length (b :: buf))%nat).
    { rewrite skipn_length. cbn [length]. lia. }
    apply IH; cbn [length] in *; lia. }
  destruct (c_st c); try apply Hround; reflexivity.
Qed.

Lemma deliver_fuel_suffices : forall extra cf p ci buf eof,
  deliver (S (length buf) + extra) cf p ci buf eof = deliver (S (length buf)) cf p ci buf eof.
Proof. intros. apply deliver_fuel_indep; lia. Qed.

(* ---------------------------------------------------------------- completeness, protocol 3.3 *)
Lemma phase_version33 : forall p ci c scr ver mi,
  nth_error (p_conns p) ci = Some c -> nth_error (p_screens p) (c_screen c) = Some scr ->
  c_st c = StPV -> protected scr c = true ->
  length ver = 12%nat -> parse_version ver = Some (c05_rfbProtocolMajorVersion, mi) -> (mi < 7)%Z ->
  let ch := fst (take_rand (p_rand p) 16) in
  let p' := step cfg_fixed p (OSend ci ver false) in
  p_hs p' = p_hs p /\ p_screens p' = p_screens p /\
  nth_error (p_conns p') ci =
    Some (set_st (add_out (set_sent (set_chal (add_out (set_minor c mi) (be32 (Z.to_N c05_rfbSecTypeVncAuth))) ch) ch) ch) StAuth).
Proof.
  intros p ci c scr ver mi Hn Hs Hst Hp Hl Hv Hmi. cbv zeta. rewrite step_send.
  assert (Ho : on_message cfg_fixed scr (env_of p) c ver =
    (mkEnv (p_hs p) (snd (take_rand (p_rand p) 16)) (p_err p),
     set_st (add_out (set_sent (set_chal (add_out (set_minor c mi) (be32 (Z.to_N c05_rfbSecTypeVncAuth)))
                                         (fst (take_rand (p_rand p) 16))) (fst (take_rand (p_rand p) 16)))
                     (fst (take_rand (p_rand p) 16))) StAuth, false)).
  { unfold on_message. rewrite Hst. unfold on_version. rewrite Hv. rewrite Z.eqb_refl. cbn [negb].
    unfold auth_new_client. cbn [c_minor set_minor].
    assert (Hlt : (mi <? 7)%Z = true) by (apply Z.ltb_lt; exact Hmi). rewrite Hlt.
    unfold send_type_33. rewrite primary_of_protected.
    assert (Hp' : protected scr (set_minor c mi) = true) by exact Hp. rewrite Hp'.
    change (c05_rfbSecTypeVncAuth =? c05_rfbSecTypeNone)%Z with false. cbv iota.
    unfold send_challenge, env_of. cbn [e_rand e_hs e_err]. change (Z.to_nat c05_CHALLENGESIZE) with 16%nat.
    destruct (take_rand (p_rand p) 16) as [ch rest]. reflexivity. }
  rewrite (deliver_one cfg_fixed p ci c scr ver _ _ _ Hn Hs (or_introl Hst)
             ltac:(rewrite Hst, Hl; reflexivity) Ho).
  split; [reflexivity|]. split; [reflexivity|]. eapply put_conn_nth_self. exact Hn.
Qed.

Lemma complete_fixed_33 : forall p0 s scr pw ver mi tr2 tr3 b,
  bstore (p_hs p0) -> nth_error (p_screens p0) s = Some scr -> has_password scr = true ->
  In pw (screen_passwords scr) ->
  length ver = 12%nat -> parse_version ver = Some (c05_rfbProtocolMajorVersion, mi) -> (mi < 7)%Z ->
  let ci := length (p_conns p0) in
  forallb (foreign ci) tr2 = true -> forallb (foreign ci) tr3 = true ->
  let ch := fst (take_rand (p_rand p0) 16) in
  let p3 := step cfg_fixed p0 (OConn s false ver false) in
  let p4 := run cfg_fixed p3 tr2 in
  forall r, vnc_encrypt pw ch = Some r ->
  let p5 := step cfg_fixed p4 (OSend ci r false) in
  let p6 := run cfg_fixed p5 tr3 in
  let p7 := step cfg_fixed p6 (OSend ci [b] false) in
  exists c, nth_error (p_conns p7) ci = Some c /\ c_st c = StNormal /\
            c_out c = server_version ++ be32 (Z.to_N c05_rfbSecTypeVncAuth) ++ ch ++ auth_ok ++ server_init scr.
Proof.
  intros p0 s scr pw ver mi tr2 tr3 b Hb Hs Hpw Hin Hl Hv Hmi ci F2 F3 ch p3 p4 r Hr p5 p6 p7.
  set (q := mkProc (p_hs p0) (p_screens p0) (p_conns p0 ++ [new_conn s false]) (p_rand p0) (p_err p0) (p_unmod p0)).
  assert (Hp3 : p3 = step cfg_fixed q (OSend ci ver false)).
  { unfold p3. cbn [step]. rewrite Hs. reflexivity. }
  assert (Hq : nth_error (p_conns q) ci = Some (new_conn s false)).
  { unfold q, ci. cbn [p_conns]. rewrite nth_error_app2 by lia. rewrite Nat.sub_diag. reflexivity. }
  assert (Hprot : protected scr (new_conn s false) = true) by (unfold protected; rewrite Hpw; reflexivity).
  destruct (phase_version33 q ci (new_conn s false) scr ver mi Hq Hs eq_refl Hprot Hl Hv Hmi) as [H3 [S3 C3]].
  rewrite <- Hp3 in H3, S3, C3. change (p_rand q) with (p_rand p0) in C3. fold ch in C3.
  set (c3 := set_st (add_out (set_sent (set_chal (add_out (set_minor (new_conn s false) mi)
                (be32 (Z.to_N c05_rfbSecTypeVncAuth))) ch) ch) ch) StAuth) in *.
  assert (B3 : bstore (p_hs p3)) by (rewrite H3; exact Hb).
  assert (K3 : nth_error (p_screens p3) s = Some scr) by (rewrite S3; exact Hs).
  destruct (run_frame cfg_fixed tr2 p3 ci c3 F2 B3 C3 eq_refl) as [B4 [S4 C4]]. fold p4 in B4, S4, C4.
  assert (K4 : nth_error (p_screens p4) s = Some scr) by (apply S4; exact K3).
  assert (Hch : length ch = 16%nat) by (apply take_rand_length).
  destruct (phase_response p4 ci c3 scr pw r C4 K4 eq_refl Hch Hin Hr) as [H5 [S5 [c5 [C5 [T5 [O5 [Sc5 [R5 _]]]]]]]].
  fold p5 in H5, S5, C5.
  assert (B5 : bstore (p_hs p5)) by (rewrite H5; exact B4).
  assert (K5 : nth_error (p_screens p5) s = Some scr) by (rewrite S5; exact K4).
  assert (N5 : is_normal c5 = false) by (unfold is_normal; rewrite T5; reflexivity).
  destruct (run_frame cfg_fixed tr3 p5 ci c5 F3 B5 C5 N5) as [B6 [S6 C6]]. fold p6 in B6, S6, C6.
  assert (K6 : nth_error (p_screens p6) (c_screen c5) = Some scr) by (rewrite Sc5; apply S6; exact K5).
  destruct (phase_init p6 ci c5 scr b C6 K6 T5) as [c7 [C7 [T7 O7]]]. fold p7 in C7.
  exists c7. split; [exact C7|]. split; [exact T7|].
  rewrite O7, O5. cbn [c3 c_out set_st add_out set_sent set_chal set_minor new_conn].
  repeat rewrite <- app_assoc. reflexivity.
Qed.

(* the availability half of section 7 F1a on the code before fix 1: the type offered to X is refused after a
   connection to another screen; the fixed code honours it *)
Definition f1a_refused_trace : list op :=
  [OScreen demo_screen; OScreen open_screen; ORand demo_chal; OConn 0 false v38 false; OConn 1 false v38 false;
   OSend 0 [2%N] false].
Lemma complete_interleaved_legacy_refuted :
  map c_st (p_conns (run cfg_legacy proc_init f1a_refused_trace)) = [StClosed; StSec] /\
  map c_st (p_conns (run cfg_fixed proc_init f1a_refused_trace)) = [StAuth; StSec].
Proof. vm_compute. split; reflexivity. Qed.

Lemma des_known_answers :
  des_encrypt 0x133457799BBCDFF1 0x0123456789ABCDEF = Some 0x85E813540F0AB405%N /\
  des_encrypt 0x0101010101010101 0x8000000000000000 = Some 0x95F8A5E5DD31D900%N /\
  des_encrypt 0x8001010101010101 0 = Some 0x95A8D72813DAA94D%N /\
  des_encrypt 0x7CA110454A1A6E57 0x01A1D6D039776742 = Some 0x690F5B0D9A26939B%N /\
  des_encrypt 0x0131D9619DC1376E 0x5CD54CA83DEF57DA = Some 0x7A389D10354BD271%N /\
  des_decrypt 0x133457799BBCDFF1 0x85E813540F0AB405 = Some 0x0123456789ABCDEF%N.
Proof. vm_compute. repeat split. Qed.

(* the hypotheses of the C05_versions_* theorems are satisfiable, and the sscanf mirror on a few
   lines: canonical, odd but accepted by sscanf (white space, signs count in the width, negative
   minor), and refused *)
Definition bytes_of_string (l : list nat) : list N := map N.of_nat l.
Example versions_nonvacuous :
  parse_version v33 = Some (3, 3)%Z /\ parse_version v38 = Some (3, 8)%Z /\
  (* "RFB   3.  8\n" *) parse_version (bytes_of_string [82;70;66;32;32;32;51;46;32;32;56;10]) = Some (3, 8)%Z /\
  (* "RFB +03.+08\n" *) parse_version (bytes_of_string [82;70;66;32;43;48;51;46;43;48;56;10]) = Some (3, 8)%Z /\
  (* "RFB 003.-01\n" *) parse_version (bytes_of_string [82;70;66;32;48;48;51;46;45;48;49;10]) = Some (3, -1)%Z /\
  (* "RFB 003.889\n" *) parse_version (bytes_of_string [82;70;66;32;48;48;51;46;56;56;57;10]) = Some (3, 889)%Z /\
  (* "RFB 003x008\n" *) parse_version (bytes_of_string [82;70;66;32;48;48;51;120;48;48;56;10]) = None /\
  (* "RFB 003.\n\n\n\n" *) parse_version (bytes_of_string [82;70;66;32;48;48;51;46;10;10;10;10]) = None /\
  (* "RFB 003.+\n\n\n" *) parse_version (bytes_of_string [82;70;66;32;48;48;51;46;43;10;10;10]) = None.
Proof. vm_compute. repeat split. Qed.

Example versions_failure_nonvacuous :
  let c := mkConn 0 false StAuth 8 demo_chal demo_chal None false [] [] in
  c_st c = StAuth /\ length (c_chal c) = 16%nat /\
  (forall pw, In pw (screen_passwords demo_screen) -> vnc_encrypt pw (c_chal c) <> Some demo_chal).
Proof.
  cbv zeta. split; [reflexivity|]. split; [reflexivity|].
  intros pw [<-|[]]. vm_compute. discriminate.
Qed.
