(* Auth/AuthProofs.v - proofs about the process model Auth/AuthModel.v *)
From Coq Require Import NArith ZArith List Bool Lia PeanoNat.
From LV Require Import Auth.Des Auth.DesProofs Auth.AuthModel Auth.HandlerSweep Gen.Consts_C05.
Import ListNotations.

(* the version-line parser mirrors exactly this format string of rfbproto.h *)
Lemma version_format_tied :
  c05_rfbProtocolVersionFormat = [82; 70; 66; 32; 37; 48; 51; 100; 46; 37; 48; 51; 100; 10]%Z.
Proof. reflexivity. Qed.

(* ---------------------------------------------------------------- lists *)
Lemma nth_error_set_nth_eq : forall A (l : list A) i v, (i < length l)%nat -> nth_error (set_nth l i v) i = Some v.
Proof.
  induction l as [|x t IH]; intros i v Hi; cbn in Hi; [lia|].
  destruct i; cbn; [reflexivity|]. apply IH. lia.
Qed.

Lemma nth_error_set_nth_neq : forall A (l : list A) i j v, i <> j -> nth_error (set_nth l i v) j = nth_error l j.
Proof.
  induction l as [|x t IH]; intros i j v Hij; cbn; [destruct i; reflexivity|].
  destruct i, j; cbn; try reflexivity; try congruence. apply IH. congruence.
Qed.

Lemma set_nth_length : forall A (l : list A) i v, length (set_nth l i v) = length l.
Proof. induction l; intros [|i] v; cbn; auto. Qed.

Lemma Forall_set_nth : forall A (P : A -> Prop) l i v, Forall P l -> P v -> Forall P (set_nth l i v).
Proof.
  induction l as [|x t IH]; intros i v HF Hv; cbn; [destruct i; constructor|].
  inversion HF; subst. destruct i; constructor; auto.
Qed.

Lemma bytes_eqb_eq : forall a b, bytes_eqb a b = true -> a = b.
Proof.
  unfold bytes_eqb. induction a as [|x a IH]; intros [|y b] H; cbn in *; try discriminate; auto.
  apply andb_true_iff in H. destruct H as [Hl H]. apply andb_true_iff in H. destruct H as [Hxy H].
  apply N.eqb_eq in Hxy. subst. f_equal. apply IH. rewrite Hl. exact H.
Qed.

Lemma bytes_eqb_refl : forall a, bytes_eqb a a = true.
Proof.
  unfold bytes_eqb. induction a as [|x a IH]; cbn; auto.
  rewrite Nat.eqb_refl in *. cbn in *. rewrite N.eqb_refl. cbn. exact IH.
Qed.

(* ---------------------------------------------------------------- the fixed code
   Everything in this section is about cfgF single ext = the code with fixes 1 and 2, for either
   variant of rfbUnregisterSecurityHandler ([single]) and arbitrary security types [ext] of the four
   application handler objects. *)
Section Fixed.
Variable single : bool.
Variable ext : list Z.
Variable tight : bool.
Variable chk : list N -> list N -> bool.     (* an arbitrary application passwordCheck callback *)
Notation cfx := (cfgF single ext tight chk) (only parsing).

(* ---------------------------------------------------------------- leaf facts *)
Lemma take_rand_length : forall rand n, length (fst (take_rand rand n)) = n.
Proof.
  intros. unfold take_rand. cbn [fst]. rewrite firstn_length, app_length, repeat_length. lia.
Qed.

Lemma encrypt_bytes_fixed : forall pw chal, length chal = 16%nat ->
  vnc_encrypt pw chal = Some (encrypt_bytes cfx pw chal).
Proof.
  intros pw chal Hl. unfold encrypt_bytes. cbn [cfgF cfg_weak_refused andb].
  destruct (vnc_encrypt_some pw chal Hl) as [r [Hr _]]. rewrite Hr. reflexivity.
Qed.

Lemma check_list_in : forall cf pws chal resp i j,
  check_list cf pws chal resp i = Some j ->
  exists pw, In pw pws /\ bytes_eqb (encrypt_bytes cf pw chal) resp = true.
Proof.
  induction pws as [|pw rest IH]; intros chal resp i j H; cbn in H; [discriminate|].
  destruct (bytes_eqb (encrypt_bytes cf pw chal) resp) eqn:E.
  - exists pw. split; [left; reflexivity|exact E].
  - destruct (IH _ _ _ _ H) as [pw' [Hin Hb]]. exists pw'. split; [right; exact Hin|exact Hb].
Qed.

Lemma primary_of_protected : forall s c,
  primary_type s c = (if protected s c then c05_rfbSecTypeVncAuth else c05_rfbSecTypeNone).
Proof.
  intros. unfold primary_type, protected. destruct (has_password s), (c_rev c); reflexivity.
Qed.

(* the selection made by the FIXED rfbProcessClientSecurityType never runs a built-in handler
   other than the one of the client's own primary type, whatever the global list contains *)
Lemma hs_find_fixed_builtin : forall fuel st cur chosen (prot : bool) sel,
  hs_find fuel (htypes ext) false st cur chosen (if prot then c05_rfbSecTypeVncAuth else c05_rfbSecTypeNone) = Some sel ->
  (sel = HNone -> prot = false) /\ (sel = HAuth -> prot = true).
Proof.
  induction fuel as [|f IH]; intros st cur chosen prot sel H; cbn [hs_find] in H; [discriminate|].
  destruct cur as [c|].
  - destruct (nth_error (htypes ext) c) as [t|] eqn:Et; [|discriminate].
    destruct (nth_error (h_next st) c) as [nx|] eqn:En; [|discriminate].
    match type of H with (if ?b then _ else _) = _ => destruct b eqn:Ec end.
    + injection H as <-.
      apply andb_true_iff in Ec. destruct Ec as [Etc Ec]. apply Z.eqb_eq in Etc. subst chosen.
      destruct c as [|[|c]].
      * compute in Et. inversion Et; subst t. destruct prot; compute in Ec; try discriminate; compute; split; intros; congruence.
      * compute in Et. inversion Et; subst t. destruct prot; compute in Ec; try discriminate; compute; split; intros; congruence.
      * cbn. split; intros; discriminate.
    + eapply IH. exact H.
  - injection H as <-. destruct prot; cbn [negb andb].
    + destruct (Z.eqb chosen c05_rfbSecTypeVncAuth); compute; split; intros; congruence.
    + destruct (Z.eqb chosen c05_rfbSecTypeNone); compute; split; intros; congruence.
Qed.

(* ---------------------------------------------------------------- soundness invariant *)
(* the server holds a challenge and waits for the response (directly or inside the TightVNC handler) *)
Definition awaiting (c : conn) : Prop := c_st c = StAuth \/ c_st c = StTResp.

Definition ok (s : screen) (c : conn) : Prop :=
  (protected s c = true -> granted c = true -> proved c) /\
  (awaiting c -> c_chal c = c_sent c /\ length (c_sent c) = 16%nat).

Definition same (c c' : conn) : Prop := c_screen c' = c_screen c /\ c_rev c' = c_rev c.

Lemma ok_idle : forall s c, granted c = false -> c_st c <> StAuth -> c_st c <> StTResp -> ok s c.
Proof. intros s c Ha Hs Ht. split; [intros; congruence | intros [H|H]; contradiction]. Qed.

Lemma ok_unprotected : forall s c, protected s c = false -> c_st c <> StAuth -> c_st c <> StTResp -> ok s c.
Proof. intros s c Hp Hs Ht. split; [intros; congruence | intros [H|H]; contradiction]. Qed.

Lemma ok_closed : forall s c, ok s (set_st c StClosed).
Proof. intros. apply ok_idle; cbn; congruence. Qed.

Lemma protected_same : forall s c c', same c c' -> protected s c' = protected s c.
Proof. intros s c c' [_ Hr]. unfold protected. rewrite Hr. reflexivity. Qed.

Lemma send_challenge_ok : forall s e c e' c',
  send_challenge e c = (e', c') -> same c c' /\ ok s c' /\ c_st c' = StAuth.
Proof.
  intros s e c e' c' H. unfold send_challenge in H.
  destruct (take_rand (e_rand e) (Z.to_nat c05_CHALLENGESIZE)) as [ch rest] eqn:Et.
  injection H as <- <-. split; [split; reflexivity|]. split; [|reflexivity].
  split; cbn; [discriminate|]. intros _. split; [reflexivity|].
  pose proof (take_rand_length (e_rand e) (Z.to_nat c05_CHALLENGESIZE)) as Hl. rewrite Et in Hl. exact Hl.
Qed.

Lemma client_init_ok : forall s c b c' co,
  client_init s c b = (c', co) -> ok s c -> granted c = true -> same c c' /\ ok s c'.
Proof.
  intros s c b c' co H [Hok _] Ha. unfold client_init in H. injection H as <- <-.
  split; [split; reflexivity|]. split; [|intros [H|H]; discriminate H].
  intros Hp _. destruct (Hok Hp Ha) as [r [H1 H2]]. exists r. cbn. auto.
Qed.

Lemma client_init_unprotected : forall s c b c' co,
  client_init s c b = (c', co) -> protected s c = false -> same c c' /\ ok s c'.
Proof.
  intros s c b c' co H Hp. unfold client_init in H. injection H as <- <-.
  split; [split; reflexivity|]. apply ok_unprotected; cbn; [exact Hp|discriminate|discriminate].
Qed.

Lemma auth_none_ok : forall s c c' co,
  auth_none s c = (c', co) -> protected s c = false -> same c c' /\ ok s c'.
Proof.
  intros s c c' co H Hp. unfold auth_none in H.
  set (c1 := if ((7 <? c_minor c)%Z && negb (c_minor c =? 889)%Z)%bool then say c TokOK auth_ok else c) in *.
  assert (Hs : same c c1) by (unfold c1; destruct ((7 <? c_minor c)%Z && negb (c_minor c =? 889)%Z)%bool; split; reflexivity).
  assert (Hp1 : protected s c1 = false) by (rewrite (protected_same s c c1 Hs); exact Hp).
  destruct (c_minor c =? 889)%Z.
  - destruct (client_init_unprotected s c1 1%N c' co H Hp1) as [[Ha Hb] Hok].
    destruct Hs as [Hs1 Hs2]. split; [split; congruence|exact Hok].
  - injection H as <- <-. split; [destruct Hs; split; cbn; assumption|].
    apply ok_unprotected; [exact Hp1|cbn; discriminate|cbn; discriminate].
Qed.

Lemma send_type_list_ok : forall cf s e c primary e' c',
  send_type_list cf e c primary = (e', c') -> same c c' /\ ok s c'.
Proof.
  intros cf s e c primary e' c' H. unfold send_type_list in H.
  repeat match type of H with
  | (match ?x with _ => _ end) = _ => destruct x
  | (if ?x then _ else _) = _ => destruct x
  end; injection H as <- <-; (split; [split; reflexivity|apply ok_idle; cbn; congruence]).
Qed.

Lemma auth_new_client_ok : forall cf s e c e' c',
  auth_new_client cf s e c = (e', c') -> same c c' /\ ok s c'.
Proof.
  intros cf s e c e' c' H. unfold auth_new_client in H.
  destruct (c_minor c <? 7)%Z.
  - unfold send_type_33 in H. rewrite primary_of_protected in H.
    destruct (protected s c) eqn:Hp.
    + change (c05_rfbSecTypeVncAuth =? c05_rfbSecTypeNone)%Z with false in H.
      destruct (send_challenge_ok s _ _ _ _ H) as [[Ha Hb] [Hok _]]. split; [split; assumption|exact Hok].
    + change (c05_rfbSecTypeNone =? c05_rfbSecTypeNone)%Z with true in H.
      injection H as <- <-. split; [split; reflexivity|]. apply ok_unprotected; [exact Hp|cbn; discriminate|cbn; discriminate].
  - eapply send_type_list_ok. exact H.
Qed.

Lemma on_version_ok : forall cf s e c msg e' c',
  on_version cf s e c msg = (e', c') -> same c c' /\ ok s c'.
Proof.
  intros cf s e c msg e' c' H. unfold on_version in H.
  destruct (parse_version msg) as [[ma mi]|].
  - destruct (negb (ma =? c05_rfbProtocolMajorVersion)%Z).
    + injection H as <- <-. split; [split; reflexivity|apply ok_closed].
    + destruct (auth_new_client_ok _ s _ _ _ _ H) as [[Ha Hb] Hok]. split; [split; assumption|exact Hok].
  - injection H as <- <-. split; [split; reflexivity|apply ok_closed].
Qed.

Lemma tight_start_ok : forall s c, same c (tight_start s c) /\ ok s (tight_start s c).
Proof.
  intros s c. unfold tight_start. fold (protected s c). destruct (protected s c) eqn:Hp.
  - split; [split; reflexivity|]. apply ok_idle; cbn; congruence.
  - split; [destruct (7 <? c_minor c)%Z; split; reflexivity|].
    apply ok_unprotected; [destruct (7 <? c_minor c)%Z; exact Hp|cbn; discriminate|cbn; discriminate].
Qed.

Lemma on_sectype_ok : forall s e c chosen e' c' co,
  on_sectype cfx s e c chosen = (e', c', co) -> same c c' /\ ok s c'.
Proof.
  intros s e c chosen e' c' co H. unfold on_sectype in H. cbn [cfgF cfg_global_check cfg_ext] in H.
  rewrite primary_of_protected in H.
  destruct (hs_find LIST_FUEL (htypes ext) false (e_hs e) (h_head (e_hs e)) (Z.of_N chosen)
              (if protected s c then c05_rfbSecTypeVncAuth else c05_rfbSecTypeNone)) as [sel|] eqn:Ef.
  - destruct (hs_find_fixed_builtin _ _ _ _ _ _ Ef) as [HN HA].
    destruct sel as [| |k|].
    + destruct (send_challenge e c) as [e1 c1] eqn:Es. injection H as <- <- <-.
      destruct (send_challenge_ok s _ _ _ _ Es) as [Hs [Hok _]]. split; assumption.
    + destruct (auth_none s c) as [c1 co1] eqn:Ea. injection H as <- <- <-.
      eapply auth_none_ok; [exact Ea|]. apply HN. reflexivity.
    + destruct (cfg_tight (cfgF single ext tight chk) && Nat.eqb k 2).
      * injection H as <- <- <-. apply tight_start_ok.
      * injection H as <- <- <-. split; [split; reflexivity|apply ok_closed].
    + injection H as <- <- <-. split; [split; reflexivity|apply ok_closed].
  - injection H as <- <- <-. split; [split; reflexivity|apply ok_closed].
Qed.

Lemma on_tight_auth_ok : forall s e c msg e' c',
  on_tight_auth e c msg = (e', c') -> same c c' /\ ok s c'.
Proof.
  intros s e c msg e' c' H. unfold on_tight_auth in H.
  destruct (N.eqb (bytes_to_N msg) (Z.to_N c05_rfbSecTypeVncAuth)).
  - destruct (send_challenge e c) as [e1 c1] eqn:Es. injection H as <- <-.
    destruct (send_challenge_ok s _ _ _ _ Es) as [[S1 S2] [[_ Hok] Hst]].
    split; [split; cbn; assumption|]. split; [cbn; discriminate|].
    intros _. cbn. apply Hok. left. exact Hst.
  - injection H as <- <-. split; [split; reflexivity|apply ok_closed].
Qed.

Lemma password_check_fixed : forall s c resp b c1,
  password_check cfx s c resp = (b, c1) ->
  same c c1 /\ c_resp c1 = c_resp c /\ c_sent c1 = c_sent c /\ c_st c1 = c_st c /\ c_pws c1 = c_pws c /\
  (b = true -> length (c_chal c) = 16%nat ->
   (exists pw, In pw (screen_passwords s) /\ vnc_encrypt pw (c_chal c) = Some resp) \/
   c_judged c1 = Some (c_chal c, resp)).
Proof.
  intros s c resp b c1 H. unfold password_check, screen_passwords in *. cbn [cfgF cfg_enc_fail cfg_check] in H.
  destruct (s_pw s) as [|pws fvo|content|].
  - injection H as <- <-. repeat split; intros; discriminate.
  - destruct (check_list cfx pws (c_chal c) resp 0) as [i|] eqn:Ec.
    + injection H as <- <-.
      assert (Hsame : forall c2, c2 = (if (fvo <=? i)%Z then set_vo c true else c) ->
                same c c2 /\ c_resp c2 = c_resp c /\ c_sent c2 = c_sent c /\ c_st c2 = c_st c /\ c_pws c2 = c_pws c).
      { intros c2 ->. destruct (fvo <=? i)%Z; repeat split. }
      destruct (Hsame _ eq_refl) as [A [B [C [D E]]]]. repeat split; try assumption; try apply A.
      intros _ Hl. left. destruct (check_list_in _ _ _ _ _ _ Ec) as [pw [Hin Hb]].
      exists pw. split; [exact Hin|]. apply bytes_eqb_eq in Hb. rewrite <- Hb. apply encrypt_bytes_fixed. exact Hl.
    + injection H as <- <-. repeat split; intros; discriminate.
  - destruct (decrypt_passwd_file content) as [pw|] eqn:Ed.
    + injection H as <- <-. repeat split.
      intros Hb Hl. left. exists pw. split; [left; reflexivity|].
      apply bytes_eqb_eq in Hb. rewrite <- Hb. apply encrypt_bytes_fixed. exact Hl.
    + injection H as <- <-. repeat split; intros; discriminate.
  - destruct (chk (c_chal c) resp); injection H as <- <-; repeat split; try (intros; discriminate).
    intros _ _. right. reflexivity.
Qed.

Lemma on_response_ok : forall s e c resp e' c',
  on_response cfx s e c resp = (e', c') -> ok s c -> awaiting c -> same c c' /\ ok s c'.
Proof.
  intros s e c resp e' c' H [_ Hauth] Hst. destruct (Hauth Hst) as [Hch Hlen].
  unfold on_response in H.
  destruct (password_check cfx s (set_pws (set_resp c resp) (screen_passwords s)) resp) as [b c1] eqn:Ep.
  destruct (password_check_fixed _ _ _ _ _ Ep) as [[S1 S2] [Hr [Hs [Hst1 [Hpws Hpw]]]]].
  cbn in S1, S2, Hr, Hs, Hst1, Hpws.
  destruct b.
  - injection H as <- <-. split; [split; cbn; assumption|].
    split; [|intros [A|A]; discriminate A]. intros _ _.
    assert (Hl16 : length (c_chal (set_pws (set_resp c resp) (screen_passwords s))) = 16%nat) by (cbn; rewrite Hch; exact Hlen).
    exists resp. cbn. rewrite Hr, Hs, Hpws. split; [reflexivity|].
    destruct (Hpw eq_refl Hl16) as [[pw [Hin Henc]]|Hj].
    + left. exists pw. cbn in Henc. rewrite Hch in Henc. auto.
    + right. cbn in Hj. rewrite Hj, Hch. reflexivity.
  - injection H as <- <-. split.
    + destruct (7 <? c_minor c)%Z; split; cbn; assumption.
    + apply ok_closed.
Qed.

Lemma on_message_ok : forall s e c msg e' c' co,
  on_message cfx s e c msg = (e', c', co) -> ok s c -> same c c' /\ ok s c'.
Proof.
  intros s e c msg e' c' co H Hok. unfold on_message in H.
  destruct (c_st c) eqn:Hst.
  - destruct (on_version cfx s e c msg) as [e1 c1] eqn:E. injection H as <- <- <-. eapply on_version_ok; eauto.
  - destruct msg as [|b msg]; [injection H as <- <- <-; split; [split; reflexivity|exact Hok]|].
    eapply on_sectype_ok; eauto.
  - destruct (on_tight_auth e c msg) as [e1 c1] eqn:E. injection H as <- <- <-. eapply on_tight_auth_ok; eauto.
  - destruct (on_response cfx s e c msg) as [e1 c1] eqn:E. injection H as <- <- <-.
    eapply on_response_ok; eauto. right. exact Hst.
  - destruct (on_response cfx s e c msg) as [e1 c1] eqn:E. injection H as <- <- <-.
    eapply on_response_ok; eauto. left. exact Hst.
  - destruct msg as [|b msg]; [injection H as <- <- <-; split; [split; reflexivity|exact Hok]|].
    destruct (client_init s c b) as [c1 co1] eqn:E. injection H as <- <- <-.
    eapply client_init_ok; eauto. unfold granted. rewrite Hst. reflexivity.
  - injection H as <- <- <-. split; [split; reflexivity|exact Hok].
  - injection H as <- <- <-. split; [split; reflexivity|exact Hok].
Qed.

(* ---------------------------------------------------------------- process level *)
Definition conn_ok (screens : list screen) (c : conn) : Prop :=
  exists s, nth_error screens (c_screen c) = Some s /\ ok s c.

Definition inv (p : proc) : Prop := Forall (conn_ok (p_screens p)) (p_conns p).

Lemma conn_ok_closed : forall scr c, conn_ok scr c -> conn_ok scr (set_st c StClosed).
Proof. intros scr c [s [Hs _]]. exists s. split; [exact Hs|apply ok_closed]. Qed.

Lemma close_others_Forall : forall (P : conn -> Prop) l ci scr,
  (forall c, P c -> P (set_st c StClosed)) -> Forall P l -> Forall P (close_others l ci scr).
Proof.
  intros P l ci scr Hc. unfold close_others. generalize 0%nat.
  induction l as [|c t IH]; intros i HF; cbn [close_others_from]; [constructor|].
  inversion HF; subst. constructor; [|apply IH; assumption].
  destruct (negb (Nat.eqb i ci) && Nat.eqb (c_screen c) scr && is_normal c); auto.
Qed.

Lemma put_conn_inv : forall p e ci c co,
  inv p -> conn_ok (p_screens p) c -> inv (put_conn p e ci c co).
Proof.
  intros p e ci c co Hinv Hc. unfold inv, put_conn. cbn [p_screens p_conns].
  destruct co.
  - apply close_others_Forall; [apply conn_ok_closed|]. apply Forall_set_nth; assumption.
  - apply Forall_set_nth; assumption.
Qed.

Lemma put_conn_screens : forall p e ci c co, p_screens (put_conn p e ci c co) = p_screens p.
Proof. reflexivity. Qed.

Lemma inv_nth : forall p ci c, inv p -> nth_error (p_conns p) ci = Some c -> conn_ok (p_screens p) c.
Proof.
  intros p ci c Hinv Hn. unfold inv in Hinv. rewrite Forall_forall in Hinv. apply Hinv.
  eapply nth_error_In. exact Hn.
Qed.

Lemma deliver_inv : forall fuel p ci buf eof, inv p -> inv (deliver fuel cfx p ci buf eof).
Proof.
  induction fuel as [|f IH]; intros p ci buf eof Hinv; cbn [deliver]; [exact Hinv|].
  destruct (nth_error (p_conns p) ci) as [c|] eqn:Hn; [|exact Hinv].
  pose proof (inv_nth _ _ _ Hinv Hn) as Hc.
  assert (Hclose : inv (put_conn p (env_of p) ci (set_st c StClosed) false))
    by (apply put_conn_inv; [exact Hinv|apply conn_ok_closed; exact Hc]).
  assert (Hround : forall st, c_st c = st ->
    inv (match buf with
         | [] => if eof || blocking st then put_conn p (env_of p) ci (set_st c StClosed) false else p
         | _ :: _ =>
           if Nat.ltb (length buf) (msg_len st) then put_conn p (env_of p) ci (set_st c StClosed) false
           else
             match nth_error (p_screens p) (c_screen c) with
             | None => flag_err p
             | Some s =>
                 let (y, co) := on_message cfx s (env_of p) c (firstn (msg_len st) buf) in
                 let (e', c') := y in
                 match msg_len st with
                 | O => flag_err p
                 | S _ => deliver f cfx (put_conn p e' ci c' co) ci (skipn (msg_len st) buf) eof
                 end
             end
         end)).
  { intros st Hst.
    destruct buf as [|b buf]; [destruct (eof || blocking st); [exact Hclose|exact Hinv]|].
    destruct (Nat.ltb (length (b :: buf)) (msg_len st)); [exact Hclose|].
    destruct Hc as [s [Hs Hok]]. rewrite Hs.
    destruct (on_message cfx s (env_of p) c (firstn (msg_len st) (b :: buf))) as [[e' c'] co] eqn:Eo.
    destruct (on_message_ok _ _ _ _ _ _ _ Eo Hok) as [[Hs1 Hs2] Hok'].
    destruct (msg_len st); [exact Hinv|].
    apply IH. apply put_conn_inv; [exact Hinv|]. exists s. split; [rewrite Hs1; exact Hs|exact Hok']. }
  destruct (c_st c) eqn:Hst.
  - exact (Hround StPV eq_refl).
  - exact (Hround StSec eq_refl).
  - exact (Hround StTAuth eq_refl).
  - exact (Hround StTResp eq_refl).
  - exact (Hround StAuth eq_refl).
  - exact (Hround StInit eq_refl).
  - destruct buf; [|exact Hinv]. destruct eof; [exact Hclose|exact Hinv].
  - exact Hinv.
Qed.

Lemma conn_ok_more_screens : forall scr extra c, conn_ok scr c -> conn_ok (scr ++ extra) c.
Proof.
  intros scr extra c [s [Hs Hok]]. exists s. split; [|exact Hok].
  rewrite nth_error_app1; [exact Hs|]. apply nth_error_Some. congruence.
Qed.

Lemma with_hs_inv : forall p o, inv p -> inv (with_hs p o).
Proof. intros p [st|] H; exact H. Qed.

Lemma step_inv : forall p o, inv p -> inv (step cfx p o).
Proof.
  intros p o Hinv. destruct o as [s|k|k|b|s rev bytes eof|c bytes eof|s content|s lpws lfvo|s|s ubytes]; cbn [step].
  - unfold inv in *. cbn [p_screens p_conns]. eapply Forall_impl; [|exact Hinv].
    intros c Hc. apply conn_ok_more_screens. exact Hc.
  - destruct (is_ext k); [apply with_hs_inv|]; exact Hinv.
  - destruct (is_ext k); [apply with_hs_inv|]; exact Hinv.
  - exact Hinv.
  - destruct (nth_error (p_screens p) s) as [scr|] eqn:Hs; [|exact Hinv].
    apply deliver_inv. unfold inv in *. cbn [p_screens p_conns]. apply Forall_app. split; [exact Hinv|].
    constructor; [|constructor]. exists scr. split; [exact Hs|]. apply ok_idle; cbn; congruence.
  - apply deliver_inv. exact Hinv.
  - destruct (nth_error (p_screens p) s) as [scr|] eqn:Hs; [|exact Hinv].
    destruct (s_pw scr) as [| |old|] eqn:Hpw; try exact Hinv.
    unfold inv in *. cbn [p_screens p_conns]. eapply Forall_impl; [|exact Hinv].
    intros c [s0 [Hs0 Hok]]. destruct (Nat.eq_dec (c_screen c) s) as [E|E].
    + rewrite E in Hs0. rewrite Hs in Hs0. injection Hs0 as <-.
      eexists. split; [rewrite E; apply nth_error_set_nth_eq; apply nth_error_Some; congruence|].
      destruct Hok as [H1 H2]. split; [|exact H2]. intros Hp. apply H1.
      unfold protected, has_password in *. cbn [s_pw] in Hp. rewrite Hpw. exact Hp.
    + exists s0. split; [rewrite nth_error_set_nth_neq by congruence; exact Hs0|exact Hok].
  - destruct (nth_error (p_screens p) s) as [scr|] eqn:Hs; [|exact Hinv].
    destruct (s_pw scr) as [|opws ofvo| |] eqn:Hpw; try exact Hinv.
    unfold inv in *. cbn [p_screens p_conns]. eapply Forall_impl; [|exact Hinv].
    intros c [s0 [Hs0 Hok]]. destruct (Nat.eq_dec (c_screen c) s) as [E|E].
    + rewrite E in Hs0. rewrite Hs in Hs0. injection Hs0 as <-.
      eexists. split; [rewrite E; apply nth_error_set_nth_eq; apply nth_error_Some; congruence|].
      destruct Hok as [H1 H2]. split; [|exact H2]. intros Hp. apply H1.
      unfold protected, has_password in *. cbn [s_pw] in Hp. rewrite Hpw. exact Hp.
    + exists s0. split; [rewrite nth_error_set_nth_neq by congruence; exact Hs0|exact Hok].
  - destruct (nth_error (p_screens p) s); exact Hinv.
  - destruct (nth_error (p_screens p) s) as [scr|]; [|exact Hinv].
    destruct (existsb (Nat.eqb s) (p_udp p) && udp_wellformed ubytes && negb (cfg_udp_gated (cfgF single ext tight chk) && has_password scr)); exact Hinv.
Qed.

Lemma run_inv : forall ops p, inv p -> inv (run cfx p ops).
Proof.
  induction ops as [|o ops IH]; intros p H; cbn; [exact H|]. apply IH. apply step_inv. exact H.
Qed.

Lemma inv_init : inv proc_init.
Proof. constructor. Qed.

(* C05_sound: in every interleaved trace of the process (any screens, any application handlers,
   any connections inbound or reverse, any client bytes, any challenge bytes), with the fixed
   code, a non-reverse connection on a screen with a password that has reached
   RFB_INITIALISATION / RFB_NORMAL has answered the challenge sent to it with its DES encryption
   under one of the configured passwords. *)
Lemma sound_fixed : forall ops c s,
  let p := run cfx proc_init ops in
  In c (p_conns p) -> nth_error (p_screens p) (c_screen c) = Some s ->
  protected s c = true -> granted c = true -> proved c.
Proof.
  intros ops c s p Hin Hs Hp Ha.
  pose proof (run_inv ops proc_init inv_init) as Hinv. fold p in Hinv.
  unfold inv in Hinv. rewrite Forall_forall in Hinv. destruct (Hinv c Hin) as [s' [Hs' [Hok _]]].
  rewrite Hs in Hs'. injection Hs' as <-. apply Hok; assumption.
Qed.

(* ---------------------------------------------------------------- completeness *)
(* what the theorems below require of the application handler types: four objects, none of them
   of a built-in type (an application handler of type 2 ahead of the built-in one would
   legitimately take the client) *)
Definition ext_ok : Prop :=
  length ext = 4%nat /\ Forall (fun t => t <> c05_rfbSecTypeNone /\ t <> c05_rfbSecTypeVncAuth) ext.

Lemma is_prim_primary : forall s c, is_prim (primary_type s c).
Proof. intros. rewrite primary_of_protected. destruct (protected s c); [right|left]; reflexivity. Qed.

(* the list walk of hs_types / hs_find never runs out of fuel once hs_member does not *)
Lemma hs_types_total : forall f tys legacy primary st cur,
  hs_member f st cur 99 = Some false -> length tys = length (h_next st) ->
  forall fuel room, (f <= fuel)%nat -> exists l, hs_types fuel tys legacy primary st cur room = Some l.
Proof.
  induction f as [|f IH]; intros tys legacy primary st cur Hm Hlen fuel room Hf; cbn [hs_member] in Hm; [discriminate|].
  destruct fuel as [|fuel]; [lia|]. cbn [hs_types].
  destruct cur as [c|]; [|eauto].
  destruct (Nat.eqb c 99); [discriminate|].
  destruct (nth_error (h_next st) c) as [nx|] eqn:En; [|discriminate].
  destruct room as [|r]; [eauto|].
  assert (Hc : (c < length tys)%nat) by (rewrite Hlen; apply nth_error_Some; congruence).
  destruct (nth_error tys c) as [t|] eqn:Et; [|apply nth_error_None in Et; lia].
  destruct (negb legacy && is_builtin c && negb (Z.eqb t primary)).
  - apply (IH tys legacy primary st nx Hm Hlen fuel (S r)). lia.
  - destruct (IH tys legacy primary st nx Hm Hlen fuel r ltac:(lia)) as [l ->]. eauto.
Qed.

(* ... and the type of a list member that is the client's own built-in handler is advertised *)
Lemma hs_types_member : forall f tys primary st cur pid,
  hs_member f st cur pid = Some true -> nth_error tys pid = Some primary ->
  forall fuel room l, (f <= room)%nat ->
  hs_types fuel tys false primary st cur room = Some l -> In primary l.
Proof.
  induction f as [|f IH]; intros tys primary st cur pid Hm Hp fuel room l Hr Ht; cbn [hs_member] in Hm; [discriminate|].
  destruct cur as [c|]; [|discriminate].
  destruct fuel as [|fuel]; [discriminate|]. cbn [hs_types] in Ht.
  destruct room as [|r]; [lia|].
  destruct (Nat.eqb c pid) eqn:Ec.
  - apply Nat.eqb_eq in Ec. subst c. rewrite Hp in Ht.
    destruct (nth_error (h_next st) pid) as [nx|]; [|discriminate].
    rewrite Z.eqb_refl in Ht. cbn [negb andb] in Ht. rewrite andb_false_r in Ht.
    destruct (hs_types fuel tys false primary st nx r); [|discriminate]. injection Ht as <-. left. reflexivity.
  - destruct (nth_error (h_next st) c) as [nx|] eqn:En; [|discriminate].
    destruct (nth_error tys c) as [t|]; [|discriminate].
    destruct (negb false && is_builtin c && negb (Z.eqb t primary)).
    + eapply (IH tys primary st nx pid Hm Hp fuel (S r)); [lia|exact Ht].
    + destruct (hs_types fuel tys false primary st nx r) as [l'|] eqn:El; [|discriminate].
      injection Ht as <-. right. eapply (IH tys primary st nx pid Hm Hp fuel r); [lia|exact El].
Qed.

Lemma htypes_builtin : forall primary, is_prim primary -> nth_error (htypes ext) (prim_id primary) = Some primary.
Proof. intros primary [-> | ->]; reflexivity. Qed.

Lemma htypes_ext : forall c t, ext_ok -> nth_error (htypes ext) c = Some t -> is_builtin c = false ->
  t <> c05_rfbSecTypeNone /\ t <> c05_rfbSecTypeVncAuth.
Proof.
  intros c t [_ HF] Hn Hb. destruct c as [|[|c]]; try discriminate Hb.
  cbn in Hn. rewrite Forall_forall in HF. apply HF. eapply nth_error_In. exact Hn.
Qed.

(* the fixed lookup honours the client's own type on every list whose walk terminates: no
   application handler has a built-in type, a built-in handler of the other type is skipped *)
Lemma hs_find_own : forall f st cur primary,
  ext_ok -> is_prim primary -> hs_member f st cur 99 = Some false -> length (h_next st) = NHANDLERS ->
  forall fuel, (f <= fuel)%nat ->
  hs_find fuel (htypes ext) false st cur primary primary = Some (builtin_sel primary).
Proof.
  induction f as [|f IH]; intros st cur primary He Hp Hm Hlen fuel Hf; cbn [hs_member] in Hm; [discriminate|].
  destruct fuel as [|fuel]; [lia|]. cbn [hs_find].
  destruct cur as [c|].
  - destruct (Nat.eqb c 99); [discriminate|].
    destruct (nth_error (h_next st) c) as [nx|] eqn:En; [|discriminate].
    assert (Hc : (c < NHANDLERS)%nat) by (rewrite <- Hlen; apply nth_error_Some; congruence).
    destruct (nth_error (htypes ext) c) as [t|] eqn:Et.
    2:{ apply nth_error_None in Et. destruct He as [He _]. cbn [htypes length] in Et. unfold NHANDLERS in Hc. lia. }
    rewrite Z.eqb_refl. cbn [negb orb]. rewrite orb_true_r, andb_true_r.
    destruct (Z.eqb t primary) eqn:Etp.
    + apply Z.eqb_eq in Etp. subst t. f_equal.
      destruct (is_builtin c) eqn:Eb.
      * destruct c as [|[|c]]; try discriminate Eb; cbn in Et; injection Et as <-; reflexivity.
      * destruct (htypes_ext c primary He Et Eb) as [A B]. destruct Hp; congruence.
    + apply (IH st nx primary He Hp Hm Hlen fuel). lia.
  - rewrite Z.eqb_refl. reflexivity.
Qed.

(* rfbSendSecurityTypeList on an acyclic store: succeeds, leaves an acyclic store and the list sent
   contains the client's own type *)
Lemma send_type_list_acyc : forall e c primary,
  acyc (e_hs e) = true -> is_prim primary -> length ext = 4%nat ->
  exists st' tl, acyc st' = true /\ In primary tl /\
    send_type_list cfx e c primary =
      (mkEnv st' (e_rand e) (e_err e), set_st (add_out c (N.of_nat (length tl) :: map zbyte tl)) StSec).
Proof.
  intros e c primary Ha Hp Hl.
  destruct (acyc_offer single (e_hs e) primary Ha Hp) as [st' [Ho [Ha' Hm]]].
  pose proof (acyc_list_ok st' Ha') as Hok.
  assert (Hlen : length (htypes ext) = length (h_next st')).
  { rewrite (acyc_length st' Ha'). cbn [htypes length]. rewrite Hl. reflexivity. }
  destruct (hs_types_total LIST_FUEL (htypes ext) false primary st' (h_head st') Hok Hlen
              (S (Z.to_nat c05_MAX_SECURITY_TYPES)) (Z.to_nat c05_MAX_SECURITY_TYPES - 1)
              ltac:(vm_compute; lia)) as [tl Htl].
  exists st', tl. split; [exact Ha'|]. split.
  - eapply (hs_types_member LIST_FUEL (htypes ext) primary st' (h_head st') (prim_id primary) Hm
              (htypes_builtin primary Hp)); [|exact Htl]. vm_compute. lia.
  - unfold send_type_list. cbn [cfgF cfg_unreg_single cfg_global_check cfg_ext]. rewrite Ho.
    unfold offer_types. rewrite Htl. reflexivity.
Qed.

Lemma close_others_from_nth : forall l i0 ci scr j,
  nth_error (close_others_from i0 l ci scr) j =
  match nth_error l j with
  | Some c => Some (if negb (Nat.eqb (i0 + j) ci) && Nat.eqb (c_screen c) scr && is_normal c
                    then set_st c StClosed else c)
  | None => None
  end.
Proof.
  induction l as [|c t IH]; intros i0 ci scr j; cbn [close_others_from].
  - destruct j; reflexivity.
  - destruct j as [|j]; cbn [nth_error].
    + rewrite Nat.add_0_r. reflexivity.
    + rewrite IH. replace (S i0 + j)%nat with (i0 + S j)%nat by lia. reflexivity.
Qed.

Lemma put_conn_nth_self : forall p e ci c co c0,
  nth_error (p_conns p) ci = Some c0 -> nth_error (p_conns (put_conn p e ci c co)) ci = Some c.
Proof.
  intros p e ci c co c0 H. unfold put_conn. cbn [p_conns].
  assert (Hl : (ci < length (p_conns p))%nat) by (apply nth_error_Some; congruence).
  destruct co.
  - unfold close_others. rewrite close_others_from_nth. rewrite nth_error_set_nth_eq by exact Hl.
    cbn [Nat.add]. rewrite Nat.eqb_refl. reflexivity.
  - apply nth_error_set_nth_eq. exact Hl.
Qed.

Lemma put_conn_nth_other : forall p e ci c co j cj,
  j <> ci -> nth_error (p_conns p) j = Some cj -> is_normal cj = false ->
  nth_error (p_conns (put_conn p e ci c co)) j = Some cj.
Proof.
  intros p e ci c co j cj Hne H Hn. unfold put_conn. cbn [p_conns].
  destruct co.
  - unfold close_others. rewrite close_others_from_nth. rewrite nth_error_set_nth_neq by congruence.
    rewrite H. rewrite Hn. rewrite andb_false_r. reflexivity.
  - rewrite nth_error_set_nth_neq by congruence. exact H.
Qed.

Lemma deliver_nil : forall f cf p ci c,
  nth_error (p_conns p) ci = Some c -> blocking (c_st c) = false -> deliver (S f) cf p ci [] false = p.
Proof.
  intros f cf p ci c H Hb. cbn [deliver]. rewrite H. destruct (c_st c); try discriminate Hb; reflexivity.
Qed.

Definition handshaking (c : conn) : Prop :=
  c_st c = StPV \/ c_st c = StSec \/ c_st c = StAuth \/ c_st c = StInit.

(* one complete message, delivered alone: exactly one application of the message handler *)
Lemma deliver_one : forall cf p ci c s msg e' c' co,
  nth_error (p_conns p) ci = Some c ->
  nth_error (p_screens p) (c_screen c) = Some s ->
  handshaking c -> length msg = msg_len (c_st c) ->
  on_message cf s (env_of p) c msg = (e', c', co) -> blocking (c_st c') = false ->
  deliver (S (length msg)) cf p ci msg false = put_conn p e' ci c' co.
Proof.
  intros cf p ci c s msg e' c' co Hn Hs Hh Hl Ho Hnb.
  assert (Hpos : exists k, msg_len (c_st c) = S k).
  { destruct Hh as [H|[H|[H|H]]]; rewrite H; vm_compute; eexists; reflexivity. }
  destruct Hpos as [k Hk].
  cbn [deliver]. rewrite Hn.
  destruct msg as [|b msg]; [cbn in Hl; congruence|].
  assert (Hlt : Nat.ltb (length (b :: msg)) (msg_len (c_st c)) = false) by (apply Nat.ltb_ge; lia).
  assert (Hfirst : firstn (msg_len (c_st c)) (b :: msg) = b :: msg) by (rewrite <- Hl; apply firstn_all).
  assert (Hskip : skipn (msg_len (c_st c)) (b :: msg) = []) by (rewrite <- Hl; apply skipn_all).
  assert (Hend : deliver (length (b :: msg)) cf (put_conn p e' ci c' co) ci [] false = put_conn p e' ci c' co).
  { cbn [length]. eapply deliver_nil; [eapply put_conn_nth_self; exact Hn|exact Hnb]. }
  destruct Hh as [H|[H|[H|H]]]; rewrite H in *; rewrite Hlt, Hs, Hfirst, Ho, Hk, <- Hk, Hskip; exact Hend.
Qed.


(* ---- the global list stays acyclic whatever happens (HandlerSweep) *)
Lemma send_challenge_hs : forall e c e' c', send_challenge e c = (e', c') -> e_hs e' = e_hs e.
Proof.
  intros e c e' c' H. unfold send_challenge in H.
  destruct (take_rand (e_rand e) (Z.to_nat c05_CHALLENGESIZE)). injection H as <- <-. reflexivity.
Qed.

Lemma send_type_list_hs_acyc : forall cf e c primary e' c',
  send_type_list cf e c primary = (e', c') -> acyc (e_hs e) = true -> is_prim primary -> acyc (e_hs e') = true.
Proof.
  intros cf e c primary e' c' H Ha Hp. unfold send_type_list in H.
  destruct (acyc_offer (cfg_unreg_single cf) (e_hs e) primary Ha Hp) as [st' [Ho [Ha' _]]]. rewrite Ho in H.
  destruct (offer_types (htypes (cfg_ext cf)) (cfg_global_check cf) primary st'); injection H as <- <-; exact Ha'.
Qed.

Lemma on_message_acyc : forall cf s e c msg e' c' co,
  on_message cf s e c msg = (e', c', co) -> acyc (e_hs e) = true -> acyc (e_hs e') = true.
Proof.
  intros cf s e c msg e' c' co H Hb. unfold on_message in H.
  destruct (c_st c).
  - destruct (on_version cf s e c msg) as [e1 c1] eqn:E. injection H as <- <- <-.
    unfold on_version in E. destruct (parse_version msg) as [[ma mi]|]; [|injection E as <- <-; exact Hb].
    destruct (negb (ma =? c05_rfbProtocolMajorVersion)%Z); [injection E as <- <-; exact Hb|].
    unfold auth_new_client in E. destruct (c_minor (set_minor c mi) <? 7)%Z.
    + unfold send_type_33 in E.
      destruct (primary_type s (set_minor c mi) =? c05_rfbSecTypeNone)%Z; [injection E as <- <-; exact Hb|].
      rewrite (send_challenge_hs _ _ _ _ E). exact Hb.
    + eapply send_type_list_hs_acyc; [exact E|exact Hb|apply is_prim_primary].
  - destruct msg as [|b msg]; [injection H as <- <- <-; exact Hb|].
    unfold on_sectype in H.
    destruct (hs_find LIST_FUEL (htypes (cfg_ext cf)) (cfg_global_check cf) (e_hs e) (h_head (e_hs e)) (Z.of_N b) (primary_type s c)) as [[| |k|]|].
    + destruct (send_challenge e c) as [e1 c1] eqn:E. injection H as <- <- <-.
      rewrite (send_challenge_hs _ _ _ _ E). exact Hb.
    + destruct (auth_none s c). injection H as <- <- <-. exact Hb.
    + destruct (cfg_tight cf && Nat.eqb k 2); injection H as <- <- <-; exact Hb.
    + injection H as <- <- <-. exact Hb.
    + injection H as <- <- <-. exact Hb.
  - destruct (on_tight_auth e c msg) as [e1 c1] eqn:E. injection H as <- <- <-.
    unfold on_tight_auth in E. destruct (N.eqb (bytes_to_N msg) (Z.to_N c05_rfbSecTypeVncAuth)).
    + destruct (send_challenge e c) as [e2 c2] eqn:E2. injection E as <- <-.
      rewrite (send_challenge_hs _ _ _ _ E2). exact Hb.
    + injection E as <- <-. exact Hb.
  - destruct (on_response cf s e c msg) as [e1 c1] eqn:E. injection H as <- <- <-.
    unfold on_response in E.
    destruct (password_check cf s (set_pws (set_resp c msg) (screen_passwords s)) msg) as [[|] c2];
      injection E as <- <-; exact Hb.
  - destruct (on_response cf s e c msg) as [e1 c1] eqn:E. injection H as <- <- <-.
    unfold on_response in E.
    destruct (password_check cf s (set_pws (set_resp c msg) (screen_passwords s)) msg) as [[|] c2];
      injection E as <- <-; exact Hb.
  - destruct msg as [|b msg]; [injection H as <- <- <-; exact Hb|].
    destruct (client_init s c b). injection H as <- <- <-. exact Hb.
  - injection H as <- <- <-. exact Hb.
  - injection H as <- <- <-. exact Hb.
Qed.

(* what a delivery to connection cj leaves untouched *)
Lemma deliver_frame : forall fuel cf p cj buf eof,
  acyc (p_hs p) = true ->
  let p' := deliver fuel cf p cj buf eof in
  acyc (p_hs p') = true /\ p_screens p' = p_screens p /\
  (forall ci c, ci <> cj -> nth_error (p_conns p) ci = Some c -> is_normal c = false ->
                nth_error (p_conns p') ci = Some c).
Proof.
  induction fuel as [|f IH]; intros cf p cj buf eof Hb; cbn [deliver].
  - repeat split; auto.
  - assert (Hsame : acyc (p_hs p) = true /\ p_screens p = p_screens p /\
      (forall ci c, ci <> cj -> nth_error (p_conns p) ci = Some c -> is_normal c = false ->
                    nth_error (p_conns p) ci = Some c)) by (repeat split; auto).
    destruct (nth_error (p_conns p) cj) as [c|] eqn:Hn; [|exact Hsame].
    assert (Hclose : let p' := put_conn p (env_of p) cj (set_st c StClosed) false in
      acyc (p_hs p') = true /\ p_screens p' = p_screens p /\
      (forall ci c0, ci <> cj -> nth_error (p_conns p) ci = Some c0 -> is_normal c0 = false ->
                     nth_error (p_conns p') ci = Some c0)).
    { cbv zeta. split; [exact Hb|]. split; [reflexivity|].
      intros ci c0 Hne H0 Hn0. apply put_conn_nth_other; assumption. }
    assert (Hround : forall st, c_st c = st ->
      let p' := match buf with
         | [] => if eof || blocking st then put_conn p (env_of p) cj (set_st c StClosed) false else p
         | _ :: _ =>
           if Nat.ltb (length buf) (msg_len st) then put_conn p (env_of p) cj (set_st c StClosed) false
           else
             match nth_error (p_screens p) (c_screen c) with
             | None => flag_err p
             | Some s =>
                 let (y, co) := on_message cf s (env_of p) c (firstn (msg_len st) buf) in
                 let (e', c') := y in
                 match msg_len st with
                 | O => flag_err p
                 | S _ => deliver f cf (put_conn p e' cj c' co) cj (skipn (msg_len st) buf) eof
                 end
             end
         end in
      acyc (p_hs p') = true /\ p_screens p' = p_screens p /\
      (forall ci c0, ci <> cj -> nth_error (p_conns p) ci = Some c0 -> is_normal c0 = false ->
                     nth_error (p_conns p') ci = Some c0)).
    { intros st Hst. cbv zeta.
      destruct buf as [|b buf]; [destruct (eof || blocking st); [exact Hclose|exact Hsame]|].
      destruct (Nat.ltb (length (b :: buf)) (msg_len st)); [exact Hclose|].
      destruct (nth_error (p_screens p) (c_screen c)) as [s|]; [|exact Hsame].
      destruct (on_message cf s (env_of p) c (firstn (msg_len st) (b :: buf))) as [[e' c'] co] eqn:Eo.
      destruct (msg_len st); [exact Hsame|].
      pose proof (on_message_acyc _ _ _ _ _ _ _ _ Eo Hb) as Hb'.
      destruct (IH cf (put_conn p e' cj c' co) cj (skipn (S n) (b :: buf)) eof Hb') as [I1 [I2 I3]].
      split; [exact I1|]. split; [rewrite I2; reflexivity|].
      intros ci c0 Hne H0 Hn0. apply I3; [exact Hne| |exact Hn0]. apply put_conn_nth_other; assumption. }
    destruct (c_st c) eqn:Hst.
    + exact (Hround StPV eq_refl).
    + exact (Hround StSec eq_refl).
    + exact (Hround StTAuth eq_refl).
    + exact (Hround StTResp eq_refl).
    + exact (Hround StAuth eq_refl).
    + exact (Hround StInit eq_refl).
    + destruct buf; [|exact Hsame]. destruct eof; [exact Hclose|exact Hsame].
    + exact Hsame.
Qed.

(* operations that are not addressed to connection ci and do not rewrite the password file of its
   screen s: everything else is allowed, in particular application (un)registrations, other
   connections to the same or other screens, reverse connections, new screens, other password files *)
Definition foreign (ci s : nat) (o : op) : bool :=
  match o with
  | OSend c _ _ => negb (Nat.eqb c ci)
  | OSetFile s' _ | OSetList s' _ _ => negb (Nat.eqb s' s)
  | _ => true
  end.

Lemma with_hs_frame : forall p o, (forall st, o = Some st -> acyc st = true) -> acyc (p_hs p) = true ->
  acyc (p_hs (with_hs p o)) = true /\ p_screens (with_hs p o) = p_screens p /\ p_conns (with_hs p o) = p_conns p.
Proof. intros p [st|] H Ha; cbn; auto. Qed.

Lemma step_frame : forall cf p o ci s scr c,
  foreign ci s o = true -> acyc (p_hs p) = true -> nth_error (p_screens p) s = Some scr ->
  nth_error (p_conns p) ci = Some c -> is_normal c = false ->
  let p' := step cf p o in
  acyc (p_hs p') = true /\ nth_error (p_screens p') s = Some scr /\ nth_error (p_conns p') ci = Some c.
Proof.
  intros cf p o ci s scr c Hf Hb Hs Hn Hnn. cbv zeta.
  destruct o as [s0|k|k|b|s0 rev bytes eof|cj bytes eof|s0 content|s0 lpws lfvo|s0|s0 ubytes]; cbn [step foreign] in *.
  - split; [exact Hb|]. split; [|exact Hn]. cbn [p_screens].
    rewrite nth_error_app1; [exact Hs|]. apply nth_error_Some. congruence.
  - destruct (is_ext k) eqn:Ek; [|repeat split; assumption].
    destruct (acyc_register (p_hs p) k Hb Ek) as [st' [-> Ha']]. cbn. repeat split; assumption.
  - destruct (is_ext k) eqn:Ek; [|repeat split; assumption].
    destruct (acyc_unregister (cfg_unreg_single cf) (p_hs p) k Hb Ek) as [st' [-> Ha']]. cbn. repeat split; assumption.
  - repeat split; assumption.
  - destruct (nth_error (p_screens p) s0) as [scr0|]; [|repeat split; assumption].
    set (p1 := mkProc (p_hs p) (p_screens p) (p_conns p ++ [new_conn s0 rev]) (p_rand p) (p_err p) (p_unmod p) (p_udp p) (p_input p)).
    assert (Hlt : (ci < length (p_conns p))%nat) by (apply nth_error_Some; congruence).
    destruct (deliver_frame (S (length bytes)) cf p1 (length (p_conns p)) bytes eof Hb) as [I1 [I2 I3]].
    split; [exact I1|]. split; [rewrite I2; exact Hs|].
    apply I3; [lia| |exact Hnn]. unfold p1. cbn [p_conns]. rewrite nth_error_app1 by exact Hlt. exact Hn.
  - apply negb_true_iff in Hf. apply Nat.eqb_neq in Hf.
    destruct (deliver_frame (S (length bytes)) cf p cj bytes eof Hb) as [I1 [I2 I3]].
    split; [exact I1|]. split; [rewrite I2; exact Hs|].
    apply I3; [congruence|exact Hn|exact Hnn].
  - apply negb_true_iff in Hf. apply Nat.eqb_neq in Hf.
    destruct (nth_error (p_screens p) s0) as [scr0|]; [|repeat split; assumption].
    destruct (s_pw scr0); try (repeat split; assumption).
    cbn [p_hs p_screens p_conns]. split; [exact Hb|]. split; [|exact Hn].
    rewrite nth_error_set_nth_neq by congruence. exact Hs.
  - apply negb_true_iff in Hf. apply Nat.eqb_neq in Hf.
    destruct (nth_error (p_screens p) s0) as [scr0|]; [|repeat split; assumption].
    destruct (s_pw scr0); try (repeat split; assumption).
    cbn [p_hs p_screens p_conns]. split; [exact Hb|]. split; [|exact Hn].
    rewrite nth_error_set_nth_neq by congruence. exact Hs.
  - destruct (nth_error (p_screens p) s0); repeat split; assumption.
  - destruct (nth_error (p_screens p) s0) as [scr0|]; [|repeat split; assumption].
    match goal with |- context [if ?b then _ else _] => destruct b end; repeat split; assumption.
Qed.

Lemma run_frame : forall cf tr p ci s scr c,
  forallb (foreign ci s) tr = true -> acyc (p_hs p) = true -> nth_error (p_screens p) s = Some scr ->
  nth_error (p_conns p) ci = Some c -> is_normal c = false ->
  let p' := run cf p tr in
  acyc (p_hs p') = true /\ nth_error (p_screens p') s = Some scr /\ nth_error (p_conns p') ci = Some c.
Proof.
  induction tr as [|o tr IH]; intros p ci s scr c Hf Hb Hs Hn Hnn; cbn [run fold_left].
  - repeat split; assumption.
  - cbn [forallb] in Hf. apply andb_true_iff in Hf. destruct Hf as [Ho Hf].
    destruct (step_frame cf p o ci s scr c Ho Hb Hs Hn Hnn) as [S1 [S2 S3]].
    exact (IH (step cf p o) ci s scr c Hf S1 S2 S3 Hnn).
Qed.

(* every reachable process has an acyclic handler store: the world of the completeness theorems
   is the world of all traces *)
Lemma step_acyc : forall cf p o, acyc (p_hs p) = true -> acyc (p_hs (step cf p o)) = true.
Proof.
  intros cf p o Hb. destruct o as [s0|k|k|b|s0 rev bytes eof|cj bytes eof|s0 content|s0 lpws lfvo|s0|s0 ubytes]; cbn [step]; try exact Hb.
  - destruct (is_ext k) eqn:Ek; [|exact Hb].
    destruct (acyc_register (p_hs p) k Hb Ek) as [st' [-> Ha']]. exact Ha'.
  - destruct (is_ext k) eqn:Ek; [|exact Hb].
    destruct (acyc_unregister (cfg_unreg_single cf) (p_hs p) k Hb Ek) as [st' [-> Ha']]. exact Ha'.
  - destruct (nth_error (p_screens p) s0); [|exact Hb].
    apply (deliver_frame (S (length bytes)) cf
             (mkProc (p_hs p) (p_screens p) (p_conns p ++ [new_conn s0 rev]) (p_rand p) (p_err p) (p_unmod p) (p_udp p) (p_input p))
             (length (p_conns p)) bytes eof Hb).
  - apply (deliver_frame (S (length bytes)) cf p cj bytes eof Hb).
  - destruct (nth_error (p_screens p) s0) as [scr0|]; [|exact Hb]. destruct (s_pw scr0); exact Hb.
  - destruct (nth_error (p_screens p) s0) as [scr0|]; [|exact Hb]. destruct (s_pw scr0); exact Hb.
  - destruct (nth_error (p_screens p) s0); exact Hb.
  - destruct (nth_error (p_screens p) s0) as [scr0|]; [|exact Hb].
    match goal with |- context [if ?b then _ else _] => destruct b end; exact Hb.
Qed.

Lemma run_acyc : forall cf tr p, acyc (p_hs p) = true -> acyc (p_hs (run cf p tr)) = true.
Proof.
  induction tr as [|o tr IH]; intros p Hb; cbn [run fold_left]; [exact Hb|]. apply IH. apply step_acyc. exact Hb.
Qed.

Lemma check_list_complete : forall cf pws chal resp pw i0,
  In pw pws -> bytes_eqb (encrypt_bytes cf pw chal) resp = true ->
  exists i, check_list cf pws chal resp i0 = Some i.
Proof.
  induction pws as [|p0 rest IH]; intros chal resp pw i0 Hin Hb; [contradiction|].
  cbn [check_list]. destruct (bytes_eqb (encrypt_bytes cf p0 chal) resp) eqn:E; [eauto|].
  destruct Hin as [->|Hin]; [congruence|]. eapply IH; eauto.
Qed.

Lemma step_send : forall cf p ci bytes, step cf p (OSend ci bytes false) = deliver (S (length bytes)) cf p ci bytes false.
Proof. reflexivity. Qed.

Lemma msg_len_values : msg_len StPV = 12%nat /\ msg_len StSec = 1%nat /\ msg_len StAuth = 16%nat /\ msg_len StInit = 1%nat.
Proof. vm_compute. auto. Qed.

(* phase 1 (protocol >= 3.7): the version line is answered with the list [VncAuth] *)
Lemma phase_version : forall p ci c scr ver mi,
  nth_error (p_conns p) ci = Some c -> nth_error (p_screens p) (c_screen c) = Some scr ->
  c_st c = StPV -> protected scr c = true -> acyc (p_hs p) = true -> length ext = 4%nat ->
  length ver = 12%nat -> parse_version ver = Some (c05_rfbProtocolMajorVersion, mi) -> (7 <= mi)%Z ->
  let p' := step cfx p (OSend ci ver false) in
  acyc (p_hs p') = true /\ p_screens p' = p_screens p /\ p_rand p' = p_rand p /\
  exists tl, In c05_rfbSecTypeVncAuth tl /\
  nth_error (p_conns p') ci =
    Some (set_st (add_out (set_minor c mi) (N.of_nat (length tl) :: map zbyte tl)) StSec).
Proof.
  intros p ci c scr ver mi Hn Hs Hst Hp Hb Hext Hl Hv Hmi. cbv zeta. rewrite step_send.
  assert (Hprim : primary_type scr (set_minor c mi) = c05_rfbSecTypeVncAuth).
  { rewrite primary_of_protected. unfold protected in *. cbn [c_rev set_minor]. rewrite Hp. reflexivity. }
  destruct (send_type_list_acyc (env_of p) (set_minor c mi) c05_rfbSecTypeVncAuth Hb (or_intror eq_refl) Hext)
    as [st' [tl [Hb' [Hin Heq]]]].
  assert (Ho : on_message cfx scr (env_of p) c ver =
               (mkEnv st' (p_rand p) (p_err p),
                set_st (add_out (set_minor c mi) (N.of_nat (length tl) :: map zbyte tl)) StSec, false)).
  { unfold on_message. rewrite Hst. unfold on_version. rewrite Hv. rewrite Z.eqb_refl. cbn [negb].
    unfold auth_new_client. cbn [c_minor set_minor].
    assert (Hlt : (mi <? 7)%Z = false) by (apply Z.ltb_ge; exact Hmi). rewrite Hlt.
    rewrite Hprim, Heq. reflexivity. }
  rewrite (deliver_one cfx p ci c scr ver _ _ _ Hn Hs (or_introl Hst)
             ltac:(rewrite Hst, Hl; reflexivity) Ho eq_refl).
  split; [exact Hb'|]. split; [reflexivity|]. split; [reflexivity|].
  exists tl. split; [exact Hin|]. eapply put_conn_nth_self. exact Hn.
Qed.

(* phase 2: choosing the offered type VncAuth is honoured whatever other connections did to the
   global list in the meantime: the challenge is the next 16 random bytes *)
Lemma phase_choice : forall p ci c scr,
  nth_error (p_conns p) ci = Some c -> nth_error (p_screens p) (c_screen c) = Some scr ->
  c_st c = StSec -> protected scr c = true -> acyc (p_hs p) = true -> ext_ok ->
  let ch := fst (take_rand (p_rand p) 16) in
  let p' := step cfx p (OSend ci [zbyte c05_rfbSecTypeVncAuth] false) in
  acyc (p_hs p') = true /\ p_screens p' = p_screens p /\
  nth_error (p_conns p') ci = Some (set_st (add_out (set_sent (set_chal c ch) ch) ch) StAuth).
Proof.
  intros p ci c scr Hn Hs Hst Hp Hb Hext. cbv zeta. rewrite step_send.
  assert (Hprim : primary_type scr c = c05_rfbSecTypeVncAuth) by (rewrite primary_of_protected, Hp; reflexivity).
  assert (Ho : on_message cfx scr (env_of p) c [zbyte c05_rfbSecTypeVncAuth] =
               (mkEnv (p_hs p) (snd (take_rand (p_rand p) 16)) (p_err p),
                set_st (add_out (set_sent (set_chal c (fst (take_rand (p_rand p) 16))) (fst (take_rand (p_rand p) 16)))
                                (fst (take_rand (p_rand p) 16))) StAuth, false)).
  { unfold on_message. rewrite Hst. unfold on_sectype. cbn [cfgF cfg_global_check cfg_ext env_of e_hs].
    rewrite Hprim. change (Z.of_N (zbyte c05_rfbSecTypeVncAuth)) with c05_rfbSecTypeVncAuth.
    rewrite (hs_find_own LIST_FUEL (p_hs p) (h_head (p_hs p)) c05_rfbSecTypeVncAuth Hext (or_intror eq_refl)
               (acyc_list_ok _ Hb) (acyc_length _ Hb) LIST_FUEL (le_n _)).
    change (builtin_sel c05_rfbSecTypeVncAuth) with HAuth. cbv iota.
    unfold send_challenge, env_of. cbn [e_rand e_hs e_err]. change (Z.to_nat c05_CHALLENGESIZE) with 16%nat.
    destruct (take_rand (p_rand p) 16) as [ch rest]. reflexivity. }
  rewrite (deliver_one cfx p ci c scr [zbyte c05_rfbSecTypeVncAuth] _ _ _ Hn Hs (or_intror (or_introl Hst))
             ltac:(rewrite Hst; reflexivity) Ho eq_refl).
  split; [exact Hb|]. split; [reflexivity|]. eapply put_conn_nth_self. exact Hn.
Qed.

(* phase 3: the DES encryption of the challenge under any configured password is accepted *)
Lemma phase_response : forall p ci c scr pw r,
  nth_error (p_conns p) ci = Some c -> nth_error (p_screens p) (c_screen c) = Some scr ->
  c_st c = StAuth -> length (c_chal c) = 16%nat ->
  In pw (screen_passwords scr) -> vnc_encrypt pw (c_chal c) = Some r ->
  let p' := step cfx p (OSend ci r false) in
  p_hs p' = p_hs p /\ p_screens p' = p_screens p /\
  exists c', nth_error (p_conns p') ci = Some c' /\ c_st c' = StInit /\ c_out c' = c_out c ++ auth_ok /\
             c_screen c' = c_screen c /\ c_rev c' = c_rev c /\ c_resp c' = Some r.
Proof.
  intros p ci c scr pw r Hn Hs Hst Hlen Hin Henc. cbv zeta. rewrite step_send.
  assert (Hr16 : length r = 16%nat).
  { destruct (vnc_encrypt_some pw (c_chal c) Hlen) as [r' [E L]]. congruence. }
  assert (Hmatch : bytes_eqb (encrypt_bytes cfx pw (c_chal c)) r = true).
  { pose proof (encrypt_bytes_fixed pw (c_chal c) Hlen) as E. rewrite Henc in E. injection E as <-. apply bytes_eqb_refl. }
  assert (Hpc : exists c1, password_check cfx scr (set_pws (set_resp c r) (screen_passwords scr)) r = (true, c1) /\
                  c_out c1 = c_out c /\ c_screen c1 = c_screen c /\ c_rev c1 = c_rev c /\ c_resp c1 = Some r).
  { unfold password_check, screen_passwords in *. cbn [cfgF cfg_enc_fail cfg_check].
    destruct (s_pw scr) as [|pws fvo|content|]; [| | |contradiction].
    - contradiction.
    - cbn [c_chal set_resp set_pws]. destruct (check_list_complete cfx pws (c_chal c) r pw 0%Z Hin Hmatch) as [i Hi].
      rewrite Hi. eexists. split; [reflexivity|]. destruct (fvo <=? i)%Z; repeat split.
    - destruct (decrypt_passwd_file content) as [pw'|]; [|contradiction].
      destruct Hin as [<-|[]]. cbn [c_chal set_resp set_pws]. rewrite Hmatch. eexists. split; [reflexivity|]. repeat split. }
  destruct Hpc as [c1 [Hpc [O1 [O2 [O3 O4]]]]].
  assert (Ho : on_message cfx scr (env_of p) c r = (env_of p, set_st (say c1 TokOK auth_ok) StInit, false)).
  { unfold on_message. rewrite Hst. unfold on_response. rewrite Hpc. reflexivity. }
  rewrite (deliver_one cfx p ci c scr r _ _ _ Hn Hs (or_intror (or_intror (or_introl Hst)))
             ltac:(rewrite Hst, Hr16; reflexivity) Ho eq_refl).
  split; [reflexivity|]. split; [reflexivity|].
  eexists. split; [eapply put_conn_nth_self; exact Hn|]. cbn. rewrite O1. repeat split; assumption.
Qed.

(* phase 4: ClientInit is answered with ServerInit *)
Lemma phase_init : forall p ci c scr b,
  nth_error (p_conns p) ci = Some c -> nth_error (p_screens p) (c_screen c) = Some scr ->
  c_st c = StInit ->
  let p' := step cfx p (OSend ci [b] false) in
  exists c', nth_error (p_conns p') ci = Some c' /\ c_st c' = StNormal /\
             c_out c' = c_out c ++ server_init scr.
Proof.
  intros p ci c scr b Hn Hs Hst. cbv zeta. rewrite step_send.
  assert (Ho : on_message cfx scr (env_of p) c [b] =
               (env_of p, set_st (say c TokSInit (server_init scr)) StNormal, negb (c_rev c) && N.eqb b 0)).
  { unfold on_message. rewrite Hst. reflexivity. }
  rewrite (deliver_one cfx p ci c scr [b] _ _ _ Hn Hs (or_intror (or_intror (or_intror Hst)))
             ltac:(rewrite Hst; reflexivity) Ho eq_refl).
  eexists. split; [eapply put_conn_nth_self; exact Hn|]. split; reflexivity.
Qed.

(* C05_complete (protocol >= 3.7): a client that connects to a protected screen, chooses VncAuth
   and answers the challenge with its DES encryption under a configured password is told OK and
   is given ServerInit - whatever other connections (to this or other screens, inbound or
   reverse) and new screens do between its messages (tr1, tr2, tr3 arbitrary foreign traces).
   World: any acyclic handler store (every reachable process, [run_acyc]); the application may register
   and unregister its own handlers at any time, provided none has a built-in type ([ext_ok]). *)
Lemma complete_fixed : forall p0 s scr pw ver mi tr1 tr2 tr3 b,
  acyc (p_hs p0) = true -> ext_ok -> nth_error (p_screens p0) s = Some scr -> has_password scr = true ->
  In pw (screen_passwords scr) ->
  length ver = 12%nat -> parse_version ver = Some (c05_rfbProtocolMajorVersion, mi) -> (7 <= mi)%Z ->
  let ci := length (p_conns p0) in
  forallb (foreign ci s) tr1 = true -> forallb (foreign ci s) tr2 = true -> forallb (foreign ci s) tr3 = true ->
  let p1 := step cfx p0 (OConn s false ver false) in
  let p2 := run cfx p1 tr1 in
  let ch := fst (take_rand (p_rand p2) 16) in
  let p3 := step cfx p2 (OSend ci [zbyte c05_rfbSecTypeVncAuth] false) in
  let p4 := run cfx p3 tr2 in
  forall r, vnc_encrypt pw ch = Some r ->
  let p5 := step cfx p4 (OSend ci r false) in
  let p6 := run cfx p5 tr3 in
  let p7 := step cfx p6 (OSend ci [b] false) in
  exists c tl, nth_error (p_conns p7) ci = Some c /\ c_st c = StNormal /\ In c05_rfbSecTypeVncAuth tl /\
            c_out c = server_version ++ (N.of_nat (length tl) :: map zbyte tl) ++ ch ++ auth_ok ++ server_init scr.
Proof.
  intros p0 s scr pw ver mi tr1 tr2 tr3 b Hb Hext Hs Hpw Hin Hl Hv Hmi ci F1 F2 F3 p1 p2 ch p3 p4 r Hr p5 p6 p7.
  (* phase 1 *)
  set (q := mkProc (p_hs p0) (p_screens p0) (p_conns p0 ++ [new_conn s false]) (p_rand p0) (p_err p0) (p_unmod p0) (p_udp p0) (p_input p0)).
  assert (Hp1 : p1 = step cfx q (OSend ci ver false)).
  { unfold p1. cbn [step]. rewrite Hs. reflexivity. }
  assert (Hq : nth_error (p_conns q) ci = Some (new_conn s false)).
  { unfold q, ci. cbn [p_conns]. rewrite nth_error_app2 by lia. rewrite Nat.sub_diag. reflexivity. }
  assert (Hprot : protected scr (new_conn s false) = true) by (unfold protected; rewrite Hpw; reflexivity).
  destruct (phase_version q ci (new_conn s false) scr ver mi Hq Hs eq_refl Hprot Hb (proj1 Hext) Hl Hv Hmi)
    as [B1 [S1 [_ [tl [Htl C1]]]]].
  rewrite <- Hp1 in B1, S1, C1.
  set (c1 := set_st (add_out (set_minor (new_conn s false) mi) (N.of_nat (length tl) :: map zbyte tl)) StSec) in *.
  assert (K1 : nth_error (p_screens p1) s = Some scr) by (rewrite S1; exact Hs).
  (* tr1 *)
  destruct (run_frame cfx tr1 p1 ci s scr c1 F1 B1 K1 C1 eq_refl) as [B2 [K2 C2]]. fold p2 in B2, K2, C2.
  (* phase 2 *)
  destruct (phase_choice p2 ci c1 scr C2 K2 eq_refl Hprot B2 Hext) as [B3 [S3 C3]]. fold ch p3 in B3, S3, C3.
  set (c3 := set_st (add_out (set_sent (set_chal c1 ch) ch) ch) StAuth) in *.
  assert (K3 : nth_error (p_screens p3) s = Some scr) by (rewrite S3; exact K2).
  (* tr2 *)
  destruct (run_frame cfx tr2 p3 ci s scr c3 F2 B3 K3 C3 eq_refl) as [B4 [K4 C4]]. fold p4 in B4, K4, C4.
  (* phase 3 *)
  assert (Hch : length ch = 16%nat) by (apply take_rand_length).
  destruct (phase_response p4 ci c3 scr pw r C4 K4 eq_refl Hch Hin Hr) as [H5 [S5 [c5 [C5 [T5 [O5 [Sc5 [R5 _]]]]]]]].
  fold p5 in H5, S5, C5.
  assert (B5 : acyc (p_hs p5) = true) by (rewrite H5; exact B4).
  assert (K5 : nth_error (p_screens p5) s = Some scr) by (rewrite S5; exact K4).
  (* tr3 *)
  assert (N5 : is_normal c5 = false) by (unfold is_normal; rewrite T5; reflexivity).
  destruct (run_frame cfx tr3 p5 ci s scr c5 F3 B5 K5 C5 N5) as [B6 [K6' C6]]. fold p6 in B6, K6', C6.
  assert (K6 : nth_error (p_screens p6) (c_screen c5) = Some scr) by (rewrite Sc5; exact K6').
  (* phase 4 *)
  destruct (phase_init p6 ci c5 scr b C6 K6 T5) as [c7 [C7 [T7 O7]]]. fold p7 in C7.
  exists c7, tl. split; [exact C7|]. split; [exact T7|]. split; [exact Htl|].
  rewrite O7, O5. cbn [c3 c1 c_out set_st add_out set_sent set_chal set_minor new_conn].
  repeat rewrite <- app_assoc. reflexivity.
Qed.


(* ---------------------------------------------------------------- view-only passwords *)
Definition matches (cf : cfg) (chal resp pw : list N) : bool := bytes_eqb (encrypt_bytes cf pw chal) resp.

(* check_list returns the index of the FIRST matching password *)
Lemma check_list_first : forall cf pws chal resp i0 i,
  check_list cf pws chal resp i0 = Some i ->
  (i0 <= i)%Z /\
  (exists pw, nth_error pws (Z.to_nat (i - i0)) = Some pw /\ matches cf chal resp pw = true) /\
  (forall j pw, (j < Z.to_nat (i - i0))%nat -> nth_error pws j = Some pw -> matches cf chal resp pw = false).
Proof.
  induction pws as [|p0 rest IH]; intros chal resp i0 i H; cbn [check_list] in H; [discriminate|].
  fold (matches cf chal resp p0) in H. destruct (matches cf chal resp p0) eqn:E.
  - injection H as <-. split; [lia|]. rewrite Z.sub_diag. split.
    + exists p0. split; [reflexivity|exact E].
    + intros j pw Hj. cbn in Hj. lia.
  - destruct (IH _ _ _ _ H) as [Hle [[pw [Hn Hm]] Hfirst]].
    assert (Hz : Z.to_nat (i - i0) = S (Z.to_nat (i - (i0 + 1)))) by lia.
    split; [lia|]. rewrite Hz. split.
    + exists pw. split; [exact Hn|exact Hm].
    + intros j pw' Hj Hnj. destruct j as [|j]; cbn in Hnj.
      * injection Hnj as <-. exact E.
      * eapply Hfirst; [|exact Hnj]. lia.
Qed.

(* C05_viewonly: after a successful list check the session is view-only iff the first matching
   password sits at an index >= authPasswdFirstViewOnly *)
Lemma viewonly_fixed : forall p ci c scr pws fvo r i,
  nth_error (p_conns p) ci = Some c -> nth_error (p_screens p) (c_screen c) = Some scr ->
  s_pw scr = PwList pws fvo -> c_st c = StAuth -> c_vo c = false -> length r = 16%nat ->
  check_list cfx pws (c_chal c) r 0 = Some i ->
  let p' := step cfx p (OSend ci r false) in
  exists c', nth_error (p_conns p') ci = Some c' /\ c_st c' = StInit /\ c_vo c' = (fvo <=? i)%Z.
Proof.
  intros p ci c scr pws fvo r i Hn Hs Hpw Hst Hvo Hr Hi. cbv zeta. rewrite step_send.
  assert (Ho : on_message cfx scr (env_of p) c r =
    (env_of p, set_st (say (if (fvo <=? i)%Z then set_vo (set_pws (set_resp c r) (screen_passwords scr)) true
                            else set_pws (set_resp c r) (screen_passwords scr)) TokOK auth_ok) StInit, false)).
  { unfold on_message. rewrite Hst. unfold on_response, password_check. rewrite Hpw. cbn [c_chal set_resp set_pws].
    rewrite Hi. reflexivity. }
  rewrite (deliver_one cfx p ci c scr r _ _ _ Hn Hs (or_intror (or_intror (or_introl Hst)))
             ltac:(rewrite Hst, Hr; reflexivity) Ho eq_refl).
  eexists. split; [eapply put_conn_nth_self; exact Hn|]. split; [reflexivity|].
  destruct (fvo <=? i)%Z; cbn; [reflexivity|exact Hvo].
Qed.

(* ---------------------------------------------------------------- message shapes per protocol version *)
(* protocol 3.3 (minor < 7): 4-byte security type, followed by the challenge when it is VncAuth *)
Lemma versions_33 : forall cf scr e c ver mi,
  c_st c = StPV -> parse_version ver = Some (c05_rfbProtocolMajorVersion, mi) -> (mi < 7)%Z ->
  exists e' c', on_message cf scr e c ver = (e', c', false) /\ c_minor c' = mi /\
    (protected scr c = false ->
       c_st c' = StInit /\ c_out c' = c_out c ++ be32 (Z.to_N c05_rfbSecTypeNone)) /\
    (protected scr c = true ->
       c_st c' = StAuth /\ c_sent c' = fst (take_rand (e_rand e) 16) /\
       c_out c' = c_out c ++ be32 (Z.to_N c05_rfbSecTypeVncAuth) ++ fst (take_rand (e_rand e) 16)).
Proof.
  intros cf scr e c ver mi Hst Hv Hmi. unfold on_message. rewrite Hst. unfold on_version. rewrite Hv.
  rewrite Z.eqb_refl. cbn [negb]. unfold auth_new_client. cbn [c_minor set_minor].
  assert (Hlt : (mi <? 7)%Z = true) by (apply Z.ltb_lt; exact Hmi). rewrite Hlt.
  unfold send_type_33. rewrite primary_of_protected.
  assert (Hp : protected scr (set_minor c mi) = protected scr c) by reflexivity. rewrite Hp.
  destruct (protected scr c).
  - change (c05_rfbSecTypeVncAuth =? c05_rfbSecTypeNone)%Z with false. cbv iota.
    unfold send_challenge. change (Z.to_nat c05_CHALLENGESIZE) with 16%nat.
    destruct (take_rand (e_rand e) 16) as [ch rest]. eexists. eexists. split; [reflexivity|].
    split; [reflexivity|]. split; [discriminate|]. intros _. cbn. rewrite <- app_assoc. auto.
  - change (c05_rfbSecTypeNone =? c05_rfbSecTypeNone)%Z with true. cbv iota.
    eexists. eexists. split; [reflexivity|]. split; [reflexivity|]. split; [|discriminate]. intros _. cbn. auto.
Qed.

(* protocol >= 3.7: count + list; without application handlers the list is exactly the type the
   screen requires for this client *)
Lemma versions_37 : forall scr e c ver mi,
  c_st c = StPV -> parse_version ver = Some (c05_rfbProtocolMajorVersion, mi) -> (7 <= mi)%Z ->
  acyc (e_hs e) = true -> length ext = 4%nat ->
  exists e' c' tl, on_message cfx scr e c ver = (e', c', false) /\ c_minor c' = mi /\ c_st c' = StSec /\
    In (primary_type scr c) tl /\ c_out c' = c_out c ++ N.of_nat (length tl) :: map zbyte tl.
Proof.
  intros scr e c ver mi Hst Hv Hmi Hb Hext. unfold on_message. rewrite Hst. unfold on_version. rewrite Hv.
  rewrite Z.eqb_refl. cbn [negb]. unfold auth_new_client. cbn [c_minor set_minor].
  assert (Hlt : (mi <? 7)%Z = false) by (apply Z.ltb_ge; exact Hmi). rewrite Hlt.
  destruct (send_type_list_acyc e (set_minor c mi) _ Hb (is_prim_primary scr (set_minor c mi)) Hext)
    as [st' [tl [_ [Hin Heq]]]].
  rewrite Heq. eexists. eexists. exists tl. split; [reflexivity|]. repeat split. exact Hin.
Qed.

Lemma password_check_out : forall cf s c r b c1,
  password_check cf s c r = (b, c1) -> c_out c1 = c_out c /\ c_minor c1 = c_minor c.
Proof.
  intros cf s c r b c1 H. unfold password_check in H. destruct (s_pw s) as [|pws fvo|content|]; [| | |destruct (cfg_check cf (c_chal c) r); injection H as <- <-; auto];
  try (destruct (cfg_enc_fail cf); [injection H as <- <-; auto|]).
  - injection H as <- <-. auto.
  - destruct (check_list cf pws (c_chal c) r 0); injection H as <- <-; [destruct (fvo <=? z)%Z|]; auto.
  - destruct (decrypt_passwd_file content); injection H as <- <-; auto.
Qed.

Lemma check_list_none : forall cf pws chal resp i0,
  (forall pw, In pw pws -> matches cf chal resp pw = false) -> check_list cf pws chal resp i0 = None.
Proof.
  induction pws as [|p0 rest IH]; intros chal resp i0 H; cbn [check_list]; [reflexivity|].
  fold (matches cf chal resp p0). rewrite (H p0 (or_introl eq_refl)). apply IH. intros pw Hin. apply H. right. exact Hin.
Qed.

Lemma no_match_fixed : forall pw chal r, length chal = 16%nat ->
  vnc_encrypt pw chal <> Some r -> matches cfx chal r pw = false.
Proof.
  intros pw chal r Hl Hne. unfold matches. destruct (bytes_eqb (encrypt_bytes cfx pw chal) r) eqn:E; [|reflexivity].
  exfalso. apply Hne. apply bytes_eqb_eq in E. rewrite <- E. apply encrypt_bytes_fixed. exact Hl.
Qed.

(* a response that is not the DES encryption of the challenge under a configured password is
   answered with SecurityResult failed (+ the reason string for minor > 7) and the connection is
   closed - for every response, every password list, every screen kind *)
Lemma versions_failure : forall scr e c r,
  c_st c = StAuth -> length (c_chal c) = 16%nat ->
  (forall pw, In pw (screen_passwords scr) -> vnc_encrypt pw (c_chal c) <> Some r) ->
  (s_pw scr = PwCustom -> chk (c_chal c) r = false) ->
  exists c', on_message cfx scr e c r = (e, c', false) /\ c_st c' = StClosed /\
    c_out c' = c_out c ++ auth_failed ++
               (if (7 <? c_minor c)%Z then be32 (N.of_nat (length reason_failed)) ++ reason_failed else []).
Proof.
  intros scr e c r Hst Hl Hno Hcu. unfold on_message. rewrite Hst. unfold on_response.
  assert (Hpc : exists c1, password_check cfx scr (set_pws (set_resp c r) (screen_passwords scr)) r = (false, c1)).
  { unfold password_check, screen_passwords in *. cbn [cfgF cfg_enc_fail cfg_check].
    destruct (s_pw scr) as [|pws fvo|content|]; [| | |cbn [c_chal set_resp set_pws]; rewrite (Hcu eq_refl); eauto].
    - eauto.
    - cbn [c_chal set_resp set_pws]. rewrite check_list_none; [eauto|].
      intros pw Hin. apply no_match_fixed; [exact Hl|]. apply Hno. exact Hin.
    - destruct (decrypt_passwd_file content) as [pw|]; [|eauto].
      cbn [c_chal set_resp set_pws]. fold (matches cfx (c_chal c) r pw).
      rewrite (no_match_fixed pw (c_chal c) r Hl (Hno pw (or_introl eq_refl))). eauto. }
  destruct Hpc as [c1 Hpc]. rewrite Hpc. destruct (password_check_out _ _ _ _ _ _ Hpc) as [O1 _]. cbn in O1.
  eexists. split; [reflexivity|]. split; [reflexivity|].
  destruct (7 <? c_minor c)%Z; cbn [c_out set_st add_out say]; rewrite O1; [rewrite <- app_assoc|rewrite app_nil_r]; reflexivity.
Qed.

(* type None: SecurityResult OK only for minor > 7 and not the 3.889 client, which instead gets
   ServerInit at once (implicit shared ClientInit) *)
Lemma versions_none : forall scr c,
  let '(c', co) := auth_none scr c in
  c_out c' = c_out c ++
    (if ((7 <? c_minor c)%Z && negb (c_minor c =? 889)%Z)%bool then auth_ok else []) ++
    (if (c_minor c =? 889)%Z then server_init scr else []) /\
  c_st c' = (if (c_minor c =? 889)%Z then StNormal else StInit) /\ co = false.
Proof.
  intros scr c. unfold auth_none, client_init.
  destruct (c_minor c =? 889)%Z eqn:E889; destruct (7 <? c_minor c)%Z; cbn; repeat split;
    rewrite ?app_nil_r, ?andb_false_r; auto.
Qed.

(* ---------------------------------------------------------------- completeness, protocol 3.3 *)
Lemma phase_version33 : forall p ci c scr ver mi,
  nth_error (p_conns p) ci = Some c -> nth_error (p_screens p) (c_screen c) = Some scr ->
  c_st c = StPV -> protected scr c = true ->
  length ver = 12%nat -> parse_version ver = Some (c05_rfbProtocolMajorVersion, mi) -> (mi < 7)%Z ->
  let ch := fst (take_rand (p_rand p) 16) in
  let p' := step cfx p (OSend ci ver false) in
  p_hs p' = p_hs p /\ p_screens p' = p_screens p /\
  nth_error (p_conns p') ci =
    Some (set_st (add_out (set_sent (set_chal (add_out (set_minor c mi) (be32 (Z.to_N c05_rfbSecTypeVncAuth))) ch) ch) ch) StAuth).
Proof.
  intros p ci c scr ver mi Hn Hs Hst Hp Hl Hv Hmi. cbv zeta. rewrite step_send.
  assert (Ho : on_message cfx scr (env_of p) c ver =
    (mkEnv (p_hs p) (snd (take_rand (p_rand p) 16)) (p_err p),
     set_st (add_out (set_sent (set_chal (add_out (set_minor c mi) (be32 (Z.to_N c05_rfbSecTypeVncAuth)))
                                         (fst (take_rand (p_rand p) 16))) (fst (take_rand (p_rand p) 16)))
                     (fst (take_rand (p_rand p) 16))) StAuth, false)).
  { unfold on_message. rewrite Hst. unfold on_version. rewrite Hv. rewrite Z.eqb_refl. cbn [negb].
    unfold auth_new_client. cbn [c_minor set_minor].
    assert (Hlt : (mi <? 7)%Z = true) by (apply Z.ltb_lt; exact Hmi). rewrite Hlt.
    unfold send_type_33. rewrite primary_of_protected.
    assert (Hp' : protected scr (set_minor c mi) = true) by exact Hp. rewrite Hp'.
    change (c05_rfbSecTypeVncAuth =? c05_rfbSecTypeNone)%Z with false. cbv iota.
    unfold send_challenge, env_of. cbn [e_rand e_hs e_err]. change (Z.to_nat c05_CHALLENGESIZE) with 16%nat.
    destruct (take_rand (p_rand p) 16) as [ch rest]. reflexivity. }
  rewrite (deliver_one cfx p ci c scr ver _ _ _ Hn Hs (or_introl Hst)
             ltac:(rewrite Hst, Hl; reflexivity) Ho eq_refl).
  split; [reflexivity|]. split; [reflexivity|]. eapply put_conn_nth_self. exact Hn.
Qed.

Lemma complete_fixed_33 : forall p0 s scr pw ver mi tr2 tr3 b,
  acyc (p_hs p0) = true -> nth_error (p_screens p0) s = Some scr -> has_password scr = true ->
  In pw (screen_passwords scr) ->
  length ver = 12%nat -> parse_version ver = Some (c05_rfbProtocolMajorVersion, mi) -> (mi < 7)%Z ->
  let ci := length (p_conns p0) in
  forallb (foreign ci s) tr2 = true -> forallb (foreign ci s) tr3 = true ->
  let ch := fst (take_rand (p_rand p0) 16) in
  let p3 := step cfx p0 (OConn s false ver false) in
  let p4 := run cfx p3 tr2 in
  forall r, vnc_encrypt pw ch = Some r ->
  let p5 := step cfx p4 (OSend ci r false) in
  let p6 := run cfx p5 tr3 in
  let p7 := step cfx p6 (OSend ci [b] false) in
  exists c, nth_error (p_conns p7) ci = Some c /\ c_st c = StNormal /\
            c_out c = server_version ++ be32 (Z.to_N c05_rfbSecTypeVncAuth) ++ ch ++ auth_ok ++ server_init scr.
Proof.
  intros p0 s scr pw ver mi tr2 tr3 b Hb Hs Hpw Hin Hl Hv Hmi ci F2 F3 ch p3 p4 r Hr p5 p6 p7.
  set (q := mkProc (p_hs p0) (p_screens p0) (p_conns p0 ++ [new_conn s false]) (p_rand p0) (p_err p0) (p_unmod p0) (p_udp p0) (p_input p0)).
  assert (Hp3 : p3 = step cfx q (OSend ci ver false)).
  { unfold p3. cbn [step]. rewrite Hs. reflexivity. }
  assert (Hq : nth_error (p_conns q) ci = Some (new_conn s false)).
  { unfold q, ci. cbn [p_conns]. rewrite nth_error_app2 by lia. rewrite Nat.sub_diag. reflexivity. }
  assert (Hprot : protected scr (new_conn s false) = true) by (unfold protected; rewrite Hpw; reflexivity).
  destruct (phase_version33 q ci (new_conn s false) scr ver mi Hq Hs eq_refl Hprot Hl Hv Hmi) as [H3 [S3 C3]].
  rewrite <- Hp3 in H3, S3, C3. change (p_rand q) with (p_rand p0) in C3. fold ch in C3.
  set (c3 := set_st (add_out (set_sent (set_chal (add_out (set_minor (new_conn s false) mi)
                (be32 (Z.to_N c05_rfbSecTypeVncAuth))) ch) ch) ch) StAuth) in *.
  assert (B3 : acyc (p_hs p3) = true) by (rewrite H3; exact Hb).
  assert (K3 : nth_error (p_screens p3) s = Some scr) by (rewrite S3; exact Hs).
  destruct (run_frame cfx tr2 p3 ci s scr c3 F2 B3 K3 C3 eq_refl) as [B4 [K4 C4]]. fold p4 in B4, K4, C4.
  assert (Hch : length ch = 16%nat) by (apply take_rand_length).
  destruct (phase_response p4 ci c3 scr pw r C4 K4 eq_refl Hch Hin Hr) as [H5 [S5 [c5 [C5 [T5 [O5 [Sc5 [R5 _]]]]]]]].
  fold p5 in H5, S5, C5.
  assert (B5 : acyc (p_hs p5) = true) by (rewrite H5; exact B4).
  assert (K5 : nth_error (p_screens p5) s = Some scr) by (rewrite S5; exact K4).
  assert (N5 : is_normal c5 = false) by (unfold is_normal; rewrite T5; reflexivity).
  destruct (run_frame cfx tr3 p5 ci s scr c5 F3 B5 K5 C5 N5) as [B6 [K6' C6]]. fold p6 in B6, K6', C6.
  assert (K6 : nth_error (p_screens p6) (c_screen c5) = Some scr) by (rewrite Sc5; exact K6').
  destruct (phase_init p6 ci c5 scr b C6 K6 T5) as [c7 [C7 [T7 O7]]]. fold p7 in C7.
  exists c7. split; [exact C7|]. split; [exact T7|].
  rewrite O7, O5. cbn [c3 c_out set_st add_out set_sent set_chal set_minor new_conn].
  repeat rewrite <- app_assoc. reflexivity.
Qed.


Lemma password_check_told : forall cf s c r b c1,
  password_check cf s c r = (b, c1) -> c_told c1 = c_told c.
Proof.
  intros cf s c r b c1 H. unfold password_check in H. destruct (s_pw s) as [|pws fvo|content|]; [| | |destruct (cfg_check cf (c_chal c) r); injection H as <- <-; auto];
  try (destruct (cfg_enc_fail cf); [injection H as <- <-; auto|]).
  - injection H as <- <-. reflexivity.
  - destruct (check_list cf pws (c_chal c) r 0); injection H as <- <-; [destruct (fvo <=? z)%Z|]; reflexivity.
  - destruct (decrypt_passwd_file content); injection H as <- <-; reflexivity.
Qed.

(* ---------------------------------------------------------------- wire-level soundness
   [c_told] records, in order, every SecurityResult OK / failed / ServerInit written to the client
   ([say] appends the bytes to c_out and the token to c_told together).  Whoever has been TOLD that
   authentication succeeded, or been GIVEN ServerInit, on a protected screen, has proved the
   password - connections that were closed afterwards included. *)
Definition settled (c : conn) : Prop := c_st c = StInit \/ c_st c = StNormal \/ c_st c = StClosed.

Definition wire (s : screen) (c : conn) : Prop :=
  (told_in c -> settled c) /\ (protected s c = true -> told_in c -> proved c).

Lemma told_in_snoc_fail : forall l, (In TokOK (l ++ [TokFail]) \/ In TokSInit (l ++ [TokFail])) -> (In TokOK l \/ In TokSInit l).
Proof.
  intros l [H|H]; apply in_app_or in H; destruct H as [H|[H|[]]]; try discriminate H; auto.
Qed.

(* what one message does to the told-log: nothing, or a failure, or the client ends up granted *)
Lemma on_message_told : forall s e c msg e' c' co,
  on_message cfx s e c msg = (e', c', co) ->
  c_told c' = c_told c \/ c_told c' = c_told c ++ [TokFail] \/ granted c' = true.
Proof.
  intros s e c msg e' c' co H. unfold on_message in H.
  destruct (c_st c) eqn:Hst.
  - destruct (on_version cfx s e c msg) as [e1 c1] eqn:E. injection H as <- <- <-.
    unfold on_version in E. destruct (parse_version msg) as [[ma mi]|]; [|injection E as <- <-; left; reflexivity].
    destruct (negb (ma =? c05_rfbProtocolMajorVersion)%Z); [injection E as <- <-; left; reflexivity|].
    unfold auth_new_client in E. destruct (c_minor (set_minor c mi) <? 7)%Z.
    + unfold send_type_33 in E.
      destruct (primary_type s (set_minor c mi) =? c05_rfbSecTypeNone)%Z; [injection E as <- <-; left; reflexivity|].
      unfold send_challenge in E. destruct (take_rand (e_rand e) (Z.to_nat c05_CHALLENGESIZE)). injection E as <- <-. left; reflexivity.
    + unfold send_type_list in E.
      destruct (offer_store (cfg_unreg_single cfx) (e_hs e) (primary_type s (set_minor c mi))); [|injection E as <- <-; left; reflexivity].
      destruct (offer_types (htypes (cfg_ext cfx)) (cfg_global_check cfx) (primary_type s (set_minor c mi)) h);
        injection E as <- <-; left; reflexivity.
  - destruct msg as [|b msg]; [injection H as <- <- <-; left; reflexivity|].
    unfold on_sectype in H.
    destruct (hs_find LIST_FUEL (htypes (cfg_ext cfx)) (cfg_global_check cfx) (e_hs e) (h_head (e_hs e)) (Z.of_N b) (primary_type s c)) as [[| |k|]|].
    + unfold send_challenge in H. destruct (take_rand (e_rand e) (Z.to_nat c05_CHALLENGESIZE)). injection H as <- <- <-. left; reflexivity.
    + destruct (auth_none s c) as [c1 co1] eqn:Ea. injection H as <- <- <-. right. right.
      unfold auth_none, client_init in Ea. destruct (c_minor c =? 889)%Z; injection Ea as <- <-; reflexivity.
    + destruct (cfg_tight cfx && Nat.eqb k 2); injection H as <- <- <-; [|left; reflexivity].
      unfold tight_start. destruct (has_password s && negb (c_rev c)); [left; reflexivity|right; right; reflexivity].
    + injection H as <- <- <-. left; reflexivity.
    + injection H as <- <- <-. left; reflexivity.
  - destruct (on_tight_auth e c msg) as [e1 c1] eqn:E. injection H as <- <- <-.
    unfold on_tight_auth in E. destruct (N.eqb (bytes_to_N msg) (Z.to_N c05_rfbSecTypeVncAuth)).
    + unfold send_challenge in E. destruct (take_rand (e_rand e) (Z.to_nat c05_CHALLENGESIZE)). injection E as <- <-. left; reflexivity.
    + injection E as <- <-. left; reflexivity.
  - destruct (on_response cfx s e c msg) as [e1 c1] eqn:E. injection H as <- <- <-.
    unfold on_response in E.
    destruct (password_check cfx s (set_pws (set_resp c msg) (screen_passwords s)) msg) as [b c2] eqn:Ep.
    pose proof (password_check_told _ _ _ _ _ _ Ep) as Ht. cbn in Ht.
    destruct b; injection E as <- <-; [right; right; reflexivity|].
    right. left. destruct (7 <? c_minor c)%Z; cbn; rewrite Ht; reflexivity.
  - destruct (on_response cfx s e c msg) as [e1 c1] eqn:E. injection H as <- <- <-.
    unfold on_response in E.
    destruct (password_check cfx s (set_pws (set_resp c msg) (screen_passwords s)) msg) as [b c2] eqn:Ep.
    pose proof (password_check_told _ _ _ _ _ _ Ep) as Ht. cbn in Ht.
    destruct b; injection E as <- <-; [right; right; reflexivity|].
    right. left. destruct (7 <? c_minor c)%Z; cbn; rewrite Ht; reflexivity.
  - destruct msg as [|b msg]; [injection H as <- <- <-; left; reflexivity|].
    injection H as <- <- <-. right. right. reflexivity.
  - injection H as <- <- <-. left; reflexivity.
  - injection H as <- <- <-. left; reflexivity.
Qed.

Lemma granted_settled : forall c, granted c = true -> settled c.
Proof. intros c H. unfold granted in H. unfold settled. destruct (c_st c); try discriminate; auto. Qed.

Lemma on_message_wire : forall s e c msg e' c' co,
  on_message cfx s e c msg = (e', c', co) -> ok s c -> wire s c -> wire s c'.
Proof.
  intros s e c msg e' c' co H Hok [W1 W2].
  destruct (on_message_ok _ _ _ _ _ _ _ H Hok) as [Hsame [Hok1 _]].
  assert (Hp : protected s c' = protected s c) by (apply protected_same; exact Hsame).
  (* connections that are already settled: only ClientInit does something *)
  assert (Hset : settled c -> wire s c').
  { intros [Hs|[Hs|Hs]]; unfold on_message in H; rewrite Hs in H.
    - destruct msg as [|b msg]; [injection H as <- <- <-; split; assumption|].
      injection H as <- <- <-. split; [intros _; right; left; reflexivity|].
      intros Hpr _. assert (G : granted c = true) by (unfold granted; rewrite Hs; reflexivity).
      destruct Hok as [Hg _]. destruct (Hg Hpr G) as [r [A B]]. exists r. cbn. auto.
    - injection H as <- <- <-. split; assumption.
    - injection H as <- <- <-. split; assumption. }
  destruct (on_message_told _ _ _ _ _ _ _ H) as [Ht|[Ht|Hg]].
  - (* told-log unchanged *)
    assert (Hti : told_in c' <-> told_in c) by (unfold told_in; rewrite Ht; tauto).
    split.
    + intros T. apply Hti in T. exact (match Hset (W1 T) with conj a _ => a (proj2 Hti T) end).
    + intros Hpr T. apply Hti in T. destruct (Hset (W1 T)) as [_ b]. apply b; [exact Hpr|apply Hti; exact T].
  - assert (Hti : told_in c' -> told_in c) by (unfold told_in; rewrite Ht; apply told_in_snoc_fail).
    split.
    + intros T. pose proof (Hti T) as T0. destruct (Hset (W1 T0)) as [a _]. exact (a T).
    + intros Hpr T. pose proof (Hti T) as T0. destruct (Hset (W1 T0)) as [_ b]. exact (b Hpr T).
  - split; [intros _; apply granted_settled; exact Hg|].
    intros Hpr _. apply Hok1; assumption.
Qed.

Lemma wire_closed : forall s c, wire s c -> wire s (set_st c StClosed).
Proof.
  intros s c [W1 W2]. split; [intros _; right; right; reflexivity|].
  intros Hp T. destruct (W2 Hp T) as [r [A B]]. exists r. cbn. auto.
Qed.

Definition conn_okw (screens : list screen) (c : conn) : Prop :=
  exists s, nth_error screens (c_screen c) = Some s /\ ok s c /\ wire s c.
Definition invw (p : proc) : Prop := Forall (conn_okw (p_screens p)) (p_conns p).

Lemma conn_okw_closed : forall scr c, conn_okw scr c -> conn_okw scr (set_st c StClosed).
Proof. intros scr c [s [Hs [_ Hw]]]. exists s. split; [exact Hs|]. split; [apply ok_closed|apply wire_closed; exact Hw]. Qed.

Lemma put_conn_invw : forall p e ci c co, invw p -> conn_okw (p_screens p) c -> invw (put_conn p e ci c co).
Proof.
  intros p e ci c co Hinv Hc. unfold invw, put_conn. cbn [p_screens p_conns].
  destruct co.
  - apply close_others_Forall; [apply conn_okw_closed|]. apply Forall_set_nth; assumption.
  - apply Forall_set_nth; assumption.
Qed.

Lemma deliver_invw : forall fuel p ci buf eof, invw p -> invw (deliver fuel cfx p ci buf eof).
Proof.
  induction fuel as [|f IH]; intros p ci buf eof Hinv; cbn [deliver]; [exact Hinv|].
  destruct (nth_error (p_conns p) ci) as [c|] eqn:Hn; [|exact Hinv].
  assert (Hc : conn_okw (p_screens p) c).
  { unfold invw in Hinv. rewrite Forall_forall in Hinv. apply Hinv. eapply nth_error_In. exact Hn. }
  assert (Hclose : invw (put_conn p (env_of p) ci (set_st c StClosed) false))
    by (apply put_conn_invw; [exact Hinv|apply conn_okw_closed; exact Hc]).
  assert (Hround : forall st, c_st c = st ->
    invw (match buf with
         | [] => if eof || blocking st then put_conn p (env_of p) ci (set_st c StClosed) false else p
         | _ :: _ =>
           if Nat.ltb (length buf) (msg_len st) then put_conn p (env_of p) ci (set_st c StClosed) false
           else
             match nth_error (p_screens p) (c_screen c) with
             | None => flag_err p
             | Some s =>
                 let (y, co) := on_message cfx s (env_of p) c (firstn (msg_len st) buf) in
                 let (e', c') := y in
                 match msg_len st with
                 | O => flag_err p
                 | S _ => deliver f cfx (put_conn p e' ci c' co) ci (skipn (msg_len st) buf) eof
                 end
             end
         end)).
  { intros st Hst.
    destruct buf as [|b buf]; [destruct (eof || blocking st); [exact Hclose|exact Hinv]|].
    destruct (Nat.ltb (length (b :: buf)) (msg_len st)); [exact Hclose|].
    destruct Hc as [s [Hs [Hok Hw]]]. rewrite Hs.
    destruct (on_message cfx s (env_of p) c (firstn (msg_len st) (b :: buf))) as [[e' c'] co] eqn:Eo.
    destruct (on_message_ok _ _ _ _ _ _ _ Eo Hok) as [[Hs1 Hs2] Hok'].
    pose proof (on_message_wire _ _ _ _ _ _ _ Eo Hok Hw) as Hw'.
    destruct (msg_len st); [exact Hinv|].
    apply IH. apply put_conn_invw; [exact Hinv|]. exists s. split; [rewrite Hs1; exact Hs|]. split; assumption. }
  destruct (c_st c) eqn:Hst.
  - exact (Hround StPV eq_refl).
  - exact (Hround StSec eq_refl).
  - exact (Hround StTAuth eq_refl).
  - exact (Hround StTResp eq_refl).
  - exact (Hround StAuth eq_refl).
  - exact (Hround StInit eq_refl).
  - destruct buf; [|exact Hinv]. destruct eof; [exact Hclose|exact Hinv].
  - exact Hinv.
Qed.

Lemma step_invw : forall p o, invw p -> invw (step cfx p o).
Proof.
  intros p o Hinv. destruct o as [s|k|k|b|s rev bytes eof|c bytes eof|s content|s lpws lfvo|s|s ubytes]; cbn [step].
  - unfold invw in *. cbn [p_screens p_conns]. eapply Forall_impl; [|exact Hinv].
    intros c [s0 [Hs Hr]]. exists s0. split; [|exact Hr].
    rewrite nth_error_app1; [exact Hs|]. apply nth_error_Some. congruence.
  - destruct (is_ext k); [destruct (hs_register REC_FUEL (p_hs p) (Some k))|]; exact Hinv.
  - destruct (is_ext k); [destruct (hs_unregister REC_FUEL _ (p_hs p) (Some k))|]; exact Hinv.
  - exact Hinv.
  - destruct (nth_error (p_screens p) s) as [scr|] eqn:Hs; [|exact Hinv].
    apply deliver_invw. unfold invw in *. cbn [p_screens p_conns]. apply Forall_app. split; [exact Hinv|].
    constructor; [|constructor]. exists scr. split; [exact Hs|]. split; [apply ok_idle; cbn; congruence|].
    split; [intros [[]|[]]|intros _ [[]|[]]].
  - apply deliver_invw. exact Hinv.
  - destruct (nth_error (p_screens p) s) as [scr|] eqn:Hs; [|exact Hinv].
    destruct (s_pw scr) as [| |old|] eqn:Hpw; try exact Hinv.
    unfold invw in *. cbn [p_screens p_conns]. eapply Forall_impl; [|exact Hinv].
    intros c [s0 [Hs0 [Hok Hw]]]. destruct (Nat.eq_dec (c_screen c) s) as [E|E].
    + rewrite E in Hs0. rewrite Hs in Hs0. injection Hs0 as <-.
      eexists. split; [rewrite E; apply nth_error_set_nth_eq; apply nth_error_Some; congruence|].
      assert (Hp : forall x, protected (mkScreen (PwFile content) (s_w scr) (s_h scr) (s_name scr)) x = protected scr x).
      { intros x. unfold protected, has_password. cbn [s_pw]. rewrite Hpw. reflexivity. }
      split.
      * destruct Hok as [H1 H2]. split; [|exact H2]. intros Hpr. apply H1. rewrite <- Hp. exact Hpr.
      * destruct Hw as [W1 W2]. split; [exact W1|]. intros Hpr. apply W2. rewrite <- Hp. exact Hpr.
    + exists s0. split; [rewrite nth_error_set_nth_neq by congruence; exact Hs0|]. split; assumption.
  - destruct (nth_error (p_screens p) s) as [scr|] eqn:Hs; [|exact Hinv].
    destruct (s_pw scr) as [|opws ofvo| |] eqn:Hpw; try exact Hinv.
    unfold invw in *. cbn [p_screens p_conns]. eapply Forall_impl; [|exact Hinv].
    intros c [s0 [Hs0 [Hok Hw]]]. destruct (Nat.eq_dec (c_screen c) s) as [E|E].
    + rewrite E in Hs0. rewrite Hs in Hs0. injection Hs0 as <-.
      eexists. split; [rewrite E; apply nth_error_set_nth_eq; apply nth_error_Some; congruence|].
      assert (Hp : forall x, protected (mkScreen (PwList lpws lfvo) (s_w scr) (s_h scr) (s_name scr)) x = protected scr x).
      { intros x. unfold protected, has_password. cbn [s_pw]. rewrite Hpw. reflexivity. }
      split.
      * destruct Hok as [H1 H2]. split; [|exact H2]. intros Hpr. apply H1. rewrite <- Hp. exact Hpr.
      * destruct Hw as [W1 W2]. split; [exact W1|]. intros Hpr. apply W2. rewrite <- Hp. exact Hpr.
    + exists s0. split; [rewrite nth_error_set_nth_neq by congruence; exact Hs0|]. split; assumption.
  - destruct (nth_error (p_screens p) s); exact Hinv.
  - destruct (nth_error (p_screens p) s) as [scr|]; [|exact Hinv].
    match goal with |- context [if ?b then _ else _] => destruct b end; exact Hinv.
Qed.

Lemma sound_wire_fixed : forall ops c s,
  let p := run cfx proc_init ops in
  In c (p_conns p) -> nth_error (p_screens p) (c_screen c) = Some s ->
  protected s c = true -> told_in c -> proved c.
Proof.
  intros ops c s p Hin Hs Hp Ht.
  assert (H : invw p).
  { unfold p, run. assert (G : forall l q, invw q -> invw (fold_left (step cfx) l q)).
    { induction l as [|o l IH]; intros q Hq; cbn; [exact Hq|]. apply IH. apply step_invw. exact Hq. }
    apply G. constructor. }
  unfold invw in H. rewrite Forall_forall in H. destruct (H c Hin) as [s' [Hs' [_ [_ W2]]]].
  rewrite Hs in Hs'. injection Hs' as <-. apply W2; assumption.
Qed.

(* the told-log and the wire are written together *)
Lemma say_coupled : forall c t b, c_out (say c t b) = c_out c ++ b /\ c_told (say c t b) = c_told c ++ [t].
Proof. intros. split; reflexivity. Qed.

(* ---------------------------------------------------------------- TightVNC nested negotiation: completeness *)
Lemma deliver_cons : forall f cf p ci c s buf eof e' c' co,
  nth_error (p_conns p) ci = Some c -> nth_error (p_screens p) (c_screen c) = Some s ->
  c_st c <> StNormal -> c_st c <> StClosed -> (exists k, msg_len (c_st c) = S k) ->
  (msg_len (c_st c) <= length buf)%nat ->
  on_message cf s (env_of p) c (firstn (msg_len (c_st c)) buf) = (e', c', co) ->
  deliver (S f) cf p ci buf eof = deliver f cf (put_conn p e' ci c' co) ci (skipn (msg_len (c_st c)) buf) eof.
Proof.
  intros f cf p ci c s buf eof e' c' co Hn Hs Hnn Hnc [k Hk] Hl Ho. cbn [deliver]. rewrite Hn.
  destruct buf as [|b buf]; [rewrite Hk in Hl; cbn in Hl; lia|].
  assert (Hlt : Nat.ltb (length (b :: buf)) (msg_len (c_st c)) = false) by (apply Nat.ltb_ge; exact Hl).
  destruct (c_st c) eqn:Hst; try contradiction; rewrite Hlt, Hs, Ho, Hk; reflexivity.
Qed.

(* On a protected screen with the library's TightVNC handler registered (the lookup of type 16 finds
   it), for EVERY configured password, challenge, protocol minor version and process state: a client
   that sends type 16, authentication type VNC and the DES response in one write is told OK. *)
Lemma tight_complete : forall p ci c scr pw r,
  tight = true ->
  nth_error (p_conns p) ci = Some c -> nth_error (p_screens p) (c_screen c) = Some scr ->
  c_st c = StSec -> protected scr c = true ->
  hs_find LIST_FUEL (htypes ext) false (p_hs p) (h_head (p_hs p)) 16 (primary_type scr c) = Some (HExt 2) ->
  In pw (screen_passwords scr) ->
  let ch := fst (take_rand (p_rand p) 16) in
  vnc_encrypt pw ch = Some r ->
  let p' := step cfx p (OSend ci ([16%N] ++ be32 (Z.to_N c05_rfbSecTypeVncAuth) ++ r) false) in
  exists c', nth_error (p_conns p') ci = Some c' /\ c_st c' = StInit /\ told_in c' /\ c_resp c' = Some r /\
             c_out c' = c_out c ++ be32 0 ++ (be32 1 ++ tight_vnc_cap) ++ ch ++ auth_ok.
Proof.
  intros p ci c scr pw r Ht Hn Hs Hst Hp Hfind Hin ch Hr. cbv zeta. rewrite step_send.
  assert (Hch : length ch = 16%nat) by (apply take_rand_length).
  assert (Hr16 : length r = 16%nat).
  { destruct (vnc_encrypt_some pw ch Hch) as [r' [E L]]. congruence. }
  set (buf := [16%N] ++ be32 (Z.to_N c05_rfbSecTypeVncAuth) ++ r).
  assert (Hlen : length buf = 21%nat) by (unfold buf; rewrite !app_length, Hr16; reflexivity).
  rewrite Hlen.
  (* 1. the type byte *)
  set (c1 := set_st (add_out (add_out c (be32 0)) (be32 1 ++ tight_vnc_cap)) StTAuth).
  assert (Ho1 : on_message cfx scr (env_of p) c (firstn (msg_len (c_st c)) buf) = (env_of p, c1, false)).
  { rewrite Hst. unfold on_message. rewrite Hst. cbn [msg_len firstn buf app].
    unfold on_sectype. cbn [cfgF cfg_global_check cfg_ext cfg_tight env_of e_hs]. change (Z.of_N 16) with 16%Z.
    rewrite Hfind, Ht. cbn [andb Nat.eqb]. unfold tight_start. fold (protected scr c). rewrite Hp. reflexivity. }
  rewrite (deliver_cons 21 cfx p ci c scr buf false _ _ _ Hn Hs ltac:(rewrite Hst; discriminate) ltac:(rewrite Hst; discriminate)
             ltac:(rewrite Hst; vm_compute; eexists; reflexivity) ltac:(rewrite Hst, Hlen; vm_compute; lia) Ho1).
  rewrite Hst. change (skipn (msg_len StSec) buf) with (be32 (Z.to_N c05_rfbSecTypeVncAuth) ++ r).
  (* 2. the authentication type *)
  set (p1 := put_conn p (env_of p) ci c1 false).
  assert (Hn1 : nth_error (p_conns p1) ci = Some c1) by (eapply put_conn_nth_self; exact Hn).
  assert (Hs1 : nth_error (p_screens p1) (c_screen c1) = Some scr) by exact Hs.
  set (c2 := set_st (set_st (add_out (set_sent (set_chal c1 ch) ch) ch) StAuth) StTResp).
  assert (Ho2 : on_message cfx scr (env_of p1) c1 (firstn (msg_len (c_st c1)) (be32 (Z.to_N c05_rfbSecTypeVncAuth) ++ r)) =
                (mkEnv (p_hs p) (snd (take_rand (p_rand p) 16)) (p_err p), c2, false)).
  { cbn [c_st c1 set_st msg_len]. change (firstn 4 (be32 (Z.to_N c05_rfbSecTypeVncAuth) ++ r)) with (be32 (Z.to_N c05_rfbSecTypeVncAuth)).
    unfold on_message. cbn [c_st c1 set_st]. unfold on_tight_auth.
    change (N.eqb (bytes_to_N (be32 (Z.to_N c05_rfbSecTypeVncAuth))) (Z.to_N c05_rfbSecTypeVncAuth)) with true. cbv iota.
    unfold send_challenge, p1, env_of. cbn [e_rand e_hs e_err put_conn p_rand p_hs p_err].
    change (Z.to_nat c05_CHALLENGESIZE) with 16%nat. unfold c2, ch.
    destruct (take_rand (p_rand p) 16) as [ch0 rest]. reflexivity. }
  rewrite (deliver_cons 20 cfx p1 ci c1 scr (be32 (Z.to_N c05_rfbSecTypeVncAuth) ++ r) false _ _ _ Hn1 Hs1 ltac:(discriminate) ltac:(discriminate)
             ltac:(vm_compute; eexists; reflexivity) ltac:(cbn [c_st c1 set_st msg_len]; rewrite app_length, Hr16; vm_compute; lia) Ho2).
  cbn [c_st c1 set_st msg_len]. change (skipn 4 (be32 (Z.to_N c05_rfbSecTypeVncAuth) ++ r)) with r.
  (* 3. the response *)
  set (p2 := put_conn p1 (mkEnv (p_hs p) (snd (take_rand (p_rand p) 16)) (p_err p)) ci c2 false).
  assert (Hn2 : nth_error (p_conns p2) ci = Some c2) by (eapply put_conn_nth_self; exact Hn1).
  assert (Hs2 : nth_error (p_screens p2) (c_screen c2) = Some scr) by exact Hs.
  assert (Hmatch : bytes_eqb (encrypt_bytes cfx pw ch) r = true).
  { pose proof (encrypt_bytes_fixed pw ch Hch) as E. rewrite Hr in E. injection E as <-. apply bytes_eqb_refl. }
  assert (Hpc : exists c3, password_check cfx scr (set_pws (set_resp c2 r) (screen_passwords scr)) r = (true, c3) /\
                  c_out c3 = c_out c2 /\ c_resp c3 = Some r /\ c_told c3 = c_told c2).
  { unfold password_check, screen_passwords in *. cbn [cfgF cfg_enc_fail cfg_check].
    destruct (s_pw scr) as [|pws fvo|content|]; [| | |contradiction].
    - contradiction.
    - cbn [c_chal set_resp set_pws c2 set_st set_chal add_out set_sent].
      destruct (check_list_complete cfx pws ch r pw 0%Z Hin Hmatch) as [i Hi].
      rewrite Hi. eexists. split; [reflexivity|]. destruct (fvo <=? i)%Z; repeat split.
    - destruct (decrypt_passwd_file content) as [pw'|]; [|contradiction].
      destruct Hin as [<-|[]]. cbn [c_chal set_resp set_pws c2 set_st set_chal add_out set_sent]. rewrite Hmatch.
      eexists. split; [reflexivity|]. repeat split. }
  destruct Hpc as [c3 [Hpc [O3 [R3 T3]]]].
  assert (Ho3 : on_message cfx scr (env_of p2) c2 (firstn (msg_len (c_st c2)) r) = (env_of p2, set_st (say c3 TokOK auth_ok) StInit, false)).
  { cbn [c_st c2 set_st msg_len]. change (Z.to_nat c05_CHALLENGESIZE) with 16%nat. rewrite <- Hr16, firstn_all.
    unfold on_message. cbn [c_st c2 set_st]. unfold on_response. rewrite Hpc. reflexivity. }
  rewrite (deliver_cons 19 cfx p2 ci c2 scr r false _ _ _ Hn2 Hs2 ltac:(discriminate) ltac:(discriminate)
             ltac:(vm_compute; eexists; reflexivity) ltac:(cbn [c_st c2 set_st msg_len]; rewrite Hr16; vm_compute; lia) Ho3).
  cbn [c_st c2 set_st msg_len]. change (Z.to_nat c05_CHALLENGESIZE) with 16%nat. rewrite <- Hr16, skipn_all.
  erewrite deliver_nil; [|eapply put_conn_nth_self; exact Hn2|reflexivity].
  eexists. split; [eapply put_conn_nth_self; exact Hn2|]. split; [reflexivity|]. split.
  { left. cbn. apply in_or_app. right. left. reflexivity. }
  split; [cbn; exact R3|].
  cbn [c_out set_st say]. rewrite O3. cbn [c2 c1 c_out set_st add_out set_sent set_chal].
  repeat rewrite <- app_assoc. reflexivity.
Qed.

(* ---------------------------------------------------------------- UDP input channel
   With notes/fix_C05_4.diff (cfg_udp_gated, which cfgF has) no input event reaches the application
   through the UDP channel of a screen that requires a password - whatever else happens. *)
Definition input_ok (p : proc) : Prop :=
  forall s, In s (p_input p) -> exists scr, nth_error (p_screens p) s = Some scr /\ has_password scr = false.

Lemma deliver_udp_fields : forall fuel cf p ci buf eof,
  p_input (deliver fuel cf p ci buf eof) = p_input p /\ p_udp (deliver fuel cf p ci buf eof) = p_udp p /\
  p_screens (deliver fuel cf p ci buf eof) = p_screens p.
Proof.
  induction fuel as [|f IH]; intros cf p ci buf eof; cbn [deliver]; [repeat split; reflexivity|].
  destruct (nth_error (p_conns p) ci) as [c|]; [|repeat split; reflexivity].
  assert (R : forall st,
    let p' := match buf with
         | [] => if eof || blocking st then put_conn p (env_of p) ci (set_st c StClosed) false else p
         | _ :: _ =>
           if Nat.ltb (length buf) (msg_len st) then put_conn p (env_of p) ci (set_st c StClosed) false
           else
             match nth_error (p_screens p) (c_screen c) with
             | None => flag_err p
             | Some s =>
                 let (y, co) := on_message cf s (env_of p) c (firstn (msg_len st) buf) in
                 let (e', c') := y in
                 match msg_len st with
                 | O => flag_err p
                 | S _ => deliver f cf (put_conn p e' ci c' co) ci (skipn (msg_len st) buf) eof
                 end
             end
         end in p_input p' = p_input p /\ p_udp p' = p_udp p /\ p_screens p' = p_screens p).
  { intros st. cbv zeta. destruct buf as [|b buf]; [destruct (eof || blocking st); repeat split; reflexivity|].
    destruct (Nat.ltb (length (b :: buf)) (msg_len st)); [repeat split; reflexivity|].
    destruct (nth_error (p_screens p) (c_screen c)) as [s|]; [|repeat split; reflexivity].
    destruct (on_message cf s (env_of p) c (firstn (msg_len st) (b :: buf))) as [[e' c'] co].
    destruct (msg_len st) as [|n0]; [repeat split; reflexivity|].
    destruct (IH cf (put_conn p e' ci c' co) ci (skipn (S n0) (b :: buf)) eof) as [A [B C]].
    rewrite A, B, C. repeat split; reflexivity. }
  destruct (c_st c); try apply R; try (repeat split; reflexivity).
  destruct buf; [destruct eof|]; repeat split; reflexivity.
Qed.

Lemma step_input_ok : forall p o, input_ok p -> input_ok (step cfx p o).
Proof.
  intros p o H. destruct o as [s0|k|k|b|s0 rev bytes eof|cj bytes eof|s0 content|s0 lpws lfvo|s0|s0 ubytes]; cbn [step].
  - intros s1 Hs. destruct (H s1 Hs) as [scr [A B]]. exists scr. split; [|exact B]. cbn [p_screens].
    rewrite nth_error_app1; [exact A|]. apply nth_error_Some. congruence.
  - destruct (is_ext k); [destruct (hs_register REC_FUEL (p_hs p) (Some k))|]; exact H.
  - destruct (is_ext k); [destruct (hs_unregister REC_FUEL _ (p_hs p) (Some k))|]; exact H.
  - exact H.
  - destruct (nth_error (p_screens p) s0); [|exact H].
    intros s1 Hs. destruct (deliver_udp_fields (S (length bytes)) cfx
      (mkProc (p_hs p) (p_screens p) (p_conns p ++ [new_conn s0 rev]) (p_rand p) (p_err p) (p_unmod p) (p_udp p) (p_input p))
      (length (p_conns p)) bytes eof) as [A [_ S]].
    rewrite A in Hs. rewrite S. exact (H s1 Hs).
  - intros s1 Hs. destruct (deliver_udp_fields (S (length bytes)) cfx p cj bytes eof) as [A [_ S]].
    rewrite A in Hs. rewrite S. exact (H s1 Hs).
  - destruct (nth_error (p_screens p) s0) as [scr0|] eqn:E0; [|exact H].
    destruct (s_pw scr0) eqn:Epw; try exact H.
    intros s1 Hs. cbn [p_input p_screens] in *. destruct (H s1 Hs) as [scr [A B]].
    destruct (Nat.eq_dec s1 s0) as [->|Hne].
    + rewrite E0 in A. injection A as <-. unfold has_password in B. rewrite Epw in B. discriminate.
    + exists scr. split; [rewrite nth_error_set_nth_neq by congruence; exact A|exact B].
  - destruct (nth_error (p_screens p) s0) as [scr0|] eqn:E0; [|exact H].
    destruct (s_pw scr0) eqn:Epw; try exact H.
    intros s1 Hs. cbn [p_input p_screens] in *. destruct (H s1 Hs) as [scr [A B]].
    destruct (Nat.eq_dec s1 s0) as [->|Hne].
    + rewrite E0 in A. injection A as <-. unfold has_password in B. rewrite Epw in B. discriminate.
    + exists scr. split; [rewrite nth_error_set_nth_neq by congruence; exact A|exact B].
  - destruct (nth_error (p_screens p) s0); exact H.
  - destruct (nth_error (p_screens p) s0) as [scr0|] eqn:E0; [|exact H].
    destruct (existsb (Nat.eqb s0) (p_udp p) && udp_wellformed ubytes) eqn:Ew; cbn [andb]; [|exact H].
    cbn [cfgF cfg_udp_gated andb]. destruct (has_password scr0) eqn:Ep; cbn [negb]; [exact H|].
    intros s1 Hs. cbn [p_input p_screens] in *. apply in_app_or in Hs. destruct Hs as [Hs|[<-|[]]].
    + exact (H s1 Hs).
    + exists scr0. split; assumption.
Qed.

Lemma udp_gated_fixed : forall ops s scr,
  let p := run cfx proc_init ops in
  In s (p_input p) -> nth_error (p_screens p) s = Some scr -> has_password scr = false.
Proof.
  intros ops s scr p Hin Hs.
  assert (H : input_ok p).
  { unfold p, run. assert (G : forall l q, input_ok q -> input_ok (fold_left (step cfx) l q)).
    { induction l as [|o l IH]; intros q Hq; cbn; [exact Hq|]. apply IH. apply step_input_ok. exact Hq. }
    apply G. intros s0 [] . }
  destruct (H s Hin) as [scr' [A B]]. rewrite Hs in A. injection A as <-. exact B.
Qed.

(* ---------------------------------------------------------------- the error flag is never raised
   [p_err] is set when a list operation of the mirror runs out of fuel or an index is out of range;
   the mirror then closes the client, which C would not do.  On every trace whose operations name
   existing screens / connections / application handler objects (and with four application handler
   types) this never happens: soundness is not obtained "by totalisation". *)
Definition op_valid (p : proc) (o : op) : Prop :=
  match o with
  | OReg k | OUnreg k => is_ext k = true
  | OConn s _ _ _ | OUdpOn s | OUdp s _ => (s < length (p_screens p))%nat
  | OSend c _ _ => (c < length (p_conns p))%nat
  | OSetFile s _ => exists scr c0, nth_error (p_screens p) s = Some scr /\ s_pw scr = PwFile c0
  | OSetList s _ _ => exists scr l0 f0, nth_error (p_screens p) s = Some scr /\ s_pw scr = PwList l0 f0
  | _ => True
  end.

Fixpoint valid_run (cf : cfg) (p : proc) (ops : list op) : Prop :=
  match ops with
  | [] => True
  | o :: r => op_valid p o /\ valid_run cf (step cf p o) r
  end.

Lemma hs_find_total : forall f tys legacy st cur chosen primary,
  hs_member f st cur 99 = Some false -> length tys = length (h_next st) ->
  forall fuel, (f <= fuel)%nat -> hs_find fuel tys legacy st cur chosen primary <> None.
Proof.
  induction f as [|f IH]; intros tys legacy st cur chosen primary Hm Hlen fuel Hf; cbn [hs_member] in Hm; [discriminate|].
  destruct fuel as [|fuel]; [lia|]. cbn [hs_find].
  destruct cur as [c|]; [|discriminate].
  destruct (Nat.eqb c 99); [discriminate|].
  destruct (nth_error (h_next st) c) as [nx|] eqn:En; [|discriminate].
  assert (Hc : (c < length tys)%nat) by (rewrite Hlen; apply nth_error_Some; congruence).
  destruct (nth_error tys c) as [t|] eqn:Et; [|apply nth_error_None in Et; lia].
  destruct (Z.eqb t chosen && (legacy || negb (is_builtin c) || Z.eqb chosen primary)); [discriminate|].
  apply (IH tys legacy st nx chosen primary Hm Hlen fuel). lia.
Qed.

Lemma on_message_no_err : forall s e c msg e' c' co,
  on_message cfx s e c msg = (e', c', co) -> acyc (e_hs e) = true -> length ext = 4%nat ->
  msg <> [] -> e_err e = false -> e_err e' = false.
Proof.
  intros s e c msg e' c' co H Ha Hext Hm He. unfold on_message in H.
  assert (Hlen : forall st, acyc st = true -> length (htypes ext) = length (h_next st)).
  { intros st Hs. rewrite (acyc_length st Hs). cbn [htypes length]. rewrite Hext. reflexivity. }
  destruct (c_st c).
  - destruct (on_version cfx s e c msg) as [e1 c1] eqn:E. injection H as <- <- <-.
    unfold on_version in E. destruct (parse_version msg) as [[ma mi]|]; [|injection E as <- <-; exact He].
    destruct (negb (ma =? c05_rfbProtocolMajorVersion)%Z); [injection E as <- <-; exact He|].
    unfold auth_new_client in E. destruct (c_minor (set_minor c mi) <? 7)%Z.
    + unfold send_type_33 in E.
      destruct (primary_type s (set_minor c mi) =? c05_rfbSecTypeNone)%Z; [injection E as <- <-; exact He|].
      unfold send_challenge in E. destruct (take_rand (e_rand e) (Z.to_nat c05_CHALLENGESIZE)). injection E as <- <-. exact He.
    + destruct (send_type_list_acyc e (set_minor c mi) _ Ha (is_prim_primary s (set_minor c mi)) Hext) as [st' [tl [_ [_ Heq]]]].
      rewrite Heq in E. injection E as <- <-. exact He.
  - destruct msg as [|b msg]; [contradiction|].
    unfold on_sectype in H. cbn [cfgF cfg_global_check cfg_ext] in H.
    pose proof (hs_find_total LIST_FUEL (htypes ext) false (e_hs e) (h_head (e_hs e)) (Z.of_N b) (primary_type s c)
                  (acyc_list_ok _ Ha) (Hlen _ Ha) LIST_FUEL (le_n _)) as Hf.
    destruct (hs_find LIST_FUEL (htypes ext) false (e_hs e) (h_head (e_hs e)) (Z.of_N b) (primary_type s c)) as [[| |k|]|]; [| | | |contradiction].
    + unfold send_challenge in H. destruct (take_rand (e_rand e) (Z.to_nat c05_CHALLENGESIZE)). injection H as <- <- <-. exact He.
    + destruct (auth_none s c). injection H as <- <- <-. exact He.
    + destruct (cfg_tight (cfgF single ext tight chk) && Nat.eqb k 2); injection H as <- <- <-; exact He.
    + injection H as <- <- <-. exact He.
  - destruct (on_tight_auth e c msg) as [e1 c1] eqn:E. injection H as <- <- <-.
    unfold on_tight_auth in E. destruct (N.eqb (bytes_to_N msg) (Z.to_N c05_rfbSecTypeVncAuth)).
    + unfold send_challenge in E. destruct (take_rand (e_rand e) (Z.to_nat c05_CHALLENGESIZE)). injection E as <- <-. exact He.
    + injection E as <- <-. exact He.
  - destruct (on_response cfx s e c msg) as [e1 c1] eqn:E. injection H as <- <- <-.
    unfold on_response in E.
    destruct (password_check cfx s (set_pws (set_resp c msg) (screen_passwords s)) msg) as [[|] c2]; injection E as <- <-; exact He.
  - destruct (on_response cfx s e c msg) as [e1 c1] eqn:E. injection H as <- <- <-.
    unfold on_response in E.
    destruct (password_check cfx s (set_pws (set_resp c msg) (screen_passwords s)) msg) as [[|] c2]; injection E as <- <-; exact He.
  - destruct msg as [|b msg]; [contradiction|]. destruct (client_init s c b). injection H as <- <- <-. exact He.
  - injection H as <- <- <-. exact He.
  - injection H as <- <- <-. exact He.
Qed.

Lemma put_conn_length : forall p e ci c co, length (p_conns (put_conn p e ci c co)) = length (p_conns p).
Proof.
  intros. unfold put_conn. cbn [p_conns]. destruct co; [|apply set_nth_length].
  unfold close_others. generalize 0%nat. rewrite <- (set_nth_length _ (p_conns p) ci c).
  induction (set_nth (p_conns p) ci c) as [|x l IH]; intros n; cbn; [reflexivity|]. rewrite IH. reflexivity.
Qed.

Lemma deliver_no_err : forall fuel p ci buf eof,
  inv p -> acyc (p_hs p) = true -> length ext = 4%nat -> p_err p = false ->
  (ci < length (p_conns p))%nat -> (length buf < fuel)%nat ->
  p_err (deliver fuel cfx p ci buf eof) = false.
Proof.
  induction fuel as [|f IH]; intros p ci buf eof Hinv Ha Hext He Hci Hf; [lia|]. cbn [deliver].
  destruct (nth_error (p_conns p) ci) as [c|] eqn:Hn; [|apply nth_error_None in Hn; lia].
  destruct (inv_nth _ _ _ Hinv Hn) as [s [Hs Hok]].
  assert (R : forall st, c_st c = st -> (exists k, msg_len st = S k) ->
    p_err (match buf with
         | [] => if eof || blocking st then put_conn p (env_of p) ci (set_st c StClosed) false else p
         | _ :: _ =>
           if Nat.ltb (length buf) (msg_len st) then put_conn p (env_of p) ci (set_st c StClosed) false
           else
             match nth_error (p_screens p) (c_screen c) with
             | None => flag_err p
             | Some s =>
                 let (y, co) := on_message cfx s (env_of p) c (firstn (msg_len st) buf) in
                 let (e', c') := y in
                 match msg_len st with
                 | O => flag_err p
                 | S _ => deliver f cfx (put_conn p e' ci c' co) ci (skipn (msg_len st) buf) eof
                 end
             end
         end) = false).
  { intros st Hst [k Hk]. destruct buf as [|b buf]; [destruct (eof || blocking st); exact He|].
    destruct (Nat.ltb (length (b :: buf)) (msg_len st)) eqn:El; [exact He|]. apply Nat.ltb_ge in El.
    rewrite Hs.
    destruct (on_message cfx s (env_of p) c (firstn (msg_len st) (b :: buf))) as [[e' c'] co] eqn:Eo.
    rewrite Hk. rewrite <- Hk.
    assert (Hne : firstn (msg_len st) (b :: buf) <> []) by (rewrite Hk; cbn; discriminate).
    pose proof (on_message_no_err _ _ _ _ _ _ _ Eo Ha Hext Hne He) as He'.
    pose proof (on_message_acyc _ _ _ _ _ _ _ _ Eo Ha) as Ha'.
    destruct (on_message_ok _ _ _ _ _ _ _ Eo Hok) as [[S1 S2] Hok'].
    apply IH.
    - apply put_conn_inv; [exact Hinv|]. exists s. split; [rewrite S1; exact Hs|exact Hok'].
    - exact Ha'.
    - exact Hext.
    - exact He'.
    - rewrite put_conn_length. exact Hci.
    - rewrite skipn_length, Hk. cbn [length] in *. lia. }
  destruct (c_st c) eqn:Hst; try (apply R; [reflexivity|vm_compute; eexists; reflexivity]).
  - destruct buf; [destruct eof|]; exact He.
  - exact He.
Qed.

Lemma step_no_err : forall p o,
  inv p -> acyc (p_hs p) = true -> length ext = 4%nat -> p_err p = false -> op_valid p o ->
  p_err (step cfx p o) = false.
Proof.
  intros p o Hinv Ha Hext He Hv.
  destruct o as [s0|k|k|b|s0 rev bytes eof|cj bytes eof|s0 content|s0 lpws lfvo|s0|s0 ubytes]; cbn [step op_valid] in *.
  - exact He.
  - rewrite Hv. destruct (acyc_register (p_hs p) k Ha Hv) as [st' [-> _]]. exact He.
  - rewrite Hv. destruct (acyc_unregister (cfg_unreg_single cfx) (p_hs p) k Ha Hv) as [st' [-> _]]. exact He.
  - exact He.
  - destruct (nth_error (p_screens p) s0) as [scr|] eqn:Hs; [|apply nth_error_None in Hs; lia].
    apply deliver_no_err; cbn [p_hs p_err p_conns p_screens]; try assumption.
    + unfold inv in *. cbn [p_screens p_conns]. apply Forall_app. split; [exact Hinv|].
      constructor; [|constructor]. exists scr. split; [exact Hs|]. apply ok_idle; cbn; congruence.
    + rewrite app_length. cbn. lia.
    + lia.
  - apply deliver_no_err; try assumption. lia.
  - destruct Hv as [scr [c0 [-> ->]]]. exact He.
  - destruct Hv as [scr [l0 [f0 [-> ->]]]]. exact He.
  - destruct (nth_error (p_screens p) s0) eqn:Hs; [exact He|apply nth_error_None in Hs; lia].
  - destruct (nth_error (p_screens p) s0) as [scr|] eqn:Hs; [|apply nth_error_None in Hs; lia].
    match goal with |- context [if ?b then _ else _] => destruct b end; exact He.
Qed.

Lemma run_no_err : forall ops p,
  inv p -> acyc (p_hs p) = true -> length ext = 4%nat -> p_err p = false -> valid_run cfx p ops ->
  p_err (run cfx p ops) = false.
Proof.
  induction ops as [|o ops IH]; intros p Hinv Ha Hext He Hv; cbn [run fold_left]; [exact He|].
  destruct Hv as [Hv1 Hv2]. apply IH.
  - apply step_inv. exact Hinv.
  - apply step_acyc. exact Ha.
  - exact Hext.
  - apply step_no_err; assumption.
  - exact Hv2.
Qed.

Lemma no_err_fixed : forall ops, length ext = 4%nat -> valid_run cfx proc_init ops ->
  p_err (run cfx proc_init ops) = false.
Proof. intros ops Hext Hv. apply run_no_err; try assumption; [apply inv_init|apply acyc_init|reflexivity]. Qed.

End Fixed.

(* ---------------------------------------------------------------- fuel *)
(* [deliver] is called with fuel S (length buf); any larger fuel gives the same result, i.e. the
   fuel-exhaustion branch is never taken *)
Lemma deliver_fuel_indep : forall f1 f2 cf p ci buf eof,
  (length buf < f1)%nat -> (length buf < f2)%nat ->
  deliver f1 cf p ci buf eof = deliver f2 cf p ci buf eof.
Proof.
  induction f1 as [|f1 IH]; intros f2 cf p ci buf eof H1 H2; [lia|].
  destruct f2 as [|f2]; [lia|]. cbn [deliver].
  destruct (nth_error (p_conns p) ci) as [c|]; [|reflexivity].
  assert (Hround : forall st,
    match buf with
    | [] => if eof || blocking st then put_conn p (env_of p) ci (set_st c StClosed) false else p
    | _ :: _ =>
        if Nat.ltb (length buf) (msg_len st) then put_conn p (env_of p) ci (set_st c StClosed) false
        else match nth_error (p_screens p) (c_screen c) with
             | None => flag_err p
             | Some s =>
                 let (y, co) := on_message cf s (env_of p) c (firstn (msg_len st) buf) in
                 let (e', c') := y in
                 match msg_len st with
                 | O => flag_err p
                 | S _ => deliver f1 cf (put_conn p e' ci c' co) ci (skipn (msg_len st) buf) eof
                 end
             end
    end =
    match buf with
    | [] => if eof || blocking st then put_conn p (env_of p) ci (set_st c StClosed) false else p
    | _ :: _ =>
        if Nat.ltb (length buf) (msg_len st) then put_conn p (env_of p) ci (set_st c StClosed) false
        else match nth_error (p_screens p) (c_screen c) with
             | None => flag_err p
             | Some s =>
                 let (y, co) := on_message cf s (env_of p) c (firstn (msg_len st) buf) in
                 let (e', c') := y in
                 match msg_len st with
                 | O => flag_err p
                 | S _ => deliver f2 cf (put_conn p e' ci c' co) ci (skipn (msg_len st) buf) eof
                 end
             end
    end).
  { intros st. destruct buf as [|b buf]; [reflexivity|].
    destruct (Nat.ltb (length (b :: buf)) (msg_len st)); [reflexivity|].
    destruct (nth_error (p_screens p) (c_screen c)) as [s|]; [|reflexivity].
    destruct (on_message cf s (env_of p) c (firstn (msg_len st) (b :: buf))) as [[e' c'] co].
    destruct (msg_len st) as [|n]; [reflexivity|].
    assert (Hlen : (length (skipn (S n) (b :: buf)) < length (b :: buf))%nat).
    { rewrite skipn_length. cbn [length]. lia. }
    apply IH; cbn [length] in *; lia. }
  destruct (c_st c); try apply Hround; reflexivity.
Qed.

Lemma deliver_fuel_suffices : forall extra cf p ci buf eof,
  deliver (S (length buf) + extra) cf p ci buf eof = deliver (S (length buf)) cf p ci buf eof.
Proof. intros. apply deliver_fuel_indep; lia. Qed.


(* on_response records the password set of the screen at the moment of the check, and the response *)
Lemma password_check_keeps : forall cf s c r b c1,
  password_check cf s c r = (b, c1) -> c_pws c1 = c_pws c /\ c_resp c1 = c_resp c.
Proof.
  intros cf s c r b c1 H. unfold password_check in H. destruct (s_pw s) as [|pws fvo|content|]; [| | |destruct (cfg_check cf (c_chal c) r); injection H as <- <-; auto];
  try (destruct (cfg_enc_fail cf); [injection H as <- <-; auto|]).
  - injection H as <- <-. auto.
  - destruct (check_list cf pws (c_chal c) r 0); injection H as <- <-; [destruct (fvo <=? z)%Z|]; auto.
  - destruct (decrypt_passwd_file content); injection H as <- <-; auto.
Qed.

Lemma on_response_snapshot : forall cf s e c resp e' c',
  on_response cf s e c resp = (e', c') -> c_pws c' = screen_passwords s /\ c_resp c' = Some resp.
Proof.
  intros cf s e c resp e' c' H. unfold on_response in H.
  destruct (password_check cf s (set_pws (set_resp c resp) (screen_passwords s)) resp) as [b c1] eqn:E.
  destruct (password_check_keeps _ _ _ _ _ _ E) as [A B]. cbn in A, B.
  destruct b; injection H as <- <-; [cbn; auto|].
  destruct (7 <? c_minor c)%Z; cbn; auto.
Qed.

(* ---------------------------------------------------------------- failing DES backend (fail closed)
   vncauth.c rfbEncryptBytes: if encrypt_rfbdes fails the buffer is filled with random bytes;
   rfbDecryptPasswdFromFile returns NULL if decrypt_rfbdes fails.  Whatever the other flags, the
   password list / file, the challenge and the response: with a failing backend the two built-in
   callbacks refuse - the client is told "failed" and closed, never granted. *)
Lemma encrypt_failure_refuses : forall cf s e c resp e' c',
  cfg_enc_fail cf = true -> s_pw s <> PwCustom ->
  on_response cf s e c resp = (e', c') ->
  c_st c' = StClosed /\ granted c' = false /\ c_told c' = c_told c ++ [TokFail].
Proof.
  intros cf s e c resp e' c' Hf Hm H. unfold on_response, password_check in H. rewrite Hf in H.
  destruct (s_pw s); try contradiction; injection H as <- <-;
    destruct (7 <? c_minor c)%Z; cbn; repeat split.
Qed.

(* for a screen whose callback is not one of the two built-in ones (no password set recorded),
   [proved] says exactly: the callback returned TRUE for the challenge sent on this connection and
   the response read from it *)
Lemma proved_custom : forall c, proved c -> c_pws c = [] ->
  exists r, c_resp c = Some r /\ c_judged c = Some (c_sent c, r).
Proof.
  intros c [r [Hr [[pw [Hin _]]|Hj]]] Hp; [rewrite Hp in Hin; contradiction|eauto].
Qed.

(* c_judged is only ever set by on_response, to the pair the callback has just accepted *)
Lemma judged_is_verdict : forall cf s e c resp e' c',
  on_response cf s e c resp = (e', c') -> s_pw s = PwCustom ->
  (c_judged c' = Some (c_chal c, resp) /\ cfg_check cf (c_chal c) resp = true /\ c_st c' = StInit) \/
  (c_judged c' = c_judged c /\ cfg_check cf (c_chal c) resp = false /\ c_st c' = StClosed).
Proof.
  intros cf s e c resp e' c' H Hm. unfold on_response, password_check in H. rewrite Hm in H.
  cbn [c_chal set_pws set_resp] in H.
  destruct (cfg_check cf (c_chal c) resp) eqn:E; injection H as <- <-.
  - left. repeat split.
  - right. destruct (7 <? c_minor c)%Z; repeat split.
Qed.
