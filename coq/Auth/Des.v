(* Auth/Des.v - executable DES (FIPS PUB 46-3) over N, and the VNC authentication cipher built on
   it (src/common/vncauth.c rfbEncryptBytes + the key bit-reversal of every crypto backend,
   crypto_libgcrypt.c encrypt_rfbdes).  Definitions only; known-answer vectors and lemmas are in
   Auth/DesProofs.v.  Tables are the ones printed in FIPS 46-3 (positions count from 1 at the
   most significant bit). *)
From Coq Require Import NArith List Bool.
Import ListNotations.
Local Open Scope N_scope.

(* pick the bits of the [win]-bit word [x] listed in [tbl] (1 = most significant), MSB first *)
Definition permute (win : N) (tbl : list N) (x : N) : N :=
  fold_left (fun acc i => N.double acc + N.b2n (N.testbit x (win - i))) tbl 0.

Definition tbl_IP : list N := [58; 50; 42; 34; 26; 18; 10; 2; 60; 52; 44; 36; 28; 20; 12; 4; 62; 54; 46; 38; 30; 22; 14; 6; 64; 56; 48; 40; 32; 24; 16; 8; 57; 49; 41; 33; 25; 17; 9; 1; 59; 51; 43; 35; 27; 19; 11; 3; 61; 53; 45; 37; 29; 21; 13; 5; 63; 55; 47; 39; 31; 23; 15; 7].
Definition tbl_FP : list N := [40; 8; 48; 16; 56; 24; 64; 32; 39; 7; 47; 15; 55; 23; 63; 31; 38; 6; 46; 14; 54; 22; 62; 30; 37; 5; 45; 13; 53; 21; 61; 29; 36; 4; 44; 12; 52; 20; 60; 28; 35; 3; 43; 11; 51; 19; 59; 27; 34; 2; 42; 10; 50; 18; 58; 26; 33; 1; 41; 9; 49; 17; 57; 25].
Definition tbl_E : list N := [32; 1; 2; 3; 4; 5; 4; 5; 6; 7; 8; 9; 8; 9; 10; 11; 12; 13; 12; 13; 14; 15; 16; 17; 16; 17; 18; 19; 20; 21; 20; 21; 22; 23; 24; 25; 24; 25; 26; 27; 28; 29; 28; 29; 30; 31; 32; 1].
Definition tbl_P : list N := [16; 7; 20; 21; 29; 12; 28; 17; 1; 15; 23; 26; 5; 18; 31; 10; 2; 8; 24; 14; 32; 27; 3; 9; 19; 13; 30; 6; 22; 11; 4; 25].
Definition tbl_PC1 : list N := [57; 49; 41; 33; 25; 17; 9; 1; 58; 50; 42; 34; 26; 18; 10; 2; 59; 51; 43; 35; 27; 19; 11; 3; 60; 52; 44; 36; 63; 55; 47; 39; 31; 23; 15; 7; 62; 54; 46; 38; 30; 22; 14; 6; 61; 53; 45; 37; 29; 21; 13; 5; 28; 20; 12; 4].
Definition tbl_PC2 : list N := [14; 17; 11; 24; 1; 5; 3; 28; 15; 6; 21; 10; 23; 19; 12; 4; 26; 8; 16; 7; 27; 20; 13; 2; 41; 52; 31; 37; 47; 55; 30; 40; 51; 45; 33; 48; 44; 49; 39; 56; 34; 53; 46; 42; 50; 36; 29; 32].
Definition tbl_shifts : list N := [1; 1; 2; 2; 2; 2; 2; 2; 1; 2; 2; 2; 2; 2; 2; 1].
Definition sboxes : list (list N) :=
  [[14; 4; 13; 1; 2; 15; 11; 8; 3; 10; 6; 12; 5; 9; 0; 7; 0; 15; 7; 4; 14; 2; 13; 1; 10; 6; 12; 11; 9; 5; 3; 8; 4; 1; 14; 8; 13; 6; 2; 11; 15; 12; 9; 7; 3; 10; 5; 0; 15; 12; 8; 2; 4; 9; 1; 7; 5; 11; 3; 14; 10; 0; 6; 13];
   [15; 1; 8; 14; 6; 11; 3; 4; 9; 7; 2; 13; 12; 0; 5; 10; 3; 13; 4; 7; 15; 2; 8; 14; 12; 0; 1; 10; 6; 9; 11; 5; 0; 14; 7; 11; 10; 4; 13; 1; 5; 8; 12; 6; 9; 3; 2; 15; 13; 8; 10; 1; 3; 15; 4; 2; 11; 6; 7; 12; 0; 5; 14; 9];
   [10; 0; 9; 14; 6; 3; 15; 5; 1; 13; 12; 7; 11; 4; 2; 8; 13; 7; 0; 9; 3; 4; 6; 10; 2; 8; 5; 14; 12; 11; 15; 1; 13; 6; 4; 9; 8; 15; 3; 0; 11; 1; 2; 12; 5; 10; 14; 7; 1; 10; 13; 0; 6; 9; 8; 7; 4; 15; 14; 3; 11; 5; 2; 12];
   [7; 13; 14; 3; 0; 6; 9; 10; 1; 2; 8; 5; 11; 12; 4; 15; 13; 8; 11; 5; 6; 15; 0; 3; 4; 7; 2; 12; 1; 10; 14; 9; 10; 6; 9; 0; 12; 11; 7; 13; 15; 1; 3; 14; 5; 2; 8; 4; 3; 15; 0; 6; 10; 1; 13; 8; 9; 4; 5; 11; 12; 7; 2; 14];
   [2; 12; 4; 1; 7; 10; 11; 6; 8; 5; 3; 15; 13; 0; 14; 9; 14; 11; 2; 12; 4; 7; 13; 1; 5; 0; 15; 10; 3; 9; 8; 6; 4; 2; 1; 11; 10; 13; 7; 8; 15; 9; 12; 5; 6; 3; 0; 14; 11; 8; 12; 7; 1; 14; 2; 13; 6; 15; 0; 9; 10; 4; 5; 3];
   [12; 1; 10; 15; 9; 2; 6; 8; 0; 13; 3; 4; 14; 7; 5; 11; 10; 15; 4; 2; 7; 12; 9; 5; 6; 1; 13; 14; 0; 11; 3; 8; 9; 14; 15; 5; 2; 8; 12; 3; 7; 0; 4; 10; 1; 13; 11; 6; 4; 3; 2; 12; 9; 5; 15; 10; 11; 14; 1; 7; 6; 0; 8; 13];
   [4; 11; 2; 14; 15; 0; 8; 13; 3; 12; 9; 7; 5; 10; 6; 1; 13; 0; 11; 7; 4; 9; 1; 10; 14; 3; 5; 12; 2; 15; 8; 6; 1; 4; 11; 13; 12; 3; 7; 14; 10; 15; 6; 8; 0; 5; 9; 2; 6; 11; 13; 8; 1; 4; 10; 7; 9; 5; 0; 15; 14; 2; 3; 12];
   [13; 2; 8; 4; 6; 15; 11; 1; 10; 9; 3; 14; 5; 0; 12; 7; 1; 15; 13; 8; 10; 3; 7; 4; 12; 5; 6; 11; 0; 14; 9; 2; 7; 11; 4; 1; 9; 12; 14; 2; 0; 6; 10; 13; 15; 3; 5; 8; 2; 1; 14; 7; 4; 10; 8; 13; 15; 12; 9; 0; 3; 5; 6; 11]].

Definition mask28 : N := 268435455.
Definition mask32 : N := 4294967295.

Definition rol28 (x n : N) : N := N.land (N.lor (N.shiftl x n) (N.shiftr x (28 - n))) mask28.

(* the 16 round keys (48 bit each) of a 64-bit key; parity bits are ignored by PC-1 *)
Fixpoint subkeys_from (c d : N) (shifts : list N) : list N :=
  match shifts with
  | [] => []
  | s :: rest =>
      let c' := rol28 c s in
      let d' := rol28 d s in
      permute 56 tbl_PC2 (N.lor (N.shiftl c' 28) d') :: subkeys_from c' d' rest
  end.

Definition key_cd (k : N) : N * N :=
  let cd := permute 64 tbl_PC1 k in (N.shiftr cd 28, N.land cd mask28).

Definition subkeys (k : N) : list N :=
  let '(c, d) := key_cd k in subkeys_from c d tbl_shifts.

(* S-box i applied to the 6-bit group b = b1..b6: row b1b6, column b2b3b4b5.  The group is
   < 64 and every table has 64 entries; an impossible index yields None (propagated). *)
Definition sbox_lookup (box : list N) (b : N) : option N :=
  let row := N.lor (N.double (N.shiftr b 5)) (N.land b 1) in
  let col := N.land (N.shiftr b 1) 15 in
  nth_error box (N.to_nat (row * 16 + col)).

Fixpoint sbox_layer (boxes : list (list N)) (x : N) (pos : N) (acc : N) : option N :=
  match boxes with
  | [] => Some acc
  | box :: rest =>
      match sbox_lookup box (N.land (N.shiftr x pos) 63) with
      | None => None
      | Some v => sbox_layer rest x (pos - 6) (N.lor (N.shiftl acc 4) v)
      end
  end.

Definition feistel (r k : N) : option N :=
  match sbox_layer sboxes (N.lxor (permute 32 tbl_E r) k) 42 0 with
  | None => None
  | Some o => Some (permute 32 tbl_P o)
  end.

Fixpoint rounds (ks : list N) (l r : N) : option (N * N) :=
  match ks with
  | [] => Some (l, r)
  | k :: rest =>
      match feistel r k with
      | None => None
      | Some f => rounds rest r (N.lxor l f)
      end
  end.

Definition des_core (ks : list N) (x : N) : option N :=
  let y := permute 64 tbl_IP x in
  match rounds ks (N.shiftr y 32) (N.land y mask32) with
  | None => None
  | Some (l, r) => Some (permute 64 tbl_FP (N.lor (N.shiftl r 32) l))
  end.

Definition des_encrypt (k x : N) : option N := des_core (subkeys k) x.
Definition des_decrypt (k x : N) : option N := des_core (rev (subkeys k)) x.

(* ---------------------------------------------------------------- bytes *)
Definition bytes_to_N (l : list N) : N := fold_left (fun acc b => acc * 256 + b) l 0.
Fixpoint N_to_bytes (n : nat) (x : N) : list N :=
  match n with
  | O => []
  | S m => N_to_bytes m (N.shiftr x 8) ++ [N.land x 255]
  end.

(* reverseByte of the crypto backends *)
Definition rev_byte (b : N) : N := permute 8 [8; 7; 6; 5; 4; 3; 2; 1] b.

(* C string semantics: the bytes before the first NUL *)
Fixpoint cstr (l : list N) : list N :=
  match l with
  | [] => []
  | b :: t => if N.eqb b 0 then [] else b :: cstr t
  end.

(* rfbEncryptBytes: key[i] = i < strlen(passwd) ? passwd[i] : 0, i < 8 *)
Definition vnc_key_bytes (pw : list N) : list N := firstn 8 (cstr pw ++ repeat 0 8).
(* encrypt_rfbdes: every key byte bit-reversed, then plain DES *)
Definition vnc_key (pw : list N) : N := bytes_to_N (map rev_byte (vnc_key_bytes pw)).

Definition des_block_bytes (dec : bool) (k : N) (blk : list N) : option (list N) :=
  match (if dec then des_decrypt else des_encrypt) k (bytes_to_N blk) with
  | None => None
  | Some y => Some (N_to_bytes 8 y)
  end.

(* ECB over the two 8-byte halves of a 16-byte challenge; None if the input is not 16 bytes *)
Definition vnc_encrypt (pw : list N) (chal : list N) : option (list N) :=
  if Nat.eqb (length chal) 16 then
    match des_block_bytes false (vnc_key pw) (firstn 8 chal),
          des_block_bytes false (vnc_key pw) (skipn 8 chal) with
    | Some a, Some b => Some (a ++ b)
    | _, _ => None
    end
  else None.

(* libgcrypt's is_weak_key (observed, see notes/C05.md): the 64 keys whose two 28-bit key
   halves are both one of the eight patterns of period <= 4 listed; used only by the model of
   the UNFIXED backend (Auth/AuthModel.v, cfg_weak_refused) *)
Definition weak_halves : list N :=
  [0; 53687091; 89478485; 107374182; 161061273; 178956970; 214748364; 268435455].
Definition gcrypt_weak (k : N) : bool :=
  let '(c, d) := key_cd k in
  existsb (N.eqb c) weak_halves && existsb (N.eqb d) weak_halves.
