(* Auth/AuthModel.v - executable mirror of the connection set-up / authentication state machine of
   libvncserver, as a *process*: one global security-handler list shared by all screens
   (auth.c: static securityHandlers), several screens, several connections.

   Mirrored C functions (src/libvncserver unless noted):
     auth.c      rfbRegisterSecurityHandler, rfbUnregisterSecurityHandler (pointer semantics incl. the
                 stale ->next of unregistered handlers), rfbSendSecurityTypeList, rfbSendSecurityType,
                 rfbAuthNewClient, rfbProcessClientSecurityType, rfbVncAuthSendChallenge, rfbVncAuthNone,
                 rfbAuthProcessClientMessage
     rfbserver.c rfbProcessClientProtocolVersion (sscanf "RFB %03d.%03d\n"), rfbClientSendString,
                 rfbProcessClientInitMessage (ServerInit + the default sharing decision),
                 rfbNewClient (server version line), rfbProcessClientMessage dispatch
     main.c      rfbDefaultPasswordCheck (password file), rfbCheckPasswordByList (view-only index)
     common/vncauth.c rfbEncryptBytes, rfbDecryptPasswdFromFile, rfbRandomBytes (oracle: byte queue)
     common/crypto_libgcrypt.c encrypt_rfbdes / decrypt_rfbdes (Auth/Des.v)

   The mirror is parametrised by [cfg]: [cfg_fixed] is the code with notes/fix_C05_1.diff and
   notes/fix_C05_2.diff applied (the theorems C05_sound / C05_complete are about it, and it is what
   the correspondence run executes); [cfg_legacy] is the code before the fixes (the *_refuted
   theorems are about it).  Definitions only; proofs in Auth/AuthProofs.v. *)
From Coq Require Import NArith ZArith List Bool.
From LV Require Import Auth.Des Gen.Consts_C05.
Import ListNotations.

Record cfg := mkCfg {
  cfg_global_check : bool;  (* true: rfbProcessClientSecurityType trusts the process-global list (before fix 1, commit 39c3ee3) *)
  cfg_weak_refused : bool;  (* true: the DES backend refuses weak keys and rfbEncryptBytes ignores it (before fix 2, commit fa69878) *)
  cfg_unreg_single : bool;  (* true: rfbUnregisterSecurityHandler unlinks exactly one handler and clears its ->next
                               (proposed notes/fix_C05_3.diff); false: it recurses on ->next (code as of /repo HEAD) *)
  cfg_ext : list Z;         (* the security types of the four application handler objects (ids 2..5) *)
  cfg_udp_gated : bool;     (* true: rfbProcessUDPInput drops datagrams on a screen that requires a password
                               (commit 93b245e = notes/fix_C05_4.diff); false: the code before it, every well-formed datagram is input *)
  cfg_enc_fail : bool;      (* true: the DES backend fails (encrypt_rfbdes / decrypt_rfbdes return 0): rfbEncryptBytes
                               fails closed with random bytes, rfbDecryptPasswdFromFile returns NULL *)
  cfg_check : list N -> list N -> bool;   (* an application-supplied passwordCheck callback: challenge -> response -> verdict
                               (screens of mode PwCustom); arbitrary *)
  cfg_tight : bool          (* true: object 2 is the library's own tightVncSecurityHandler (type 16), registered by
                               rfbRegisterTightVNCFileTransferExtension: choosing it starts the nested TightVNC
                               tunneling / authentication-capability negotiation of rfbtightserver.c *)
}.
(* the custom callback of the harness: accepts iff response = challenge with every byte xor 0x5a *)
Definition xor_check (chal resp : list N) : bool :=
  Nat.eqb (length chal) (length resp) && forallb (fun p => N.eqb (N.lxor (fst p) 90) (snd p)) (combine chal resp).
Definition default_ext : list Z := [16%Z; 30%Z; c05_rfbSecTypeVncAuth; c05_rfbSecTypeNone].
(* the code with fixes 1 and 2, parametrised by the list-handling variant and the application types *)
Definition cfgF (single : bool) (ext : list Z) (tight : bool) (chk : list N -> list N -> bool) : cfg :=
  mkCfg false false single ext true false chk tight.
(* the same with a DES backend that fails *)
Definition cfgE (single : bool) (ext : list Z) (tight : bool) (chk : list N -> list N -> bool) : cfg :=
  mkCfg false false single ext true true chk tight.
(* the same code with the UDP input path as it was before 93b245e: regression witness only *)
Definition cfgU (single : bool) (ext : list Z) (tight : bool) : cfg := mkCfg false false single ext false false xor_check tight.
Definition cfg_fixed : cfg := cfgF false default_ext false xor_check.     (* fixes 1+2, list handling before 019f1b9: regression witness *)
Definition cfg_fixed3 : cfg := cfgF true default_ext false xor_check.     (* /repo HEAD (019f1b9 = notes/fix_C05_3.diff) *)
Definition cfg_legacy : cfg := mkCfg true true false default_ext false false xor_check false.   (* before the fixes: regression witness only *)

(* ---------------------------------------------------------------- bytes *)
Definition be16 (x : N) : list N := N_to_bytes 2 x.
Definition be32 (x : N) : list N := N_to_bytes 4 x.
Definition zbyte (z : Z) : N := Z.to_N (Z.modulo z 256).

(* ---------------------------------------------------------------- global security-handler list *)
(* handler objects are identified by index; 0 and 1 are the two static built-in objects of
   auth.c, 2.. are application objects (the harness owns four).  [h_next] is the ->next field
   of every object (kept when the object is unregistered, exactly as in C). *)
Record hstore := mkHs { h_head : option nat; h_next : list (option nat) }.

Definition H_VNCAUTH : nat := 0.
Definition H_NONE : nat := 1.
Definition NHANDLERS : nat := 6.
Definition htypes (ext : list Z) : list Z := c05_rfbSecTypeVncAuth :: c05_rfbSecTypeNone :: ext.
Definition hstore_init : hstore := mkHs None (repeat None NHANDLERS).
Definition LIST_FUEL : nat := 16.
Definition REC_FUEL : nat := 40.

Fixpoint set_nth {A} (l : list A) (i : nat) (v : A) : list A :=
  match l, i with
  | [], _ => []
  | _ :: t, O => v :: t
  | x :: t, S j => x :: set_nth t j v
  end.

(* while(head != NULL) { if(head == handler) ...; head = head->next; } *)
Fixpoint hs_member (fuel : nat) (st : hstore) (cur : option nat) (h : nat) : option bool :=
  match fuel with
  | O => None
  | S f =>
      match cur with
      | None => Some false
      | Some c =>
          if Nat.eqb c h then Some true
          else match nth_error (h_next st) c with
               | None => None
               | Some nx => hs_member f st nx h
               end
      end
  end.

(* rfbRegisterSecurityHandler *)
Fixpoint hs_register (fuel : nat) (st : hstore) (h : option nat) : option hstore :=
  match fuel with
  | O => None
  | S f =>
      match h with
      | None => Some st
      | Some hid =>
          match nth_error (h_next st) hid with
          | None => None
          | Some next =>
              match hs_member LIST_FUEL st (h_head st) hid with
              | None => None
              | Some true => hs_register f st next
              | Some false =>
                  hs_register f (mkHs (Some hid) (set_nth (h_next st) hid (h_head st))) next
              end
          end
      end
  end.

(* the while(cur) loop of rfbUnregisterSecurityHandler: pre->next = cur->next *)
Fixpoint hs_unlink (fuel : nat) (st : hstore) (pre : nat) (cur : option nat) (h : nat) : option hstore :=
  match fuel with
  | O => None
  | S f =>
      match cur with
      | None => Some st
      | Some c =>
          match nth_error (h_next st) c with
          | None => None
          | Some cn =>
              if Nat.eqb c h then Some (mkHs (h_head st) (set_nth (h_next st) pre cn))
              else hs_unlink f st c cn h
          end
      end
  end.

(* rfbUnregisterSecurityHandler.
   single = false (/repo HEAD): note the recursion on handler->next, which after registration is the
     link of the global list: everything that follows the handler in the list is unregistered too,
     and the handler keeps its ->next.
   single = true (notes/fix_C05_3.diff): a registered handler is unlinked alone and its ->next is
     cleared; only for a handler that is not registered the caller-built ->next chain is followed. *)
Fixpoint hs_unregister (fuel : nat) (single : bool) (st : hstore) (h : option nat) : option hstore :=
  match fuel with
  | O => None
  | S f =>
      match h with
      | None => Some st
      | Some hid =>
          match nth_error (h_next st) hid with
          | None => None
          | Some next =>
              if single then
                match hs_member LIST_FUEL st (h_head st) hid with
                | None => None
                | Some false => hs_unregister f single st next
                | Some true =>
                    match h_head st with
                    | Some hd =>
                        if Nat.eqb hd hid then Some (mkHs next (set_nth (h_next st) hid None))
                        else match hs_unlink LIST_FUEL st hd (Some hd) hid with
                             | None => None
                             | Some st' => Some (mkHs (h_head st') (set_nth (h_next st') hid None))
                             end
                    | None => None
                    end
                end
              else
              match h_head st with
              | Some hd =>
                  if Nat.eqb hd hid then hs_unregister f single (mkHs next (h_next st)) next
                  else match hs_unlink LIST_FUEL st hd (Some hd) hid with
                       | None => None
                       | Some st' => hs_unregister f single st' next
                       end
              | None => hs_unregister f single st next
              end
          end
      end
  end.

Definition is_builtin (c : nat) : bool := Nat.eqb c H_VNCAUTH || Nat.eqb c H_NONE.

(* the for loop of rfbSendSecurityTypeList; [room] = MAX_SECURITY_TYPES - 1.
   legacy = false: (fix 1) a built-in handler other than the client's primary type is not
   advertised (it can be in the list on behalf of another client / through a stale ->next) *)
Fixpoint hs_types (fuel : nat) (tys : list Z) (legacy : bool) (primary : Z) (st : hstore) (cur : option nat) (room : nat)
  : option (list Z) :=
  match fuel with
  | O => None
  | S f =>
      match cur with
      | None => Some []
      | Some c =>
          match room with
          | O => Some []
          | S r =>
              match nth_error tys c, nth_error (h_next st) c with
              | Some t, Some nx =>
                  if negb legacy && is_builtin c && negb (Z.eqb t primary)
                  then hs_types f tys legacy primary st nx room
                  else match hs_types f tys legacy primary st nx r with
                       | None => None
                       | Some l => Some (t :: l)
                       end
              | _, _ => None
              end
          end
      end
  end.

Inductive hsel := HAuth | HNone | HExt (k : nat) | HReject.

Definition sel_of (c : nat) : hsel :=
  if Nat.eqb c H_VNCAUTH then HAuth else if Nat.eqb c H_NONE then HNone else HExt c.
Definition builtin_sel (primary : Z) : hsel :=
  if Z.eqb primary c05_rfbSecTypeNone then HNone else HAuth.

(* the lookup of rfbProcessClientSecurityType.
   legacy = true : first handler of the global list whose type is the chosen one.
   legacy = false: (fix 1) a built-in handler found in the list is skipped unless the chosen type
                   is this client's own primary type; if the loop finds nothing and the chosen
                   type is the client's primary type the built-in handler is used anyway. *)
Fixpoint hs_find (fuel : nat) (tys : list Z) (legacy : bool) (st : hstore) (cur : option nat) (chosen primary : Z)
  : option hsel :=
  match fuel with
  | O => None
  | S f =>
      match cur with
      | None => Some (if negb legacy && Z.eqb chosen primary then builtin_sel primary else HReject)
      | Some c =>
          match nth_error tys c, nth_error (h_next st) c with
          | Some t, Some nx =>
              if Z.eqb t chosen && (legacy || negb (is_builtin c) || Z.eqb chosen primary)
              then Some (sel_of c)
              else hs_find f tys legacy st nx chosen primary
          | _, _ => None
          end
      end
  end.

(* ---------------------------------------------------------------- screens and connections *)
Inductive pwmode :=
  | PwNone                                          (* authPasswdData == NULL *)
  | PwList (pws : list (list N)) (first_vo : Z)     (* rfbCheckPasswordByList *)
  | PwFile (content : list N)                       (* rfbDefaultPasswordCheck; < 8 bytes = unreadable *)
  | PwCustom.                                       (* authPasswdData set, passwordCheck = an application callback (cfg_check) *)

Record screen := mkScreen { s_pw : pwmode; s_w : N; s_h : N; s_name : list N }.

(* StTAuth / StTResp: inside rfbHandleSecTypeTight (cl->state is still RFB_SECURITY_TYPE): the server is
   blocked in rfbReadExact for the 4-byte TightVNC authentication type / for the 16-byte response *)
Inductive cstate := StPV | StSec | StTAuth | StTResp | StAuth | StInit | StNormal | StClosed.

(* the three messages of the statement: SecurityResult OK, SecurityResult failed, ServerInit *)
Inductive tok := TokOK | TokFail | TokSInit.

Record conn := mkConn {
  c_screen : nat;
  c_rev : bool;                 (* cl->reverseConnection *)
  c_st : cstate;
  c_minor : Z;                  (* cl->protocolMinorVersion *)
  c_chal : list N;              (* cl->authChallenge *)
  c_sent : list N;              (* ghost: the challenge as written to the wire *)
  c_resp : option (list N);     (* ghost: the response read in RFB_AUTHENTICATION *)
  c_vo : bool;                  (* cl->viewOnly *)
  c_out : list N;               (* everything written to the client so far *)
  c_ext : list nat;             (* application handlers invoked for this client *)
  c_pws : list (list N);        (* ghost: the passwords the screen accepted when the response was checked *)
  c_told : list tok;            (* ghost: what the client has been told on the wire, in order (see [say]) *)
  c_judged : option (list N * list N)   (* ghost: (challenge, response) for which a custom passwordCheck returned TRUE *)
}.

Definition set_st (c : conn) (s : cstate) : conn :=
  mkConn (c_screen c) (c_rev c) s (c_minor c) (c_chal c) (c_sent c) (c_resp c) (c_vo c) (c_out c) (c_ext c) (c_pws c) (c_told c) (c_judged c).
Definition add_out (c : conn) (b : list N) : conn :=
  mkConn (c_screen c) (c_rev c) (c_st c) (c_minor c) (c_chal c) (c_sent c) (c_resp c) (c_vo c) (c_out c ++ b) (c_ext c) (c_pws c) (c_told c) (c_judged c).
Definition set_minor (c : conn) (m : Z) : conn :=
  mkConn (c_screen c) (c_rev c) (c_st c) m (c_chal c) (c_sent c) (c_resp c) (c_vo c) (c_out c) (c_ext c) (c_pws c) (c_told c) (c_judged c).
Definition set_chal (c : conn) (ch : list N) : conn :=
  mkConn (c_screen c) (c_rev c) (c_st c) (c_minor c) ch (c_sent c) (c_resp c) (c_vo c) (c_out c) (c_ext c) (c_pws c) (c_told c) (c_judged c).
Definition set_sent (c : conn) (ch : list N) : conn :=
  mkConn (c_screen c) (c_rev c) (c_st c) (c_minor c) (c_chal c) ch (c_resp c) (c_vo c) (c_out c) (c_ext c) (c_pws c) (c_told c) (c_judged c).
Definition set_resp (c : conn) (r : list N) : conn :=
  mkConn (c_screen c) (c_rev c) (c_st c) (c_minor c) (c_chal c) (c_sent c) (Some r) (c_vo c) (c_out c) (c_ext c) (c_pws c) (c_told c) (c_judged c).
Definition set_vo (c : conn) (v : bool) : conn :=
  mkConn (c_screen c) (c_rev c) (c_st c) (c_minor c) (c_chal c) (c_sent c) (c_resp c) v (c_out c) (c_ext c) (c_pws c) (c_told c) (c_judged c).
Definition set_pws (c : conn) (l : list (list N)) : conn :=
  mkConn (c_screen c) (c_rev c) (c_st c) (c_minor c) (c_chal c) (c_sent c) (c_resp c) (c_vo c) (c_out c) (c_ext c) l (c_told c) (c_judged c).
(* write one of the three messages: its bytes go to the wire AND the token is recorded; these are the
   only places where SecurityResult / ServerInit bytes are written *)
Definition say (c : conn) (t : tok) (bytes : list N) : conn :=
  mkConn (c_screen c) (c_rev c) (c_st c) (c_minor c) (c_chal c) (c_sent c) (c_resp c) (c_vo c) (c_out c ++ bytes)
         (c_ext c) (c_pws c) (c_told c ++ [t]) (c_judged c).
Definition set_judged (c : conn) (j : list N * list N) : conn :=
  mkConn (c_screen c) (c_rev c) (c_st c) (c_minor c) (c_chal c) (c_sent c) (c_resp c) (c_vo c) (c_out c) (c_ext c) (c_pws c)
         (c_told c) (Some j).
Definition add_ext (c : conn) (k : nat) : conn :=
  mkConn (c_screen c) (c_rev c) (c_st c) (c_minor c) (c_chal c) (c_sent c) (c_resp c) (c_vo c) (c_out c) (c_ext c ++ [k]) (c_pws c) (c_told c) (c_judged c).

(* the part of the process a message handler may touch besides its own connection *)
Record env := mkEnv {
  e_hs : hstore;
  e_rand : list N;     (* bytes random() will return (rfbRandomBytes), 0 when exhausted *)
  e_err : bool         (* a list operation of the mirror ran out of fuel / bad index *)
}.
Definition env_hs (e : env) (o : option hstore) : env :=
  match o with
  | Some st => mkEnv st (e_rand e) (e_err e)
  | None => mkEnv (e_hs e) (e_rand e) true
  end.
Definition env_err (e : env) : env := mkEnv (e_hs e) (e_rand e) true.

(* ---------------------------------------------------------------- leaf functions *)
(* rfbEncryptBytes: in place; a refusing backend leaves the bytes as they are *)
Definition encrypt_bytes (cf : cfg) (pw : list N) (bytes : list N) : list N :=
  if cfg_weak_refused cf && gcrypt_weak (vnc_key pw) then bytes
  else match vnc_encrypt pw bytes with
       | Some r => r
       | None => bytes      (* not 16 bytes: never the case, see AuthProofs.chal_len_inv *)
       end.

Definition fixedkey : list N := map Z.to_N c05_fixedkey.

(* rfbDecryptPasswdFromFile: None = NULL *)
Definition decrypt_passwd_file (content : list N) : option (list N) :=
  if Nat.ltb (length content) 8 then None
  else match des_block_bytes true (bytes_to_N (map rev_byte fixedkey)) (firstn 8 content) with
       | Some p => Some (cstr p)
       | None => None
       end.

Definition bytes_eqb (a b : list N) : bool :=
  Nat.eqb (length a) (length b) && forallb (fun p => N.eqb (fst p) (snd p)) (combine a b).

(* rfbCheckPasswordByList: index of the first password whose encryption of the challenge equals
   the response *)
Fixpoint check_list (cf : cfg) (pws : list (list N)) (chal resp : list N) (i : Z) : option Z :=
  match pws with
  | [] => None
  | pw :: rest =>
      if bytes_eqb (encrypt_bytes cf pw chal) resp then Some i
      else check_list cf rest chal resp (i + 1)%Z
  end.

(* ---------------------------------------------------------------- version line *)
Local Open Scope N_scope.
Definition is_space (b : N) : bool := (b =? 32) || ((9 <=? b) && (b <=? 13)).
Definition is_digit (b : N) : bool := (48 <=? b) && (b <=? 57).
Fixpoint skip_ws (l : list N) : list N :=
  match l with
  | b :: t => if is_space b then skip_ws t else l
  | [] => []
  end.
Fixpoint scan_digits (w : nat) (l : list N) (acc : Z) (n : nat) : Z * nat * list N :=
  match w with
  | O => (acc, n, l)
  | S w' =>
      match l with
      | b :: t => if is_digit b then scan_digits w' t (acc * 10 + Z.of_N (b - 48))%Z (S n) else (acc, n, l)
      | [] => (acc, n, l)
      end
  end.
(* sscanf %03d : skip white space, optional sign (counts in the width), at least one digit *)
Definition scan_int3 (l : list N) : option (Z * list N) :=
  let l1 := skip_ws l in
  let '(neg, w, l2) :=
    match l1 with
    | b :: t => if b =? 43 then (false, 2%nat, t) else if b =? 45 then (true, 2%nat, t) else (false, 3%nat, l1)
    | [] => (false, 3%nat, l1)
    end in
  let '(v, n, rest) := scan_digits w l2 0%Z 0%nat in
  if Nat.eqb n 0 then None else Some (if neg then (- v)%Z else v, rest).

(* sscanf(pv, "RFB %03d.%03d\n", &major, &minor) == 2 on the NUL-terminated 12 bytes *)
Definition parse_version (msg : list N) : option (Z * Z) :=
  match cstr msg with
  | 82 :: 70 :: 66 :: t =>
      match scan_int3 t with
      | Some (ma, 46 :: t2) =>
          match scan_int3 t2 with
          | Some (mi, _) => Some (ma, mi)
          | None => None
          end
      | _ => None
      end
  | _ => None
  end.

Definition dig3 (z : Z) : list N :=
  [48 + Z.to_N ((z / 100) mod 10); 48 + Z.to_N ((z / 10) mod 10); 48 + Z.to_N (z mod 10)].
Definition server_version : list N :=
  [82; 70; 66; 32] ++ dig3 c05_rfbProtocolMajorVersion ++ [46] ++ dig3 c05_rfbProtocolMinorVersion ++ [10].

(* serverFormat of rfbGetScreen(.., 8 bits per sample, 3 samples, 4 bytes per pixel; depth = 32, TRUE = -1) on a
   little-endian host, as sent in ServerInit *)
Definition server_format : list N := [32; 32; 0; 255; 0; 255; 0; 255; 0; 255; 0; 8; 16; 0; 0; 0].
Definition server_init (s : screen) : list N :=
  be16 (s_w s) ++ be16 (s_h s) ++ server_format ++ be32 (N.of_nat (length (s_name s))) ++ s_name s.

Definition reason_failed : list N :=   (* "password check failed!" *)
  [112;97;115;115;119;111;114;100;32;99;104;101;99;107;32;102;97;105;108;101;100;33].
Definition auth_ok : list N := be32 (Z.to_N c05_rfbVncAuthOK).
Definition auth_failed : list N := be32 (Z.to_N c05_rfbVncAuthFailed).
Local Close Scope N_scope.

(* ---------------------------------------------------------------- message handlers *)
Definition has_password (s : screen) : bool :=
  match s_pw s with PwNone => false | _ => true end.

(* rfbAuthNewClient: the security type this client needs *)
Definition primary_type (s : screen) (c : conn) : Z :=
  if negb (has_password s) || c_rev c then c05_rfbSecTypeNone else c05_rfbSecTypeVncAuth.

Definition take_rand (rand : list N) (n : nat) : list N * list N :=
  (firstn n (rand ++ repeat 0%N n), skipn n rand).

(* rfbVncAuthSendChallenge *)
Definition send_challenge (e : env) (c : conn) : env * conn :=
  let '(ch, rest) := take_rand (e_rand e) (Z.to_nat c05_CHALLENGESIZE) in
  (mkEnv (e_hs e) rest (e_err e),
   set_st (add_out (set_sent (set_chal c ch) ch) ch) StAuth).

(* the tail of rfbProcessClientInitMessage after the ClientInit byte is known.
   returns the connection and whether the other RFB_NORMAL clients of the screen are closed
   (default screen flags: neverShared = alwaysShared = dontDisconnect = FALSE; C14 covers the rest) *)
Definition client_init (s : screen) (c : conn) (shared : N) : conn * bool :=
  (set_st (say c TokSInit (server_init s)) StNormal, negb (c_rev c) && N.eqb shared 0).

(* rfbVncAuthNone *)
Definition auth_none (s : screen) (c : conn) : conn * bool :=
  let c1 := if (7 <? c_minor c)%Z && negb (c_minor c =? 889)%Z then say c TokOK auth_ok else c in
  if (c_minor c =? 889)%Z then client_init s c1 1%N    (* RFB_INITIALISATION_SHARED *)
  else (set_st c1 StInit, false).

(* rfbSendSecurityTypeList: the switch that (un)registers the built-in handlers globally ... *)
Definition offer_store (single : bool) (st0 : hstore) (primary : Z) : option hstore :=
  if Z.eqb primary c05_rfbSecTypeNone then
    match hs_unregister REC_FUEL single st0 (Some H_VNCAUTH) with
    | Some st1 => hs_register REC_FUEL st1 (Some H_NONE)
    | None => None
    end
  else
    match hs_unregister REC_FUEL single st0 (Some H_NONE) with
    | Some st1 => hs_register REC_FUEL st1 (Some H_VNCAUTH)
    | None => None
    end.
(* ... and the loop that copies the types of the global list into the message *)
Definition offer_types (tys : list Z) (legacy : bool) (primary : Z) (st : hstore) : option (list Z) :=
  hs_types (S (Z.to_nat c05_MAX_SECURITY_TYPES)) tys legacy primary st (h_head st) (Z.to_nat c05_MAX_SECURITY_TYPES - 1).

Definition send_type_list (cf : cfg) (e : env) (c : conn) (primary : Z) : env * conn :=
  match offer_store (cfg_unreg_single cf) (e_hs e) primary with
  | None => (env_err e, set_st c StClosed)
  | Some st2 =>
      match offer_types (htypes (cfg_ext cf)) (cfg_global_check cf) primary st2 with
      | None => (env_err (env_hs e (Some st2)), set_st c StClosed)
      | Some tys =>
          (env_hs e (Some st2),
           set_st (add_out c (N.of_nat (length tys) :: map zbyte tys)) StSec)
      end
  end.

(* rfbSendSecurityType (protocol 3.3) *)
Definition send_type_33 (e : env) (c : conn) (primary : Z) : env * conn :=
  let c1 := add_out c (be32 (Z.to_N primary)) in
  if Z.eqb primary c05_rfbSecTypeNone then (e, set_st c1 StInit)
  else send_challenge e c1.

(* rfbAuthNewClient *)
Definition auth_new_client (cf : cfg) (s : screen) (e : env) (c : conn) : env * conn :=
  let primary := primary_type s c in
  if (c_minor c <? 7)%Z then send_type_33 e c primary else send_type_list cf e c primary.

(* rfbProcessClientProtocolVersion *)
Definition on_version (cf : cfg) (s : screen) (e : env) (c : conn) (msg : list N) : env * conn :=
  match parse_version msg with
  | None => (e, set_st c StClosed)
  | Some (ma, mi) =>
      if negb (Z.eqb ma c05_rfbProtocolMajorVersion) then (e, set_st c StClosed)
      else auth_new_client cf s e (set_minor c mi)
  end.

(* rfbHandleSecTypeTight -> rfbSendTunnelingCaps (no tunnelling: count 0) -> rfbSendAuthCaps: one
   capability (VNC authentication, vendor "STDV", name "VNCAUTH_") iff the screen has a password and
   the connection is not a reverse one, else none and the client is let in *)
Definition tight_vnc_cap : list N :=
  be32 (Z.to_N c05_rfbSecTypeVncAuth) ++ [83; 84; 68; 86]%N ++ [86; 78; 67; 65; 85; 84; 72; 95]%N.
Definition tight_start (s : screen) (c : conn) : conn :=
  let c1 := add_out c (be32 0) in
  if has_password s && negb (c_rev c) then
    set_st (add_out c1 (be32 1 ++ tight_vnc_cap)) StTAuth
  else
    let c2 := add_out c1 (be32 0) in
    set_st (if (7 <? c_minor c)%Z then say c2 TokOK auth_ok else c2) StInit.

(* rfbProcessClientSecurityType *)
Definition on_sectype (cf : cfg) (s : screen) (e : env) (c : conn) (chosen : N) : env * conn * bool :=
  match hs_find LIST_FUEL (htypes (cfg_ext cf)) (cfg_global_check cf) (e_hs e) (h_head (e_hs e)) (Z.of_N chosen) (primary_type s c) with
  | None => (env_err e, set_st c StClosed, false)
  | Some HReject => (e, set_st c StClosed, false)
  | Some HAuth => let '(e', c') := send_challenge e c in (e', c', false)
  | Some HNone => let '(c', co) := auth_none s c in (e, c', co)
  | Some (HExt k) =>
      if cfg_tight cf && Nat.eqb k 2 then (e, tight_start s c, false)
      else (e, set_st (add_ext c k) StClosed, false)   (* harness handler: log + rfbCloseClient *)
  end.

(* rfbProcessClientAuthType (rfbtightserver.c): the chosen authentication type must be in the list
   sent (only VNC authentication is ever offered); then the challenge, and rfbAuthProcessClientMessage
   is called at once *)
Definition on_tight_auth (e : env) (c : conn) (msg : list N) : env * conn :=
  if N.eqb (bytes_to_N msg) (Z.to_N c05_rfbSecTypeVncAuth) then
    let '(e', c') := send_challenge e c in (e', set_st c' StTResp)
  else (e, set_st c StClosed).

(* screen->passwordCheck(cl, response, CHALLENGESIZE).
   PwNone (only reachable before fix 1): the screen keeps the default rfbDefaultPasswordCheck,
   rfbDecryptPasswdFromFile(NULL) fails (fopen(NULL) = EFAULT) and the check says FALSE. *)
Definition password_check (cf : cfg) (s : screen) (c : conn) (resp : list N) : bool * conn :=
  match s_pw s with
  | PwNone => (false, c)
  | PwCustom =>
      if cfg_check cf (c_chal c) resp then (true, set_judged c (c_chal c, resp)) else (false, c)
  | PwList pws fvo =>
      if cfg_enc_fail cf then (false, c) else    (* every auth_tmp is random bytes: no match *)
      match check_list cf pws (c_chal c) resp 0%Z with
      | Some i => (true, if (fvo <=? i)%Z then set_vo c true else c)
      | None => (false, c)
      end
  | PwFile content =>
      if cfg_enc_fail cf then (false, c) else    (* rfbDecryptPasswdFromFile fails: "Couldn't read password file" *)
      match decrypt_passwd_file content with
      | None => (false, c)
      | Some pw =>
          let enc := encrypt_bytes cf pw (c_chal c) in
          (bytes_eqb enc resp, set_chal c enc)
      end
  end.

(* the passwords a screen accepts *)
Definition screen_passwords (s : screen) : list (list N) :=
  match s_pw s with
  | PwNone => []
  | PwList pws _ => pws
  | PwFile content => match decrypt_passwd_file content with Some pw => [pw] | None => [] end
  | PwCustom => []
  end.
(* rfbAuthProcessClientMessage *)
Definition on_response (cf : cfg) (s : screen) (e : env) (c : conn) (resp : list N) : env * conn :=
  let c0 := set_pws (set_resp c resp) (screen_passwords s) in
  match password_check cf s c0 resp with
  | (false, c1) =>
      let c2 := say c1 TokFail auth_failed in
      let c3 := if (7 <? c_minor c)%Z
                then add_out c2 (be32 (N.of_nat (length reason_failed)) ++ reason_failed) else c2 in
      (e, set_st c3 StClosed)
  | (true, c1) => (e, set_st (say c1 TokOK auth_ok) StInit)
  end.

Definition msg_len (st : cstate) : nat :=
  match st with
  | StPV => Z.to_nat c05_sz_rfbProtocolVersionMsg
  | StSec => 1
  | StAuth => Z.to_nat c05_CHALLENGESIZE
  | StTAuth => 4
  | StTResp => Z.to_nat c05_CHALLENGESIZE
  | StInit => Z.to_nat c05_sz_rfbClientInitMsg
  | _ => 0
  end.

(* rfbProcessClientMessage for one complete message of the length the state asks for *)
Definition on_message (cf : cfg) (s : screen) (e : env) (c : conn) (msg : list N) : env * conn * bool :=
  match c_st c with
  | StPV => let '(e', c') := on_version cf s e c msg in (e', c', false)
  | StSec =>
      match msg with
      | b :: _ => on_sectype cf s e c b
      | [] => (env_err e, c, false)
      end
  | StAuth => let '(e', c') := on_response cf s e c msg in (e', c', false)
  | StTAuth => let '(e', c') := on_tight_auth e c msg in (e', c', false)
  | StTResp => let '(e', c') := on_response cf s e c msg in (e', c', false)
  | StInit =>
      match msg with
      | b :: _ => let '(c', co) := client_init s c b in (e, c', co)
      | [] => (env_err e, c, false)
      end
  | _ => (e, c, false)
  end.

(* ---------------------------------------------------------------- the process *)
Record proc := mkProc {
  p_hs : hstore;
  p_screens : list screen;
  p_conns : list conn;
  p_rand : list N;
  p_err : bool;
  p_unmod : bool;      (* bytes were sent to a client in RFB_NORMAL: outside this model *)
  p_udp : list nat;    (* screens whose UDP input port is open (screen->udpPort != 0) *)
  p_input : list nat   (* ghost: for every input event handed to the application through the UDP
                          channel (kbdAddEvent / ptrAddEvent from rfbProcessUDPInput), the screen *)
}.
Definition proc_init : proc := mkProc hstore_init [] [] [] false false [] [].

Definition env_of (p : proc) : env := mkEnv (p_hs p) (p_rand p) (p_err p).

(* non-shared ClientInit: rfbCloseClient on every other RFB_NORMAL client of the same screen *)
Definition is_normal (c : conn) : bool := match c_st c with StNormal => true | _ => false end.
Fixpoint close_others_from (i : nat) (conns : list conn) (ci scr : nat) : list conn :=
  match conns with
  | [] => []
  | c :: t =>
      (if negb (Nat.eqb i ci) && Nat.eqb (c_screen c) scr && is_normal c then set_st c StClosed else c)
      :: close_others_from (S i) t ci scr
  end.
Definition close_others (conns : list conn) (ci scr : nat) : list conn := close_others_from 0 conns ci scr.

Definition put_conn (p : proc) (e : env) (ci : nat) (c : conn) (co : bool) : proc :=
  let conns1 := set_nth (p_conns p) ci c in
  let conns2 := if co then close_others conns1 ci (c_screen c) else conns1 in
  mkProc (e_hs e) (p_screens p) conns2 (e_rand e) (e_err e) (p_unmod p) (p_udp p) (p_input p).

Definition flag_err (p : proc) : proc :=
  mkProc (p_hs p) (p_screens p) (p_conns p) (p_rand p) true (p_unmod p) (p_udp p) (p_input p).
Definition flag_unmod (p : proc) : proc :=
  mkProc (p_hs p) (p_screens p) (p_conns p) (p_rand p) (p_err p) true (p_udp p) (p_input p).

(* states in which the server sits in a blocking rfbReadExact inside a handler: if the bytes are not
   already there the read times out and the client is closed *)
Definition blocking (st : cstate) : bool := match st with StTAuth | StTResp => true | _ => false end.

(* bytes [buf] arrive on connection [ci] (all at once), optionally followed by the peer shutting
   down its sending side; the server then processes one message per event-loop round until the
   socket is drained.  An incomplete message ends in rfbReadExact failing (time-out or EOF):
   rfbCloseClient.  fuel: every round consumes at least one byte. *)
Fixpoint deliver (fuel : nat) (cf : cfg) (p : proc) (ci : nat) (buf : list N) (eof : bool) : proc :=
  match fuel with
  | O => flag_err p
  | S f =>
      match nth_error (p_conns p) ci with
      | None => flag_err p
      | Some c =>
          match c_st c with
          | StClosed => p
          | StNormal =>
              match buf with
              | _ :: _ => flag_unmod p
              | [] => if eof then put_conn p (env_of p) ci (set_st c StClosed) false else p
              end
          | st =>
              match buf with
              | [] => if eof || blocking st then put_conn p (env_of p) ci (set_st c StClosed) false else p
              | _ :: _ =>
                  let n := msg_len st in
                  if Nat.ltb (length buf) n then put_conn p (env_of p) ci (set_st c StClosed) false
                  else
                    match nth_error (p_screens p) (c_screen c) with
                    | None => flag_err p
                    | Some s =>
                        let '(e', c', co) := on_message cf s (env_of p) c (firstn n buf) in
                        match n with
                        | O => flag_err p
                        | S _ => deliver f cf (put_conn p e' ci c' co) ci (skipn n buf) eof
                        end
                    end
              end
          end
      end
  end.

Inductive op :=
  | OScreen (s : screen)                                   (* rfbGetScreen + rfbInitServer *)
  | OReg (k : nat)                                         (* application: rfbRegisterSecurityHandler(&ext[k]) *)
  | OUnreg (k : nat)                                       (* application: rfbUnregisterSecurityHandler(&ext[k]) *)
  | ORand (bytes : list N)                                 (* what random() will return next *)
  | OConn (s : nat) (rev : bool) (bytes : list N) (eof : bool)   (* rfbNewClient / reverse connection *)
  | OSend (c : nat) (bytes : list N) (eof : bool)
  | OSetFile (s : nat) (content : list N)                  (* the password file of screen s is rewritten *)
  | OSetList (s : nat) (pws : list (list N)) (first_vo : Z)   (* authPasswdData / authPasswdFirstViewOnly of a
                                                                  password-list screen are replaced *)
  | OUdpOn (s : nat)                                       (* the screen's UDP input port is opened *)
  | OUdp (s : nat) (bytes : list N).                       (* a datagram from an arbitrary (unauthenticated) peer *)

Definition udp_wellformed (bytes : list N) : bool :=
  match bytes with
  | t :: _ => (N.eqb t (Z.to_N c05_rfbKeyEvent) && Nat.eqb (length bytes) (Z.to_nat c05_sz_rfbKeyEventMsg)) ||
              (N.eqb t (Z.to_N c05_rfbPointerEvent) && Nat.eqb (length bytes) (Z.to_nat c05_sz_rfbPointerEventMsg))
  | [] => false
  end.

Definition is_ext (k : nat) : bool := Nat.leb 2 k && Nat.ltb k NHANDLERS.

Definition with_hs (p : proc) (o : option hstore) : proc :=
  match o with
  | Some st => mkProc st (p_screens p) (p_conns p) (p_rand p) (p_err p) (p_unmod p) (p_udp p) (p_input p)
  | None => flag_err p
  end.

Definition new_conn (s : nat) (rev : bool) : conn :=
  mkConn s rev StPV 0%Z [] [] None false server_version [] [] [] None.

Definition step (cf : cfg) (p : proc) (o : op) : proc :=
  match o with
  | OScreen s => mkProc (p_hs p) (p_screens p ++ [s]) (p_conns p) (p_rand p) (p_err p) (p_unmod p) (p_udp p) (p_input p)
  | OReg k => if is_ext k then with_hs p (hs_register REC_FUEL (p_hs p) (Some k)) else flag_err p
  | OUnreg k => if is_ext k then with_hs p (hs_unregister REC_FUEL (cfg_unreg_single cf) (p_hs p) (Some k)) else flag_err p
  | ORand b => mkProc (p_hs p) (p_screens p) (p_conns p) (p_rand p ++ b) (p_err p) (p_unmod p) (p_udp p) (p_input p)
  | OConn s rev bytes eof =>
      match nth_error (p_screens p) s with
      | None => flag_err p
      | Some _ =>
          let ci := length (p_conns p) in
          let p1 := mkProc (p_hs p) (p_screens p) (p_conns p ++ [new_conn s rev]) (p_rand p)
                           (p_err p) (p_unmod p) (p_udp p) (p_input p) in
          deliver (S (length bytes)) cf p1 ci bytes eof
      end
  | OSend c bytes eof => deliver (S (length bytes)) cf p c bytes eof
  | OSetFile s content =>
      match nth_error (p_screens p) s with
      | Some scr =>
          match s_pw scr with
          | PwFile _ =>
              mkProc (p_hs p) (set_nth (p_screens p) s (mkScreen (PwFile content) (s_w scr) (s_h scr) (s_name scr)))
                     (p_conns p) (p_rand p) (p_err p) (p_unmod p) (p_udp p) (p_input p)
          | _ => flag_err p
          end
      | None => flag_err p
      end
  | OSetList s pws fvo =>
      match nth_error (p_screens p) s with
      | Some scr =>
          match s_pw scr with
          | PwList _ _ =>
              mkProc (p_hs p) (set_nth (p_screens p) s (mkScreen (PwList pws fvo) (s_w scr) (s_h scr) (s_name scr)))
                     (p_conns p) (p_rand p) (p_err p) (p_unmod p) (p_udp p) (p_input p)
          | _ => flag_err p
          end
      | None => flag_err p
      end
  | OUdpOn s =>
      match nth_error (p_screens p) s with
      | Some _ => mkProc (p_hs p) (p_screens p) (p_conns p) (p_rand p) (p_err p) (p_unmod p)
                         (if existsb (Nat.eqb s) (p_udp p) then p_udp p else s :: p_udp p) (p_input p)
      | None => flag_err p
      end
  | OUdp s bytes =>
      (* rfbCheckFds -> rfbProcessUDPInput: a KeyEvent datagram of 8 bytes or a PointerEvent datagram of
         6 bytes goes straight to kbdAddEvent / ptrAddEvent; there is no state, no authentication *)
      match nth_error (p_screens p) s with
      | Some scr =>
          if existsb (Nat.eqb s) (p_udp p) && udp_wellformed bytes &&
             negb (cfg_udp_gated cf && has_password scr)
          then mkProc (p_hs p) (p_screens p) (p_conns p) (p_rand p) (p_err p) (p_unmod p) (p_udp p) (p_input p ++ [s])
          else p
      | None => flag_err p
      end
  end.

Definition run (cf : cfg) (p : proc) (ops : list op) : proc := fold_left (step cf) ops p.

(* ---------------------------------------------------------------- vocabulary of the theorems *)
Definition protected (s : screen) (c : conn) : bool := has_password s && negb (c_rev c).
Definition granted (c : conn) : bool :=
  match c_st c with StInit | StNormal => true | _ => false end.
(* the client has answered the challenge that was sent to it with its DES encryption under one
   of the passwords that were configured on its screen when the answer was checked (c_pws is set
   to [screen_passwords] of the screen by on_response; the password file may change later) *)
(* the client has been told that authentication succeeded, or has been given ServerInit *)
Definition told_in (c : conn) : Prop := In TokOK (c_told c) \/ In TokSInit (c_told c).
Definition proved (c : conn) : Prop :=
  exists r, c_resp c = Some r /\
    ((exists pw, In pw (c_pws c) /\ vnc_encrypt pw (c_sent c) = Some r) \/   (* the two built-in callbacks *)
     c_judged c = Some (c_sent c, r)).                                        (* any other callback said TRUE *)

(* observation of one connection, printed by the drivers *)
Definition st_code (s : cstate) : Z :=
  match s with
  | StPV => c05_RFB_PROTOCOL_VERSION
  | StSec => c05_RFB_SECURITY_TYPE
  | StAuth => c05_RFB_AUTHENTICATION
  | StTAuth | StTResp => c05_RFB_SECURITY_TYPE
  | StInit => c05_RFB_INITIALISATION
  | StNormal => c05_RFB_NORMAL
  | StClosed => (-1)%Z
  end.
