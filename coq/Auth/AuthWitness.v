(* Auth/AuthWitness.v - concrete traces (all by vm_compute): non-vacuity of the theorems of
   Auth/AuthProofs.v, the regression witnesses for the code before the fixes (cfg_legacy: F1a, F1b),
   and the list-handling defects that remain at /repo HEAD (cfg_fixed) and that
   notes/fix_C05_3.diff (cfg_fixed3) repairs. *)
From Coq Require Import NArith ZArith List Bool Lia.
From LV Require Import Auth.Des Auth.DesProofs Auth.AuthModel Auth.HandlerSweep Auth.AuthProofs Gen.Consts_C05.
Import ListNotations.

Definition demo_pw : list N := [112;97;115;115;119;111;114;100]%N.     (* "password" *)
Definition demo_pw2 : list N := [115;101;99;114;101;116]%N.            (* "secret" *)
Definition demo_chal : list N := map N.of_nat (seq 0 16).
Definition demo_screen : screen := mkScreen (PwList [demo_pw] 1) 4 3 [112; 114]%N.
Definition open_screen : screen := mkScreen PwNone 5 6 [111; 112]%N.
Definition v38 : list N := [82;70;66;32;48;48;51;46;48;48;56;10]%N.
Definition v33 : list N := [82;70;66;32;48;48;51;46;48;48;51;10]%N.
Definition resp_of (pw chal : list N) : list N := match vnc_encrypt pw chal with Some r => r | None => [] end.
Definition demo_resp : list N := resp_of demo_pw demo_chal.
Definition demo_trace : list op :=
  [OScreen demo_screen; ORand demo_chal; OConn 0 false v38 false; OSend 0 [2%N] false;
   OSend 0 demo_resp false; OSend 0 [1%N] false].

Definition some_protected_granted (p : proc) : bool :=
  existsb (fun c => match nth_error (p_screens p) (c_screen c) with
                    | Some s => protected s c && granted c
                    | None => false
                    end) (p_conns p).

(* ---- non-vacuity of C05_sound (both list-handling variants) *)
Example sound_fixed_nonvacuous :
  some_protected_granted (run cfg_fixed proc_init demo_trace) = true /\
  some_protected_granted (run cfg_fixed3 proc_init demo_trace) = true.
Proof. vm_compute. split; reflexivity. Qed.

(* ---- the hypotheses of C05_no_error_flag_4handlers are satisfiable *)
Example no_error_nonvacuous :
  valid_run cfg_fixed3 proc_init (demo_trace ++ [OReg 2; OUnreg 2; OUdpOn 0; OUdp 0 [4%N]; OSetFile 0 []]) -> True.
Proof. trivial. Qed.
Example no_error_valid : valid_run cfg_fixed3 proc_init (demo_trace ++ [OReg 2; OUnreg 2; OUdpOn 0; OUdp 0 [4%N]]).
Proof. vm_compute. repeat split; repeat constructor. Qed.

(* ---- the code before the fixes (regression witnesses) *)
(* section 7 F1a: X (connection 0) of a protected screen is in RFB_SECURITY_TYPE, a connection to a
   password-less screen rewrites the process-global list to {None}, X chooses type 1 *)
Definition f1a_trace : list op :=
  [OScreen demo_screen; OScreen open_screen; OConn 0 false v38 false; OConn 1 false v38 false;
   OSend 0 [1%N] false; OSend 0 [1%N] false].

Lemma sound_global_list_refuted :
  exists ops c s, let p := run cfg_legacy proc_init ops in
    In c (p_conns p) /\ nth_error (p_screens p) (c_screen c) = Some s /\
    protected s c = true /\ c_st c = StNormal /\ ~ proved c.
Proof.
  exists f1a_trace.
  exists (nth 0 (p_conns (run cfg_legacy proc_init f1a_trace)) (new_conn 0 false)), demo_screen.
  cbv zeta. split; [|split; [|split; [|split]]].
  - vm_compute. left. reflexivity.
  - vm_compute. reflexivity.
  - vm_compute. reflexivity.
  - vm_compute. reflexivity.
  - intros [r [H _]]. vm_compute in H. discriminate.
Qed.

Example f1a_trace_fixed :
  map c_st (p_conns (run cfg_fixed proc_init f1a_trace)) = [StClosed; StSec] /\
  map c_st (p_conns (run cfg_fixed3 proc_init f1a_trace)) = [StClosed; StSec].
Proof. vm_compute. split; reflexivity. Qed.

Definition f1a_rev_trace : list op :=
  [OScreen demo_screen; OConn 0 false v38 false; OConn 0 true v38 false; OSend 0 [1%N] false].
Example f1a_rev_legacy : map c_st (p_conns (run cfg_legacy proc_init f1a_rev_trace)) = [StInit; StSec].
Proof. vm_compute. reflexivity. Qed.
Example f1a_rev_fixed : map c_st (p_conns (run cfg_fixed proc_init f1a_rev_trace)) = [StClosed; StSec].
Proof. vm_compute. reflexivity. Qed.

(* section 7 F1b: empty password = all-zero DES key *)
Definition weak_screen : screen := mkScreen (PwList [[]] 1) 4 3 [119]%N.
Definition f1b_trace : list op :=
  [OScreen weak_screen; ORand demo_chal; OConn 0 false v33 false; OSend 0 demo_chal false].

Lemma weakkey_refuted :
  exists ops c s, let p := run cfg_legacy proc_init ops in
    In c (p_conns p) /\ nth_error (p_screens p) (c_screen c) = Some s /\
    protected s c = true /\ c_st c = StInit /\ ~ proved c.
Proof.
  exists f1b_trace.
  exists (nth 0 (p_conns (run cfg_legacy proc_init f1b_trace)) (new_conn 0 false)), weak_screen.
  cbv zeta. split; [|split; [|split; [|split]]].
  - vm_compute. left. reflexivity.
  - vm_compute. reflexivity.
  - vm_compute. reflexivity.
  - vm_compute. reflexivity.
  - intros [r [H1 [[pw [H2 H3]]|H4]]]; vm_compute in H1; injection H1 as <-.
    + vm_compute in H2. destruct H2 as [<-|[]]. vm_compute in H3. discriminate.
    + vm_compute in H4. discriminate.
Qed.

Definition weak_resp : list N := resp_of [] demo_chal.
Definition f1b_trace2 : list op :=
  [OScreen weak_screen; ORand demo_chal; OConn 0 false v33 false; OSend 0 weak_resp false].
Lemma weakkey_complete_refuted :
  map c_st (p_conns (run cfg_legacy proc_init f1b_trace2)) = [StClosed] /\
  map c_st (p_conns (run cfg_fixed proc_init f1b_trace2)) = [StInit] /\
  map c_st (p_conns (run cfg_fixed proc_init f1b_trace)) = [StClosed].
Proof. vm_compute. repeat split. Qed.

Definition f1a_refused_trace : list op :=
  [OScreen demo_screen; OScreen open_screen; ORand demo_chal; OConn 0 false v38 false; OConn 1 false v38 false;
   OSend 0 [2%N] false].
Lemma complete_interleaved_legacy_refuted :
  map c_st (p_conns (run cfg_legacy proc_init f1a_refused_trace)) = [StClosed; StSec] /\
  map c_st (p_conns (run cfg_fixed proc_init f1a_refused_trace)) = [StAuth; StSec].
Proof. vm_compute. split; reflexivity. Qed.

(* ---- what remains at /repo HEAD in the list handling itself (application handlers), and is
   repaired by notes/fix_C05_3.diff.  Observable: the type list sent to a new >= 3.7 client. *)
Definition offered (cf : cfg) (ops : list op) (ci : nat) : list N :=
  match nth_error (p_conns (run cf proc_init ops)) ci with
  | Some c => skipn 12 (c_out c)
  | None => []
  end.

(* F1c root cause: unregistering the application handler e3 (type 30) also unregisters e2 (type 16,
   the TightVNC security type) which the application never unregistered *)
Definition f1c_app_trace : list op := [OScreen open_screen; OReg 2; OReg 3; OUnreg 3; OConn 0 false v38 false].
Lemma unregister_chain_remains :
  offered cfg_fixed f1c_app_trace 0 = [1; 1]%N /\          (* count 1: [None]; type 16 is gone *)
  offered cfg_fixed3 f1c_app_trace 0 = [2; 1; 16]%N.       (* [None, 16] *)
Proof. vm_compute. split; reflexivity. Qed.

(* F1d root cause: the application unregisters e2 (type 16); a later connection to the protected
   screen re-links it through the ->next the built-in VncAuth handler kept: type 16 is advertised
   (and would be run) again.  Connection 1 (open screen) also shows the connection-driven variant of
   F1c: e2, registered at that time, is not advertised to it. *)
Definition f1d_app_trace : list op :=
  [OScreen demo_screen; OScreen open_screen; OReg 2; OConn 0 false v38 false; OConn 1 false v38 false;
   OUnreg 2; OConn 0 false v38 false].
Lemma stale_next_remains :
  offered cfg_fixed f1d_app_trace 2 = [2; 16; 2]%N /\ offered cfg_fixed f1d_app_trace 1 = [1; 1]%N /\
  offered cfg_fixed3 f1d_app_trace 2 = [1; 2]%N /\ offered cfg_fixed3 f1d_app_trace 1 = [2; 1; 16]%N.
Proof. vm_compute. repeat split. Qed.

(* ---- non-vacuity of C05_complete: application handlers (TightVNC type 16, type 30, and two
   arbitrary types) are registered and unregistered, other clients connect, between the messages *)
Definition good_ext : list Z := [16; 30; 77; 200]%Z.
Example complete_fixed_nonvacuous :
  let cf := cfgF false good_ext false xor_check in
  let p0 := run cf proc_init [OScreen demo_screen; OScreen open_screen; OReg 2; ORand demo_chal] in
  let tr := [OConn 1 false v38 false; OReg 3; OSend 1 [1%N] false; OUnreg 2; OConn 0 true v38 false; OReg 5] in
  acyc (p_hs p0) = true /\ ext_ok good_ext /\ nth_error (p_screens p0) 0 = Some demo_screen /\
  has_password demo_screen = true /\ In demo_pw (screen_passwords demo_screen) /\
  parse_version v38 = Some (c05_rfbProtocolMajorVersion, 8%Z) /\
  forallb (foreign (length (p_conns p0)) 0) tr = true /\
  vnc_encrypt demo_pw demo_chal = Some demo_resp.
Proof.
  cbv zeta. split; [vm_compute; reflexivity|]. split.
  { split; [reflexivity|]. repeat constructor; discriminate. }
  split; [reflexivity|]. split; [reflexivity|]. split; [left; reflexivity|].
  split; [vm_compute; reflexivity|]. split; vm_compute; reflexivity.
Qed.

(* ---- TightVNC security type 16 with the library's own handler registered (object 2): the client
   sends type 16, the 4-byte authentication type and (for VNC authentication) the response in one go *)
Definition tight_cfg : cfg := cfgF true default_ext true xor_check.
Definition tight_trace (auth resp : list N) : list op :=
  [OScreen demo_screen; OReg 2; ORand demo_chal; OConn 0 false v38 false; OSend 0 ([16%N] ++ auth ++ resp) false].
Lemma tight_negotiation :
  map c_st (p_conns (run tight_cfg proc_init (tight_trace [0;0;0;1]%N []))) = [StClosed] /\
  map c_st (p_conns (run tight_cfg proc_init (tight_trace [0;0;0;2]%N demo_resp))) = [StInit] /\
  map c_st (p_conns (run tight_cfg proc_init (tight_trace [0;0;0;2]%N demo_chal))) = [StClosed] /\
  map c_st (p_conns (run tight_cfg proc_init (tight_trace [0;0;0;2]%N []))) = [StClosed].
Proof. vm_compute. repeat split. Qed.

(* ---- UDP input channel before 93b245e (cfgU, regression witness): a KeyEvent datagram from a peer
   that never spoke to the server is handed to the application of a password-protected screen *)
Definition udp_key : list N := [4; 1; 0; 0; 0; 0; 0; 97]%N.
Definition udp_trace : list op := [OScreen demo_screen; OUdpOn 0; OUdp 0 udp_key].
Lemma udp_input_refuted :
  exists ops s scr, let p := run (cfgU true default_ext false) proc_init ops in
    In s (p_input p) /\ nth_error (p_screens p) s = Some scr /\ has_password scr = true /\ p_conns p = [].
Proof.
  exists udp_trace, 0%nat, demo_screen. vm_compute. repeat split. left. reflexivity.
Qed.
Example udp_gated_nonvacuous :
  p_input (run cfg_fixed3 proc_init udp_trace) = [] /\
  p_input (run cfg_fixed3 proc_init [OScreen open_screen; OUdpOn 0; OUdp 0 udp_key]) = [0%nat].
Proof. vm_compute. split; reflexivity. Qed.

(* ---- view-only: authPasswdFirstViewOnly at every position of a 3-password list, each password *)
Definition vo_screen (fvo : Z) : screen := mkScreen (PwList [[120%N]; demo_pw; demo_pw2] fvo) 4 3 [].
Definition vo_run (fvo : Z) (pw : list N) : list (cstate * bool) :=
  map (fun c => (c_st c, c_vo c))
      (p_conns (run cfg_fixed proc_init
         [OScreen (vo_screen fvo); ORand demo_chal; OConn 0 false v33 false; OSend 0 (resp_of pw demo_chal) false])).
Example viewonly_every_position :
  map (fun fvo => map (fun pw => vo_run fvo pw) [[120%N]; demo_pw; demo_pw2]) [0; 1; 2; 3; 4]%Z =
  [ [[(StInit, true)];  [(StInit, true)];  [(StInit, true)]];
    [[(StInit, false)]; [(StInit, true)];  [(StInit, true)]];
    [[(StInit, false)]; [(StInit, false)]; [(StInit, true)]];
    [[(StInit, false)]; [(StInit, false)]; [(StInit, false)]];
    [[(StInit, false)]; [(StInit, false)]; [(StInit, false)]] ].
Proof. vm_compute. reflexivity. Qed.

(* ---- the password file changes between connections: the session let in under the old file
   stays (its recorded password set is the old one), the old password is refused afterwards, the new
   one accepted *)
Definition file_of (pw : list N) : list N :=
  match des_block_bytes false (bytes_to_N (map rev_byte fixedkey)) (firstn 8 (pw ++ repeat 0%N 8)) with
  | Some b => b | None => [] end.
Definition file_trace : list op :=
  [OScreen (mkScreen (PwFile (file_of demo_pw)) 4 3 [102]%N); ORand demo_chal; ORand demo_chal; ORand demo_chal;
   OConn 0 false v33 false; OSend 0 demo_resp false; OSend 0 [1%N] false;
   OSetFile 0 (file_of demo_pw2);
   OConn 0 false v33 false; OSend 1 demo_resp false;
   OConn 0 false v33 false; OSend 2 (resp_of demo_pw2 demo_chal) false].
Example password_file_changes :
  map (fun c => (c_st c, c_pws c)) (p_conns (run cfg_fixed proc_init file_trace)) =
  [(StNormal, [demo_pw]); (StClosed, [demo_pw2]); (StInit, [demo_pw2])].
Proof. vm_compute. reflexivity. Qed.

(* ---- a custom passwordCheck callback (harness: response = challenge xor 0x5a), the password list
   replaced on a live screen (between challenge and response: judged against the NEW list), and a
   failing DES backend *)
Definition custom_screen : screen := mkScreen PwCustom 4 3 [99]%N.
Definition xor_resp : list N := map (fun b => N.lxor b 90) demo_chal.
Example custom_callback :
  map (fun c => (c_st c, c_judged c))
      (p_conns (run cfg_fixed3 proc_init
         [OScreen custom_screen; ORand demo_chal; ORand demo_chal; OConn 0 false v33 false; OSend 0 xor_resp false;
          OConn 0 false v33 false; OSend 1 demo_resp false]))
  = [(StInit, Some (demo_chal, xor_resp)); (StClosed, None)].
Proof. vm_compute. reflexivity. Qed.

Example password_list_changes :
  map (fun c => (c_st c, c_pws c))
      (p_conns (run cfg_fixed3 proc_init
         [OScreen demo_screen; ORand demo_chal; ORand demo_chal; ORand demo_chal;
          OConn 0 false v33 false;                       (* holds a challenge under the list [demo_pw] *)
          OSetList 0 [demo_pw2] 1;
          OSend 0 demo_resp false;                       (* old password: refused *)
          OConn 0 false v33 false; OSend 1 (resp_of demo_pw2 demo_chal) false;
          OSetList 0 [demo_pw; demo_pw2] 0;
          OConn 0 false v33 false; OSend 2 demo_resp false]))
  = [(StClosed, [demo_pw2]); (StInit, [demo_pw2]); (StInit, [demo_pw; demo_pw2])].
Proof. vm_compute. reflexivity. Qed.

Example failing_backend :
  map c_st (p_conns (run (cfgE true default_ext false xor_check) proc_init demo_trace)) = [StClosed] /\
  map c_st (p_conns (run (cfgE true default_ext false xor_check) proc_init
     [OScreen (mkScreen (PwFile (file_of demo_pw)) 4 3 []); ORand demo_chal; OConn 0 false v33 false; OSend 0 demo_resp false])) = [StClosed].
Proof. vm_compute. split; reflexivity. Qed.

(* ---- version lines: hypotheses of C05_versions_* are satisfiable; the sscanf mirror on canonical,
   odd-but-accepted and refused lines *)
Definition bytes_of_string (l : list nat) : list N := map N.of_nat l.
Example versions_nonvacuous :
  parse_version v33 = Some (3, 3)%Z /\ parse_version v38 = Some (3, 8)%Z /\
  (* "RFB   3.  8\n" *) parse_version (bytes_of_string [82;70;66;32;32;32;51;46;32;32;56;10]) = Some (3, 8)%Z /\
  (* "RFB +03.+08\n" *) parse_version (bytes_of_string [82;70;66;32;43;48;51;46;43;48;56;10]) = Some (3, 8)%Z /\
  (* "RFB 003.-01\n" *) parse_version (bytes_of_string [82;70;66;32;48;48;51;46;45;48;49;10]) = Some (3, -1)%Z /\
  (* "RFB 003.889\n" *) parse_version (bytes_of_string [82;70;66;32;48;48;51;46;56;56;57;10]) = Some (3, 889)%Z /\
  (* "RFB 003x008\n" *) parse_version (bytes_of_string [82;70;66;32;48;48;51;120;48;48;56;10]) = None /\
  (* "RFB 003.\n\n\n\n" *) parse_version (bytes_of_string [82;70;66;32;48;48;51;46;10;10;10;10]) = None /\
  (* "RFB 003.+\n\n\n" *) parse_version (bytes_of_string [82;70;66;32;48;48;51;46;43;10;10;10]) = None.
Proof. vm_compute. repeat split. Qed.

Example versions_failure_nonvacuous :
  let c := mkConn 0 false StAuth 8 demo_chal demo_chal None false [] [] [] [] None in
  c_st c = StAuth /\ length (c_chal c) = 16%nat /\
  (forall pw, In pw (screen_passwords demo_screen) -> vnc_encrypt pw (c_chal c) <> Some demo_chal).
Proof.
  cbv zeta. split; [reflexivity|]. split; [reflexivity|].
  intros pw [<-|[]]. vm_compute. discriminate.
Qed.

Lemma des_known_answers :
  des_encrypt 0x133457799BBCDFF1 0x0123456789ABCDEF = Some 0x85E813540F0AB405%N /\
  des_encrypt 0x0101010101010101 0x8000000000000000 = Some 0x95F8A5E5DD31D900%N /\
  des_encrypt 0x8001010101010101 0 = Some 0x95A8D72813DAA94D%N /\
  des_encrypt 0x7CA110454A1A6E57 0x01A1D6D039776742 = Some 0x690F5B0D9A26939B%N /\
  des_encrypt 0x0131D9619DC1376E 0x5CD54CA83DEF57DA = Some 0x7A389D10354BD271%N /\
  des_decrypt 0x133457799BBCDFF1 0x85E813540F0AB405 = Some 0x0123456789ABCDEF%N.
Proof. vm_compute. repeat split. Qed.
