(* CliZrleBound.v - the worst-case length of a ZRLE tile stream (finding C07-F2, notes/fix_C07_4.diff).
   For EVERY choice oracle of the reference encoder (tile sub-encoding, palette padding, run splitting) the tile stream of
   a w x h rectangle is at most [zrle_bound w h c] bytes long, c = bytes per CPIXEL:
     per tile  1 type byte + at most 127 palette CPIXELs + at most (c + 1) bytes per pixel
               (raw: c; packed palette: <= 1; palette RLE: <= 2; plain RLE with runs of length 1: c + 1 - the largest),
     at most (w/64 + 1) * (h/64 + 1) tiles.
   With fix 12 the client sizes raw_buffer by that bound, and the ZRLE round trip needs no size hypothesis any more. *)
From LV Require Import Dec.CliBase Dec.CliFbProofs Dec.CliDec Dec.CliDecZ Dec.RefEnc Dec.RefEncZ Dec.CliRtBase Dec.CliRtTile Dec.CliRtZ Dec.CliRtZrle.
Require Import ZifyBool Lia.
Local Open Scope Z_scope.

Definition sumsnd (runs : list (Z * Z)) : Z := fold_right (fun cn a => snd cn + a) 0 runs.

Lemma rle_sum m l : sumsnd (rle m l) = zlen l /\ Forall (fun cn : Z * Z => 1 <= snd cn) (rle m l).
Proof.
  induction l as [|a l [IH1 IH2]]; cbn [rle]; [split; [reflexivity|constructor]|].
  rewrite zlen_cons. destruct (rle m l) as [|[b n] t] eqn:E.
  - cbn [sumsnd fold_right snd] in *. split; [lia|repeat constructor]. cbn [snd]. lia.
  - inversion IH2 as [|? ? Hn Ht]; subst. cbn [sumsnd fold_right snd] in IH1.
    destruct ((a =? b) && (n <? m)); cbn [sumsnd fold_right snd]; (split; [lia|]); repeat constructor; cbn [snd] in *; auto; lia.
Qed.

Lemma zlen_runlen_bytes n : 1 <= n -> zlen (runlen_bytes n) <= n.
Proof.
  intros H. unfold runlen_bytes. rewrite zlen_app, zlen_repeat, zlen_cons, zlen_nil.
  assert (0 <= (n - 1) / 255) by (apply Z.div_pos; lia). rewrite Z2Nat.id by lia.
  assert ((n - 1) / 255 * 255 <= n - 1) by (pose proof (Z.mul_div_le (n - 1) 255 ltac:(lia)); lia). lia.
Qed.

Section Bound.
Variables (f : pixfmt) (v : cpv).
Hypothesis Hag : cp_agree f v.
Let c := rbytes v.
Let cp := cpixel_bytes f.

Lemma c_pos : 1 <= c.
Proof. unfold c. destruct v; cbn; lia. Qed.

Lemma zlen_cp p : zlen (cp p) = c.
Proof. apply cpixel_bytes_len. exact Hag. Qed.

Lemma zlen_flat_cp l : zlen (flat_map cp l) = zlen l * c.
Proof. induction l as [|a l IH]; cbn [flat_map]; [reflexivity|]. rewrite zlen_app, zlen_cp, zlen_cons, IH. lia. Qed.

Lemma zlen_plain runs : Forall (fun cn : Z * Z => 1 <= snd cn) runs ->
  zlen (flat_map (fun cn : Z * Z => cp (fst cn) ++ runlen_bytes (snd cn)) runs) <= sumsnd runs * (c + 1).
Proof.
  pose proof c_pos. induction 1 as [|[a n] t Hn Ht IH]; cbn [flat_map sumsnd fold_right fst snd]; [rewrite zlen_nil; lia|].
  rewrite !zlen_app, zlen_cp. cbn [snd] in Hn. pose proof (zlen_runlen_bytes n Hn). fold (sumsnd t). nia.
Qed.

Lemma zlen_prle pal runs : Forall (fun cn : Z * Z => 1 <= snd cn) runs ->
  zlen (flat_map (fun cn : Z * Z => if snd cn =? 1 then [index_of (fst cn) pal]
                                   else [index_of (fst cn) pal + 128] ++ runlen_bytes (snd cn)) runs) <= sumsnd runs * 2.
Proof.
  induction 1 as [|[a n] t Hn Ht IH]; cbn [flat_map sumsnd fold_right fst snd]; [rewrite zlen_nil; lia|].
  rewrite zlen_app. cbn [snd] in Hn. pose proof (zlen_runlen_bytes n Hn). fold (sumsnd t).
  destruct (n =? 1); [rewrite zlen_cons, zlen_nil; lia|]. rewrite zlen_app, zlen_cons, zlen_nil. lia.
Qed.

Lemma zlen_pack_bits bits idx : 1 <= bits -> forall cur nb, 0 <= nb ->
  zlen (pack_bits bits idx cur nb) <= zlen idx + (if nb =? 0 then 0 else 1).
Proof.
  intros Hb. induction idx as [|i r IH]; intros cur nb Hnb; cbn [pack_bits].
  - destruct (nb =? 0); [rewrite zlen_nil; lia|rewrite zlen_cons, zlen_nil; lia].
  - rewrite (zlen_cons i r). destruct (Z.eqb_spec (nb + bits) 8).
    + rewrite zlen_cons. specialize (IH 0 0 ltac:(lia)). cbn [Z.eqb] in IH. destruct (nb =? 0); lia.
    + specialize (IH (cur * 2 ^ bits + i) (nb + bits) ltac:(lia)).
      destruct (Z.eqb_spec (nb + bits) 0); [lia|]. destruct (nb =? 0); lia.
Qed.

Lemma zlen_packed bits (g : Z -> Z) rows : 1 <= bits ->
  zlen (flat_map (fun r => pack_row bits (map g r)) rows) <= zlen (concat rows).
Proof.
  intros Hb. induction rows as [|r rows IH]; cbn [flat_map concat]; [lia|].
  rewrite !zlen_app. unfold pack_row at 1. pose proof (zlen_pack_bits bits (map g r) Hb 0 0 ltac:(lia)) as H.
  cbn [Z.eqb] in H. rewrite zlen_map in H. lia.
Qed.

Lemma bits_for_pos n : 1 <= bits_for n.
Proof. unfold bits_for. destruct (n <=? 2); [lia|]. destruct (n <=? 4); lia. Qed.

Lemma zlen_pad ch base n pxmod : zlen (pad_palette ch base n pxmod) = Z.of_nat n.
Proof. revert base. induction n as [|n IH]; intros base; cbn [pad_palette]; [reflexivity|]. rewrite zlen_cons, IH. lia. Qed.

(* one tile *)
Lemma tile_body_len ch base rows pk pp :
  zlen (fst (fst (tile_body ch base f false rows pk pp))) <= 1 + 127 * c + zlen (concat rows) * (c + 1).
Proof.
  pose proof c_pos as Hc. unfold tile_body. cbn [andb]. fold cp.
  set (pix := concat rows). set (cols := distinct pix). set (n := zlen cols).
  set (cap := nth (Z.to_nat (pick ch (base + 1) (zlen run_caps))) run_caps 1).
  pose proof (zlen_nonneg pix) as HN. pose proof (zlen_nonneg cols) as Hn0. fold n in Hn0.
  destruct (rle_sum cap pix) as [Es Hr].
  assert (Hraw : zlen ([0] ++ flat_map cp pix) <= 1 + 127 * c + zlen pix * (c + 1)).
  { rewrite zlen_app, zlen_cons, zlen_nil, zlen_flat_cp. nia. }
  assert (Hplain : zlen ([128] ++ flat_map (fun cn : Z * Z => cp (fst cn) ++ runlen_bytes (snd cn)) (rle cap pix))
                   <= 1 + 127 * c + zlen pix * (c + 1)).
  { rewrite zlen_app, zlen_cons, zlen_nil. pose proof (zlen_plain _ Hr) as H. rewrite Es in H. nia. }
  destruct (pick ch base 6 =? 0); [exact Hraw|].
  destruct (pick ch base 6 =? 1).
  { destruct (n =? 1); [|exact Hraw]. cbn [fst]. rewrite zlen_app, zlen_cons, zlen_nil, zlen_cp. nia. }
  destruct (pick ch base 6 =? 2).
  { destruct ((2 <=? n) && (n <=? 16) || (n =? 1)) eqn:En; [|exact Hplain]. cbn [fst].
    set (extra0 := Z.min (pick ch (base + 3) 4) (16 - n)).
    set (extra := if n + extra0 <? 2 then 1 else extra0).
    set (pal := cols ++ pad_palette ch (base + 10) (Z.to_nat extra) (2 ^ f_bpp f)).
    assert (Hp0 : 0 <= pick ch (base + 3) 4) by (unfold pick; apply Z.mod_pos_bound; lia).
    assert (Hpal : zlen pal <= 16).
    { unfold pal. rewrite zlen_app, zlen_pad. fold n. unfold extra, extra0. destruct (Z.ltb_spec (n + Z.min (pick ch (base + 3) 4) (16 - n)) 2); lia. }
    rewrite !zlen_app, zlen_cons, zlen_nil, zlen_flat_cp.
    pose proof (zlen_packed (bits_for (zlen pal)) (fun p => index_of p pal) rows (bits_for_pos _)) as Hk. fold pix in Hk.
    pose proof (zlen_nonneg pal). nia. }
  destruct (pick ch base 6 =? 3); [exact Hplain|].
  destruct (n <=? 127) eqn:En; [|exact Hplain]. cbn [fst].
  set (extra0 := Z.min (pick ch (base + 3) 4) (127 - n)).
  set (extra := if n + extra0 <? 2 then 1 else extra0).
  set (pal := cols ++ pad_palette ch (base + 10) (Z.to_nat extra) (2 ^ f_bpp f)).
  assert (Hp0 : 0 <= pick ch (base + 3) 4) by (unfold pick; apply Z.mod_pos_bound; lia).
  assert (Hpal : zlen pal <= 127).
  { unfold pal. rewrite zlen_app, zlen_pad. fold n. unfold extra, extra0. destruct (Z.ltb_spec (n + Z.min (pick ch (base + 3) 4) (127 - n)) 2); lia. }
  rewrite !zlen_app, zlen_cons, zlen_nil, zlen_flat_cp.
  pose proof (zlen_prle pal _ Hr) as Hk. rewrite Es in Hk. pose proof (zlen_nonneg pal). nia.
Qed.

Lemma sub_block_size (rows : list (list Z)) x y m n : 0 <= m -> 0 <= n -> zlen (concat (sub_block rows x y m n)) <= m * n.
Proof.
  intros Hm Hn. unfold sub_block.
  assert (G : forall L : list (list Z), zlen (concat (map (fun r => firstn (Z.to_nat m) (skipn (Z.to_nat x) r)) L)) <= m * zlen L).
  { induction L as [|r L IH]; cbn [map concat]; [unfold zlen; cbn [length]; lia|]. rewrite zlen_app, zlen_cons.
    assert (zlen (firstn (Z.to_nat m) (skipn (Z.to_nat x) r)) <= m) by (unfold zlen; rewrite firstn_length; lia). nia. }
  specialize (G (firstn (Z.to_nat n) (skipn (Z.to_nat y) rows))).
  assert (zlen (firstn (Z.to_nat n) (skipn (Z.to_nat y) rows)) <= n) by (unfold zlen; rewrite firstn_length; lia).
  pose proof (zlen_nonneg (firstn (Z.to_nat n) (skipn (Z.to_nat y) rows))). nia.
Qed.

Let K := 1 + 127 * c.

Lemma tiles_cols_len ch rows y rw th : 0 <= th -> forall fuel base cx pk pp, 0 <= cx ->
  zlen (fst (fst (tiles_cols ch base f false 64 fuel cx y rw th rows pk pp)))
  <= Z.of_nat fuel * K + Z.max 0 (rw - cx) * (th * (c + 1)).
Proof.
  intros Hth. pose proof c_pos as Hc. induction fuel as [|fu IH]; intros base cx pk pp Hcx; cbn [tiles_cols].
  - cbn [fst]. rewrite zlen_nil. nia.
  - destruct (Z.leb_spec rw cx); [cbn [fst]; rewrite zlen_nil; unfold K; nia|].
    set (w := Z.min 64 (rw - cx)).
    pose proof (tile_body_len ch base (sub_block rows cx y w th) pk pp) as Ht.
    destruct (tile_body ch base f false (sub_block rows cx y w th) pk pp) as [[bs pk'] pp'].
    specialize (IH (base + 1000) (cx + 64) pk' pp' ltac:(lia)).
    destruct (tiles_cols ch (base + 1000) f false 64 fu (cx + 64) y rw th rows pk' pp') as [[rest pk''] pp''].
    cbn [fst] in *. rewrite zlen_app.
    pose proof (sub_block_size rows cx y w th ltac:(unfold w; lia) Hth) as Hs.
    assert (Hw : w + Z.max 0 (rw - (cx + 64)) <= rw - cx) by (unfold w; lia).
    replace (Z.max 0 (rw - cx)) with (rw - cx) by lia.
    set (M := th * (c + 1)) in *. assert (0 <= M) by (unfold M; nia).
    assert (zlen (concat (sub_block rows cx y w th)) * (c + 1) <= w * M) by (unfold M; nia).
    fold K in Ht. rewrite Nat2Z.inj_succ. nia.
Qed.

Lemma tiles_rows_len ch rows rw rh : 0 <= rw -> forall fuel base cy pk pp, 0 <= cy ->
  zlen (tiles_rows ch base f false 64 fuel cy rw rh rows pk pp)
  <= Z.of_nat fuel * ((rw / 64 + 1) * K) + Z.max 0 (rh - cy) * (rw * (c + 1)).
Proof.
  intros Hrw. pose proof c_pos as Hc. assert (Hd : 0 <= rw / 64) by (apply Z.div_pos; lia).
  assert (HK : 0 <= (rw / 64 + 1) * K) by (unfold K; nia).
  induction fuel as [|fu IH]; intros base cy pk pp Hcy; cbn [tiles_rows].
  - rewrite zlen_nil. nia.
  - destruct (Z.leb_spec rh cy); [rewrite zlen_nil; nia|].
    set (h := Z.min 64 (rh - cy)).
    pose proof (tiles_cols_len ch rows cy rw h ltac:(unfold h; lia) (Z.to_nat (rw / 64 + 1)) base 0 pk pp ltac:(lia)) as Ht.
    destruct (tiles_cols ch base f false 64 (Z.to_nat (rw / 64 + 1)) 0 cy rw h rows pk pp) as [[bs pk'] pp'].
    specialize (IH (base + 1000000) (cy + 64) pk' pp' ltac:(lia)). cbn [fst] in Ht.
    rewrite zlen_app. rewrite Z2Nat.id in Ht by lia. replace (Z.max 0 (rw - 0)) with rw in Ht by lia.
    assert (Hh : h + Z.max 0 (rh - (cy + 64)) <= rh - cy) by (unfold h; lia).
    replace (Z.max 0 (rh - cy)) with (rh - cy) by lia.
    set (M := rw * (c + 1)) in *. assert (0 <= M) by (unfold M; nia).
    assert (rw * (h * (c + 1)) = h * M) by (unfold M; ring).
    rewrite Nat2Z.inj_succ. nia.
Qed.

Theorem zrle_stream_bound ch w h rows : 0 <= w -> 0 <= h ->
  zlen (tiles_rows ch 0 f false 64 (Z.to_nat (h / 64 + 1)) 0 w h rows 0 []) <= zrle_bound w h c.
Proof.
  intros Hw Hh. pose proof (tiles_rows_len ch rows w h Hw (Z.to_nat (h / 64 + 1)) 0 0 0 [] ltac:(lia)) as H.
  assert (0 <= h / 64) by (apply Z.div_pos; lia). rewrite Z2Nat.id in H by lia.
  replace (Z.max 0 (h - 0)) with h in H by lia. unfold zrle_bound. fold K. nia.
Qed.
End Bound.

(* with fix 12 the round trip holds for EVERY rectangle and choice oracle: no size hypothesis (finding C07-F2 closed) *)
Theorem roundtrip_zrle_sized ch s x y w h tgt ts fresh :
  st_wf s -> cp_agree (c_fmt s) (variant_of s) -> fixed s 8 = true -> fixed s 12 = true ->
  0 <= x -> 0 <= y -> 0 <= w -> 0 <= h -> x + w <= c_w s -> y + h <= c_h s ->
  rows_wf w h tgt -> Forall (Forall (cp_ok (variant_of s))) tgt ->
  zs_ready c_zrlez c_zlibz s -> fresh = zrle_fresh s ->
  let minsz := zrle_bound w h (rbytes (variant_of s)) + 4 in
  let cap := if c_rawsz s <? minsz then minsz else c_rawsz s in
  dec_zrle x y w h s (ref_zrle ch (c_fmt s) fresh w h tgt ++ ts)
  = Ok tt (set_fb (zrle_mark (set_rawsz s cap)) (blit_spec (c_fb s) x y tgt)) ts.
Proof.
  intros Hs Hag F8 F12 Hx Hy Hw Hh Hxw Hyh Ht Hp Hready Hfresh minsz cap.
  pose proof (roundtrip_zrle ch s x y w h tgt ts fresh Hs Hag F8 Hx Hy Hw Hh Hxw Hyh Ht Hp Hready Hfresh) as R.
  rewrite F12 in R. cbv zeta in R. fold minsz in R. fold cap in R. apply R.
  pose proof (zrle_stream_bound (c_fmt s) (variant_of s) Hag ch w h tgt Hw Hh).
  unfold cap, minsz. destruct (Z.ltb_spec (c_rawsz s) (zrle_bound w h (rbytes (variant_of s)) + 4)); lia.
Qed.
