(* CliFbProofs.v - algebra of the framebuffer primitives of CliBase.v: the partial, C-mirroring
   writers agree with the total spec-level [blit_spec] whenever CheckRect-style bounds hold. *)
From LV Require Import Dec.CliBase.
Require Import ZifyBool.
Local Open Scope Z_scope.

Lemma zlen_nonneg {A} (l : list A) : 0 <= zlen l.
Proof. unfold zlen; lia. Qed.
Lemma zlen_app {A} (a b : list A) : zlen (a ++ b) = zlen a + zlen b.
Proof. unfold zlen; rewrite app_length; lia. Qed.
Lemma zlen_cons {A} (a : A) (l : list A) : zlen (a :: l) = 1 + zlen l.
Proof. unfold zlen; cbn [length]; lia. Qed.
Lemma zlen_nil {A} : zlen (@nil A) = 0.
Proof. reflexivity. Qed.
Lemma zlen_repeat {A} (a : A) n : zlen (repeat a n) = Z.of_nat n.
Proof. unfold zlen; now rewrite repeat_length. Qed.
Lemma zlen_map {A B} (f : A -> B) l : zlen (map f l) = zlen l.
Proof. unfold zlen; now rewrite map_length. Qed.

Lemma nth_error_skipn' {A} n (l : list A) i : nth_error (skipn n l) i = nth_error l (n + i).
Proof.
  revert l; induction n; intros l; cbn; [reflexivity|]. destruct l; [destruct i; reflexivity|apply IHn].
Qed.
Lemma nth_error_firstn' {A} n (l : list A) i : (i < n)%nat -> nth_error (firstn n l) i = nth_error l i.
Proof.
  revert l i; induction n; intros l i H; [lia|]. destruct l; [destruct i; reflexivity|].
  destruct i; cbn; [reflexivity|apply IHn; lia].
Qed.

(* ---------------------------------------------------------------- rows *)
Lemma row_write_some row x vals :
  0 <= x -> x + zlen vals <= zlen row ->
  row_write row x vals = Some (firstn (Z.to_nat x) row ++ vals ++ skipn (Z.to_nat x + length vals) row).
Proof.
  intros H1 H2. unfold row_write.
  destruct ((0 <=? x) && (x + zlen vals <=? zlen row)) eqn:E; [reflexivity|lia].
Qed.

Lemma row_write_len row x vals r : row_write row x vals = Some r -> zlen r = zlen row.
Proof.
  unfold row_write. destruct ((0 <=? x) && (x + zlen vals <=? zlen row)) eqn:E; [|discriminate].
  intros H; inversion H; subst; clear H.
  unfold zlen in *. rewrite !app_length, firstn_length, skipn_length. lia.
Qed.

Lemma row_splice_len row x vals : zlen (row_splice row x vals) = zlen row.
Proof.
  unfold row_splice. destruct (row_write row x vals) eqn:E; [eapply row_write_len; eauto|reflexivity].
Qed.

Lemma row_splice_nth row x vals i :
  0 <= x -> x + zlen vals <= zlen row ->
  nth_error (row_splice row x vals) i =
  if (Z.to_nat x <=? i)%nat && (i <? Z.to_nat x + length vals)%nat then nth_error vals (i - Z.to_nat x)
  else nth_error row i.
Proof.
  intros H1 H2. unfold row_splice. rewrite row_write_some by assumption.
  unfold zlen in *.
  destruct (Nat.leb_spec (Z.to_nat x) i); cbn [andb].
  - rewrite nth_error_app2 by (rewrite firstn_length; lia).
    rewrite firstn_length, Nat.min_l by lia.
    destruct (Nat.ltb_spec i (Z.to_nat x + length vals)).
    + rewrite nth_error_app1 by lia. reflexivity.
    + rewrite nth_error_app2 by lia. rewrite nth_error_skipn'. f_equal. lia.
  - rewrite nth_error_app1 by (rewrite firstn_length; lia).
    rewrite nth_error_firstn' by lia. reflexivity.
Qed.

(* ---------------------------------------------------------------- list_set *)
Lemma list_set_length {A} (l : list A) n v : length (list_set l n v) = length l.
Proof. revert n; induction l; intros [|n]; cbn; auto. Qed.

Lemma list_set_nth {A} (l : list A) n v i :
  (n < length l)%nat ->
  nth_error (list_set l n v) i = if (i =? n)%nat then Some v else nth_error l i.
Proof.
  revert n i; induction l; intros n i Hn; cbn in Hn; [lia|].
  destruct n, i; cbn; auto. apply IHl; lia.
Qed.

(* ---------------------------------------------------------------- fb_get on blit_spec *)
Lemma fb_wf_len w h fb : fb_wf w h fb -> zlen fb = h.
Proof. intros [H _]; exact H. Qed.

Lemma fb_wf_row w h fb i r : fb_wf w h fb -> nth_error fb i = Some r -> zlen r = w.
Proof.
  intros [_ H] Hn. rewrite Forall_forall in H. apply H. eapply nth_error_In; eauto.
Qed.

Lemma blit_from_len fb x k rows : length (blit_from fb x k rows) = length fb.
Proof.
  revert k rows; induction fb; intros k rows; cbn [blit_from]; [reflexivity|].
  destruct (0 <? k); cbn [length]; [now rewrite IHfb|].
  destruct rows; cbn [length]; [reflexivity|now rewrite IHfb].
Qed.

Lemma blit_from_wf w h fb x k rows : fb_wf w h fb -> fb_wf w h (blit_from fb x k rows).
Proof.
  intros [Hl Hr]. split.
  - unfold zlen in *. now rewrite blit_from_len.
  - clear Hl. revert k rows; induction fb; intros k rows; cbn [blit_from]; [constructor|].
    inversion Hr as [|? ? Ha Hr']; clear Hr.
    destruct (0 <? k); [constructor; auto|].
    destruct rows; [constructor; auto|].
    constructor; [rewrite row_splice_len; assumption|auto].
Qed.

Lemma blit_spec_wf w h fb x y rows : fb_wf w h fb -> fb_wf w h (blit_spec fb x y rows).
Proof. apply blit_from_wf. Qed.

(* row py of the blitted framebuffer *)
Lemma blit_from_row fb x k rows py :
  0 <= k ->
  nth_error (blit_from fb x k rows) py =
  match nth_error fb py with
  | None => None
  | Some r => if (Z.to_nat k <=? py)%nat then
                match nth_error rows (py - Z.to_nat k) with
                | Some v => Some (row_splice r x v)
                | None => Some r
                end
              else Some r
  end.
Proof.
  revert k rows py; induction fb; intros k rows py Hk; cbn [blit_from].
  - destruct py; reflexivity.
  - destruct (Z.ltb_spec 0 k).
    + destruct py; cbn [nth_error].
      * destruct (Nat.leb_spec (Z.to_nat k) 0); [lia|reflexivity].
      * rewrite IHfb by lia. destruct (nth_error fb py); [|reflexivity].
        replace (Z.to_nat (k - 1)) with (Z.to_nat k - 1)%nat by lia.
        destruct (Nat.leb_spec (Z.to_nat k - 1) py), (Nat.leb_spec (Z.to_nat k) (S py)); try lia; [|reflexivity].
        replace (S py - Z.to_nat k)%nat with (py - (Z.to_nat k - 1))%nat by lia. reflexivity.
    + assert (k = 0) by lia; subst k. cbn [Z.to_nat].
      destruct rows as [|v rows'].
      * destruct py; cbn [nth_error]; [reflexivity|].
        destruct (nth_error fb py); [|reflexivity]. destruct (py - 0)%nat; reflexivity.
      * destruct py; cbn [nth_error]; [reflexivity|].
        rewrite IHfb by lia. cbn [Z.to_nat]. destruct (nth_error fb py); [|reflexivity].
        cbn. rewrite Nat.sub_0_r. reflexivity.
Qed.

Definition in_rect (x y w h px py : Z) : bool :=
  (y <=? py) && (py <? y + h) && (x <=? px) && (px <? x + w).

Lemma fb_get_blit W H fb x y w h rows px py :
  fb_wf W H fb -> rows_wf w h rows -> 0 <= x -> 0 <= y -> x + w <= W ->
  fb_get (blit_spec fb x y rows) px py =
  if in_rect x y w h px py then (match fb_get fb px py with None => None | Some _ => fb_get rows (px - x) (py - y) end)
  else fb_get fb px py.
Proof.
  intros Hfb [Hrl Hrw] Hx Hy Hxw. unfold fb_get, blit_spec, in_rect.
  destruct (Z.ltb_spec px 0); cbn [orb].
  { destruct ((y <=? py) && (py <? y + h) && (x <=? px) && (px <? x + w)) eqn:E; [lia|reflexivity]. }
  destruct (Z.ltb_spec py 0); cbn [orb].
  { destruct ((y <=? py) && (py <? y + h) && (x <=? px) && (px <? x + w)) eqn:E; [lia|reflexivity]. }
  rewrite blit_from_row by assumption.
  destruct (nth_error fb (Z.to_nat py)) as [r|] eqn:Er.
  2:{ destruct ((y <=? py) && (py <? y + h) && (x <=? px) && (px <? x + w)); reflexivity. }
  pose proof (fb_wf_row _ _ _ _ _ Hfb Er) as Hrlen.
  destruct (Nat.leb_spec (Z.to_nat y) (Z.to_nat py)).
  - destruct (nth_error rows (Z.to_nat py - Z.to_nat y)) as [v|] eqn:Ev.
    + assert (Hvl : zlen v = w).
      { rewrite Forall_forall in Hrw. apply Hrw. eapply nth_error_In; eauto. }
      assert (Hlt : (Z.to_nat py - Z.to_nat y < length rows)%nat) by (apply nth_error_Some; congruence).
      unfold zlen in *.
      rewrite row_splice_nth by (unfold zlen; lia).
      destruct ((y <=? py) && (py <? y + h) && (x <=? px) && (px <? x + w)) eqn:E.
      * destruct (Nat.leb_spec (Z.to_nat x) (Z.to_nat px)); [|lia].
        destruct (Nat.ltb_spec (Z.to_nat px) (Z.to_nat x + length v)); [|lia]. cbn [andb].
        destruct (Z.ltb_spec (px - x) 0); [lia|]. destruct (Z.ltb_spec (py - y) 0); [lia|]. cbn [orb].
        replace (Z.to_nat (py - y)) with (Z.to_nat py - Z.to_nat y)%nat by lia. rewrite Ev.
        replace (Z.to_nat (px - x)) with (Z.to_nat px - Z.to_nat x)%nat by lia.
        destruct (nth_error r (Z.to_nat px)) eqn:Ep; [reflexivity|].
        apply nth_error_None in Ep. lia.
      * destruct ((Z.to_nat x <=? Z.to_nat px)%nat && (Z.to_nat px <? Z.to_nat x + length v)%nat) eqn:E2; [lia|reflexivity].
    + apply nth_error_None in Ev. unfold zlen in *.
      destruct ((y <=? py) && (py <? y + h) && (x <=? px) && (px <? x + w)) eqn:E; [lia|reflexivity].
  - destruct ((y <=? py) && (py <? y + h) && (x <=? px) && (px <? x + w)) eqn:E; [lia|reflexivity].
Qed.

(* extensionality for well-formed framebuffers *)
Lemma list_ext {A} (a b : list A) : (forall i, nth_error a i = nth_error b i) -> a = b.
Proof.
  revert b; induction a; intros [|c b] H; auto.
  - specialize (H 0%nat); discriminate.
  - specialize (H 0%nat); discriminate.
  - f_equal; [specialize (H 0%nat); now inversion H|apply IHa; intros i; exact (H (S i))].
Qed.

Lemma fb_ext W H (a b : fbuf) :
  fb_wf W H a -> fb_wf W H b ->
  (forall px py, 0 <= px < W -> 0 <= py < H -> fb_get a px py = fb_get b px py) -> a = b.
Proof.
  intros Ha Hb Hg. apply list_ext; intros i.
  destruct (nth_error a i) as [ra|] eqn:Ea, (nth_error b i) as [rb|] eqn:Eb.
  - f_equal. apply list_ext; intros j.
    pose proof (fb_wf_row _ _ _ _ _ Ha Ea) as La. pose proof (fb_wf_row _ _ _ _ _ Hb Eb) as Lb.
    assert (Hi : (i < length a)%nat) by (apply nth_error_Some; congruence).
    destruct (Nat.ltb_spec j (Z.to_nat W)).
    + specialize (Hg (Z.of_nat j) (Z.of_nat i)). unfold fb_get in Hg.
      destruct (Z.ltb_spec (Z.of_nat j) 0); [lia|]. destruct (Z.ltb_spec (Z.of_nat i) 0); [lia|]. cbn [orb] in Hg.
      rewrite !Nat2Z.id, Ea, Eb in Hg. apply Hg; [lia|]. destruct Ha as [Hl _]. unfold zlen in Hl. lia.
    + unfold zlen in *. transitivity (@None Z); [apply nth_error_None; lia|symmetry; apply nth_error_None; lia].
  - apply nth_error_None in Eb. assert ((i < length a)%nat) by (apply nth_error_Some; congruence).
    destruct Ha as [Hl _], Hb as [Hl' _]. unfold zlen in *. lia.
  - apply nth_error_None in Ea. assert ((i < length b)%nat) by (apply nth_error_Some; congruence).
    destruct Ha as [Hl _], Hb as [Hl' _]. unfold zlen in *. lia.
  - reflexivity.
Qed.

Lemma fb_get_some W H fb px py : fb_wf W H fb -> 0 <= px < W -> 0 <= py < H -> exists v, fb_get fb px py = Some v.
Proof.
  intros Hfb Hx Hy. unfold fb_get.
  destruct (Z.ltb_spec px 0); [lia|]. destruct (Z.ltb_spec py 0); [lia|]. cbn [orb].
  destruct (nth_error fb (Z.to_nat py)) as [r|] eqn:Er.
  - pose proof (fb_wf_row _ _ _ _ _ Hfb Er) as L. unfold zlen in L.
    destruct (nth_error r (Z.to_nat px)) eqn:Ep; [eauto|]. apply nth_error_None in Ep. lia.
  - apply nth_error_None in Er. destruct Hfb as [Hl _]. unfold zlen in Hl. lia.
Qed.

Lemma fb_get_none_out W H fb px py : fb_wf W H fb -> ~ (0 <= px < W /\ 0 <= py < H) -> fb_get fb px py = None.
Proof.
  intros Hfb Hn. unfold fb_get.
  destruct (Z.ltb_spec px 0); [reflexivity|]. destruct (Z.ltb_spec py 0); [reflexivity|]. cbn [orb].
  destruct (nth_error fb (Z.to_nat py)) as [r|] eqn:Er; [|reflexivity].
  pose proof (fb_wf_row _ _ _ _ _ Hfb Er) as L. unfold zlen in L.
  assert ((Z.to_nat py < length fb)%nat) by (apply nth_error_Some; congruence).
  destruct Hfb as [Hl _]. unfold zlen in Hl.
  apply nth_error_None. lia.
Qed.

(* simplified get formula inside the framebuffer *)
Lemma fb_get_blit_in W H fb x y w h rows px py :
  fb_wf W H fb -> rows_wf w h rows -> 0 <= x -> 0 <= y -> x + w <= W -> y + h <= H ->
  0 <= px < W -> 0 <= py < H ->
  fb_get (blit_spec fb x y rows) px py =
  if in_rect x y w h px py then fb_get rows (px - x) (py - y) else fb_get fb px py.
Proof.
  intros. erewrite fb_get_blit by eassumption.
  destruct (fb_get_some W H fb px py) as [v Hv]; auto. rewrite Hv. reflexivity.
Qed.

(* ---------------------------------------------------------------- the partial writer = the spec *)
Lemma fb_write_spec W H fb x y vals :
  fb_wf W H fb -> 0 <= x -> 0 <= y < H -> x + zlen vals <= W ->
  fb_write fb x y vals = Some (blit_spec fb x y [vals]).
Proof.
  intros Hfb Hx Hy Hw. unfold fb_write.
  destruct (Z.ltb_spec y 0); [lia|].
  destruct (nth_error fb (Z.to_nat y)) as [r|] eqn:Er.
  2:{ apply nth_error_None in Er. destruct Hfb as [Hl _]. unfold zlen in Hl. lia. }
  pose proof (fb_wf_row _ _ _ _ _ Hfb Er) as L.
  rewrite row_write_some by lia. apply (f_equal (@Some fbuf)).
  apply list_ext; intros i. unfold blit_spec.
  rewrite blit_from_row by lia.
  assert (Hyl : (Z.to_nat y < length fb)%nat) by (apply nth_error_Some; congruence).
  rewrite list_set_nth by assumption.
  destruct (Nat.eqb_spec i (Z.to_nat y)).
  - subst i. rewrite Er. rewrite Nat.leb_refl, Nat.sub_diag. cbn [nth_error].
    unfold row_splice. rewrite row_write_some by lia. reflexivity.
  - destruct (nth_error fb i) eqn:Ei; [|reflexivity].
    destruct (Nat.leb_spec (Z.to_nat y) i); [|reflexivity].
    destruct (i - Z.to_nat y)%nat as [|d] eqn:Ed; [lia|]. cbn [nth_error]. destruct d; reflexivity.
Qed.

Lemma blit_from_nil fb x k : blit_from fb x k [] = fb.
Proof.
  revert k; induction fb; intros k; cbn [blit_from]; [reflexivity|].
  destruct (0 <? k); [now rewrite IHfb|reflexivity].
Qed.

(* blitting v :: rows at y = blitting [v] at y, then rows at y+1 *)
Lemma blit_from_cons fb x k v rows :
  0 <= k -> blit_from (blit_from fb x k [v]) x (k + 1) rows = blit_from fb x k (v :: rows).
Proof.
  revert k; induction fb; intros k Hk; cbn [blit_from]; [reflexivity|].
  destruct (Z.ltb_spec 0 k).
  - cbn [blit_from]. destruct (Z.ltb_spec 0 (k + 1)); [|lia].
    f_equal. replace (k + 1 - 1) with (k - 1 + 1) by lia. apply IHfb. lia.
  - assert (k = 0) by lia; subst. cbn [blit_from]. cbn.
    rewrite blit_from_nil. reflexivity.
Qed.

Lemma write_rows_from_spec w fb : forall x k rows,
  0 <= x -> Forall (fun r => zlen r = w) rows -> Forall (fun r => x + w <= zlen r) fb ->
  (rows = [] \/ (k + length rows <= length fb)%nat) ->
  write_rows_from fb x k rows = Some (blit_from fb x (Z.of_nat k) rows).
Proof.
  induction fb as [|row fb' IH]; intros x k rows Hx Hr Hfb Hlen.
  - destruct rows as [|r rs]; [reflexivity|]. destruct Hlen as [Hn|Hn]; [discriminate|cbn in Hn; lia].
  - destruct rows as [|r rs].
    { cbn [write_rows_from]. now rewrite blit_from_nil. }
    destruct Hlen as [Hn|Hn]; [discriminate|].
    inversion Hr as [|? ? Hv Hr']; subst. inversion Hfb as [|? ? Hrow Hfb']; subst.
    cbn [write_rows_from blit_from]. destruct k as [|k'].
    + change (Z.of_nat 0) with 0. destruct (Z.ltb_spec 0 0); [lia|].
      unfold row_splice. rewrite row_write_some by lia.
      rewrite (IH x 0%nat rs Hx Hr' Hfb'); [reflexivity|].
      destruct rs; [now left|right; cbn [length] in *; lia].
    + destruct (Z.ltb_spec 0 (Z.of_nat (S k'))); [|lia].
      rewrite (IH x k' (r :: rs) Hx Hr Hfb'); [|right; cbn [length] in *; lia].
      replace (Z.of_nat (S k') - 1) with (Z.of_nat k') by lia. reflexivity.
Qed.

Lemma fb_write_rows_spec W H fb x y w rows :
  fb_wf W H fb -> 0 <= x -> 0 <= y -> x + w <= W -> y + zlen rows <= H ->
  Forall (fun r => zlen r = w) rows ->
  fb_write_rows fb x y rows = Some (blit_spec fb x y rows).
Proof.
  intros [Hl Hrw] Hx Hy Hw Hh Hr. unfold fb_write_rows, blit_spec.
  destruct rows as [|r rs] eqn:E; [now rewrite blit_from_nil|]. rewrite <- E in *.
  destruct (Z.ltb_spec y 0); [lia|].
  rewrite (write_rows_from_spec w fb x (Z.to_nat y) rows Hx Hr).
  - now rewrite Z2Nat.id by lia.
  - eapply Forall_impl; [|exact Hrw]. intros r0 Hr0. cbn beta in Hr0. lia.
  - right. unfold zlen in *. lia.
Qed.

(* ---------------------------------------------------------------- algebra of blit_spec *)
Lemma rows_wf_repeat c w h : 0 <= w -> 0 <= h -> rows_wf w h (repeat (repeat c (Z.to_nat w)) (Z.to_nat h)).
Proof.
  intros. split; [rewrite zlen_repeat; lia|].
  apply Forall_forall. intros r Hr. apply repeat_spec in Hr. subst. rewrite zlen_repeat. lia.
Qed.

Lemma rows_wf_fb w h rows : rows_wf w h rows -> fb_wf w h rows.
Proof. auto. Qed.

Lemma in_rect_true x y w h px py :
  in_rect x y w h px py = true <-> (y <= py < y + h /\ x <= px < x + w).
Proof. unfold in_rect. lia. Qed.

(* nesting: painting R at (sx,sy) inside the tile T, itself placed at (x,y) *)
Lemma blit_nest W H fb x y w h T sx sy sw sh R :
  fb_wf W H fb -> rows_wf w h T -> rows_wf sw sh R ->
  0 <= x -> 0 <= y -> x + w <= W -> y + h <= H ->
  0 <= sx -> 0 <= sy -> sx + sw <= w -> sy + sh <= h ->
  blit_spec (blit_spec fb x y T) (x + sx) (y + sy) R = blit_spec fb x y (blit_spec T sx sy R).
Proof.
  intros Hfb HT HR Hx Hy Hxw Hyh Hsx Hsy Hsw Hsh.
  assert (HT' : rows_wf w h (blit_spec T sx sy R)) by (apply blit_spec_wf; exact HT).
  eapply fb_ext; [apply blit_spec_wf, blit_spec_wf; eassumption|apply blit_spec_wf; eassumption|].
  intros px py Hpx Hpy.
  destruct HR as [HRl HRw]. pose proof (zlen_nonneg R).
  rewrite (fb_get_blit_in W H _ (x + sx) (y + sy) sw sh R px py (blit_spec_wf _ _ _ _ _ _ Hfb) (conj HRl HRw)) by lia.
  rewrite (fb_get_blit_in W H fb x y w h _ px py Hfb HT') by lia.
  rewrite (fb_get_blit_in W H fb x y w h T px py Hfb HT) by lia.
  destruct (in_rect (x + sx) (y + sy) sw sh px py) eqn:E1.
  - apply in_rect_true in E1.
    assert (E2 : in_rect x y w h px py = true) by (apply in_rect_true; lia). rewrite E2.
    destruct HT as [HTl HTw]. pose proof (zlen_nonneg T).
    rewrite (fb_get_blit_in w h T sx sy sw sh R (px - x) (py - y) (conj HTl HTw) (conj HRl HRw)) by lia.
    assert (E3 : in_rect sx sy sw sh (px - x) (py - y) = true) by (apply in_rect_true; lia). rewrite E3.
    f_equal; lia.
  - destruct (in_rect x y w h px py) eqn:E2; [|reflexivity].
    apply in_rect_true in E2.
    destruct HT as [HTl HTw]. pose proof (zlen_nonneg T).
    rewrite (fb_get_blit_in w h T sx sy sw sh R (px - x) (py - y) (conj HTl HTw) (conj HRl HRw)) by lia.
    assert (E3 : in_rect sx sy sw sh (px - x) (py - y) = false).
    { destruct (in_rect sx sy sw sh (px - x) (py - y)) eqn:E3; [|reflexivity].
      apply in_rect_true in E3. assert (in_rect (x + sx) (y + sy) sw sh px py = true) by (apply in_rect_true; lia). congruence. }
    rewrite E3. reflexivity.
Qed.

(* a full-size blit replaces the tile *)
Lemma blit_full w h T R : rows_wf w h T -> rows_wf w h R -> 0 <= w -> blit_spec T 0 0 R = R.
Proof.
  intros HT HR Hw. eapply fb_ext; [apply blit_spec_wf; exact HT|exact HR|].
  intros px py Hpx Hpy. destruct HT as [HTl HTw]. pose proof (zlen_nonneg T).
  rewrite (fb_get_blit_in w h T 0 0 w h R px py (conj HTl HTw) HR) by lia.
  assert (E : in_rect 0 0 w h px py = true) by (apply in_rect_true; lia). rewrite E.
  f_equal; lia.
Qed.

(* two blits over the same rectangle: the second wins *)
Lemma blit_over W H fb x y w h T T' :
  fb_wf W H fb -> rows_wf w h T -> rows_wf w h T' ->
  0 <= x -> 0 <= y -> x + w <= W -> y + h <= H -> 0 <= w ->
  blit_spec (blit_spec fb x y T) x y T' = blit_spec fb x y T'.
Proof.
  intros. replace x with (x + 0) at 2 by lia. replace y with (y + 0) at 2 by lia.
  destruct H1 as [? ?]. pose proof (zlen_nonneg T).
  erewrite blit_nest; eauto; try lia; try (split; auto).
  erewrite blit_full; eauto. split; auto.
Qed.
