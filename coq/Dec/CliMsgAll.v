(* CliMsgAll.v - message level for EVERY pixel encoding: whenever a rectangle decoder of the mirror turns the body of
   a rectangle into a state s1 (the round-trip theorems CliRt*.v), the rectangle record - header + body - is a step of
   HandleRFBServerMessage's rectangle loop ([rect_steps]: dispatch on the encoding number, "Rect too large" test, the
   decoder, GotFrameBufferUpdate), so [fbu_run] composes rectangles of ANY mix of encodings into a FramebufferUpdate
   message.  Also: the "Rect too large" refusal and LastRect, for every token stream. *)
From LV Require Import Dec.CliBase Dec.CliFbProofs Dec.CliDec Dec.CliDecZ Dec.CliMsg Dec.RefEnc Dec.CliRtBase Dec.CliMsgProofs.
Require Import ZifyBool Lia.
Local Open Scope Z_scope.

(* encoding number -> the decoder HandleRFBServerMessage dispatches to *)
Inductive pix_enc : Z -> (Z -> Z -> Z -> Z -> M unit) -> Prop :=
| pe_raw : pix_enc cE_Raw dec_raw
| pe_copyrect : pix_enc cE_CopyRect dec_copyrect
| pe_rre : pix_enc cE_RRE dec_rre
| pe_corre : pix_enc cE_CoRRE dec_corre
| pe_hextile : pix_enc cE_Hextile dec_hextile
| pe_ultra : pix_enc cE_Ultra dec_ultra
| pe_trle : pix_enc cE_TRLE dec_trle
| pe_zlib : pix_enc cE_Zlib dec_zlib
| pe_tight : pix_enc cE_Tight dec_tight
| pe_zrle : pix_enc cE_ZRLE dec_zrle
| pe_zywrle : pix_enc cE_ZYWRLE dec_zrle.      (* quality level 9 only: no wavelet pass *)

Definition bpp_std (s : cst) : Prop := f_bpp (c_fmt s) = 8 \/ f_bpp (c_fmt s) = 16 \/ f_bpp (c_fmt s) = 32.

Ltac eval_closed_eqb :=
  repeat match goal with
         | |- context [?a =? ?b] =>
             let v := eval vm_compute in (a =? b) in
             match v with
             | true => change (a =? b) with true
             | false => change (a =? b) with false
             end
         end.

Lemma header_reads {A} (k : Z -> Z -> Z -> Z -> Z -> M A) x y w h enc s ts :
  0 <= x < 65536 -> 0 <= y < 65536 -> 0 <= w < 65536 -> 0 <= h < 65536 -> 0 <= enc < 4294967296 ->
  (x0 <- rd_u16 ;; y0 <- rd_u16 ;; w0 <- rd_u16 ;; h0 <- rd_u16 ;; e0 <- rd_u32 ;; k x0 y0 w0 h0 e0) s (toks (rect_header x y w h enc) ++ ts)
  = k x y w h enc s ts.
Proof.
  intros Hx Hy Hw Hh He. unfold rect_header. rewrite !toks_app, <- !app_assoc.
  erewrite bind_ok; [|apply rd_u16_app; lia].
  erewrite bind_ok; [|apply rd_u16_app; lia].
  erewrite bind_ok; [|apply rd_u16_app; lia].
  erewrite bind_ok; [|apply rd_u16_app; lia].
  erewrite bind_ok; [|apply rd_u32_app; lia]. reflexivity.
Qed.

Theorem rect_step_any s x y w h enc dec body s1 :
  pix_enc enc dec -> bpp_std s ->
  0 <= x < 65536 -> 0 <= y < 65536 -> 0 <= w < 65536 -> 0 <= h < 65536 ->
  x + w <= c_w s -> y + h <= c_h s ->
  (forall ts, dec x y w h s (body ++ ts) = Ok tt s1 ts) ->
  rect_steps s (toks (rect_header x y w h enc) ++ body) (add_ev s1 (EvUpdate x y w h)).
Proof.
  intros Hpe Hbpp Hx Hy Hw Hh Hxw Hyh Hdec ts. rewrite <- app_assoc.
  assert (Hb : (f_bpp (c_fmt s) =? 8) || (f_bpp (c_fmt s) =? 16) || (f_bpp (c_fmt s) =? 32) = true) by (unfold bpp_std in Hbpp; lia).
  unfold do_rect.
  destruct Hpe; (rewrite header_reads; [|lia|lia|lia|lia|vm_compute; split; [discriminate|reflexivity]]);
    eval_closed_eqb; cbn [orb negb andb]; cbn iota;
    (erewrite bind_ok; [|reflexivity]);
    (destruct (Z.ltb_spec (c_w s) (x + w)); [lia|]); (destruct (Z.ltb_spec (c_h s) (y + h)); [lia|]); cbn [orb]; cbn iota;
    try rewrite Hb; cbn iota;
    (erewrite bind_ok; [|apply Hdec]); (erewrite bind_ok; [|reflexivity]); reflexivity.
Qed.

(* "Rect too large": a pixel rectangle that leaves the framebuffer is refused before any decoder runs,
   whatever follows (UltraZip is exempt in the C code and therefore not covered) *)
Theorem rect_too_large s x y w h enc dec ts :
  pix_enc enc dec -> 0 <= x < 65536 -> 0 <= y < 65536 -> 0 <= w < 65536 -> 0 <= h < 65536 ->
  c_w s < x + w \/ c_h s < y + h ->
  do_rect s (toks (rect_header x y w h enc) ++ ts) = Fail.
Proof.
  intros Hpe Hx Hy Hw Hh Hbig. unfold do_rect.
  destruct Hpe; (rewrite header_reads; [|lia|lia|lia|lia|vm_compute; split; [discriminate|reflexivity]]);
    eval_closed_eqb; cbn [orb negb andb]; cbn iota;
    (erewrite bind_ok; [|reflexivity]);
    destruct (Z.ltb_spec (c_w s) (x + w)); destruct (Z.ltb_spec (c_h s) (y + h)); try lia; reflexivity.
Qed.

(* LastRect ends the rectangle loop whatever the announced count (0xFFFF by convention): the rest of the stream is
   the next message *)
Theorem lastrect_stops s x y w h n ts :
  0 <= x < 65536 -> 0 <= y < 65536 -> 0 <= w < 65536 -> 0 <= h < 65536 ->
  rect_loop (S n) s (toks (rect_header x y w h cE_LastRect) ++ ts) = Ok tt s ts.
Proof.
  intros Hx Hy Hw Hh. cbn [rect_loop]. unfold bind at 1. unfold do_rect.
  rewrite header_reads; [|lia|lia|lia|lia|vm_compute; split; [discriminate|reflexivity]].
  rewrite Z.eqb_refl. reflexivity.
Qed.
