(* CliBase.v - base of the mirror model of LibVNCClient's server-message decoding
   (src/libvncclient/rfbclient.c, vncviewer.c, sockets.c).  Definitions only.

   Input alphabet.  The model reads a list of TOKENS, not raw bytes: [TB b] is one plain byte on
   the wire; [TZ sid fresh ok data] is one length-prefixed deflate block (4-byte big-endian length
   for the decompStream shared by Zlib/ZRLE, sid 0; Tight compact length for zlibStream[sid-1],
   sid 1..4) that real zlib inflates to [data] ([ok=false]: inflate reports an error; [fresh]:
   the server started a new deflate stream for this block); [TL data] is a 4-byte length + LZO1X
   block decompressing to [data].  zlib / LZO themselves are NOT modelled: a compressed block is
   an opaque letter carrying its decompressed content (the round-trip hypothesis
   inflate (deflate d) = d with paired persistent states is thereby built into the alphabet and
   is exercised, not proved, by the correspondence run, which uses the real libraries).

   Framebuffer: list of rows of pixel values (Z, the little-endian value of the BPP/8 bytes the
   C code stores).  Every framebuffer write goes through the PARTIAL primitive [fb_write], which
   fails (-> [Oob]) when the row does not exist or the span leaves the row: a mirrored C path
   whose own checks do not exclude this is a memory-safety defect of the C code (C08). *)
From Coq Require Export List ZArith Bool Lia.
Export ListNotations.
From LV Require Export Gen.Consts_C07.
Local Open Scope Z_scope.

Inductive tok : Type :=
| TB (b : Z)
| TZ (sid : Z) (fresh ok : bool) (data : list Z)
| TL (data : list Z).

Record pixfmt : Type := mkfmt {
  f_bpp : Z; f_depth : Z; f_be : bool;
  f_rmax : Z; f_gmax : Z; f_bmax : Z;
  f_rshift : Z; f_gshift : Z; f_bshift : Z }.

Inductive event : Type :=
| EvUpdate (x y w h : Z)             (* GotFrameBufferUpdate *)
| EvFinished                         (* FinishedFrameBufferUpdate *)
| EvBell
| EvCut (t : list Z)                 (* GotXCutText *)
| EvCursor (xh yh w h bypp : Z) (src mask : list Z)   (* GotCursorShape + rcSource/rcMask *)
| EvPos (x y : Z)                    (* HandleCursorPos *)
| EvLed (v : Z)                      (* HandleKeyboardLedState *)
| EvResize (w h : Z).                (* MallocFrameBuffer after a size change *)

Definition fbuf : Type := list (list Z).

Record cst : Type := mkcst {
  c_w : Z; c_h : Z;                  (* client->width, height *)
  c_fb : fbuf;                       (* client->frameBuffer *)
  c_fmt : pixfmt;                    (* client->format *)
  c_sigmax : Z;                      (* client->si.format.greenMax *)
  c_rawsz : Z;                       (* client->raw_buffer_size (-1 initially) *)
  c_zact : list bool;                (* inflate stream initialised: decompStream, zlibStream[0..3] *)
  c_taint : bool;                    (* framebuffer content depends on stale / uninitialised scratch memory *)
  c_upd : Z * Z * Z * Z;             (* client->updateRect *)
  c_canfur : bool;                   (* SupportsClient2Server(client, rfbFramebufferUpdateRequest) *)
  c_fix : Z;                         (* which of the proposed fixes notes/fix_C08_*.diff the code under test contains
                                        (bit i = fix i; 0 = the unchanged library) *)
  c_ev : list event;                 (* callback log, most recent first *)
  c_out : list Z;                    (* bytes written to the server, most recent first (-1: a byte the C code leaves undefined) *)
  c_screen : Z * Z;                  (* client->screen.width/height as last announced by ExtendedDesktopSize, (0,0) = none *)
  c_reqrs : bool;                    (* client->requestedResize: a SetDesktopSize is pending, update requests are withheld *)
  c_zrlez : bool;                    (* the SERVER's ZRLE deflate stream (5) has been started (= the client's own ZRLE inflate
                                        stream is initialised, with fix 11 = 9fe693e) *)
  c_zlibz : bool                     (* the SERVER's Zlib deflate stream (0) has been started *)
}.

Definition set_fb (s : cst) (fb : fbuf) : cst :=
  mkcst (c_w s) (c_h s) fb (c_fmt s) (c_sigmax s) (c_rawsz s) (c_zact s) (c_taint s) (c_upd s) (c_canfur s) (c_fix s) (c_ev s) (c_out s) (c_screen s) (c_reqrs s) (c_zrlez s) (c_zlibz s).
Definition set_dims (s : cst) (w h : Z) (fb : fbuf) (upd : Z * Z * Z * Z) : cst :=
  mkcst w h fb (c_fmt s) (c_sigmax s) (c_rawsz s) (c_zact s) (c_taint s) upd (c_canfur s) (c_fix s) (c_ev s) (c_out s) (c_screen s) (c_reqrs s) (c_zrlez s) (c_zlibz s).
Definition set_rawsz (s : cst) (n : Z) : cst :=
  mkcst (c_w s) (c_h s) (c_fb s) (c_fmt s) (c_sigmax s) n (c_zact s) (c_taint s) (c_upd s) (c_canfur s) (c_fix s) (c_ev s) (c_out s) (c_screen s) (c_reqrs s) (c_zrlez s) (c_zlibz s).
Definition set_zact (s : cst) (z : list bool) : cst :=
  mkcst (c_w s) (c_h s) (c_fb s) (c_fmt s) (c_sigmax s) (c_rawsz s) z (c_taint s) (c_upd s) (c_canfur s) (c_fix s) (c_ev s) (c_out s) (c_screen s) (c_reqrs s) (c_zrlez s) (c_zlibz s).
Definition set_taint (s : cst) : cst :=
  mkcst (c_w s) (c_h s) (c_fb s) (c_fmt s) (c_sigmax s) (c_rawsz s) (c_zact s) true (c_upd s) (c_canfur s) (c_fix s) (c_ev s) (c_out s) (c_screen s) (c_reqrs s) (c_zrlez s) (c_zlibz s).
Definition set_canfur (s : cst) (b : bool) : cst :=
  mkcst (c_w s) (c_h s) (c_fb s) (c_fmt s) (c_sigmax s) (c_rawsz s) (c_zact s) (c_taint s) (c_upd s) b (c_fix s) (c_ev s) (c_out s) (c_screen s) (c_reqrs s) (c_zrlez s) (c_zlibz s).
Definition set_fix (s : cst) (m : Z) : cst :=
  mkcst (c_w s) (c_h s) (c_fb s) (c_fmt s) (c_sigmax s) (c_rawsz s) (c_zact s) (c_taint s) (c_upd s) (c_canfur s) m (c_ev s) (c_out s) (c_screen s) (c_reqrs s) (c_zrlez s) (c_zlibz s).
Definition fixed (s : cst) (i : Z) : bool := Z.testbit (c_fix s) i.
Definition set_screen (s : cst) (wh : Z * Z) : cst :=
  mkcst (c_w s) (c_h s) (c_fb s) (c_fmt s) (c_sigmax s) (c_rawsz s) (c_zact s) (c_taint s) (c_upd s) (c_canfur s) (c_fix s) (c_ev s) (c_out s) wh (c_reqrs s) (c_zrlez s) (c_zlibz s).
Definition set_reqrs (s : cst) (b : bool) : cst :=
  mkcst (c_w s) (c_h s) (c_fb s) (c_fmt s) (c_sigmax s) (c_rawsz s) (c_zact s) (c_taint s) (c_upd s) (c_canfur s) (c_fix s) (c_ev s) (c_out s) (c_screen s) b (c_zrlez s) (c_zlibz s).
Definition set_zrlez (s : cst) (b : bool) : cst :=
  mkcst (c_w s) (c_h s) (c_fb s) (c_fmt s) (c_sigmax s) (c_rawsz s) (c_zact s) (c_taint s) (c_upd s) (c_canfur s) (c_fix s) (c_ev s) (c_out s) (c_screen s) (c_reqrs s) b (c_zlibz s).
Definition set_zlibz (s : cst) (b : bool) : cst :=
  mkcst (c_w s) (c_h s) (c_fb s) (c_fmt s) (c_sigmax s) (c_rawsz s) (c_zact s) (c_taint s) (c_upd s) (c_canfur s) (c_fix s) (c_ev s) (c_out s) (c_screen s) (c_reqrs s) (c_zrlez s) b.
Definition add_ev (s : cst) (e : event) : cst :=
  mkcst (c_w s) (c_h s) (c_fb s) (c_fmt s) (c_sigmax s) (c_rawsz s) (c_zact s) (c_taint s) (c_upd s) (c_canfur s) (c_fix s) (e :: c_ev s) (c_out s) (c_screen s) (c_reqrs s) (c_zrlez s) (c_zlibz s).
Definition add_out (s : cst) (bs : list Z) : cst :=
  mkcst (c_w s) (c_h s) (c_fb s) (c_fmt s) (c_sigmax s) (c_rawsz s) (c_zact s) (c_taint s) (c_upd s) (c_canfur s) (c_fix s) (c_ev s) (rev bs ++ c_out s) (c_screen s) (c_reqrs s) (c_zrlez s) (c_zlibz s).

(* ---------------------------------------------------------------- results and the reader monad *)
Inductive res (A : Type) : Type :=
| Ok (a : A) (s : cst) (ts : list tok)
| Fail                 (* the library function returns FALSE *)
| More                 (* the stream is exhausted inside a message (blocking read / EOF -> FALSE) *)
| Desync (cause : Z) (rest : list tok)   (* no prediction: the token at the head of [rest] is not of the kind the client reads here
                            (1: plain bytes expected, 2: deflate block expected, 3: LZO block expected), 4: the deflate block just
                            consumed belongs to another stream / contradicts the stream history, 5: Tight JPEG *)
| Oob (code : Z).      (* the mirrored C path performs an out-of-bounds access *)
Arguments Ok {A}. Arguments Fail {A}. Arguments More {A}. Arguments Desync {A}. Arguments Oob {A}.

Definition M (A : Type) : Type := cst -> list tok -> res A.
Definition ret {A} (a : A) : M A := fun s ts => Ok a s ts.
Definition bind {A B} (m : M A) (k : A -> M B) : M B :=
  fun s ts => match m s ts with
              | Ok a s' ts' => k a s' ts'
              | Fail => Fail | More => More | Desync c r => Desync c r | Oob c => Oob c
              end.
Notation "x <- m ;; k" := (bind m (fun x => k)) (at level 61, m at next level, right associativity).
Notation "m ;;; k" := (bind m (fun _ => k)) (at level 61, right associativity).
Definition failM {A} : M A := fun _ _ => Fail.
Definition oobM {A} (c : Z) : M A := fun _ _ => Oob c.
Definition desyncM {A} (c : Z) : M A := fun _ ts => Desync c ts.
Definition get_st : M cst := fun s ts => Ok s s ts.
Definition put_st (s' : cst) : M unit := fun _ ts => Ok tt s' ts.
Definition upd_st (f : cst -> cst) : M unit := fun s ts => Ok tt (f s) ts.
Definition log_ev (e : event) : M unit := upd_st (fun s => add_ev s e).
Definition send (bs : list Z) : M unit := upd_st (fun s => add_out s bs).

(* ---------------------------------------------------------------- reading plain bytes (ReadFromRFBServer) *)
Inductive tk (A : Type) : Type := TkOk (a : A) (ts : list tok) | TkMore | TkDesync (rest : list tok).
Arguments TkOk {A}. Arguments TkMore {A}. Arguments TkDesync {A}.

(* the first n tokens must be plain bytes; structural on the token list, n counts down in Z
   (a request larger than what is left never materialises a huge nat) *)
Fixpoint take_bytes (ts : list tok) (n : Z) : tk (list Z) :=
  match ts with
  | [] => if n <=? 0 then TkOk [] [] else TkMore
  | t :: ts' =>
      if n <=? 0 then TkOk [] ts else
      match t with
      | TB b => match take_bytes ts' (n - 1) with
                | TkOk l r => TkOk (b mod 256 :: l) r
                | TkMore => TkMore | TkDesync r => TkDesync r
                end
      | _ => TkDesync ts
      end
  end.

Definition zlen {A} (l : list A) : Z := Z.of_nat (length l).

Definition rd (n : Z) : M (list Z) := fun s ts =>
  match take_bytes ts n with
  | TkOk l r => Ok l s r
  | TkMore => More
  | TkDesync r => Desync 1 r
  end.

(* read into a scratch buffer of [cap] bytes *)
Definition rd_buf (code cap n : Z) : M (list Z) :=
  if cap <? n then oobM code else rd n.

Definition be_val (l : list Z) : Z := fold_left (fun a b => a * 256 + b) l 0.
Fixpoint le_val (l : list Z) : Z := match l with [] => 0 | b :: r => b + 256 * le_val r end.

Definition rd_u8 : M Z := l <- rd 1 ;; ret (be_val l).
Definition rd_u16 : M Z := l <- rd 2 ;; ret (be_val l).
Definition rd_u32 : M Z := l <- rd 4 ;; ret (be_val l).

(* one pixel of [bypp] bytes as the C code stores it (memcpy into a CARDBPP, little-endian host) *)
Definition rd_px (bypp : Z) : M Z := l <- rd bypp ;; ret (le_val l).

(* split a flat list into rows of w elements (w > 0); the last row may be short *)
Fixpoint chunks_aux (fuel : nat) (w : nat) (l : list Z) : list (list Z) :=
  match fuel with
  | O => []
  | S f => match l with
           | [] => []
           | _ => firstn w l :: chunks_aux f w (skipn w l)
           end
  end.
Definition chunks (w : Z) (l : list Z) : list (list Z) :=
  if w <=? 0 then [] else chunks_aux (length l) (Z.to_nat w) l.

(* pixels from bytes: groups of bypp bytes, little endian *)
Definition px_of_bytes (bypp : Z) (bs : list Z) : list Z := map le_val (chunks bypp bs).

(* next token must be a compressed block *)
Definition rd_zblock : M (Z * bool * bool * list Z) := fun s ts =>
  match ts with
  | [] => More
  | TZ sid fresh ok data :: r => Ok (sid, fresh, ok, map (fun b => b mod 256) data) s r
  | _ :: _ => Desync 2 ts
  end.
Definition rd_lblock : M (list Z) := fun s ts =>
  match ts with
  | [] => More
  | TL data :: r => Ok (map (fun b => b mod 256) data) s r
  | _ :: _ => Desync 3 ts
  end.

(* ---------------------------------------------------------------- framebuffer primitives *)
Definition row_write (row : list Z) (x : Z) (vals : list Z) : option (list Z) :=
  if (0 <=? x) && (x + zlen vals <=? zlen row)
  then Some (firstn (Z.to_nat x) row ++ vals ++ skipn (Z.to_nat x + length vals) row)
  else None.

Fixpoint list_set {A} (l : list A) (n : nat) (v : A) : list A :=
  match l, n with
  | [], _ => []
  | _ :: r, O => v :: r
  | a :: r, S n' => a :: list_set r n' v
  end.

(* the only way the model stores pixels: a horizontal span inside row y *)
Definition fb_write (fb : fbuf) (x y : Z) (vals : list Z) : option fbuf :=
  if y <? 0 then None else
  match nth_error fb (Z.to_nat y) with
  | None => None
  | Some row => match row_write row x vals with
                | None => None
                | Some row' => Some (list_set fb (Z.to_nat y) row')
                end
  end.

Definition fb_get (fb : fbuf) (x y : Z) : option Z :=
  if (x <? 0) || (y <? 0) then None else
  match nth_error fb (Z.to_nat y) with
  | None => None
  | Some row => nth_error row (Z.to_nat x)
  end.

(* rows written top to bottom starting at (x, y): one pass over the framebuffer (k = rows still to skip);
   fails as soon as a row does not exist or a span leaves its row *)
Fixpoint write_rows_from (fb : fbuf) (x : Z) (k : nat) (rows : list (list Z)) : option fbuf :=
  match rows with
  | [] => Some fb
  | r :: rs =>
      match fb with
      | [] => None
      | row :: fb' =>
          match k with
          | S k' => match write_rows_from fb' x k' rows with Some t => Some (row :: t) | None => None end
          | O => match row_write row x r with
                 | None => None
                 | Some row' => match write_rows_from fb' x O rs with Some t => Some (row' :: t) | None => None end
                 end
          end
      end
  end.

Definition fb_write_rows (fb : fbuf) (x y : Z) (rows : list (list Z)) : option fbuf :=
  match rows with
  | [] => Some fb
  | _ => if y <? 0 then None else write_rows_from fb x (Z.to_nat y) rows
  end.

Definition new_fb (w h : Z) : fbuf := repeat (repeat 0 (Z.to_nat w)) (Z.to_nat h).

(* CheckRect (vncviewer.c): no lower-bound test, as in the C code *)
Definition check_rect (s : cst) (x y w h : Z) : bool :=
  (x + w <=? c_w s) && (y + h <=? c_h s).

Definition write_rowsM (code : Z) (x y : Z) (rows : list (list Z)) : M unit := fun s ts =>
  match fb_write_rows (c_fb s) x y rows with
  | Some fb' => Ok tt (set_fb s fb') ts
  | None => Oob code
  end.

(* FillRectangle / client->GotFillRect *)
Definition fill_rect (x y w h c : Z) : M unit := fun s ts =>
  if check_rect s x y w h
  then write_rowsM 1 x y (repeat (repeat c (Z.to_nat w)) (Z.to_nat h)) s ts
  else Ok tt s ts.

(* CopyRectangle / client->GotBitmap: h rows of w pixels taken from a buffer holding [pix];
   [navail] pixels of the buffer are defined by this message, the rest is stale memory. *)
Definition take_rows (w h : Z) (pix : list Z) : list (list Z) :=
  firstn (Z.to_nat h) (chunks w (pix ++ repeat 0 (Z.to_nat (w * h) - length pix))).

Definition copy_rect (x y w h : Z) (pix : list Z) : M unit := fun s ts =>
  if check_rect s x y w h
  then (if zlen pix <? w * h
        then write_rowsM 2 x y (take_rows w h pix) (set_taint s) ts
        else write_rowsM 2 x y (take_rows w h pix) s ts)
  else Ok tt s ts.

(* CopyRectangleFromRectangle / client->GotCopyRect: pixel by pixel in the C loop order *)
Definition copy_px (fb : fbuf) (sx sy dx dy : Z) : option fbuf :=
  match fb_get fb sx sy with
  | None => None
  | Some v => fb_write fb dx dy [v]
  end.

(* one row: i runs over [0,w) ascending when fwd, descending otherwise *)
Fixpoint copy_row (fb : fbuf) (sx sy dx dy : Z) (idx : list Z) : option fbuf :=
  match idx with
  | [] => Some fb
  | i :: r => match copy_px fb (sx + i) sy (dx + i) dy with
              | None => None
              | Some fb' => copy_row fb' sx sy dx dy r
              end
  end.

Fixpoint copy_rows (fb : fbuf) (sx sy dx dy : Z) (cols : list Z) (rowidx : list Z) : option fbuf :=
  match rowidx with
  | [] => Some fb
  | j :: r => match copy_row fb sx (sy + j) dx (dy + j) cols with
              | None => None
              | Some fb' => copy_rows fb' sx sy dx dy cols r
              end
  end.

Definition zseq (n : Z) : list Z := map Z.of_nat (seq 0 (Z.to_nat n)).

Definition copy_from_rect (sx sy w h dx dy : Z) : M unit := fun s ts =>
  if negb (check_rect s sx sy w h) then Ok tt s ts else
  if negb (check_rect s dx dy w h) then Ok tt s ts else
  let cols := if dx <? sx then zseq w else rev (zseq w) in
  let rws := if dy <? sy then zseq h else rev (zseq h) in
  match copy_rows (c_fb s) sx sy dx dy cols rws with
  | Some fb' => Ok tt (set_fb s fb') ts
  | None => Oob 3
  end.

(* ---------------------------------------------------------------- spec-level painting (total) *)
(* splice vals into row at x when it fits, else leave the row alone *)
Definition row_splice (row : list Z) (x : Z) (vals : list Z) : list Z :=
  match row_write row x vals with Some r => r | None => row end.

Fixpoint blit_from (fb : fbuf) (x : Z) (k : Z) (rows : list (list Z)) : fbuf :=
  (* k = number of framebuffer rows still to skip before the first row of [rows] *)
  match fb with
  | [] => []
  | r :: fb' => if 0 <? k then r :: blit_from fb' x (k - 1) rows
                else match rows with
                     | [] => r :: fb'
                     | v :: rows' => row_splice r x v :: blit_from fb' x 0 rows'
                     end
  end.

(* the framebuffer with the block [rows] placed with its top-left corner at (x, y) *)
Definition blit_spec (fb : fbuf) (x y : Z) (rows : list (list Z)) : fbuf := blit_from fb x y rows.

Definition fb_wf (w h : Z) (fb : fbuf) : Prop :=
  zlen fb = h /\ Forall (fun r => zlen r = w) fb.

Definition rows_wf (w h : Z) (rows : list (list Z)) : Prop :=
  zlen rows = h /\ Forall (fun r => zlen r = w) rows.

Definition st_wf (s : cst) : Prop :=
  0 <= c_w s /\ 0 <= c_h s /\ fb_wf (c_w s) (c_h s) (c_fb s).

Definition bypp_of (s : cst) : Z := f_bpp (c_fmt s) / 8.
