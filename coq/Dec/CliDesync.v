(* CliDesync.v - WHEN does the mirror decline to predict?  [Desync c rest] is produced by five primitives only; this file
   proves, for every computation of the mirror up to HandleRFBServerMessage and for every token stream, that the result
   [Desync c rest] pins down a position of the input ([rest] is a suffix of the stream) at which the script's token is of
   another KIND than what the C client reads there:
     1  plain bytes are read (ReadFromRFBServer) but the next token is a deflate / LZO block,
     2  a deflate block is expected but the next token is a plain byte or an LZO block,
     3  an LZO block is expected but the next token is something else,
     4  the deflate block just consumed belongs to another zlib stream of the client or its restart flag contradicts
        the history of that stream (the harness could not render it),
     5  Tight JPEG rectangle (libjpeg is not mirrored).
   Hence a stream that is "well-typed" in this sense is never answered by Desync, and the [<> Oob] theorems of C08 are
   not satisfied vacuously on it. *)
From LV Require Import Dec.CliBase Dec.CliDec Dec.CliDecZ Dec.CliMsg Dec.CliSound.
Require Import ZifyBool.
Local Open Scope Z_scope.

Definition is_TB (t : tok) : bool := match t with TB _ => true | _ => false end.
Definition is_TZ (t : tok) : bool := match t with TZ _ _ _ _ => true | _ => false end.
Definition is_TL (t : tok) : bool := match t with TL _ => true | _ => false end.

Definition cause_ok (c : Z) (pre rest : list tok) : Prop :=
  (c = 1 /\ exists t r, rest = t :: r /\ is_TB t = false) \/
  (c = 2 /\ exists t r, rest = t :: r /\ is_TZ t = false) \/
  (c = 3 /\ exists t r, rest = t :: r /\ is_TL t = false) \/
  (c = 4 /\ exists p sid f ok d, pre = p ++ [TZ sid f ok d]) \/
  c = 5.

Lemma cause_ok_app p c pre rest : cause_ok c pre rest -> cause_ok c (p ++ pre) rest.
Proof.
  intros [H|[H|[H|[(E & p0 & sid & f & ok & d & ->)|H]]]]; unfold cause_ok; auto.
  right; right; right; left. split; [exact E|]. exists (p ++ p0), sid, f, ok, d. now rewrite app_assoc.
Qed.

Definition dsy {A} (m : M A) : Prop :=
  forall s ts,
    match m s ts with
    | Ok _ _ ts' => exists pre, ts = pre ++ ts'
    | Desync c rest => exists pre, ts = pre ++ rest /\ cause_ok c pre rest
    | _ => True
    end.

Lemma dsy_ret {A} (a : A) : dsy (ret a).
Proof. intros s ts. now exists []. Qed.
Lemma dsy_fail {A} : dsy (@failM A).
Proof. intros s ts. exact I. Qed.
Lemma dsy_oob {A} c : dsy (@oobM A c).
Proof. intros s ts. exact I. Qed.
Lemma dsy_jpeg {A} : dsy (@desyncM A 5).
Proof. intros s ts. exists []. split; [reflexivity|]. unfold cause_ok. tauto. Qed.
Lemma dsy_const {A} (r : res A) : match r with Ok _ _ _ => False | Desync _ _ => False | _ => True end -> dsy (fun _ _ => r).
Proof. intros Hr s ts. destruct r; auto; contradiction. Qed.
Lemma dsy_get : dsy get_st.
Proof. intros s ts. now exists []. Qed.
Lemma dsy_upd f : dsy (upd_st f).
Proof. intros s ts. now exists []. Qed.
Lemma dsy_log e : dsy (log_ev e).
Proof. apply dsy_upd. Qed.
Lemma dsy_send bs : dsy (send bs).
Proof. apply dsy_upd. Qed.

Lemma dsy_bind {A B} (m : M A) (k : A -> M B) : dsy m -> (forall a, dsy (k a)) -> dsy (bind m k).
Proof.
  intros Hm Hk s ts. unfold bind. specialize (Hm s ts).
  destruct (m s ts) as [a s1 ts1| | |c r|]; auto.
  destruct Hm as [p1 ->]. specialize (Hk a s1 ts1).
  destruct (k a s1 ts1) as [b s2 ts2| | |c r|]; auto.
  - destruct Hk as [p2 ->]. exists (p1 ++ p2). now rewrite app_assoc.
  - destruct Hk as (p2 & -> & Hc). exists (p1 ++ p2). split; [now rewrite app_assoc|now apply cause_ok_app].
Qed.
Hint Resolve dsy_ret dsy_fail dsy_oob dsy_get dsy_upd dsy_log dsy_send dsy_jpeg : dsyt.

(* ---------------------------------------------------------------- readers *)
Lemma take_bytes_dsy ts : forall n,
  match take_bytes ts n with
  | TkOk _ r => exists pre, ts = pre ++ r
  | TkDesync r => exists pre, ts = pre ++ r /\ exists t r', r = t :: r' /\ is_TB t = false
  | TkMore => True
  end.
Proof.
  induction ts as [|t ts IH]; intros n; cbn [take_bytes].
  - destruct (n <=? 0); [now exists []|exact I].
  - destruct (n <=? 0); [now exists []|].
    destruct t as [b|sid f ok d|d].
    + specialize (IH (n - 1)). destruct (take_bytes ts (n - 1)) as [l r| |r]; auto.
      * destruct IH as [p ->]. now exists (TB b :: p).
      * destruct IH as (p & -> & H). exists (TB b :: p). split; [reflexivity|exact H].
    + exists []. split; [reflexivity|]. now exists (TZ sid f ok d), ts.
    + exists []. split; [reflexivity|]. now exists (TL d), ts.
Qed.

Lemma dsy_rd n : dsy (rd n).
Proof.
  intros s ts. unfold rd. pose proof (take_bytes_dsy ts n) as H. destruct (take_bytes ts n) as [l r| |r]; auto.
  destruct H as (p & -> & H). exists p. split; [reflexivity|]. left. split; [reflexivity|exact H].
Qed.
Hint Resolve dsy_rd : dsyt.
Lemma dsy_rd_zblock : dsy rd_zblock.
Proof.
  intros s ts. unfold rd_zblock. destruct ts as [|[b|sid f ok d|d] r]; try exact I.
  - exists []. split; [reflexivity|]. right; left. split; [reflexivity|]. now exists (TB b), r.
  - now exists [TZ sid f ok d].
  - exists []. split; [reflexivity|]. right; left. split; [reflexivity|]. now exists (TL d), r.
Qed.
Lemma dsy_rd_lblock : dsy rd_lblock.
Proof.
  intros s ts. unfold rd_lblock. destruct ts as [|[b|sid f ok d|d] r]; try exact I.
  - exists []. split; [reflexivity|]. right; right; left. split; [reflexivity|]. now exists (TB b), r.
  - exists []. split; [reflexivity|]. right; right; left. split; [reflexivity|]. now exists (TZ sid f ok d), r.
  - now exists [TL d].
Qed.
Hint Resolve dsy_rd_zblock dsy_rd_lblock : dsyt.

(* functions that do not touch the token stream *)
Lemma dsy_write_rows c x y rows : dsy (write_rowsM c x y rows).
Proof. intros s ts. unfold write_rowsM. destruct (fb_write_rows (c_fb s) x y rows); [now exists []|exact I]. Qed.
Lemma dsy_fill_rect x y w h c : dsy (fill_rect x y w h c).
Proof. intros s ts. unfold fill_rect. destruct (check_rect s x y w h); [apply dsy_write_rows|now exists []]. Qed.
Lemma dsy_copy_rect x y w h pix : dsy (copy_rect x y w h pix).
Proof.
  intros s ts. unfold copy_rect. destruct (check_rect s x y w h); [|now exists []].
  destruct (zlen pix <? w * h); apply dsy_write_rows.
Qed.
Lemma dsy_copy_from_rect sx sy w h dx dy : dsy (copy_from_rect sx sy w h dx dy).
Proof.
  intros s ts. unfold copy_from_rect.
  destruct (negb (check_rect s sx sy w h)); [now exists []|].
  destruct (negb (check_rect s dx dy w h)); [now exists []|].
  match goal with |- match (match ?e with _ => _ end) with _ => _ end => destruct e end; [now exists []|exact I].
Qed.
Hint Resolve dsy_write_rows dsy_fill_rect dsy_copy_rect dsy_copy_from_rect : dsyt.

(* the zlib stream readers: cause 4 sits right behind the consumed block *)
Ltac dsy_stream :=
  intros s ts; unfold rd_zlib_stream, rd_zrle_stream, rd_shared; unfold rd_stream; unfold bind, rd_zblock, get_st, upd_st, ret, desyncM;
  destruct ts as [|[b|sid f ok d|d] r]; cbn beta iota;
  repeat (match goal with |- context [if ?c then _ else _] => destruct c end; cbn beta iota);
  try exact I;
  try (exists []; split; [reflexivity|]; right; left; split; [reflexivity|]; eexists _, _; split; [reflexivity|reflexivity]);
  try (eexists [_]; reflexivity);
  try (eexists [_]; split; [reflexivity|]; right; right; right; left; split; [reflexivity|]; eexists [], _, _, _, _; reflexivity).
Lemma dsy_rd_stream sid0 : dsy (rd_stream sid0).
Proof. dsy_stream. Qed.
Lemma dsy_rd_zlib_stream : dsy rd_zlib_stream.
Proof. dsy_stream. Qed.
Lemma dsy_rd_zrle_stream : dsy rd_zrle_stream.
Proof. dsy_stream. Qed.
Hint Resolve dsy_rd_stream dsy_rd_zlib_stream dsy_rd_zrle_stream : dsyt.

Lemma dsy_trle_runlen cap cur off pos acc : dsy (trle_runlen cap cur off pos acc).
Proof.
  intros s ts. unfold trle_runlen. revert cur off pos acc.
  induction ts as [|t ts IH]; intros cur off pos acc; cbn [trle_runlen_ts].
  - destruct ((cur =? 255) && (pos <? cap - 1)); [destruct (cap <? off + 2); exact I|now exists []].
  - destruct ((cur =? 255) && (pos <? cap - 1)); [|now exists []].
    destruct (cap <? off + 2); [exact I|]. destruct t as [b|sid f ok d|d].
    + specialize (IH (b mod 256) (off + 1) (pos + 1) (acc + 255)).
      destruct (trle_runlen_ts ts cap (b mod 256) (off + 1) (pos + 1) (acc + 255) s) as [a s' ts'| | |c r|]; auto.
      * destruct IH as [p ->]. now exists (TB b :: p).
      * destruct IH as (p & -> & H). exists (TB b :: p). split; [reflexivity|]. now apply (cause_ok_app [TB b]).
    + exists []. split; [reflexivity|]. left. split; [reflexivity|]. now exists (TZ sid f ok d), ts.
    + exists []. split; [reflexivity|]. left. split; [reflexivity|]. now exists (TL d), ts.
Qed.
Hint Resolve dsy_trle_runlen : dsyt.

(* ---------------------------------------------------------------- generic traversal tactic *)
Ltac dsyt_step :=
  first
    [ apply dsy_ret | apply dsy_fail | apply dsy_oob | apply dsy_get | apply dsy_upd
    | solve [auto with dsyt]
    | apply dsy_bind; [|intros]
    | match goal with
      | |- dsy (if ?b then _ else _) => destruct b
      | |- dsy (match ?x with _ => _ end) => destruct x
      | |- dsy (let '(_, _) := ?x in _) => destruct x
      | |- dsy (fun _ _ => More) => apply dsy_const; exact I
      | |- dsy (desyncM 5) => apply dsy_jpeg
      | |- dsy (fun _ _ => Fail) => apply dsy_const; exact I
      | |- dsy (fun _ _ => Oob _) => apply dsy_const; exact I
      end ].
Ltac dsyt := repeat dsyt_step.

Lemma dsy_rd_buf c cap n : dsy (rd_buf c cap n).
Proof. unfold rd_buf. dsyt. Qed.
Lemma dsy_rd_u8 : dsy rd_u8.
Proof. unfold rd_u8. dsyt. Qed.
Lemma dsy_rd_u16 : dsy rd_u16.
Proof. unfold rd_u16. dsyt. Qed.
Lemma dsy_rd_u32 : dsy rd_u32.
Proof. unfold rd_u32. dsyt. Qed.
Lemma dsy_rd_px b : dsy (rd_px b).
Proof. unfold rd_px. dsyt. Qed.
Hint Resolve dsy_rd_buf dsy_rd_u8 dsy_rd_u16 dsy_rd_u32 dsy_rd_px : dsyt.

Lemma dsy_mapM {A B} (f : A -> M B) l : (forall a, dsy (f a)) -> dsy (mapM f l).
Proof. intros Hf. induction l; cbn [mapM]; dsyt; try apply Hf. Qed.

(* ---------------------------------------------------------------- CliDec.v *)
Lemma dsy_send_fur i x y w h : dsy (send_fur i x y w h).
Proof. unfold send_fur. dsyt. Qed.
Hint Resolve dsy_send_fur : dsyt.
Lemma dsy_send_incr : dsy send_incr.
Proof. unfold send_incr. dsyt. Qed.
Hint Resolve dsy_send_incr : dsyt.

Lemma dsy_raw_loop fuel : forall x y w h bpl lines bypp, dsy (raw_loop fuel x y w h bpl lines bypp).
Proof. induction fuel; intros; cbn [raw_loop]; dsyt. Qed.
Lemma dsy_dec_raw x y w h : dsy (dec_raw x y w h).
Proof. unfold dec_raw. dsyt; try apply dsy_raw_loop. Qed.
Lemma dsy_dec_copyrect x y w h : dsy (dec_copyrect x y w h).
Proof. unfold dec_copyrect. dsyt. Qed.
Lemma dsy_rre_loop fuel : forall n rx ry bypp, dsy (rre_loop fuel n rx ry bypp).
Proof. induction fuel; intros; cbn [rre_loop]; dsyt. Qed.
Lemma dsy_dec_rre x y w h : dsy (dec_rre x y w h).
Proof. unfold dec_rre. dsyt; try (intros s ts; apply dsy_rre_loop). Qed.
Lemma dsy_corre_subs rx ry bypp recs : dsy (corre_subs rx ry bypp recs).
Proof. induction recs; cbn [corre_subs]; dsyt. Qed.
Lemma dsy_dec_corre x y w h : dsy (dec_corre x y w h).
Proof. unfold dec_corre. dsyt; try apply dsy_corre_subs. Qed.
Lemma dsy_hextile_coloured x y bypp recs : forall fg, dsy (hextile_coloured x y bypp recs fg).
Proof. induction recs; intros; cbn [hextile_coloured]; dsyt. Qed.
Lemma dsy_hextile_mono x y c recs : dsy (hextile_mono x y c recs).
Proof. induction recs; cbn [hextile_mono]; dsyt. Qed.
Hint Resolve dsy_hextile_coloured dsy_hextile_mono : dsyt.
Lemma dsy_hextile_tile x y w h bypp bg fg : dsy (hextile_tile x y w h bypp bg fg).
Proof. unfold hextile_tile. dsyt. Qed.
Hint Resolve dsy_hextile_tile : dsyt.
Lemma dsy_hextile_cols fuel : forall cx y rx rw h bypp bg fg, dsy (hextile_cols fuel cx y rx rw h bypp bg fg).
Proof. induction fuel; intros; cbn [hextile_cols]; dsyt. Qed.
Hint Resolve dsy_hextile_cols : dsyt.
Lemma dsy_hextile_rows fuel : forall cy rx ry rw rh bypp bg fg, dsy (hextile_rows fuel cy rx ry rw rh bypp bg fg).
Proof. induction fuel; intros; cbn [hextile_rows]; dsyt. Qed.
Lemma dsy_dec_hextile x y w h : dsy (dec_hextile x y w h).
Proof. unfold dec_hextile. dsyt; try apply dsy_hextile_rows. Qed.
Lemma dsy_dec_cursor xh yh w h enc : dsy (dec_cursor xh yh w h enc).
Proof. unfold dec_cursor. dsyt. Qed.
Hint Resolve dsy_dec_raw dsy_dec_copyrect dsy_dec_rre dsy_dec_corre dsy_dec_hextile dsy_dec_cursor : dsyt.

Lemma dsy_resize w h : dsy (resize w h).
Proof. unfold resize. dsyt. Qed.

(* ---------------------------------------------------------------- CliDecZ.v *)
Lemma dsy_peek_at code cap c k n : dsy (peek_at code cap c k n).
Proof. unfold peek_at. dsyt. Qed.
Lemma dsy_peek code cap c n : dsy (peek code cap c n).
Proof. apply dsy_peek_at. Qed.
Hint Resolve dsy_peek_at dsy_peek : dsyt.
Lemma dsy_cpix_at code cap v c k : dsy (cpix_at code cap v c k).
Proof. unfold cpix_at. destruct v; dsyt. Qed.
Hint Resolve dsy_cpix_at : dsyt.
Lemma dsy_cpixels code cap v c n : forall k, dsy (cpixels code cap v c k n).
Proof. induction n; intros; cbn [cpixels]; dsyt. Qed.
Lemma dsy_paint_seq code x y w pix : dsy (paint_seq code x y w pix).
Proof. unfold paint_seq. dsyt. Qed.
Lemma dsy_pal_get code pal i : dsy (pal_get code pal i).
Proof. unfold pal_get. dsyt. Qed.
Hint Resolve dsy_cpixels dsy_paint_seq dsy_pal_get : dsyt.

Lemma dsy_dec_zlib x y w h : dsy (dec_zlib x y w h).
Proof. unfold dec_zlib. dsyt. Qed.
Lemma dsy_dec_ultra x y w h : dsy (dec_ultra x y w h).
Proof. unfold dec_ultra. dsyt. Qed.
Lemma dsy_ultrazip_walk fuel : forall n cap bypp c, dsy (ultrazip_walk fuel n cap bypp c).
Proof. induction fuel; intros; cbn [ultrazip_walk]; dsyt. Qed.
Hint Resolve dsy_ultrazip_walk : dsyt.
Lemma dsy_dec_ultrazip x y w h : dsy (dec_ultrazip x y w h).
Proof. unfold dec_ultrazip. dsyt. Qed.
Hint Resolve dsy_dec_zlib dsy_dec_ultra dsy_dec_ultrazip : dsyt.

Lemma dsy_zrle_runlen l : forall cap pos bend acc n, dsy (zrle_runlen l cap pos bend acc n).
Proof. induction l; intros; cbn [zrle_runlen]; dsyt. Qed.
Hint Resolve dsy_zrle_runlen : dsyt.
Lemma dsy_zrle_plain fuel : forall cap v c c0 blen total acc k, dsy (zrle_plain fuel cap v c c0 blen total acc k).
Proof. induction fuel; intros; cbn [zrle_plain]; dsyt. Qed.
Lemma dsy_zrle_palrle fuel : forall cap c c0 blen total pal acc k, dsy (zrle_palrle fuel cap c c0 blen total pal acc k).
Proof. induction fuel; intros; cbn [zrle_palrle]; dsyt. Qed.
Hint Resolve dsy_zrle_plain dsy_zrle_palrle : dsyt.
Lemma dsy_zrle_tile cap v c rem x y w h : dsy (zrle_tile cap v c rem x y w h).
Proof. unfold zrle_tile. dsyt; try (apply dsy_mapM; intros; dsyt; try (apply dsy_mapM; intros; dsyt)). Qed.
Hint Resolve dsy_zrle_tile : dsyt.
Lemma dsy_zrle_cols fuel : forall cap v c rem i j rx ry rw th, dsy (zrle_cols fuel cap v c rem i j rx ry rw th).
Proof. induction fuel; intros; cbn [zrle_cols]; dsyt. Qed.
Hint Resolve dsy_zrle_cols : dsyt.
Lemma dsy_zrle_rows fuel : forall cap v c rem j rx ry rw rh, dsy (zrle_rows fuel cap v c rem j rx ry rw rh).
Proof. induction fuel; intros; cbn [zrle_rows]; dsyt. Qed.
Hint Resolve dsy_zrle_rows : dsyt.
Lemma dsy_dec_zrle x y w h : dsy (dec_zrle x y w h).
Proof. unfold dec_zrle. dsyt. Qed.
Hint Resolve dsy_dec_zrle : dsyt.

Lemma dsy_trle_plain fuel : forall cap v total acc off, dsy (trle_plain fuel cap v total acc off).
Proof. induction fuel; intros; cbn [trle_plain]; dsyt. Qed.
Lemma dsy_trle_palrle fuel : forall cap total pal acc off, dsy (trle_palrle fuel cap total pal acc off).
Proof. induction fuel; intros; cbn [trle_palrle]; dsyt. Qed.
Hint Resolve dsy_trle_plain dsy_trle_palrle : dsyt.
Lemma dsy_trle_case127 cap v x y w h t type off : dsy (trle_case127 cap v x y w h t type off).
Proof. unfold trle_case127. dsyt; try (apply dsy_mapM; intros; dsyt; try (apply dsy_mapM; intros; dsyt)). Qed.
Hint Resolve dsy_trle_case127 : dsyt.
Lemma dsy_trle_tile cap v x y w h t : dsy (trle_tile cap v x y w h t).
Proof. unfold trle_tile. dsyt. Qed.
Hint Resolve dsy_trle_tile : dsyt.
Lemma dsy_trle_cols fuel : forall cap v cx y rx rw h t, dsy (trle_cols fuel cap v cx y rx rw h t).
Proof. induction fuel; intros; cbn [trle_cols]; dsyt. Qed.
Hint Resolve dsy_trle_cols : dsyt.
Lemma dsy_trle_rows fuel : forall cap v cy rx ry rw rh t, dsy (trle_rows fuel cap v cy rx ry rw rh t).
Proof. induction fuel; intros; cbn [trle_rows]; dsyt. Qed.
Hint Resolve dsy_trle_rows : dsyt.
Lemma dsy_dec_trle x y w h : dsy (dec_trle x y w h).
Proof. unfold dec_trle. dsyt. Qed.
Hint Resolve dsy_dec_trle : dsyt.

Lemma dsy_rd_compact : dsy rd_compact.
Proof. unfold rd_compact, rd_compact_aux. dsyt. Qed.
Hint Resolve dsy_rd_compact : dsyt.
Lemma dsy_tight_rows code f flt cut bypp rx y0 rw rowsize rowsdata prev :
  dsy (tight_rows code f flt cut bypp rx y0 rw rowsize rowsdata prev).
Proof.
  unfold tight_rows. destruct flt; dsyt;
    try (apply dsy_mapM; intros; dsyt; try (apply dsy_mapM; intros; dsyt)).
Qed.
Hint Resolve dsy_tight_rows : dsyt.

Lemma dsy_write_lin code x y : dsy (write_lin code x y).
Proof. unfold write_lin. dsyt. Qed.
Lemma dsy_grad_zero_width code rx ry rh : dsy (grad_zero_width code rx ry rh).
Proof. unfold grad_zero_width. dsyt. apply dsy_mapM. intros. apply dsy_write_lin. Qed.
Hint Resolve dsy_write_lin dsy_grad_zero_width : dsyt.

Lemma dsy_dec_tight x y w h : dsy (dec_tight x y w h).
Proof. unfold dec_tight. dsyt. Qed.
Hint Resolve dsy_dec_tight : dsyt.

Hint Resolve dsy_resize : dsyt.

(* ---------------------------------------------------------------- CliMsg.v *)
Lemma dsy_do_rect : dsy do_rect.
Proof. unfold do_rect. dsyt. Qed.

Hint Resolve dsy_do_rect : dsyt.
Lemma dsy_rect_loop n : dsy (rect_loop n).
Proof. induction n; cbn [rect_loop]; dsyt. Qed.
Hint Resolve dsy_rect_loop : dsyt.

Lemma dsy_handle_body t : dsy (handle_body t).
Proof. unfold handle_body. dsyt. Qed.

Lemma dsy_handle_msg : dsy handle_msg.
Proof. rewrite handle_msg_eq. apply dsy_bind; [auto with dsyt|apply dsy_handle_body]. Qed.


(* the characterisation, for HandleRFBServerMessage and every token stream *)
Theorem desync_characterised s ts c rest :
  handle_msg s ts = Desync c rest -> exists pre, ts = pre ++ rest /\ cause_ok c pre rest.
Proof. intros E. pose proof (dsy_handle_msg s ts) as H. rewrite E in H. exact H. Qed.

(* ... and a stream of plain bytes only (what every server can put on the wire for the uncompressed encodings) gets
   Desync only where the client wants a compressed block or a JPEG image *)
Theorem desync_plain_stream s ts c rest :
  Forall (fun t => is_TB t = true) ts -> handle_msg s ts = Desync c rest -> c = 2 \/ c = 3 \/ c = 5.
Proof.
  intros Hts E. destruct (desync_characterised _ _ _ _ E) as (pre & -> & Hc).
  apply Forall_app in Hts. destruct Hts as [Hp Hr].
  destruct Hc as [H|[H|[H|[H|H]]]]; auto.
  - destruct H as (E1 & t & r & E2 & Ht). subst rest. apply Forall_inv in Hr. congruence.
  - tauto.
  - destruct H as [E1 _]. auto.
  - destruct H as (E1 & p & sid & f & ok & d & E2). subst pre.
    apply Forall_app in Hp. destruct Hp as [_ Hp]. apply Forall_inv in Hp. discriminate.
Qed.
