(* RFB spec 7.7.1 Raw: width*height pixel values, left-to-right scan-line order. *)
From Coq Require Import ZArith List.
From LV Require Import Enc.EncBase Dec.SpecBase.
Import ListNotations.

Definition dec_raw (bypp w h : nat) (bs : list Z) : option grid :=
  all_consumed (take_rows bypp w h bs).
