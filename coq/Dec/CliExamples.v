(* CliExamples.v - concrete instances showing that the hypotheses of the C07 theorems are satisfiable
   and what the statements compute to (used by the ..._nonvacuous examples of Props/Properties_C07.v). *)
From LV Require Import Dec.CliBase Dec.CliFbProofs Dec.CliDec Dec.CliDecZ Dec.CliMsg Dec.CliInit Dec.RefEnc Dec.RefEncZ
     Dec.CliRtBase Dec.CliRtSimple Dec.CliRtZ Dec.CliRead.
Require Import ZifyBool.
Local Open Scope Z_scope.

Definition fmt_ex : pixfmt := mkfmt 32 24 false 255 255 255 16 8 0.
Definition s_ex : cst := load_fb (init_state fmt_ex 255 5 4)
  [[1; 2; 3; 4; 5]; [6; 7; 8; 9; 10]; [11; 12; 13; 14; 15]; [16; 17; 18; 19; 20]].
Definition rows_ex : list (list Z) := [[100; 200; 200]; [100; 300; 16777215]].
Definition ch_ex : Z -> Z := fun i => i * 7 + 3.

Lemma s_ex_wf : st_wf s_ex.
Proof. unfold st_wf, fb_wf. cbn. repeat split; try lia; repeat constructor. Qed.
Lemma s_ex_bypp : bypp_ok s_ex.
Proof. unfold bypp_ok. cbn. split; [right; right; reflexivity|reflexivity]. Qed.
Lemma rows_ex_wf : rows_wf 3 2 rows_ex.
Proof. unfold rows_wf. cbn. split; [reflexivity|repeat constructor]. Qed.
Lemma rows_ex_px : Forall (Forall (px_ok (bypp_of s_ex))) rows_ex.
Proof. unfold rows_ex, px_ok. cbn. repeat constructor; lia. Qed.

Lemma hyps_rect_ex :
  st_wf s_ex /\ bypp_ok s_ex /\ 0 <= 1 /\ 0 <= 2 /\ 1 <= 3 <= 255 /\ 0 <= 2 <= 255 /\ 1 + 3 <= c_w s_ex /\ 2 + 2 <= c_h s_ex /\
  rows_wf 3 2 rows_ex /\ Forall (Forall (px_ok (bypp_of s_ex))) rows_ex /\ 3 + 3 * 2 <= cCoRREBound_num / (4 + bypp_of s_ex).
Proof.
  repeat split; try apply s_ex_wf; try apply s_ex_bypp; try apply rows_ex_wf; try apply rows_ex_px; cbn; try lia.
  all: try (apply rows_ex_wf). all: try (unfold cCoRREBound_num; cbn; lia).
Qed.

Lemma ex_raw : dec_raw 1 2 3 2 s_ex (toks (ref_raw 4 rows_ex) ++ [TB 9])
               = Ok tt (set_fb s_ex [[1; 2; 3; 4; 5]; [6; 7; 8; 9; 10]; [11; 100; 200; 200; 15]; [16; 100; 300; 16777215; 20]]) [TB 9].
Proof. vm_compute. reflexivity. Qed.
Lemma ex_rre : dec_rre 1 2 3 2 s_ex (toks (ref_rre ch_ex 4 3 2 rows_ex) ++ [TB 9])
               = Ok tt (set_fb s_ex [[1; 2; 3; 4; 5]; [6; 7; 8; 9; 10]; [11; 100; 200; 200; 15]; [16; 100; 300; 16777215; 20]]) [TB 9].
Proof. vm_compute. reflexivity. Qed.
Lemma ex_hextile : dec_hextile 1 2 3 2 s_ex (toks (ref_hextile ch_ex 4 3 2 rows_ex) ++ [TB 9])
               = Ok tt (set_fb s_ex [[1; 2; 3; 4; 5]; [6; 7; 8; 9; 10]; [11; 100; 200; 200; 15]; [16; 100; 300; 16777215; 20]]) [TB 9].
Proof. vm_compute. reflexivity. Qed.
Lemma ex_copy : dec_copyrect 1 1 3 2 s_ex (toks (ref_copyrect 0 0) ++ [TB 9])
               = Ok tt (set_fb s_ex [[1; 2; 3; 4; 5]; [6; 1; 2; 3; 10]; [11; 6; 1; 2; 15]; [16; 17; 18; 19; 20]]) [TB 9] -> False.
Proof. vm_compute. discriminate. Qed.   (* overlapping copy: NOT the naive forward result ... *)
Lemma ex_copy2 : dec_copyrect 1 1 3 2 s_ex (toks (ref_copyrect 0 0) ++ [TB 9])
               = Ok tt (set_fb s_ex [[1; 2; 3; 4; 5]; [6; 1; 2; 3; 10]; [11; 6; 7; 8; 15]; [16; 17; 18; 19; 20]]) [TB 9].
Proof. vm_compute. reflexivity. Qed.   (* ... but the memmove result *)

Lemma ex_read : read_exact 5 (mkr [1; 2] [3; 4; 5; 6; 7] [1; 1; 3]) = Some ([1; 2; 3; 4; 5], mkr [6; 7] [] []).
Proof. vm_compute. reflexivity. Qed.
