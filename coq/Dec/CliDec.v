(* CliDec.v - mirror of HandleRFBServerMessage (rfbclient.c) and of the rectangle decoders
   rre.c, corre.c, hextile.c, cursor.c: same reads in the same order, same checks, same
   framebuffer primitives.  Definitions only.  (Compressed encodings: CliDecZ.v.) *)
From LV Require Export Dec.CliBase.
Local Open Scope Z_scope.

Definition flag (v bit : Z) : bool := negb (Z.land v bit =? 0).

(* little-endian bytes of a pixel value *)
Fixpoint le_bytes (n : nat) (v : Z) : list Z :=
  match n with O => [] | S n' => v mod 256 :: le_bytes n' (v / 256) end.
Fixpoint be_bytes_aux (n : nat) (v : Z) (acc : list Z) : list Z :=
  match n with O => acc | S n' => be_bytes_aux n' (v / 256) (v mod 256 :: acc) end.
Definition be_bytes (n : nat) (v : Z) : list Z := be_bytes_aux n v [].

(* ---------------------------------------------------------------- client -> server requests *)
Definition fur_bytes (incr x y w h : Z) : list Z :=
  cC_FramebufferUpdateRequest :: incr :: be_bytes 2 (x mod 65536) ++ be_bytes 2 (y mod 65536)
     ++ be_bytes 2 (w mod 65536) ++ be_bytes 2 (h mod 65536).

Definition send_fur (incr x y w h : Z) : M unit :=
  s <- get_st ;;
  if negb (c_canfur s) then ret tt else
  if c_reqrs s then ret tt else          (* "Skipping Update - resize in progress" *)
  send (fur_bytes incr x y w h).

(* SendExtDesktopSize (an application call between two messages): SetDesktopSize with one screen, then a full update
   request; further requests are withheld until the server answers with an ExtendedDesktopSize rectangle.  Of the
   rfbExtDesktopScreen the C code only sets width and height: id, x, y, flags are whatever the stack holds (-1) *)
Definition send_ext_size (w h : Z) : M unit :=
  s <- get_st ;;
  if (fst (c_screen s) =? 0) && (snd (c_screen s) =? 0) then ret tt else
  if (fst (c_screen s) =? w) && (snd (c_screen s) =? h) then ret tt else
  send ([cC_SetDesktopSize; -1] ++ be_bytes 2 w ++ be_bytes 2 h ++ [1; -1]) ;;;      (* pad1, pad2: not set either *)
  send ([-1; -1; -1; -1; -1; -1; -1; -1] ++ be_bytes 2 w ++ be_bytes 2 h ++ [-1; -1; -1; -1]) ;;;
  upd_st (fun s => set_reqrs (set_screen s (w, h)) false) ;;;
  send_fur 0 0 0 w h ;;;
  upd_st (fun s => set_reqrs s true).

Definition send_incr : M unit :=
  s <- get_st ;;
  let '(x, y, w, h) := c_upd s in send_fur 1 x y w h.

(* ---------------------------------------------------------------- Raw *)
Fixpoint raw_loop (fuel : nat) (x y w h bpl lines bypp : Z) : M unit :=
  match fuel with
  | O => ret tt
  | S f =>
      if (lines =? 0) || (h <=? 0) then ret tt else
      let l := Z.min lines h in
      bs <- rd_buf 10 cRFB_BUFFER_SIZE (bpl * l) ;;
      copy_rect x y w l (px_of_bytes bypp bs) ;;;
      raw_loop f x (y + l) w (h - l) bpl l bypp
  end.

Definition dec_raw (x y w h : Z) : M unit :=
  s <- get_st ;;
  let bpl := w * f_bpp (c_fmt s) / 8 in
  let lines := if bpl =? 0 then 0 else cRFB_BUFFER_SIZE / bpl in
  raw_loop (Z.to_nat h) x y w h bpl lines (bypp_of s).

(* ---------------------------------------------------------------- CopyRect *)
Definition dec_copyrect (x y w h : Z) : M unit :=
  sx <- rd_u16 ;; sy <- rd_u16 ;;
  copy_from_rect sx sy w h x y.

(* ---------------------------------------------------------------- RRE *)
Fixpoint rre_loop (fuel : nat) (n rx ry bypp : Z) : M unit :=
  if n <=? 0 then ret tt else
  match fuel with
  | O => fun _ _ => More
  | S f =>
      pix <- rd_px bypp ;;
      sx <- rd_u16 ;; sy <- rd_u16 ;; sw <- rd_u16 ;; sh <- rd_u16 ;;
      fill_rect (rx + sx) (ry + sy) sw sh pix ;;;
      rre_loop f (n - 1) rx ry bypp
  end.

Definition dec_rre (x y w h : Z) : M unit :=
  s <- get_st ;;
  n <- rd_u32 ;;
  pix <- rd_px (bypp_of s) ;;
  fill_rect x y w h pix ;;;
  (fun s' ts => rre_loop (S (length ts)) n x y (bypp_of s) s' ts).

(* ---------------------------------------------------------------- CoRRE *)
Definition nthz (l : list Z) (i : nat) : Z := nth i l 0.

Fixpoint corre_subs (rx ry bypp : Z) (recs : list (list Z)) : M unit :=
  match recs with
  | [] => ret tt
  | r :: rest =>
      let pix := le_val (firstn (Z.to_nat bypp) r) in
      let g := skipn (Z.to_nat bypp) r in
      fill_rect (rx + nthz g 0) (ry + nthz g 1) (nthz g 2) (nthz g 3) pix ;;;
      corre_subs rx ry bypp rest
  end.

Definition dec_corre (x y w h : Z) : M unit :=
  s <- get_st ;;
  let bypp := bypp_of s in
  n <- rd_u32 ;;
  pix <- rd_px bypp ;;
  fill_rect x y w h pix ;;;
  if cCoRREBound_num / (4 + bypp) <? n then failM else
  bs <- rd_buf 11 cRFB_BUFFER_SIZE (n * (4 + bypp)) ;;
  corre_subs x y bypp (chunks (4 + bypp) bs).

(* ---------------------------------------------------------------- Hextile *)
Fixpoint hextile_coloured (x y bypp : Z) (recs : list (list Z)) (fg : option Z) : M (option Z) :=
  match recs with
  | [] => ret fg
  | r :: rest =>
      let c := le_val (firstn (Z.to_nat bypp) r) in
      let g := skipn (Z.to_nat bypp) r in
      fill_rect (x + nthz g 0 / 16) (y + nthz g 0 mod 16) (nthz g 1 / 16 + 1) (nthz g 1 mod 16 + 1) c ;;;
      hextile_coloured x y bypp rest (Some c)
  end.

Fixpoint hextile_mono (x y c : Z) (recs : list (list Z)) : M unit :=
  match recs with
  | [] => ret tt
  | g :: rest =>
      fill_rect (x + nthz g 0 / 16) (y + nthz g 0 mod 16) (nthz g 1 / 16 + 1) (nthz g 1 mod 16 + 1) c ;;;
      hextile_mono x y c rest
  end.

Definition hextile_tile (x y w h bypp bg : Z) (fg : option Z) : M (Z * option Z) :=
  sub <- rd_u8 ;;
  if flag sub cHextileRaw then
    bs <- rd_buf 20 cRFB_BUFFER_SIZE (w * h * bypp) ;;
    copy_rect x y w h (px_of_bytes bypp bs) ;;;
    ret (bg, fg)
  else
    bg' <- (if flag sub cHextileBackgroundSpecified then rd_px bypp else ret bg) ;;
    fill_rect x y w h bg' ;;;
    fg' <- (if flag sub cHextileForegroundSpecified then (p <- rd_px bypp ;; ret (Some p)) else ret fg) ;;
    if negb (flag sub cHextileAnySubrects) then ret (bg', fg') else
    n <- rd_u8 ;;
    if flag sub cHextileSubrectsColoured then
      bs <- rd_buf 21 cRFB_BUFFER_SIZE (n * (2 + bypp)) ;;
      fg'' <- hextile_coloured x y bypp (chunks (2 + bypp) bs) fg' ;;
      ret (bg', fg'')
    else
      bs <- rd_buf 22 cRFB_BUFFER_SIZE (n * 2) ;;
      match fg' with
      | Some c => hextile_mono x y c (chunks 2 bs) ;;; ret (bg', fg')
      | None => (* fg is an uninitialised local in the C code *)
                upd_st set_taint ;;; hextile_mono x y 0 (chunks 2 bs) ;;; ret (bg', fg')
      end.

(* tiles of one tile row: x runs from cx while cx < rx + rw *)
Fixpoint hextile_cols (fuel : nat) (cx y rx rw h bypp bg : Z) (fg : option Z) : M (Z * option Z) :=
  match fuel with
  | O => ret (bg, fg)
  | S f =>
      if rx + rw <=? cx then ret (bg, fg) else
      let w := if rx + rw - cx <? cHextile_tile then rx + rw - cx else cHextile_tile in
      r <- hextile_tile cx y w h bypp bg fg ;;
      hextile_cols f (cx + cHextile_tile) y rx rw h bypp (fst r) (snd r)
  end.

Fixpoint hextile_rows (fuel : nat) (cy rx ry rw rh bypp bg : Z) (fg : option Z) : M unit :=
  match fuel with
  | O => ret tt
  | S f =>
      if ry + rh <=? cy then ret tt else
      let h := if ry + rh - cy <? cHextile_tile then ry + rh - cy else cHextile_tile in
      r <- hextile_cols (Z.to_nat (rw / cHextile_tile + 1)) rx cy rx rw h bypp bg fg ;;
      hextile_rows f (cy + cHextile_tile) rx ry rw rh bypp (fst r) (snd r)
  end.

Definition dec_hextile (x y w h : Z) : M unit :=
  s <- get_st ;;
  hextile_rows (Z.to_nat (h / cHextile_tile + 1)) y x y w h (bypp_of s) 0 None.

(* ---------------------------------------------------------------- cursor shape (cursor.c) *)
Definition bit_at (buf : list Z) (bpr : Z) (x y : Z) : Z :=
  (nthz buf (Z.to_nat (y * bpr + x / 8)) / 2 ^ (7 - x mod 8)) mod 2.

Definition bits_of (buf : list Z) (bpr w h : Z) : list Z :=
  flat_map (fun y => map (fun x => bit_at buf bpr x y) (zseq w)) (zseq h).

(* RGB24_TO_PIXEL(32,r,g,b): uint32 arithmetic; the three shifted fields are OR-ed *)
Definition rgb24_pixel32 (f : pixfmt) (r g b : Z) : Z :=
  Z.lor (Z.lor (Z.shiftl ((r * f_rmax f + 127) / 255) (f_rshift f) mod 2 ^ 32)
               (Z.shiftl ((g * f_gmax f + 127) / 255) (f_gshift f) mod 2 ^ 32))
        (Z.shiftl ((b * f_bmax f + 127) / 255) (f_bshift f) mod 2 ^ 32).

Definition dec_cursor (xhot yhot w h enc : Z) : M unit :=
  s <- get_st ;;
  let bypp := bypp_of s in
  let bpr := (w + 7) / 8 in
  let nmask := bpr * h in
  if w * h =? 0 then ret tt else
  if (cMAX_CURSOR_SIZE <=? w) || (cMAX_CURSOR_SIZE <=? h) then failM else
  src <- (if enc =? cE_XCursor then
            rgb <- rd csz_XCursorColors ;;
            let c0 := rgb24_pixel32 (c_fmt s) (nthz rgb 3) (nthz rgb 4) (nthz rgb 5) in
            let c1 := rgb24_pixel32 (c_fmt s) (nthz rgb 0) (nthz rgb 1) (nthz rgb 2) in
            buf <- rd nmask ;;
            ret (flat_map (fun b => le_bytes (Z.to_nat bypp) ((if b =? 0 then c0 else c1) mod 2 ^ (8 * bypp)))
                          (bits_of buf bpr w h))
          else rd (w * h * bypp)) ;;
  buf <- rd nmask ;;
  log_ev (EvCursor xhot yhot w h bypp src (bits_of buf bpr w h)).

(* ---------------------------------------------------------------- resize *)
Definition harness_max_fb : Z := 2 ^ 22.   (* policy of the harness' MallocFrameBuffer callback *)

Definition resize (w h : Z) : M unit :=
  s <- get_st ;;
  log_ev (EvResize w h) ;;;
  if harness_max_fb <? w * h * bypp_of s then failM else
  upd_st (fun s => set_dims s w h (new_fb w h) (0, 0, w, h)).
