(* RefEncZ.v - reference encoders for the compressed encodings, written from the RFB specification
   (RFC 6143 7.7.5/7.7.6 for TRLE/ZRLE, the Tight specification, Zlib, Ultra), parameterised by the
   choice oracle: tile sub-encoding (raw / solid / packed palette / plain RLE / palette RLE / reuse),
   palette padding, run splitting (lengths across the 255 boundaries), Tight filter (copy / palette /
   gradient), zlib stream and stream resets.  Compressed payloads are emitted as [TZ] / [TL] letters.
   Little-endian client formats only.  Definitions only. *)
From LV Require Export Dec.RefEnc.
Local Open Scope Z_scope.

(* ---------------------------------------------------------------- CPIXEL (RFC 6143 7.7.5) *)
Definition fmt_mask (f : pixfmt) : Z :=
  Z.lor (Z.lor (Z.shiftl (f_rmax f) (f_rshift f)) (Z.shiftl (f_gmax f) (f_gshift f))) (Z.shiftl (f_bmax f) (f_bshift f)).

(* 0: PIXEL as is; 1: least significant 3 bytes; 2: most significant 3 bytes *)
Definition cpixel_mode (f : pixfmt) : Z :=
  if (f_bpp f =? 32) && (f_depth f <=? 24) then
    if Z.land (fmt_mask f) 4278190080 =? 0 then 1
    else if Z.land (fmt_mask f) 255 =? 0 then 2 else 0
  else 0.

Definition cpixel_bytes (f : pixfmt) (p : Z) : list Z :=
  let m := cpixel_mode f in
  if m =? 1 then lebytes 3 p
  else if m =? 2 then lebytes 3 (p / 256)
  else lebytes (Z.to_nat (f_bpp f / 8)) p.

(* ---------------------------------------------------------------- palettes and runs *)
Definition zmem (v : Z) (l : list Z) : bool := existsb (Z.eqb v) l.

Fixpoint distinct_aux (l acc : list Z) : list Z :=
  match l with
  | [] => acc
  | v :: r => if zmem v acc then distinct_aux r acc else distinct_aux r (acc ++ [v])
  end.
Definition distinct (l : list Z) : list Z := distinct_aux l [].

Fixpoint index_of (v : Z) (l : list Z) : Z :=
  match l with
  | [] => 0
  | a :: r => if a =? v then 0 else 1 + index_of v r
  end.

Definition runlen_bytes (n : Z) : list Z := repeat 255 (Z.to_nat ((n - 1) / 255)) ++ [(n - 1) mod 255].

Definition run_caps : list Z := [1; 2; 3; 255; 256; 257; 510; 511; 512; 1000; 100000].

(* dummy palette entries a server is free to add *)
Fixpoint pad_palette (ch : Z -> Z) (base : Z) (n : nat) (pxmod : Z) : list Z :=
  match n with O => [] | S n' => (ch base) mod pxmod :: pad_palette ch (base + 1) n' pxmod end.

(* pack indices of [bits] bits, most significant first, each row padded to a byte *)
Fixpoint pack_bits (bits : Z) (idx : list Z) (cur nb : Z) : list Z :=
  match idx with
  | [] => if nb =? 0 then [] else [cur * 2 ^ (8 - nb)]
  | i :: r => let cur' := cur * 2 ^ bits + i in
              let nb' := nb + bits in
              if nb' =? 8 then cur' :: pack_bits bits r 0 0 else pack_bits bits r cur' nb'
  end.
Definition pack_row (bits : Z) (idx : list Z) : list Z := pack_bits bits idx 0 0.

Definition bits_for (n : Z) : Z := if n <=? 2 then 1 else if n <=? 4 then 2 else 4.

(* ---------------------------------------------------------------- one ZRLE / TRLE tile *)
(* kind of the palette the previous tile left behind, for TRLE reuse: 0 none, 1 packed palette (or 127 reuse), 2 palette RLE;
   a 129 reuse leaves it as it was *)
Definition tile_body (ch : Z -> Z) (base : Z) (f : pixfmt) (trle : bool) (rows : list (list Z))
           (prevkind : Z) (prevpal : list Z) : list Z * Z * list Z :=
  let pix := concat rows in
  let cols := distinct pix in
  let n := zlen cols in
  let pxmod := 2 ^ f_bpp f in
  let cp := cpixel_bytes f in
  let mode := pick ch base 6 in
  let cap := nth (Z.to_nat (pick ch (base + 1) (zlen run_caps))) run_caps 1 in
  let raw := ([0] ++ flat_map cp pix, 0, []) in
  let plain := ([128] ++ flat_map (fun cn : Z * Z => cp (fst cn) ++ runlen_bytes (snd cn)) (rle cap pix), 0, []) in
  let reuse_ok := forallb (fun c => zmem c prevpal) cols in
  if mode =? 0 then raw
  else if mode =? 1 then
    (if n =? 1 then ([1] ++ cp (nth 0 cols 0), 0, []) else raw)
  else if mode =? 2 then
    (* packed palette, possibly padded; TRLE: reuse (127) when the previous tile carried a covering palette of at most
       16 entries - as a packed palette (prevkind 1) or as a palette-RLE palette (prevkind 2) *)
    if trle && ((prevkind =? 1) || (prevkind =? 2)) && (zlen prevpal <=? 16) && reuse_ok && (pick ch (base + 2) 2 =? 0) then
      ([127] ++ flat_map (fun r => pack_row (bits_for (zlen prevpal)) (map (fun p => index_of p prevpal) r)) rows, 1, prevpal)
    else if (2 <=? n) && (n <=? 16) || (n =? 1) then
      let extra := Z.min (pick ch (base + 3) 4) (16 - n) in
      let extra := if n + extra <? 2 then 1 else extra in
      let pal := cols ++ pad_palette ch (base + 10) (Z.to_nat extra) pxmod in
      ([zlen pal] ++ flat_map cp pal
       ++ flat_map (fun r => pack_row (bits_for (zlen pal)) (map (fun p => index_of p pal) r)) rows, 1, pal)
    else plain
  else if mode =? 3 then plain
  else
    (* palette RLE, possibly padded; TRLE: reuse (129) *)
    let prle pal := flat_map (fun cn : Z * Z =>
                                if snd cn =? 1 then [index_of (fst cn) pal]
                                else [index_of (fst cn) pal + 128] ++ runlen_bytes (snd cn)) (rle cap pix) in
    if trle && ((prevkind =? 1) || (prevkind =? 2)) && reuse_ok && (pick ch (base + 2) 2 =? 0) then ([129] ++ prle prevpal, prevkind, prevpal)
    else if n <=? 127 then
      let extra := Z.min (pick ch (base + 3) 4) (127 - n) in
      let extra := if n + extra <? 2 then 1 else extra in
      let pal := cols ++ pad_palette ch (base + 10) (Z.to_nat extra) pxmod in
      ([128 + zlen pal] ++ flat_map cp pal ++ prle pal, 2, pal)
    else plain.

Fixpoint tiles_cols (ch : Z -> Z) (base : Z) (f : pixfmt) (trle : bool) (ts : Z) (fuel : nat) (cx y rw th : Z)
         (rows : list (list Z)) (pk : Z) (pp : list Z) : list Z * Z * list Z :=
  match fuel with
  | O => ([], pk, pp)
  | S fu =>
      if rw <=? cx then ([], pk, pp) else
      let w := Z.min ts (rw - cx) in
      let '(bs, pk', pp') := tile_body ch base f trle (sub_block rows cx y w th) pk pp in
      let '(rest, pk'', pp'') := tiles_cols ch (base + 1000) f trle ts fu (cx + ts) y rw th rows pk' pp' in
      (bs ++ rest, pk'', pp'')
  end.

Fixpoint tiles_rows (ch : Z -> Z) (base : Z) (f : pixfmt) (trle : bool) (ts : Z) (fuel : nat) (cy rw rh : Z)
         (rows : list (list Z)) (pk : Z) (pp : list Z) : list Z :=
  match fuel with
  | O => []
  | S fu =>
      if rh <=? cy then [] else
      let h := Z.min ts (rh - cy) in
      let '(bs, pk', pp') := tiles_cols ch base f trle ts (Z.to_nat (rw / ts + 1)) 0 cy rw h rows pk pp in
      bs ++ tiles_rows ch (base + 1000000) f trle ts fu (cy + ts) rw rh rows pk' pp'
  end.

Definition ref_trle (ch : Z -> Z) (f : pixfmt) (w h : Z) (tgt : list (list Z)) : list tok :=
  toks (tiles_rows ch 0 f true 16 (Z.to_nat (h / 16 + 1)) 0 w h tgt 0 []).

Definition ref_zrle (ch : Z -> Z) (f : pixfmt) (fresh : bool) (w h : Z) (tgt : list (list Z)) : list tok :=
  [TZ 5 fresh true (tiles_rows ch 0 f false 64 (Z.to_nat (h / 64 + 1)) 0 w h tgt 0 [])].   (* ZRLE's own deflate stream (RFC 6143 7.7.6), not the Zlib encoding's stream 0 *)

(* ---------------------------------------------------------------- Zlib, Ultra *)
Definition ref_zlib (f : pixfmt) (fresh : bool) (tgt : list (list Z)) : list tok :=
  [TZ 0 fresh true (px_bytes (f_bpp f / 8) (concat tgt))].
Definition ref_ultra (f : pixfmt) (tgt : list (list Z)) : list tok :=
  [TL (px_bytes (f_bpp f / 8) (concat tgt))].

(* ---------------------------------------------------------------- Tight *)
Definition tight888 (f : pixfmt) : bool :=
  (f_bpp f =? 32) && (f_depth f =? 24) && (f_rmax f =? 255) && (f_gmax f =? 255) && (f_bmax f =? 255).

Definition comp_of (p sh mx : Z) : Z := Z.land (Z.shiftr p sh) mx.

(* TPIXEL *)
Definition tpixel (f : pixfmt) (p : Z) : list Z :=
  if tight888 f then [comp_of p (f_rshift f) 255; comp_of p (f_gshift f) 255; comp_of p (f_bshift f) 255]
  else lebytes (Z.to_nat (f_bpp f / 8)) p.

Definition compact_len (n : Z) : list Z :=
  if n <? 128 then [n]
  else if n <? 16384 then [n mod 128 + 128; n / 128]
  else [n mod 128 + 128; (n / 128) mod 128 + 128; n / 16384].

(* gradient residuals of one row, components as (r,g,b) triples *)
Fixpoint grad_enc_row (maxs : Z * Z * Z) (cur prev : list (Z * Z * Z)) (left upleft : Z * Z * Z) (first : bool)
  : list (Z * Z * Z) :=
  match cur with
  | [] => []
  | (r, g, b) :: cur' =>
      let '(ur, ug, ub) := match prev with u :: _ => u | [] => (0, 0, 0) end in
      let '(mr, mg, mb) := maxs in
      let '(lr, lg, lb) := left in
      let '(qr, qg, qb) := upleft in
      let est up lf ul m := if first then up else (let e := up + lf - ul in if m <? e then m else if e <? 0 then 0 else e) in
      ((r - est ur lr qr mr) mod (mr + 1), (g - est ug lg qg mg) mod (mg + 1), (b - est ub lb qb mb) mod (mb + 1))
      :: grad_enc_row maxs cur' (match prev with _ :: t => t | [] => [] end) (r, g, b) (ur, ug, ub) false
  end.

Fixpoint grad_enc_rows (maxs : Z * Z * Z) (rows : list (list (Z * Z * Z))) (prev : list (Z * Z * Z)) : list (list (Z * Z * Z)) :=
  match rows with
  | [] => []
  | r :: rest => grad_enc_row maxs r prev (0, 0, 0) (0, 0, 0) true :: grad_enc_rows maxs rest r
  end.

(* st = which of the four zlib streams the decoder has initialised; returns tokens and the new st *)
Definition ref_tight (ch : Z -> Z) (f : pixfmt) (w h : Z) (tgt : list (list Z)) (st : list bool) : list tok * list bool :=
  let pix := concat tgt in
  let cols := distinct pix in
  let n := zlen cols in
  let bypp := f_bpp f / 8 in
  let resets := pick ch 0 16 in
  let st := map (fun i => if Z.testbit resets i then false else nth (Z.to_nat i) st false) [0; 1; 2; 3] in
  let mode := pick ch 1 5 in
  if (n =? 1) && (mode =? 0) then
    (toks ([resets + 16 * cTightFill] ++ tpixel f (nth 0 cols 0)), st)
  else
    let sid := pick ch 2 4 in
    let maxs := if tight888 f then (255, 255, 255) else (f_rmax f, f_gmax f, f_bmax f) in
    let comps p := (comp_of p (f_rshift f) (fst (fst maxs)), comp_of p (f_gshift f) (snd (fst maxs)), comp_of p (f_bshift f) (snd maxs)) in
    let '(hdr, data) :=
      if (mode =? 2) && (n <=? 256) && (2 <=? n) || (mode =? 0) && (n =? 1) then
        let extra := Z.min (pick ch 3 3) (256 - n) in
        let extra := if n + extra <? 2 then 1 else extra in
        let pal := cols ++ pad_palette ch 10 (Z.to_nat extra) (2 ^ f_bpp f) in
        ([cTightExplicitFilter; cTightFilterPalette; zlen pal - 1] ++ flat_map (tpixel f) pal,
         if zlen pal =? 2 then flat_map (fun r => pack_row 1 (map (fun p => index_of p pal) r)) tgt
         else map (fun p => index_of p pal) pix)
      else if (mode =? 3) && (2 <=? bypp) then
        let res := grad_enc_rows maxs (map (map comps) tgt) [] in
        ([cTightExplicitFilter; cTightFilterGradient],
         flat_map (fun t : Z * Z * Z => let '(a, b, c) := t in
                     if tight888 f then [a; b; c]
                     else lebytes (Z.to_nat bypp) (Z.shiftl a (f_rshift f) + Z.shiftl b (f_gshift f) + Z.shiftl c (f_bshift f)))
                  (concat res))
      else if mode =? 4 then ([cTightExplicitFilter; cTightFilterCopy], flat_map (tpixel f) pix)
      else ([0], flat_map (tpixel f) pix) in
    let ctl := resets + 16 * (sid + nth 0 hdr 0) in
    if zlen data <? cTIGHT_MIN_TO_COMPRESS then
      (toks ([ctl] ++ skipn 1 hdr ++ data), st)
    else
      (toks ([ctl] ++ skipn 1 hdr) ++ [TZ (sid + 1) (negb (nth (Z.to_nat sid) st false)) true data],
       map (fun i => if i =? sid then true else nth (Z.to_nat i) st false) [0; 1; 2; 3]).
