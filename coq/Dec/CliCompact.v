(* CliCompact.v - Tight's compact length (1 to 3 bytes, 7 + 7 + 8 bits): the client's reader inverts the encoder for
   every length below 2^22, in particular across the 127/128 and 16383/16384 boundaries (audit C07 item 5).  The
   length of a deflate block itself is not in the token alphabet (the harness renders it from the real zlib output);
   in the mirror the compact length is read on Tight's "no zlib" path. *)
From LV Require Import Dec.CliBase Dec.CliFbProofs Dec.CliDec Dec.CliDecZ Dec.RefEnc Dec.RefEncZ Dec.CliRtBase.
Require Import ZifyBool Lia.
Local Open Scope Z_scope.

Theorem compact_len_roundtrip n s ts : 0 <= n < 4194304 ->
  rd_compact s (toks (compact_len n) ++ ts) = Ok n s ts.
Proof.
  intros Hn. unfold rd_compact, rd_compact_aux, compact_len.
  destruct (Z.ltb_spec n 128).
  - cbn [toks map app]. erewrite bind_ok; [|apply rd_u8_app; unfold byte_ok; lia].
    destruct (Z.ltb_spec n 128); [reflexivity|lia].
  - pose proof (Z.mod_pos_bound n 128 ltac:(lia)). pose proof (Z.div_mod n 128 ltac:(lia)).
    destruct (Z.ltb_spec n 16384).
    + cbn [toks map app]. assert (0 <= n / 128 < 128) by (split; [apply Z.div_pos; lia|apply Z.div_lt_upper_bound; lia]).
      erewrite bind_ok; [|apply rd_u8_app; unfold byte_ok; lia].
      destruct (Z.ltb_spec (n mod 128 + 128) 128); [lia|].
      erewrite bind_ok; [|apply rd_u8_app; unfold byte_ok; lia].
      destruct (Z.ltb_spec (n / 128) 128); [|lia]. unfold ret. f_equal.
      assert (M1 : (n mod 128 + 128) mod 128 = n mod 128).
      { replace (n mod 128 + 128) with (n mod 128 + 1 * 128) by lia. rewrite Z.mod_add by lia. apply Z.mod_small. lia. }
      rewrite M1. lia.
    + cbn [toks map app].
      pose proof (Z.mod_pos_bound (n / 128) 128 ltac:(lia)). pose proof (Z.div_mod (n / 128) 128 ltac:(lia)).
      assert (E : n / 128 / 128 = n / 16384) by (rewrite Z.div_div by lia; reflexivity).
      assert (0 <= n / 16384 < 256) by (split; [apply Z.div_pos; lia|apply Z.div_lt_upper_bound; lia]).
      erewrite bind_ok; [|apply rd_u8_app; unfold byte_ok; lia].
      destruct (Z.ltb_spec (n mod 128 + 128) 128); [lia|].
      erewrite bind_ok; [|apply rd_u8_app; unfold byte_ok; lia].
      destruct (Z.ltb_spec ((n / 128) mod 128 + 128) 128); [lia|].
      erewrite bind_ok; [|apply rd_u8_app; unfold byte_ok; lia].
      unfold ret. f_equal.
      assert (M1 : (n mod 128 + 128) mod 128 = n mod 128).
      { replace (n mod 128 + 128) with (n mod 128 + 1 * 128) by lia. rewrite Z.mod_add by lia. apply Z.mod_small. lia. }
      assert (M2 : ((n / 128) mod 128 + 128) mod 128 = (n / 128) mod 128).
      { replace ((n / 128) mod 128 + 128) with ((n / 128) mod 128 + 1 * 128) by lia. rewrite Z.mod_add by lia. apply Z.mod_small. lia. }
      rewrite M1, M2. lia.
Qed.
