(* CliRtTrle.v - round trip for TRLE: for EVERY choice oracle of the reference encoder (raw / solid / packed
   palette / plain RLE / palette RLE tiles, reuse of the previous palette (127, 129), palette padding, run
   splitting) the mirror of HandleTRLE paints exactly the encoded rectangle. *)
From LV Require Import Dec.CliBase Dec.CliFbProofs Dec.CliDec Dec.CliDecZ Dec.RefEnc Dec.RefEncZ Dec.CliRtBase Dec.CliRtSimple
     Dec.RefPlanProofs Dec.CliCopyProofs Dec.CliRtHextile Dec.CliRtZ Dec.CliRtTile Dec.CliRtZrle.
Require Import ZifyBool.
Local Open Scope Z_scope.

(* ---------------------------------------------------------------- CPIXELs out of a freshly read block *)
Lemma firstn_len_app {A} (a b : list A) n : n = length a -> firstn n (a ++ b) = a.
Proof. intros ->. rewrite firstn_app, Nat.sub_diag, firstn_all. cbn [firstn]. now rewrite app_nil_r. Qed.

Lemma cpix_of_bytes_data f v p sfx : cp_agree f v -> cpix_of_bytes v (cpixel_bytes f p ++ sfx) = cp_norm v p.
Proof.
  intros Hag. rewrite (cpixel_bytes_eq f v p Hag). unfold cpix_of_bytes.
  destruct v; try contradiction; cbn [cp_agree] in Hag.
  - change (Z.to_nat (cbpp CP8 / 8)) with 1%nat. change (Z.to_nat (rbytes CP8)) with 1%nat.
    rewrite (firstn_len_app (lebytes 1 p) sfx 1) by (now rewrite lebytes_len). now rewrite le_val_lebytes_mod.
  - change (Z.to_nat (cbpp CP16 / 8)) with 2%nat. change (Z.to_nat (rbytes CP16)) with 2%nat.
    rewrite (firstn_len_app (lebytes 2 p) sfx 2) by (now rewrite lebytes_len). now rewrite le_val_lebytes_mod.
  - rewrite (firstn_len_app (lebytes 3 p) sfx 3) by (now rewrite lebytes_len). now rewrite le_val_lebytes_mod.
  - rewrite (firstn_len_app (lebytes 3 (p / 256)) sfx 3) by (now rewrite lebytes_len). now rewrite le_val_lebytes_mod.
  - change (Z.to_nat (cbpp CP32 / 8)) with 4%nat. change (Z.to_nat (rbytes CP32)) with 4%nat.
    rewrite (firstn_len_app (lebytes 4 p) sfx 4) by (now rewrite lebytes_len). now rewrite le_val_lebytes_mod.
Qed.

Lemma skipn_len_app {A} (a b : list A) n : n = length a -> skipn n (a ++ b) = b.
Proof. intros ->. rewrite skipn_app, Nat.sub_diag, skipn_all. reflexivity. Qed.

Lemma cpix_list_data f v sfx : cp_agree f v -> forall pal,
  cpix_list v (flat_map (cpixel_bytes f) pal ++ sfx) (length pal) = map (cp_norm v) pal.
Proof.
  intros Hag. unfold cpix_list. set (L := Z.to_nat (rbytes v)).
  induction pal as [|p pal IH]; [reflexivity|].
  assert (HL : L = length (cpixel_bytes f p)).
  { pose proof (cpixel_bytes_len f v p Hag) as E. unfold zlen in E. unfold L. lia. }
  cbn [length seq map flat_map]. rewrite <- app_assoc. f_equal.
  - cbn [Nat.mul skipn]. now apply cpix_of_bytes_data.
  - rewrite <- seq_shift, map_map. rewrite <- IH. apply map_ext. intros i.
    f_equal. cbn [Nat.mul]. rewrite skipn_plus. f_equal. now apply skipn_len_app.
Qed.

(* ---------------------------------------------------------------- run lengths on the token stream *)
Lemma trle_runlen_data n cap off pos s ts : 1 <= n <= 510 -> pos + 2 < cap -> off + 3 <= cap ->
  trle_runlen_ts (toks (skipn 1 (runlen_bytes n)) ++ ts) cap (nthz (runlen_bytes n) 0) off pos 1 s
  = Ok (n, off + zlen (runlen_bytes n)) s ts.
Proof.
  intros Hn Hpos Hoff. unfold runlen_bytes.
  assert (Hq : (n - 1) / 255 = 0 \/ (n - 1) / 255 = 1).
  { assert (0 <= (n - 1) / 255) by (apply Z.div_pos; lia). assert ((n - 1) / 255 < 2) by (apply Z.div_lt_upper_bound; lia). lia. }
  pose proof (Z.mod_pos_bound (n - 1) 255 ltac:(lia)) as Hr. pose proof (Z.div_mod (n - 1) 255 ltac:(lia)) as Hdm.
  destruct Hq as [Hq|Hq]; rewrite Hq.
  - cbn [Z.to_nat repeat app skipn toks map]. change (nthz [(n - 1) mod 255] 0) with ((n - 1) mod 255).
    destruct ts; cbn [trle_runlen_ts]; (destruct (Z.eqb_spec ((n - 1) mod 255) 255); [lia|]); cbn [andb];
      change (zlen [(n - 1) mod 255]) with 1; do 2 f_equal; lia.
  - change (Z.to_nat 1) with 1%nat. cbn [repeat app skipn]. change (nthz [255; (n - 1) mod 255] 0) with 255.
    rewrite toks_cons. cbn [toks map app].
    cbn [trle_runlen_ts]. rewrite Z.eqb_refl. destruct (Z.ltb_spec pos (cap - 1)); [|lia]. cbn [andb].
    destruct (Z.ltb_spec cap (off + 2)); [lia|].
    rewrite (Z.mod_small ((n - 1) mod 255) 256) by lia.
    destruct ts; cbn [trle_runlen_ts]; (destruct (Z.eqb_spec ((n - 1) mod 255) 255); [lia|]); cbn [andb];
      change (zlen [255; (n - 1) mod 255]) with 2; do 2 f_equal; lia.
Qed.

Lemma runlen_bytes_split n : 1 <= n -> runlen_bytes n = nthz (runlen_bytes n) 0 :: skipn 1 (runlen_bytes n).
Proof.
  intros Hn. unfold runlen_bytes. destruct (Z.to_nat ((n - 1) / 255)); cbn [repeat app]; reflexivity.
Qed.

(* ---------------------------------------------------------------- the RLE loops *)
Lemma no_taint_rb1 f v : cp_agree f v ->
  ((rbytes v + 1 <? cbpp v / 8) && negb (match v with CP24 | CP24Up => true | _ => false end)) = false.
Proof. destruct v; cbn [cp_agree]; intros H; try contradiction; reflexivity. Qed.
Lemma no_taint_rb f v : cp_agree f v ->
  ((rbytes v <? cbpp v / 8) && negb (match v with CP24 | CP24Up => true | _ => false end)) = false.
Proof. destruct v; cbn [cp_agree]; intros H; try contradiction; reflexivity. Qed.

Lemma nthz_app_exact (a : list Z) b rest n : n = length a -> nthz (a ++ b :: rest) n = b.
Proof. intros ->. unfold nthz. rewrite app_nth2 by lia. now rewrite Nat.sub_diag. Qed.

Lemma runs_len_nonneg runs : Forall (fun cn : Z * Z => 1 <= snd cn <= 510) runs -> 0 <= runs_len runs.
Proof. induction 1 as [|cn l H1 H2 IH]; cbn [runs_len fold_right]; [lia|]. fold (runs_len l). lia. Qed.

Lemma trle_plain_data cap f v total s ts : cp_agree f v -> fixed s 4 = true -> 512 <= cap ->
  forall runs fuel acc, Forall (fun cn : Z * Z => 1 <= snd cn <= 510) runs -> zlen acc + runs_len runs = total ->
    (length runs <= fuel)%nat ->
    trle_plain fuel cap v total acc 0 s (toks (plain_bytes f runs) ++ ts) = Ok (racc v runs acc) s ts.
Proof.
  intros Hag F4 Hcap. assert (Hrb : 1 <= rbytes v <= 4 /\ 1 <= cbpp v / 8 <= 4) by (destruct v; cbn; lia).
  induction runs as [|[c n] runs IH]; intros fuel acc Hr Htot Hf.
  - cbn [runs_len fold_right] in Htot. cbn [racc fold_left plain_bytes flat_map toks map app].
    destruct fuel; cbn [trle_plain]; (destruct (Z.leb_spec total (zlen acc)); [reflexivity|lia]).
  - destruct fuel as [|fuel]; [cbn [length] in Hf; lia|]. cbn [trle_plain].
    pose proof (Forall_inv Hr) as Hn. pose proof (Forall_inv_tail Hr) as Hr'. cbn [snd] in Hn.
    cbn [runs_len fold_right snd] in Htot. fold (runs_len runs) in Htot. pose proof (runs_len_nonneg runs Hr') as Hrl.
    destruct (Z.leb_spec total (zlen acc)); [lia|].
    destruct (Z.ltb_spec cap (0 + rbytes v + 1)); [lia|].
    erewrite bind_ok; [|reflexivity].
    set (b0 := nthz (runlen_bytes n) 0). set (tl := skipn 1 (runlen_bytes n)).
    assert (Etok : toks (plain_bytes f ((c, n) :: runs)) ++ ts
                   = toks (cpixel_bytes f c ++ [b0]) ++ (toks tl ++ (toks (plain_bytes f runs) ++ ts))).
    { unfold plain_bytes at 1. cbn [flat_map fst snd]. fold (plain_bytes f runs).
      rewrite (runlen_bytes_split n) by lia. fold b0. fold tl.
      rewrite !toks_app, <- !app_assoc. reflexivity. }
    rewrite Etok.
    assert (Hb0 : byte_ok b0).
    { pose proof (runlen_bytes_ok n ltac:(lia)) as Hok. rewrite (runlen_bytes_split n) in Hok by lia. exact (Forall_inv Hok). }
    erewrite bind_ok.
    2:{ apply rd_app; [apply Forall_app; split; [apply cpixel_bytes_ok|constructor; [exact Hb0|constructor]]|].
        rewrite zlen_app, (cpixel_bytes_len f v c Hag). reflexivity. }
    rewrite (no_taint_rb1 f v Hag).
    erewrite bind_ok; [|reflexivity].
    destruct (Z.ltb_spec cap (0 + cbpp v / 8)); [lia|].
    erewrite bind_ok; [|reflexivity].
    rewrite <- app_assoc. rewrite (cpix_of_bytes_data f v c _ Hag).
    rewrite (nthz_app_exact (cpixel_bytes f c) b0 [] (Z.to_nat (rbytes v)))
      by (pose proof (cpixel_bytes_len f v c Hag) as E; unfold zlen in E; lia).
    erewrite bind_ok.
    2:{ unfold trle_runlen. unfold b0, tl. apply trle_runlen_data; lia. }
    cbv beta iota. replace (Z.min n (total - zlen acc)) with n by lia.
    erewrite bind_ok; [|reflexivity]. rewrite F4.
    rewrite IH; [reflexivity|exact Hr'|rewrite zlen_app, zlen_repeat; lia|cbn [length] in Hf; lia].
Qed.

Lemma trle_palrle_data cap v total pal s ts : fixed s 4 = true -> 512 <= cap -> zlen pal <= 127 ->
  forall runs fuel acc, Forall (fun cn : Z * Z => 1 <= snd cn <= 510 /\ In (fst cn) pal) runs -> zlen acc + runs_len runs = total ->
    (length runs <= fuel)%nat ->
    trle_palrle fuel cap total (map (cp_norm v) pal) acc 0 s (toks (prle_bytes pal runs) ++ ts) = Ok (racc v runs acc) s ts.
Proof.
  intros F4 Hcap Hpal.
  induction runs as [|[c n] runs IH]; intros fuel acc Hr Htot Hf.
  - cbn [runs_len fold_right] in Htot. cbn [racc fold_left prle_bytes flat_map toks map app].
    destruct fuel; cbn [trle_palrle]; (destruct (Z.leb_spec total (zlen acc)); [reflexivity|lia]).
  - destruct fuel as [|fuel]; [cbn [length] in Hf; lia|]. cbn [trle_palrle].
    pose proof (Forall_inv Hr) as [Hn Hin]. pose proof (Forall_inv_tail Hr) as Hr'. cbn [snd fst] in Hn, Hin.
    cbn [runs_len fold_right snd] in Htot. fold (runs_len runs) in Htot.
    assert (Hrl : 0 <= runs_len runs).
    { apply runs_len_nonneg. eapply Forall_impl; [|exact Hr']. intros a Ha. apply Ha. }
    destruct (Z.leb_spec total (zlen acc)); [lia|].
    destruct (Z.ltb_spec cap (0 + 1)); [lia|].
    erewrite bind_ok; [|reflexivity].
    destruct (index_of_spec c pal Hin) as [Hi1 Hi2].
    assert (Hnth : nth (Z.to_nat (index_of c pal)) (map (cp_norm v) pal) 0 = cp_norm v c) by (rewrite nth_map_norm, Hi2; reflexivity).
    unfold prle_bytes at 1. cbn [flat_map fst snd]. fold (prle_bytes pal runs).
    destruct (Z.eqb_spec n 1) as [->|Hn1].
    + cbn [app]. rewrite toks_cons. cbn [app].
      erewrite bind_ok; [|apply (rd_app 1 s [index_of c pal]); [repeat constructor; unfold byte_ok; lia|reflexivity]].
      change (nthz [index_of c pal] 0) with (index_of c pal).
      rewrite (Z.mod_small (index_of c pal) 128) by lia.
      erewrite bind_ok; [|apply pal_get_ok; [lia|rewrite zlen_map; lia]]. rewrite Hnth.
      destruct (Z.leb_spec 128 (index_of c pal)); [lia|].
      erewrite bind_ok; [|reflexivity]. rewrite F4.
      rewrite IH; [reflexivity|exact Hr'|rewrite zlen_cons; lia|cbn [length] in Hf; lia].
    + rewrite (runlen_bytes_split n) by lia. set (b0 := nthz (runlen_bytes n) 0). set (tl := skipn 1 (runlen_bytes n)).
      cbn [app]. rewrite !toks_cons, toks_app. cbn [app]. rewrite <- app_assoc.
      erewrite bind_ok; [|apply (rd_app 1 s [index_of c pal + 128]); [repeat constructor; unfold byte_ok; lia|reflexivity]].
      change (nthz [index_of c pal + 128] 0) with (index_of c pal + 128).
      replace ((index_of c pal + 128) mod 128) with (index_of c pal)
        by (rewrite <- (Z.mod_small (index_of c pal) 128) at 1 by lia; rewrite <- (Z.mod_add (index_of c pal) 1 128) by lia; f_equal; lia).
      erewrite bind_ok; [|apply pal_get_ok; [lia|rewrite zlen_map; lia]]. rewrite Hnth.
      destruct (Z.leb_spec 128 (index_of c pal + 128)); [|lia].
      destruct (Z.ltb_spec cap (0 + 2)); [lia|].
      erewrite bind_ok; [|reflexivity].
      assert (Hb0 : byte_ok b0).
      { pose proof (runlen_bytes_ok n ltac:(lia)) as Hok. rewrite (runlen_bytes_split n) in Hok by lia. exact (Forall_inv Hok). }
      erewrite bind_ok; [|apply (rd_app 1 s [b0]); [constructor; [exact Hb0|constructor]|reflexivity]].
      change (nthz [b0] 0) with b0.
      erewrite bind_ok.
      2:{ unfold trle_runlen. unfold b0, tl. apply trle_runlen_data; lia. }
      cbv beta iota. replace (Z.min n (total - zlen acc)) with n by lia.
      erewrite bind_ok; [|reflexivity]. rewrite F4.
      rewrite IH; [reflexivity|exact Hr'|rewrite zlen_app, zlen_repeat; lia|cbn [length] in Hf; lia].
Qed.

(* ---------------------------------------------------------------- tiles *)
Definition ttile_ok (v : cpv) (bs : list Z) (T : list (list Z)) (w h : Z) (t t' : trst) : Prop :=
  Forall byte_ok bs /\
  forall s ts x y cap, st_wf s -> fixed s 4 = true -> 0 <= x -> 0 <= y -> x + w <= c_w s -> y + h <= c_h s ->
    512 * rbytes v <= cap ->
    trle_tile cap v x y w h t s (toks bs ++ ts) = Ok t' (set_fb s (blit_spec (c_fb s) x y T)) ts.

Lemma pk_rows_ok pal T : 2 <= zlen pal <= 16 -> Forall (Forall (fun p => In p pal)) T -> Forall byte_ok (pk_rows pal T).
Proof.
  intros Hpal Hp. unfold pk_rows. apply Forall_forall. intros b Hb. apply in_flat_map in Hb. destruct Hb as (r & Hr & Hb).
  assert (Hidx : Forall (fun d => 0 <= d < 2 ^ bits_for (zlen pal)) (map (fun p => index_of p pal) r)).
  2:{ pose proof (pack_row_ok (bits_for (zlen pal)) (bits_for_cases _) _ Hidx) as G. rewrite Forall_forall in G. now apply G. }
  apply Forall_forall. intros i Hi. apply in_map_iff in Hi. destruct Hi as (p & <- & Hpi).
  rewrite Forall_forall in Hp. specialize (Hp r Hr). rewrite Forall_forall in Hp. pose proof (Hp p Hpi) as Hin.
  destruct (index_of_spec p pal Hin) as [I1 _]. pose proof (bits_for_fits (zlen pal) ltac:(lia)). lia.
Qed.

(* the packed rows of case 127, for a decoder state that holds the palette [pp] *)
Lemma case127_rows cap v pp T w h t type off s ts x y :
  1 <= w <= 16 -> 1 <= h <= 16 -> rows_wf w h T -> 2 <= zlen pp <= 16 ->
  Forall (Forall (fun p => In p pp /\ cp_ok v p)) T ->
  (tr_last t = zlen pp /\ tr_bits t = bits_for (zlen pp) \/ tr_last t = 128 + zlen pp) -> tr_pal t = map (cp_norm v) pp ->
  st_wf s -> 0 <= x -> 0 <= y -> x + w <= c_w s -> y + h <= c_h s -> 0 <= off <= 64 -> 512 <= cap ->
  trle_case127 cap v x y w h t type off s (toks (pk_rows pp T) ++ ts)
  = Ok (mktr (zlen pp) (tr_pal t) (bits_for (zlen pp)) (tr_color t), zlen pp) (set_fb s (blit_spec (c_fb s) x y T)) ts.
Proof.
  intros Hw Hh HT Hpal Hp Hl Hpl Hs Hx Hy Hxw Hyh Hoff Hcap. pose proof HT as [T1 T2].
  unfold trle_case127. cbv zeta. set (n := zlen pp) in *.
  assert (Elb : (if 130 <=? tr_last t then (tr_last t mod 128, bits_of_palsize (tr_last t mod 128)) else (tr_last t, tr_bits t))
                = (n, bits_for n) /\ tr_last t <> 0 /\ tr_last t <> 1 /\ tr_last t <> 128).
  { destruct Hl as [[Hl Hb]|Hl].
    - rewrite Hl, Hb. destruct (Z.leb_spec 130 n); [lia|]. split; [reflexivity|lia].
    - rewrite Hl. destruct (Z.leb_spec 130 (128 + n)); [|lia].
      replace ((128 + n) mod 128) with n by (apply (Z.mod_unique _ 128 1); lia).
      split; [|lia]. f_equal. unfold bits_of_palsize, bits_for.
      destruct (Z.ltb_spec 4 n); destruct (Z.ltb_spec 16 n); destruct (Z.ltb_spec 2 n); destruct (Z.leb_spec n 2); destruct (Z.leb_spec n 4); lia. }
  destruct Elb as (Elb & N0 & N1 & N128).
  destruct (Z.eqb_spec (tr_last t) 0); [contradiction|]. destruct (Z.eqb_spec (tr_last t) 1); [contradiction|].
  destruct (Z.eqb_spec (tr_last t) 128); [contradiction|].
  rewrite Elb. destruct (Z.leb_spec n 16); [|lia].
  set (bits := bits_for n).
  assert (Hbits : bits = 1 \/ bits = 2 \/ bits = 4) by apply bits_for_cases.
  destruct (per_bits bits Hbits) as [Hpb Hp1].
  set (rowbytes := (w + 8 / bits - 1) / (8 / bits)).
  assert (Hrow0 : 0 <= rowbytes <= 16).
  { split; [apply Z.div_pos; lia|]. apply Z.div_le_upper_bound; [lia|]. remember (8 / bits) as P. nia. }
  set (gp := fun r : list Z => pack_row bits (map (fun p => index_of p pp) r)).
  assert (Hgl : Forall (fun r => zlen (gp r) = rowbytes) T).
  { eapply Forall_impl; [|exact T2]. intros r Hr. cbn beta in Hr. unfold gp. rewrite (pack_row_len bits Hbits), zlen_map, Hr. reflexivity. }
  assert (HPK : zlen (pk_rows pp T) = rowbytes * h).
  { change (zlen (flat_map gp T) = rowbytes * h). clear -Hgl T1. rewrite <- T1. clear T1.
    induction Hgl as [|r T H1 H2 IH]; cbn [flat_map]; [unfold zlen; cbn; lia|]. rewrite zlen_app, zlen_cons, IH, H1. lia. }
  destruct (Z.ltb_spec cap (off + rowbytes * h)); [nia|].
  erewrite bind_ok; [|reflexivity].
  erewrite bind_ok.
  2:{ apply rd_app; [|now rewrite HPK]. apply pk_rows_ok; [exact Hpal|].
      eapply Forall_impl; [|exact Hp]. intros r Hr. eapply Forall_impl; [|exact Hr]. intros p Hpp. apply Hpp. }
  erewrite bind_ok.
  2:{ apply (mapM_pure _ (fun j => nth (Z.to_nat j) T [])). intros j Hj. apply in_zseq in Hj.
      assert (Hjn : (Z.to_nat j < length T)%nat) by (unfold zlen in T1; lia).
      set (row := nth (Z.to_nat j) T []).
      assert (Hrow_in : In row T) by (apply nth_In; exact Hjn).
      assert (Hroww : zlen row = w) by (rewrite Forall_forall in T2; now apply T2).
      assert (Hrowp : Forall (fun p => In p pp /\ cp_ok v p) row) by (rewrite Forall_forall in Hp; now apply Hp).
      change (pk_rows pp T) with (flat_map gp T).
      replace (j * rowbytes) with (Z.of_nat (Z.to_nat j) * rowbytes) by lia.
      rewrite (flat_map_skip gp rowbytes [] ltac:(lia) T (Z.to_nat j) Hgl Hjn). fold row.
      unfold gp at 1.
      replace w with (zlen (map (fun p => index_of p pp) row)) by (rewrite zlen_map; exact Hroww).
      rewrite (pack_row_unpack bits Hbits).
      2:{ apply Forall_forall. intros i Hi. apply in_map_iff in Hi. destruct Hi as (p & <- & Hpi).
          rewrite Forall_forall in Hrowp. destruct (Hrowp p Hpi) as [Hin _].
          destruct (index_of_spec p pp Hin) as [I1 _]. pose proof (bits_for_fits n ltac:(lia)) as Hfit.
          change (bits_for n) with bits in Hfit. change (zlen pp) with n in I1. lia. }
      rewrite Hpl.
      rewrite (mapM_pure _ (fun i => nth (Z.to_nat i) (map (cp_norm v) pp) 0)).
      - f_equal. rewrite map_map. rewrite <- (map_id row) at 2. apply map_ext_in. intros p Hpi.
        rewrite Forall_forall in Hrowp. destruct (Hrowp p Hpi) as [Hin Hok].
        destruct (index_of_spec p pp Hin) as [_ I2]. rewrite nth_map_norm, I2. now apply cp_norm_ok.
      - intros i Hi. apply in_map_iff in Hi. destruct Hi as (p & <- & Hpi).
        rewrite Forall_forall in Hrowp. destruct (Hrowp p Hpi) as [Hin _].
        destruct (index_of_spec p pp Hin) as [I1 _]. apply pal_get_ok; [change (zlen pp) with n in I1; lia|rewrite zlen_map; apply I1]. }
  rewrite <- T1 at 1. rewrite (zseq_nth_gen [] T).
  erewrite bind_ok; [|apply (write_rows_ok 58 s x y w h T ts); auto].
  reflexivity.
Qed.

Lemma byte0 b : 0 <= b < 256 -> Forall byte_ok [b].
Proof. intros H. constructor; [exact H|constructor]. Qed.

Ltac ttile_head :=
  unfold trle_tile; cbn [app]; rewrite toks_cons; cbn [app];
  (erewrite bind_ok; [|apply rd_u8_app; unfold byte_ok; lia]); cbv zeta.

Lemma ttile_raw f v T w h t : cp_agree f v -> 1 <= w <= 16 -> 1 <= h <= 16 -> rows_wf w h T ->
  Forall (Forall (cp_ok v)) T -> ttile_ok v ([0] ++ flat_map (cpixel_bytes f) (concat T)) T w h t t.
Proof.
  intros Hag Hw Hh HT Hp. split.
  { apply Forall_app. split; [apply byte0; lia|apply flat_map_ok; intros; apply cpixel_bytes_ok]. }
  intros s ts x y cap Hs F4 Hx Hy Hxw Hyh Hcap. pose proof HT as [T1 T2].
  assert (Hpix : zlen (concat T) = w * h) by (rewrite (concat_zlen w T T2), T1; reflexivity).
  assert (Hrb : 1 <= rbytes v <= 4 /\ 1 <= cbpp v / 8 <= 4) by (destruct v; cbn; lia).
  assert (Hv2 : realbpp v = 8 * rbytes v) by (destruct v; cbn in *; try lia; try contradiction).
  assert (Hlen : zlen (flat_map (cpixel_bytes f) (concat T)) = w * h * rbytes v).
  { rewrite (flat_map_zlen_const _ (rbytes v)); [rewrite Hpix; lia|]. intros a; now apply cpixel_bytes_len. }
  assert (Hok : Forall (cp_ok v) (concat T)) by (apply Forall_concat; exact Hp).
  assert (Hwh : 1 <= w * h <= 256) by nia.
  ttile_head. rewrite Z.eqb_refl.
  rewrite (div8_exact (w * h) (realbpp v) (rbytes v) Hv2).
  destruct (Z.ltb_spec cap (w * h * rbytes v)); [nia|].
  erewrite bind_ok; [|reflexivity].
  erewrite bind_ok; [|apply rd_app; [apply flat_map_ok; intros; apply cpixel_bytes_ok|now rewrite Hlen]].
  destruct (Z.eqb_spec (realbpp v) (cbpp v)) as [E|E]; cbn [negb].
  - assert (Hv1 : rbytes v = cbpp v / 8) by (destruct v; cbn in *; try lia; try contradiction).
    assert (Epx : flat_map (cpixel_bytes f) (concat T) = px_bytes (cbpp v / 8) (concat T)).
    { unfold px_bytes. apply flat_map_ext. intros p. rewrite (cpixel_bytes_eq f v p Hag), <- Hv1.
      destruct v; cbn in E; try lia; reflexivity. }
    rewrite Epx. rewrite px_of_bytes_px_bytes.
    + erewrite bind_ok; [|apply (copy_rect_spec s x y w h T ts Hs Hx Hy ltac:(lia) Hxw Hyh HT)]. reflexivity.
    + lia.
    + rewrite <- Hv1. eapply Forall_impl; [|exact Hok]. intros p Hpp. apply cp_ok_px in Hpp.
      destruct v; cbn in E; try lia; exact Hpp.
  - erewrite bind_ok.
    2:{ erewrite bind_ok; [|destruct v; cbn in E, Hag; try lia; try contradiction; reflexivity].
        destruct (Z.ltb_spec cap ((w * h - 1) * rbytes v + cbpp v / 8)); [nia|].
        erewrite bind_ok; [|reflexivity].
        replace (Z.to_nat (w * h)) with (length (concat T)) by (unfold zlen in Hpix; lia).
        rewrite (cpix_list_data f v _ Hag), map_norm_id by exact Hok.
        apply (paint_seq_ok 61 s x y w h T ts); auto; lia. }
    reflexivity.
Qed.

Lemma ttile_solid f v c w h t : cp_agree f v -> 0 <= w -> 0 <= h -> cp_ok v c ->
  ttile_ok v ([1] ++ cpixel_bytes f c) (fill_rows w h c) w h t (mktr 1 (tr_pal t) (tr_bits t) c).
Proof.
  intros Hag Hw Hh Hc. split.
  { apply Forall_app. split; [apply byte0; lia|apply cpixel_bytes_ok]. }
  intros s ts x y cap Hs F4 Hx Hy Hxw Hyh Hcap.
  ttile_head. change (1 =? 0) with false. change (1 =? 1) with true. cbv iota.
  erewrite bind_ok; [|apply rd_app; [apply cpixel_bytes_ok|symmetry; now apply cpixel_bytes_len]].
  rewrite (no_taint_rb f v Hag).
  erewrite bind_ok; [|reflexivity].
  rewrite (cpix_of_bytes_data f v c _ Hag), (cp_norm_ok v c Hc).
  erewrite bind_ok; [|apply fill_rect_spec; auto].
  reflexivity.
Qed.

Lemma runs_each_le runs : Forall (fun cn : Z * Z => 1 <= snd cn) runs -> forall cn, In cn runs -> snd cn <= runs_len runs.
Proof.
  induction 1 as [|a runs H1 H2 IH]; intros cn Hcn; [contradiction|]. cbn [runs_len fold_right]. fold (runs_len runs).
  assert (0 <= runs_len runs).
  { clear -H2. induction H2 as [|b l Hb Hl IHl]; cbn [runs_len fold_right]; [lia|]. fold (runs_len l). lia. }
  destruct Hcn as [->|Hcn]; [lia|]. specialize (IH cn Hcn). lia.
Qed.

Lemma ttile_plain f v runs T w h t : cp_agree f v -> 1 <= w <= 16 -> 1 <= h <= 16 -> rows_wf w h T ->
  expand runs = concat T -> Forall (fun cn => 1 <= snd cn /\ cp_ok v (fst cn)) runs ->
  ttile_ok v ([128] ++ plain_bytes f runs) T w h t t.
Proof.
  intros Hag Hw Hh HT Hex Hr.
  assert (Hr1 : Forall (fun cn : Z * Z => 1 <= snd cn) runs) by (eapply Forall_impl; [|exact Hr]; intros a Ha; apply Ha).
  split.
  { apply Forall_app. split; [apply byte0; lia|now apply plain_bytes_ok]. }
  intros s ts x y cap Hs F4 Hx Hy Hxw Hyh Hcap. pose proof HT as [T1 T2].
  assert (Hpix : zlen (concat T) = w * h) by (rewrite (concat_zlen w T T2), T1; reflexivity).
  assert (Hr2 : Forall (fun cn : Z * Z => cp_ok v (fst cn)) runs) by (eapply Forall_impl; [|exact Hr]; intros a Ha; apply Ha).
  destruct (runs_len_expand runs Hr1) as [L1 L2]. rewrite Hex, Hpix in L1.
  assert (Hrb : 1 <= rbytes v) by (destruct v; cbn; lia).
  assert (Hr5 : Forall (fun cn : Z * Z => 1 <= snd cn <= 510) runs).
  { apply Forall_forall. intros cn Hcn. pose proof (runs_each_le runs Hr1 cn Hcn). rewrite Forall_forall in Hr1. pose proof (Hr1 cn Hcn). nia. }
  ttile_head.
  change (128 =? 0) with false. change (128 =? 1) with false. change (128 =? 127) with false. change (128 =? 128) with true. cbv iota.
  erewrite bind_ok.
  2:{ apply (trle_plain_data cap f v (w * h) s ts Hag F4 ltac:(nia) runs (Z.to_nat (w * h)) [] Hr5).
      - unfold zlen at 1. cbn [length]. lia.
      - unfold zlen in L2. lia. }
  rewrite rev_racc. cbn [rev app]. rewrite (expand_norm v runs Hr2), Hex.
  erewrite bind_ok; [|apply (paint_seq_ok 62 s x y w h T ts); auto; lia].
  reflexivity.
Qed.

Lemma no_taint_pal f v (D : M unit) : cp_agree f v ->
  (if negb (realbpp v =? cbpp v) then (match v with CP24 | CP24Up => ret tt | _ => upd_st set_taint end) else ret tt) = ret tt.
Proof. destruct v; cbn [cp_agree]; intros H; try contradiction; reflexivity. Qed.

Lemma ttile_packed f v pal T w h t : cp_agree f v -> 1 <= w <= 16 -> 1 <= h <= 16 -> rows_wf w h T -> 2 <= zlen pal <= 16 ->
  Forall (Forall (fun p => In p pal /\ cp_ok v p)) T ->
  ttile_ok v ([zlen pal] ++ flat_map (cpixel_bytes f) pal ++ pk_rows pal T) T w h t
           (mktr (zlen pal) (map (cp_norm v) pal) (bits_for (zlen pal)) (tr_color t)).
Proof.
  intros Hag Hw Hh HT Hpal Hp.
  assert (Hp1 : Forall (Forall (fun p => In p pal)) T).
  { eapply Forall_impl; [|exact Hp]. intros r Hr. eapply Forall_impl; [|exact Hr]. intros p Hpp. apply Hpp. }
  split.
  { apply Forall_app. split; [apply byte0; lia|]. apply Forall_app. split; [apply flat_map_ok; intros; apply cpixel_bytes_ok|now apply pk_rows_ok]. }
  intros s ts x y cap Hs F4 Hx Hy Hxw Hyh Hcap.
  assert (Hrb : 1 <= rbytes v <= 4) by (destruct v; cbn; lia).
  assert (Hv2 : realbpp v = 8 * rbytes v) by (destruct v; cbn in *; try lia; try contradiction).
  set (n := zlen pal) in *.
  assert (HCP : zlen (flat_map (cpixel_bytes f) pal) = n * rbytes v).
  { rewrite (flat_map_zlen_const _ (rbytes v)); [fold n; lia|]. intros a; now apply cpixel_bytes_len. }
  ttile_head.
  destruct (Z.eqb_spec n 0); [lia|]. destruct (Z.eqb_spec n 1); [lia|]. destruct (Z.eqb_spec n 127); [lia|].
  destruct (Z.eqb_spec n 128); [lia|]. destruct (Z.eqb_spec n 129); [lia|]. destruct (Z.leb_spec n 16); [|lia].
  rewrite (div8_exact n (realbpp v) (rbytes v) Hv2). rewrite toks_app, <- app_assoc.
  erewrite bind_ok; [|apply rd_app; [apply flat_map_ok; intros; apply cpixel_bytes_ok|now rewrite HCP]].
  rewrite (no_taint_pal f v (ret tt) Hag).
  erewrite bind_ok; [|reflexivity].
  replace (Z.to_nat n) with (length pal) by (unfold n, zlen; lia).
  rewrite (cpix_list_data f v _ Hag). rewrite (dec_bits_eq2 n).
  erewrite bind_ok.
  2:{ apply (case127_rows cap v pal T w h _ n (n * rbytes v) s ts x y Hw Hh HT Hpal Hp); cbn [tr_last tr_pal tr_bits]; auto; try nia. }
  cbn [fst snd tr_pal tr_bits tr_color]. reflexivity.
Qed.

Lemma ttile_reuse127 v pp T w h t : 1 <= w <= 16 -> 1 <= h <= 16 -> rows_wf w h T -> 2 <= zlen pp <= 16 ->
  Forall (Forall (fun p => In p pp /\ cp_ok v p)) T ->
  (tr_last t = zlen pp /\ tr_bits t = bits_for (zlen pp) \/ tr_last t = 128 + zlen pp) -> tr_pal t = map (cp_norm v) pp ->
  ttile_ok v ([127] ++ pk_rows pp T) T w h t (mktr (zlen pp) (tr_pal t) (bits_for (zlen pp)) (tr_color t)).
Proof.
  intros Hw Hh HT Hpal Hp Hl Hpl.
  assert (Hp1 : Forall (Forall (fun p => In p pp)) T).
  { eapply Forall_impl; [|exact Hp]. intros r Hr. eapply Forall_impl; [|exact Hr]. intros p Hpp. apply Hpp. }
  split.
  { apply Forall_app. split; [apply byte0; lia|now apply pk_rows_ok]. }
  intros s ts x y cap Hs F4 Hx Hy Hxw Hyh Hcap.
  assert (Hrb : 1 <= rbytes v) by (destruct v; cbn; lia).
  ttile_head.
  change (127 =? 0) with false. change (127 =? 1) with false. change (127 =? 127) with true. cbv iota.
  erewrite bind_ok.
  2:{ apply (case127_rows cap v pp T w h t 127 0 s ts x y Hw Hh HT Hpal Hp Hl Hpl); auto; try lia. }
  cbn [fst snd tr_pal tr_bits tr_color]. reflexivity.
Qed.

Lemma ttile_prle f v pal runs T w h t : cp_agree f v -> 1 <= w <= 16 -> 1 <= h <= 16 -> rows_wf w h T -> 2 <= zlen pal <= 127 ->
  expand runs = concat T -> Forall (fun cn => 1 <= snd cn /\ In (fst cn) pal /\ cp_ok v (fst cn)) runs ->
  ttile_ok v ([128 + zlen pal] ++ flat_map (cpixel_bytes f) pal ++ prle_bytes pal runs) T w h t
           (mktr (128 + zlen pal) (map (cp_norm v) pal) (tr_bits t) (tr_color t)).
Proof.
  intros Hag Hw Hh HT Hpal Hex Hr.
  assert (Hr1 : Forall (fun cn : Z * Z => 1 <= snd cn) runs) by (eapply Forall_impl; [|exact Hr]; intros a Ha; apply Ha).
  assert (Hr3 : Forall (fun cn : Z * Z => 1 <= snd cn /\ In (fst cn) pal) runs) by (eapply Forall_impl; [|exact Hr]; intros a Ha; split; apply Ha).
  split.
  { apply Forall_app. split; [apply byte0; lia|].
    apply Forall_app. split; [apply flat_map_ok; intros; apply cpixel_bytes_ok|now apply prle_bytes_ok]. }
  intros s ts x y cap Hs F4 Hx Hy Hxw Hyh Hcap. pose proof HT as [T1 T2].
  assert (Hpix : zlen (concat T) = w * h) by (rewrite (concat_zlen w T T2), T1; reflexivity).
  assert (Hr2 : Forall (fun cn : Z * Z => cp_ok v (fst cn)) runs) by (eapply Forall_impl; [|exact Hr]; intros a Ha; apply Ha).
  destruct (runs_len_expand runs Hr1) as [L1 L2]. rewrite Hex, Hpix in L1.
  assert (Hrb : 1 <= rbytes v <= 4) by (destruct v; cbn; lia).
  assert (Hv2 : realbpp v = 8 * rbytes v) by (destruct v; cbn in *; try lia; try contradiction).
  set (n := zlen pal) in *.
  assert (HCP : zlen (flat_map (cpixel_bytes f) pal) = n * rbytes v).
  { rewrite (flat_map_zlen_const _ (rbytes v)); [fold n; lia|]. intros a; now apply cpixel_bytes_len. }
  assert (Hr5 : Forall (fun cn : Z * Z => 1 <= snd cn <= 510 /\ In (fst cn) pal) runs).
  { apply Forall_forall. intros cn Hcn. pose proof (runs_each_le runs Hr1 cn Hcn). rewrite Forall_forall in Hr3.
    destruct (Hr3 cn Hcn). split; [nia|assumption]. }
  ttile_head.
  destruct (Z.eqb_spec (128 + n) 0); [lia|]. destruct (Z.eqb_spec (128 + n) 1); [lia|]. destruct (Z.eqb_spec (128 + n) 127); [lia|].
  destruct (Z.eqb_spec (128 + n) 128); [lia|]. destruct (Z.eqb_spec (128 + n) 129); [lia|]. destruct (Z.leb_spec (128 + n) 16); [lia|].
  destruct (Z.leb_spec 130 (128 + n)); [|lia].
  replace (128 + n - 128) with n by lia.
  rewrite (div8_exact n (realbpp v) (rbytes v) Hv2). rewrite toks_app, <- app_assoc.
  erewrite bind_ok; [|apply rd_app; [apply flat_map_ok; intros; apply cpixel_bytes_ok|now rewrite HCP]].
  rewrite (no_taint_pal f v (ret tt) Hag).
  erewrite bind_ok; [|reflexivity].
  replace (Z.to_nat n) with (length pal) by (unfold n, zlen; lia).
  rewrite (cpix_list_data f v _ Hag).
  erewrite bind_ok; [|reflexivity]. rewrite F4.
  erewrite bind_ok.
  2:{ apply (trle_palrle_data cap v (w * h) pal s ts F4 ltac:(nia) ltac:(lia) runs (Z.to_nat (w * h)) [] Hr5).
      - unfold zlen at 1. cbn [length]. lia.
      - unfold zlen in L2. lia. }
  rewrite rev_racc. cbn [rev app]. rewrite (expand_norm v runs Hr2), Hex.
  erewrite bind_ok; [|apply (paint_seq_ok 64 s x y w h T ts); auto; lia].
  reflexivity.
Qed.

Lemma ttile_reuse129 v pp runs T w h t : 1 <= w <= 16 -> 1 <= h <= 16 -> rows_wf w h T -> 2 <= zlen pp <= 127 ->
  expand runs = concat T -> Forall (fun cn => 1 <= snd cn /\ In (fst cn) pp /\ cp_ok v (fst cn)) runs ->
  tr_pal t = map (cp_norm v) pp ->
  ttile_ok v ([129] ++ prle_bytes pp runs) T w h t t.
Proof.
  intros Hw Hh HT Hpal Hex Hr Hpl.
  assert (Hr1 : Forall (fun cn : Z * Z => 1 <= snd cn) runs) by (eapply Forall_impl; [|exact Hr]; intros a Ha; apply Ha).
  assert (Hr3 : Forall (fun cn : Z * Z => 1 <= snd cn /\ In (fst cn) pp) runs) by (eapply Forall_impl; [|exact Hr]; intros a Ha; split; apply Ha).
  split.
  { apply Forall_app. split; [apply byte0; lia|now apply prle_bytes_ok]. }
  intros s ts x y cap Hs F4 Hx Hy Hxw Hyh Hcap. pose proof HT as [T1 T2].
  assert (Hpix : zlen (concat T) = w * h) by (rewrite (concat_zlen w T T2), T1; reflexivity).
  assert (Hr2 : Forall (fun cn : Z * Z => cp_ok v (fst cn)) runs) by (eapply Forall_impl; [|exact Hr]; intros a Ha; apply Ha).
  destruct (runs_len_expand runs Hr1) as [L1 L2]. rewrite Hex, Hpix in L1.
  assert (Hrb : 1 <= rbytes v) by (destruct v; cbn; lia).
  assert (Hr5 : Forall (fun cn : Z * Z => 1 <= snd cn <= 510 /\ In (fst cn) pp) runs).
  { apply Forall_forall. intros cn Hcn. pose proof (runs_each_le runs Hr1 cn Hcn). rewrite Forall_forall in Hr3.
    destruct (Hr3 cn Hcn). split; [nia|assumption]. }
  ttile_head.
  change (129 =? 0) with false. change (129 =? 1) with false. change (129 =? 127) with false.
  change (129 =? 128) with false. change (129 =? 129) with true. cbv iota.
  rewrite Hpl.
  erewrite bind_ok.
  2:{ apply (trle_palrle_data cap v (w * h) pp s ts F4 ltac:(nia) ltac:(lia) runs (Z.to_nat (w * h)) [] Hr5).
      - unfold zlen at 1. cbn [length]. lia.
      - unfold zlen in L2. lia. }
  rewrite rev_racc. cbn [rev app]. rewrite (expand_norm v runs Hr2), Hex.
  erewrite bind_ok; [|apply (paint_seq_ok 63 s x y w h T ts); auto; lia].
  reflexivity.
Qed.

(* ---------------------------------------------------------------- every tile the reference encoder can emit *)
Definition trel (v : cpv) (t : trst) (pk : Z) (pp : list Z) : Prop :=
  (pk = 1 -> 2 <= zlen pp <= 16 /\ tr_last t = zlen pp /\ tr_pal t = map (cp_norm v) pp /\ tr_bits t = bits_for (zlen pp)) /\
  (pk = 2 -> 2 <= zlen pp <= 127 /\ tr_last t = 128 + zlen pp /\ tr_pal t = map (cp_norm v) pp).

Lemma trel_0 v t pp : trel v t 0 pp.
Proof. split; intros; lia. Qed.

Lemma tile_body_trle ch base f v T w h pk pp t :
  cp_agree f v -> 1 <= w <= 16 -> 1 <= h <= 16 -> rows_wf w h T -> Forall (Forall (cp_ok v)) T -> trel v t pk pp ->
  exists t', ttile_ok v (fst (fst (tile_body ch base f true T pk pp))) T w h t t' /\
             trel v t' (snd (fst (tile_body ch base f true T pk pp))) (snd (tile_body ch base f true T pk pp)).
Proof.
  intros Hag Hw Hh HT Hp [Hrel1 Hrel2]. pose proof HT as [T1 T2].
  assert (Hpix : zlen (concat T) = w * h) by (rewrite (concat_zlen w T T2), T1; reflexivity).
  assert (Hok : Forall (cp_ok v) (concat T)) by (apply Forall_concat; exact Hp).
  unfold tile_body. cbv zeta. cbn [andb].
  set (pix := concat T) in *. set (cols := distinct pix). set (n := zlen cols).
  assert (Hcols : forall p, In p pix -> In p cols) by (intros p Hpi; now apply distinct_In).
  assert (Hcols' : forall p, In p cols -> In p pix) by (intros p Hpi; now apply distinct_In).
  assert (Hn1 : 1 <= n).
  { destruct pix as [|p0 pix'] eqn:E; [unfold zlen in Hpix; cbn in Hpix; nia|].
    assert (In p0 cols) by (apply Hcols; now left). unfold n. destruct cols; [contradiction|]. rewrite zlen_cons. pose proof (zlen_nonneg cols). lia. }
  set (cap := nth (Z.to_nat (pick ch (base + 1) (zlen run_caps))) run_caps 1).
  set (reuse_ok := forallb (fun c => zmem c pp) cols).
  assert (Hreuse : reuse_ok = true -> forall p, In p pix -> In p pp).
  { intros E p Hpi. unfold reuse_ok in E. rewrite forallb_forall in E. apply zmem_In. apply E. now apply Hcols. }
  assert (Hpixr : forall r, In r T -> forall p, In p r -> In p pix).
  { intros r Hr p Hpr. unfold pix. apply in_concat. exists r. split; assumption. }
  assert (Hokp : forall p, In p pix -> cp_ok v p) by (intros p Hpi; rewrite Forall_forall in Hok; now apply Hok).
  destruct (rle_expand cap pix) as [E1 E2]. unfold runs_ok in E2.
  assert (Hplain : exists t', ttile_ok v ([128] ++ flat_map (fun cn : Z * Z => cpixel_bytes f (fst cn) ++ runlen_bytes (snd cn)) (rle cap pix)) T w h t t'
                              /\ trel v t' 0 []).
  { exists t. split; [|apply trel_0].
    apply (ttile_plain f v (rle cap pix) T w h t Hag Hw Hh HT E1).
    pose proof (rle_colours cap pix (cp_ok v) Hok) as Hc.
    apply Forall_forall. intros cn Hcn. rewrite Forall_forall in Hc, E2. split; [apply (E2 cn Hcn)|apply (Hc cn Hcn)]. }
  assert (Hraw : exists t', ttile_ok v ([0] ++ flat_map (cpixel_bytes f) pix) T w h t t' /\ trel v t' 0 []).
  { exists t. split; [apply ttile_raw; auto|apply trel_0]. }
  destruct (pick ch base 6 =? 0); [exact Hraw|].
  destruct (pick ch base 6 =? 1).
  { destruct (Z.eqb_spec n 1) as [En|En]; [|exact Hraw]. cbn [fst snd].
    assert (Hc1 : exists c, cols = [c]).
    { unfold n in En. destruct cols as [|c [|c2 cols']]; [unfold zlen in En; cbn in En; lia|now exists c|].
      rewrite !zlen_cons in En. pose proof (zlen_nonneg cols'). lia. }
    destruct Hc1 as [c Hc1]. rewrite Hc1. cbn [nth].
    assert (Hall : forall p, In p pix -> p = c).
    { intros p Hpi. apply Hcols in Hpi. rewrite Hc1 in Hpi. destruct Hpi as [->|[]]. reflexivity. }
    exists (mktr 1 (tr_pal t) (tr_bits t) c). split; [|apply trel_0].
    rewrite (fill_rows_eq w h c T HT Hall).
    apply ttile_solid; auto; try lia. apply Hokp. apply Hcols'. rewrite Hc1. now left. }
  destruct (pick ch base 6 =? 2).
  { destruct (((pk =? 1) || (pk =? 2)) && (zlen pp <=? 16) && reuse_ok && (pick ch (base + 2) 2 =? 0)) eqn:Ere.
    { apply andb_prop in Ere. destruct Ere as [Ere _]. apply andb_prop in Ere. destruct Ere as [Ere Ero].
      apply andb_prop in Ere. destruct Ere as [Epk E16]. cbn [fst snd].
      assert (Hst : 2 <= zlen pp <= 16 /\ (tr_last t = zlen pp /\ tr_bits t = bits_for (zlen pp) \/ tr_last t = 128 + zlen pp)
                    /\ tr_pal t = map (cp_norm v) pp).
      { destruct (Z.eqb_spec pk 1) as [Ek1|Nk1].
        - destruct (Hrel1 Ek1) as (R1 & R2 & R3 & R4). split; [lia|]. split; [left; auto|exact R3].
        - assert (Ek2 : pk = 2) by lia. destruct (Hrel2 Ek2) as (R1 & R2 & R3). split; [lia|]. split; [right; exact R2|exact R3]. }
      destruct Hst as (R1 & R2 & R3).
      exists (mktr (zlen pp) (tr_pal t) (bits_for (zlen pp)) (tr_color t)). split.
      - apply (ttile_reuse127 v pp T w h t Hw Hh HT R1); auto.
        apply Forall_forall. intros r Hr. apply Forall_forall. intros p Hpr.
        split; [apply (Hreuse Ero), (Hpixr r Hr p Hpr)|apply Hokp, (Hpixr r Hr p Hpr)].
      - split; [intros _; cbn [tr_last tr_pal tr_bits]; auto|intros; lia]. }
    destruct ((2 <=? n) && (n <=? 16) || (n =? 1)) eqn:Ec; [|exact Hplain]. cbn [fst snd].
    assert (Hn16 : n <= 16) by lia.
    pose proof (padded_pal_facts ch base cols 16 (2 ^ f_bpp f) ltac:(fold n; lia) ltac:(lia)) as Hpl. cbv zeta in Hpl. fold n in Hpl.
    match goal with |- exists t', ttile_ok v ([zlen ?pl] ++ _ ++ _) T w h t t' /\ _ => set (pal := pl) in * end.
    exists (mktr (zlen pal) (map (cp_norm v) pal) (bits_for (zlen pal)) (tr_color t)). split.
    - apply (ttile_packed f v pal T w h t Hag Hw Hh HT Hpl).
      apply Forall_forall. intros r Hr. apply Forall_forall. intros p Hpr.
      split; [unfold pal; apply in_or_app; left; apply Hcols, (Hpixr r Hr p Hpr)|apply Hokp, (Hpixr r Hr p Hpr)].
    - split; [intros _; cbn [tr_last tr_pal tr_bits]; auto|intros; lia]. }
  destruct (pick ch base 6 =? 3); [exact Hplain|].
  destruct (((pk =? 1) || (pk =? 2)) && reuse_ok && (pick ch (base + 2) 2 =? 0)) eqn:Ere.
  { apply andb_prop in Ere. destruct Ere as [Ere _]. apply andb_prop in Ere. destruct Ere as [Epk Ero]. cbn [fst snd].
    assert (Hst : 2 <= zlen pp <= 127 /\ tr_pal t = map (cp_norm v) pp).
    { destruct (Z.eqb_spec pk 1) as [E1'|N1].
      - destruct (Hrel1 E1') as (R1 & R2 & R3 & R4). split; [lia|exact R3].
      - assert (E2' : pk = 2) by lia. destruct (Hrel2 E2') as (R1 & R2 & R3). split; [lia|exact R3]. }
    destruct Hst as (R1 & R3).
    exists t. split; [|split; assumption].
    apply (ttile_reuse129 v pp (rle cap pix) T w h t Hw Hh HT R1 E1); [|exact R3].
    pose proof (rle_colours cap pix (fun c => In c pp /\ cp_ok v c)) as Hc.
    assert (Hc' : Forall (fun cn : Z * Z => In (fst cn) pp /\ cp_ok v (fst cn)) (rle cap pix)).
    { apply Hc. apply Forall_forall. intros p Hpp. split; [now apply (Hreuse Ero)|now apply Hokp]. }
    apply Forall_forall. intros cn Hcn. rewrite Forall_forall in Hc', E2. destruct (Hc' cn Hcn). split; [apply (E2 cn Hcn)|split; assumption]. }
  destruct (Z.leb_spec n 127); [|exact Hplain]. cbn [fst snd].
  pose proof (padded_pal_facts ch base cols 127 (2 ^ f_bpp f) ltac:(fold n; lia) ltac:(lia)) as Hpl. cbv zeta in Hpl. fold n in Hpl.
  match goal with |- exists t', ttile_ok v ([128 + zlen ?pl] ++ _ ++ _) T w h t t' /\ _ => set (pal := pl) in * end.
  exists (mktr (128 + zlen pal) (map (cp_norm v) pal) (tr_bits t) (tr_color t)). split.
  - apply (ttile_prle f v pal (rle cap pix) T w h t Hag Hw Hh HT Hpl E1).
    pose proof (rle_colours cap pix (fun c => In c pal /\ cp_ok v c)) as Hc.
    assert (Hc' : Forall (fun cn : Z * Z => In (fst cn) pal /\ cp_ok v (fst cn)) (rle cap pix)).
    { apply Hc. apply Forall_forall. intros p Hpp. split; [unfold pal; apply in_or_app; left; now apply Hcols|now apply Hokp]. }
    apply Forall_forall. intros cn Hcn. rewrite Forall_forall in Hc', E2. destruct (Hc' cn Hcn). split; [apply (E2 cn Hcn)|split; assumption].
  - split; [intros; lia|intros _; cbn [tr_last tr_pal]; auto].
Qed.

(* ---------------------------------------------------------------- tiles of a rectangle *)
Lemma tcols_ok ch f v cap fuel : cp_agree f v -> 512 * rbytes v <= cap ->
  forall base s rx ry rw cy th tgt TH cx pk pp t ts,
  st_wf s -> fixed s 4 = true -> 0 <= rx -> 0 <= ry -> 0 <= cy -> 1 <= th <= 16 -> 0 <= cx -> 0 <= rw ->
  rx + rw <= c_w s -> ry + cy + th <= c_h s -> rows_wf rw TH tgt -> cy + th <= TH ->
  Forall (Forall (cp_ok v)) tgt -> rw - cx <= 16 * Z.of_nat fuel -> trel v t pk pp ->
  exists t',
    trle_cols fuel cap v (rx + cx) (ry + cy) rx rw th t s
      (toks (fst (fst (tiles_cols ch base f true 16 fuel cx cy rw th tgt pk pp))) ++ ts)
    = Ok t' (set_fb s (blit_spec (c_fb s) (rx + cx) (ry + cy) (sub_block tgt cx cy (Z.max 0 (rw - cx)) th))) ts
    /\ trel v t' (snd (fst (tiles_cols ch base f true 16 fuel cx cy rw th tgt pk pp)))
                 (snd (tiles_cols ch base f true 16 fuel cx cy rw th tgt pk pp)).
Proof.
  intros Hag Hcap. induction fuel as [|fuel IH]; intros base s rx ry rw cy th tgt TH cx pk pp t ts
    Hs F4 Hrx Hry Hcy Hth Hcx Hrw Hxw Hyh Ht HyTH Hp Hfuel Hrel.
  - cbn [tiles_cols trle_cols fst snd toks map app]. exists t. split; [|exact Hrel].
    unfold ret. replace (Z.max 0 (rw - cx)) with 0 by lia.
    rewrite blit_zero_width by apply sub_block_zero. now rewrite set_fb_id.
  - cbn [tiles_cols trle_cols].
    destruct (Z.leb_spec rw cx).
    + destruct (Z.leb_spec (rx + rw) (rx + cx)); [|lia].
      cbn [fst snd toks map app]. exists t. split; [|exact Hrel].
      unfold ret. replace (Z.max 0 (rw - cx)) with 0 by lia.
      rewrite blit_zero_width by apply sub_block_zero. now rewrite set_fb_id.
    + destruct (Z.leb_spec (rx + rw) (rx + cx)); [lia|].
      set (w := Z.min 16 (rw - cx)). assert (Hw : 1 <= w <= 16) by lia.
      replace (if rx + rw - (rx + cx) <? cTRLE_tile then rx + rw - (rx + cx) else cTRLE_tile) with w
        by (unfold w, cTRLE_tile; destruct (Z.ltb_spec (rx + rw - (rx + cx)) 16); lia).
      set (T := sub_block tgt cx cy w th).
      assert (HT : rows_wf w th T) by (eapply sub_block_wf; [exact Ht| | | | | |]; lia).
      assert (HpT : Forall (Forall (cp_ok v)) T) by (apply sub_block_px; exact Hp).
      destruct (tile_body_trle ch base f v T w th pk pp t Hag Hw Hth HT HpT Hrel) as (t1 & [_ Htile] & Hrel1).
      destruct (tile_body ch base f true T pk pp) as [[tb pk1] pp1] eqn:Eenc. cbn [fst snd] in Htile, Hrel1.
      set (s1 := set_fb s (blit_spec (c_fb s) (rx + cx) (ry + cy) T)).
      assert (Hs1 : st_wf s1) by (apply st_wf_set_fb; [assumption|apply blit_spec_wf; apply Hs]).
      assert (F41 : fixed s1 4 = true) by exact F4.
      destruct (IH (base + 1000) s1 rx ry rw cy th tgt TH (cx + 16) pk1 pp1 t1 ts
                  Hs1 F41 Hrx Hry Hcy Hth ltac:(lia) Hrw Hxw Hyh Ht HyTH Hp ltac:(lia) Hrel1) as (t2 & Erest & Hrel2).
      destruct (tiles_cols ch (base + 1000) f true 16 fuel (cx + 16) cy rw th tgt pk1 pp1) as [[rb pk2] pp2] eqn:Erec.
      cbn [fst snd] in *.
      exists t2. split; [|exact Hrel2].
      rewrite toks_app, <- app_assoc.
      erewrite bind_ok; [|apply (Htile s _ (rx + cx) (ry + cy) cap Hs F4); lia].
      replace (rx + cx + cTRLE_tile) with (rx + (cx + 16)) by (unfold cTRLE_tile; lia).
      fold s1. rewrite Erest. f_equal.
      unfold s1. rewrite set_fb_set_fb. f_equal. cbn [c_fb set_fb].
      destruct (Z.leb_spec (rw - cx) 16).
      * assert (Hwl : w = rw - cx) by lia.
        replace (Z.max 0 (rw - (cx + 16))) with 0 by lia.
        rewrite (blit_zero_width _ (rx + (cx + 16)) (ry + cy)) by apply sub_block_zero.
        unfold T. f_equal. f_equal. lia.
      * assert (Hw16 : w = 16) by lia.
        replace (Z.max 0 (rw - (cx + 16))) with (rw - cx - 16) by lia.
        replace (Z.max 0 (rw - cx)) with (16 + (rw - cx - 16)) by lia.
        replace (rx + (cx + 16)) with (rx + cx + 16) by lia.
        unfold T. rewrite Hw16.
        apply (blit_hjoin (c_w s) (c_h s) (c_fb s) (rx + cx) (ry + cy) tgt rw TH cx cy 16 (rw - cx - 16) th); auto; try lia.
        apply Hs.
Qed.

Lemma trows_ok ch f v cap fuel : cp_agree f v -> 512 * rbytes v <= cap ->
  forall base s rx ry rw rh tgt cy pk pp t ts,
  st_wf s -> fixed s 4 = true -> 0 <= rx -> 0 <= ry -> 0 <= cy -> 0 <= rw -> 0 <= rh ->
  rx + rw <= c_w s -> ry + rh <= c_h s -> rows_wf rw rh tgt ->
  Forall (Forall (cp_ok v)) tgt -> rh - cy <= 16 * Z.of_nat fuel -> trel v t pk pp ->
  trle_rows fuel cap v (ry + cy) rx ry rw rh t s (toks (tiles_rows ch base f true 16 fuel cy rw rh tgt pk pp) ++ ts)
  = Ok tt (set_fb s (blit_spec (c_fb s) rx (ry + cy) (sub_block tgt 0 cy rw (Z.max 0 (rh - cy))))) ts.
Proof.
  intros Hag Hcap. induction fuel as [|fuel IH]; intros base s rx ry rw rh tgt cy pk pp t ts
    Hs F4 Hrx Hry Hcy Hrw Hrh Hxw Hyh Ht Hp Hfuel Hrel.
  - cbn [tiles_rows trle_rows toks map app]. unfold ret.
    replace (Z.max 0 (rh - cy)) with 0 by lia. unfold sub_block. cbn [Z.to_nat firstn map].
    unfold blit_spec. rewrite blit_from_nil, set_fb_id. reflexivity.
  - cbn [tiles_rows trle_rows].
    destruct (Z.leb_spec rh cy).
    + destruct (Z.leb_spec (ry + rh) (ry + cy)); [|lia]. cbn [toks map app]. unfold ret.
      replace (Z.max 0 (rh - cy)) with 0 by lia. unfold sub_block. cbn [Z.to_nat firstn map].
      unfold blit_spec. rewrite blit_from_nil, set_fb_id. reflexivity.
    + destruct (Z.leb_spec (ry + rh) (ry + cy)); [lia|].
      set (th := Z.min 16 (rh - cy)). assert (Hth : 1 <= th <= 16) by lia.
      replace (if ry + rh - (ry + cy) <? cTRLE_tile then ry + rh - (ry + cy) else cTRLE_tile) with th
        by (unfold th, cTRLE_tile; destruct (Z.ltb_spec (ry + rh - (ry + cy)) 16); lia).
      change (rw / cTRLE_tile + 1) with (rw / 16 + 1).
      assert (Hcf : rw - 0 <= 16 * Z.of_nat (Z.to_nat (rw / 16 + 1))).
      { pose proof (Z.div_mod rw 16 ltac:(lia)). pose proof (Z.mod_pos_bound rw 16 ltac:(lia)).
        assert (0 <= rw / 16) by (apply Z.div_pos; lia). lia. }
      destruct (tcols_ok ch f v cap (Z.to_nat (rw / 16 + 1)) Hag Hcap base s rx ry rw cy th tgt rh 0 pk pp t
                  (toks (tiles_rows ch (base + 1000000) f true 16 fuel (cy + 16) rw rh tgt
                          (snd (fst (tiles_cols ch base f true 16 (Z.to_nat (rw / 16 + 1)) 0 cy rw th tgt pk pp)))
                          (snd (tiles_cols ch base f true 16 (Z.to_nat (rw / 16 + 1)) 0 cy rw th tgt pk pp))) ++ ts)
                  Hs F4 Hrx Hry Hcy Hth ltac:(lia) Hrw Hxw ltac:(lia) Ht ltac:(lia) Hp Hcf Hrel) as (t1 & Ecols & Hrel1).
      destruct (tiles_cols ch base f true 16 (Z.to_nat (rw / 16 + 1)) 0 cy rw th tgt pk pp) as [[bs pk1] pp1] eqn:Eenc.
      cbn [fst snd] in *.
      rewrite toks_app, <- app_assoc.
      replace (rx + 0) with rx in Ecols by lia.
      erewrite bind_ok; [|exact Ecols].
      set (A := sub_block tgt 0 cy (Z.max 0 (rw - 0)) th) in *.
      set (s1 := set_fb s (blit_spec (c_fb s) rx (ry + cy) A)) in *.
      assert (Hs1 : st_wf s1) by (apply st_wf_set_fb; [assumption|apply blit_spec_wf; apply Hs]).
      assert (F41 : fixed s1 4 = true) by exact F4.
      replace (ry + cy + cTRLE_tile) with (ry + (cy + 16)) by (unfold cTRLE_tile; lia).
      rewrite (IH (base + 1000000) s1 rx ry rw rh tgt (cy + 16) pk1 pp1 t1 ts Hs1 F41 Hrx Hry ltac:(lia) Hrw Hrh Hxw Hyh Ht Hp ltac:(lia) Hrel1).
      f_equal. unfold s1. rewrite set_fb_set_fb. f_equal. cbn [c_fb set_fb].
      assert (HA : rows_wf rw th A).
      { unfold A. replace (Z.max 0 (rw - 0)) with rw by lia. eapply sub_block_wf; [exact Ht| | | | | |]; lia. }
      destruct HA as [A1 A2].
      destruct (Z.leb_spec (rh - cy) 16).
      * replace (Z.max 0 (rh - (cy + 16))) with 0 by lia.
        unfold sub_block at 1. cbn [Z.to_nat firstn map]. unfold blit_spec at 1. rewrite blit_from_nil.
        unfold A. f_equal. f_equal; lia.
      * assert (Hth16 : th = 16) by lia.
        replace (ry + (cy + 16)) with (ry + cy + zlen A) by lia.
        rewrite blit_split_v by lia. f_equal.
        replace (Z.max 0 (rh - cy)) with (16 + Z.max 0 (rh - (cy + 16))) by lia.
        rewrite sub_block_vsplit by lia. unfold A. rewrite Hth16. f_equal. f_equal. lia.
Qed.

(* ---------------------------------------------------------------- HandleTRLE *)
Theorem roundtrip_trle ch s x y w h tgt ts :
  st_wf s -> cp_agree (c_fmt s) (variant_of s) -> fixed s 4 = true ->
  0 <= x -> 0 <= y -> 0 <= w -> 0 <= h -> x + w <= c_w s -> y + h <= c_h s ->
  rows_wf w h tgt -> Forall (Forall (cp_ok (variant_of s))) tgt ->
  let minsz := cTRLE_tile * cTRLE_tile * rbytes (variant_of s) * 2 in
  let cap := if c_rawsz s <? minsz then minsz else c_rawsz s in
  dec_trle x y w h s (ref_trle ch (c_fmt s) w h tgt ++ ts)
  = Ok tt (set_fb (set_rawsz s cap) (blit_spec (c_fb s) x y tgt)) ts.
Proof.
  intros Hs Hag F4 Hx Hy Hw Hh Hxw Hyh Ht Hp minsz cap.
  unfold dec_trle, ref_trle.
  erewrite bind_ok; [|reflexivity]. cbv zeta. fold minsz. fold cap.
  erewrite bind_ok; [|reflexivity].
  set (s1 := set_rawsz s cap).
  assert (Hs1 : st_wf s1) by (eapply st_wf_ext; [| | |exact Hs]; reflexivity).
  assert (F41 : fixed s1 4 = true) by exact F4.
  assert (Hcap : 512 * rbytes (variant_of s) <= cap).
  { unfold cap, minsz, cTRLE_tile. destruct (Z.ltb_spec (c_rawsz s) (16 * 16 * rbytes (variant_of s) * 2)); lia. }
  assert (Hcf : h - 0 <= 16 * Z.of_nat (Z.to_nat (h / 16 + 1))).
  { pose proof (Z.div_mod h 16 ltac:(lia)). pose proof (Z.mod_pos_bound h 16 ltac:(lia)).
    assert (0 <= h / 16) by (apply Z.div_pos; lia). lia. }
  pose proof (trows_ok ch (c_fmt s) (variant_of s) cap (Z.to_nat (h / 16 + 1)) Hag Hcap 0 s1 x y w h tgt 0 0 [] (mktr 0 [] 0 0) ts
                Hs1 F41 Hx Hy ltac:(lia) Hw Hh Hxw Hyh Ht Hp Hcf (trel_0 _ _ _)) as E.
  replace (y + 0) with y in E by lia. change (h / cTRLE_tile + 1) with (h / 16 + 1).
  rewrite E. replace (Z.max 0 (h - 0)) with h by lia. rewrite sub_block_all by assumption. reflexivity.
Qed.
