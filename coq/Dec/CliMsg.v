(* CliMsg.v - mirror of HandleRFBServerMessage (rfbclient.c:2044-2735): message dispatch and the
   rectangle loop of FramebufferUpdate.  Definitions only. *)
From LV Require Export Dec.CliDecZ.
Local Open Scope Z_scope.

(* one rectangle; result true = LastRect seen (break) *)
Definition do_rect : M bool :=
  x <- rd_u16 ;; y <- rd_u16 ;; w <- rd_u16 ;; h <- rd_u16 ;; enc <- rd_u32 ;;
  if enc =? cE_LastRect then ret true else
  if (enc =? cE_XCursor) || (enc =? cE_RichCursor) then dec_cursor x y w h enc ;;; ret false else
  if enc =? cE_PointerPos then log_ev (EvPos x y) ;;; ret false else
  if enc =? cE_KeyboardLedState then log_ev (EvLed x) ;;; ret false else
  if enc =? cE_NewFBSize then resize w h ;;; send_fur 0 0 0 w h ;;; ret false else
  if enc =? cE_ExtDesktopSize then
    hdr <- rd csz_ExtDesktopSizeMsg ;;
    let n := nthz hdr 0 in
    scr <- rd (n * csz_ExtDesktopScreen) ;;
    (* a screen is valid when id <> 0 and width, height <> 0 *)
    let valid := forallb (fun r => negb (be_val (firstn 4 r) =? 0)
                                   && negb (be_val (firstn 2 (skipn 8 r)) =? 0)
                                   && negb (be_val (firstn 2 (skipn 10 r)) =? 0))
                         (chunks csz_ExtDesktopScreen scr) in
    (* client->screen = the last valid screen record *)
    upd_st (fun s => fold_left (fun s r => if negb (be_val (firstn 4 r) =? 0)
                                              && negb (be_val (firstn 2 (skipn 8 r)) =? 0)
                                              && negb (be_val (firstn 2 (skipn 10 r)) =? 0)
                                           then set_screen s (be_val (firstn 2 (skipn 8 r)), be_val (firstn 2 (skipn 10 r))) else s)
                             (chunks csz_ExtDesktopScreen scr) s) ;;;
    s <- get_st ;;
    (if valid && (negb (c_w s =? w) || negb (c_h s =? h)) then resize w h else ret tt) ;;;
    upd_st (fun s => set_reqrs s false) ;;;        (* the pending SetDesktopSize has been answered *)
    ret false else
  if enc =? cE_SupportedMessages then
    sm <- rd csz_SupportedMessages ;;
    upd_st (fun s => set_canfur s (flag (nthz sm 0) (2 ^ cC_FramebufferUpdateRequest))) ;;; ret false else
  if enc =? cE_SupportedEncodings then rd w ;;; ret false else
  if enc =? cE_ServerIdentity then rd w ;;; ret false else
  s <- get_st ;;
  if negb (enc =? cE_UltraZip) && ((c_w s <? x + w) || (c_h s <? y + h)) then failM else
  (let byppok := (f_bpp (c_fmt s) =? 8) || (f_bpp (c_fmt s) =? 16) || (f_bpp (c_fmt s) =? 32) in
   if enc =? cE_Raw then dec_raw x y w h
   else if enc =? cE_CopyRect then dec_copyrect x y w h
   else if enc =? cE_RRE then (if byppok then dec_rre x y w h else ret tt)
   else if enc =? cE_CoRRE then (if byppok then dec_corre x y w h else ret tt)
   else if enc =? cE_Hextile then (if byppok then dec_hextile x y w h else ret tt)
   else if enc =? cE_Ultra then (if byppok then dec_ultra x y w h else ret tt)
   else if enc =? cE_UltraZip then (if byppok then dec_ultrazip x y w h else ret tt)
   else if enc =? cE_TRLE then (if byppok then dec_trle x y w h else ret tt)
   else if enc =? cE_Zlib then (if byppok then dec_zlib x y w h else ret tt)
   else if enc =? cE_Tight then (if byppok then dec_tight x y w h else ret tt)
   else if (enc =? cE_ZRLE) || (enc =? cE_ZYWRLE) then (if byppok then dec_zrle x y w h else ret tt)
   else if enc =? cE_QemuExtendedKeyEvent then ret tt
   else failM) ;;;
  log_ev (EvUpdate x y w h) ;;;
  ret false.

Fixpoint rect_loop (n : nat) : M unit :=
  match n with
  | O => ret tt
  | S n' => b <- do_rect ;; if b then ret tt else rect_loop n'
  end.

Definition handle_msg : M unit :=
  t <- rd_u8 ;;
  if t =? cM_SetColourMapEntries then ret tt else
  if t =? cM_FramebufferUpdate then
    hdr <- rd (csz_FramebufferUpdateMsg - 1) ;;
    rect_loop (Z.to_nat (be_val (skipn 1 hdr))) ;;;
    send_incr ;;;
    log_ev EvFinished
  else if t =? cM_Bell then log_ev EvBell
  else if t =? cM_ServerCutText then
    hdr <- rd (csz_ServerCutTextMsg - 1) ;;
    let v := be_val (skipn 3 hdr) in
    let ilen := if 2 ^ 31 <=? v then v - 2 ^ 32 else v in
    let len := (if ilen <? 0 then - ilen else ilen) mod 2 ^ 32 in
    if cCutTextLimit <? len then failM else
    txt <- rd len ;;
    log_ev (EvCut txt)
  else if t =? cM_TextChat then
    hdr <- rd (csz_TextChatMsg - 1) ;;
    let len := be_val (skipn 3 hdr) in
    if (len =? cTextChatOpen) || (len =? cTextChatClose) || (len =? cTextChatFinished) then ret tt else
    if cMAX_TEXTCHAT_SIZE <? len then failM else
    rd len ;;; ret tt
  else if t =? cM_Xvp then rd (csz_XvpMsg - 1) ;;; ret tt
  else if t =? cM_ResizeFrameBuffer then
    hdr <- rd (csz_ResizeFrameBufferMsg - 1) ;;
    let w := be_val (firstn 2 (skipn 1 hdr)) in
    let h := be_val (firstn 2 (skipn 3 hdr)) in
    resize w h ;;; send_fur 0 0 0 w h
  else if t =? cM_PalmVNCReSizeFrameBuffer then
    hdr <- rd (csz_PalmVNCReSizeFrameBufferMsg - 1) ;;
    let w := be_val (firstn 2 (skipn 5 hdr)) in
    let h := be_val (firstn 2 (skipn 7 hdr)) in
    resize w h ;;; send_fur 0 0 0 w h
  else (* unknown message type: the library reads 256 bytes and gives up *)
    rd 256 ;;; failM.

(* messages until the stream is exhausted; the per-message results are what the drivers print *)
Inductive step_res : Type :=
| StepOk (s : cst) (ts : list tok)
| StepFail | StepMore | StepDesync | StepOob (c : Z).

Definition step (s : cst) (ts : list tok) : step_res :=
  match handle_msg s ts with
  | Ok _ s' ts' => StepOk s' ts'
  | Fail => StepFail | More => StepMore | Desync _ _ => StepDesync | Oob c => StepOob c
  end.
