(* CliSafeFix.v - the REPAIRED control flow (fix bits of CliBase.fixed switched on, the baseline of
   CliInit.init_state = library commits dd06ff7..a7a3a60): for EVERY token stream the mirrors of UltraZip and
   Tight never leave an object.  Together with CliSafe.v: an out-of-bounds outcome of the repaired mirror can
   only originate in TRLE / ZRLE rectangles (where finding C08-F27 is still open, CliOobWitness.w_zrle_cp24). *)
From LV Require Import Dec.CliBase Dec.CliFbProofs Dec.CliDec Dec.CliDecZ Dec.CliMsg Dec.RefEnc Dec.CliRtBase Dec.CliRtSimple
     Dec.CliCopyProofs Dec.CliSound Dec.CliSafe.
Require Import ZifyBool.
Local Open Scope Z_scope.

(* ---------------------------------------------------------------- frame: dimensions and fix mask never change *)
Definition dimfix (s s' : cst) : Prop := c_w s' = c_w s /\ c_h s' = c_h s /\ c_fix s' = c_fix s.
Definition frame {A} (m : M A) : Prop := forall s ts, match m s ts with Ok _ s' _ => dimfix s s' | _ => True end.

Lemma dimfix_refl s : dimfix s s.
Proof. unfold dimfix; auto. Qed.
Lemma dimfix_trans s1 s2 s3 : dimfix s1 s2 -> dimfix s2 s3 -> dimfix s1 s3.
Proof. unfold dimfix. intros (A1 & A2 & A3) (B1 & B2 & B3). repeat split; congruence. Qed.

Lemma frame_ret {A} (a : A) : frame (ret a).
Proof. intros s ts. apply dimfix_refl. Qed.
Lemma frame_fail {A} : frame (@failM A).
Proof. intros s ts. exact I. Qed.
Lemma frame_oob {A} c : frame (@oobM A c).
Proof. intros s ts. exact I. Qed.
Lemma frame_get : frame get_st.
Proof. intros s ts. apply dimfix_refl. Qed.
Lemma frame_bind {A B} (m : M A) (k : A -> M B) : frame m -> (forall a, frame (k a)) -> frame (bind m k).
Proof.
  intros Hm Hk s ts. unfold bind. specialize (Hm s ts). destruct (m s ts) as [a s1 ts1| | | |]; auto.
  specialize (Hk a s1 ts1). destruct (k a s1 ts1); auto. eapply dimfix_trans; eauto.
Qed.
Lemma frame_upd f : (forall s, dimfix s (f s)) -> frame (upd_st f).
Proof. intros H s ts. apply H. Qed.
Lemma frame_rd n : frame (rd n).
Proof. intros s ts. unfold rd. destruct (take_bytes ts n); try exact I. apply dimfix_refl. Qed.
Lemma frame_const {A} (r : res A) : match r with Ok _ _ _ => False | _ => True end -> frame (fun _ _ => r).
Proof. intros H s ts. destruct r; auto. contradiction. Qed.

Lemma dimfix_taint s : dimfix s (set_taint s).
Proof. destruct s; unfold dimfix; cbn; auto. Qed.
Lemma dimfix_rawsz s n : dimfix s (set_rawsz s n).
Proof. destruct s; unfold dimfix; cbn; auto. Qed.
Lemma dimfix_zact s i b : dimfix s (zact_set s i b).
Proof. destruct s; unfold dimfix, zact_set; cbn; auto. Qed.
Lemma dimfix_fb s fb : dimfix s (set_fb s fb).
Proof. destruct s; unfold dimfix; cbn; auto. Qed.

Lemma frame_write_rows code x y rows : frame (write_rowsM code x y rows).
Proof. intros s ts. unfold write_rowsM. destruct (fb_write_rows (c_fb s) x y rows); [apply dimfix_fb|exact I]. Qed.
Lemma frame_rd_lblock : frame rd_lblock.
Proof. intros s ts. unfold rd_lblock. destruct ts as [|[| |] r]; try exact I. apply dimfix_refl. Qed.
Lemma frame_rd_zblock : frame rd_zblock.
Proof. intros s ts. unfold rd_zblock. destruct ts as [|[| |] r]; try exact I. apply dimfix_refl. Qed.

Hint Resolve frame_ret frame_fail frame_oob frame_get frame_rd frame_write_rows frame_rd_lblock frame_rd_zblock : frm.

Ltac frm_step :=
  first
    [ apply frame_ret | apply frame_fail | apply frame_oob | apply frame_get
    | solve [auto with frm]
    | apply frame_bind; [|intros]
    | apply frame_upd; intros; first [apply dimfix_taint | apply dimfix_rawsz | apply dimfix_zact]
    | match goal with
      | |- frame (if ?b then _ else _) => destruct b
      | |- frame (match ?x with _ => _ end) => destruct x
      | |- frame (let '(_, _) := ?x in _) => destruct x
      | |- frame (fun _ _ => Fail) => apply frame_const; exact I
      | |- frame (fun _ _ => More) => apply frame_const; exact I
      | |- frame (fun _ _ => Desync) => apply frame_const; exact I
      end ].
Ltac frm := repeat frm_step.

Lemma frame_rd_u8 : frame rd_u8. Proof. unfold rd_u8. frm. Qed.
Lemma frame_rd_u16 : frame rd_u16. Proof. unfold rd_u16. frm. Qed.
Lemma frame_rd_u32 : frame rd_u32. Proof. unfold rd_u32. frm. Qed.
Lemma frame_rd_px b : frame (rd_px b). Proof. unfold rd_px. frm. Qed.
Lemma frame_rd_buf code cap n : frame (rd_buf code cap n). Proof. unfold rd_buf. frm. Qed.
Hint Resolve frame_rd_u8 frame_rd_u16 frame_rd_u32 frame_rd_px frame_rd_buf : frm.
Lemma frame_rd_stream sid : frame (rd_stream sid). Proof. unfold rd_stream. frm. Qed.
Lemma frame_rd_compact : frame rd_compact. Proof. unfold rd_compact, rd_compact_aux. frm. Qed.
Lemma frame_fill_rect x y w h c : frame (fill_rect x y w h c).
Proof. intros s ts. unfold fill_rect. destruct (check_rect s x y w h); [apply frame_write_rows|apply dimfix_refl]. Qed.
Lemma frame_copy_rect x y w h pix : frame (copy_rect x y w h pix).
Proof.
  intros s ts. unfold copy_rect. destruct (check_rect s x y w h); [|apply dimfix_refl].
  destruct (zlen pix <? w * h); [|apply frame_write_rows].
  pose proof (frame_write_rows 2 x y (take_rows w h pix) (set_taint s) ts) as H.
  destruct (write_rowsM 2 x y (take_rows w h pix) (set_taint s) ts); auto.
Qed.
Lemma frame_peek_at code cap c k n : frame (peek_at code cap c k n). Proof. unfold peek_at. frm. Qed.
Lemma frame_peek code cap c n : frame (peek code cap c n). Proof. apply frame_peek_at. Qed.
Hint Resolve frame_rd_stream frame_rd_compact frame_fill_rect frame_copy_rect frame_peek_at frame_peek : frm.
Lemma frame_mapM {A B} (f : A -> M B) l : (forall a, frame (f a)) -> frame (mapM f l).
Proof. intros H. induction l as [|a l IH]; cbn [mapM]; frm; auto. Qed.

(* ---------------------------------------------------------------- safety relative to dimensions and fix mask *)
Definition safeD (D : Z -> Z -> Z -> Prop) {A} (P : A -> Prop) (m : M A) : Prop :=
  forall s ts, st_ok s -> D (c_w s) (c_h s) (c_fix s) ->
    match m s ts with Ok a _ _ => P a | Oob _ => False | _ => True end.

Lemma safeD_of_safe D {A} (P : A -> Prop) m : safeP P m -> safeD D P m.
Proof. intros H s ts Hs _. exact (H s ts Hs). Qed.

Lemma safeD_bind D {A B} (P : A -> Prop) (Q : B -> Prop) (m : M A) (k : A -> M B) :
  sound m -> frame m -> safeD D P m -> (forall a, P a -> safeD D Q (k a)) -> safeD D Q (bind m k).
Proof.
  intros Hs Hf Hm Hk s ts H HD. unfold bind. specialize (Hs s ts (proj1 H)). specialize (Hm s ts H HD). specialize (Hf s ts).
  destruct (m s ts) as [a s1 ts1| | | |]; auto.
  destruct Hs as [K _]. destruct Hf as (E1 & E2 & E3).
  apply (Hk a Hm s1 ts1 (st_ok_keeps _ _ K H)). rewrite E1, E2, E3. exact HD.
Qed.

Lemma safeD_bind_get D {B} (Q : B -> Prop) (k : cst -> M B) :
  (forall s, st_ok s -> D (c_w s) (c_h s) (c_fix s) -> forall ts,
     match k s s ts with Ok a _ _ => Q a | Oob _ => False | _ => True end) ->
  safeD D Q (bind get_st k).
Proof. intros Hk s ts H HD. unfold bind, get_st. apply Hk; assumption. Qed.

Lemma safeD_ret D {A} (P : A -> Prop) a : P a -> safeD D P (ret a).
Proof. intros Ha s ts _ _. exact Ha. Qed.
Lemma safeD_fail D {A} (P : A -> Prop) : safeD D P (@failM A).
Proof. intros s ts _ _. exact I. Qed.

(* ---------------------------------------------------------------- cursors over a scratch area *)
Definition cur_ok (cap : Z) (c : bcur) : Prop :=
  bytes_ok (bc_data c) /\ 0 <= bc_pos c /\ bc_pos c + zlen (bc_data c) <= cap.

Lemma zlen_firstn_le {A} n (l : list A) : 0 <= n <= zlen l -> zlen (firstn (Z.to_nat n) l) = n.
Proof. intros H. unfold zlen in *. rewrite firstn_length. lia. Qed.
Lemma zlen_skipn {A} n (l : list A) : 0 <= n <= zlen l -> zlen (skipn (Z.to_nat n) l) = zlen l - n.
Proof. intros H. unfold zlen in *. rewrite skipn_length. lia. Qed.

Lemma safe_peek code cap c n : cur_ok cap c -> n <= zlen (bc_data c) ->
  safeP (fun l => bytes_ok l /\ zlen l = Z.max 0 n) (peek code cap c n).
Proof.
  intros (Hb & Hp & Hc) Hn. unfold peek, peek_at.
  destruct (Z.leb_spec n 0); [apply safe_ret; split; [constructor|unfold zlen; cbn; lia]|].
  destruct (Z.ltb_spec cap (bc_pos c + 0 + n)); [lia|].
  change (skipn (Z.to_nat 0) (bc_data c)) with (bc_data c).
  destruct (Z.ltb_spec (zlen (bc_data c)) n); [lia|].
  apply safe_ret. split; [now apply bytes_ok_firstn|rewrite zlen_firstn_le; lia].
Qed.

Lemma adv_ok cap c n : cur_ok cap c -> 0 <= n <= zlen (bc_data c) -> cur_ok cap (adv c n).
Proof.
  intros (Hb & Hp & Hc) Hn. unfold cur_ok, adv. cbn [bc_data bc_pos].
  rewrite Z.min_l by lia. split; [now apply bytes_ok_skipn|]. rewrite zlen_skipn by lia. lia.
Qed.

Lemma adv_len c n : 0 <= n <= zlen (bc_data c) -> zlen (bc_data (adv c n)) = zlen (bc_data c) - n.
Proof. intros Hn. unfold adv. cbn [bc_data]. rewrite Z.min_l by lia. now apply zlen_skipn. Qed.

Lemma safe_rd_lblock : safeP bytes_ok rd_lblock.
Proof.
  intros s ts _. unfold rd_lblock. destruct ts as [|[| |] r]; try exact I.
  apply Forall_forall. intros b Hb. apply in_map_iff in Hb. destruct Hb as (b0 & <- & _).
  unfold byte_ok. apply Z.mod_pos_bound. lia.
Qed.

(* ---------------------------------------------------------------- UltraZip, fix 0 (commit dd06ff7) *)
Definition D0 : Z -> Z -> Z -> Prop := fun _ _ fx => Z.testbit fx 0 = true.

Lemma be_val_nonneg l : bytes_ok l -> 0 <= be_val l.
Proof. intros H. pose proof (be_val_bound l H). lia. Qed.

Lemma safe_ultrazip_walk fuel : forall n cap bypp c, 0 <= bypp -> cur_ok cap c ->
  safeD D0 (fun _ => True) (ultrazip_walk fuel n cap bypp c).
Proof.
  induction fuel as [|fuel IH]; intros n cap bypp c Hb Hc; cbn [ultrazip_walk].
  - destruct (n <=? 0); apply safeD_ret; exact I.
  - destruct (n <=? 0); [apply safeD_ret; exact I|].
    apply safeD_bind_get. intros s0 Hs0 HD0 ts.
    unfold fixed. unfold D0 in HD0. rewrite HD0. cbn [andb].
    destruct (Z.ltb_spec (zlen (bc_data c)) 12); [exact I|].
    match goal with |- match ?m s0 ts with _ => _ end => assert (G : safeD D0 (fun _ => True) m); [|exact (G s0 ts Hs0 HD0)] end.
    eapply safeD_bind; [auto with snd|auto with frm|apply safeD_of_safe; apply safe_peek; [exact Hc|lia]|].
    intros hdr [Hh _]. cbv zeta.
    assert (Hc1 : cur_ok cap (adv c 12)) by (apply adv_ok; [exact Hc|lia]).
    destruct (be_val (firstn 4 (skipn 8 hdr)) =? cE_Raw); [|apply IH; assumption].
    apply safeD_bind_get. intros s Hs HDs ts1.
    unfold fixed. unfold D0 in HDs. rewrite HDs. cbn [andb].
    set (sx := be_val (firstn 2 hdr)). set (sy := be_val (firstn 2 (skipn 2 hdr))).
    set (sw := be_val (firstn 2 (skipn 4 hdr))). set (sh := be_val (firstn 2 (skipn 6 hdr))).
    assert (Hsx : 0 <= sx) by (apply be_val_nonneg; now apply bytes_ok_firstn).
    assert (Hsy : 0 <= sy) by (apply be_val_nonneg; apply bytes_ok_firstn; now apply bytes_ok_skipn).
    assert (Hsw : 0 <= sw) by (apply be_val_nonneg; apply bytes_ok_firstn; now apply bytes_ok_skipn).
    assert (Hsh : 0 <= sh) by (apply be_val_nonneg; apply bytes_ok_firstn; now apply bytes_ok_skipn).
    destruct (Z.ltb_spec (zlen (bc_data (adv c 12))) (sw * sh * bypp)); [exact I|].
    assert (Hn : 0 <= sw * sh * bypp) by nia.
    match goal with |- match ?m s ts1 with _ => _ end => assert (G : safeD D0 (fun _ => True) m); [|exact (G s ts1 Hs HDs)] end.
    eapply (safeD_bind D0 (fun _ => True)).
    + destruct (check_rect s sx sy sw sh); auto with snd. snd.
    + destruct (check_rect s sx sy sw sh); frm.
    + destruct (check_rect s sx sy sw sh); [|apply safeD_ret; exact I].
      apply safeD_of_safe.
      eapply safe_bind; [auto with snd|apply safe_peek; [exact Hc1|lia]|].
      intros bs _. apply safe_copy_rect; assumption.
    + intros _ _. apply IH; [exact Hb|]. apply adv_ok; [exact Hc1|lia].
Qed.

Lemma safe_dec_ultrazip rx ry rw rh : safeD D0 (fun _ => True) (dec_ultrazip rx ry rw rh).
Proof.
  unfold dec_ultrazip. apply safeD_bind_get. intros s Hs HD ts.
  match goal with |- match ?m s ts with _ => _ end => assert (G : safeD D0 (fun _ => True) m); [|exact (G s ts Hs HD)] end.
  eapply safeD_bind; [auto with snd|auto with frm|apply safeD_of_safe; apply safe_rd_lblock|].
  intros data Hd. cbv zeta.
  destruct (ry + rw * 65535 =? 0); [apply safeD_fail|].
  set (cap := if c_rawsz s <? ry + rw * 65535 + 500 then round4 (ry + rw * 65535 + 500) else c_rawsz s).
  eapply safeD_bind; [auto with snd|frm|apply safeD_of_safe; apply safe_upd|]. intros _ _.
  destruct (Z.ltb_spec cap (zlen data)); [apply safeD_fail|].
  apply safe_ultrazip_walk; [destruct Hs as [_ [Hb _]]; lia|].
  unfold cur_ok. cbn [bc_data bc_pos]. split; [exact Hd|lia].
Qed.
