(* CliSafeFix.v - the REPAIRED control flow (fix bits of CliBase.fixed switched on, the baseline of
   CliInit.init_state = library commits dd06ff7..a7a3a60): for EVERY token stream the mirrors of UltraZip and
   Tight never leave an object.  Together with CliSafe.v: an out-of-bounds outcome of the repaired mirror can
   only originate in TRLE / ZRLE rectangles; those are closed in CliSafeZ.v (no_oob_repaired). *)
From LV Require Import Dec.CliBase Dec.CliFbProofs Dec.CliDec Dec.CliDecZ Dec.CliMsg Dec.RefEnc Dec.CliRtBase Dec.CliRtSimple
     Dec.CliCopyProofs Dec.CliSound Dec.CliSafe.
Require Import ZifyBool.
Local Open Scope Z_scope.

(* ---------------------------------------------------------------- frame: dimensions and fix mask never change *)
Definition dimfix (s s' : cst) : Prop := c_w s' = c_w s /\ c_h s' = c_h s /\ c_fix s' = c_fix s.
Definition frame {A} (m : M A) : Prop := forall s ts, match m s ts with Ok _ s' _ => dimfix s s' | _ => True end.

Lemma dimfix_refl s : dimfix s s.
Proof. unfold dimfix; auto. Qed.
Lemma dimfix_trans s1 s2 s3 : dimfix s1 s2 -> dimfix s2 s3 -> dimfix s1 s3.
Proof. unfold dimfix. intros (A1 & A2 & A3) (B1 & B2 & B3). repeat split; congruence. Qed.

Lemma frame_ret {A} (a : A) : frame (ret a).
Proof. intros s ts. apply dimfix_refl. Qed.
Lemma frame_fail {A} : frame (@failM A).
Proof. intros s ts. exact I. Qed.
Lemma frame_oob {A} c : frame (@oobM A c).
Proof. intros s ts. exact I. Qed.
Lemma frame_get : frame get_st.
Proof. intros s ts. apply dimfix_refl. Qed.
Lemma frame_bind {A B} (m : M A) (k : A -> M B) : frame m -> (forall a, frame (k a)) -> frame (bind m k).
Proof.
  intros Hm Hk s ts. unfold bind. specialize (Hm s ts). destruct (m s ts) as [a s1 ts1| | | |]; auto.
  specialize (Hk a s1 ts1). destruct (k a s1 ts1); auto. eapply dimfix_trans; eauto.
Qed.
Lemma frame_upd f : (forall s, dimfix s (f s)) -> frame (upd_st f).
Proof. intros H s ts. apply H. Qed.
Lemma frame_rd n : frame (rd n).
Proof. intros s ts. unfold rd. destruct (take_bytes ts n); try exact I. apply dimfix_refl. Qed.
Lemma frame_desyncM {A} c : frame (@desyncM A c).
Proof. intros s ts. exact I. Qed.
Lemma frame_const {A} (r : res A) : match r with Ok _ _ _ => False | _ => True end -> frame (fun _ _ => r).
Proof. intros H s ts. destruct r; auto. contradiction. Qed.

Lemma dimfix_taint s : dimfix s (set_taint s).
Proof. destruct s; unfold dimfix; cbn; auto. Qed.
Lemma dimfix_rawsz s n : dimfix s (set_rawsz s n).
Proof. destruct s; unfold dimfix; cbn; auto. Qed.
Lemma dimfix_zact s i b : dimfix s (zact_set s i b).
Proof. destruct s; unfold dimfix, zact_set; cbn; auto. Qed.
Lemma dimfix_fb s fb : dimfix s (set_fb s fb).
Proof. destruct s; unfold dimfix; cbn; auto. Qed.

Lemma frame_write_rows code x y rows : frame (write_rowsM code x y rows).
Proof. intros s ts. unfold write_rowsM. destruct (fb_write_rows (c_fb s) x y rows); [apply dimfix_fb|exact I]. Qed.
Lemma frame_rd_lblock : frame rd_lblock.
Proof. intros s ts. unfold rd_lblock. destruct ts as [|[| |] r]; try exact I. apply dimfix_refl. Qed.
Lemma frame_rd_zblock : frame rd_zblock.
Proof. intros s ts. unfold rd_zblock. destruct ts as [|[| |] r]; try exact I. apply dimfix_refl. Qed.

Hint Resolve frame_ret frame_fail frame_oob frame_get frame_rd frame_write_rows frame_rd_lblock frame_rd_zblock : frm.

Ltac frm_step :=
  first
    [ apply frame_ret | apply frame_fail | apply frame_oob | apply frame_get
    | solve [auto with frm]
    | apply frame_bind; [|intros]
    | apply frame_upd; intros; first [apply dimfix_taint | apply dimfix_rawsz | apply dimfix_zact]
    | match goal with
      | |- frame (if ?b then _ else _) => destruct b
      | |- frame (match ?x with _ => _ end) => destruct x
      | |- frame (let '(_, _) := ?x in _) => destruct x
      | |- frame (fun _ _ => Fail) => apply frame_const; exact I
      | |- frame (fun _ _ => More) => apply frame_const; exact I
      | |- frame (desyncM _) => apply frame_desyncM
      end ].
Ltac frm := repeat frm_step.

Lemma frame_rd_u8 : frame rd_u8. Proof. unfold rd_u8. frm. Qed.
Lemma frame_rd_u16 : frame rd_u16. Proof. unfold rd_u16. frm. Qed.
Lemma frame_rd_u32 : frame rd_u32. Proof. unfold rd_u32. frm. Qed.
Lemma frame_rd_px b : frame (rd_px b). Proof. unfold rd_px. frm. Qed.
Lemma frame_rd_buf code cap n : frame (rd_buf code cap n). Proof. unfold rd_buf. frm. Qed.
Hint Resolve frame_rd_u8 frame_rd_u16 frame_rd_u32 frame_rd_px frame_rd_buf : frm.
Lemma frame_rd_stream sid : frame (rd_stream sid). Proof. unfold rd_stream. frm. Qed.
Lemma frame_rd_compact : frame rd_compact. Proof. unfold rd_compact, rd_compact_aux. frm. Qed.
Lemma frame_fill_rect x y w h c : frame (fill_rect x y w h c).
Proof. intros s ts. unfold fill_rect. destruct (check_rect s x y w h); [apply frame_write_rows|apply dimfix_refl]. Qed.
Lemma frame_copy_rect x y w h pix : frame (copy_rect x y w h pix).
Proof.
  intros s ts. unfold copy_rect. destruct (check_rect s x y w h); [|apply dimfix_refl].
  destruct (zlen pix <? w * h); [|apply frame_write_rows].
  pose proof (frame_write_rows 2 x y (take_rows w h pix) (set_taint s) ts) as H.
  destruct (write_rowsM 2 x y (take_rows w h pix) (set_taint s) ts); auto.
Qed.
Lemma frame_peek_at code cap c k n : frame (peek_at code cap c k n). Proof. unfold peek_at. frm. Qed.
Lemma frame_peek code cap c n : frame (peek code cap c n). Proof. apply frame_peek_at. Qed.
Hint Resolve frame_rd_stream frame_rd_compact frame_fill_rect frame_copy_rect frame_peek_at frame_peek : frm.
Lemma frame_mapM {A B} (f : A -> M B) l : (forall a, frame (f a)) -> frame (mapM f l).
Proof. intros H. induction l as [|a l IH]; cbn [mapM]; frm; auto. Qed.

(* ---------------------------------------------------------------- safety relative to dimensions and fix mask *)
Definition safeD (D : Z -> Z -> Z -> Prop) {A} (P : A -> Prop) (m : M A) : Prop :=
  forall s ts, st_ok s -> D (c_w s) (c_h s) (c_fix s) ->
    match m s ts with Ok a _ _ => P a | Oob _ => False | _ => True end.

Lemma safeD_of_safe (D : Z -> Z -> Z -> Prop) {A} (P : A -> Prop) m : safeP P m -> safeD D P m.
Proof. intros H s ts Hs _. exact (H s ts Hs). Qed.

Lemma safeD_bind (D : Z -> Z -> Z -> Prop) {A B} (P : A -> Prop) (Q : B -> Prop) (m : M A) (k : A -> M B) :
  sound m -> frame m -> safeD D P m -> (forall a, P a -> safeD D Q (k a)) -> safeD D Q (bind m k).
Proof.
  intros Hs Hf Hm Hk s ts H HD. unfold bind. specialize (Hs s ts (proj1 H)). specialize (Hm s ts H HD). specialize (Hf s ts).
  destruct (m s ts) as [a s1 ts1| | | |]; auto.
  destruct Hs as [K _]. destruct Hf as (E1 & E2 & E3).
  apply (Hk a Hm s1 ts1 (st_ok_keeps _ _ K H)). rewrite E1, E2, E3. exact HD.
Qed.

Lemma safeD_bind_get (D : Z -> Z -> Z -> Prop) {B} (Q : B -> Prop) (k : cst -> M B) :
  (forall s, st_ok s -> D (c_w s) (c_h s) (c_fix s) -> forall ts,
     match k s s ts with Ok a _ _ => Q a | Oob _ => False | _ => True end) ->
  safeD D Q (bind get_st k).
Proof. intros Hk s ts H HD. unfold bind, get_st. apply Hk; assumption. Qed.

Lemma safeD_ret (D : Z -> Z -> Z -> Prop) {A} (P : A -> Prop) a : P a -> safeD D P (ret a).
Proof. intros Ha s ts _ _. exact Ha. Qed.
Lemma safeD_fail (D : Z -> Z -> Z -> Prop) {A} (P : A -> Prop) : safeD D P (@failM A).
Proof. intros s ts _ _. exact I. Qed.

(* ---------------------------------------------------------------- cursors over a scratch area *)
Definition cur_ok (cap : Z) (c : bcur) : Prop :=
  bytes_ok (bc_data c) /\ 0 <= bc_pos c /\ bc_pos c + zlen (bc_data c) <= cap.

Lemma zlen_firstn_le {A} n (l : list A) : 0 <= n <= zlen l -> zlen (firstn (Z.to_nat n) l) = n.
Proof. intros H. unfold zlen in *. rewrite firstn_length. lia. Qed.
Lemma zlen_skipn {A} n (l : list A) : 0 <= n <= zlen l -> zlen (skipn (Z.to_nat n) l) = zlen l - n.
Proof. intros H. unfold zlen in *. rewrite skipn_length. lia. Qed.

Lemma safe_peek code cap c n : cur_ok cap c -> n <= zlen (bc_data c) ->
  safeP (fun l => bytes_ok l /\ zlen l = Z.max 0 n) (peek code cap c n).
Proof.
  intros (Hb & Hp & Hc) Hn. unfold peek, peek_at.
  destruct (Z.leb_spec n 0); [apply safe_ret; split; [constructor|unfold zlen; cbn; lia]|].
  destruct (Z.ltb_spec cap (bc_pos c + 0 + n)); [lia|].
  change (skipn (Z.to_nat 0) (bc_data c)) with (bc_data c).
  destruct (Z.ltb_spec (zlen (bc_data c)) n); [lia|].
  apply safe_ret. split; [now apply bytes_ok_firstn|rewrite zlen_firstn_le; lia].
Qed.

Lemma adv_ok cap c n : cur_ok cap c -> 0 <= n <= zlen (bc_data c) -> cur_ok cap (adv c n).
Proof.
  intros (Hb & Hp & Hc) Hn. unfold cur_ok, adv. cbn [bc_data bc_pos].
  rewrite Z.min_l by lia. split; [now apply bytes_ok_skipn|]. rewrite zlen_skipn by lia. lia.
Qed.

Lemma adv_len c n : 0 <= n <= zlen (bc_data c) -> zlen (bc_data (adv c n)) = zlen (bc_data c) - n.
Proof. intros Hn. unfold adv. cbn [bc_data]. rewrite Z.min_l by lia. now apply zlen_skipn. Qed.

Lemma safe_rd_lblock : safeP bytes_ok rd_lblock.
Proof.
  intros s ts _. unfold rd_lblock. destruct ts as [|[| |] r]; try exact I.
  apply Forall_forall. intros b Hb. apply in_map_iff in Hb. destruct Hb as (b0 & <- & _).
  unfold byte_ok. apply Z.mod_pos_bound. lia.
Qed.

(* ---------------------------------------------------------------- UltraZip, fix 0 (commit dd06ff7) *)
Definition D0 : Z -> Z -> Z -> Prop := fun _ _ fx => Z.testbit fx 0 = true.

Lemma be_val_nonneg l : bytes_ok l -> 0 <= be_val l.
Proof. intros H. pose proof (be_val_bound l H). lia. Qed.

Lemma safe_ultrazip_walk fuel : forall n cap bypp c, 0 <= bypp -> cur_ok cap c ->
  safeD D0 (fun _ => True) (ultrazip_walk fuel n cap bypp c).
Proof.
  induction fuel as [|fuel IH]; intros n cap bypp c Hb Hc; cbn [ultrazip_walk].
  - destruct (n <=? 0); apply safeD_ret; exact I.
  - destruct (n <=? 0); [apply safeD_ret; exact I|].
    apply safeD_bind_get. intros s0 Hs0 HD0 ts.
    unfold fixed. unfold D0 in HD0. rewrite HD0. cbn [andb].
    destruct (Z.ltb_spec (zlen (bc_data c)) 12); [exact I|].
    match goal with |- match ?m s0 ts with _ => _ end => assert (G : safeD D0 (fun _ => True) m); [|exact (G s0 ts Hs0 HD0)] end.
    eapply safeD_bind; [auto with snd|auto with frm|apply safeD_of_safe; apply safe_peek; [exact Hc|lia]|].
    intros hdr [Hh _]. cbv zeta.
    assert (Hc1 : cur_ok cap (adv c 12)) by (apply adv_ok; [exact Hc|lia]).
    destruct (be_val (firstn 4 (skipn 8 hdr)) =? cE_Raw); [|apply IH; assumption].
    apply safeD_bind_get. intros s Hs HDs ts1.
    unfold fixed. unfold D0 in HDs. rewrite HDs. cbn [andb].
    set (sx := be_val (firstn 2 hdr)). set (sy := be_val (firstn 2 (skipn 2 hdr))).
    set (sw := be_val (firstn 2 (skipn 4 hdr))). set (sh := be_val (firstn 2 (skipn 6 hdr))).
    assert (Hsx : 0 <= sx) by (apply be_val_nonneg; now apply bytes_ok_firstn).
    assert (Hsy : 0 <= sy) by (apply be_val_nonneg; apply bytes_ok_firstn; now apply bytes_ok_skipn).
    assert (Hsw : 0 <= sw) by (apply be_val_nonneg; apply bytes_ok_firstn; now apply bytes_ok_skipn).
    assert (Hsh : 0 <= sh) by (apply be_val_nonneg; apply bytes_ok_firstn; now apply bytes_ok_skipn).
    destruct (Z.ltb_spec (zlen (bc_data (adv c 12))) (sw * sh * bypp)); [exact I|].
    assert (Hn : 0 <= sw * sh * bypp) by nia.
    match goal with |- match ?m s ts1 with _ => _ end => assert (G : safeD D0 (fun _ => True) m); [|exact (G s ts1 Hs HDs)] end.
    eapply (safeD_bind D0 (fun _ => True)).
    + destruct (check_rect s sx sy sw sh); auto with snd. snd.
    + destruct (check_rect s sx sy sw sh); frm.
    + destruct (check_rect s sx sy sw sh); [|apply safeD_ret; exact I].
      apply safeD_of_safe.
      eapply safe_bind; [auto with snd|apply safe_peek; [exact Hc1|lia]|].
      intros bs _. apply safe_copy_rect; assumption.
    + intros _ _. apply IH; [exact Hb|]. apply adv_ok; [exact Hc1|lia].
Qed.

Definition D09 : Z -> Z -> Z -> Prop := fun _ _ fx => Z.testbit fx 0 = true /\ Z.testbit fx 9 = true.

Lemma safeD_weaken0 (D D' : Z -> Z -> Z -> Prop) {A} (P : A -> Prop) m :
  (forall W H fx, D' W H fx -> D W H fx) -> safeD D P m -> safeD D' P m.
Proof. intros HD Hm s ts Hs H'. apply Hm; auto. Qed.

Lemma safe_dec_ultrazip rx ry rw rh : safeD D09 (fun _ => True) (dec_ultrazip rx ry rw rh).
Proof.
  unfold dec_ultrazip. apply safeD_bind_get. intros s Hs HD ts.
  match goal with |- match ?m s ts with _ => _ end => assert (G : safeD D09 (fun _ => True) m); [|exact (G s ts Hs HD)] end.
  eapply safeD_bind; [auto with snd|auto with frm|apply safeD_of_safe; apply safe_rd_lblock|].
  intros data Hd. cbv zeta.
  destruct (ry + rw * 65535 =? 0); [apply safeD_fail|].
  destruct (2 ^ 31 <=? ry + rw * 65535 + 504).
  { destruct HD as [_ F9]. unfold fixed. rewrite F9. apply safeD_fail. }
  set (cap := if c_rawsz s <? ry + rw * 65535 + 500 then round4 (ry + rw * 65535 + 500) else c_rawsz s).
  eapply safeD_bind; [auto with snd|frm|apply safeD_of_safe; apply safe_upd|]. intros _ _.
  destruct (Z.ltb_spec cap (zlen data)); [apply safeD_fail|].
  eapply safeD_weaken0; [|apply safe_ultrazip_walk; [destruct Hs as [_ [Hb _]]; lia|]].
  - intros W0 H0 fx [F0 _]. exact F0.
  - unfold cur_ok. cbn [bc_data bc_pos]. split; [exact Hd|lia].
Qed.

(* ---------------------------------------------------------------- rows that fit *)
Lemma safeD_weaken (D D' : Z -> Z -> Z -> Prop) {A} (P : A -> Prop) m :
  (forall W H fx, D' W H fx -> D W H fx) -> safeD D P m -> safeD D' P m.
Proof. intros HD Hm s ts Hs H'. apply Hm; auto. Qed.

Lemma write_rows_from_some W x : 0 <= x -> forall fb rows k,
  Forall (fun r => zlen r = W) fb -> Forall (fun r => x + zlen r <= W) rows -> (k + length rows <= length fb)%nat ->
  write_rows_from fb x k rows <> None.
Proof.
  intros Hx. induction fb as [|row fb IH]; intros rows k Hfb Hrows Hlen.
  - destruct rows; cbn [write_rows_from]; [discriminate|]. cbn [length] in Hlen. lia.
  - destruct rows as [|r rs]; [cbn [write_rows_from]; discriminate|].
    pose proof (Forall_inv Hfb) as Hrow. pose proof (Forall_inv_tail Hfb) as Hfb'. cbn beta in Hrow.
    destruct k as [|k]; cbn [write_rows_from].
    + unfold row_write. pose proof (Forall_inv Hrows) as Hr. cbn beta in Hr.
      destruct (Z.leb_spec 0 x); [|lia]. destruct (Z.leb_spec (x + zlen r) (zlen row)); [|lia]. cbn [andb].
      specialize (IH rs O Hfb' (Forall_inv_tail Hrows) ltac:(cbn [length] in *; lia)).
      destruct (write_rows_from fb x 0 rs); [discriminate|contradiction].
    + specialize (IH (r :: rs) k Hfb' Hrows ltac:(cbn [length] in *; lia)).
      destruct (write_rows_from fb x k (r :: rs)); [discriminate|contradiction].
Qed.

Lemma safe_write_rows code x y rows w h : 0 <= x -> 0 <= y -> Forall (fun r => zlen r <= w) rows -> zlen rows <= h ->
  safeD (fun W H _ => x + w <= W /\ y + h <= H) (fun _ => True) (write_rowsM code x y rows).
Proof.
  intros Hx Hy Hr Hn s ts [(Hw0 & Hh0 & Hl & Hfb) _] [D1 D2]. unfold write_rowsM, fb_write_rows.
  destruct rows as [|r rs] eqn:Er; [exact I|]. rewrite <- Er in *.
  destruct (Z.ltb_spec y 0); [lia|].
  pose proof (write_rows_from_some (c_w s) x Hx (c_fb s) rows (Z.to_nat y) Hfb) as G.
  destruct (write_rows_from (c_fb s) x (Z.to_nat y) rows); [exact I|]. apply G; [|unfold zlen in *; lia|reflexivity].
  eapply Forall_impl; [|exact Hr]. intros a Ha. cbn beta in *. lia.
Qed.

Lemma chunks_aux_count w : (1 <= w)%nat -> forall fuel l k, (length l <= k * w)%nat -> (length (chunks_aux fuel w l) <= k)%nat.
Proof.
  intros Hw. induction fuel as [|fuel IH]; intros l k Hk; cbn [chunks_aux]; [cbn; lia|].
  destruct l as [|a l']; [cbn; lia|]. cbn [length].
  destruct k as [|k]; [cbn [length] in Hk; lia|].
  specialize (IH (skipn w (a :: l')) k). rewrite skipn_length in IH. cbn [length] in *. lia.
Qed.
Lemma chunks_count n l k : 1 <= n -> 0 <= k -> zlen l <= k * n -> zlen (chunks n l) <= k.
Proof.
  intros Hn Hk Hl. unfold chunks. destruct (Z.leb_spec n 0); [lia|].
  pose proof (chunks_aux_count (Z.to_nat n) ltac:(lia) (length l) l (Z.to_nat k)) as G.
  unfold zlen in *. assert (length l <= Z.to_nat k * Z.to_nat n)%nat by nia. specialize (G H0). lia.
Qed.
Lemma chunks_aux_each w : forall fuel l, Forall (fun r => (length r <= w)%nat) (chunks_aux fuel w l).
Proof.
  induction fuel as [|fuel IH]; intros l; cbn [chunks_aux]; [constructor|].
  destruct l; [constructor|]. constructor; [apply firstn_le_length|apply IH].
Qed.
Lemma chunks_each n l : Forall (fun r => zlen r <= Z.max 0 n) (chunks n l).
Proof.
  unfold chunks. destruct (Z.leb_spec n 0); [constructor|].
  eapply Forall_impl; [|apply chunks_aux_each]. intros r Hr. cbn beta in *. unfold zlen. lia.
Qed.
Lemma Forall_firstn_keep {A} (P : A -> Prop) n l : Forall P l -> Forall P (firstn n l).
Proof. rewrite !Forall_forall. intros H x Hx. apply H. eapply in_firstn; eauto. Qed.

Lemma safe_mapM {A B} (P : B -> Prop) (f : A -> M B) l : (forall a, sound (f a)) -> (forall a, safeP P (f a)) ->
  safeP (fun r => Forall P r /\ length r = length l) (mapM f l).
Proof.
  intros Hs Hf. induction l as [|a l IH]; cbn [mapM].
  - apply safe_ret. split; [constructor|reflexivity].
  - eapply safe_bind; [apply Hs|apply Hf|]. intros b Hb.
    eapply safe_bind; [apply sound_mapM; exact Hs|exact IH|]. intros bs [H1 H2].
    apply safe_ret. split; [constructor; assumption|cbn [length]; lia].
Qed.

Lemma grad_row_len maxs cut : forall src prev left upleft first,
  length (grad_row maxs cut src prev left upleft first) = length src.
Proof.
  induction src as [|[[dr dg] db] src IH]; intros prev left upleft first; cbn [grad_row]; [reflexivity|].
  destruct prev as [|[[ur ug] ub] prev']; destruct maxs as [[mr mg] mb]; destruct left as [[lr lg] lb];
    destruct upleft as [[qr qg] qb]; cbn [length]; rewrite IH; reflexivity.
Qed.

Lemma grad_rows_shape f cut rw : forall rows prev, Forall (fun r => zlen r <= rw) rows ->
  Forall (fun r => zlen r <= rw) (fst (grad_rows f cut rows prev)) /\ length (fst (grad_rows f cut rows prev)) = length rows.
Proof.
  induction rows as [|r rows IH]; intros prev Hr; cbn [grad_rows]; [split; [constructor|reflexivity]|].
  pose proof (Forall_inv Hr) as H1. cbn beta in H1.
  match goal with |- context [grad_rows f cut rows ?d] => specialize (IH d (Forall_inv_tail Hr)); destruct (grad_rows f cut rows d) as [more last] end.
  cbn [fst] in *. destruct IH as [I1 I2]. split; [|cbn [length]; lia].
  constructor; [|exact I1]. unfold zlen in *. rewrite map_length, grad_row_len. exact H1.
Qed.

Lemma zlen_map {A B} (f : A -> B) l : zlen (map f l) = zlen l.
Proof. unfold zlen. now rewrite map_length. Qed.

Lemma safe_tight_rows code f flt (cut : bool) bypp rx y0 rw rh rowsize (rowsdata : list (list Z)) prev pb :
  0 <= rx -> 0 <= y0 -> 0 <= rw -> 0 <= rh -> 1 <= pb -> pb = (if cut then 3 else bypp) ->
  zlen rowsdata <= rh ->
  match flt with
  | TFPalette _ => True
  | TFCopy => Forall (fun rb => zlen rb <= rw * pb) rowsdata
  | TFGradient => Forall (fun rb => zlen rb <= rw * pb) rowsdata /\ rw <= cGradientRowMax
  end ->
  safeD (fun W H _ => rx + rw <= W /\ y0 + rh <= H) (fun _ => True)
        (tight_rows code f flt cut bypp rx y0 rw rowsize rowsdata prev).
Proof.
  intros Hx Hy Hw Hh Hpb Epb Hn Hflt. unfold tight_rows. destruct flt as [|pal|].
  - eapply safeD_bind; [auto with snd|auto with frm| |intros; apply safeD_ret; exact I].
    apply safe_write_rows; auto; [|rewrite zlen_map; exact Hn].
    apply Forall_forall. intros r Hr. apply in_map_iff in Hr. destruct Hr as (rb & <- & Hin).
    rewrite Forall_forall in Hflt. specialize (Hflt rb Hin). cbn beta in Hflt.
    destruct cut; [rewrite zlen_map|unfold px_of_bytes; rewrite zlen_map]; apply chunks_count; subst pb; lia.
  - eapply (safeD_bind _ (fun rows => Forall (fun r => zlen r <= rw) rows /\ length rows = length rowsdata)).
    + apply sound_mapM; intros; snd; try (apply sound_mapM; intros; snd).
    + apply frame_mapM; intros; frm; apply frame_mapM; intros; frm.
    + apply safeD_of_safe. apply safe_mapM.
      * intros; snd; try (apply sound_mapM; intros; snd).
      * intros rb. destruct (zlen pal =? 2).
        -- eapply safeP_weaken; [|apply (safe_mapM (fun _ => True))].
           ++ intros r [_ Hl]. cbn beta. unfold zlen. rewrite Hl. unfold packed_row, zseq. rewrite !map_length, seq_length. lia.
           ++ intros; snd.
           ++ intros; apply safe_ret; exact I.
        -- eapply safeP_weaken; [|apply (safe_mapM (fun _ => True))].
           ++ intros r [_ Hl]. cbn beta. unfold zlen. rewrite Hl, firstn_length. lia.
           ++ intros; snd.
           ++ intros i. destruct (nth_error pal (Z.to_nat i)); [apply safe_ret; exact I|].
              eapply safe_bind; [auto with snd|apply safe_upd|]. intros; apply safe_ret; exact I.
    + intros rows [R1 R2].
      eapply safeD_bind; [auto with snd|auto with frm| |intros; apply safeD_ret; exact I].
      apply safe_write_rows; auto. unfold zlen in *. lia.
  - destruct Hflt as [Hflt Hg]. destruct (Z.ltb_spec cGradientRowMax rw); [lia|].
    pose proof (grad_rows_shape f cut rw (map (grad_src f cut bypp) rowsdata) prev) as G.
    destruct (grad_rows f cut (map (grad_src f cut bypp) rowsdata) prev) as [rows last]. cbn [fst] in G.
    destruct G as [G1 G2].
    { apply Forall_forall. intros r Hr. apply in_map_iff in Hr. destruct Hr as (rb & <- & Hin).
      rewrite Forall_forall in Hflt. specialize (Hflt rb Hin). cbn beta in Hflt.
      unfold grad_src. destruct cut; rewrite zlen_map; apply chunks_count; subst pb; lia. }
    eapply safeD_bind; [auto with snd|auto with frm| |intros; apply safeD_ret; exact I].
    apply safe_write_rows; auto. rewrite map_length in G2. unfold zlen in *. lia.
Qed.

Lemma frame_tight_rows code f flt cut bypp rx y0 rw rowsize rowsdata prev :
  frame (tight_rows code f flt cut bypp rx y0 rw rowsize rowsdata prev).
Proof.
  unfold tight_rows. destruct flt; frm;
    try (apply frame_mapM; intros; frm; try (apply frame_mapM; intros; frm)).
Qed.
Hint Resolve frame_tight_rows : frm.

(* ---------------------------------------------------------------- Tight, fixes 1, 2, 3 (commits 0870444, 01fc326, 6de7bdd) *)
Definition DT (rx ry rw rh : Z) : Z -> Z -> Z -> Prop := fun W H fx =>
  Z.testbit fx 1 = true /\ Z.testbit fx 2 = true /\ Z.testbit fx 3 = true /\ Z.testbit fx 10 = true /\ rx + rw <= W /\ ry + rh <= H.

Lemma dimfix_fold_zact c0 s :
  dimfix s (fold_left (fun s i => if flag c0 (2 ^ i) then zact_set s (i + 1) false else s) [0; 1; 2; 3] s).
Proof.
  cbn [fold_left].
  repeat match goal with |- context [if ?b then _ else _] => destruct b end;
  repeat first [apply dimfix_refl | eapply dimfix_trans; [|apply dimfix_zact]].
Qed.

Lemma div8 a : (a * 8 + 7) / 8 = a.
Proof. symmetry. apply (Z.div_unique _ 8 a 7); lia. Qed.

Lemma is888_bpp f : is888 f = true -> f_bpp f = 32.
Proof. unfold is888. intros H. lia. Qed.

Lemma safeT_rd_u8 D : safeD D (fun _ => True) rd_u8.
Proof. apply safeD_of_safe. eapply safeP_weaken; [|apply safe_rd_u8]. auto. Qed.
Lemma safeT_rd D n : safeD D (fun _ => True) (rd n).
Proof. apply safeD_of_safe. eapply safeP_weaken; [|apply safe_rd]. auto. Qed.

Lemma firstn_rows_shape k n (l : list Z) rh : 0 <= rh -> k <= rh ->
  zlen (firstn (Z.to_nat k) (chunks n l)) <= rh /\ Forall (fun rb => zlen rb <= Z.max 0 n) (firstn (Z.to_nat k) (chunks n l)).
Proof.
  intros Hh Hk. split; [unfold zlen; rewrite firstn_length; lia|]. apply Forall_firstn_keep. apply chunks_each.
Qed.

Lemma safe_dec_tight rx ry rw rh : 0 <= rx -> 0 <= ry -> 0 <= rw -> 0 <= rh ->
  safeD (DT rx ry rw rh) (fun _ => True) (dec_tight rx ry rw rh).
Proof.
  intros Hx Hy Hw Hh. unfold dec_tight. apply safeD_bind_get. intros s Hs HD ts.
  destruct HD as (F1 & F2 & F3 & F10 & HW & HH). unfold fixed. rewrite F1, F2, F3, F10. cbn [negb]. rewrite Bool.andb_false_r.
  assert (HD : DT rx ry rw rh (c_w s) (c_h s) (c_fix s)) by (unfold DT; repeat split; assumption).
  destruct Hs as [Hwf [Hb1 Hb2]].
  set (f := c_fmt s) in *. set (bypp := bypp_of s) in *.
  set (bits0 := if is888 f then 24 else f_bpp f).
  set (pb := if is888 f then 3 else bypp).
  assert (Hpb : 1 <= pb) by (unfold pb; destruct (is888 f); lia).
  assert (Hrs : (rw * bits0 + 7) / 8 = rw * pb).
  { unfold bits0, pb. destruct (is888 f).
    - replace (rw * 24) with (rw * 3 * 8) by lia. apply div8.
    - rewrite Hb2. replace (rw * (8 * bypp)) with (rw * bypp * 8) by lia. apply div8. }
  assert (Hdim : forall W H fx, DT rx ry rw rh W H fx -> (fun W H (_ : Z) => rx + rw <= W /\ ry + rh <= H) W H fx).
  { intros W H fx (_ & _ & _ & _ & A & B). split; assumption. }
  match goal with |- match ?m s ts with _ => _ end =>
    assert (G : safeD (DT rx ry rw rh) (fun _ => True) m); [|exact (G s ts (conj Hwf (conj Hb1 Hb2)) HD)] end.
  eapply safeD_bind; [auto with snd|auto with frm|apply safeT_rd_u8|]. intros c0 _.
  eapply safeD_bind; [apply sound_upd; intros; now apply keeps_fold_zact|apply frame_upd; intros; apply dimfix_fold_zact
                     |apply safeD_of_safe; apply safe_upd|]. intros _ _.
  cbv zeta.
  set (nozlib := Z.land (c0 / 16) cTightNoZlib =? cTightNoZlib).
  match goal with |- context [if ?c =? cTightFill then _ else _] => set (cc := c) end.
  destruct (cc =? cTightFill).
  { destruct (is888 f).
    - eapply safeD_bind; [auto with snd|auto with frm|apply safeT_rd|]. intros b _.
      apply safeD_of_safe. apply safe_fill_rect; assumption.
    - eapply safeD_bind; [auto with snd|auto with frm|apply safeD_of_safe; apply safe_rd_px|]. intros p _.
      apply safeD_of_safe. apply safe_fill_rect; assumption. }
  destruct (cc =? cTightJpeg).
  { destruct (bypp =? 1); [apply safeD_fail|]. intros s' ts' _ _. exact I. }
  destruct (cTightMaxSubencoding <? cc); [apply safeD_fail|].
  eapply (safeD_bind _ (fun fl => match fl with
                                   | Some (TFGradient, b) => rw <= cGradientRowMax /\ b = bits0
                                   | Some (TFCopy, b) => b = bits0
                                   | _ => True
                                   end)).
  { snd. }
  { frm. }
  { destruct (flag cc cTightExplicitFilter); [|apply safeD_ret; reflexivity].
    eapply safeD_bind; [auto with snd|auto with frm|apply safeT_rd_u8|]. intros fid _.
    destruct (fid =? cTightFilterCopy); [apply safeD_ret; reflexivity|].
    destruct (fid =? cTightFilterPalette).
    { eapply safeD_bind; [auto with snd|auto with frm|apply safeT_rd_u8|]. intros nc _.
      destruct (nc + 1 <? 2); [apply safeD_ret; exact I|].
      destruct (is888 f).
      - eapply safeD_bind; [auto with snd|auto with frm|apply safeT_rd|]. intros b _. apply safeD_ret; exact I.
      - eapply safeD_bind; [auto with snd|auto with frm|apply safeT_rd|]. intros b _. apply safeD_ret; exact I. }
    destruct (fid =? cTightFilterGradient); cbn [andb]; [|apply safeD_fail].
    destruct (Z.ltb_spec cGradientRowMax rw); [apply safeD_ret; exact I|].
    eapply safeD_bind; [snd|frm| |].
    - assert (E : (csizeof_tightPrevRow <? (if is888 f then rw * 3 else rw * 6)) = false).
      { unfold csizeof_tightPrevRow, cGradientRowMax in *. destruct (is888 f); lia. }
      rewrite E. apply (safeD_ret _ (fun _ => True)). exact I.
    - intros _ _. apply safeD_ret. split; [assumption|reflexivity]. }
  intros fl Hfl. destruct fl as [[flt bitspixel]|]; [|apply safeD_fail].
  (* the row geometry: for the copy and gradient filters a row holds rw groups of pb bytes *)
  set (rowsize := (rw * bitspixel + 7) / 8).
  assert (Hshape : forall k (l : list Z), k <= rh ->
            zlen (firstn (Z.to_nat k) (chunks rowsize l)) <= rh /\
            match flt with
            | TFPalette _ => True
            | TFCopy => Forall (fun rb => zlen rb <= rw * pb) (firstn (Z.to_nat k) (chunks rowsize l))
            | TFGradient => Forall (fun rb => zlen rb <= rw * pb) (firstn (Z.to_nat k) (chunks rowsize l)) /\ rw <= cGradientRowMax
            end).
  { intros k l Hk. destruct (firstn_rows_shape k rowsize l rh Hh Hk) as [S1 S2]. split; [exact S1|].
    destruct flt as [|pal|]; [|exact I|].
    - assert (Er : rowsize = rw * pb) by (unfold rowsize; rewrite Hfl; exact Hrs).
      eapply Forall_impl; [|exact S2]. intros a Ha. cbn beta in *. rewrite Er in Ha. nia.
    - destruct Hfl as [Hg Hfl]. assert (Er : rowsize = rw * pb) by (unfold rowsize; rewrite Hfl; exact Hrs).
      split; [|exact Hg].
      eapply Forall_impl; [|exact S2]. intros a Ha. cbn beta in *. rewrite Er in Ha. nia. }
  assert (Hrows : forall code l k prev, k <= rh ->
            safeD (DT rx ry rw rh) (fun _ => True)
                  (tight_rows code f flt (is888 f) bypp rx ry rw rowsize (firstn (Z.to_nat k) (chunks rowsize l)) prev)).
  { intros code l k prev Hk. destruct (Hshape k l Hk) as [S1 S2].
    eapply safeD_weaken; [exact Hdim|].
    eapply (safe_tight_rows code f flt (is888 f) bypp rx ry rw rh rowsize _ prev pb); auto. }
  destruct (Z.ltb_spec (rh * rowsize) cTIGHT_MIN_TO_COMPRESS).
  { eapply safeD_bind; [auto with snd|auto with frm|apply safeD_of_safe; apply safe_rd_buf; unfold cTIGHT_MIN_TO_COMPRESS, cRFB_BUFFER_SIZE in *; lia|].
    intros b _.
    eapply (safeD_bind _ (fun _ => True)); [destruct flt; auto with snd|destruct flt; frm|destruct flt; apply safeD_ret; exact I|]. intros _ _.
    eapply safeD_bind; [auto with snd|auto with frm|apply Hrows; lia|]. intros; apply safeD_ret; exact I. }
  destruct nozlib.
  { eapply safeD_bind; [auto with snd|frm|apply safeD_of_safe; apply clean_safe; unfold rd_compact, rd_compact_aux; cln|].
    intros len _.
    destruct (len <=? 0); [apply safeD_fail|].
    destruct (Z.ltb_spec cRFB_BUFFER_SIZE len); [apply safeD_fail|].
    destruct (Z.eqb_spec len (rh * rowsize)); cbn [negb andb]; [|apply safeD_fail].
    eapply safeD_bind; [auto with snd|auto with frm|apply safeT_rd|]. intros b _.
    eapply safeD_bind; [snd|frm| |].
    { destruct (Z.ltb_spec cRFB_BUFFER_SIZE (rh * rowsize)); [lia|]. apply (safeD_ret _ (fun _ => True)). exact I. }
    intros _ _.
    eapply (safeD_bind _ (fun _ => True)); [destruct (len <? rh * rowsize); auto with snd|destruct (len <? rh * rowsize); frm| |].
    { destruct (len <? rh * rowsize); [apply safeD_of_safe; apply safe_upd|apply safeD_ret; exact I]. }
    intros _ _.
    eapply safeD_bind; [auto with snd|auto with frm|apply Hrows; lia|]. intros; apply safeD_ret; exact I. }
  eapply safeD_bind; [auto with snd|auto with frm|apply safeD_of_safe; apply safe_rd_stream|]. intros [ok data] _.
  match goal with |- context [if ?b <? rowsize then _ else _] => destruct (b <? rowsize); [apply safeD_fail|] end.
  destruct (negb ok); [apply safeD_fail|].
  destruct (Z.ltb_spec rh (zlen data / rowsize)); cbn [andb]; [apply safeD_fail|].
  eapply safeD_bind; [auto with snd|auto with frm|apply Hrows; lia|]. intros _ _.
  destruct (zlen data / rowsize =? rh); [apply safeD_ret; exact I|apply safeD_fail].
Qed.

(* ---------------------------------------------------------------- the rectangle dispatcher of the repaired flow *)
Definition DF : Z -> Z -> Z -> Prop := fun _ _ fx =>
  Z.testbit fx 0 = true /\ Z.testbit fx 1 = true /\ Z.testbit fx 2 = true /\ Z.testbit fx 3 = true /\ Z.testbit fx 9 = true /\ Z.testbit fx 10 = true.
Definition fixed0123 (s : cst) : Prop := DF (c_w s) (c_h s) (c_fix s).

(* the encodings whose repaired decoders are not covered by THIS file: TRLE, ZRLE (see CliSafeZ.v) *)
Definition weak_encs_fixed : list Z := [cE_TRLE; cE_ZRLE; cE_ZYWRLE].

Lemma safeD_then_clean (D : Z -> Z -> Z -> Prop) {A B} (m : M A) (k : A -> M B) :
  safeD D (fun _ => True) m -> (forall a, clean (k a)) -> safeD D (fun _ => True) (bind m k).
Proof.
  intros Hm Hk s ts Hs HD. unfold bind. specialize (Hm s ts Hs HD). destruct (m s ts) as [a s1 ts1| | | |]; auto.
  specialize (Hk a s1 ts1). destruct (k a s1 ts1); auto.
Qed.

Theorem rect_body_safe_fixed x y w h enc :
  0 <= x -> 0 <= y -> 0 <= w -> 0 <= h -> ~ In enc weak_encs_fixed -> safeD DF (fun _ => True) (rect_body x y w h enc).
Proof.
  intros Hx Hy Hw Hh Hnot. unfold rect_body.
  destruct (enc =? cE_LastRect); [apply safeD_of_safe; apply clean_safe; cln|].
  destruct ((enc =? cE_XCursor) || (enc =? cE_RichCursor)).
  { apply safeD_of_safe. eapply safe_bind; [auto with snd|apply safe_dec_cursor|]. intros; apply safe_ret; exact I. }
  destruct (enc =? cE_PointerPos); [apply safeD_of_safe; apply clean_safe; cln|].
  destruct (enc =? cE_KeyboardLedState); [apply safeD_of_safe; apply clean_safe; cln|].
  destruct (enc =? cE_NewFBSize); [apply safeD_of_safe; apply clean_safe; cln|].
  destruct (enc =? cE_ExtDesktopSize); [apply safeD_of_safe; apply clean_safe; cln|].
  destruct (enc =? cE_SupportedMessages); [apply safeD_of_safe; apply clean_safe; cln|].
  destruct (enc =? cE_SupportedEncodings); [apply safeD_of_safe; apply clean_safe; cln|].
  destruct (enc =? cE_ServerIdentity); [apply safeD_of_safe; apply clean_safe; cln|].
  apply safeD_bind_get. intros s Hs HD ts. revert ts.
  destruct (negb (enc =? cE_UltraZip) && ((c_w s <? x + w) || (c_h s <? y + h))) eqn:Echk; [intros; exact I|].
  intros ts.
  set (D' := fun W H fx => DF W H fx /\ W = c_w s /\ H = c_h s).
  match goal with |- match ?m s ts with _ => _ end =>
    assert (G : safeD D' (fun _ => True) m); [|exact (G s ts Hs (conj HD (conj eq_refl eq_refl)))] end.
  assert (Hweak : forall e, In e weak_encs_fixed -> (enc =? e) = false).
  { intros e He. destruct (Z.eqb_spec enc e); [subst; contradiction|reflexivity]. }
  pose proof (Hweak cE_TRLE ltac:(cbn; auto)) as W2.
  pose proof (Hweak cE_ZRLE ltac:(cbn; auto)) as W3. pose proof (Hweak cE_ZYWRLE ltac:(cbn; auto 6)) as W4.
  apply safeD_then_clean; [|intros; cln].
  cbv zeta. rewrite W2, W3, W4. cbn [orb].
  set (ok := (f_bpp (c_fmt s) =? 8) || (f_bpp (c_fmt s) =? 16) || (f_bpp (c_fmt s) =? 32)).
  destruct (enc =? cE_Raw); [apply safeD_of_safe; apply safe_dec_raw; assumption|].
  destruct (enc =? cE_CopyRect); [apply safeD_of_safe; apply safe_dec_copyrect; assumption|].
  destruct (enc =? cE_RRE); [destruct ok; apply safeD_of_safe; [apply safe_dec_rre; assumption|apply safe_ret; exact I]|].
  destruct (enc =? cE_CoRRE); [destruct ok; apply safeD_of_safe; [apply safe_dec_corre; assumption|apply safe_ret; exact I]|].
  destruct (enc =? cE_Hextile); [destruct ok; apply safeD_of_safe; [apply safe_dec_hextile; assumption|apply safe_ret; exact I]|].
  destruct (enc =? cE_Ultra); [destruct ok; apply safeD_of_safe; [apply safe_dec_ultra; assumption|apply safe_ret; exact I]|].
  destruct (Z.eqb_spec enc cE_UltraZip).
  { destruct ok; [|apply safeD_ret; exact I].
    eapply safeD_weaken; [|apply safe_dec_ultrazip]. intros W H fx [(F0 & _ & _ & _ & F9 & _) _]. split; assumption. }
  destruct (enc =? cE_Zlib); [destruct ok; apply safeD_of_safe; [apply safe_dec_zlib; assumption|apply safe_ret; exact I]|].
  destruct (Z.eqb_spec enc cE_Tight).
  { destruct ok; [|apply safeD_ret; exact I].
    eapply safeD_weaken; [|apply safe_dec_tight; assumption].
    intros W H fx [(_ & F1 & F2 & F3 & _ & F10) [-> ->]]. unfold DT. repeat split; auto.
    - destruct (Z.eqb_spec enc cE_UltraZip); [contradiction|]. cbn [negb andb] in Echk. lia.
    - destruct (Z.eqb_spec enc cE_UltraZip); [contradiction|]. cbn [negb andb] in Echk. lia. }
  destruct (enc =? cE_QemuExtendedKeyEvent); [apply safeD_ret; exact I|apply safeD_fail].
Qed.

(* ---------------------------------------------------------------- message level, repaired flow *)
Definition oob_origin_fixed (c : Z) : Prop :=
  exists s x y w h enc ts, st_ok s /\ fixed0123 s /\ 0 <= x /\ 0 <= y /\ 0 <= w /\ 0 <= h /\ In enc weak_encs_fixed /\
                           rect_body x y w h enc s ts = Oob c.

Lemma fixed0123_keeps s s' : keeps s s' -> fixed0123 s -> fixed0123 s'.
Proof. intros (_ & _ & E) H. unfold fixed0123, DF in *. now rewrite E. Qed.

Lemma in_weak_fixed_dec enc : {In enc weak_encs_fixed} + {~ In enc weak_encs_fixed}.
Proof. apply in_dec. apply Z.eq_dec. Qed.

Lemma do_rect_oob_fixed s ts c : st_ok s -> fixed0123 s -> do_rect s ts = Oob c -> oob_origin_fixed c.
Proof.
  intros Hs Hf E. rewrite do_rect_eq in E. unfold bind in E.
  pose proof (sound_rd_u16 s ts (proj1 Hs)) as S1. pose proof (safe_rd_u16 s ts Hs) as V1. pose proof (clean_rd_u16 s ts) as C1.
  destruct (rd_u16 s ts) as [x s1 ts1| | | |]; try discriminate; [|contradiction].
  assert (Hs1 : st_ok s1) by (eapply st_ok_keeps; [apply S1|exact Hs]).
  assert (Hf1 : fixed0123 s1) by (eapply fixed0123_keeps; [apply S1|exact Hf]).
  pose proof (sound_rd_u16 s1 ts1 (proj1 Hs1)) as S2. pose proof (safe_rd_u16 s1 ts1 Hs1) as V2. pose proof (clean_rd_u16 s1 ts1) as C2.
  destruct (rd_u16 s1 ts1) as [y s2 ts2| | | |]; try discriminate; [|contradiction].
  assert (Hs2 : st_ok s2) by (eapply st_ok_keeps; [apply S2|exact Hs1]).
  assert (Hf2 : fixed0123 s2) by (eapply fixed0123_keeps; [apply S2|exact Hf1]).
  pose proof (sound_rd_u16 s2 ts2 (proj1 Hs2)) as S3. pose proof (safe_rd_u16 s2 ts2 Hs2) as V3. pose proof (clean_rd_u16 s2 ts2) as C3.
  destruct (rd_u16 s2 ts2) as [w s3 ts3| | | |]; try discriminate; [|contradiction].
  assert (Hs3 : st_ok s3) by (eapply st_ok_keeps; [apply S3|exact Hs2]).
  assert (Hf3 : fixed0123 s3) by (eapply fixed0123_keeps; [apply S3|exact Hf2]).
  pose proof (sound_rd_u16 s3 ts3 (proj1 Hs3)) as S4. pose proof (safe_rd_u16 s3 ts3 Hs3) as V4. pose proof (clean_rd_u16 s3 ts3) as C4.
  destruct (rd_u16 s3 ts3) as [h s4 ts4| | | |]; try discriminate; [|contradiction].
  assert (Hs4 : st_ok s4) by (eapply st_ok_keeps; [apply S4|exact Hs3]).
  assert (Hf4 : fixed0123 s4) by (eapply fixed0123_keeps; [apply S4|exact Hf3]).
  pose proof (sound_rd_u32 s4 ts4 (proj1 Hs4)) as S5. pose proof (clean_rd_u32 s4 ts4) as C5.
  destruct (rd_u32 s4 ts4) as [enc s5 ts5| | | |]; try discriminate; [|contradiction].
  assert (Hs5 : st_ok s5) by (eapply st_ok_keeps; [apply S5|exact Hs4]).
  assert (Hf5 : fixed0123 s5) by (eapply fixed0123_keeps; [apply S5|exact Hf4]).
  cbn beta iota in V1, V2, V3, V4.
  destruct (in_weak_fixed_dec enc) as [Hin|Hnot].
  - exists s5, x, y, w, h, enc, ts5. split; [exact Hs5|]. split; [exact Hf5|]. repeat split; try lia; assumption.
  - pose proof (rect_body_safe_fixed x y w h enc ltac:(lia) ltac:(lia) ltac:(lia) ltac:(lia) Hnot s5 ts5 Hs5 Hf5) as Hsafe.
    rewrite E in Hsafe. contradiction.
Qed.

Lemma rect_loop_oob_fixed n : forall s ts c, st_ok s -> fixed0123 s -> rect_loop n s ts = Oob c -> oob_origin_fixed c.
Proof.
  induction n as [|n IH]; intros s ts c Hs Hf E; cbn [rect_loop] in E; [discriminate|].
  unfold bind in E. pose proof (sound_do_rect s ts (proj1 Hs)) as S1.
  destruct (do_rect s ts) as [b s1 ts1| | | |] eqn:E1; try discriminate.
  - destruct b; [discriminate|].
    apply (IH s1 ts1 c); [eapply st_ok_keeps; [apply S1|exact Hs]|eapply fixed0123_keeps; [apply S1|exact Hf]|exact E].
  - inversion E; subst. eapply do_rect_oob_fixed; eauto.
Qed.

Theorem no_oob_fixed s ts c : st_ok s -> fixed0123 s -> handle_msg s ts = Oob c -> oob_origin_fixed c.
Proof.
  intros Hs Hf E. rewrite handle_msg_eq in E. unfold bind in E.
  pose proof (sound_rd_u8 s ts (proj1 Hs)) as S1. pose proof (clean_rd_u8 s ts) as C1.
  destruct (rd_u8 s ts) as [t s1 ts1| | | |]; try discriminate; [|contradiction].
  assert (Hs1 : st_ok s1) by (eapply st_ok_keeps; [apply S1|exact Hs]).
  assert (Hf1 : fixed0123 s1) by (eapply fixed0123_keeps; [apply S1|exact Hf]).
  unfold handle_body in E.
  destruct (t =? cM_SetColourMapEntries); [discriminate|].
  destruct (t =? cM_FramebufferUpdate).
  { unfold bind in E.
    match type of E with context [rd ?n s1 ts1] =>
      pose proof (sound_rd n s1 ts1 (proj1 Hs1)) as S2; pose proof (clean_rd n s1 ts1) as C2;
      destruct (rd n s1 ts1) as [hdr s2 ts2| | | |]; try discriminate; [|contradiction] end.
    assert (Hs2 : st_ok s2) by (eapply st_ok_keeps; [apply S2|exact Hs1]).
    assert (Hf2 : fixed0123 s2) by (eapply fixed0123_keeps; [apply S2|exact Hf1]).
    match type of E with context [rect_loop ?n s2 ts2] =>
      destruct (rect_loop n s2 ts2) as [u s3 ts3| | | |] eqn:E3; try discriminate end.
    - pose proof (clean_send_incr s3 ts3) as C4. destruct (send_incr s3 ts3) as [u4 s4 ts4| | | |]; try discriminate; try contradiction.
      all: try (pose proof (clean_log EvFinished s4 ts4) as C5; rewrite E in C5; contradiction).
    - inversion E; subst. eapply rect_loop_oob_fixed; eauto. }
  match type of E with ?m s1 ts1 = _ => assert (Cm : clean m) end.
  { cln. }
  specialize (Cm s1 ts1). rewrite E in Cm. contradiction.
Qed.
