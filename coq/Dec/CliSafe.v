(* CliSafe.v - for EVERY token stream the mirror of Raw, CopyRect, RRE, CoRRE, Hextile, Zlib, Ultra, the
   cursor / resize pseudo-encodings and the rectangle dispatcher never leaves an object: the checks
   present in the C code ("Rect too large", CheckRect in every framebuffer primitive, the CoRRE
   sub-rectangle bound, the tile geometry of Hextile, the linesToRead computation of Raw) suffice. *)
From LV Require Import Dec.CliBase Dec.CliFbProofs Dec.CliDec Dec.CliDecZ Dec.CliMsg Dec.RefEnc Dec.CliRtBase Dec.CliRtSimple
     Dec.CliCopyProofs Dec.CliSound.
Require Import ZifyBool.
Local Open Scope Z_scope.

Definition bypp_pos (s : cst) : Prop := 1 <= bypp_of s <= 4 /\ f_bpp (c_fmt s) = 8 * bypp_of s.
Definition st_ok (s : cst) : Prop := st_wf s /\ bypp_pos s.

Lemma bypp_pos_keeps s s' : keeps s s' -> bypp_pos s -> bypp_pos s'.
Proof. intros (_ & E & _) H. unfold bypp_pos, bypp_of in *. now rewrite E. Qed.

(* no out-of-bounds outcome, and a postcondition on the value *)
Definition safeP {A} (P : A -> Prop) (m : M A) : Prop :=
  forall s ts, st_ok s -> match m s ts with Ok a _ _ => P a | Oob _ => False | _ => True end.
Definition safe {A} (m : M A) : Prop := safeP (fun _ => True) m.

Lemma safeP_weaken {A} (P Q : A -> Prop) m : (forall a, P a -> Q a) -> safeP P m -> safeP Q m.
Proof. intros HPQ Hm s ts H. specialize (Hm s ts H). destruct (m s ts); auto. Qed.

Lemma safe_ret {A} (P : A -> Prop) a : P a -> safeP P (ret a).
Proof. intros Ha s ts H. exact Ha. Qed.
Lemma safe_fail {A} (P : A -> Prop) : safeP P (@failM A).
Proof. intros s ts H. exact I. Qed.
Lemma safe_get : safeP (fun s => True) get_st.
Proof. intros s ts H. exact I. Qed.
Lemma safe_upd f : safe (upd_st f).
Proof. intros s ts H. exact I. Qed.

Lemma safe_bind {A B} (P : A -> Prop) (Q : B -> Prop) (m : M A) (k : A -> M B) :
  sound m -> safeP P m -> (forall a, P a -> safeP Q (k a)) -> safeP Q (bind m k).
Proof.
  intros Hs Hm Hk s ts H. unfold bind. specialize (Hs s ts (proj1 H)). specialize (Hm s ts H).
  destruct (m s ts) as [a s1 ts1| | | |]; auto.
  destruct Hs as [K _]. exact (Hk a Hm s1 ts1 (conj (proj1 K) (bypp_pos_keeps _ _ K (proj2 H)))).
Qed.

(* state-dependent continuation: get_st followed by k *)
Lemma safe_bind_get {B} (Q : B -> Prop) (k : cst -> M B) :
  (forall s, st_ok s -> forall ts, match k s s ts with Ok a _ _ => Q a | Oob _ => False | _ => True end) ->
  safeP Q (bind get_st k).
Proof. intros Hk s ts H. unfold bind, get_st. apply Hk. exact H. Qed.

(* ---------------------------------------------------------------- readers *)
Definition bytes_ok (l : list Z) : Prop := Forall byte_ok l.

Lemma take_bytes_ok ts : forall n l r, take_bytes ts n = TkOk l r -> bytes_ok l /\ zlen l = Z.max 0 n.
Proof.
  induction ts as [|t ts IH]; intros n l r; cbn [take_bytes].
  - destruct (Z.leb_spec n 0); [|discriminate]. intros Hq; inversion Hq; subst. split; [constructor|unfold zlen; cbn; lia].
  - destruct (Z.leb_spec n 0); [intros Hq; inversion Hq; subst; split; [constructor|unfold zlen; cbn; lia]|].
    destruct t; try discriminate.
    destruct (take_bytes ts (n - 1)) as [l' r'| |] eqn:E; try discriminate.
    intros Hq; inversion Hq; subst. destruct (IH _ _ _ E) as [I1 I2]. split.
    + constructor; [unfold byte_ok; apply Z.mod_pos_bound; lia|exact I1].
    + rewrite zlen_cons, I2. lia.
Qed.

Lemma safe_rd n : safeP (fun l => bytes_ok l /\ zlen l = Z.max 0 n) (rd n).
Proof.
  intros s ts H. unfold rd. destruct (take_bytes ts n) as [l r| |] eqn:E; auto. eapply take_bytes_ok; eauto.
Qed.

Lemma be_val_bound l : bytes_ok l -> 0 <= be_val l < 256 ^ zlen l.
Proof.
  unfold be_val. intros Hl.
  assert (G : forall acc k, 0 <= acc < 256 ^ k -> 0 <= k ->
              0 <= fold_left (fun a b => a * 256 + b) l acc < 256 ^ (k + zlen l)).
  { induction Hl as [|b l Hb Hl IH]; intros acc k Ha Hk; cbn [fold_left].
    - unfold zlen; cbn. now rewrite Z.add_0_r.
    - rewrite zlen_cons. replace (k + (1 + zlen l)) with ((k + 1) + zlen l) by lia.
      apply IH; [|lia]. rewrite Z.pow_add_r by lia. unfold byte_ok in Hb. nia. }
  specialize (G 0 0). cbn in G. apply G; lia.
Qed.

Lemma le_val_nonneg l : bytes_ok l -> 0 <= le_val l.
Proof. induction 1 as [|b l Hb Hl IH]; cbn [le_val]; [lia|]. unfold byte_ok in Hb. lia. Qed.

Lemma safe_rd_u8 : safeP (fun a => 0 <= a < 256) rd_u8.
Proof.
  unfold rd_u8. eapply safe_bind; [auto with snd|apply safe_rd|].
  intros l [Hl Hn]. apply safe_ret. pose proof (be_val_bound l Hl). rewrite Hn in H. cbn in H. lia.
Qed.
Lemma safe_rd_u16 : safeP (fun a => 0 <= a < 65536) rd_u16.
Proof.
  unfold rd_u16. eapply safe_bind; [auto with snd|apply safe_rd|].
  intros l [Hl Hn]. apply safe_ret. pose proof (be_val_bound l Hl). rewrite Hn in H. cbn in H. lia.
Qed.
Lemma safe_rd_u32 : safeP (fun a => 0 <= a) rd_u32.
Proof.
  unfold rd_u32. eapply safe_bind; [auto with snd|apply safe_rd|].
  intros l [Hl Hn]. apply safe_ret. pose proof (be_val_bound l Hl). lia.
Qed.
Lemma safe_rd_px b : safeP (fun a => 0 <= a) (rd_px b).
Proof.
  unfold rd_px. eapply safe_bind; [auto with snd|apply safe_rd|].
  intros l [Hl Hn]. apply safe_ret. now apply le_val_nonneg.
Qed.
Lemma safe_rd_buf code cap n : n <= cap -> safeP (fun l => bytes_ok l /\ zlen l = Z.max 0 n) (rd_buf code cap n).
Proof. intros H. unfold rd_buf. destruct (Z.ltb_spec cap n); [lia|]. apply safe_rd. Qed.

(* ---------------------------------------------------------------- framebuffer primitives *)
Lemma safe_fill_rect x y w h c : 0 <= x -> 0 <= y -> 0 <= w -> 0 <= h -> safe (fill_rect x y w h c).
Proof.
  intros Hx Hy Hw Hh s ts [H _]. unfold fill_rect, check_rect.
  destruct ((x + w <=? c_w s) && (y + h <=? c_h s)) eqn:E; [|exact I].
  pose proof (fill_rect_spec s x y w h c ts H Hx Hy Hw Hh ltac:(lia) ltac:(lia)) as Hf.
  unfold fill_rect, check_rect in Hf. rewrite E in Hf. rewrite Hf. exact I.
Qed.

(* rows taken for GotBitmap: at most h rows of exactly w pixels *)
Lemma chunks_aux_full w : forall fuel l k, (1 <= w)%nat -> (k * w <= length l)%nat -> (length l <= fuel)%nat ->
  Forall (fun r => length r = w) (firstn k (chunks_aux fuel w l)).
Proof.
  induction fuel as [|fuel IH]; intros l k Hw Hk Hf.
  - destruct k; [constructor|]. cbn in Hk. destruct l; cbn in *; lia.
  - destruct k; [constructor|]. cbn [chunks_aux]. destruct l as [|a l']; [cbn in Hk; lia|].
    cbn [firstn]. constructor.
    + rewrite firstn_length. cbn in Hk. cbn [length] in *. lia.
    + apply IH; [exact Hw| |].
      * rewrite skipn_length. cbn in Hk. cbn [length] in *. lia.
      * rewrite skipn_length. cbn [length] in *. lia.
Qed.

Lemma take_rows_shape w h pix : 0 <= w -> 0 <= h ->
  Forall (fun r => zlen r = w) (take_rows w h pix) /\ zlen (take_rows w h pix) <= h.
Proof.
  intros Hw Hh. unfold take_rows. split.
  - unfold chunks. destruct (Z.leb_spec w 0).
    + rewrite firstn_nil. constructor.
    + set (l := pix ++ repeat 0 (Z.to_nat (w * h) - length pix)).
      assert (Hl : (Z.to_nat h * Z.to_nat w <= length l)%nat).
      { unfold l. rewrite app_length, repeat_length. nia. }
      pose proof (chunks_aux_full (Z.to_nat w) (length l) l (Z.to_nat h) ltac:(lia) Hl ltac:(lia)) as Hc.
      eapply Forall_impl; [|exact Hc]. intros r Hr. cbn beta in Hr. unfold zlen. lia.
  - unfold zlen. rewrite firstn_length. lia.
Qed.

Lemma safe_copy_rect x y w h pix : 0 <= x -> 0 <= y -> 0 <= w -> 0 <= h -> safe (copy_rect x y w h pix).
Proof.
  intros Hx Hy Hw Hh s ts [H _]. unfold copy_rect, check_rect.
  destruct ((x + w <=? c_w s) && (y + h <=? c_h s)) eqn:E; [|exact I].
  destruct (take_rows_shape w h pix Hw Hh) as [S1 S2].
  assert (Hwr : forall s0, c_w s0 = c_w s -> c_h s0 = c_h s -> c_fb s0 = c_fb s ->
                match write_rowsM 2 x y (take_rows w h pix) s0 ts with Ok _ _ _ => True | Oob _ => False | _ => True end).
  { intros s0 E1 E2 E3. unfold write_rowsM. rewrite E3.
    destruct H as (Hw0 & Hh0 & Hfb).
    rewrite (fb_write_rows_spec (c_w s) (c_h s) (c_fb s) x y w (take_rows w h pix) Hfb Hx Hy ltac:(lia) ltac:(lia) S1).
    exact I. }
  destruct (zlen pix <? w * h); apply Hwr; reflexivity.
Qed.

Lemma safe_copy_from_rect sx sy w h dx dy :
  0 <= sx -> 0 <= sy -> 0 <= dx -> 0 <= dy -> 0 <= w -> 0 <= h -> safe (copy_from_rect sx sy w h dx dy).
Proof.
  intros Hsx Hsy Hdx Hdy Hw Hh s ts [H _].
  destruct (check_rect s sx sy w h) eqn:E1; [|unfold copy_from_rect; rewrite E1; exact I].
  destruct (check_rect s dx dy w h) eqn:E2; [|unfold copy_from_rect; rewrite E1, E2; exact I].
  unfold check_rect in E1, E2.
  rewrite (copyrect_memmove s sx sy w h dx dy ts H) by lia. exact I.
Qed.

(* ---------------------------------------------------------------- Raw *)
Lemma safe_raw_loop fuel : forall x y w h bpl lines bypp,
  0 <= x -> 0 <= y -> 0 <= w -> 0 <= bpl -> 0 <= lines -> bpl * lines <= cRFB_BUFFER_SIZE ->
  safe (raw_loop fuel x y w h bpl lines bypp).
Proof.
  induction fuel as [|fuel IH]; intros x y w h bpl lines bypp Hx Hy Hw Hb Hl Hc; cbn [raw_loop].
  - apply safe_ret; exact I.
  - destruct (Z.eqb_spec lines 0); cbn [orb]; [apply safe_ret; exact I|].
    destruct (Z.leb_spec h 0); [apply safe_ret; exact I|].
    eapply safe_bind; [auto with snd|apply safe_rd_buf; nia|].
    intros bs _. eapply safe_bind; [auto with snd|apply safe_copy_rect; lia|].
    intros _ _. apply IH; try lia; nia.
Qed.

Lemma safe_dec_raw x y w h : 0 <= x -> 0 <= y -> 0 <= w -> safe (dec_raw x y w h).
Proof.
  intros Hx Hy Hw. unfold dec_raw. apply safe_bind_get. intros s [Hs [Hb1 Hb2]] ts.
  rewrite Hb2.
  assert (Hdiv : w * (8 * bypp_of s) / 8 = w * bypp_of s) by (replace (w * (8 * bypp_of s)) with (w * bypp_of s * 8) by lia; apply Z.div_mul; lia).
  rewrite Hdiv.
  destruct (Z.eqb_spec (w * bypp_of s) 0).
  - destruct (Z.to_nat h); cbn [raw_loop]; [exact I|]. cbn. exact I.
  - assert (Hpos : 0 < w * bypp_of s) by nia.
    apply (safe_raw_loop (Z.to_nat h) x y w h (w * bypp_of s) (cRFB_BUFFER_SIZE / (w * bypp_of s)) (bypp_of s)); auto; try lia.
    + apply Z.div_pos; unfold cRFB_BUFFER_SIZE; lia.
    + apply Z.mul_div_le. lia.
    + split; [exact Hs|split; assumption].
Qed.

(* ---------------------------------------------------------------- CopyRect, RRE *)
Lemma safe_dec_copyrect x y w h : 0 <= x -> 0 <= y -> 0 <= w -> 0 <= h -> safe (dec_copyrect x y w h).
Proof.
  intros Hx Hy Hw Hh. unfold dec_copyrect.
  eapply safe_bind; [auto with snd|apply safe_rd_u16|]. intros sx Hsx.
  eapply safe_bind; [auto with snd|apply safe_rd_u16|]. intros sy Hsy.
  apply safe_copy_from_rect; cbn beta in *; lia.
Qed.

Lemma safe_rre_loop fuel : forall n rx ry bypp, 0 <= rx -> 0 <= ry -> safe (rre_loop fuel n rx ry bypp).
Proof.
  induction fuel as [|fuel IH]; intros n rx ry bypp Hx Hy; cbn [rre_loop].
  - destruct (n <=? 0); [apply safe_ret; exact I|intros s ts H; exact I].
  - destruct (n <=? 0); [apply safe_ret; exact I|].
    eapply safe_bind; [auto with snd|apply safe_rd_px|]. intros pix Hp.
    eapply safe_bind; [auto with snd|apply safe_rd_u16|]. intros sx Hsx.
    eapply safe_bind; [auto with snd|apply safe_rd_u16|]. intros sy Hsy.
    eapply safe_bind; [auto with snd|apply safe_rd_u16|]. intros sw Hsw.
    eapply safe_bind; [auto with snd|apply safe_rd_u16|]. intros sh Hsh.
    eapply safe_bind; [auto with snd|apply safe_fill_rect; cbn beta in *; lia|]. intros _ _.
    apply IH; assumption.
Qed.

Lemma safe_dec_rre x y w h : 0 <= x -> 0 <= y -> 0 <= w -> 0 <= h -> safe (dec_rre x y w h).
Proof.
  intros Hx Hy Hw Hh. unfold dec_rre. apply safe_bind_get. intros s Hs ts. revert ts.
  change (forall ts, match bind rd_u32 (fun n => bind (rd_px (bypp_of s)) (fun pix => bind (fill_rect x y w h pix)
            (fun _ s' ts0 => rre_loop (S (length ts0)) n x y (bypp_of s) s' ts0))) s ts with Ok _ _ _ => True | Oob _ => False | _ => True end).
  intros ts. revert s Hs ts.
  assert (G : forall b, safe (bind rd_u32 (fun n => bind (rd_px b) (fun pix => bind (fill_rect x y w h pix)
            (fun _ s' ts0 => rre_loop (S (length ts0)) n x y b s' ts0))))).
  { intros b. eapply safe_bind; [auto with snd|apply safe_rd_u32|]. intros n Hn.
    eapply safe_bind; [auto with snd|apply safe_rd_px|]. intros pix Hp.
    eapply safe_bind; [auto with snd|apply safe_fill_rect; cbn beta in *; lia|]. intros _ _.
    intros s ts H. apply (safe_rre_loop (S (length ts)) n x y b Hx Hy s ts H). }
  intros s Hs ts. exact (G (bypp_of s) s ts Hs).
Qed.

(* ---------------------------------------------------------------- CoRRE *)
Lemma nthz_nonneg l i : bytes_ok l -> 0 <= nthz l i.
Proof.
  intros H. unfold nthz. destruct (nth_in_or_default i l 0) as [Hin|Hd]; [|rewrite Hd; lia].
  unfold bytes_ok in H. rewrite Forall_forall in H. specialize (H _ Hin). unfold byte_ok in H. lia.
Qed.
Lemma nthz_byte l i : bytes_ok l -> 0 <= nthz l i < 256.
Proof.
  intros H. unfold nthz. destruct (nth_in_or_default i l 0) as [Hin|Hd]; [|rewrite Hd; lia].
  unfold bytes_ok in H. rewrite Forall_forall in H. specialize (H _ Hin). unfold byte_ok in H. lia.
Qed.
Lemma bytes_ok_firstn n l : bytes_ok l -> bytes_ok (firstn n l).
Proof. unfold bytes_ok. rewrite !Forall_forall. intros H x Hx. apply H. eapply in_firstn; eauto. Qed.
Lemma bytes_ok_skipn n l : bytes_ok l -> bytes_ok (skipn n l).
Proof. unfold bytes_ok. rewrite !Forall_forall. intros H x Hx. apply H. eapply in_skipn; eauto. Qed.

Lemma chunks_aux_ok fuel : forall w l, bytes_ok l -> Forall bytes_ok (chunks_aux fuel w l).
Proof.
  induction fuel as [|fuel IH]; intros w l Hl; cbn [chunks_aux]; [constructor|].
  destruct l; [constructor|]. constructor; [now apply bytes_ok_firstn|apply IH; now apply bytes_ok_skipn].
Qed.
Lemma chunks_ok w l : bytes_ok l -> Forall bytes_ok (chunks w l).
Proof. intros H. unfold chunks. destruct (w <=? 0); [constructor|now apply chunks_aux_ok]. Qed.

Lemma safe_corre_subs rx ry bypp recs : 0 <= rx -> 0 <= ry -> Forall bytes_ok recs -> safe (corre_subs rx ry bypp recs).
Proof.
  intros Hx Hy. induction 1 as [|r recs Hr Hrs IH]; cbn [corre_subs]; [apply safe_ret; exact I|].
  pose proof (bytes_ok_skipn (Z.to_nat bypp) r Hr) as Hg.
  eapply safe_bind; [auto with snd| |intros _ _; exact IH].
  apply safe_fill_rect.
  - pose proof (nthz_nonneg _ 0 Hg). lia.
  - pose proof (nthz_nonneg _ 1 Hg). lia.
  - apply nthz_nonneg; exact Hg.
  - apply nthz_nonneg; exact Hg.
Qed.

Lemma safe_dec_corre x y w h : 0 <= x -> 0 <= y -> 0 <= w -> 0 <= h -> safe (dec_corre x y w h).
Proof.
  intros Hx Hy Hw Hh. unfold dec_corre. apply safe_bind_get. intros s [Hs [Hb1 Hb2]] ts. revert ts.
  assert (G : safe (bind rd_u32 (fun n => bind (rd_px (bypp_of s)) (fun pix => bind (fill_rect x y w h pix)
            (fun _ => if cCoRREBound_num / (4 + bypp_of s) <? n then failM else
                      bind (rd_buf 11 cRFB_BUFFER_SIZE (n * (4 + bypp_of s)))
                           (fun bs => corre_subs x y (bypp_of s) (chunks (4 + bypp_of s) bs))))))).
  { eapply safe_bind; [auto with snd|apply safe_rd_u32|]. intros n Hn.
    eapply safe_bind; [auto with snd|apply safe_rd_px|]. intros pix Hp.
    eapply safe_bind; [auto with snd|apply safe_fill_rect; cbn beta in *; lia|]. intros _ _.
    destruct (Z.ltb_spec (cCoRREBound_num / (4 + bypp_of s)) n); [apply safe_fail|].
    eapply safe_bind; [auto with snd| |].
    - apply safe_rd_buf. pose proof (Z.mul_div_le cCoRREBound_num (4 + bypp_of s) ltac:(lia)).
      unfold cCoRREBound_num, cRFB_BUFFER_SIZE in *. nia.
    - intros bs [Hbs _]. apply safe_corre_subs; auto. now apply chunks_ok. }
  intros ts. exact (G s ts (conj Hs (conj Hb1 Hb2))).
Qed.

(* ---------------------------------------------------------------- Hextile *)
Lemma safe_hextile_coloured x y bypp recs : 0 <= x -> 0 <= y -> Forall bytes_ok recs ->
  forall fg, safe (hextile_coloured x y bypp recs fg).
Proof.
  intros Hx Hy. induction 1 as [|r recs Hr Hrs IH]; intros fg; cbn [hextile_coloured]; [apply safe_ret; exact I|].
  pose proof (bytes_ok_skipn (Z.to_nat bypp) r Hr) as Hg.
  pose proof (nthz_byte _ 0 Hg) as H0. pose proof (nthz_byte _ 1 Hg) as H1.
  eapply safe_bind; [auto with snd| |intros _ _; apply IH].
  apply safe_fill_rect.
  - pose proof (Z.div_pos (nthz (skipn (Z.to_nat bypp) r) 0) 16 ltac:(lia) ltac:(lia)). lia.
  - pose proof (Z.mod_pos_bound (nthz (skipn (Z.to_nat bypp) r) 0) 16 ltac:(lia)). lia.
  - pose proof (Z.div_pos (nthz (skipn (Z.to_nat bypp) r) 1) 16 ltac:(lia) ltac:(lia)). lia.
  - pose proof (Z.mod_pos_bound (nthz (skipn (Z.to_nat bypp) r) 1) 16 ltac:(lia)). lia.
Qed.

Lemma safe_hextile_mono x y c recs : 0 <= x -> 0 <= y -> Forall bytes_ok recs -> safe (hextile_mono x y c recs).
Proof.
  intros Hx Hy. induction 1 as [|g recs Hg Hrs IH]; cbn [hextile_mono]; [apply safe_ret; exact I|].
  pose proof (nthz_byte _ 0 Hg) as H0. pose proof (nthz_byte _ 1 Hg) as H1.
  eapply safe_bind; [auto with snd| |intros _ _; apply IH].
  apply safe_fill_rect.
  - pose proof (Z.div_pos (nthz g 0) 16 ltac:(lia) ltac:(lia)). lia.
  - pose proof (Z.mod_pos_bound (nthz g 0) 16 ltac:(lia)). lia.
  - pose proof (Z.div_pos (nthz g 1) 16 ltac:(lia) ltac:(lia)). lia.
  - pose proof (Z.mod_pos_bound (nthz g 1) 16 ltac:(lia)). lia.
Qed.

Lemma safe_hextile_tile x y w h bypp bg fg :
  0 <= x -> 0 <= y -> 0 <= w <= cHextile_tile -> 0 <= h <= cHextile_tile -> 1 <= bypp <= 4 ->
  safe (hextile_tile x y w h bypp bg fg).
Proof.
  intros Hx Hy Hw Hh Hb. unfold hextile_tile, cHextile_tile in *.
  eapply safe_bind; [auto with snd|apply safe_rd_u8|]. intros sub Hsub.
  destruct (flag sub cHextileRaw).
  { assert (Hwh : 0 <= w * h <= 256) by nia. assert (Hwhb : w * h * bypp <= 1024) by nia.
    eapply safe_bind; [auto with snd|apply safe_rd_buf; unfold cRFB_BUFFER_SIZE; lia|]. intros bs _.
    eapply safe_bind; [auto with snd|apply safe_copy_rect; cbn beta in *; lia|]. intros _ _. apply safe_ret; exact I. }
  eapply (safe_bind (fun _ => True)); [destruct (flag sub cHextileBackgroundSpecified); auto with snd| |].
  { destruct (flag sub cHextileBackgroundSpecified); [eapply safeP_weaken; [|apply safe_rd_px]; auto|apply safe_ret; exact I]. }
  intros bg' _.
  eapply safe_bind; [auto with snd|apply safe_fill_rect; cbn beta in *; lia|]. intros _ _.
  eapply (safe_bind (fun _ => True)).
  { destruct (flag sub cHextileForegroundSpecified); snd. }
  { destruct (flag sub cHextileForegroundSpecified); [|apply safe_ret; exact I].
    eapply safe_bind; [auto with snd|apply safe_rd_px|]. intros; apply safe_ret; exact I. }
  intros fg' _.
  destruct (negb (flag sub cHextileAnySubrects)); [apply safe_ret; exact I|].
  eapply safe_bind; [auto with snd|apply safe_rd_u8|]. intros n Hn.
  destruct (flag sub cHextileSubrectsColoured).
  - eapply safe_bind; [auto with snd|apply safe_rd_buf; unfold cRFB_BUFFER_SIZE; cbn beta in *; nia|]. intros bs [Hbs _].
    eapply safe_bind; [auto with snd|apply safe_hextile_coloured; auto; now apply chunks_ok|].
    intros; apply safe_ret; exact I.
  - eapply safe_bind; [auto with snd|apply safe_rd_buf; unfold cRFB_BUFFER_SIZE; cbn beta in *; nia|]. intros bs [Hbs _].
    destruct fg'.
    + eapply safe_bind; [auto with snd|apply safe_hextile_mono; auto; now apply chunks_ok|]. intros; apply safe_ret; exact I.
    + eapply safe_bind; [auto with snd|apply safe_upd|]. intros _ _.
      eapply safe_bind; [auto with snd|apply safe_hextile_mono; auto; now apply chunks_ok|]. intros; apply safe_ret; exact I.
Qed.

Lemma safe_hextile_cols fuel : forall cx y rx rw h bypp bg fg,
  0 <= rx <= cx -> 0 <= y -> 0 <= h <= cHextile_tile -> 1 <= bypp <= 4 ->
  safe (hextile_cols fuel cx y rx rw h bypp bg fg).
Proof.
  induction fuel as [|fuel IH]; intros cx y rx rw h bypp bg fg Hx Hy Hh Hb; cbn [hextile_cols]; [apply safe_ret; exact I|].
  destruct (Z.leb_spec (rx + rw) cx); [apply safe_ret; exact I|].
  eapply safe_bind; [auto with snd| |].
  - apply safe_hextile_tile; auto; try lia. unfold cHextile_tile in *.
    destruct (Z.ltb_spec (rx + rw - cx) 16); cbn beta in *; lia.
  - intros r _. apply IH; auto. unfold cHextile_tile. lia.
Qed.

Lemma safe_hextile_rows fuel : forall cy rx ry rw rh bypp bg fg,
  0 <= rx -> 0 <= ry <= cy -> 1 <= bypp <= 4 ->
  safe (hextile_rows fuel cy rx ry rw rh bypp bg fg).
Proof.
  induction fuel as [|fuel IH]; intros cy rx ry rw rh bypp bg fg Hx Hy Hb; cbn [hextile_rows]; [apply safe_ret; exact I|].
  destruct (Z.leb_spec (ry + rh) cy); [apply safe_ret; exact I|].
  eapply safe_bind; [auto with snd| |].
  - apply safe_hextile_cols; auto; try lia. unfold cHextile_tile in *.
    destruct (Z.ltb_spec (ry + rh - cy) 16); cbn beta in *; lia.
  - intros r _. apply IH; auto. unfold cHextile_tile. lia.
Qed.

Lemma safe_dec_hextile x y w h : 0 <= x -> 0 <= y -> safe (dec_hextile x y w h).
Proof.
  intros Hx Hy. unfold dec_hextile. apply safe_bind_get. intros s Hs ts.
  apply (safe_hextile_rows _ y x y w h (bypp_of s) 0 None); auto; try lia. apply Hs.
Qed.

(* ---------------------------------------------------------------- Zlib, Ultra, cursor *)
Lemma safe_rd_stream sid : safe (rd_stream sid).
Proof.
  unfold rd_stream.
  eapply (safe_bind (fun _ => True)); [auto with snd|intros s ts H; unfold rd_zblock; destruct ts as [|[| |] r]; exact I|].
  intros [[[sid' fresh] ok] data] _.
  apply safe_bind_get. intros s Hs ts.
  destruct (negb (sid' =? sid)); [exact I|].
  destruct (Bool.eqb fresh (zact_get s sid)); [destruct ((sid =? 0) && negb (fixed s 11)); exact I|].
  exact I.
Qed.

Lemma safe_rd_zblock (P : Z * bool * bool * list Z -> Prop) : (forall z, P z) -> safeP P rd_zblock.
Proof. intros HP s ts _. unfold rd_zblock. destruct ts as [|[| |] r]; try exact I. apply HP. Qed.

Lemma safe_rd_shared own other mark sid : safe (rd_shared own other mark sid).
Proof.
  unfold rd_shared.
  eapply (safe_bind (fun _ => True)); [auto with snd|apply safe_rd_zblock; auto|].
  intros [[[sid' fresh] ok] data] HT. apply safe_bind_get. intros s Hs ts.
  destruct (negb (sid' =? sid)); [exact I|]. destruct (negb fresh && negb (own s)); [exact I|].
  destruct fresh; [destruct (zact_get s 0); exact I|]. destruct (zact_get s 0 && negb (other s)); exact I.
Qed.

Lemma safe_rd_zlib_stream : safe rd_zlib_stream.
Proof.
  unfold rd_zlib_stream. apply safe_bind_get. intros s0 Hs0 ts. destruct (fixed s0 11).
  - pose proof (safe_rd_stream 0 s0 ts Hs0) as H. unfold bind. destruct (rd_stream 0 s0 ts); auto.
  - apply (safe_rd_shared c_zlibz c_zrlez (fun s => set_zlibz s true) 0 s0 ts Hs0).
Qed.

Lemma safe_dec_zlib x y w h : 0 <= x -> 0 <= y -> 0 <= w -> 0 <= h -> safe (dec_zlib x y w h).
Proof.
  intros Hx Hy Hw Hh. unfold dec_zlib. apply safe_bind_get. intros s Hs ts. revert ts.
  set (need := w * h * bypp_of s). set (cap := if c_rawsz s <? need then need else c_rawsz s).
  assert (G : safe (bind (upd_st (fun s0 => set_rawsz s0 cap)) (fun _ => bind rd_zlib_stream (fun r =>
             let '(ok, data) := r in if negb ok then failM else if cap <? zlen data then failM else
             bind (if zlen data <? need then upd_st set_taint else ret tt)
                  (fun _ => copy_rect x y w h (px_of_bytes (bypp_of s) (firstn (Z.to_nat need) data))))))).
  { eapply safe_bind; [auto with snd|apply safe_upd|]. intros _ _.
    eapply safe_bind; [auto with snd|apply safe_rd_zlib_stream|]. intros [ok data] _.
    destruct (negb ok); [apply safe_fail|]. destruct (cap <? zlen data); [apply safe_fail|].
    eapply (safe_bind (fun _ => True)); [destruct (zlen data <? need); auto with snd| |].
    - destruct (zlen data <? need); [apply safe_upd|apply safe_ret; exact I].
    - intros _ _. apply safe_copy_rect; assumption. }
  intros ts. exact (G s ts Hs).
Qed.

Lemma safe_dec_ultra x y w h : 0 <= x -> 0 <= y -> 0 <= w -> 0 <= h -> safe (dec_ultra x y w h).
Proof.
  intros Hx Hy Hw Hh. unfold dec_ultra. apply safe_bind_get. intros s Hs ts. revert ts.
  set (need := w * h * bypp_of s). set (cap := if c_rawsz s <? need then round4 need else c_rawsz s).
  assert (G : safe (bind rd_lblock (fun data => if need =? 0 then failM else
             bind (upd_st (fun s0 => set_rawsz s0 cap)) (fun _ => if cap <? zlen data then failM else
             bind (if zlen data <? need then upd_st set_taint else ret tt)
                  (fun _ => copy_rect x y w h (px_of_bytes (bypp_of s) (firstn (Z.to_nat need) data))))))).
  { eapply (safe_bind (fun _ => True)); [auto with snd|intros s0 ts0 H0; unfold rd_lblock; destruct ts0 as [|[| |] r]; exact I|].
    intros data _. destruct (need =? 0); [apply safe_fail|].
    eapply safe_bind; [auto with snd|apply safe_upd|]. intros _ _.
    destruct (cap <? zlen data); [apply safe_fail|].
    eapply (safe_bind (fun _ => True)); [destruct (zlen data <? need); auto with snd| |].
    - destruct (zlen data <? need); [apply safe_upd|apply safe_ret; exact I].
    - intros _ _. apply safe_copy_rect; assumption. }
  intros ts. exact (G s ts Hs).
Qed.

(* the cursor decoder touches no fixed-size object at all *)
Lemma safe_dec_cursor xh yh w h enc : safe (dec_cursor xh yh w h enc).
Proof.
  unfold dec_cursor. apply safe_bind_get. intros s Hs ts. revert ts.
  destruct (w * h =? 0); [intros; exact I|].
  destruct ((cMAX_CURSOR_SIZE <=? w) || (cMAX_CURSOR_SIZE <=? h)); [intros; exact I|].
  intros ts.
  match goal with |- match ?m s ts with _ => _ end => assert (G : safe m) end.
  { eapply (safe_bind (fun _ => True)).
    - destruct (enc =? cE_XCursor); snd.
    - destruct (enc =? cE_XCursor).
      + eapply (safe_bind (fun _ => True)); [auto with snd|eapply safeP_weaken; [|apply safe_rd]; auto|]. intros rgb _.
        eapply (safe_bind (fun _ => True)); [auto with snd|eapply safeP_weaken; [|apply safe_rd]; auto|]. intros buf _.
        apply safe_ret; exact I.
      + eapply safeP_weaken; [|apply safe_rd]; auto.
    - intros src _. eapply (safe_bind (fun _ => True)); [auto with snd|eapply safeP_weaken; [|apply safe_rd]; auto|].
      intros buf _. apply safe_upd. }
  exact (G s ts Hs).
Qed.

(* ---------------------------------------------------------------- computations without any Oob source *)
Definition clean {A} (m : M A) : Prop := forall s ts, match m s ts with Oob _ => False | _ => True end.

Lemma clean_ret {A} (a : A) : clean (ret a).
Proof. intros s ts; exact I. Qed.
Lemma clean_fail {A} : clean (@failM A).
Proof. intros s ts; exact I. Qed.
Lemma clean_get : clean get_st.
Proof. intros s ts; exact I. Qed.
Lemma clean_upd f : clean (upd_st f).
Proof. intros s ts; exact I. Qed.
Lemma clean_bind {A B} (m : M A) (k : A -> M B) : clean m -> (forall a, clean (k a)) -> clean (bind m k).
Proof. intros Hm Hk s ts. unfold bind. specialize (Hm s ts). destruct (m s ts); auto. apply Hk. Qed.
Lemma clean_rd n : clean (rd n).
Proof. intros s ts. unfold rd. destruct (take_bytes ts n); exact I. Qed.
Lemma clean_desyncM {A} c : clean (@desyncM A c).
Proof. intros s ts. exact I. Qed.
Lemma clean_const {A} (r : res A) : match r with Oob _ => False | _ => True end -> clean (fun _ _ => r).
Proof. intros H s ts. exact H. Qed.
Hint Resolve clean_ret clean_fail clean_get clean_upd clean_rd : cln.
Lemma clean_log e : clean (log_ev e).
Proof. apply clean_upd. Qed.
Lemma clean_send bs : clean (send bs).
Proof. apply clean_upd. Qed.
Hint Resolve clean_log clean_send : cln.

Ltac cln_step :=
  first
    [ apply clean_ret | apply clean_fail | apply clean_get | apply clean_upd
    | solve [auto with cln]
    | apply clean_bind; [|intros]
    | match goal with
      | |- clean (if ?b then _ else _) => destruct b
      | |- clean (match ?x with _ => _ end) => destruct x
      | |- clean (let '(_, _) := ?x in _) => destruct x
      | |- clean (fun _ _ => Fail) => apply clean_const; exact I
      | |- clean (fun _ _ => More) => apply clean_const; exact I
      | |- clean (desyncM _) => apply clean_desyncM
      end ].
Ltac cln := repeat cln_step.

Lemma clean_rd_u8 : clean rd_u8. Proof. unfold rd_u8. cln. Qed.
Lemma clean_rd_u16 : clean rd_u16. Proof. unfold rd_u16. cln. Qed.
Lemma clean_rd_u32 : clean rd_u32. Proof. unfold rd_u32. cln. Qed.
Hint Resolve clean_rd_u8 clean_rd_u16 clean_rd_u32 : cln.
Lemma clean_send_fur i x y w h : clean (send_fur i x y w h). Proof. unfold send_fur. cln. Qed.
Lemma clean_send_incr : clean send_incr. Proof. unfold send_incr. cln. Qed.
Lemma clean_resize w h : clean (resize w h). Proof. unfold resize. cln. Qed.
Hint Resolve clean_send_fur clean_send_incr clean_resize : cln.

Lemma clean_safe {A} (m : M A) : clean m -> safe m.
Proof. intros H s ts _. specialize (H s ts). destruct (m s ts); auto. Qed.

(* ---------------------------------------------------------------- the rectangle dispatcher *)
Definition rect_body : Z -> Z -> Z -> Z -> Z -> M bool :=
  ltac:(let b := eval unfold do_rect in do_rect in
        match b with
        | bind rd_u16 (fun x => bind rd_u16 (fun y => bind rd_u16 (fun w => bind rd_u16 (fun h => bind rd_u32 (fun enc => @?k x y w h enc))))) =>
            exact k
        end).
Lemma do_rect_eq :
  do_rect = (x <- rd_u16 ;; y <- rd_u16 ;; w <- rd_u16 ;; h <- rd_u16 ;; enc <- rd_u32 ;; rect_body x y w h enc).
Proof. reflexivity. Qed.

(* the encodings whose decoders contain the defects of known_findings.d/C08.json *)
Definition weak_encs : list Z := [cE_Tight; cE_TRLE; cE_ZRLE; cE_ZYWRLE; cE_UltraZip].

Lemma sound_rect_body x y w h enc : 0 <= w -> 0 <= h -> sound (rect_body x y w h enc).
Proof.
  intros Hw Hh. unfold rect_body.
  snd; try (apply sound_upd; intros; now apply keeps_canfur);
    try (apply sound_upd; intros; now apply keeps_reqrs);
    try (apply sound_upd; intros s0 Hs0;
         apply (keeps_fold_screen (fun r => negb (be_val (firstn 4 r) =? 0) && negb (be_val (firstn 2 (skipn 8 r)) =? 0)
                                            && negb (be_val (firstn 2 (skipn 10 r)) =? 0))
                                  (fun r => (be_val (firstn 2 (skipn 8 r)), be_val (firstn 2 (skipn 10 r))))); exact Hs0).
Qed.

Theorem rect_body_safe x y w h enc :
  0 <= x -> 0 <= y -> 0 <= w -> 0 <= h -> ~ In enc weak_encs -> safe (rect_body x y w h enc).
Proof.
  intros Hx Hy Hw Hh Hnot. unfold rect_body.
  destruct (enc =? cE_LastRect); [apply clean_safe; cln|].
  destruct ((enc =? cE_XCursor) || (enc =? cE_RichCursor)).
  { eapply safe_bind; [auto with snd|apply safe_dec_cursor|]. intros; apply safe_ret; exact I. }
  destruct (enc =? cE_PointerPos); [apply clean_safe; cln|].
  destruct (enc =? cE_KeyboardLedState); [apply clean_safe; cln|].
  destruct (enc =? cE_NewFBSize); [apply clean_safe; cln|].
  destruct (enc =? cE_ExtDesktopSize); [apply clean_safe; cln|].
  destruct (enc =? cE_SupportedMessages); [apply clean_safe; cln|].
  destruct (enc =? cE_SupportedEncodings); [apply clean_safe; cln|].
  destruct (enc =? cE_ServerIdentity); [apply clean_safe; cln|].
  apply safe_bind_get. intros s Hs ts. revert ts.
  destruct (negb (enc =? cE_UltraZip) && ((c_w s <? x + w) || (c_h s <? y + h))); [intros; exact I|].
  intros ts.
  match goal with |- match ?m s ts with _ => _ end => assert (G : safe m); [|exact (G s ts Hs)] end.
  assert (Hweak : forall e, In e weak_encs -> (enc =? e) = false).
  { intros e He. destruct (Z.eqb_spec enc e); [subst; contradiction|reflexivity]. }
  pose proof (Hweak cE_Tight ltac:(cbn; auto)) as W1. pose proof (Hweak cE_TRLE ltac:(cbn; auto)) as W2.
  pose proof (Hweak cE_ZRLE ltac:(cbn; auto)) as W3. pose proof (Hweak cE_ZYWRLE ltac:(cbn; auto 6)) as W4.
  pose proof (Hweak cE_UltraZip ltac:(cbn; auto 6)) as W5.
  eapply (safe_bind (fun _ => True)).
  - cbv zeta. snd.
  - cbv zeta. rewrite W1, W2, W3, W4, W5. cbn [orb].
    set (ok := (f_bpp (c_fmt s) =? 8) || (f_bpp (c_fmt s) =? 16) || (f_bpp (c_fmt s) =? 32)).
    destruct (enc =? cE_Raw); [apply safe_dec_raw; assumption|].
    destruct (enc =? cE_CopyRect); [apply safe_dec_copyrect; assumption|].
    destruct (enc =? cE_RRE); [destruct ok; [apply safe_dec_rre; assumption|apply safe_ret; exact I]|].
    destruct (enc =? cE_CoRRE); [destruct ok; [apply safe_dec_corre; assumption|apply safe_ret; exact I]|].
    destruct (enc =? cE_Hextile); [destruct ok; [apply safe_dec_hextile; assumption|apply safe_ret; exact I]|].
    destruct (enc =? cE_Ultra); [destruct ok; [apply safe_dec_ultra; assumption|apply safe_ret; exact I]|].
    destruct (enc =? cE_Zlib); [destruct ok; [apply safe_dec_zlib; assumption|apply safe_ret; exact I]|].
    destruct (enc =? cE_QemuExtendedKeyEvent); [apply safe_ret; exact I|apply safe_fail].
  - intros _ _. apply clean_safe. cln.
Qed.

(* ---------------------------------------------------------------- message level *)
(* an out-of-bounds outcome of HandleRFBServerMessage can only originate in a rectangle whose encoding is
   one of [weak_encs], decoded from a well-formed state *)
Definition oob_origin (c : Z) : Prop :=
  exists s x y w h enc ts, st_ok s /\ 0 <= x /\ 0 <= y /\ 0 <= w /\ 0 <= h /\ In enc weak_encs /\
                           rect_body x y w h enc s ts = Oob c.

Lemma st_ok_keeps s s' : keeps s s' -> st_ok s -> st_ok s'.
Proof. intros K [H1 H2]. split; [apply K|eapply bypp_pos_keeps; eauto]. Qed.

Lemma in_weak_dec enc : {In enc weak_encs} + {~ In enc weak_encs}.
Proof. apply in_dec. apply Z.eq_dec. Qed.

Lemma do_rect_oob s ts c : st_ok s -> do_rect s ts = Oob c -> oob_origin c.
Proof.
  intros Hs E. rewrite do_rect_eq in E. unfold bind in E.
  pose proof (sound_rd_u16 s ts (proj1 Hs)) as S1. pose proof (safe_rd_u16 s ts Hs) as V1. pose proof (clean_rd_u16 s ts) as C1.
  destruct (rd_u16 s ts) as [x s1 ts1| | | |]; try discriminate; [|contradiction].
  assert (Hs1 : st_ok s1) by (eapply st_ok_keeps; [apply S1|exact Hs]).
  pose proof (sound_rd_u16 s1 ts1 (proj1 Hs1)) as S2. pose proof (safe_rd_u16 s1 ts1 Hs1) as V2. pose proof (clean_rd_u16 s1 ts1) as C2.
  destruct (rd_u16 s1 ts1) as [y s2 ts2| | | |]; try discriminate; [|contradiction].
  assert (Hs2 : st_ok s2) by (eapply st_ok_keeps; [apply S2|exact Hs1]).
  pose proof (sound_rd_u16 s2 ts2 (proj1 Hs2)) as S3. pose proof (safe_rd_u16 s2 ts2 Hs2) as V3. pose proof (clean_rd_u16 s2 ts2) as C3.
  destruct (rd_u16 s2 ts2) as [w s3 ts3| | | |]; try discriminate; [|contradiction].
  assert (Hs3 : st_ok s3) by (eapply st_ok_keeps; [apply S3|exact Hs2]).
  pose proof (sound_rd_u16 s3 ts3 (proj1 Hs3)) as S4. pose proof (safe_rd_u16 s3 ts3 Hs3) as V4. pose proof (clean_rd_u16 s3 ts3) as C4.
  destruct (rd_u16 s3 ts3) as [h s4 ts4| | | |]; try discriminate; [|contradiction].
  assert (Hs4 : st_ok s4) by (eapply st_ok_keeps; [apply S4|exact Hs3]).
  pose proof (sound_rd_u32 s4 ts4 (proj1 Hs4)) as S5. pose proof (clean_rd_u32 s4 ts4) as C5.
  destruct (rd_u32 s4 ts4) as [enc s5 ts5| | | |]; try discriminate; [|contradiction].
  assert (Hs5 : st_ok s5) by (eapply st_ok_keeps; [apply S5|exact Hs4]).
  cbn beta iota in V1, V2, V3, V4.
  destruct (in_weak_dec enc) as [Hin|Hnot].
  - exists s5, x, y, w, h, enc, ts5. split; [exact Hs5|]. repeat split; try lia; assumption.
  - pose proof (rect_body_safe x y w h enc ltac:(lia) ltac:(lia) ltac:(lia) ltac:(lia) Hnot s5 ts5 Hs5) as Hsafe.
    rewrite E in Hsafe. contradiction.
Qed.

Lemma rect_loop_oob n : forall s ts c, st_ok s -> rect_loop n s ts = Oob c -> oob_origin c.
Proof.
  induction n as [|n IH]; intros s ts c Hs E; cbn [rect_loop] in E; [discriminate|].
  unfold bind in E. pose proof (sound_do_rect s ts (proj1 Hs)) as S1.
  destruct (do_rect s ts) as [b s1 ts1| | | |] eqn:E1; try discriminate.
  - destruct b; [discriminate|]. apply (IH s1 ts1 c); [eapply st_ok_keeps; [apply S1|exact Hs]|exact E].
  - inversion E; subst. eapply do_rect_oob; eauto.
Qed.

Theorem no_oob_partial s ts c : st_ok s -> handle_msg s ts = Oob c -> oob_origin c.
Proof.
  intros Hs E. rewrite handle_msg_eq in E. unfold bind in E.
  pose proof (sound_rd_u8 s ts (proj1 Hs)) as S1. pose proof (clean_rd_u8 s ts) as C1.
  destruct (rd_u8 s ts) as [t s1 ts1| | | |]; try discriminate; [|contradiction].
  assert (Hs1 : st_ok s1) by (eapply st_ok_keeps; [apply S1|exact Hs]).
  unfold handle_body in E.
  destruct (t =? cM_SetColourMapEntries); [discriminate|].
  destruct (t =? cM_FramebufferUpdate).
  { unfold bind in E.
    match type of E with context [rd ?n s1 ts1] =>
      pose proof (sound_rd n s1 ts1 (proj1 Hs1)) as S2; pose proof (clean_rd n s1 ts1) as C2;
      destruct (rd n s1 ts1) as [hdr s2 ts2| | | |]; try discriminate; [|contradiction] end.
    assert (Hs2 : st_ok s2) by (eapply st_ok_keeps; [apply S2|exact Hs1]).
    match type of E with context [rect_loop ?n s2 ts2] =>
      pose proof (sound_rect_loop n s2 ts2 (proj1 Hs2)) as S3;
      destruct (rect_loop n s2 ts2) as [u s3 ts3| | | |] eqn:E3; try discriminate end.
    - pose proof (clean_send_incr s3 ts3) as C4. destruct (send_incr s3 ts3) as [u4 s4 ts4| | | |]; try discriminate; try contradiction.
      all: try (pose proof (clean_log EvFinished s4 ts4) as C5; rewrite E in C5; contradiction).
    - inversion E; subst. eapply rect_loop_oob; eauto. }
  (* every other message is made of readers and callbacks only *)
  match type of E with ?m s1 ts1 = _ => assert (Cm : clean m) end.
  { cln. }
  specialize (Cm s1 ts1). rewrite E in Cm. contradiction.
Qed.
