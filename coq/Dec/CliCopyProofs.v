(* CliCopyProofs.v - CopyRectangleFromRectangle (vncviewer.c), mirrored pixel by pixel in the C loop order
   (rows top-down when dest_y < src_y else bottom-up; columns left-to-right when dest_x < src_x else
   right-to-left), has memmove semantics: the destination receives the ORIGINAL source block, for every
   overlap direction. *)
From LV Require Import Dec.CliBase Dec.CliFbProofs Dec.CliDec Dec.RefEnc Dec.CliRtBase.
Require Import ZifyBool.
Local Open Scope Z_scope.

Definition move : Type := (Z * Z * Z * Z)%type.          (* src x, src y, dst x, dst y *)
Definition msrc (m : move) : Z * Z := let '(a, b, _, _) := m in (a, b).
Definition mdst (m : move) : Z * Z := let '(_, _, c, d) := m in (c, d).

Fixpoint exec (ms : list move) (fb : fbuf) : option fbuf :=
  match ms with
  | [] => Some fb
  | (a, b, c, d) :: r => match copy_px fb a b c d with None => None | Some fb' => exec r fb' end
  end.

Lemma copy_row_exec idx : forall fb sx sy dx dy,
  copy_row fb sx sy dx dy idx = exec (map (fun i => (sx + i, sy, dx + i, dy)) idx) fb.
Proof.
  induction idx as [|i idx IH]; intros; cbn [copy_row map exec]; [reflexivity|].
  destruct (copy_px fb (sx + i) sy (dx + i) dy); [apply IH|reflexivity].
Qed.

Lemma exec_app a b fb : exec (a ++ b) fb = match exec a fb with Some fb' => exec b fb' | None => None end.
Proof.
  revert fb; induction a as [|[[[p q] r] s] a IH]; intros fb; cbn [app exec]; [reflexivity|].
  destruct (copy_px fb p q r s); [apply IH|reflexivity].
Qed.

Lemma copy_rows_exec rws : forall fb sx sy dx dy cols,
  copy_rows fb sx sy dx dy cols rws =
  exec (flat_map (fun j => map (fun i => (sx + i, sy + j, dx + i, dy + j)) cols) rws) fb.
Proof.
  induction rws as [|j rws IH]; intros; cbn [copy_rows flat_map]; [reflexivity|].
  rewrite exec_app, <- copy_row_exec.
  destruct (copy_row fb sx (sy + j) dx (dy + j) cols); [apply IH|reflexivity].
Qed.

Definition inb (W H : Z) (p : Z * Z) : Prop := 0 <= fst p < W /\ 0 <= snd p < H.

Lemma copy_px_spec W H fb a b c d :
  fb_wf W H fb -> inb W H (a, b) -> inb W H (c, d) ->
  exists fb', copy_px fb a b c d = Some fb' /\ fb_wf W H fb' /\
              forall px py, 0 <= px < W -> 0 <= py < H ->
                fb_get fb' px py = if (px =? c) && (py =? d) then fb_get fb a b else fb_get fb px py.
Proof.
  intros Hfb [Ha Hb] [Hc Hd]. cbn [fst snd] in *. unfold copy_px.
  destruct (fb_get_some W H fb a b Hfb Ha Hb) as [v Hv]. rewrite Hv.
  rewrite (fb_write_spec W H fb c d [v] Hfb) by (unfold zlen; cbn [length]; lia).
  eexists. split; [reflexivity|]. split; [apply blit_spec_wf; exact Hfb|].
  intros px py Hpx Hpy.
  assert (Hr : rows_wf 1 1 [[v]]) by (split; [reflexivity|repeat constructor]).
  rewrite (fb_get_blit_in W H fb c d 1 1 [[v]] px py Hfb Hr) by lia.
  unfold in_rect.
  destruct (Z.eqb_spec px c), (Z.eqb_spec py d); cbn [andb].
  - subst. replace ((d <=? d) && (d <? d + 1) && (c <=? c) && (c <? c + 1)) with true by lia.
    rewrite !Z.sub_diag. reflexivity.
  - replace ((d <=? py) && (py <? d + 1) && (c <=? px) && (px <? c + 1)) with false by lia. reflexivity.
  - replace ((d <=? py) && (py <? d + 1) && (c <=? px) && (px <? c + 1)) with false by lia. reflexivity.
  - replace ((d <=? py) && (py <? d + 1) && (c <=? px) && (px <? c + 1)) with false by lia. reflexivity.
Qed.

(* sequential moves whose sources are never overwritten beforehand (and whose destinations are distinct)
   = parallel assignment from the original framebuffer *)
Definition mv_ok (m' m : move) : Prop := mdst m' <> msrc m /\ mdst m' <> mdst m.

Lemma exec_par W H ms : forall fb,
  fb_wf W H fb ->
  (forall m, In m ms -> inb W H (msrc m) /\ inb W H (mdst m)) ->
  ForallOrdPairs mv_ok ms ->
  exists fb', exec ms fb = Some fb' /\ fb_wf W H fb' /\
    (forall m, In m ms -> fb_get fb' (fst (mdst m)) (snd (mdst m)) = fb_get fb (fst (msrc m)) (snd (msrc m))) /\
    (forall px py, 0 <= px < W -> 0 <= py < H -> ~ In (px, py) (map mdst ms) -> fb_get fb' px py = fb_get fb px py).
Proof.
  induction ms as [|m ms IH]; intros fb Hfb Hin Hop.
  - exists fb. split; [reflexivity|]. split; [exact Hfb|]. split; [intros m []|intros; reflexivity].
  - destruct m as [[[a b] c] d].
    destruct (Hin (a, b, c, d) (or_introl eq_refl)) as [Hs Hd]. cbn [msrc mdst] in Hs, Hd.
    destruct (copy_px_spec W H fb a b c d Hfb Hs Hd) as [fb1 [E1 [Hfb1 Hg1]]].
    inversion Hop as [|? ? Hall Hop']; subst. rewrite Forall_forall in Hall.
    assert (Hnotin : ~ In (c, d) (map mdst ms)).
    { intros Hc. apply in_map_iff in Hc. destruct Hc as [m2 [E2 Hm2]].
      destruct (Hall m2 Hm2) as [_ Hne]. cbn [mdst] in Hne. congruence. }
    destruct (IH fb1 Hfb1) as [fb' [E' [Hfb' [HA HB]]]].
    + intros m0 Hm0. apply Hin. now right.
    + exact Hop'.
    + exists fb'. cbn [exec]. rewrite E1. split; [exact E'|]. split; [exact Hfb'|]. split.
      * intros m0 [<-|Hm0]; cbn [mdst msrc fst snd].
        -- rewrite HB; [|apply Hd|apply Hd|exact Hnotin].
           rewrite Hg1 by apply Hd. cbn [fst snd]. now rewrite !Z.eqb_refl.
        -- rewrite (HA m0 Hm0).
           destruct (Hin m0 (or_intror Hm0)) as [[Hs1 Hs2] _].
           rewrite Hg1 by assumption.
           destruct (Hall m0 Hm0) as [Hne _].
           cbn [mdst] in Hne. destruct (msrc m0) as [u v] eqn:Eu. cbn [fst snd] in *.
           destruct (Z.eqb_spec u c), (Z.eqb_spec v d); cbn [andb]; try reflexivity.
           subst. congruence.
      * intros px py Hpx Hpy Hnot. cbn [map] in Hnot.
        rewrite HB; auto; [|intros Hc; apply Hnot; now right].
        rewrite Hg1 by assumption.
        destruct (Z.eqb_spec px c), (Z.eqb_spec py d); cbn [andb]; try reflexivity.
        subst. exfalso. apply Hnot. now left.
Qed.

(* ---------------------------------------------------------------- ordered pairs of the two loops *)
Lemma fop_app {A} (R : A -> A -> Prop) (a b : list A) :
  ForallOrdPairs R a -> ForallOrdPairs R b -> (forall x y, In x a -> In y b -> R x y) -> ForallOrdPairs R (a ++ b).
Proof.
  induction a as [|x a IH]; intros Ha Hb Hc; cbn [app]; [exact Hb|].
  inversion Ha as [|? ? Hx Ha']; subst. constructor.
  - apply Forall_app. split; [exact Hx|]. apply Forall_forall. intros y Hy. apply Hc; [now left|exact Hy].
  - apply IH; auto. intros; apply Hc; [now right|assumption].
Qed.

Lemma fop_map {A B} (R : B -> B -> Prop) (f : A -> B) (l : list A) :
  ForallOrdPairs (fun a b => R (f a) (f b)) l -> ForallOrdPairs R (map f l).
Proof.
  induction 1 as [|a l Ha Hl IH]; cbn [map]; constructor; [|exact IH].
  apply Forall_forall. intros y Hy. apply in_map_iff in Hy. destruct Hy as [x [<- Hx]].
  rewrite Forall_forall in Ha. now apply Ha.
Qed.

Lemma fop_impl {A} (R S : A -> A -> Prop) (l : list A) :
  (forall a b, R a b -> S a b) -> ForallOrdPairs R l -> ForallOrdPairs S l.
Proof.
  intros H. induction 1 as [|a l Ha Hl IH]; constructor; [|exact IH].
  eapply Forall_impl; [|exact Ha]. intros; now apply H.
Qed.

Lemma fop_rev {A} (R : A -> A -> Prop) (l : list A) :
  ForallOrdPairs R l -> ForallOrdPairs (fun a b => R b a) (rev l).
Proof.
  induction 1 as [|a l Ha Hl IH]; cbn [rev]; [constructor|].
  apply fop_app; [exact IH|repeat constructor|].
  intros x y Hx [<-|[]]. apply in_rev in Hx. rewrite Forall_forall in Ha. now apply Ha.
Qed.

Lemma fop_seq s n : ForallOrdPairs lt (seq s n).
Proof.
  revert s; induction n; intros s; cbn [seq]; constructor; [|apply IHn].
  apply Forall_forall. intros y Hy. apply in_seq in Hy. lia.
Qed.

Lemma fop_zseq n : ForallOrdPairs Z.lt (zseq n).
Proof.
  unfold zseq. apply fop_map. eapply fop_impl; [|apply fop_seq]. intros; cbn beta; lia.
Qed.

Lemma in_zseq n i : In i (zseq n) <-> 0 <= i < n.
Proof.
  unfold zseq. rewrite in_map_iff. split.
  - intros [k [<- Hk]]. apply in_seq in Hk. lia.
  - intros Hi. exists (Z.to_nat i). split; [lia|]. apply in_seq. lia.
Qed.

Lemma fop_flat {A} (R : A -> A -> Prop) (Pr Pc : Z -> Z -> Prop) (f : Z -> Z -> A) rws cols :
  ForallOrdPairs Pr rws -> ForallOrdPairs Pc cols ->
  (forall j' j i' i, Pr j' j -> R (f j' i') (f j i)) ->
  (forall j i' i, Pc i' i -> R (f j i') (f j i)) ->
  ForallOrdPairs R (flat_map (fun j => map (f j) cols) rws).
Proof.
  intros Hr Hc H1 H2. induction Hr as [|j rws Hj Hr IH]; cbn [flat_map]; [constructor|].
  apply fop_app.
  - apply fop_map. eapply fop_impl; [|exact Hc]. intros a b Hab. now apply H2.
  - exact IH.
  - intros x y Hx Hy. apply in_map_iff in Hx. destruct Hx as [i' [<- _]].
    apply in_flat_map in Hy. destruct Hy as [j2 [Hj2 Hy]]. apply in_map_iff in Hy. destruct Hy as [i [<- _]].
    apply H1. rewrite Forall_forall in Hj. now apply Hj.
Qed.

(* ---------------------------------------------------------------- the source block *)
Lemma in_firstn {A} n (l : list A) x : In x (firstn n l) -> In x l.
Proof. intros H. rewrite <- (firstn_skipn n l). apply in_or_app. now left. Qed.
Lemma in_skipn {A} n (l : list A) x : In x (skipn n l) -> In x l.
Proof. intros H. rewrite <- (firstn_skipn n l). apply in_or_app. now right. Qed.

Lemma sub_block_wf W H fb sx sy w h :
  fb_wf W H fb -> 0 <= sx -> 0 <= sy -> 0 <= w -> 0 <= h -> sx + w <= W -> sy + h <= H ->
  rows_wf w h (sub_block fb sx sy w h).
Proof.
  intros [Hl Hr] Hx Hy Hw Hh Hxw Hyh. unfold sub_block, rows_wf. split.
  - rewrite zlen_map. unfold zlen in *. rewrite firstn_length, skipn_length. lia.
  - apply Forall_forall. intros r Hr'. apply in_map_iff in Hr'. destruct Hr' as [r0 [<- Hr0]].
    apply in_firstn, in_skipn in Hr0. rewrite Forall_forall in Hr. specialize (Hr r0 Hr0).
    unfold zlen in *. rewrite firstn_length, skipn_length. lia.
Qed.

Lemma sub_block_get W H fb sx sy w h i j :
  fb_wf W H fb -> 0 <= sx -> 0 <= sy -> sx + w <= W -> sy + h <= H -> 0 <= i < w -> 0 <= j < h ->
  fb_get (sub_block fb sx sy w h) i j = fb_get fb (sx + i) (sy + j).
Proof.
  intros [Hl Hr] Hx Hy Hxw Hyh Hi Hj. unfold fb_get, sub_block.
  destruct (Z.ltb_spec i 0); [lia|]. destruct (Z.ltb_spec j 0); [lia|].
  destruct (Z.ltb_spec (sx + i) 0); [lia|]. destruct (Z.ltb_spec (sy + j) 0); [lia|]. cbn [orb].
  rewrite nth_error_map. rewrite nth_error_firstn' by lia. rewrite nth_error_skipn'.
  replace (Z.to_nat sy + Z.to_nat j)%nat with (Z.to_nat (sy + j)) by lia.
  destruct (nth_error fb (Z.to_nat (sy + j))) as [r|]; cbn [option_map]; [|reflexivity].
  rewrite nth_error_firstn' by lia. rewrite nth_error_skipn'. f_equal. lia.
Qed.

(* ---------------------------------------------------------------- the theorem *)
Definition mv (sx sy dx dy : Z) (j i : Z) : move := (sx + i, sy + j, dx + i, dy + j).

Theorem copyrect_memmove s sx sy w h dx dy ts :
  st_wf s -> 0 <= sx -> 0 <= sy -> 0 <= dx -> 0 <= dy -> 0 <= w -> 0 <= h ->
  sx + w <= c_w s -> sy + h <= c_h s -> dx + w <= c_w s -> dy + h <= c_h s ->
  copy_from_rect sx sy w h dx dy s ts
  = Ok tt (set_fb s (blit_spec (c_fb s) dx dy (sub_block (c_fb s) sx sy w h))) ts.
Proof.
  intros (Hw0 & Hh0 & Hfb) Hsx Hsy Hdx Hdy Hw Hh Hsxw Hsyh Hdxw Hdyh.
  unfold copy_from_rect, check_rect.
  destruct ((sx + w <=? c_w s) && (sy + h <=? c_h s)) eqn:E1; [|lia].
  destruct ((dx + w <=? c_w s) && (dy + h <=? c_h s)) eqn:E2; [|lia]. cbn [negb].
  set (cols := if dx <? sx then zseq w else rev (zseq w)).
  set (rws := if dy <? sy then zseq h else rev (zseq h)).
  rewrite copy_rows_exec.
  change (flat_map (fun j => map (fun i => (sx + i, sy + j, dx + i, dy + j)) cols) rws)
    with (flat_map (fun j => map (mv sx sy dx dy j) cols) rws).
  assert (Hcols : forall i, In i cols <-> 0 <= i < w).
  { intros i. unfold cols. destruct (dx <? sx); [apply in_zseq|rewrite <- in_rev; apply in_zseq]. }
  assert (Hrws : forall j, In j rws <-> 0 <= j < h).
  { intros j. unfold rws. destruct (dy <? sy); [apply in_zseq|rewrite <- in_rev; apply in_zseq]. }
  set (Pc := fun i' i : Z => if dx <? sx then i' < i else i < i').
  set (Pr := fun j' j : Z => if dy <? sy then j' < j else j < j').
  assert (Fc : ForallOrdPairs Pc cols).
  { unfold cols, Pc. destruct (dx <? sx); [apply fop_zseq|]. apply (fop_rev Z.lt). apply fop_zseq. }
  assert (Fr : ForallOrdPairs Pr rws).
  { unfold rws, Pr. destruct (dy <? sy); [apply fop_zseq|]. apply (fop_rev Z.lt). apply fop_zseq. }
  assert (Fop : ForallOrdPairs mv_ok (flat_map (fun j => map (mv sx sy dx dy j) cols) rws)).
  { apply (fop_flat mv_ok Pr Pc (mv sx sy dx dy) rws cols Fr Fc).
    - intros j' j i' i HP. unfold mv_ok, mv, mdst, msrc, Pr in *.
      destruct (Z.ltb_spec dy sy); split; intros Heq; inversion Heq; lia.
    - intros j i' i HP. unfold mv_ok, mv, mdst, msrc, Pc in *.
      destruct (Z.ltb_spec dx sx); split; intros Heq; inversion Heq; lia. }
  set (L := flat_map (fun j => map (mv sx sy dx dy j) cols) rws) in *.
  assert (Hrange : forall m, In m L -> inb (c_w s) (c_h s) (msrc m) /\ inb (c_w s) (c_h s) (mdst m)).
  { intros m Hm. unfold L in Hm. apply in_flat_map in Hm. destruct Hm as [j [Hj Hm]]. apply in_map_iff in Hm. destruct Hm as [i [<- Hi]].
    apply Hcols in Hi. apply Hrws in Hj. unfold mv, msrc, mdst, inb. cbn [fst snd]. lia. }
  destruct (exec_par (c_w s) (c_h s) L (c_fb s) Hfb Hrange Fop) as [fb' [E [Hfb' [HA HB]]]].
  rewrite E. f_equal. f_equal.
  assert (Hsb : rows_wf w h (sub_block (c_fb s) sx sy w h)) by (eapply sub_block_wf; eauto).
  eapply fb_ext; [exact Hfb'|apply blit_spec_wf; exact Hfb|].
  intros px py Hpx Hpy.
  rewrite (fb_get_blit_in (c_w s) (c_h s) (c_fb s) dx dy w h _ px py Hfb Hsb) by lia.
  destruct (in_rect dx dy w h px py) eqn:Ein.
  - apply in_rect_true in Ein.
    assert (Hm : In (mv sx sy dx dy (py - dy) (px - dx)) L).
    { unfold L. apply in_flat_map. exists (py - dy). split; [apply Hrws; lia|]. apply in_map. apply Hcols. lia. }
    specialize (HA _ Hm). unfold mv, mdst, msrc in HA. cbn [fst snd] in HA.
    replace (dx + (px - dx)) with px in HA by lia. replace (dy + (py - dy)) with py in HA by lia.
    rewrite HA. symmetry. eapply sub_block_get; eauto; lia.
  - apply HB; auto. intros Hc. apply in_map_iff in Hc. destruct Hc as [m [Em Hm]].
    unfold L in Hm. apply in_flat_map in Hm. destruct Hm as [j [Hj Hm]]. apply in_map_iff in Hm. destruct Hm as [i [<- Hi]].
    apply Hcols in Hi. apply Hrws in Hj. unfold mv, mdst in Em. inversion Em; subst.
    assert (in_rect dx dy w h (dx + i) (dy + j) = true) by (apply in_rect_true; lia). congruence.
Qed.

Theorem roundtrip_copyrect s x y w h sx sy ts :
  st_wf s -> 0 <= sx < 65536 -> 0 <= sy < 65536 -> 0 <= x -> 0 <= y -> 0 <= w -> 0 <= h ->
  sx + w <= c_w s -> sy + h <= c_h s -> x + w <= c_w s -> y + h <= c_h s ->
  dec_copyrect x y w h s (toks (ref_copyrect sx sy) ++ ts)
  = Ok tt (set_fb s (blit_spec (c_fb s) x y (sub_block (c_fb s) sx sy w h))) ts.
Proof.
  intros. unfold dec_copyrect, ref_copyrect. rewrite toks_app, <- app_assoc.
  erewrite bind_ok; [|apply rd_u16_app; lia].
  erewrite bind_ok; [|apply rd_u16_app; lia].
  apply copyrect_memmove; auto; lia.
Qed.
