(* C01 - dispatch of the RFB-spec decoders on the encoding number of a rectangle header.
   For Zlib (6) and Ultra (9) the payload handed over is the output of the decompressor. *)
From Coq Require Import ZArith List Lia Bool Arith.
From LV Require Import Enc.EncBase Dec.SpecBase Dec.SpecRaw Dec.SpecRRE Dec.SpecHextile Dec.SpecZRLE Dec.SpecTight.
Import ListNotations.

Definition dec_rect (enc : Z) (bypp cmode w h : nat) (payload : list Z) : option grid :=
  if (enc =? 0)%Z then dec_raw bypp w h payload
  else if (enc =? 2)%Z then dec_rre bypp w h payload
  else if (enc =? 4)%Z then dec_corre bypp w h payload
  else if (enc =? 5)%Z then dec_hextile bypp w h payload
  else if (enc =? 6)%Z then dec_raw bypp w h payload
  else if (enc =? 9)%Z then dec_raw bypp w h payload
  else if (enc =? 16)%Z then dec_zrle bypp cmode w h payload
  else None.
