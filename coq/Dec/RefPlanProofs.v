(* RefPlanProofs.v - the choice-driven sub-rectangle plan of RefEnc.v paints exactly the target tile,
   whatever the choice oracle answers; its sub-rectangles stay inside the tile. *)
From LV Require Import Dec.CliBase Dec.CliFbProofs Dec.RefEnc.
Require Import ZifyBool.
Local Open Scope Z_scope.

(* ---------------------------------------------------------------- run-length form *)
Fixpoint expand (runs : list (Z * Z)) : list Z :=
  match runs with [] => [] | (c, n) :: r => repeat c (Z.to_nat n) ++ expand r end.

Definition runs_ok (maxw : Z) (runs : list (Z * Z)) : Prop := Forall (fun cn => 1 <= snd cn <= Z.max 1 maxw) runs.

Lemma rle_expand maxw l : expand (rle maxw l) = l /\ runs_ok maxw (rle maxw l).
Proof.
  induction l as [|a l [IH1 IH2]]; cbn [rle]; [split; [reflexivity|constructor]|].
  destruct (rle maxw l) as [|[b n] t] eqn:E.
  - cbn [expand] in IH1. subst l. split; [reflexivity|]. constructor; [cbn [snd]; lia|constructor].
  - pose proof (Forall_inv IH2) as Hb. pose proof (Forall_inv_tail IH2) as Ht. cbn [snd] in Hb.
    cbn [expand] in IH1.
    destruct ((a =? b) && (n <? maxw)) eqn:C.
    + split.
      * cbn [expand]. replace (Z.to_nat (n + 1)) with (S (Z.to_nat n)) by lia. cbn [repeat app].
        assert (a = b) by lia. subst a. rewrite IH1. reflexivity.
      * constructor; [cbn [snd]; lia|exact Ht].
    + split.
      * cbn [expand]. change (Z.to_nat 1) with 1%nat. cbn [repeat app]. rewrite IH1. reflexivity.
      * constructor; [cbn [snd]; lia|]. constructor; [cbn [snd]; lia|exact Ht].
Qed.

Lemma expand_len runs : (forall cn, In cn runs -> 0 <= snd cn) ->
  zlen (expand runs) = fold_right (fun cn a => snd cn + a) 0 runs.
Proof.
  induction runs as [|[c n] r IH]; intros H; cbn [expand fold_right snd]; [reflexivity|].
  rewrite zlen_app, zlen_repeat, IH; [|intros; apply H; now right].
  specialize (H (c, n) (or_introl eq_refl)). cbn in H. lia.
Qed.

(* ---------------------------------------------------------------- one framebuffer row *)
Lemma blit_from_app_row D r R x v :
  blit_from (D ++ r :: R) x (zlen D) [v] = D ++ row_splice r x v :: R.
Proof.
  induction D as [|d D IH]; cbn [app blit_from].
  - cbn. now rewrite blit_from_nil.
  - rewrite zlen_cons. pose proof (zlen_nonneg D).
    destruct (Z.ltb_spec 0 (1 + zlen D)); [|lia].
    replace (1 + zlen D - 1) with (zlen D) by lia. now rewrite IH.
Qed.

Lemma row_splice_app pre cur v :
  zlen v <= zlen cur ->
  row_splice (pre ++ cur) (zlen pre) v = pre ++ v ++ skipn (length v) cur.
Proof.
  intros H. unfold row_splice. pose proof (zlen_nonneg pre).
  rewrite row_write_some by (rewrite ?zlen_app; lia).
  unfold zlen. rewrite Nat2Z.id.
  rewrite firstn_app, firstn_all, Nat.sub_diag. cbn [firstn]. rewrite app_nil_r.
  rewrite skipn_app. rewrite skipn_all2 by lia. cbn [app].
  f_equal. f_equal. f_equal. lia.
Qed.

Definition sub_inside (w h : Z) (r : subr) : Prop :=
  let '(x, y, sw, sh, c) := r in 0 <= x /\ 0 <= y /\ 1 <= sw /\ 1 <= sh /\ x + sw <= w /\ y + sh <= h.

Lemma fix_runs_correct D R pre cur k runs :
  zlen D = k -> zlen (expand runs) = zlen cur -> (forall cn, In cn runs -> 1 <= snd cn) ->
  fold_left apply_sub (fix_runs cur (zlen pre) k runs) (D ++ (pre ++ cur) :: R) = D ++ (pre ++ expand runs) :: R.
Proof.
  intros HD. revert pre cur. induction runs as [|[c n] runs IH]; intros pre cur Hlen Hpos; cbn [fix_runs expand].
  - cbn [expand] in Hlen. rewrite zlen_nil in Hlen. destruct cur; [reflexivity|]. rewrite zlen_cons in Hlen. pose proof (zlen_nonneg cur). lia.
  - assert (Hn : 1 <= n) by (apply (Hpos (c, n)); now left).
    cbn [expand] in Hlen. rewrite zlen_app, zlen_repeat in Hlen. pose proof (zlen_nonneg (expand runs)).
    assert (Hcur : Z.of_nat (Z.to_nat n) <= zlen cur) by lia.
    assert (Hrest : zlen (expand runs) = zlen (skipn (Z.to_nat n) cur)).
    { unfold zlen in *. rewrite skipn_length. lia. }
    assert (Hpre : zlen (pre ++ repeat c (Z.to_nat n)) = zlen pre + n) by (rewrite zlen_app, zlen_repeat; lia).
    destruct (forallb (fun v => v =? c) (firstn (Z.to_nat n) cur) && (length (firstn (Z.to_nat n) cur) =? Z.to_nat n)%nat) eqn:E.
    + (* already correct: skipped *)
      apply andb_prop in E. destruct E as [E1 E2].
      assert (Hseg : firstn (Z.to_nat n) cur = repeat c (Z.to_nat n)).
      { apply Nat.eqb_eq in E2. rewrite <- E2 at 2.
        clear - E1. induction (firstn (Z.to_nat n) cur) as [|a l IHl]; [reflexivity|].
        cbn in E1. apply andb_prop in E1. destruct E1 as [Ea El]. cbn. f_equal; [lia|auto]. }
      rewrite <- Hpre. rewrite <- (firstn_skipn (Z.to_nat n) cur) at 2. rewrite Hseg.
      rewrite app_assoc. rewrite IH; auto.
      * now rewrite <- app_assoc.
      * intros; apply Hpos; now right.
    + cbn [fold_left]. unfold apply_sub at 2. unfold blit_spec. rewrite <- HD.
      unfold fill_rows. change (Z.to_nat 1) with 1%nat. cbn [repeat].
      rewrite blit_from_app_row.
      rewrite row_splice_app by (rewrite zlen_repeat; lia).
      rewrite repeat_length. rewrite HD.
      rewrite <- Hpre. rewrite app_assoc. rewrite IH; auto.
      * now rewrite <- app_assoc.
      * intros; apply Hpos; now right.
Qed.

Lemma fix_rows_correct maxw D cur tgt w k :
  zlen D = k -> zlen cur = zlen tgt ->
  Forall (fun r => zlen r = w) cur -> Forall (fun r => zlen r = w) tgt ->
  fold_left apply_sub (fix_rows maxw cur tgt k) (D ++ cur) = D ++ tgt.
Proof.
  revert D tgt k. induction cur as [|c cur IH]; intros D tgt k HD Hl Hc Ht.
  - destruct tgt; [reflexivity|]. rewrite zlen_cons, zlen_nil in Hl. pose proof (zlen_nonneg tgt). lia.
  - destruct tgt as [|t tgt]; [rewrite zlen_cons, zlen_nil in Hl; pose proof (zlen_nonneg cur); lia|].
    cbn [fix_rows]. rewrite fold_left_app.
    inversion Hc as [|? ? Hc1 Hc2]; subst. inversion Ht as [|? ? Ht1 Ht2]; subst.
    destruct (rle_expand maxw t) as [Hex Hok].
    pose proof (fix_runs_correct D cur [] c (zlen D) (rle maxw t) eq_refl) as Hrow.
    rewrite zlen_nil in Hrow. cbn [app] in Hrow.
    rewrite Hrow.
    + rewrite Hex. rewrite !zlen_cons in Hl.
      replace (D ++ t :: cur) with ((D ++ [t]) ++ cur) by (now rewrite <- app_assoc).
      rewrite IH; auto.
      * now rewrite <- app_assoc.
      * rewrite zlen_app, zlen_cons, zlen_nil. lia.
      * lia.
    + rewrite Hex. unfold zlen in *. lia.
    + intros cn Hin. unfold runs_ok in Hok. rewrite Forall_forall in Hok. specialize (Hok cn Hin). lia.
Qed.

(* ---------------------------------------------------------------- well-formedness is preserved *)
Lemma apply_sub_wf w h T r : rows_wf w h T -> rows_wf w h (apply_sub T r).
Proof. destruct r as [[[[x y] sw] sh] c]. intros H. unfold apply_sub. now apply blit_spec_wf. Qed.

Lemma fold_apply_sub_wf w h subs T : rows_wf w h T -> rows_wf w h (fold_left apply_sub subs T).
Proof. revert T; induction subs; intros T H; cbn; auto. apply IHsubs. now apply apply_sub_wf. Qed.

Lemma fill_rows_wf w h c : 0 <= w -> 0 <= h -> rows_wf w h (fill_rows w h c).
Proof. intros. unfold fill_rows. now apply rows_wf_repeat. Qed.

(* ---------------------------------------------------------------- the plan is correct *)
Theorem plan_correct ch base maxw maxh w h pxmod tgt :
  0 <= w -> 0 <= h -> rows_wf w h tgt ->
  fold_left apply_sub (snd (plan ch base maxw maxh w h pxmod tgt)) (fill_rows w h (fst (plan ch base maxw maxh w h pxmod tgt))) = tgt.
Proof.
  intros Hw Hh Ht. unfold plan. cbn [fst snd].
  set (bg := if pick ch base 2 =? 0 then _ else _).
  set (js := if (0 <? w) && (0 <? h) then _ else _).
  rewrite fold_left_app.
  assert (HT1 : rows_wf w h (fold_left apply_sub js (fill_rows w h bg))) by (apply fold_apply_sub_wf, fill_rows_wf; assumption).
  destruct HT1 as [H1 H2]. destruct Ht as [H3 H4].
  exact (fix_rows_correct maxw [] _ tgt w 0 eq_refl (eq_trans H1 (eq_sym H3)) H2 H4).
Qed.

(* ---------------------------------------------------------------- the sub-rectangles stay inside *)
Lemma pick_range ch i n : 0 < n -> 0 <= pick ch i n < n.
Proof. intros. unfold pick. replace (Z.max 1 n) with n by lia. apply Z.mod_pos_bound. lia. Qed.

Lemma pick_range1 ch i n : 0 <= pick ch i n < Z.max 1 n.
Proof. unfold pick. apply Z.mod_pos_bound. lia. Qed.

Lemma junk_inside ch base n maxw maxh w h tgt :
  0 < w -> 0 < h -> 1 <= maxw -> 1 <= maxh -> Forall (sub_inside w h) (junk ch base n maxw maxh w h tgt).
Proof.
  intros Hw Hh Hmw Hmh. revert base; induction n; intros base; cbn [junk]; constructor; auto.
  unfold sub_inside.
  pose proof (pick_range ch base w Hw). pose proof (pick_range ch (base + 1) h Hh).
  pose proof (pick_range1 ch (base + 2) (Z.min maxw (w - pick ch base w))).
  pose proof (pick_range1 ch (base + 3) (Z.min maxh (h - pick ch (base + 1) h))).
  lia.
Qed.

(* every sub-rectangle also respects the width cap *)
Definition sub_capped (maxw maxh : Z) (r : subr) : Prop :=
  let '(x, y, sw, sh, c) := r in sw <= maxw /\ sh <= maxh.

Lemma junk_capped ch base n maxw maxh w h tgt :
  0 < w -> 0 < h -> 1 <= maxw -> 1 <= maxh -> Forall (sub_capped maxw maxh) (junk ch base n maxw maxh w h tgt).
Proof.
  intros Hw Hh Hmw Hmh. revert base; induction n; intros base; cbn [junk]; constructor; auto.
  unfold sub_capped.
  pose proof (pick_range ch base w Hw). pose proof (pick_range ch (base + 1) h Hh).
  pose proof (pick_range1 ch (base + 2) (Z.min maxw (w - pick ch base w))).
  pose proof (pick_range1 ch (base + 3) (Z.min maxh (h - pick ch (base + 1) h))).
  lia.
Qed.

Lemma fix_runs_inside cur x y runs w h maxw :
  0 <= x -> 0 <= y < h -> 1 <= maxw -> (forall cn, In cn runs -> 1 <= snd cn <= maxw) ->
  x + fold_right (fun cn a => snd cn + a) 0 runs <= w ->
  Forall (fun r => sub_inside w h r /\ sub_capped maxw 1 r) (fix_runs cur x y runs).
Proof.
  intros Hx Hy Hm. revert cur x Hx. induction runs as [|[c n] runs IH]; intros cur x Hx Hr Hs; cbn [fix_runs]; [constructor|].
  cbn [fold_right snd] in Hs.
  assert (Hn : 1 <= n <= maxw) by (apply (Hr (c, n)); now left).
  assert (Hsum : 0 <= fold_right (fun cn a => snd cn + a) 0 runs).
  { clear - Hr. induction runs as [|[c' n'] r IHr]; cbn [fold_right snd]; [lia|].
    assert (1 <= n' <= maxw) by (apply (Hr (c', n')); right; now left).
    assert (0 <= fold_right (fun cn a => snd cn + a) 0 r); [|lia].
    apply IHr. intros cn [Hc|Hc]; apply Hr; [now left|right; now right]. }
  assert (Htail : Forall (fun r => sub_inside w h r /\ sub_capped maxw 1 r)
                         (fix_runs (skipn (Z.to_nat n) cur) (x + n) y runs)).
  { apply IH; [lia|intros; apply Hr; now right|lia]. }
  destruct (forallb _ _ && _); [exact Htail|].
  constructor; [|exact Htail]. unfold sub_inside, sub_capped. lia.
Qed.

Lemma fix_rows_inside maxw cur tgt y w h :
  1 <= maxw -> 0 <= y -> y + zlen tgt <= h -> Forall (fun r => zlen r = w) tgt ->
  Forall (fun r => sub_inside w h r /\ sub_capped maxw 1 r) (fix_rows maxw cur tgt y).
Proof.
  intros Hm. revert tgt y. induction cur as [|c cur IH]; intros tgt y Hy Hh Ht; cbn [fix_rows]; [constructor|].
  destruct tgt as [|t tgt]; [constructor|].
  rewrite zlen_cons in Hh. pose proof (zlen_nonneg tgt). inversion Ht as [|? ? Ht1 Ht2]; subst.
  apply Forall_app. split.
  - destruct (rle_expand maxw t) as [Hex Hok].
    apply fix_runs_inside; try lia.
    + intros cn Hin. unfold runs_ok in Hok. rewrite Forall_forall in Hok. specialize (Hok cn Hin). lia.
    + rewrite <- expand_len.
      * rewrite Hex. lia.
      * intros cn Hin. unfold runs_ok in Hok. rewrite Forall_forall in Hok. specialize (Hok cn Hin). lia.
  - apply IH; auto; lia.
Qed.

Theorem plan_inside ch base maxw maxh w h pxmod tgt :
  0 <= w -> 0 <= h -> 1 <= maxw -> 1 <= maxh -> rows_wf w h tgt ->
  Forall (fun r => sub_inside w h r /\ sub_capped maxw maxh r) (snd (plan ch base maxw maxh w h pxmod tgt)).
Proof.
  intros Hw Hh Hmw Hmh [Ht1 Ht2]. unfold plan. cbn [snd].
  apply Forall_app. split.
  - destruct (Z.ltb_spec 0 w), (Z.ltb_spec 0 h); cbn [andb]; try constructor.
    pose proof (junk_inside ch (base + 4) (Z.to_nat (pick ch (base + 3) 4)) maxw maxh w h tgt H H0 Hmw Hmh) as A.
    pose proof (junk_capped ch (base + 4) (Z.to_nat (pick ch (base + 3) 4)) maxw maxh w h tgt H H0 Hmw Hmh) as B.
    rewrite Forall_forall in *. intros r Hr. split; auto.
  - match goal with |- Forall _ (fix_rows ?m ?c ?t ?y) =>
      assert (A := fix_rows_inside m c t y w h Hmw (Z.le_refl 0) ltac:(lia) Ht2) end.
    eapply Forall_impl; [|exact A]. intros r [A1 A2]. split; [exact A1|].
    destruct r as [[[[x y] sw] sh] c]. unfold sub_capped in *. lia.
Qed.

(* number of sub-rectangles: at most 3 redundant ones plus one per pixel *)
Lemma fix_runs_len cur x y runs : zlen (fix_runs cur x y runs) <= zlen runs.
Proof.
  revert cur x; induction runs as [|[c n] runs IH]; intros cur x; cbn [fix_runs]; cbv zeta; [unfold zlen; cbn; lia|].
  specialize (IH (skipn (Z.to_nat n) cur) (x + n)). rewrite (zlen_cons (c, n) runs).
  destruct (forallb _ _ && _); [lia|]. rewrite zlen_cons. lia.
Qed.

Lemma rle_len maxw l : zlen (rle maxw l) <= zlen l.
Proof.
  induction l as [|a l IH]; cbn [rle]; [unfold zlen; cbn; lia|].
  destruct (rle maxw l) as [|[b n] t]; [unfold zlen in *; cbn [length] in *; lia|].
  destruct ((a =? b) && (n <? maxw)); unfold zlen in *; cbn [length] in *; lia.
Qed.

Lemma fix_rows_len maxw cur tgt y w :
  0 <= w -> Forall (fun r => zlen r = w) tgt -> zlen (fix_rows maxw cur tgt y) <= w * zlen tgt.
Proof.
  intros Hw. revert tgt y; induction cur as [|c cur IH]; intros tgt y Ht; cbn [fix_rows].
  - pose proof (zlen_nonneg tgt). change (zlen (@nil subr)) with 0. nia.
  - destruct tgt as [|t tgt]; [change (zlen (@nil subr)) with 0; change (zlen (@nil (list Z))) with 0; lia|].
    pose proof (Forall_inv Ht) as Ht1. pose proof (Forall_inv_tail Ht) as Ht2. cbn beta in Ht1.
    rewrite zlen_app, (zlen_cons t tgt).
    pose proof (fix_runs_len c 0 y (rle maxw t)). pose proof (rle_len maxw t).
    specialize (IH tgt (y + 1) Ht2). lia.
Qed.

Lemma junk_len ch base n maxw maxh w h tgt : zlen (junk ch base n maxw maxh w h tgt) = Z.of_nat n.
Proof. revert base; induction n; intros base; cbn [junk]; [reflexivity|]. rewrite zlen_cons, IHn. lia. Qed.

Theorem plan_len ch base maxw maxh w h pxmod tgt :
  0 <= w -> 0 <= h -> rows_wf w h tgt ->
  zlen (snd (plan ch base maxw maxh w h pxmod tgt)) <= 3 + w * h.
Proof.
  intros Hw Hh [Ht1 Ht2]. unfold plan. cbn [snd]. rewrite zlen_app.
  match goal with |- zlen ?a + zlen (fix_rows ?m ?c ?t ?y) <= _ =>
    pose proof (fix_rows_len m c t y w Hw Ht2); assert (zlen a <= 3) end.
  { destruct ((0 <? w) && (0 <? h)); [|rewrite zlen_nil; lia].
    rewrite junk_len. pose proof (pick_range ch (base + 3) 4 ltac:(lia)). lia. }
  rewrite Ht1 in *. lia.
Qed.
