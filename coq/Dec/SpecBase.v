(* C01/C07 - notation shared by the RFB-spec decoders (option monad over byte strings). *)
From Coq Require Import ZArith List.
From LV Require Import Enc.EncBase.
Import ListNotations.

Notation "'do' x <- a ; b" := (match a with Some x => b | None => None end)
  (at level 200, x pattern, a at level 100, b at level 200, right associativity).

(* exactly all bytes consumed *)
Definition all_consumed {A} (r : option (A * list Z)) : option A :=
  match r with
  | Some (a, []) => Some a
  | _ => None
  end.

(* big-endian unsigned field of n bytes, as nat (n <= 2 in all uses) *)
Definition take_be (n : nat) (bs : list Z) : option (nat * list Z) :=
  do (f, r) <- take n bs; Some (Z.to_nat (be_val f), r).

Definition take_pixel (bypp : nat) (bs : list Z) : option (Z * list Z) :=
  do (f, r) <- take bypp bs; Some (le_val f, r).
