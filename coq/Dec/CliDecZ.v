(* CliDecZ.v - mirror of the compressed rectangle decoders zlib.c, ultra.c, zrle.c, trle.c, tight.c
   (libvncclient), including their scratch-buffer arithmetic: every access to raw_buffer,
   client->buffer, tightPrevRow, the local palette[128] / thisRow[2048*3] arrays is made through a
   primitive that yields [Oob] when the index leaves the object.  Bytes of a scratch buffer that the
   current message did not define are "stale": reading them taints the state (content no longer
   predictable) but is not a memory-safety violation.  Definitions only. *)
From LV Require Export Dec.CliDec.
Local Open Scope Z_scope.

(* ---------------------------------------------------------------- byte cursor over a scratch buffer *)
Record bcur : Type := mkcur { bc_data : list Z; bc_pos : Z }.   (* defined bytes from the position on; absolute position *)

(* the skip count is clamped to the defined bytes so that a huge n never materialises a huge nat *)
Definition adv (c : bcur) (n : Z) : bcur := mkcur (skipn (Z.to_nat (Z.min n (zlen (bc_data c)))) (bc_data c)) (bc_pos c + n).

(* n bytes at offset k from the cursor, in a buffer of [cap] bytes *)
Definition peek_at (code cap : Z) (c : bcur) (k n : Z) : M (list Z) :=
  if n <=? 0 then ret [] else
  if cap <? bc_pos c + k + n then oobM code else
  let d := skipn (Z.to_nat k) (bc_data c) in
  if zlen d <? n
  then upd_st set_taint ;;; ret (firstn (Z.to_nat n) (d ++ repeat 0 (Z.to_nat n)))
  else ret (firstn (Z.to_nat n) d).
Definition peek (code cap : Z) (c : bcur) (n : Z) : M (list Z) := peek_at code cap c 0 n.

(* ---------------------------------------------------------------- CPIXEL variants (rfbclient.c dispatch) *)
Inductive cpv : Type := CP8 | CP15 | CP16 | CP24 | CP24Up | CP24Down | CP32.

Definition max_colour (f : pixfmt) : Z :=
  Z.lor (Z.lor (Z.shiftl (f_rmax f) (f_rshift f)) (Z.shiftl (f_gmax f) (f_gshift f))) (Z.shiftl (f_bmax f) (f_bshift f)) mod 2 ^ 32.

Definition variant_of (s : cst) : cpv :=
  let f := c_fmt s in
  if f_bpp f =? 8 then CP8 else
  if f_bpp f =? 16 then (if (31 <? c_sigmax s) || fixed s 7 then CP16 else CP15) else   (* fix 7: notes/fix_C07_1.diff *)
  let mc := max_colour f in
  let lo0 := Z.land mc 255 =? 0 in
  let hi0 := Z.land mc 4278190080 =? 0 in
  if (f_be f && lo0) || (negb (f_be f) && hi0) then CP24
  else if negb (f_be f) && lo0 then CP24Up
  else if f_be f && hi0 then CP24Down
  else CP32.

Definition realbpp (v : cpv) : Z :=
  match v with CP8 => 8 | CP15 => 15 | CP16 => 16 | CP24 | CP24Up | CP24Down => 24 | CP32 => 32 end.
Definition cbpp (v : cpv) : Z :=
  match v with CP8 => 8 | CP15 | CP16 => 16 | _ => 32 end.
Definition rbytes (v : cpv) : Z := realbpp v / 8.

(* UncompressCPixel(buffer) at offset k: reads BPP/8 bytes although the CPIXEL has REALBPP/8 *)
Definition cpix_at (code cap : Z) (v : cpv) (c : bcur) (k : Z) : M Z :=
  match v with
  | CP24 =>   (* the 4th byte lands in the unused top byte: kept 0 in the model, masked by the drivers *)
      if cap <? bc_pos c + k + 4 then oobM code else
      l <- peek_at code cap c k 3 ;; ret (le_val l)
  | CP24Up =>
      if cap <? bc_pos c + k + 4 then oobM code else
      l <- peek_at code cap c k 3 ;; ret (le_val l * 256)
  | CP24Down => l <- peek_at code cap c k 4 ;; ret (le_val l / 256)
  | _ => l <- peek_at code cap c k (cbpp v / 8) ;; ret (le_val l)
  end.

(* n CPIXELs starting at the cursor, each advancing REALBPP/8 bytes *)
Fixpoint cpixels (code cap : Z) (v : cpv) (c : bcur) (k : Z) (n : nat) : M (list Z) :=
  match n with
  | O => ret []
  | S n' => p <- cpix_at code cap v c k ;; r <- cpixels code cap v c (k + rbytes v) n' ;; ret (p :: r)
  end.

(* paint the first pixels of a w-wide tile at (x,y) in row-major order: complete rows, then a partial row *)
Definition paint_seq (code x y w : Z) (pix : list Z) : M unit :=
  write_rowsM code x y (chunks w pix).

(* palette lookup in a local "CARDBPP palette[128]": index >= 128 leaves the array; an index beyond the
   entries defined by this tile reads uninitialised stack *)
Definition pal_get (code : Z) (pal : list Z) (i : Z) : M Z :=
  if 128 <=? i then oobM code else
  match nth_error pal (Z.to_nat i) with
  | Some p => ret p
  | None => upd_st set_taint ;;; ret 0
  end.

Fixpoint mapM {A B} (f : A -> M B) (l : list A) : M (list B) :=
  match l with
  | [] => ret []
  | a :: r => b <- f a ;; bs <- mapM f r ;; ret (b :: bs)
  end.

(* packed-palette indices of one row: w indices of [bits] bits each, most significant first *)
Definition packed_row (bits w : Z) (bytes : list Z) : list Z :=
  map (fun i => let per := 8 / bits in
                (nthz bytes (Z.to_nat (i / per)) / 2 ^ (8 - bits - bits * (i mod per))) mod 2 ^ bits)
      (zseq w).

(* ---------------------------------------------------------------- Zlib (zlib.c) *)
Definition zact_get (s : cst) (i : Z) : bool := nth (Z.to_nat i) (c_zact s) false.
Definition zact_set (s : cst) (i : Z) (b : bool) : cst := set_zact s (list_set (c_zact s) (Z.to_nat i) b).

(* the next token must be a deflate block for stream [sid]; the client's inflate state for it is fresh
   exactly when it has not been initialised (or was reset): otherwise no prediction *)
Definition rd_stream (sid : Z) : M (bool * list Z) :=
  z <- rd_zblock ;;
  let '(sid', fresh, ok, data) := z in
  s <- get_st ;;
  if negb (sid' =? sid) then desyncM 4 else
  if Bool.eqb fresh (zact_get s sid) then desyncM 4 else
  upd_st (fun s => zact_set s sid true) ;;;
  ret (ok, data).

(* Zlib and ZRLE.  A server keeps one deflate stream per encoding (streams 0 and 5 of the alphabet; [c_zlibz] / [c_zrlez]
   remember that the server has started them: a block that claims to continue a stream that was never started is a script
   inconsistency, Desync).  With fix 11 (9fe693e) the client has an inflate stream per encoding as well.
   Without it BOTH encodings go through the one decompStream ([zact 0]): a block that starts its server stream while the
   client's stream is in use carries a zlib header in mid-stream - inflate reports a data error, the connection is lost
   (finding C07-F4); a block that continues its server stream while the client's stream has meanwhile been fed from the
   other one cannot be predicted (Desync) *)
Definition rd_shared (own other : cst -> bool) (mark : cst -> cst) (sid : Z) : M (bool * list Z) :=
  z <- rd_zblock ;;
  let '(sid', fresh, ok, data) := z in
  s <- get_st ;;
  if negb (sid' =? sid) then desyncM 4 else
  if negb fresh && negb (own s) then desyncM 4 else
  if fresh then
    (if zact_get s 0 then failM else upd_st (fun s => zact_set (mark s) 0 true) ;;; ret (ok, data))
  else
    (if zact_get s 0 && negb (other s) then upd_st (fun s => zact_set (mark s) 0 true) ;;; ret (ok, data)
     else desyncM 4).

Definition rd_zlib_stream : M (bool * list Z) :=
  s0 <- get_st ;;
  if fixed s0 11 then (r <- rd_stream 0 ;; upd_st (fun s => set_zlibz s true) ;;; ret r)
  else rd_shared c_zlibz c_zrlez (fun s => set_zlibz s true) 0.

Definition rd_zrle_stream : M (bool * list Z) :=
  s0 <- get_st ;;
  if fixed s0 11 then
    (z <- rd_zblock ;;
     let '(sid', fresh, ok, data) := z in
     s <- get_st ;;
     if negb (sid' =? 5) then desyncM 4 else
     if Bool.eqb fresh (c_zrlez s) then desyncM 4 else upd_st (fun s => set_zrlez s true) ;;; ret (ok, data))
  else rd_shared c_zrlez c_zlibz (fun s => set_zrlez s true) 5.

Definition dec_zlib (x y w h : Z) : M unit :=
  s <- get_st ;;
  let need := w * h * bypp_of s in
  let cap := if c_rawsz s <? need then need else c_rawsz s in
  upd_st (fun s => set_rawsz s cap) ;;;
  r <- rd_zlib_stream ;;
  let '(ok, data) := r in
  if negb ok then failM else
  if cap <? zlen data then failM else       (* "zlib inflate ran out of space!" *)
  (if zlen data <? need then upd_st set_taint else ret tt) ;;;
  copy_rect x y w h (px_of_bytes (bypp_of s) (firstn (Z.to_nat need) data)).

(* ---------------------------------------------------------------- Ultra / UltraZip (ultra.c) *)
Definition round4 (n : Z) : Z := if n mod 4 =? 0 then n else n + (4 - n mod 4).

Definition dec_ultra (x y w h : Z) : M unit :=
  s <- get_st ;;
  data <- rd_lblock ;;
  let need := w * h * bypp_of s in
  if need =? 0 then failM else
  let cap := if c_rawsz s <? need then round4 need else c_rawsz s in
  upd_st (fun s => set_rawsz s cap) ;;;
  if cap <? zlen data then failM else        (* LZO_E_OUTPUT_OVERRUN *)
  (if zlen data <? need then upd_st set_taint else ret tt) ;;;
  copy_rect x y w h (px_of_bytes (bypp_of s) (firstn (Z.to_nat need) data)).

(* the sub-rectangle walk of HandleUltraZip: numCacheRects records, NOT bounded by the decompressed length *)
Fixpoint ultrazip_walk (fuel : nat) (n cap bypp : Z) (c : bcur) : M unit :=
  if n <=? 0 then ret tt else
  match fuel with
  | O => ret tt
  | S f =>
      s0 <- get_st ;;
      if fixed s0 0 && (zlen (bc_data c) <? 12) then failM else
      hdr <- peek 40 cap c 12 ;;
      let sx := be_val (firstn 2 hdr) in
      let sy := be_val (firstn 2 (skipn 2 hdr)) in
      let sw := be_val (firstn 2 (skipn 4 hdr)) in
      let sh := be_val (firstn 2 (skipn 6 hdr)) in
      let se := be_val (firstn 4 (skipn 8 hdr)) in
      let c1 := adv c 12 in
      if se =? cE_Raw then
        s <- get_st ;;
        if fixed s 0 && (zlen (bc_data c1) <? sw * sh * bypp) then failM else
        (if check_rect s sx sy sw sh
         then bs <- peek 41 cap c1 (sw * sh * bypp) ;; copy_rect sx sy sw sh (px_of_bytes bypp bs)
         else ret tt) ;;;
        ultrazip_walk f (n - 1) cap bypp (adv c1 (sw * sh * bypp))
      else ultrazip_walk f (n - 1) cap bypp c1
  end.

Definition dec_ultrazip (rx ry rw rh : Z) : M unit :=
  s <- get_st ;;
  data <- rd_lblock ;;
  let ub := ry + rw * 65535 in
  if ub =? 0 then failM else
  (* [int] arithmetic: for ub + 500 >= 2^31 the size wraps to a negative int, the (re)allocation is skipped and the
     block is decompressed into whatever raw_buffer is - NULL when nothing was allocated yet (finding C08-F29);
     fix 9 (notes/fix_C08_9.diff) refuses such rectangles *)
  if 2 ^ 31 <=? ub + 504 then
    (if fixed s 9 then failM else
     if c_rawsz s <? 0 then (if zlen data =? 0 then ultrazip_walk (Z.to_nat rx) rx 0 (bypp_of s) (mkcur [] 0) else oobM 45) else
     if c_rawsz s <? zlen data then failM else
     ultrazip_walk (Z.to_nat rx) rx (c_rawsz s) (bypp_of s) (mkcur data 0))
  else
  let cap := if c_rawsz s <? ub + 500 then round4 (ub + 500) else c_rawsz s in
  upd_st (fun s => set_rawsz s cap) ;;;
  if cap <? zlen data then failM else
  ultrazip_walk (Z.to_nat rx) rx cap (bypp_of s) (mkcur data 0).

(* ---------------------------------------------------------------- ZRLE (zrle.c) *)
Definition size_t_of (n : Z) : Z := if n <? 0 then n + 2 ^ 64 else n.

(* run length: while ( *buffer == 0xff) { if (buffer+1 >= buffer_end) return -8; length += 255; buffer++ }
   length += *buffer; buffer++.  Structural on the defined bytes [l] (head at absolute position pos);
   bend = absolute position of buffer_end; n = bytes consumed.  When the defined bytes run out the value
   read is stale: if buffer_end lies beyond the buffer the loop may run off it (Oob), else the content is
   merely unpredictable. *)
Fixpoint zrle_runlen (l : list Z) (cap pos bend acc n : Z) : M (option (Z * Z)) :=
  match l with
  | [] => if cap <? pos + 1 then oobM 31 else
          if cap <? bend then oobM 31 else upd_st set_taint ;;; ret (Some (acc, n + 1))
  | b :: r =>
      if b =? 255 then
        if bend <=? pos + 1 then ret None else zrle_runlen r cap (pos + 1) bend (acc + 255) (n + 1)
      else ret (Some (acc + b, n + 1))
  end.

(* plain RLE tile body: pixels painted so far (reversed), cursor offset k *)
Fixpoint zrle_plain (fuel : nat) (cap : Z) (v : cpv) (c : bcur) (c0pos blen total : Z) (acc : list Z) (k : Z)
  : M (bool * list Z * Z) :=
  if total <=? zlen acc then ret (true, acc, k) else
  match fuel with
  | O => ret (true, acc, k)
  | S f =>
      let used := bc_pos c + k - c0pos in
      if blen <? used + rbytes v + 1 then ret (false, acc, k) else
      col <- cpix_at 32 cap v c k ;;
      r <- zrle_runlen (skipn (Z.to_nat (k + rbytes v)) (bc_data c)) cap (bc_pos c + k + rbytes v) (c0pos + blen) 1 0 ;;
      match r with
      | None => ret (false, acc, k)
      | Some (len, used') =>
          let n := Z.min len (total - zlen acc) in
          zrle_plain f cap v c c0pos blen total (repeat col (Z.to_nat n) ++ acc) (k + rbytes v + used')
      end
  end.

Fixpoint zrle_palrle (fuel : nat) (cap : Z) (c : bcur) (c0pos blen total : Z) (pal : list Z) (acc : list Z) (k : Z)
  : M (bool * list Z * Z) :=
  if total <=? zlen acc then ret (true, acc, k) else
  match fuel with
  | O => ret (true, acc, k)
  | S f =>
      let used := bc_pos c + k - c0pos in
      if blen <=? used then ret (false, acc, k) else
      b <- peek_at 33 cap c k 1 ;;
      let v := nthz b 0 in
      col <- pal_get 34 pal (v mod 128) ;;
      if 128 <=? v then
        if blen <=? used + 1 then ret (false, acc, k) else
        r <- zrle_runlen (skipn (Z.to_nat (k + 1)) (bc_data c)) cap (bc_pos c + k + 1) (c0pos + blen) 1 0 ;;
        match r with
        | None => ret (false, acc, k)
        | Some (len, used') =>
            let n := Z.min len (total - zlen acc) in
            zrle_palrle f cap c c0pos blen total pal (repeat col (Z.to_nat n) ++ acc) (k + 1 + used')
        end
      else zrle_palrle f cap c c0pos blen total pal (col :: acc) (k + 1)
  end.

(* HandleZRLETile: result = bytes consumed, or None for the negative error codes *)
Definition zrle_tile (cap : Z) (v : cpv) (c : bcur) (remaining x y w h : Z) : M (option Z) :=
  let blen := size_t_of remaining in
  if blen <? 1 then ret None else
  (* a stale type byte with a bogus (wrapped) buffer_length: the tile may read anywhere *)
  (match bc_data c with [] => if cap <? bc_pos c + blen then oobM 35 else ret tt | _ => ret tt end) ;;;
  tb <- peek 35 cap c 1 ;;
  let type := nthz tb 0 in
  let rb := rbytes v in
  if type =? 0 then
    if negb (realbpp v =? cbpp v) then
      if blen <? 1 + w * h * realbpp v / 8 then ret None else
      pix <- cpixels 36 cap v c 1 (Z.to_nat (w * h)) ;;
      paint_seq 37 x y w pix ;;;
      ret (Some (1 + w * h * rb))
    else
      s <- get_st ;;
      if fixed s 5 && (blen <? 1 + w * h * realbpp v / 8) then ret None else
      (if check_rect s x y w h
       then bs <- peek_at 38 cap c 1 (w * h * (cbpp v / 8)) ;; copy_rect x y w h (px_of_bytes (cbpp v / 8) bs)
       else ret tt) ;;;
      ret (Some (1 + w * h * realbpp v / 8))
  else if type =? 1 then
    s <- get_st ;;
    if fixed s 5 && (blen <? 1 + rb) then ret None else
    col <- cpix_at 39 cap v c 1 ;;
    if blen <? 1 + rb then ret None else
    fill_rect x y w h col ;;;
    ret (Some (1 + rb))
  else if type <=? 127 then
    s <- get_st ;;
    if fixed s 6 && (16 <? type) then ret None else
    let bits := if 4 <? type then (if 16 <? type then 8 else 4) else (if 2 <? type then 2 else 1) in
    let per := 8 / bits in
    let rowbytes := (w + per - 1) / per in
    if blen <? 1 + type * realbpp v / 8 + rowbytes * h then ret None else
    pal <- cpixels 42 cap v c 1 (Z.to_nat type) ;;
    let k0 := 1 + type * rb in
    rows <- mapM (fun j => bs <- peek_at 43 cap c (k0 + j * rowbytes) rowbytes ;;
                           mapM (pal_get 44 pal) (packed_row bits w bs)) (zseq h) ;;
    write_rowsM 45 x y rows ;;;
    ret (Some (k0 + rowbytes * h))
  else if type =? 128 then
    r <- zrle_plain (Z.to_nat (w * h)) cap v c (bc_pos c) blen (w * h) [] 1 ;;
    let '(ok, acc, k) := r in
    paint_seq 46 x y w (rev acc) ;;;
    if ok then ret (Some k) else ret None
  else if type =? 129 then ret None
  else
    if blen <? 2 + (type - 128) * realbpp v / 8 then ret None else
    pal <- cpixels 47 cap v c 1 (Z.to_nat (type - 128)) ;;
    r <- zrle_palrle (Z.to_nat (w * h)) cap c (bc_pos c) blen (w * h) pal [] (1 + (type - 128) * rb) ;;
    let '(ok, acc, k) := r in
    paint_seq 48 x y w (rev acc) ;;;
    if ok then ret (Some k) else ret None.

Fixpoint zrle_cols (fuel : nat) (cap : Z) (v : cpv) (c : bcur) (remaining i j rx ry rw th : Z) : M (option (bcur * Z)) :=
  match fuel with
  | O => ret (Some (c, remaining))
  | S f =>
      if rw <=? i then ret (Some (c, remaining)) else
      let tw := if rw <? i + cZRLETileWidth then rw - i else cZRLETileWidth in
      r <- zrle_tile cap v c remaining (rx + i) (ry + j) tw th ;;
      match r with
      | None => ret None
      | Some n => zrle_cols f cap v (adv c n) (remaining - n) (i + cZRLETileWidth) j rx ry rw th
      end
  end.

Fixpoint zrle_rows (fuel : nat) (cap : Z) (v : cpv) (c : bcur) (remaining j rx ry rw rh : Z) : M unit :=
  match fuel with
  | O => ret tt
  | S f =>
      if rh <=? j then ret tt else
      let th := if rh <? j + cZRLETileHeight then rh - j else cZRLETileHeight in
      r <- zrle_cols (Z.to_nat (rw / cZRLETileWidth + 1)) cap v c remaining 0 j rx ry rw th ;;
      match r with
      | None => ret tt           (* "ZRLE decoding failed": the function nevertheless returns TRUE *)
      | Some (c', rem') => zrle_rows f cap v c' rem' (j + cZRLETileHeight) rx ry rw rh
      end
  end.

(* worst-case length of a valid ZRLE tile stream for a w x h rectangle with c-byte CPIXELs: per 64x64 tile one type byte
   and a palette of at most 127 CPIXELs, per pixel at most c + 1 bytes (plain RLE with runs of length 1); the number of
   tiles is bounded by (w/64 + 1) * (h/64 + 1).  Proved for the reference encoder in CliZrleBound.v *)
Definition zrle_bound (w h c : Z) : Z := (w / 64 + 1) * (h / 64 + 1) * (1 + 127 * c) + w * h * (c + 1).

Definition dec_zrle (x y w h : Z) : M unit :=
  s <- get_st ;;
  let v := variant_of s in
  (* fix 8 (notes/fix_C08_7.diff): 4 spare bytes behind the decompressed data, because a 3-byte CPIXEL is read
     as a whole CARDBPP *)
  let slack := if fixed s 8 then 4 else 0 in
  (* fix 12 (notes/fix_C07_4.diff): raw_buffer sized by the worst case of a valid tile stream instead of 2 x raw size *)
  let minsz := (if fixed s 12 then zrle_bound w h (rbytes v) else w * h * rbytes v * 2) + slack in
  let cap := if c_rawsz s <? minsz then minsz else c_rawsz s in
  upd_st (fun s => set_rawsz s cap) ;;;
  r <- rd_zrle_stream ;;
  let '(ok, data) := r in
  if negb ok then failM else
  if cap - slack <? zlen data then failM else
  zrle_rows (Z.to_nat (h / cZRLETileHeight + 1)) cap v (mkcur data 0) (zlen data) 0 x y w h.

(* ---------------------------------------------------------------- TRLE (trle.c) *)
Record trst : Type := mktr { tr_last : Z; tr_pal : list Z; tr_bits : Z; tr_color : Z }.

(* run length of trle.c: while ( *buffer == 0xff && buffer_pos < raw_buffer_size-1) { read 1 byte to buffer+1;
   length += 255; buffer++; buffer_pos++ } length += *buffer; buffer++.  off = offset of [buffer] in raw_buffer,
   pos = buffer_pos (reset for every run, which is why the bound does not protect the buffer).
   Structural on the token stream. *)
Fixpoint trle_runlen_ts (ts : list tok) (cap cur off pos acc : Z) (s : cst) : res (Z * Z) :=
  if (cur =? 255) && (pos <? cap - 1) then
    if cap <? off + 2 then Oob 50 else
    match ts with
    | [] => More
    | TB b :: r => trle_runlen_ts r cap (b mod 256) (off + 1) (pos + 1) (acc + 255) s
    | _ :: _ => Desync 1 ts
    end
  else Ok (acc + cur, off + 1) s ts.
Definition trle_runlen (cap cur off pos acc : Z) : M (Z * Z) := fun s ts => trle_runlen_ts ts cap cur off pos acc s.

Definition cpix_of_bytes (v : cpv) (l : list Z) : Z :=
  match v with
  | CP24 => le_val (firstn 3 l)
  | CP24Up => le_val (firstn 3 l) * 256
  | CP24Down => le_val (firstn 4 l) / 256
  | _ => le_val (firstn (Z.to_nat (cbpp v / 8)) l)
  end.

(* pixels out of a freshly read byte block whose last CPIXEL reads BPP/8 - REALBPP/8 bytes past the block *)
Definition cpix_list (v : cpv) (bs : list Z) (n : nat) : list Z :=
  map (fun i => cpix_of_bytes v (skipn (i * Z.to_nat (rbytes v)) bs)) (seq 0 n).

Fixpoint trle_plain (fuel : nat) (cap : Z) (v : cpv) (total : Z) (acc : list Z) (off : Z) : M (list Z) :=
  if total <=? zlen acc then ret acc else
  match fuel with
  | O => ret acc
  | S f =>
      (if cap <? off + rbytes v + 1 then oobM 51 else ret tt) ;;;
      bs <- rd (rbytes v + 1) ;;
      (* UncompressCPixel reads cbpp/8 bytes at buffer: beyond rbytes+1 they are stale *)
      (if (rbytes v + 1 <? cbpp v / 8) && negb (match v with CP24 | CP24Up => true | _ => false end) then upd_st set_taint else ret tt) ;;;
      (if cap <? off + cbpp v / 8 then oobM 52 else ret tt) ;;;
      let col := cpix_of_bytes v (bs ++ [0; 0; 0; 0]) in
      r <- trle_runlen cap (nthz bs (Z.to_nat (rbytes v))) (off + rbytes v) (rbytes v) 1 ;;
      let '(len, off') := r in
      let n := Z.min len (total - zlen acc) in
      s0 <- get_st ;;
      trle_plain f cap v total (repeat col (Z.to_nat n) ++ acc) (if fixed s0 4 then 0 else off')
  end.

Fixpoint trle_palrle (fuel : nat) (cap : Z) (total : Z) (pal : list Z) (acc : list Z) (off : Z) : M (list Z) :=
  if total <=? zlen acc then ret acc else
  match fuel with
  | O => ret acc
  | S f =>
      (if cap <? off + 1 then oobM 53 else ret tt) ;;;
      b <- rd 1 ;;
      let v := nthz b 0 in
      col <- pal_get 54 pal (v mod 128) ;;
      if 128 <=? v then
        (if cap <? off + 2 then oobM 55 else ret tt) ;;;
        b2 <- rd 1 ;;
        r <- trle_runlen cap (nthz b2 0) (off + 1) 1 1 ;;
        let '(len, off') := r in
        let n := Z.min len (total - zlen acc) in
        s0 <- get_st ;;
        trle_palrle f cap total pal (repeat col (Z.to_nat n) ++ acc) (if fixed s0 4 then 0 else off')
      else (s0 <- get_st ;; trle_palrle f cap total pal (col :: acc) (if fixed s0 4 then 0 else off + 1))
  end.

Definition bits_of_palsize (n : Z) : Z := if 4 <? n then (if 16 <? n then 8 else 4) else (if 2 <? n then 2 else 1).

(* the body shared by "case 127" and the fall-through from a new packed palette; off = offset of [buffer] *)
Definition trle_case127 (cap : Z) (v : cpv) (x y w h : Z) (t : trst) (type off : Z) : M (trst * Z) :=
  let last := tr_last t in
  if last =? 0 then failM else
  if last =? 1 then fill_rect x y w h (tr_color t) ;;; ret (t, last) else
  if last =? 128 then failM else
  let '(last', bits) := if 130 <=? last then (last mod 128, bits_of_palsize (last mod 128)) else (last, tr_bits t) in
  if last' <=? 16 then
    let per := 8 / bits in
    let rowbytes := (w + per - 1) / per in
    (if cap <? off + rowbytes * h then oobM 56 else ret tt) ;;;
    bs <- rd (rowbytes * h) ;;
    rows <- mapM (fun j => mapM (pal_get 57 (tr_pal t)) (packed_row bits w (skipn (Z.to_nat (j * rowbytes)) bs))) (zseq h) ;;
    write_rowsM 58 x y rows ;;;
    ret (mktr last' (tr_pal t) bits (tr_color t), last')
  else failM.

Definition trle_tile (cap : Z) (v : cpv) (x y w h : Z) (t : trst) : M trst :=
  type <- rd_u8 ;;
  let rb := rbytes v in
  if type =? 0 then
    let n := w * h * realbpp v / 8 in
    (if cap <? n then oobM 59 else ret tt) ;;;
    bs <- rd n ;;
    (if negb (realbpp v =? cbpp v) then
       (match v with CP24 | CP24Up => ret tt | _ => upd_st set_taint end) ;;;
       (if cap <? (w * h - 1) * rb + cbpp v / 8 then oobM 60 else ret tt) ;;;
       paint_seq 61 x y w (cpix_list v (bs ++ [0; 0; 0; 0]) (Z.to_nat (w * h)))
     else copy_rect x y w h (px_of_bytes (cbpp v / 8) bs)) ;;;
    ret t                                   (* type = last_type: last_type unchanged *)
  else if type =? 1 then
    bs <- rd rb ;;
    (if (rb <? cbpp v / 8) && negb (match v with CP24 | CP24Up => true | _ => false end) then upd_st set_taint else ret tt) ;;;
    let col := cpix_of_bytes v (bs ++ [0; 0; 0; 0]) in
    fill_rect x y w h col ;;;
    ret (mktr 1 (tr_pal t) (tr_bits t) col)
  else if type =? 127 then
    r <- trle_case127 cap v x y w h t type 0 ;;
    ret (mktr (snd r) (tr_pal (fst r)) (tr_bits (fst r)) (tr_color (fst r)))
  else if type =? 128 then
    acc <- trle_plain (Z.to_nat (w * h)) cap v (w * h) [] 0 ;;
    paint_seq 62 x y w (rev acc) ;;;
    ret t
  else if type =? 129 then
    acc <- trle_palrle (Z.to_nat (w * h)) cap (w * h) (tr_pal t) [] 0 ;;
    paint_seq 63 x y w (rev acc) ;;;
    ret t
  else if type <=? 16 then
    let n := type * realbpp v / 8 in
    bs <- rd n ;;
    (if negb (realbpp v =? cbpp v) then (match v with CP24 | CP24Up => ret tt | _ => upd_st set_taint end) else ret tt) ;;;
    let pal := cpix_list v (bs ++ [0; 0; 0; 0]) (Z.to_nat type) in
    let t1 := mktr type pal (if 4 <? type then 4 else if 2 <? type then 2 else 1) (tr_color t) in
    r <- trle_case127 cap v x y w h t1 type (type * rb) ;;
    ret (mktr (snd r) (tr_pal (fst r)) (tr_bits (fst r)) (tr_color (fst r)))
  else if 130 <=? type then
    let n := (type - 128) * realbpp v / 8 in
    bs <- rd n ;;
    (if negb (realbpp v =? cbpp v) then (match v with CP24 | CP24Up => ret tt | _ => upd_st set_taint end) else ret tt) ;;;
    let pal := cpix_list v (bs ++ [0; 0; 0; 0]) (Z.to_nat (type - 128)) in
    s0 <- get_st ;;      (* d9a5962: every run, the first one included, is read to the start of raw_buffer *)
    acc <- trle_palrle (Z.to_nat (w * h)) cap (w * h) pal [] (if fixed s0 4 then 0 else (type - 128) * rb) ;;
    paint_seq 64 x y w (rev acc) ;;;
    ret (mktr type pal (tr_bits t) (tr_color t))
  else failM.

Fixpoint trle_cols (fuel : nat) (cap : Z) (v : cpv) (cx y rx rw h : Z) (t : trst) : M trst :=
  match fuel with
  | O => ret t
  | S f =>
      if rx + rw <=? cx then ret t else
      let w := if rx + rw - cx <? cTRLE_tile then rx + rw - cx else cTRLE_tile in
      t' <- trle_tile cap v cx y w h t ;;
      trle_cols f cap v (cx + cTRLE_tile) y rx rw h t'
  end.

Fixpoint trle_rows (fuel : nat) (cap : Z) (v : cpv) (cy rx ry rw rh : Z) (t : trst) : M unit :=
  match fuel with
  | O => ret tt
  | S f =>
      if ry + rh <=? cy then ret tt else
      let h := if ry + rh - cy <? cTRLE_tile then ry + rh - cy else cTRLE_tile in
      t' <- trle_cols (Z.to_nat (rw / cTRLE_tile + 1)) cap v rx cy rx rw h t ;;
      trle_rows f cap v (cy + cTRLE_tile) rx ry rw rh t'
  end.

Definition dec_trle (x y w h : Z) : M unit :=
  s <- get_st ;;
  let v := variant_of s in
  let minsz := cTRLE_tile * cTRLE_tile * rbytes v * 2 in
  let cap := if c_rawsz s <? minsz then minsz else c_rawsz s in
  upd_st (fun s => set_rawsz s cap) ;;;
  trle_rows (Z.to_nat (h / cTRLE_tile + 1)) cap v y x y w h (mktr 0 [] 0 0).

(* ---------------------------------------------------------------- Tight (tight.c) *)
Definition is888 (f : pixfmt) : bool :=
  (f_bpp f =? 32) && (f_depth f =? 24) && (f_rmax f =? 255) && (f_gmax f =? 255) && (f_bmax f =? 255).

(* RGB24_TO_PIXEL32 on a little-endian host: NOSWAP for a little-endian format, SWAP otherwise *)
Definition rgb24_px32 (f : pixfmt) (r g b : Z) : Z :=
  if f_be f
  then Z.lor (Z.lor (Z.shiftl r (24 - f_rshift f)) (Z.shiftl g (24 - f_gshift f))) (Z.shiftl b (24 - f_bshift f)) mod 2 ^ 32
  else Z.lor (Z.lor (Z.shiftl r (f_rshift f)) (Z.shiftl g (f_gshift f))) (Z.shiftl b (f_bshift f)) mod 2 ^ 32.

(* RGB_TO_PIXEL(BPP, r, g, b), little-endian format *)
Definition rgb_px (f : pixfmt) (r g b : Z) : Z :=
  Z.lor (Z.lor (Z.shiftl (Z.land r (f_rmax f)) (f_rshift f)) (Z.shiftl (Z.land g (f_gmax f)) (f_gshift f)))
        (Z.shiftl (Z.land b (f_bmax f)) (f_bshift f)) mod 2 ^ f_bpp f.

Fixpoint rd_compact_aux (n : nat) : M Z :=
  b0 <- rd_u8 ;;
  if b0 <? 128 then ret b0 else
  b1 <- rd_u8 ;;
  if b1 <? 128 then ret (b0 mod 128 + b1 * 128) else
  b2 <- rd_u8 ;;
  ret (b0 mod 128 + (b1 mod 128) * 128 + b2 * 16384).
Definition rd_compact : M Z := rd_compact_aux O.

Inductive tfilter : Type := TFCopy | TFPalette (pal : list Z) | TFGradient.

Definition clampz (lo hi v : Z) : Z := if hi <? v then hi else if v <? lo then lo else v.

(* one row of the gradient filter; prev = previous decoded row as a list of (r,g,b); returns the decoded
   components of this row.  [cut]: 24-bit variant (bytes, modulo 256) else field variant (& max) *)
Fixpoint grad_row (maxs : Z * Z * Z) (cut : bool) (src : list (Z * Z * Z)) (prev : list (Z * Z * Z))
         (left upleft : Z * Z * Z) (first : bool) : list (Z * Z * Z) :=
  match src with
  | [] => []
  | (dr, dg, db) :: src' =>
      let '(ur, ug, ub) := match prev with u :: _ => u | [] => (0, 0, 0) end in
      let '(mr, mg, mb) := maxs in
      let '(lr, lg, lb) := left in
      let '(qr, qg, qb) := upleft in
      let est c_up c_left c_ul m := if first then c_up else clampz 0 m (c_up + c_left - c_ul) in
      let fin d e m := if cut then (e + d) mod 256 else Z.land (d + e) m in
      let p := (fin dr (est ur lr qr mr) mr, fin dg (est ug lg qg mg) mg, fin db (est ub lb qb mb) mb) in
      p :: grad_row maxs cut src' (match prev with _ :: t => t | [] => [] end) p (ur, ug, ub) false
  end.

Fixpoint grad_rows (f : pixfmt) (cut : bool) (rows : list (list (Z * Z * Z))) (prev : list (Z * Z * Z))
  : list (list Z) * list (Z * Z * Z) :=
  match rows with
  | [] => ([], prev)
  | r :: rest =>
      let maxs := if cut then (255, 255, 255) else (f_rmax f, f_gmax f, f_bmax f) in
      let dec := grad_row maxs cut r prev (0, 0, 0) (0, 0, 0) true in
      let px := map (fun p : Z * Z * Z => let '(a, b, c) := p in if cut then rgb24_px32 f a b c else rgb_px f a b c) dec in
      let '(more, last) := grad_rows f cut rest dec in
      (px :: more, last)
  end.

(* source components of the gradient filter: 3 bytes per pixel when cut, else the shifted pixel *)
Definition grad_src (f : pixfmt) (cut : bool) (bypp : Z) (rowbytes : list Z) : list (Z * Z * Z) :=
  if cut then map (fun t => (nthz t 0, nthz t 1, nthz t 2)) (chunks 3 rowbytes)
  else map (fun t => let p := le_val t in
                     (Z.shiftr p (f_rshift f) mod 65536, Z.shiftr p (f_gshift f) mod 65536, Z.shiftr p (f_bshift f) mod 65536))
           (chunks bypp rowbytes).

Definition grad_fin (f : pixfmt) (cut : bool) (d e m : Z) : Z := if cut then (e + d) mod 256 else Z.land (d + e) m.

(* filterFn(client, rx, ry + done, numRows) for all complete rows of [data]; returns the new previous row *)
Definition tight_rows (code : Z) (f : pixfmt) (flt : tfilter) (cut : bool) (bypp rx y0 rw rowsize : Z)
           (rowsdata : list (list Z)) (prev : list (Z * Z * Z)) : M (list (Z * Z * Z)) :=
  match flt with
  | TFCopy =>
      let rows := map (fun rb => if cut then map (fun t => rgb24_px32 f (nthz t 0) (nthz t 1) (nthz t 2)) (chunks 3 rb)
                                 else px_of_bytes bypp rb) rowsdata in
      write_rowsM code rx y0 rows ;;; ret prev
  | TFPalette pal =>
      rows <- mapM (fun rb => if zlen pal =? 2
                              then mapM (fun i => ret (nth (Z.to_nat i) pal 0)) (packed_row 1 rw rb)
                              else mapM (fun i => match nth_error pal (Z.to_nat i) with
                                                  | Some p => ret p
                                                  | None => upd_st set_taint ;;; ret 0
                                                  end) (firstn (Z.to_nat rw) rb)) rowsdata ;;
      write_rowsM code rx y0 rows ;;; ret prev
  | TFGradient =>
      if cGradientRowMax <? rw then oobM (code + 1) else       (* thisRow[2048*3] on the stack *)
      let '(rows, last) := grad_rows f cut (map (grad_src f cut bypp) rowsdata) prev in
      write_rowsM code rx y0 rows ;;; ret last
  end.

(* FilterGradient24 / FilterGradientBPP store the first pixel of every row unconditionally ("dst[y*client->width] = ...")
   even when the rectangle is 0 pixels wide: pixel index (ry + j) * width + rx for j < rh, computed from whatever the row
   buffers hold.  For rx = width that is column 0 of the NEXT row, and one pixel past the framebuffer for the last row
   (finding C08-F31; fix 10 = a24a50e returns early) *)
Definition write_lin (code x y : Z) : M unit :=
  s <- get_st ;;
  if c_w s <=? 0 then oobM code else
  write_rowsM code (x mod c_w s) (y + x / c_w s) [[0]].
Definition grad_zero_width (code rx ry rh : Z) : M unit :=
  upd_st set_taint ;;; mapM (fun j => write_lin code rx (ry + j)) (zseq rh) ;;; ret tt.

Definition dec_tight (rx ry rw rh : Z) : M unit :=
  s <- get_st ;;
  let f := c_fmt s in
  let bypp := bypp_of s in
  c0 <- rd_u8 ;;
  (* stream resets *)
  upd_st (fun s => fold_left (fun s i => if flag c0 (2 ^ i) then zact_set s (i + 1) false else s) [0; 1; 2; 3] s) ;;;
  let cc := c0 / 16 in
  let nozlib := Z.land cc cTightNoZlib =? cTightNoZlib in
  let cc := if nozlib then Z.land cc (Z.lnot cTightNoZlib) mod 16 else cc in
  if cc =? cTightFill then
    (if is888 f then b <- rd 3 ;; fill_rect rx ry rw rh (rgb24_px32 f (nthz b 0) (nthz b 1) (nthz b 2))
     else p <- rd_px bypp ;; fill_rect rx ry rw rh p)
  else if cc =? cTightJpeg then (if bypp =? 1 then failM else desyncM 5)
  else if cTightMaxSubencoding <? cc then failM
  else
    fl <- (if flag cc cTightExplicitFilter then
             fid <- rd_u8 ;;
             if fid =? cTightFilterCopy then ret (Some (TFCopy, if is888 f then 24 else f_bpp f))
             else if fid =? cTightFilterPalette then
               nc <- rd_u8 ;;
               let n := nc + 1 in
               if n <? 2 then ret None else
               if is888 f then
                 b <- rd (n * 3) ;;
                 ret (Some (TFPalette (map (fun t => rgb24_px32 f (nthz t 0) (nthz t 1) (nthz t 2)) (chunks 3 b)),
                            if n =? 2 then 1 else 8))
               else
                 b <- rd (n * bypp) ;;
                 ret (Some (TFPalette (px_of_bytes bypp b), if n =? 2 then 1 else 8))
             else if (fid =? cTightFilterGradient) && fixed s 2 && (cGradientRowMax <? rw) then ret None
             else if fid =? cTightFilterGradient then
               (* memset(tightPrevRow, 0, rw*3 [*2]) *)
               (if csizeof_tightPrevRow <? (if is888 f then rw * 3 else rw * 6) then oobM 70 else ret tt) ;;;
               ret (Some (TFGradient, if is888 f then 24 else f_bpp f))
             else failM
           else ret (Some (TFCopy, if is888 f then 24 else f_bpp f))) ;;
    match fl with
    | None => failM
    | Some (flt, bitspixel) =>
        let cut := is888 f in
        let rowsize := (rw * bitspixel + 7) / 8 in
        let prev0 := repeat (0, 0, 0) (Z.to_nat rw) in
        if rh * rowsize <? cTIGHT_MIN_TO_COMPRESS then
          b <- rd_buf 71 cRFB_BUFFER_SIZE (rh * rowsize) ;;
          (match flt with
           | TFGradient => if (rw =? 0) && negb (fixed s 10) then grad_zero_width 79 rx ry rh else ret tt
           | _ => ret tt
           end) ;;;
          tight_rows 72 f flt cut bypp rx ry rw rowsize (firstn (Z.to_nat rh) (chunks rowsize b)) prev0 ;;; ret tt
        else if nozlib then
          len <- rd_compact ;;
          if len <=? 0 then failM else
          if cRFB_BUFFER_SIZE <? len then failM else
          if fixed s 3 && negb (len =? rh * rowsize) then failM else
          b <- rd len ;;
          (* filterFn(client, rx, ry, rh) reads rh rows from client->buffer whatever was received *)
          (if cRFB_BUFFER_SIZE <? rh * rowsize then oobM 74 else ret tt) ;;;
          (if len <? rh * rowsize then upd_st set_taint else ret tt) ;;;
          tight_rows 75 f flt cut bypp rx ry rw rowsize
                     (firstn (Z.to_nat rh) (chunks rowsize (b ++ repeat 0 (Z.to_nat (rh * rowsize - len))))) prev0 ;;; ret tt
        else
          r <- rd_stream (cc mod 4 + 1) ;;
          let '(ok, data) := r in
          let bufsize := Z.land (cRFB_BUFFER_SIZE * bitspixel / (bitspixel + f_bpp f)) 4294967292 in
          if bufsize <? rowsize then failM else
          if negb ok then failM else
          (* every complete row of the decompressed data is handed to the filter, rh is not consulted *)
          let nrows := zlen data / rowsize in
          if fixed s 1 && (rh <? nrows) then failM else
          tight_rows 77 f flt cut bypp rx ry rw rowsize (firstn (Z.to_nat nrows) (chunks rowsize data)) prev0 ;;;
          if nrows =? rh then ret tt else failM
    end.
