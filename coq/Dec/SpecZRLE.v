(* RFB spec 7.7.6 ZRLE (payload after inflating the per-connection zlib stream): 64x64 tiles,
   left-to-right, top-to-bottom, each with a subencoding byte:
     0 raw CPIXELs | 1 solid | 2..16 packed palette (1,2,4 bits per index, rows padded, MSB first)
     | 128 plain RLE | 130..255 palette RLE (palette size = byte - 128) | 17..127, 129 unused.
   Run length = 1 + sum of the length bytes, a byte 255 announces a further byte.
   CPIXEL = 3 bytes iff true colour, 32 bpp, depth <= 24 and the colour bits fit in the least
   or the most significant 3 bytes of the pixel value. *)
From Coq Require Import ZArith List Lia Bool Arith.
From LV Require Import Enc.EncBase Dec.SpecBase.
Import ListNotations.
Local Open Scope Z_scope.

(* 0: full pixel; 1: wire bytes 0..2 kept (byte 3 is zero); 2: wire bytes 1..3 kept (byte 0 is zero) *)
Definition spec_cmode (bpp depth be tc rmax gmax bmax rs gs bs : Z) : nat :=
  if (bpp =? 32) && negb (tc =? 0) && (depth <=? 24) then
    let maxpix := Z.lor (Z.lor (Z.shiftl rmax rs) (Z.shiftl gmax gs)) (Z.shiftl bmax bs) in
    let fitsLS := maxpix <? 16777216 in
    let fitsMS := Z.land maxpix 255 =? 0 in
    let little := be =? 0 in
    (* when the colour bits fit both ways the specification does not say which 3 bytes are sent;
       every implementation known to us keeps the first 3 bytes in wire order in that case *)
    if (fitsLS && little) || (fitsMS && negb little) then 1%nat
    else if (fitsLS && negb little) || (fitsMS && little) then 2%nat
    else 0%nat
  else 0%nat.

Definition take_cpixel (bypp cmode : nat) (bs : list Z) : option (Z * list Z) :=
  match cmode with
  | 1%nat => do (f, r) <- take 3 bs; Some (le_val f, r)
  | 2%nat => do (f, r) <- take 3 bs; Some (le_val (0 :: f), r)
  | _ => take_pixel bypp bs
  end.

Fixpoint take_cpixels (bypp cmode : nat) (n : nat) (bs : list Z) : option (list Z * list Z) :=
  match n with
  | O => Some ([], bs)
  | S k =>
    do (p, r) <- take_cpixel bypp cmode bs;
    do (ps, r') <- take_cpixels bypp cmode k r;
    Some (p :: ps, r')
  end.

Fixpoint take_runlen (bs : list Z) (acc : Z) : option (Z * list Z) :=
  match bs with
  | [] => None
  | b :: r => if b =? 255 then take_runlen r (acc + 255) else Some (acc + b + 1, r)
  end.

Definition nth_zs (l : list Z) (i : Z) : option Z := if i <? 0 then None else nth_error l (Z.to_nat i).

Fixpoint dec_plain_rle (fuel bypp cmode : nat) (remaining : Z) (bs : list Z) : option (list Z * list Z) :=
  if remaining =? 0 then Some ([], bs) else
  match fuel with
  | O => None
  | S f =>
    do (p, r1) <- take_cpixel bypp cmode bs;
    do (len, r2) <- take_runlen r1 0;
    if remaining <? len then None else
    do (rest, r3) <- dec_plain_rle f bypp cmode (remaining - len) r2;
    Some (repeat p (Z.to_nat len) ++ rest, r3)
  end.

Fixpoint dec_pal_rle (fuel : nat) (pal : list Z) (remaining : Z) (bs : list Z) : option (list Z * list Z) :=
  if remaining =? 0 then Some ([], bs) else
  match fuel with
  | O => None
  | S f =>
    match bs with
    | [] => None
    | b :: r1 =>
      do (idx, len, r2) <- (if b <? 128 then Some (b, 1, r1)
                            else do (l, r) <- take_runlen r1 0; Some (b - 128, l, r));
      do p <- nth_zs pal idx;
      if remaining <? len then None else
      do (rest, r3) <- dec_pal_rle f pal (remaining - len) r2;
      Some (repeat p (Z.to_nat len) ++ rest, r3)
    end
  end.

Fixpoint opt_map {A B} (f : A -> option B) (l : list A) : option (list B) :=
  match l with
  | [] => Some []
  | a :: t => do b <- f a; do bs <- opt_map f t; Some (b :: bs)
  end.

(* the k base-B digits of b, most significant first *)
Fixpoint byte_digits (k : nat) (B : Z) (b : Z) : list Z :=
  match k with
  | O => []
  | S k' => byte_digits k' B (b / B) ++ [b mod B]
  end.

(* a row of packed palette indices: every byte holds 8/bppp indices, most significant first;
   the indices beyond the row width (padding of the last byte) are ignored *)
Definition unpack_row (bppp : Z) (w : nat) (pal : list Z) (bytes : list Z) : option (list Z) :=
  let ds := firstn w (flat_map (byte_digits (Z.to_nat (8 / bppp)) (2 ^ bppp)) bytes) in
  if Nat.eqb (length ds) w then opt_map (nth_zs pal) ds else None.

Fixpoint dec_packed_rows (bppp : Z) (w : nat) (pal : list Z) (h : nat) (bs : list Z) : option (grid * list Z) :=
  match h with
  | O => Some ([], bs)
  | S k =>
    do (rb, r1) <- take (Z.to_nat ((Z.of_nat w * bppp + 7) / 8)) bs;
    do row <- unpack_row bppp w pal rb;
    do (g, r2) <- dec_packed_rows bppp w pal k r1;
    Some (row :: g, r2)
  end.

Fixpoint rows_of (w h : nat) (l : list Z) : option grid :=
  match h with
  | O => match l with [] => Some [] | _ => None end
  | S k => do (r, rest) <- take w l; do g <- rows_of w k rest; Some (r :: g)
  end.

Definition dec_zrle_tile (bypp cmode tw th : nat) (bs : list Z) : option (grid * list Z) :=
  match bs with
  | [] => None
  | sub :: r0 =>
    let n := (tw * th)%nat in
    if sub =? 0 then
      do (ps, r) <- take_cpixels bypp cmode n r0; do g <- rows_of tw th ps; Some (g, r)
    else if sub =? 1 then
      do (p, r) <- take_cpixel bypp cmode r0; Some (mk_grid tw th p, r)
    else if sub <=? 16 then
      do (pal, r1) <- take_cpixels bypp cmode (Z.to_nat sub) r0;
      let bppp := if sub =? 2 then 1 else if sub <=? 4 then 2 else 4 in
      dec_packed_rows bppp tw pal th r1
    else if sub =? 128 then
      do (ps, r) <- dec_plain_rle n bypp cmode (Z.of_nat n) r0; do g <- rows_of tw th ps; Some (g, r)
    else if 130 <=? sub then
      do (pal, r1) <- take_cpixels bypp cmode (Z.to_nat (sub - 128)) r0;
      do (ps, r) <- dec_pal_rle n pal (Z.of_nat n) r1; do g <- rows_of tw th ps; Some (g, r)
    else None
  end.

Fixpoint dec_zrle_tiles (bypp cmode : nat) (ts : list (nat * nat * nat * nat)) (bs : list Z) (canvas : grid)
  : option (grid * list Z) :=
  match ts with
  | [] => Some (canvas, bs)
  | (x, y, tw, th) :: ts' =>
    do (t, rest) <- dec_zrle_tile bypp cmode tw th bs;
    dec_zrle_tiles bypp cmode ts' rest (paste canvas x y t)
  end.

Definition dec_zrle_on (canvas0 : grid) (bypp cmode w h : nat) (bs : list Z) : option grid :=
  all_consumed (dec_zrle_tiles bypp cmode (tiles w h 64 64) bs canvas0).

Definition dec_zrle (bypp cmode w h : nat) (bs : list Z) : option grid :=
  dec_zrle_on (mk_grid w h 0) bypp cmode w h bs.
