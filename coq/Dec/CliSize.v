(* CliSize.v - the framebuffer size stays below 2^31 bytes (audit C08 item 4).  The C client indexes the framebuffer with
   [int] arithmetic (x + y * width, * bytes per pixel); the mirror computes in Z.  The two agree as long as
   width * height * bytes-per-pixel < 2^31.  This file proves that bound is an INVARIANT of the mirror: the pixel format never
   changes, and the dimensions change only through [resize], which asks the application's MallocFrameBuffer - the harness
   policy ([harness_max_fb] = 4 MiB) refuses anything larger.  Every theorem of C08 is to be read for states with [size31]. *)
From LV Require Import Dec.CliBase Dec.CliFbProofs Dec.CliDec Dec.CliDecZ Dec.CliMsg Dec.CliSound.
Require Import ZifyBool Lia.
Local Open Scope Z_scope.

Definition size31 (s : cst) : Prop := c_w s * c_h s * bypp_of s < 2 ^ 31.

Definition szb {A} (m : M A) : Prop :=
  forall s ts, match m s ts with Ok _ s' _ => c_fmt s' = c_fmt s /\ (size31 s -> size31 s') | _ => True end.

Lemma szb_same s s' : c_fmt s' = c_fmt s -> c_w s' = c_w s -> c_h s' = c_h s ->
  c_fmt s' = c_fmt s /\ (size31 s -> size31 s').
Proof. intros E1 E2 E3. split; [exact E1|]. unfold size31, bypp_of. now rewrite E1, E2, E3. Qed.

Lemma szb_ret {A} (a : A) : szb (ret a).
Proof. intros s ts. now apply szb_same. Qed.
Lemma szb_fail {A} : szb (@failM A).
Proof. intros s ts. exact I. Qed.
Lemma szb_oob {A} c : szb (@oobM A c).
Proof. intros s ts. exact I. Qed.
Lemma szb_desyncM {A} c : szb (@desyncM A c).
Proof. intros s ts. exact I. Qed.
Lemma szb_const {A} (r : res A) : match r with Ok _ _ _ => False | _ => True end -> szb (fun _ _ => r).
Proof. intros Hr s ts. destruct r; auto; contradiction. Qed.
Lemma szb_get : szb get_st.
Proof. intros s ts. now apply szb_same. Qed.
Lemma szb_upd f : (forall s, c_fmt (f s) = c_fmt s /\ c_w (f s) = c_w s /\ c_h (f s) = c_h s) -> szb (upd_st f).
Proof. intros H s ts. destruct (H s) as (A & B & C). now apply szb_same. Qed.
Lemma szb_log e : szb (log_ev e).
Proof. apply szb_upd. intros; repeat split; reflexivity. Qed.
Lemma szb_send bs : szb (send bs).
Proof. apply szb_upd. intros; repeat split; reflexivity. Qed.
Lemma szb_bind {A B} (m : M A) (k : A -> M B) : szb m -> (forall a, szb (k a)) -> szb (bind m k).
Proof.
  intros Hm Hk s ts. unfold bind. specialize (Hm s ts). destruct (m s ts) as [a s1 ts1| | | |]; auto.
  destruct Hm as [E1 I1]. specialize (Hk a s1 ts1). destruct (k a s1 ts1) as [b s2 ts2| | | |]; auto.
  destruct Hk as [E2 I2]. split; [congruence|auto].
Qed.
Hint Resolve szb_ret szb_fail szb_oob szb_get szb_log szb_send szb_desyncM : szt.

Lemma szb_rd n : szb (rd n).
Proof. intros s ts. unfold rd. destruct (take_bytes ts n); try exact I. now apply szb_same. Qed.
Lemma szb_rd_zblock : szb rd_zblock.
Proof. intros s ts. unfold rd_zblock. destruct ts as [|[| |] r]; try exact I. now apply szb_same. Qed.
Lemma szb_rd_lblock : szb rd_lblock.
Proof. intros s ts. unfold rd_lblock. destruct ts as [|[| |] r]; try exact I. now apply szb_same. Qed.
Lemma szb_write_rows c x y rows : szb (write_rowsM c x y rows).
Proof. intros s ts. unfold write_rowsM. destruct (fb_write_rows (c_fb s) x y rows); [now apply szb_same|exact I]. Qed.
Lemma szb_fill_rect x y w h c : szb (fill_rect x y w h c).
Proof. intros s ts. unfold fill_rect. destruct (check_rect s x y w h); [apply szb_write_rows|now apply szb_same]. Qed.
Lemma szb_copy_rect x y w h pix : szb (copy_rect x y w h pix).
Proof.
  intros s ts. unfold copy_rect. destruct (check_rect s x y w h); [|now apply szb_same].
  destruct (zlen pix <? w * h); [|apply szb_write_rows].
  pose proof (szb_write_rows 2 x y (take_rows w h pix) (set_taint s) ts) as H.
  destruct (write_rowsM 2 x y (take_rows w h pix) (set_taint s) ts); auto.
Qed.
Lemma szb_copy_from_rect sx sy w h dx dy : szb (copy_from_rect sx sy w h dx dy).
Proof.
  intros s ts. unfold copy_from_rect.
  destruct (negb (check_rect s sx sy w h)); [now apply szb_same|].
  destruct (negb (check_rect s dx dy w h)); [now apply szb_same|].
  match goal with |- match (match ?e with _ => _ end) with _ => _ end => destruct e end; [now apply szb_same|exact I].
Qed.
Lemma szb_trle_runlen cap cur off pos acc : szb (trle_runlen cap cur off pos acc).
Proof.
  intros s ts. unfold trle_runlen. revert cur off pos acc.
  induction ts as [|t ts IH]; intros cur off pos acc; cbn [trle_runlen_ts].
  - destruct ((cur =? 255) && (pos <? cap - 1)); [destruct (cap <? off + 2); exact I|now apply szb_same].
  - destruct ((cur =? 255) && (pos <? cap - 1)); [|now apply szb_same].
    destruct (cap <? off + 2); [exact I|]. destruct t; try exact I. apply IH.
Qed.
Hint Resolve szb_rd szb_rd_zblock szb_rd_lblock szb_write_rows szb_fill_rect szb_copy_rect szb_copy_from_rect szb_trle_runlen : szt.

Lemma szb_fold_zact c0 : szb (upd_st (fun s => fold_left (fun s i => if flag c0 (2 ^ i) then zact_set s (i + 1) false else s) [0; 1; 2; 3] s)).
Proof.
  apply szb_upd. intros s. cbn [fold_left].
  repeat match goal with |- context [if ?b then _ else _] => destruct b end; repeat split; reflexivity.
Qed.
Lemma fold_screen_same (g : list Z -> bool) (wh : list Z -> Z * Z) l : forall s,
  let s' := fold_left (fun s r => if g r then set_screen s (wh r) else s) l s in
  c_fmt s' = c_fmt s /\ c_w s' = c_w s /\ c_h s' = c_h s.
Proof.
  induction l as [|r l IH]; intros s; cbn [fold_left]; [auto|].
  destruct (g r); [|apply IH]. destruct (IH (set_screen s (wh r))) as (A & B & C). cbv zeta. rewrite A, B, C. auto.
Qed.
Lemma szb_fold_screen (g : list Z -> bool) (wh : list Z -> Z * Z) l :
  szb (upd_st (fun s => fold_left (fun s r => if g r then set_screen s (wh r) else s) l s)).
Proof. apply szb_upd. intros s. apply fold_screen_same. Qed.

(* ---------------------------------------------------------------- generic traversal tactic *)
Ltac szt_step :=
  first
    [ apply szb_ret | apply szb_fail | apply szb_oob | apply szb_get
    | solve [auto with szt]
    | apply szb_bind; [|intros]
    | match goal with
      | |- szb (if ?b then _ else _) => destruct b
      | |- szb (match ?x with _ => _ end) => destruct x
      | |- szb (let '(_, _) := ?x in _) => destruct x
      | |- szb (fun _ _ => More) => apply szb_const; exact I
      | |- szb (desyncM _) => apply szb_desyncM
      | |- szb (fun _ _ => Fail) => apply szb_const; exact I
      | |- szb (fun _ _ => Oob _) => apply szb_const; exact I
      | |- szb (upd_st _) => apply szb_upd; intros ?; repeat split; reflexivity
      end ].
Ltac szt := repeat szt_step.

Lemma szb_rd_buf c cap n : szb (rd_buf c cap n).
Proof. unfold rd_buf. szt. Qed.
Lemma szb_rd_u8 : szb rd_u8.
Proof. unfold rd_u8. szt. Qed.
Lemma szb_rd_u16 : szb rd_u16.
Proof. unfold rd_u16. szt. Qed.
Lemma szb_rd_u32 : szb rd_u32.
Proof. unfold rd_u32. szt. Qed.
Lemma szb_rd_px b : szb (rd_px b).
Proof. unfold rd_px. szt. Qed.
Hint Resolve szb_rd_buf szb_rd_u8 szb_rd_u16 szb_rd_u32 szb_rd_px : szt.

Lemma szb_mapM {A B} (f : A -> M B) l : (forall a, szb (f a)) -> szb (mapM f l).
Proof. intros Hf. induction l; cbn [mapM]; szt; try apply Hf. Qed.

(* ---------------------------------------------------------------- CliDec.v *)
Lemma szb_send_fur i x y w h : szb (send_fur i x y w h).
Proof. unfold send_fur. szt. Qed.
Hint Resolve szb_send_fur : szt.
Lemma szb_send_incr : szb send_incr.
Proof. unfold send_incr. szt. Qed.
Hint Resolve szb_send_incr : szt.

Lemma szb_raw_loop fuel : forall x y w h bpl lines bypp, szb (raw_loop fuel x y w h bpl lines bypp).
Proof. induction fuel; intros; cbn [raw_loop]; szt. Qed.
Lemma szb_dec_raw x y w h : szb (dec_raw x y w h).
Proof. unfold dec_raw. szt; try apply szb_raw_loop. Qed.
Lemma szb_dec_copyrect x y w h : szb (dec_copyrect x y w h).
Proof. unfold dec_copyrect. szt. Qed.
Lemma szb_rre_loop fuel : forall n rx ry bypp, szb (rre_loop fuel n rx ry bypp).
Proof. induction fuel; intros; cbn [rre_loop]; szt. Qed.
Lemma szb_dec_rre x y w h : szb (dec_rre x y w h).
Proof. unfold dec_rre. szt; try (intros s ts; apply szb_rre_loop). Qed.
Lemma szb_corre_subs rx ry bypp recs : szb (corre_subs rx ry bypp recs).
Proof. induction recs; cbn [corre_subs]; szt. Qed.
Lemma szb_dec_corre x y w h : szb (dec_corre x y w h).
Proof. unfold dec_corre. szt; try apply szb_corre_subs. Qed.
Lemma szb_hextile_coloured x y bypp recs : forall fg, szb (hextile_coloured x y bypp recs fg).
Proof. induction recs; intros; cbn [hextile_coloured]; szt. Qed.
Lemma szb_hextile_mono x y c recs : szb (hextile_mono x y c recs).
Proof. induction recs; cbn [hextile_mono]; szt. Qed.
Hint Resolve szb_hextile_coloured szb_hextile_mono : szt.
Lemma szb_hextile_tile x y w h bypp bg fg : szb (hextile_tile x y w h bypp bg fg).
Proof. unfold hextile_tile. szt. Qed.
Hint Resolve szb_hextile_tile : szt.
Lemma szb_hextile_cols fuel : forall cx y rx rw h bypp bg fg, szb (hextile_cols fuel cx y rx rw h bypp bg fg).
Proof. induction fuel; intros; cbn [hextile_cols]; szt. Qed.
Hint Resolve szb_hextile_cols : szt.
Lemma szb_hextile_rows fuel : forall cy rx ry rw rh bypp bg fg, szb (hextile_rows fuel cy rx ry rw rh bypp bg fg).
Proof. induction fuel; intros; cbn [hextile_rows]; szt. Qed.
Lemma szb_dec_hextile x y w h : szb (dec_hextile x y w h).
Proof. unfold dec_hextile. szt; try apply szb_hextile_rows. Qed.
Lemma szb_dec_cursor xh yh w h enc : szb (dec_cursor xh yh w h enc).
Proof. unfold dec_cursor. szt. Qed.
Hint Resolve szb_dec_raw szb_dec_copyrect szb_dec_rre szb_dec_corre szb_dec_hextile szb_dec_cursor : szt.

Lemma szb_resize w h : szb (resize w h).
Proof.
  intros s ts. unfold resize, bind, get_st, log_ev, upd_st, failM. cbn beta iota.
  destruct (Z.ltb_spec harness_max_fb (w * h * bypp_of s)); [exact I|].
  split; [reflexivity|]. intros _. unfold size31, bypp_of in *. cbn in *. unfold harness_max_fb in *. lia.
Qed.

(* ---------------------------------------------------------------- CliDecZ.v *)
Lemma szb_peek_at code cap c k n : szb (peek_at code cap c k n).
Proof. unfold peek_at. szt. Qed.
Lemma szb_peek code cap c n : szb (peek code cap c n).
Proof. apply szb_peek_at. Qed.
Hint Resolve szb_peek_at szb_peek : szt.
Lemma szb_cpix_at code cap v c k : szb (cpix_at code cap v c k).
Proof. unfold cpix_at. destruct v; szt. Qed.
Hint Resolve szb_cpix_at : szt.
Lemma szb_cpixels code cap v c n : forall k, szb (cpixels code cap v c k n).
Proof. induction n; intros; cbn [cpixels]; szt. Qed.
Lemma szb_paint_seq code x y w pix : szb (paint_seq code x y w pix).
Proof. unfold paint_seq. szt. Qed.
Lemma szb_pal_get code pal i : szb (pal_get code pal i).
Proof. unfold pal_get. szt. Qed.
Hint Resolve szb_cpixels szb_paint_seq szb_pal_get : szt.

Lemma szb_rd_stream sid : szb (rd_stream sid).
Proof. unfold rd_stream. szt. Qed.
Hint Resolve szb_rd_stream : szt.
Lemma szb_rd_zlib_stream : szb rd_zlib_stream.
Proof. unfold rd_zlib_stream, rd_shared. szt. Qed.
Lemma szb_rd_zrle_stream : szb rd_zrle_stream.
Proof. unfold rd_zrle_stream, rd_shared. szt. Qed.
Hint Resolve szb_rd_zlib_stream szb_rd_zrle_stream : szt.
Lemma szb_dec_zlib x y w h : szb (dec_zlib x y w h).
Proof. unfold dec_zlib. szt. Qed.
Lemma szb_dec_ultra x y w h : szb (dec_ultra x y w h).
Proof. unfold dec_ultra. szt. Qed.
Lemma szb_ultrazip_walk fuel : forall n cap bypp c, szb (ultrazip_walk fuel n cap bypp c).
Proof. induction fuel; intros; cbn [ultrazip_walk]; szt. Qed.
Hint Resolve szb_ultrazip_walk : szt.
Lemma szb_dec_ultrazip x y w h : szb (dec_ultrazip x y w h).
Proof. unfold dec_ultrazip. szt. Qed.
Hint Resolve szb_dec_zlib szb_dec_ultra szb_dec_ultrazip : szt.

Lemma szb_zrle_runlen l : forall cap pos bend acc n, szb (zrle_runlen l cap pos bend acc n).
Proof. induction l; intros; cbn [zrle_runlen]; szt. Qed.
Hint Resolve szb_zrle_runlen : szt.
Lemma szb_zrle_plain fuel : forall cap v c c0 blen total acc k, szb (zrle_plain fuel cap v c c0 blen total acc k).
Proof. induction fuel; intros; cbn [zrle_plain]; szt. Qed.
Lemma szb_zrle_palrle fuel : forall cap c c0 blen total pal acc k, szb (zrle_palrle fuel cap c c0 blen total pal acc k).
Proof. induction fuel; intros; cbn [zrle_palrle]; szt. Qed.
Hint Resolve szb_zrle_plain szb_zrle_palrle : szt.
Lemma szb_zrle_tile cap v c rem x y w h : szb (zrle_tile cap v c rem x y w h).
Proof. unfold zrle_tile. szt; try (apply szb_mapM; intros; szt; try (apply szb_mapM; intros; szt)). Qed.
Hint Resolve szb_zrle_tile : szt.
Lemma szb_zrle_cols fuel : forall cap v c rem i j rx ry rw th, szb (zrle_cols fuel cap v c rem i j rx ry rw th).
Proof. induction fuel; intros; cbn [zrle_cols]; szt. Qed.
Hint Resolve szb_zrle_cols : szt.
Lemma szb_zrle_rows fuel : forall cap v c rem j rx ry rw rh, szb (zrle_rows fuel cap v c rem j rx ry rw rh).
Proof. induction fuel; intros; cbn [zrle_rows]; szt. Qed.
Hint Resolve szb_zrle_rows : szt.
Lemma szb_dec_zrle x y w h : szb (dec_zrle x y w h).
Proof. unfold dec_zrle. szt. Qed.
Hint Resolve szb_dec_zrle : szt.

Lemma szb_trle_plain fuel : forall cap v total acc off, szb (trle_plain fuel cap v total acc off).
Proof. induction fuel; intros; cbn [trle_plain]; szt. Qed.
Lemma szb_trle_palrle fuel : forall cap total pal acc off, szb (trle_palrle fuel cap total pal acc off).
Proof. induction fuel; intros; cbn [trle_palrle]; szt. Qed.
Hint Resolve szb_trle_plain szb_trle_palrle : szt.
Lemma szb_trle_case127 cap v x y w h t type off : szb (trle_case127 cap v x y w h t type off).
Proof. unfold trle_case127. szt; try (apply szb_mapM; intros; szt; try (apply szb_mapM; intros; szt)). Qed.
Hint Resolve szb_trle_case127 : szt.
Lemma szb_trle_tile cap v x y w h t : szb (trle_tile cap v x y w h t).
Proof. unfold trle_tile. szt. Qed.
Hint Resolve szb_trle_tile : szt.
Lemma szb_trle_cols fuel : forall cap v cx y rx rw h t, szb (trle_cols fuel cap v cx y rx rw h t).
Proof. induction fuel; intros; cbn [trle_cols]; szt. Qed.
Hint Resolve szb_trle_cols : szt.
Lemma szb_trle_rows fuel : forall cap v cy rx ry rw rh t, szb (trle_rows fuel cap v cy rx ry rw rh t).
Proof. induction fuel; intros; cbn [trle_rows]; szt. Qed.
Hint Resolve szb_trle_rows : szt.
Lemma szb_dec_trle x y w h : szb (dec_trle x y w h).
Proof. unfold dec_trle. szt. Qed.
Hint Resolve szb_dec_trle : szt.

Lemma szb_rd_compact : szb rd_compact.
Proof. unfold rd_compact, rd_compact_aux. szt. Qed.
Hint Resolve szb_rd_compact : szt.
Lemma szb_tight_rows code f flt cut bypp rx y0 rw rowsize rowsdata prev :
  szb (tight_rows code f flt cut bypp rx y0 rw rowsize rowsdata prev).
Proof.
  unfold tight_rows. destruct flt; szt;
    try (apply szb_mapM; intros; szt; try (apply szb_mapM; intros; szt)).
Qed.
Hint Resolve szb_tight_rows : szt.

Lemma szb_write_lin code x y : szb (write_lin code x y).
Proof. unfold write_lin. szt. Qed.
Lemma szb_grad_zero_width code rx ry rh : szb (grad_zero_width code rx ry rh).
Proof. unfold grad_zero_width. szt. apply szb_mapM. intros. apply szb_write_lin. Qed.
Hint Resolve szb_write_lin szb_grad_zero_width : szt.

Lemma szb_dec_tight x y w h : szb (dec_tight x y w h).
Proof. unfold dec_tight. szt; try apply szb_fold_zact. Qed.
Hint Resolve szb_dec_tight : szt.

Hint Resolve szb_resize : szt.

(* ---------------------------------------------------------------- CliMsg.v *)
Lemma szb_do_rect : szb do_rect.
Proof. unfold do_rect. szt; try apply szb_fold_screen. Qed.

Hint Resolve szb_do_rect : szt.
Lemma szb_rect_loop n : szb (rect_loop n).
Proof. induction n; cbn [rect_loop]; szt. Qed.
Hint Resolve szb_rect_loop : szt.

Lemma szb_handle_body t : szb (handle_body t).
Proof. unfold handle_body. szt. Qed.

Lemma szb_handle_msg : szb handle_msg.
Proof. rewrite handle_msg_eq. apply szb_bind; [auto with szt|apply szb_handle_body]. Qed.


(* the invariant, for one message and for every token stream *)
Theorem size31_invariant s ts s' ts' : handle_msg s ts = Ok tt s' ts' -> size31 s -> size31 s'.
Proof. intros E. pose proof (szb_handle_msg s ts) as H. rewrite E in H. apply H. Qed.
