(* RFB spec 7.7.7 Tight (lossless part), payload after the harness has removed the compact
   lengths and inflated the zlib streams (the four persistent streams are oracles):
     compression-control byte: bits 0-3 stream resets; top nibble 1000 = fill (one TPIXEL),
     1001 = JPEG (not lossless: rejected here), 0xxx = basic compression: bits 4-5 stream,
     bit 6 = explicit filter byte follows: 0 copy, 1 palette, 2 gradient.
     palette filter: U8 (colours - 1), palette of TPIXELs, then 1 bit per pixel (rows padded,
     most significant bit first) for 2 colours, else one byte per pixel.
   TPIXEL = 3 bytes R,G,B iff true colour, 32 bpp, depth 24 and all maxima 255. *)
From Coq Require Import ZArith List Lia Bool Arith.
From LV Require Import Enc.EncBase Dec.SpecBase Dec.SpecZRLE.
Import ListNotations.
Local Open Scope Z_scope.

Definition spec_tpixel3 (bpp depth tc rmax gmax bmax : Z) : bool :=
  (bpp =? 32) && (depth =? 24) && negb (tc =? 0) && (rmax =? 255) && (gmax =? 255) && (bmax =? 255).

(* the grid holds the little-endian reading of the wire bytes of a pixel *)
Definition grid_pixel_of_value (be : bool) (bypp : nat) (v : Z) : Z :=
  if be then le_val (rev (le_bytes bypp v)) else v.

Record tight_fmt := mkTF { tf_bypp : nat; tf_tp3 : bool; tf_be : bool; tf_rs : Z; tf_gs : Z; tf_bs : Z }.

Definition take_tpixel (f : tight_fmt) (bs : list Z) : option (Z * list Z) :=
  if tf_tp3 f then
    match bs with
    | r :: g :: b :: rest =>
      Some (grid_pixel_of_value (tf_be f) 4 (r * 2 ^ tf_rs f + g * 2 ^ tf_gs f + b * 2 ^ tf_bs f), rest)
    | _ => None
    end
  else take_pixel (tf_bypp f) bs.

Fixpoint take_tpixels (f : tight_fmt) (n : nat) (bs : list Z) : option (list Z * list Z) :=
  match n with
  | O => Some ([], bs)
  | S k => do (p, r) <- take_tpixel f bs; do (ps, r') <- take_tpixels f k r; Some (p :: ps, r')
  end.

Fixpoint dec_index_rows (w : nat) (pal : list Z) (h : nat) (bs : list Z) : option (grid * list Z) :=
  match h with
  | O => Some ([], bs)
  | S k =>
    do (ib, r1) <- take w bs;
    do row <- opt_map (nth_zs pal) ib;
    do (g, r2) <- dec_index_rows w pal k r1;
    Some (row :: g, r2)
  end.

Definition dec_tight (f : tight_fmt) (w h : nat) (bs : list Z) : option grid :=
  match bs with
  | [] => None
  | ctl :: r0 =>
    let comp := ctl / 16 in
    if comp =? 8 then
      all_consumed (do (p, r) <- take_tpixel f r0; Some (mk_grid w h p, r))
    else if comp <=? 7 then
      if Z.testbit comp 2 then
        match r0 with
        | [] => None
        | filter :: r1 =>
          if filter =? 0 then
            all_consumed (do (ps, r) <- take_tpixels f (w * h) r1; do g <- rows_of w h ps; Some (g, r))
          else if filter =? 1 then
            match r1 with
            | [] => None
            | nc1 :: r2 =>
              do (pal, r3) <- take_tpixels f (Z.to_nat (nc1 + 1)) r2;
              if nc1 + 1 <=? 2 then all_consumed (dec_packed_rows 1 w pal h r3)
              else all_consumed (dec_index_rows w pal h r3)
            end
          else None          (* gradient filter: never produced by this server *)
        end
      else all_consumed (do (ps, r) <- take_tpixels f (w * h) r0; do g <- rows_of w h ps; Some (g, r))
    else None
  end.
