(* CliFuel.v - fuel adequacy of the loops of the client mirror (audit C08 item 5).  The loops are structural on a fuel
   counter and return normally when it runs out; a theorem about a run that silently ran out of fuel would say nothing
   about the unbounded C loop.  Here: for every loop the fuel its caller supplies is SUFFICIENT - any larger fuel gives the
   same result on every state and token stream ([..._stable]); with the callers' values ([..._adequate]) the mirror's result
   is the result of the unbounded loop. *)
From LV Require Import Dec.CliBase Dec.CliFbProofs Dec.CliDec Dec.CliDecZ Dec.CliMsg Dec.RefEnc Dec.CliRtBase Dec.CliSound Dec.CliSafe.
Require Import ZifyBool Lia.
Local Open Scope Z_scope.

Lemma bind_ext {A B} (m : M A) (f g : A -> M B) s ts :
  (forall a s' ts', m s ts = Ok a s' ts' -> f a s' ts' = g a s' ts') -> bind m f s ts = bind m g s ts.
Proof. intros H. unfold bind. destruct (m s ts) as [a s' ts'| | | |]; auto. Qed.

(* ---------------------------------------------------------------- Raw: each pass consumes l >= 1 of the h rows *)
Lemma raw_loop_stable fuel : forall k x y w h bpl lines bypp s ts,
  h <= Z.of_nat fuel -> lines = 0 \/ 1 <= lines ->
  raw_loop (fuel + k) x y w h bpl lines bypp s ts = raw_loop fuel x y w h bpl lines bypp s ts.
Proof.
  induction fuel as [|f IH]; intros k x y w h bpl lines bypp s ts Hh Hl.
  - destruct k as [|k]; [reflexivity|]. cbn [plus raw_loop].
    destruct (Z.leb_spec h 0); [|lia]. rewrite Bool.orb_true_r. reflexivity.
  - cbn [plus raw_loop]. destruct (Z.eqb_spec lines 0); [reflexivity|]. destruct (Z.leb_spec h 0); [reflexivity|]. cbn [orb]. cbv zeta.
    apply bind_ext. intros bs s1 ts1 _. apply bind_ext. intros [] s2 ts2 _. apply IH; lia.
Qed.

Theorem dec_raw_fuel_adequate k x y w h s ts : 0 <= w -> 0 <= f_bpp (c_fmt s) ->
  let bpl := w * f_bpp (c_fmt s) / 8 in
  let lines := if bpl =? 0 then 0 else cRFB_BUFFER_SIZE / bpl in
  dec_raw x y w h s ts = raw_loop (Z.to_nat h + k) x y w h bpl lines (bypp_of s) s ts.
Proof.
  intros Hw Hb bpl lines. unfold dec_raw, bind, get_st. cbv zeta. fold bpl. fold lines. symmetry. apply raw_loop_stable; [lia|].
  assert (0 <= bpl) by (unfold bpl; apply Z.div_pos; nia).
  unfold lines. destruct (Z.eqb_spec bpl 0); [now left|].
  assert (0 <= cRFB_BUFFER_SIZE / bpl) by (apply Z.div_pos; unfold cRFB_BUFFER_SIZE; lia). lia.
Qed.

(* ---------------------------------------------------------------- Hextile: 16 columns / rows per pass *)
Lemma hextile_cols_stable fuel : forall k cx y rx rw h bypp bg fg s ts,
  rx + rw - cx <= cHextile_tile * Z.of_nat fuel ->
  hextile_cols (fuel + k) cx y rx rw h bypp bg fg s ts = hextile_cols fuel cx y rx rw h bypp bg fg s ts.
Proof.
  unfold cHextile_tile. induction fuel as [|f IH]; intros k cx y rx rw h bypp bg fg s ts Hm.
  - destruct k as [|k]; [reflexivity|]. cbn [plus hextile_cols]. destruct (Z.leb_spec (rx + rw) cx); [reflexivity|lia].
  - cbn [plus hextile_cols]. destruct (rx + rw <=? cx); [reflexivity|].
    apply bind_ext. intros r s1 ts1 _. apply IH. unfold cHextile_tile. lia.
Qed.
Lemma hextile_rows_stable fuel : forall k cy rx ry rw rh bypp bg fg s ts,
  ry + rh - cy <= cHextile_tile * Z.of_nat fuel ->
  hextile_rows (fuel + k) cy rx ry rw rh bypp bg fg s ts = hextile_rows fuel cy rx ry rw rh bypp bg fg s ts.
Proof.
  unfold cHextile_tile. induction fuel as [|f IH]; intros k cy rx ry rw rh bypp bg fg s ts Hm.
  - destruct k as [|k]; [reflexivity|]. cbn [plus hextile_rows]. destruct (Z.leb_spec (ry + rh) cy); [reflexivity|lia].
  - cbn [plus hextile_rows]. destruct (ry + rh <=? cy); [reflexivity|].
    apply bind_ext. intros r s1 ts1 _. apply IH. unfold cHextile_tile. lia.
Qed.
Lemma div_fuel a : 0 <= a -> a <= 16 * Z.of_nat (Z.to_nat (a / 16 + 1)).
Proof.
  intros H. assert (0 <= a / 16) by (apply Z.div_pos; lia). rewrite Z2Nat.id by lia.
  pose proof (Z.div_mod a 16 ltac:(lia)). pose proof (Z.mod_pos_bound a 16 ltac:(lia)). lia.
Qed.
(* the fuels dec_hextile / hextile_rows supply are sufficient *)
Theorem hextile_fuel_adequate k x y w h bypp bg fg s ts : 0 <= w -> 0 <= h ->
  hextile_rows (Z.to_nat (h / cHextile_tile + 1) + k) y x y w h bypp bg fg s ts
  = hextile_rows (Z.to_nat (h / cHextile_tile + 1)) y x y w h bypp bg fg s ts /\
  forall cy th, hextile_cols (Z.to_nat (w / cHextile_tile + 1) + k) x cy x w th bypp bg fg s ts
                = hextile_cols (Z.to_nat (w / cHextile_tile + 1)) x cy x w th bypp bg fg s ts.
Proof.
  intros Hw Hh. unfold cHextile_tile. split.
  - apply hextile_rows_stable. unfold cHextile_tile. pose proof (div_fuel h Hh). lia.
  - intros cy th. apply hextile_cols_stable. unfold cHextile_tile. pose proof (div_fuel w Hw). lia.
Qed.

(* ---------------------------------------------------------------- UltraZip: one sub-rectangle record per pass *)
Lemma ultrazip_walk_stable fuel : forall k n cap bypp c s ts,
  n <= Z.of_nat fuel -> ultrazip_walk (fuel + k) n cap bypp c s ts = ultrazip_walk fuel n cap bypp c s ts.
Proof.
  induction fuel as [|f IH]; intros k n cap bypp c s ts Hn.
  - destruct k as [|k]; [reflexivity|]. cbn [plus ultrazip_walk]. destruct (Z.leb_spec n 0); [reflexivity|lia].
  - cbn [plus ultrazip_walk]. destruct (n <=? 0); [reflexivity|].
    apply bind_ext. intros s0 s1 ts1 _. destruct (fixed s0 0 && (zlen (bc_data c) <? 12)); [reflexivity|].
    apply bind_ext. intros hdr s2 ts2 _. cbv zeta.
    destruct (be_val (firstn 4 (skipn 8 hdr)) =? cE_Raw); [|apply IH; lia].
    apply bind_ext. intros s3 s4 ts4 _. match goal with |- (if ?b then _ else _) _ _ = _ => destruct b; [reflexivity|] end.
    apply bind_ext. intros [] s5 ts5 _. apply IH; lia.
Qed.
Theorem ultrazip_fuel_adequate k rx cap bypp c s ts :
  ultrazip_walk (Z.to_nat rx + k) rx cap bypp c s ts = ultrazip_walk (Z.to_nat rx) rx cap bypp c s ts.
Proof. apply ultrazip_walk_stable. lia. Qed.

(* ---------------------------------------------------------------- ZRLE plain RLE: every run paints >= 1 pixel *)
Lemma zrle_runlen_pos l : forall cap pos bend acc n s ts len n' s' ts',
  bytes_ok l -> 1 <= acc -> zrle_runlen l cap pos bend acc n s ts = Ok (Some (len, n')) s' ts' -> 1 <= len.
Proof.
  induction l as [|b r IH]; intros cap pos bend acc n s ts len n' s' ts' Hb Ha; cbn [zrle_runlen].
  - destruct (cap <? pos + 1); [discriminate|]. destruct (cap <? bend); [discriminate|].
    unfold bind, upd_st, ret. intros E; inversion E; subst; exact Ha.
  - inversion Hb as [|? ? Hb1 Hb2]; subst. destruct (b =? 255).
    + destruct (bend <=? pos + 1); [discriminate|]. intros E. eapply IH; [exact Hb2| |exact E]. lia.
    + unfold ret. intros E; inversion E; subst. unfold byte_ok in Hb1. lia.
Qed.

Lemma zrle_plain_stable fuel : forall k0 cap v c c0 blen total acc k s ts,
  bytes_ok (bc_data c) -> total - zlen acc <= Z.of_nat fuel ->
  zrle_plain (fuel + k0) cap v c c0 blen total acc k s ts = zrle_plain fuel cap v c c0 blen total acc k s ts.
Proof.
  induction fuel as [|f IH]; intros k0 cap v c c0 blen total acc k s ts Hb Hm.
  - destruct k0 as [|k0]; [reflexivity|]. cbn [plus zrle_plain]. destruct (Z.leb_spec total (zlen acc)); [reflexivity|lia].
  - cbn [plus zrle_plain]. destruct (Z.leb_spec total (zlen acc)); [reflexivity|]. cbv zeta.
    match goal with |- (if ?b then _ else _) _ _ = _ => destruct b; [reflexivity|] end.
    apply bind_ext. intros col s1 ts1 _. apply bind_ext. intros [[len used']|] s2 ts2 E; [|reflexivity].
    apply zrle_runlen_pos in E; [|now apply bytes_ok_skipn|lia].
    apply IH; [exact Hb|]. rewrite zlen_app, zlen_repeat. lia.
Qed.
(* the fuel zrle_tile supplies (w * h for a tile of w * h pixels, starting from no pixel) is sufficient *)
Theorem zrle_plain_fuel_adequate k0 cap v c c0 blen w h k s ts : bytes_ok (bc_data c) ->
  zrle_plain (Z.to_nat (w * h) + k0) cap v c c0 blen (w * h) [] k s ts = zrle_plain (Z.to_nat (w * h)) cap v c c0 blen (w * h) [] k s ts.
Proof. intros Hb. apply zrle_plain_stable; [exact Hb|]. rewrite zlen_nil. lia. Qed.

(* ---------------------------------------------------------------- TRLE plain RLE *)
Lemma trle_runlen_pos ts : forall cap cur off pos acc s len off' s' ts',
  1 <= acc -> 0 <= cur -> trle_runlen_ts ts cap cur off pos acc s = Ok (len, off') s' ts' -> 1 <= len.
Proof.
  induction ts as [|t ts IH]; intros cap cur off pos acc s len off' s' ts' Ha Hc; cbn [trle_runlen_ts].
  - destruct ((cur =? 255) && (pos <? cap - 1)); [destruct (cap <? off + 2); discriminate|].
    intros E; inversion E; subst; lia.
  - destruct ((cur =? 255) && (pos <? cap - 1)).
    + destruct (cap <? off + 2); [discriminate|]. destruct t as [b| |]; try discriminate.
      intros E. eapply IH; [| |exact E]; [lia|]. apply Z.mod_pos_bound. lia.
    + intros E; inversion E; subst; lia.
Qed.

Lemma nthz_nonneg l i : nonneg_list l -> 0 <= nthz l i.
Proof.
  unfold nthz, nonneg_list. intros H. destruct (nth_in_or_default i l 0) as [Hin|E]; [|rewrite E; lia].
  rewrite Forall_forall in H. now apply H.
Qed.

Lemma trle_plain_stable fuel : forall k0 cap v total acc off s ts,
  total - zlen acc <= Z.of_nat fuel ->
  trle_plain (fuel + k0) cap v total acc off s ts = trle_plain fuel cap v total acc off s ts.
Proof.
  induction fuel as [|f IH]; intros k0 cap v total acc off s ts Hm.
  - destruct k0 as [|k0]; [reflexivity|]. cbn [plus trle_plain]. destruct (Z.leb_spec total (zlen acc)); [reflexivity|lia].
  - cbn [plus trle_plain]. destruct (Z.leb_spec total (zlen acc)); [reflexivity|].
    apply bind_ext. intros [] s1 ts1 _. apply bind_ext. intros bs s2 ts2 Ebs.
    apply bind_ext. intros [] s3 ts3 _. apply bind_ext. intros [] s4 ts4 _. cbv zeta.
    apply bind_ext. intros [len off'] s5 ts5 E. apply bind_ext. intros s6 s7 ts7 _.
    unfold trle_runlen in E. apply trle_runlen_pos in E; [|lia|apply nthz_nonneg; eapply rd_nonneg; exact Ebs].
    apply IH. rewrite zlen_app, zlen_repeat. lia.
Qed.
Theorem trle_plain_fuel_adequate k0 cap v w h off s ts :
  trle_plain (Z.to_nat (w * h) + k0) cap v (w * h) [] off s ts = trle_plain (Z.to_nat (w * h)) cap v (w * h) [] off s ts.
Proof. apply trle_plain_stable. rewrite zlen_nil. lia. Qed.

(* ---------------------------------------------------------------- the remaining fuelled loops *)
(* [rre_loop]: its fuel is the number of tokens left + 1, every pass consumes tokens, and exhaustion yields [More] - the
   answer of a stream that ended - not success; nothing to show. *)

Lemma zrle_palrle_stable fuel : forall k0 cap c c0 blen total pal acc k s ts,
  bytes_ok (bc_data c) -> total - zlen acc <= Z.of_nat fuel ->
  zrle_palrle (fuel + k0) cap c c0 blen total pal acc k s ts = zrle_palrle fuel cap c c0 blen total pal acc k s ts.
Proof.
  induction fuel as [|f IH]; intros k0 cap c c0 blen total pal acc k s ts Hb Hm.
  - destruct k0 as [|k0]; [reflexivity|]. cbn [plus zrle_palrle]. destruct (Z.leb_spec total (zlen acc)); [reflexivity|lia].
  - cbn [plus zrle_palrle]. destruct (Z.leb_spec total (zlen acc)); [reflexivity|]. cbv zeta.
    match goal with |- (if ?b then _ else _) _ _ = _ => destruct b; [reflexivity|] end.
    apply bind_ext. intros b s1 ts1 _. apply bind_ext. intros col s2 ts2 _.
    destruct (128 <=? nthz b 0).
    + match goal with |- (if ?b then _ else _) _ _ = _ => destruct b; [reflexivity|] end.
      apply bind_ext. intros [[len used']|] s3 ts3 E; [|reflexivity].
      apply zrle_runlen_pos in E; [|now apply bytes_ok_skipn|lia].
      apply IH; [exact Hb|]. rewrite zlen_app, zlen_repeat. lia.
    + apply IH; [exact Hb|]. rewrite zlen_cons. lia.
Qed.

Lemma zrle_cols_stable fuel : forall k cap v c rem i j rx ry rw th s ts,
  rw - i <= cZRLETileWidth * Z.of_nat fuel ->
  zrle_cols (fuel + k) cap v c rem i j rx ry rw th s ts = zrle_cols fuel cap v c rem i j rx ry rw th s ts.
Proof.
  unfold cZRLETileWidth. induction fuel as [|f IH]; intros k cap v c rem i j rx ry rw th s ts Hm.
  - destruct k as [|k]; [reflexivity|]. cbn [plus zrle_cols]. destruct (Z.leb_spec rw i); [reflexivity|lia].
  - cbn [plus zrle_cols]. destruct (rw <=? i); [reflexivity|].
    apply bind_ext. intros [n|] s1 ts1 _; [|reflexivity]. apply IH. unfold cZRLETileWidth. lia.
Qed.
Lemma zrle_rows_stable fuel : forall k cap v c rem j rx ry rw rh s ts,
  rh - j <= cZRLETileHeight * Z.of_nat fuel ->
  zrle_rows (fuel + k) cap v c rem j rx ry rw rh s ts = zrle_rows fuel cap v c rem j rx ry rw rh s ts.
Proof.
  unfold cZRLETileHeight. induction fuel as [|f IH]; intros k cap v c rem j rx ry rw rh s ts Hm.
  - destruct k as [|k]; [reflexivity|]. cbn [plus zrle_rows]. destruct (Z.leb_spec rh j); [reflexivity|lia].
  - cbn [plus zrle_rows]. destruct (rh <=? j); [reflexivity|].
    apply bind_ext. intros [[c' rem']|] s1 ts1 _; [|reflexivity]. apply IH. unfold cZRLETileHeight. lia.
Qed.
Lemma div_fuel64 a : 0 <= a -> a <= 64 * Z.of_nat (Z.to_nat (a / 64 + 1)).
Proof.
  intros H. assert (0 <= a / 64) by (apply Z.div_pos; lia). rewrite Z2Nat.id by lia.
  pose proof (Z.div_mod a 64 ltac:(lia)). pose proof (Z.mod_pos_bound a 64 ltac:(lia)). lia.
Qed.
Theorem zrle_fuel_adequate k cap v c rem x y w h s ts : 0 <= w -> 0 <= h ->
  zrle_rows (Z.to_nat (h / cZRLETileHeight + 1) + k) cap v c rem 0 x y w h s ts
  = zrle_rows (Z.to_nat (h / cZRLETileHeight + 1)) cap v c rem 0 x y w h s ts /\
  forall j th, zrle_cols (Z.to_nat (w / cZRLETileWidth + 1) + k) cap v c rem 0 j x y w th s ts
               = zrle_cols (Z.to_nat (w / cZRLETileWidth + 1)) cap v c rem 0 j x y w th s ts.
Proof.
  intros Hw Hh. unfold cZRLETileHeight, cZRLETileWidth. split.
  - apply zrle_rows_stable. unfold cZRLETileHeight. pose proof (div_fuel64 h Hh). lia.
  - intros j th. apply zrle_cols_stable. unfold cZRLETileWidth. pose proof (div_fuel64 w Hw). lia.
Qed.

Lemma trle_palrle_stable fuel : forall k0 cap total pal acc off s ts,
  total - zlen acc <= Z.of_nat fuel ->
  trle_palrle (fuel + k0) cap total pal acc off s ts = trle_palrle fuel cap total pal acc off s ts.
Proof.
  induction fuel as [|f IH]; intros k0 cap total pal acc off s ts Hm.
  - destruct k0 as [|k0]; [reflexivity|]. cbn [plus trle_palrle]. destruct (Z.leb_spec total (zlen acc)); [reflexivity|lia].
  - cbn [plus trle_palrle]. destruct (Z.leb_spec total (zlen acc)); [reflexivity|].
    apply bind_ext. intros [] s1 ts1 _. apply bind_ext. intros b s2 ts2 _. cbv zeta.
    apply bind_ext. intros col s3 ts3 _. destruct (128 <=? nthz b 0).
    + apply bind_ext. intros [] s4 ts4 _. apply bind_ext. intros b2 s5 ts5 Eb2.
      apply bind_ext. intros [len off'] s6 ts6 E. apply bind_ext. intros s7 s8 ts8 _.
      unfold trle_runlen in E. apply trle_runlen_pos in E; [|lia|apply nthz_nonneg; eapply rd_nonneg; exact Eb2].
      apply IH. rewrite zlen_app, zlen_repeat. lia.
    + apply bind_ext. intros s4 s5 ts5 _. apply IH. rewrite zlen_cons. lia.
Qed.

Lemma trle_cols_stable fuel : forall k cap v cx y rx rw h t s ts,
  rx + rw - cx <= cTRLE_tile * Z.of_nat fuel ->
  trle_cols (fuel + k) cap v cx y rx rw h t s ts = trle_cols fuel cap v cx y rx rw h t s ts.
Proof.
  unfold cTRLE_tile. induction fuel as [|f IH]; intros k cap v cx y rx rw h t s ts Hm.
  - destruct k as [|k]; [reflexivity|]. cbn [plus trle_cols]. destruct (Z.leb_spec (rx + rw) cx); [reflexivity|lia].
  - cbn [plus trle_cols]. destruct (rx + rw <=? cx); [reflexivity|].
    apply bind_ext. intros t' s1 ts1 _. apply IH. unfold cTRLE_tile. lia.
Qed.
Lemma trle_rows_stable fuel : forall k cap v cy rx ry rw rh t s ts,
  ry + rh - cy <= cTRLE_tile * Z.of_nat fuel ->
  trle_rows (fuel + k) cap v cy rx ry rw rh t s ts = trle_rows fuel cap v cy rx ry rw rh t s ts.
Proof.
  unfold cTRLE_tile. induction fuel as [|f IH]; intros k cap v cy rx ry rw rh t s ts Hm.
  - destruct k as [|k]; [reflexivity|]. cbn [plus trle_rows]. destruct (Z.leb_spec (ry + rh) cy); [reflexivity|lia].
  - cbn [plus trle_rows]. destruct (ry + rh <=? cy); [reflexivity|].
    apply bind_ext. intros t' s1 ts1 _. apply IH. unfold cTRLE_tile. lia.
Qed.
Theorem trle_fuel_adequate k cap v x y w h t s ts : 0 <= w -> 0 <= h ->
  trle_rows (Z.to_nat (h / cTRLE_tile + 1) + k) cap v y x y w h t s ts = trle_rows (Z.to_nat (h / cTRLE_tile + 1)) cap v y x y w h t s ts /\
  forall cy th, trle_cols (Z.to_nat (w / cTRLE_tile + 1) + k) cap v x cy x w th t s ts
                = trle_cols (Z.to_nat (w / cTRLE_tile + 1)) cap v x cy x w th t s ts.
Proof.
  intros Hw Hh. unfold cTRLE_tile. split.
  - apply trle_rows_stable. unfold cTRLE_tile. pose proof (div_fuel h Hh). lia.
  - intros cy th. apply trle_cols_stable. unfold cTRLE_tile. pose proof (div_fuel w Hw). lia.
Qed.

Theorem palrle_fuel_adequate k0 cap c c0 blen w h pal k off s ts : bytes_ok (bc_data c) ->
  zrle_palrle (Z.to_nat (w * h) + k0) cap c c0 blen (w * h) pal [] k s ts = zrle_palrle (Z.to_nat (w * h)) cap c c0 blen (w * h) pal [] k s ts /\
  trle_palrle (Z.to_nat (w * h) + k0) cap (w * h) pal [] off s ts = trle_palrle (Z.to_nat (w * h)) cap (w * h) pal [] off s ts.
Proof.
  intros Hb. split; [apply zrle_palrle_stable; [exact Hb|]|apply trle_palrle_stable]; rewrite zlen_nil; lia.
Qed.
