(* CliRtTile.v - encoder-side facts shared by the ZRLE / TRLE / Tight round trips: CPIXEL serialisation,
   run-length bytes, packed palette indices (pack_row / packed_row are inverse), palettes (distinct,
   index_of), whatever the choice oracle answers. *)
From LV Require Import Dec.CliBase Dec.CliFbProofs Dec.CliDec Dec.CliDecZ Dec.RefEnc Dec.RefEncZ Dec.CliRtBase Dec.RefPlanProofs.
Require Import ZifyBool.
Local Open Scope Z_scope.

(* ---------------------------------------------------------------- little-endian values *)
Lemma le_val_lebytes_mod n v : le_val (lebytes n v) = v mod 256 ^ Z.of_nat n.
Proof.
  revert v; induction n as [|n IH]; intros v.
  - cbn. now rewrite Z.mod_1_r.
  - cbn [lebytes le_val]. rewrite IH. rewrite Nat2Z.inj_succ, Z.pow_succ_r by lia.
    rewrite Z.rem_mul_r by (try apply Z.pow_nonzero; try apply Z.pow_pos_nonneg; lia). lia.
Qed.

Lemma zlen_lebytes n v : zlen (lebytes n v) = Z.of_nat n.
Proof. unfold zlen. now rewrite lebytes_len. Qed.

(* ---------------------------------------------------------------- CPIXEL: encoder (RFC rule) vs decoder instance *)
Definition cp_agree (f : pixfmt) (v : cpv) : Prop :=
  match v with
  | CP8 => f_bpp f = 8 /\ cpixel_mode f = 0
  | CP16 => f_bpp f = 16 /\ cpixel_mode f = 0
  | CP32 => f_bpp f = 32 /\ cpixel_mode f = 0
  | CP24 => cpixel_mode f = 1
  | CP24Up => cpixel_mode f = 2
  | _ => False
  end.

(* pixel values that survive the CPIXEL serialisation of the instance *)
Definition cp_ok (v : cpv) (p : Z) : Prop :=
  match v with
  | CP8 => 0 <= p < 2 ^ 8
  | CP16 => 0 <= p < 2 ^ 16
  | CP32 => 0 <= p < 2 ^ 32
  | CP24 => 0 <= p < 2 ^ 24
  | CP24Up => 0 <= p < 2 ^ 32 /\ p mod 256 = 0
  | _ => False
  end.

(* what the decoder instance makes of the serialised pixel *)
Definition cp_norm (v : cpv) (p : Z) : Z :=
  match v with
  | CP8 => p mod 2 ^ 8
  | CP16 => p mod 2 ^ 16
  | CP32 => p mod 2 ^ 32
  | CP24 => p mod 2 ^ 24
  | CP24Up => (p / 256) mod 2 ^ 24 * 256
  | _ => 0
  end.

Lemma cp_norm_ok v p : cp_ok v p -> cp_norm v p = p.
Proof.
  destruct v; cbn [cp_ok cp_norm]; intros H; try contradiction; try (apply Z.mod_small; lia).
  destruct H as [H1 H2]. rewrite Z.mod_small.
  - pose proof (Z.div_mod p 256 ltac:(lia)). lia.
  - split; [apply Z.div_pos; lia|apply Z.div_lt_upper_bound; lia].
Qed.
Lemma cp_norm_0 v : cp_norm v 0 = 0.
Proof. destruct v; reflexivity. Qed.

Lemma cpixel_bytes_eq f v p : cp_agree f v ->
  cpixel_bytes f p = match v with CP24 => lebytes 3 p | CP24Up => lebytes 3 (p / 256) | _ => lebytes (Z.to_nat (rbytes v)) p end.
Proof.
  unfold cp_agree, cpixel_bytes. destruct v; try contradiction.
  - intros [Hb ->]. cbn. now rewrite Hb.
  - intros [Hb ->]. cbn. now rewrite Hb.
  - intros ->. reflexivity.
  - intros ->. reflexivity.
  - intros [Hb ->]. cbn. now rewrite Hb.
Qed.

Lemma cpixel_bytes_len f v p : cp_agree f v -> zlen (cpixel_bytes f p) = rbytes v.
Proof. intros H. rewrite (cpixel_bytes_eq f v p H). destruct v; try contradiction; rewrite zlen_lebytes; reflexivity. Qed.
Lemma cpixel_bytes_ok f p : Forall byte_ok (cpixel_bytes f p).
Proof. unfold cpixel_bytes. destruct (cpixel_mode f =? 1); [|destruct (cpixel_mode f =? 2)]; apply lebytes_ok. Qed.

Lemma flat_map_ok {A} (g : A -> list Z) l : (forall a, Forall byte_ok (g a)) -> Forall byte_ok (flat_map g l).
Proof. intros H. induction l; cbn [flat_map]; [constructor|apply Forall_app; auto]. Qed.
Lemma flat_map_zlen_const {A} (g : A -> list Z) k l : (forall a, zlen (g a) = k) -> zlen (flat_map g l) = k * zlen l.
Proof.
  intros H. induction l as [|a l IH]; cbn [flat_map]; [unfold zlen; cbn; lia|].
  rewrite zlen_app, zlen_cons, IH, H. lia.
Qed.

(* ---------------------------------------------------------------- run lengths *)
Lemma runlen_bytes_ok n : 1 <= n -> Forall byte_ok (runlen_bytes n).
Proof.
  intros Hn. unfold runlen_bytes. apply Forall_app. split.
  - apply Forall_forall. intros x Hx. apply repeat_spec in Hx. subst. unfold byte_ok. lia.
  - constructor; [|constructor]. unfold byte_ok. pose proof (Z.mod_pos_bound (n - 1) 255 ltac:(lia)). lia.
Qed.
Lemma runlen_bytes_len n : 1 <= n -> zlen (runlen_bytes n) = (n - 1) / 255 + 1.
Proof.
  intros Hn. unfold runlen_bytes. rewrite zlen_app, zlen_repeat. change (zlen [(n - 1) mod 255]) with 1.
  assert (0 <= (n - 1) / 255) by (apply Z.div_pos; lia). lia.
Qed.

(* ---------------------------------------------------------------- palettes *)
Lemma zmem_In v l : zmem v l = true <-> In v l.
Proof.
  unfold zmem. rewrite existsb_exists. split.
  - intros (x & Hx & E). apply Z.eqb_eq in E. now subst.
  - intros H. exists v. split; [exact H|apply Z.eqb_refl].
Qed.

Lemma distinct_aux_In l : forall acc v, In v (distinct_aux l acc) <-> In v l \/ In v acc.
Proof.
  induction l as [|a l IH]; intros acc v; cbn [distinct_aux].
  - cbn. tauto.
  - destruct (zmem a acc) eqn:E.
    + rewrite IH. apply zmem_In in E. cbn [In]. split; [tauto|]. intros [[E1 | H]|H]; auto. subst a. auto.
    + rewrite IH, in_app_iff. cbn [In]. tauto.
Qed.
Lemma distinct_In l v : In v (distinct l) <-> In v l.
Proof. unfold distinct. rewrite distinct_aux_In. cbn. tauto. Qed.

Lemma index_of_spec v l : In v l -> 0 <= index_of v l < zlen l /\ nth (Z.to_nat (index_of v l)) l 0 = v.
Proof.
  induction l as [|a l IH]; intros H; [contradiction|]. cbn [index_of]. rewrite zlen_cons. pose proof (zlen_nonneg l).
  destruct (Z.eqb_spec a v).
  - split; [lia|]. cbn. exact e.
  - destruct H as [H|H]; [contradiction|]. destruct (IH H) as [I1 I2]. split; [lia|].
    replace (Z.to_nat (1 + index_of v l)) with (S (Z.to_nat (index_of v l))) by lia. exact I2.
Qed.

Lemma index_of_app v a b : In v a -> index_of v (a ++ b) = index_of v a.
Proof.
  induction a as [|x a IH]; intros H; [contradiction|]. cbn [app index_of].
  destruct (Z.eqb_spec x v); [reflexivity|]. destruct H as [H|H]; [contradiction|]. now rewrite IH.
Qed.

Lemma pad_palette_len ch base n pxmod : length (pad_palette ch base n pxmod) = n.
Proof. revert base; induction n; intros; cbn [pad_palette length]; auto. Qed.

Lemma zseq_nth_id (l : list Z) : map (fun i => nth (Z.to_nat i) l 0) (zseq (zlen l)) = l.
Proof.
  unfold zseq, zlen. rewrite Nat2Z.id, map_map.
  induction l as [|a l IH]; [reflexivity|].
  cbn [length]. rewrite <- cons_seq, <- seq_shift, map_cons, map_map. f_equal.
  transitivity (map (fun x => nth (Z.to_nat (Z.of_nat x)) l 0) (seq 0 (length l))); [|exact IH].
  apply map_ext. intros k. rewrite !Nat2Z.id. reflexivity.
Qed.

(* ---------------------------------------------------------------- packed indices *)
Section Pack.
  Variable bits : Z.
  Hypothesis Hbits : bits = 1 \/ bits = 2 \/ bits = 4.
  Let B := 2 ^ bits.
  Let per := 8 / bits.

  Definition dv (l : list Z) : Z := fold_left (fun a d => a * 2 ^ bits + d) l 0.
  Definition extract (bytes : list Z) (i : Z) : Z :=
    (nthz bytes (Z.to_nat (i / (8 / bits))) / 2 ^ (8 - bits - bits * (i mod (8 / bits)))) mod 2 ^ bits.

  Lemma Bpos : 2 <= 2 ^ bits.
  Proof. destruct Hbits as [E | [E | E]]; rewrite E; cbn; lia. Qed.
  Lemma per_bits : 8 / bits * bits = 8 /\ 1 <= 8 / bits.
  Proof. destruct Hbits as [E | [E | E]]; rewrite E; cbn; lia. Qed.

  Lemma dv_snoc l d : dv (l ++ [d]) = dv l * 2 ^ bits + d.
  Proof. unfold dv. now rewrite fold_left_app. Qed.

  Lemma dv_bound l : Forall (fun d => 0 <= d < 2 ^ bits) l -> 0 <= dv l < (2 ^ bits) ^ zlen l.
  Proof.
    pose proof Bpos. induction l as [|d l IH] using rev_ind; intros H0.
    - unfold dv, zlen. cbn. lia.
    - apply Forall_app in H0. destruct H0 as [H1 H2]. specialize (IH H1). pose proof (Forall_inv H2) as Hd. cbn beta in Hd.
      rewrite dv_snoc, zlen_app. change (zlen [d]) with 1. pose proof (zlen_nonneg l).
      match goal with |- context [(2 ^ bits) ^ ?e] =>
        replace ((2 ^ bits) ^ e) with ((2 ^ bits) ^ zlen l * 2 ^ bits)
          by (replace e with (zlen l + 1) by lia; rewrite Z.pow_add_r by lia; now rewrite Z.pow_1_r) end.
      nia.
  Qed.

  (* digit i of an m-digit number *)
  Lemma dv_digit l : Forall (fun d => 0 <= d < 2 ^ bits) l -> forall i, 0 <= i < zlen l ->
    (dv l / (2 ^ bits) ^ (zlen l - 1 - i)) mod 2 ^ bits = nth (Z.to_nat i) l 0.
  Proof.
    pose proof Bpos. induction l as [|d l IH] using rev_ind; intros H0 i Hi.
    - unfold zlen in Hi. cbn in Hi. lia.
    - apply Forall_app in H0. destruct H0 as [H1 H2]. pose proof (Forall_inv H2) as Hd. cbn beta in Hd.
      rewrite zlen_app in *. change (zlen [d]) with 1 in *. pose proof (zlen_nonneg l). rewrite dv_snoc.
      destruct (Z.eq_dec i (zlen l)).
      + subst i. match goal with |- context [(2 ^ bits) ^ ?e] => replace e with 0 by lia end. rewrite Z.pow_0_r, Z.div_1_r.
        rewrite Z.add_comm, Z.mod_add by lia. rewrite Z.mod_small by lia.
        rewrite app_nth2 by (unfold zlen; lia). replace (Z.to_nat (zlen l) - length l)%nat with 0%nat by (unfold zlen; lia). reflexivity.
      + match goal with |- context [(2 ^ bits) ^ ?e] =>
          replace ((2 ^ bits) ^ e) with (2 ^ bits * (2 ^ bits) ^ (zlen l - 1 - i))
            by (replace e with (Z.succ (zlen l - 1 - i)) by lia; now rewrite Z.pow_succ_r by lia) end.
        rewrite <- Z.div_div by (try apply Z.pow_pos_nonneg; lia).
        replace ((dv l * 2 ^ bits + d) / 2 ^ bits) with (dv l).
        2:{ apply (Z.div_unique _ _ _ d); lia. }
        rewrite IH by (auto; lia). rewrite app_nth1 by (unfold zlen in *; lia). reflexivity.
  Qed.

  Lemma pow_bits e : 0 <= e -> 2 ^ (bits * e) = (2 ^ bits) ^ e.
  Proof. intros He. apply Z.pow_mul_r; destruct Hbits as [E | [E | E]]; lia. Qed.

  (* the byte holding the digits [pre] in its top bits *)
  Lemma top_digit pre i : Forall (fun d => 0 <= d < 2 ^ bits) pre -> zlen pre <= 8 / bits -> 0 <= i < zlen pre ->
    (dv pre * 2 ^ (8 - bits * zlen pre) / 2 ^ (8 - bits - bits * i)) mod 2 ^ bits = nth (Z.to_nat i) pre 0.
  Proof.
    intros Hp Hm Hi. destruct per_bits as [Hpb Hp1].
    assert (Hb0 : 0 < bits) by (destruct Hbits as [E | [E | E]]; lia).
    assert (E : 8 - bits - bits * i = (8 - bits * zlen pre) + bits * (zlen pre - 1 - i)) by lia.
    assert (0 <= 8 - bits * zlen pre) by nia.
    rewrite E, Z.pow_add_r by nia.
    rewrite (Z.mul_comm (2 ^ (8 - bits * zlen pre))).
    rewrite Z.div_mul_cancel_r by (apply Z.pow_nonzero; nia).
    rewrite pow_bits by lia. apply dv_digit; assumption.
  Qed.

  Lemma nthz_cons_pos (a : Z) l n : (1 <= n)%nat -> nthz (a :: l) n = nthz l (n - 1).
  Proof. intros H. unfold nthz. destruct n; [lia|]. cbn. now rewrite Nat.sub_0_r. Qed.

  Lemma pack_bits_spec sfx : forall idx pre,
    Forall (fun d => 0 <= d < 2 ^ bits) (pre ++ idx) -> zlen pre < 8 / bits ->
    forall i, 0 <= i < zlen (pre ++ idx) ->
      extract (pack_bits bits idx (dv pre) (bits * zlen pre) ++ sfx) i = nth (Z.to_nat i) (pre ++ idx) 0.
  Proof.
    destruct per_bits as [Hpb Hp1].
    assert (Hb0 : 0 < bits) by (destruct Hbits as [E | [E | E]]; lia).
    induction idx as [|i0 idx IH]; intros pre Hd Hm i Hi.
    - rewrite app_nil_r in *. cbn [pack_bits]. pose proof (zlen_nonneg pre).
      destruct (Z.eqb_spec (bits * zlen pre) 0); [nia|].
      unfold extract. rewrite (Z.div_small i (8 / bits)) by lia. cbn [app Z.to_nat]. unfold nthz at 1. cbn [nth].
      rewrite (Z.mod_small i (8 / bits)) by lia. apply top_digit; auto; lia.
    - cbn [pack_bits].
      replace (dv pre * 2 ^ bits + i0) with (dv (pre ++ [i0])) by apply dv_snoc.
      assert (Hd' : Forall (fun d => 0 <= d < 2 ^ bits) ((pre ++ [i0]) ++ idx)) by (rewrite <- app_assoc; exact Hd).
      assert (Hl : zlen (pre ++ [i0]) = zlen pre + 1) by (rewrite zlen_app; reflexivity).
      replace (bits * zlen pre + bits) with (bits * zlen (pre ++ [i0])) by (rewrite Hl; lia).
      pose proof (zlen_nonneg pre).
      destruct (Z.eqb_spec (bits * zlen (pre ++ [i0])) 8) as [E8|N8].
      + (* the byte is complete *)
        assert (Hfull : zlen (pre ++ [i0]) = 8 / bits) by nia.
        cbn [app]. destruct (Z.ltb_spec i (8 / bits)).
        * unfold extract. rewrite (Z.div_small i (8 / bits)) by lia. cbn [Z.to_nat]. unfold nthz at 1. cbn [nth]. rewrite (Z.mod_small i (8 / bits)) by lia.
          pose proof (top_digit (pre ++ [i0]) i) as T. rewrite Hfull in T.
          replace (8 - bits * (8 / bits)) with 0 in T by lia. rewrite Z.pow_0_r, Z.mul_1_r in T.
          rewrite T; [|apply Forall_app in Hd'; apply Hd'|lia|lia].
          replace (pre ++ i0 :: idx) with ((pre ++ [i0]) ++ idx) by (rewrite <- app_assoc; reflexivity).
          symmetry. apply app_nth1. unfold zlen in *. lia.
        * (* a later byte: shift by one byte = per digits *)
          assert (Hi' : 0 <= i - 8 / bits < zlen ([] ++ idx)).
          { cbn [app]. rewrite zlen_app, zlen_cons in Hi. rewrite Hl in Hfull. lia. }
          pose proof (IH [] ltac:(cbn [app]; apply Forall_app in Hd'; apply Hd') ltac:(unfold zlen; cbn; lia) (i - 8 / bits) Hi') as G.
          unfold dv in G at 1. cbn [fold_left] in G. replace (bits * zlen (@nil Z)) with 0 in G by (unfold zlen; cbn; lia).
          unfold extract in *.
          assert (Ediv : i / (8 / bits) = (i - 8 / bits) / (8 / bits) + 1).
          { replace i with ((i - 8 / bits) + 1 * (8 / bits)) at 1 by lia. rewrite Z.div_add by lia. reflexivity. }
          assert (Emod : i mod (8 / bits) = (i - 8 / bits) mod (8 / bits)).
          { replace i with ((i - 8 / bits) + 1 * (8 / bits)) at 1 by lia. rewrite Z.mod_add by lia. reflexivity. }
          assert (0 <= (i - 8 / bits) / (8 / bits)) by (apply Z.div_pos; lia).
          rewrite Ediv, Emod. rewrite nthz_cons_pos by lia.
          replace (Z.to_nat ((i - 8 / bits) / (8 / bits) + 1) - 1)%nat with (Z.to_nat ((i - 8 / bits) / (8 / bits))) by lia.
          rewrite G. cbn [app].
          replace (pre ++ i0 :: idx) with ((pre ++ [i0]) ++ idx) by (rewrite <- app_assoc; reflexivity).
          rewrite app_nth2 by (unfold zlen in *; lia). f_equal. unfold zlen in *. lia.
      + assert (Hm' : zlen (pre ++ [i0]) < 8 / bits) by nia.
        pose proof (IH (pre ++ [i0]) Hd' Hm' i) as G.
        replace ((pre ++ [i0]) ++ idx) with (pre ++ i0 :: idx) in G by (rewrite <- app_assoc; reflexivity).
        apply G. exact Hi.
  Qed.

  Lemma pack_row_unpack idx sfx : Forall (fun d => 0 <= d < 2 ^ bits) idx ->
    packed_row bits (zlen idx) (pack_row bits idx ++ sfx) = idx.
  Proof.
    intros Hd. unfold packed_row, pack_row. cbv zeta.
    transitivity (map (fun i => nth (Z.to_nat i) idx 0) (zseq (zlen idx))); [|apply zseq_nth_id].
    apply map_ext_in. intros i Hi.
    unfold zseq in Hi. apply in_map_iff in Hi. destruct Hi as (k & <- & Hk). apply in_seq in Hk.
    pose proof (pack_bits_spec sfx idx [] ltac:(exact Hd) ltac:(destruct per_bits; unfold zlen; cbn; lia) (Z.of_nat k)
                  ltac:(cbn [app]; unfold zlen in *; lia)) as G.
    unfold dv in G at 1. cbn [fold_left app] in G. replace (bits * zlen (@nil Z)) with 0 in G by (unfold zlen; cbn; lia).
    unfold extract in G. exact G.
  Qed.
  (* ceil((m + L) / per) bytes *)
  Lemma pack_bits_len : forall idx pre, zlen pre < 8 / bits ->
    zlen (pack_bits bits idx (dv pre) (bits * zlen pre)) = (zlen pre + zlen idx + 8 / bits - 1) / (8 / bits).
  Proof.
    destruct per_bits as [Hpb Hp1].
    assert (Hb0 : 0 < bits) by (destruct Hbits as [E | [E | E]]; lia).
    induction idx as [|i0 idx IH]; intros pre Hm; pose proof (zlen_nonneg pre) as Hpre.
    - cbn [pack_bits]. change (zlen (@nil Z)) with 0. rewrite Z.add_0_r.
      destruct (Z.eqb_spec (bits * zlen pre) 0).
      + assert (zlen pre = 0) by nia. rewrite H. rewrite Z.div_small by lia. reflexivity.
      + assert (1 <= zlen pre) by nia. change (zlen [dv pre * 2 ^ (8 - bits * zlen pre)]) with 1.
        apply (Z.div_unique _ _ 1 (zlen pre - 1)); lia.
    - cbn [pack_bits].
      replace (dv pre * 2 ^ bits + i0) with (dv (pre ++ [i0])) by apply dv_snoc.
      assert (Hl : zlen (pre ++ [i0]) = zlen pre + 1) by (rewrite zlen_app; reflexivity).
      replace (bits * zlen pre + bits) with (bits * zlen (pre ++ [i0])) by (rewrite Hl; lia).
      rewrite zlen_cons. pose proof (zlen_nonneg idx).
      destruct (Z.eqb_spec (bits * zlen (pre ++ [i0])) 8) as [E8|N8].
      + assert (Hfull : zlen pre + 1 = 8 / bits) by nia.
        rewrite zlen_cons. pose proof (IH [] ltac:(unfold zlen; cbn; lia)) as G.
        unfold dv in G at 1. cbn [fold_left] in G. replace (bits * zlen (@nil Z)) with 0 in G by (unfold zlen; cbn; lia).
        rewrite G. change (zlen (@nil Z)) with 0.
        replace (zlen pre + (1 + zlen idx) + 8 / bits - 1) with ((0 + zlen idx + 8 / bits - 1) + 1 * (8 / bits)) by lia.
        rewrite Z.div_add by lia. lia.
      + rewrite (IH (pre ++ [i0])) by nia. rewrite Hl. f_equal. lia.
  Qed.

  Lemma pack_row_len idx : zlen (pack_row bits idx) = (zlen idx + 8 / bits - 1) / (8 / bits).
  Proof.
    unfold pack_row. pose proof (pack_bits_len idx [] ltac:(destruct per_bits; unfold zlen; cbn; lia)) as G.
    unfold dv in G at 1. cbn [fold_left] in G. replace (bits * zlen (@nil Z)) with 0 in G by (unfold zlen; cbn; lia).
    rewrite G. change (zlen (@nil Z)) with 0. f_equal.
  Qed.

  Lemma pack_bits_ok : forall idx cur nb, 0 <= cur -> 0 <= nb < 8 -> cur < 2 ^ nb ->
    (exists m, nb = bits * m) -> Forall (fun d => 0 <= d < 2 ^ bits) idx -> Forall byte_ok (pack_bits bits idx cur nb).
  Proof.
    destruct per_bits as [Hpb Hp1].
    assert (Hb0 : 0 < bits <= 4) by (destruct Hbits as [E | [E | E]]; lia).
    induction idx as [|i0 idx IH]; intros cur nb Hc Hnb Hlt [m Hm] Hd; cbn [pack_bits].
    - destruct (nb =? 0); [constructor|]. constructor; [|constructor]. unfold byte_ok.
      assert (2 ^ nb * 2 ^ (8 - nb) = 2 ^ 8) by (rewrite <- Z.pow_add_r by lia; f_equal; lia).
      assert (0 < 2 ^ (8 - nb)) by (apply Z.pow_pos_nonneg; lia). change (2 ^ 8) with 256 in *. nia.
    - pose proof (Forall_inv Hd) as H0. pose proof (Forall_inv_tail Hd) as Hd'. cbn beta in H0.
      assert (Hcur' : 0 <= cur * 2 ^ bits + i0 < 2 ^ (nb + bits)).
      { rewrite Z.pow_add_r by lia. assert (0 < 2 ^ bits) by (apply Z.pow_pos_nonneg; lia). nia. }
      destruct (Z.eqb_spec (nb + bits) 8).
      + constructor.
        * unfold byte_ok. rewrite e in Hcur'. change (2 ^ 8) with 256 in Hcur'. lia.
        * apply IH; try lia; auto. exists 0. lia.
      + assert (Hb2 : 0 <= nb + bits < 8).
        { assert (Hle : m + 1 <= 8 / bits).
          { destruct (Z.le_gt_cases (m + 1) (8 / bits)); [assumption|].
            assert (bits * (8 / bits) <= bits * m) by (apply Z.mul_le_mono_nonneg_l; lia). lia. }
          assert (Hne : m + 1 <> 8 / bits) by (intros E; apply n; rewrite Hm; rewrite <- Hpb, <- E; ring).
          assert (bits * (m + 1) <= bits * (8 / bits - 1)) by (apply Z.mul_le_mono_nonneg_l; lia).
          remember (8 / bits) as P. nia. }
        apply IH; auto; try lia. exists (m + 1). lia.
  Qed.

  Lemma pack_row_ok idx : Forall (fun d => 0 <= d < 2 ^ bits) idx -> Forall byte_ok (pack_row bits idx).
  Proof. intros H. unfold pack_row. apply pack_bits_ok; auto; try lia. exists 0. lia. Qed.
End Pack.

(* ---------------------------------------------------------------- lists of equally long blocks *)
Lemma skipn_plus {A} (a b : nat) (l : list A) : skipn (a + b) l = skipn b (skipn a l).
Proof. revert l; induction a; intros l; [reflexivity|]. destruct l; [now rewrite !skipn_nil|]. cbn [Nat.add skipn]. apply IHa. Qed.

Lemma flat_map_skip {A} (g : A -> list Z) (L : Z) (d : A) : 0 <= L -> forall T j,
  Forall (fun r => zlen (g r) = L) T -> (j < length T)%nat ->
  skipn (Z.to_nat (Z.of_nat j * L)) (flat_map g T) = g (nth j T d) ++ flat_map g (skipn (S j) T).
Proof.
  intros HL. induction T as [|r T IH]; intros j HT Hj; [cbn in Hj; lia|].
  pose proof (Forall_inv HT) as Hr. pose proof (Forall_inv_tail HT) as HT'. cbn beta in Hr.
  destruct j as [|j].
  - cbn. reflexivity.
  - cbn [flat_map nth skipn].
    replace (Z.to_nat (Z.of_nat (S j) * L)) with (Z.to_nat L + Z.to_nat (Z.of_nat j * L))%nat by nia.
    rewrite skipn_plus. rewrite skipn_app.
    replace (Z.to_nat L - length (g r))%nat with 0%nat by (unfold zlen in Hr; lia).
    rewrite (@skipn_all2 _ (Z.to_nat L) (g r)) by (unfold zlen in Hr; lia). cbn [app skipn].
    apply IH; [exact HT'|cbn [length] in Hj; lia].
Qed.

Lemma zseq_nth_gen {A} (d : A) (l : list A) : map (fun i => nth (Z.to_nat i) l d) (zseq (zlen l)) = l.
Proof.
  unfold zseq, zlen. rewrite Nat2Z.id, map_map.
  induction l as [|a l IH]; [reflexivity|].
  cbn [length]. rewrite <- cons_seq, <- seq_shift, map_cons, map_map. f_equal.
  transitivity (map (fun x => nth (Z.to_nat (Z.of_nat x)) l d) (seq 0 (length l))); [|exact IH].
  apply map_ext. intros k. rewrite !Nat2Z.id. reflexivity.
Qed.

(* a state-preserving mapM *)
Lemma mapM_pure {A B} (f : A -> M B) (g : A -> B) l s ts :
  (forall a, In a l -> f a s ts = Ok (g a) s ts) -> mapM f l s ts = Ok (map g l) s ts.
Proof.
  induction l as [|a l IH]; intros H; cbn [mapM map]; [reflexivity|].
  erewrite bind_ok; [|apply H; now left]. erewrite bind_ok; [reflexivity|]. apply IH. intros; apply H; now right.
Qed.

Lemma bits_for_cases n : bits_for n = 1 \/ bits_for n = 2 \/ bits_for n = 4.
Proof. unfold bits_for. destruct (n <=? 2); [auto|]. destruct (n <=? 4); auto. Qed.
