(* CliReqProofs.v - what the client writes (SetPixelFormat, SetEncodings, FramebufferUpdateRequest, as
   produced by the mirror CliInit/CliDec and compared byte for byte with the real client) parses under
   the client-to-server grammar of the RFB specification, with the values the client holds. *)
From LV Require Import Dec.CliBase Dec.CliFbProofs Dec.CliDec Dec.CliMsg Dec.CliInit Dec.RefEnc Dec.CliRtBase.
Require Import ZifyBool.
Local Open Scope Z_scope.

Inductive c2s : Type :=
| MSPF (bpp depth be tc rmax gmax bmax rs gs bs : Z)
| MSE (encs : list Z)
| MFUR (incr x y w h : Z).

Definition u16_at (l : list Z) (k : nat) : Z := be_val (firstn 2 (skipn k l)).
Definition u32_at (l : list Z) (k : nat) : Z := be_val (firstn 4 (skipn k l)).

(* the grammar: message type byte, fixed part, and for SetEncodings a counted list *)
Fixpoint c2s_parse (fuel : nat) (l : list Z) : option (list c2s) :=
  match l with
  | [] => Some []
  | t :: _ =>
      match fuel with
      | O => None
      | S f =>
          if t =? cC_SetPixelFormat then
            if (length l <? 20)%nat then None else
            match c2s_parse f (skipn 20 l) with
            | None => None
            | Some r => Some (MSPF (nthz l 4) (nthz l 5) (nthz l 6) (nthz l 7) (u16_at l 8) (u16_at l 10) (u16_at l 12)
                                   (nthz l 14) (nthz l 15) (nthz l 16) :: r)
            end
          else if t =? cC_SetEncodings then
            if (length l <? 4)%nat then None else
            let n := Z.to_nat (u16_at l 2) in
            if (length l <? 4 + 4 * n)%nat then None else
            match c2s_parse f (skipn (4 + 4 * n) l) with
            | None => None
            | Some r => Some (MSE (map be_val (chunks 4 (firstn (4 * n) (skipn 4 l)))) :: r)
            end
          else if t =? cC_FramebufferUpdateRequest then
            if (length l <? 10)%nat then None else
            match c2s_parse f (skipn 10 l) with
            | None => None
            | Some r => Some (MFUR (nthz l 1) (u16_at l 2) (u16_at l 4) (u16_at l 6) (u16_at l 8) :: r)
            end
          else None
      end
  end.

Lemma be_bytes_aux_len n v acc : length (be_bytes_aux n v acc) = (n + length acc)%nat.
Proof. revert v acc; induction n; intros v acc; cbn [be_bytes_aux]; [reflexivity|]. rewrite IHn. cbn [length]. lia. Qed.
Lemma be_bytes_len n v : length (be_bytes n v) = n.
Proof. unfold be_bytes. rewrite be_bytes_aux_len. cbn. lia. Qed.

Lemma fold_be b : forall acc,
  fold_left (fun a x : Z => a * 256 + x) b acc = acc * 256 ^ zlen b + fold_left (fun a x : Z => a * 256 + x) b 0.
Proof.
  induction b as [|x b IH]; intros acc; cbn [fold_left].
  - unfold zlen; cbn. lia.
  - rewrite (IH (acc * 256 + x)), (IH (0 * 256 + x)). rewrite zlen_cons.
    rewrite Z.pow_add_r by (pose proof (zlen_nonneg b); lia). lia.
Qed.

Lemma be_val_app a b : be_val (a ++ b) = be_val a * 256 ^ zlen b + be_val b.
Proof. unfold be_val. rewrite fold_left_app. apply fold_be. Qed.

Lemma be_bytes_aux_val n : forall v acc, 0 <= v < 256 ^ Z.of_nat n ->
  be_val (be_bytes_aux n v acc) = v * 256 ^ zlen acc + be_val acc.
Proof.
  induction n; intros v acc Hv.
  - cbn [be_bytes_aux]. change (Z.of_nat 0) with 0 in Hv. rewrite Z.pow_0_r in Hv. assert (v = 0) by lia. subst. lia.
  - cbn [be_bytes_aux]. rewrite Nat2Z.inj_succ, Z.pow_succ_r in Hv by lia.
    rewrite IHn by (split; [apply Z.div_pos; lia|apply Z.div_lt_upper_bound; lia]).
    rewrite zlen_cons. rewrite Z.pow_add_r by (pose proof (zlen_nonneg acc); lia).
    change (be_val (v mod 256 :: acc)) with (be_val ([v mod 256] ++ acc)). rewrite be_val_app.
    change (be_val [v mod 256]) with (0 * 256 + v mod 256).
    pose proof (Z.div_mod v 256 ltac:(lia)). nia.
Qed.

Lemma be_val_be_bytes n v : 0 <= v < 256 ^ Z.of_nat n -> be_val (be_bytes n v) = v.
Proof. intros H. unfold be_bytes. rewrite be_bytes_aux_val by assumption. cbn. lia. Qed.

Definition fmt_wire_ok (f : pixfmt) : Prop :=
  0 <= f_rmax f < 65536 /\ 0 <= f_gmax f < 65536 /\ 0 <= f_bmax f < 65536.

Lemma skipn_app_exact {A} (a b : list A) n : n = length a -> skipn n (a ++ b) = b.
Proof. intros ->. rewrite skipn_app, skipn_all, Nat.sub_diag. reflexivity. Qed.
Lemma firstn_app_exact {A} (a b : list A) n : n = length a -> firstn n (a ++ b) = a.
Proof. intros ->. rewrite firstn_app, firstn_all, Nat.sub_diag. cbn. now rewrite app_nil_r. Qed.

Lemma chunks4_be (encs : list Z) :
  chunks 4 (flat_map (be_bytes 4) encs) = map (be_bytes 4) encs.
Proof.
  rewrite flat_map_concat_map. apply chunks_concat; [lia|].
  apply Forall_forall. intros r Hr. apply in_map_iff in Hr. destruct Hr as [v [<- _]].
  unfold zlen. now rewrite be_bytes_len.
Qed.

Lemma parse_spf f tail fuel :
  fmt_wire_ok f ->
  c2s_parse (S fuel) (spf_bytes f ++ tail) =
  match c2s_parse fuel tail with
  | None => None
  | Some r => Some (MSPF (f_bpp f) (f_depth f) (if f_be f then 1 else 0) 1 (f_rmax f) (f_gmax f) (f_bmax f)
                         (f_rshift f) (f_gshift f) (f_bshift f) :: r)
  end.
Proof.
  intros (Hr & Hg & Hb).
  assert (Hspf : length (spf_bytes f) = 20%nat).
  { unfold spf_bytes. rewrite !app_length, !be_bytes_len. reflexivity. }
  assert (E1 : exists t, spf_bytes f ++ tail = cC_SetPixelFormat :: t) by (unfold spf_bytes; cbn [app]; eauto).
  destruct E1 as [t1 E1]. cbn [c2s_parse]. rewrite E1. rewrite <- E1.
  rewrite Z.eqb_refl.
  destruct (Nat.ltb_spec (length (spf_bytes f ++ tail)) 20); [rewrite app_length in *; lia|].
  rewrite (skipn_app_exact (spf_bytes f) tail 20) by (now rewrite Hspf).
  assert (Hfields : nthz (spf_bytes f ++ tail) 4 = f_bpp f /\ nthz (spf_bytes f ++ tail) 5 = f_depth f /\
                    nthz (spf_bytes f ++ tail) 6 = (if f_be f then 1 else 0) /\ nthz (spf_bytes f ++ tail) 7 = 1 /\
                    u16_at (spf_bytes f ++ tail) 8 = f_rmax f /\ u16_at (spf_bytes f ++ tail) 10 = f_gmax f /\
                    u16_at (spf_bytes f ++ tail) 12 = f_bmax f /\ nthz (spf_bytes f ++ tail) 14 = f_rshift f /\
                    nthz (spf_bytes f ++ tail) 15 = f_gshift f /\ nthz (spf_bytes f ++ tail) 16 = f_bshift f).
  { unfold spf_bytes, u16_at, nthz.
    pose proof (be_bytes_len 2 (f_rmax f)) as L1. pose proof (be_bytes_len 2 (f_gmax f)) as L2. pose proof (be_bytes_len 2 (f_bmax f)) as L3.
    pose proof (be_val_be_bytes 2 (f_rmax f) ltac:(cbn; lia)) as V1.
    pose proof (be_val_be_bytes 2 (f_gmax f) ltac:(cbn; lia)) as V2.
    pose proof (be_val_be_bytes 2 (f_bmax f) ltac:(cbn; lia)) as V3.
    destruct (be_bytes 2 (f_rmax f)) as [|r1 [|r2 [|]]]; try discriminate.
    destruct (be_bytes 2 (f_gmax f)) as [|g1 [|g2 [|]]]; try discriminate.
    destruct (be_bytes 2 (f_bmax f)) as [|b1 [|b2 [|]]]; try discriminate.
    cbn. cbn in V1, V2, V3. repeat split; auto. }
  destruct Hfields as (F1 & F2 & F3 & F4 & F5 & F6 & F7 & F8 & F9 & F10).
  rewrite F1, F2, F3, F4, F5, F6, F7, F8, F9, F10. reflexivity.
Qed.

Lemma parse_se encs tail fuel :
  Forall (fun e => 0 <= e < 4294967296) encs -> zlen encs < 65536 ->
  c2s_parse (S fuel) (se_bytes encs ++ tail) =
  match c2s_parse fuel tail with None => None | Some r => Some (MSE encs :: r) end.
Proof.
  intros Hencs Hn.
  assert (Hse : length (se_bytes encs) = (4 + 4 * length encs)%nat).
  { unfold se_bytes. rewrite !app_length, be_bytes_len. cbn [length].
    rewrite flat_map_concat_map.
    assert (length (concat (map (be_bytes 4) encs)) = (4 * length encs)%nat); [|lia].
    clear. induction encs; cbn [map concat length]; [reflexivity|]. rewrite app_length, be_bytes_len. lia. }
  assert (E2 : exists t, se_bytes encs ++ tail = cC_SetEncodings :: t) by (unfold se_bytes; cbn [app]; eauto).
  destruct E2 as [t2 E2]. cbn [c2s_parse]. rewrite E2. rewrite <- E2.
  change (cC_SetEncodings =? cC_SetPixelFormat) with false. cbn iota. rewrite Z.eqb_refl.
  destruct (Nat.ltb_spec (length (se_bytes encs ++ tail)) 4); [rewrite app_length in *; lia|].
  assert (Hcnt : u16_at (se_bytes encs ++ tail) 2 = zlen encs).
  { unfold se_bytes, u16_at. cbn [app skipn].
    pose proof (be_bytes_len 2 (zlen encs)) as L. pose proof (be_val_be_bytes 2 (zlen encs) ltac:(pose proof (zlen_nonneg encs); cbn; lia)) as V.
    destruct (be_bytes 2 (zlen encs)) as [|c1 [|c2 [|]]]; try discriminate. cbn. cbn in V. exact V. }
  rewrite Hcnt. unfold zlen at 1 2 3. rewrite Nat2Z.id.
  destruct (Nat.ltb_spec (length (se_bytes encs ++ tail)) (4 + 4 * length encs)); [rewrite app_length in *; lia|].
  rewrite (skipn_app_exact (se_bytes encs) tail) by (now rewrite Hse).
  assert (Hbody : firstn (4 * length encs) (skipn 4 (se_bytes encs ++ tail)) = flat_map (be_bytes 4) encs).
  { unfold se_bytes. rewrite <- !app_assoc.
    pose proof (be_bytes_len 2 (zlen encs)) as L.
    destruct (be_bytes 2 (zlen encs)) as [|c1 [|c2 [|]]]; try discriminate. cbn [app skipn].
    apply firstn_app_exact. rewrite flat_map_concat_map. clear.
    induction encs; cbn [map concat length]; [reflexivity|]. rewrite app_length, be_bytes_len. lia. }
  rewrite Hbody, chunks4_be, map_map.
  assert (Hmap : map (fun x0 => be_val (be_bytes 4 x0)) encs = encs).
  { rewrite <- (map_id encs) at 2. apply map_ext_in. intros e He. rewrite Forall_forall in Hencs.
    apply be_val_be_bytes. specialize (Hencs e He). cbn. lia. }
  rewrite Hmap. reflexivity.
Qed.

Lemma parse_fur incr x y w h tail fuel :
  0 <= x < 65536 -> 0 <= y < 65536 -> 0 <= w < 65536 -> 0 <= h < 65536 ->
  c2s_parse (S fuel) (fur_bytes incr x y w h ++ tail) =
  match c2s_parse fuel tail with None => None | Some r => Some (MFUR incr x y w h :: r) end.
Proof.
  intros Hx Hy Hw Hh.
  assert (Hfur : length (fur_bytes incr x y w h) = 10%nat).
  { unfold fur_bytes. cbn [length]. rewrite !app_length, !be_bytes_len. reflexivity. }
  assert (E3 : exists t, fur_bytes incr x y w h ++ tail = cC_FramebufferUpdateRequest :: t) by (unfold fur_bytes; cbn [app]; eauto).
  destruct E3 as [t3 E3]. cbn [c2s_parse]. rewrite E3. rewrite <- E3.
  change (cC_FramebufferUpdateRequest =? cC_SetPixelFormat) with false.
  change (cC_FramebufferUpdateRequest =? cC_SetEncodings) with false. cbn iota. rewrite Z.eqb_refl.
  destruct (Nat.ltb_spec (length (fur_bytes incr x y w h ++ tail)) 10); [rewrite app_length in *; lia|].
  rewrite (skipn_app_exact (fur_bytes incr x y w h) tail 10) by (now rewrite Hfur).
  assert (Hf : nthz (fur_bytes incr x y w h ++ tail) 1 = incr /\ u16_at (fur_bytes incr x y w h ++ tail) 2 = x /\
               u16_at (fur_bytes incr x y w h ++ tail) 4 = y /\ u16_at (fur_bytes incr x y w h ++ tail) 6 = w /\
               u16_at (fur_bytes incr x y w h ++ tail) 8 = h).
  { unfold fur_bytes, u16_at, nthz. rewrite !Z.mod_small by lia.
    pose proof (be_bytes_len 2 x) as L1. pose proof (be_bytes_len 2 y) as L2. pose proof (be_bytes_len 2 w) as L3. pose proof (be_bytes_len 2 h) as L4.
    pose proof (be_val_be_bytes 2 x ltac:(cbn; lia)) as V1. pose proof (be_val_be_bytes 2 y ltac:(cbn; lia)) as V2.
    pose proof (be_val_be_bytes 2 w ltac:(cbn; lia)) as V3. pose proof (be_val_be_bytes 2 h ltac:(cbn; lia)) as V4.
    destruct (be_bytes 2 x) as [|x1 [|x2 [|]]]; try discriminate. destruct (be_bytes 2 y) as [|y1 [|y2 [|]]]; try discriminate.
    destruct (be_bytes 2 w) as [|w1 [|w2 [|]]]; try discriminate. destruct (be_bytes 2 h) as [|h1 [|h2 [|]]]; try discriminate.
    cbn. cbn in V1, V2, V3, V4. repeat split; auto. }
  destruct Hf as (G1 & G2 & G3 & G4 & G5). rewrite G1, G2, G3, G4, G5. reflexivity.
Qed.

Theorem requests_wf f encs incr x y w h fuel :
  fmt_wire_ok f -> Forall (fun e => 0 <= e < 4294967296) encs -> zlen encs < 65536 ->
  0 <= x < 65536 -> 0 <= y < 65536 -> 0 <= w < 65536 -> 0 <= h < 65536 ->
  c2s_parse (S (S (S fuel))) (spf_bytes f ++ se_bytes encs ++ fur_bytes incr x y w h) =
  Some [MSPF (f_bpp f) (f_depth f) (if f_be f then 1 else 0) 1 (f_rmax f) (f_gmax f) (f_bmax f)
             (f_rshift f) (f_gshift f) (f_bshift f); MSE encs; MFUR incr x y w h].
Proof.
  intros Hf Hencs Hn Hx Hy Hw Hh.
  rewrite parse_spf by assumption. rewrite parse_se by assumption.
  rewrite <- (app_nil_r (fur_bytes incr x y w h)). rewrite parse_fur by assumption.
  destruct fuel; reflexivity.
Qed.

Example requests_wf_nonvacuous :
  c2s_parse 40 (spf_bytes (mkfmt 32 24 false 255 255 255 16 8 0) ++ se_bytes (client_encodings [0; 1; 2; 3; 7; 9] 3 9 false true true)
                ++ fur_bytes 0 0 0 640 480)
  = Some [MSPF 32 24 0 1 255 255 255 16 8 0;
          MSE (client_encodings [0; 1; 2; 3; 7; 9] 3 9 false true true); MFUR 0 0 0 640 480].
Proof. vm_compute. reflexivity. Qed.
