(* CliRtZ.v - round trips for the compressed encodings whose payload is the raw pixel block:
   Zlib and Ultra (the compression itself is the opaque letter TZ / TL). *)
From LV Require Import Dec.CliBase Dec.CliFbProofs Dec.CliDec Dec.CliDecZ Dec.RefEnc Dec.RefEncZ Dec.CliRtBase Dec.CliRtSimple.
Require Import ZifyBool.
Local Open Scope Z_scope.

Lemma st_wf_ext s s' : c_w s' = c_w s -> c_h s' = c_h s -> c_fb s' = c_fb s -> st_wf s -> st_wf s'.
Proof. unfold st_wf. intros -> -> ->. auto. Qed.

Lemma map_mod_id l : Forall byte_ok l -> map (fun b => b mod 256) l = l.
Proof.
  intros H. rewrite <- (map_id l) at 2. apply map_ext_in. intros b Hb. rewrite Forall_forall in H.
  specialize (H b Hb). unfold byte_ok in H. apply Z.mod_small. lia.
Qed.

Lemma rd_stream_ok sid s fresh data ts :
  fresh = negb (zact_get s sid) ->
  rd_stream sid s (TZ sid fresh true data :: ts) = Ok (true, map (fun b => b mod 256) data) (zact_set s sid true) ts.
Proof.
  intros ->. unfold rd_stream, rd_zblock, bind, get_st, upd_st, ret. rewrite Z.eqb_refl. cbn [negb].
  destruct (zact_get s sid); reflexivity.
Qed.

(* the client's inflate stream for an encoding: its own (fix 11) or the single decompStream, which then must only ever
   have been fed from THIS encoding's server stream ([other s = false]) *)
Definition zs_ready (own other : cst -> bool) (s : cst) : Prop :=
  fixed s 11 = true \/ (zact_get s 0 = own s /\ other s = false).

Lemma rd_shared_ok own other mark sid s fresh data ts :
  zact_get s 0 = own s -> other s = false -> fresh = negb (zact_get s 0) ->
  rd_shared own other mark sid s (TZ sid fresh true data :: ts)
  = Ok (true, map (fun b => b mod 256) data) (zact_set (mark s) 0 true) ts.
Proof.
  intros Ho Hot ->. unfold rd_shared, rd_zblock, bind, get_st, upd_st, ret. rewrite Z.eqb_refl. cbn [negb].
  rewrite <- Ho, Hot. destruct (zact_get s 0); reflexivity.
Qed.

Definition zlib_mark (s : cst) : cst :=
  if fixed s 11 then set_zlibz (zact_set s 0 true) true else zact_set (set_zlibz s true) 0 true.

Lemma rd_zlib_stream_ok s fresh data ts : zs_ready c_zlibz c_zrlez s -> fresh = negb (zact_get s 0) ->
  rd_zlib_stream s (TZ 0 fresh true data :: ts) = Ok (true, map (fun b => b mod 256) data) (zlib_mark s) ts.
Proof.
  intros Hr Hf. unfold rd_zlib_stream, zlib_mark. unfold bind at 1. unfold get_st at 1.
  destruct (fixed s 11) eqn:F.
  - erewrite bind_ok; [|apply rd_stream_ok; exact Hf]. reflexivity.
  - destruct Hr as [Hr|[H1 H2]]; [congruence|]. now apply rd_shared_ok.
Qed.

Lemma zlib_mark_same s : c_w (zlib_mark s) = c_w s /\ c_h (zlib_mark s) = c_h s /\ c_fb (zlib_mark s) = c_fb s.
Proof. unfold zlib_mark. destruct (fixed s 11); repeat split; reflexivity. Qed.

Theorem roundtrip_zlib s x y w h tgt ts fresh :
  st_wf s -> bypp_ok s -> 0 <= x -> 0 <= y -> 1 <= w -> 0 <= h -> x + w <= c_w s -> y + h <= c_h s ->
  rows_wf w h tgt -> Forall (Forall (px_ok (bypp_of s))) tgt ->
  zs_ready c_zlibz c_zrlez s -> fresh = negb (zact_get s 0) ->
  let cap := if c_rawsz s <? w * h * bypp_of s then w * h * bypp_of s else c_rawsz s in
  dec_zlib x y w h s (ref_zlib (c_fmt s) fresh tgt ++ ts)
  = Ok tt (set_fb (zlib_mark (set_rawsz s cap)) (blit_spec (c_fb s) x y tgt)) ts.
Proof.
  intros Hs [Hb1 Hb2] Hx Hy Hw Hh Hxw Hyh Ht Hp Hready Hfresh cap.
  unfold dec_zlib, ref_zlib. cbn [app].
  erewrite bind_ok; [|reflexivity]. fold cap.
  erewrite bind_ok; [|reflexivity].
  erewrite bind_ok; [|apply rd_zlib_stream_ok; [exact Hready|exact Hfresh]].
  rewrite map_mod_id by apply px_bytes_ok.
  cbn [negb].
  destruct Ht as [T1 T2].
  change (f_bpp (c_fmt s) / 8) with (bypp_of s).
  assert (Hlen : zlen (px_bytes (bypp_of s) (concat tgt)) = w * h * bypp_of s)
    by (rewrite px_bytes_zlen by lia; rewrite (concat_zlen w tgt T2), T1; ring).
  rewrite Hlen.
  assert (Hcap : w * h * bypp_of s <= cap) by (unfold cap; destruct (Z.ltb_spec (c_rawsz s) (w * h * bypp_of s)); lia).
  destruct (Z.ltb_spec cap (w * h * bypp_of s)); [lia|].
  destruct (Z.ltb_spec (w * h * bypp_of s) (w * h * bypp_of s)); [lia|].
  erewrite bind_ok; [|reflexivity].
  rewrite firstn_all2 by (unfold zlen in Hlen; lia).
  rewrite px_of_bytes_px_bytes; [|lia|apply Forall_concat; exact Hp].
  destruct (zlib_mark_same (set_rawsz s cap)) as (M1 & M2 & M3).
  assert (Hs' : st_wf (zlib_mark (set_rawsz s cap))) by (eapply st_wf_ext; [exact M1|exact M2|exact M3|exact Hs]).
  rewrite (copy_rect_spec _ x y w h tgt ts Hs' Hx Hy Hw ltac:(rewrite M1; exact Hxw) ltac:(rewrite M2; exact Hyh) (conj T1 T2)).
  rewrite M3. reflexivity.
Qed.

Theorem roundtrip_ultra s x y w h tgt ts :
  st_wf s -> bypp_ok s -> 0 <= x -> 0 <= y -> 1 <= w -> 1 <= h -> x + w <= c_w s -> y + h <= c_h s ->
  rows_wf w h tgt -> Forall (Forall (px_ok (bypp_of s))) tgt ->
  let cap := if c_rawsz s <? w * h * bypp_of s then round4 (w * h * bypp_of s) else c_rawsz s in
  dec_ultra x y w h s (ref_ultra (c_fmt s) tgt ++ ts)
  = Ok tt (set_fb (set_rawsz s cap) (blit_spec (c_fb s) x y tgt)) ts.
Proof.
  intros Hs [Hb1 Hb2] Hx Hy Hw Hh Hxw Hyh Ht Hp cap.
  unfold dec_ultra, ref_ultra. cbn [app].
  erewrite bind_ok; [|reflexivity].
  erewrite bind_ok; [|reflexivity].
  rewrite map_mod_id by apply px_bytes_ok.
  destruct (Z.eqb_spec (w * h * bypp_of s) 0); [nia|].
  fold cap.
  erewrite bind_ok; [|reflexivity].
  destruct Ht as [T1 T2].
  change (f_bpp (c_fmt s) / 8) with (bypp_of s).
  assert (Hlen : zlen (px_bytes (bypp_of s) (concat tgt)) = w * h * bypp_of s)
    by (rewrite px_bytes_zlen by lia; rewrite (concat_zlen w tgt T2), T1; ring).
  rewrite Hlen.
  assert (Hcap : w * h * bypp_of s <= cap).
  { unfold cap, round4. destruct (c_rawsz s <? w * h * bypp_of s) eqn:E; [|lia].
    destruct (w * h * bypp_of s mod 4 =? 0) eqn:E2; [lia|].
    pose proof (Z.mod_pos_bound (w * h * bypp_of s) 4 ltac:(lia)). lia. }
  destruct (Z.ltb_spec cap (w * h * bypp_of s)); [lia|].
  destruct (Z.ltb_spec (w * h * bypp_of s) (w * h * bypp_of s)); [lia|].
  erewrite bind_ok; [|reflexivity].
  rewrite firstn_all2 by (unfold zlen in Hlen; lia).
  rewrite px_of_bytes_px_bytes; [|lia|apply Forall_concat; exact Hp].
  assert (Hs' : st_wf (set_rawsz s cap)) by (eapply st_wf_ext; [| | |exact Hs]; reflexivity).
  rewrite (copy_rect_spec _ x y w h tgt ts Hs' Hx Hy Hw Hxw Hyh (conj T1 T2)). reflexivity.
Qed.
