(* CliRtSimple.v - round trips for the uncompressed encodings: the client mirror applied to the output of
   the reference encoder (any choice oracle) paints exactly the target pixels: Raw, RRE, CoRRE. *)
From LV Require Import Dec.CliBase Dec.CliFbProofs Dec.CliDec Dec.RefEnc Dec.RefPlanProofs Dec.CliRtBase.
Require Import ZifyBool.
Local Open Scope Z_scope.

(* ---------------------------------------------------------------- primitives under CheckRect *)
Lemma fill_rect_spec s x y w h c ts :
  st_wf s -> 0 <= x -> 0 <= y -> 0 <= w -> 0 <= h -> x + w <= c_w s -> y + h <= c_h s ->
  fill_rect x y w h c s ts = Ok tt (set_fb s (blit_spec (c_fb s) x y (fill_rows w h c))) ts.
Proof.
  intros (Hw0 & Hh0 & Hfb) Hx Hy Hw Hh Hxw Hyh. unfold fill_rect, check_rect.
  destruct ((x + w <=? c_w s) && (y + h <=? c_h s)) eqn:E; [|lia].
  unfold write_rowsM.
  destruct (rows_wf_repeat c w h Hw Hh) as [R1 R2].
  assert (Hyr : y + zlen (repeat (repeat c (Z.to_nat w)) (Z.to_nat h)) <= c_h s) by lia.
  rewrite (fb_write_rows_spec (c_w s) (c_h s) (c_fb s) x y w _ Hfb Hx Hy Hxw Hyr R2). reflexivity.
Qed.

Lemma copy_rect_spec s x y w h rows ts :
  st_wf s -> 0 <= x -> 0 <= y -> 1 <= w -> x + w <= c_w s -> y + h <= c_h s -> rows_wf w h rows ->
  copy_rect x y w h (concat rows) s ts = Ok tt (set_fb s (blit_spec (c_fb s) x y rows)) ts.
Proof.
  intros (Hw0 & Hh0 & Hfb) Hx Hy Hw Hxw Hyh Hr. unfold copy_rect, check_rect.
  destruct ((x + w <=? c_w s) && (y + h <=? c_h s)) eqn:E; [|lia].
  pose proof Hr as [R1 R2].
  rewrite (concat_zlen w rows R2), R1.
  destruct (Z.ltb_spec (w * h) (w * h)); [lia|].
  rewrite take_rows_concat by assumption.
  unfold write_rowsM.
  assert (Hyr : y + zlen rows <= c_h s) by lia. assert (Hx0 : 0 <= x) by lia.
  rewrite (fb_write_rows_spec (c_w s) (c_h s) (c_fb s) x y w rows Hfb Hx0 Hy Hxw Hyr R2). reflexivity.
Qed.

(* ---------------------------------------------------------------- Raw *)
Definition bypp_ok (s : cst) : Prop :=
  (bypp_of s = 1 \/ bypp_of s = 2 \/ bypp_of s = 4) /\ f_bpp (c_fmt s) = 8 * bypp_of s.

Lemma firstn_skipn_rows_wf w h (rows : list (list Z)) l :
  rows_wf w h rows -> 0 <= l <= h ->
  rows_wf w l (firstn (Z.to_nat l) rows) /\ rows_wf w (h - l) (skipn (Z.to_nat l) rows).
Proof.
  intros [R1 R2] Hl. unfold rows_wf, zlen in *. rewrite firstn_length, skipn_length.
  repeat split; try lia.
  - rewrite <- (firstn_skipn (Z.to_nat l) rows) in R2. apply Forall_app in R2. tauto.
  - rewrite <- (firstn_skipn (Z.to_nat l) rows) in R2. apply Forall_app in R2. tauto.
Qed.

Lemma raw_loop_ok fuel : forall s x y w h lines rows ts,
  st_wf s -> bypp_ok s -> 0 <= x -> 0 <= y -> 1 <= w -> x + w <= c_w s -> y + h <= c_h s ->
  rows_wf w h rows -> Forall (Forall (px_ok (bypp_of s))) rows ->
  (Z.to_nat h <= fuel)%nat -> 1 <= lines -> (w * bypp_of s) * lines <= cRFB_BUFFER_SIZE ->
  raw_loop fuel x y w h (w * bypp_of s) lines (bypp_of s) s (toks (ref_raw (bypp_of s) rows) ++ ts)
  = Ok tt (set_fb s (blit_spec (c_fb s) x y rows)) ts.
Proof.
  induction fuel as [|fuel IH]; intros s x y w h lines rows ts Hs Hb Hx Hy Hw Hxw Hyh Hr Hp Hf Hl Hcap.
  - destruct Hr as [R1 _]. pose proof (zlen_nonneg rows).
    destruct rows; [|rewrite zlen_cons in R1; pose proof (zlen_nonneg rows); lia].
    cbn. unfold ret. unfold blit_spec. rewrite blit_from_nil, set_fb_id. reflexivity.
  - cbn [raw_loop]. pose proof Hr as [R1 R2]. pose proof (zlen_nonneg rows).
    destruct (Z.eqb_spec lines 0); [lia|]. cbn [orb].
    destruct (Z.leb_spec h 0).
    + destruct rows; [|rewrite zlen_cons in R1; pose proof (zlen_nonneg rows); lia].
      cbn. unfold ret. unfold blit_spec. rewrite blit_from_nil, set_fb_id. reflexivity.
    + set (l := Z.min lines h).
      assert (Hl' : 1 <= l <= h) by lia.
      destruct (firstn_skipn_rows_wf w h rows l Hr ltac:(lia)) as [Htop Hbot].
      set (top := firstn (Z.to_nat l) rows) in *. set (bot := skipn (Z.to_nat l) rows) in *.
      assert (Hrows : rows = top ++ bot) by (symmetry; apply firstn_skipn).
      assert (Hptop : Forall (px_ok (bypp_of s)) (concat top)).
      { apply Forall_concat. unfold top. rewrite <- (firstn_skipn (Z.to_nat l) rows) in Hp. apply Forall_app in Hp. tauto. }
      assert (Hpbot : Forall (Forall (px_ok (bypp_of s))) bot).
      { unfold bot. rewrite <- (firstn_skipn (Z.to_nat l) rows) in Hp. apply Forall_app in Hp. tauto. }
      destruct Hb as [Hb1 Hb2].
      unfold ref_raw. rewrite Hrows at 1. rewrite concat_app, px_bytes_app, toks_app, <- app_assoc.
      unfold rd_buf.
      destruct (Z.ltb_spec cRFB_BUFFER_SIZE (w * bypp_of s * l)); [nia|].
      erewrite bind_ok.
      2:{ apply rd_app; [apply px_bytes_ok|]. rewrite px_bytes_zlen by lia.
          destruct Htop as [T1 T2]. rewrite (concat_zlen w top T2), T1. lia. }
      rewrite px_of_bytes_px_bytes by (auto; lia).
      erewrite bind_ok; [|apply copy_rect_spec; eauto; lia].
      fold (ref_raw (bypp_of s) bot).
      change (bypp_of s) with (bypp_of (set_fb s (blit_spec (c_fb s) x y top))).
      rewrite IH; auto.
      { cbn [c_fb set_fb]. rewrite set_fb_set_fb. destruct Htop as [T1 T2]. rewrite <- T1.
        rewrite blit_split_v by lia. now rewrite <- Hrows. }
      all: try (apply st_wf_set_fb; [assumption|apply blit_spec_wf; apply Hs]).
      all: try (split; assumption).
      all: cbn [c_h set_fb]; try lia.
      all: change (bypp_of (set_fb s (blit_spec (c_fb s) x y top))) with (bypp_of s); nia.
Qed.

Theorem roundtrip_raw s x y w h rows ts :
  st_wf s -> bypp_ok s -> 0 <= x -> 0 <= y -> 1 <= w <= 65535 -> x + w <= c_w s -> y + h <= c_h s ->
  rows_wf w h rows -> Forall (Forall (px_ok (bypp_of s))) rows ->
  dec_raw x y w h s (toks (ref_raw (bypp_of s) rows) ++ ts) = Ok tt (set_fb s (blit_spec (c_fb s) x y rows)) ts.
Proof.
  intros Hs Hb Hx Hy Hw Hxw Hyh Hr Hp. unfold dec_raw.
  erewrite bind_ok; [|reflexivity].
  destruct Hb as [Hb1 Hb2]. rewrite Hb2.
  assert (Hdiv : w * (8 * bypp_of s) / 8 = w * bypp_of s) by (replace (w * (8 * bypp_of s)) with (w * bypp_of s * 8) by lia; apply Z.div_mul; lia).
  rewrite Hdiv.
  destruct (Z.eqb_spec (w * bypp_of s) 0); [nia|].
  assert (Hbpl : 1 <= w * bypp_of s <= 262140) by nia.
  assert (Hlines : 1 <= cRFB_BUFFER_SIZE / (w * bypp_of s)).
  { apply Z.div_le_lower_bound; [lia|]. unfold cRFB_BUFFER_SIZE. lia. }
  apply raw_loop_ok; auto; try lia; [split; assumption|].
  pose proof (Z.mul_div_le cRFB_BUFFER_SIZE (w * bypp_of s) ltac:(lia)). lia.
Qed.

(* ---------------------------------------------------------------- sub-rectangle painting on the framebuffer *)
Definition sub_colour_ok (bypp : Z) (r : subr) : Prop := let '(_, _, _, _, c) := r in px_ok bypp c.

(* the invariant of the sub-rectangle encodings: the framebuffer is the original one with the
   current tile T placed at (rx, ry) *)
Lemma fill_rect_nest s fb0 rx ry w h T r ts :
  st_wf s -> fb_wf (c_w s) (c_h s) fb0 -> c_fb s = blit_spec fb0 rx ry T -> rows_wf w h T ->
  0 <= rx -> 0 <= ry -> rx + w <= c_w s -> ry + h <= c_h s -> sub_inside w h r ->
  let '(sx, sy, sw, sh, c) := r in
  fill_rect (rx + sx) (ry + sy) sw sh c s ts = Ok tt (set_fb s (blit_spec fb0 rx ry (apply_sub T r))) ts.
Proof.
  intros Hs Hfb0 Hfb HT Hrx Hry Hxw Hyh Hin. destruct r as [[[[sx sy] sw] sh] c]. unfold sub_inside in Hin.
  rewrite fill_rect_spec by (auto; lia).
  f_equal. f_equal. rewrite Hfb. unfold apply_sub.
  apply (blit_nest (c_w s) (c_h s) fb0 rx ry w h T sx sy sw sh (fill_rows sw sh c)); auto; try lia.
  apply fill_rows_wf; lia.
Qed.

(* ---------------------------------------------------------------- RRE *)
Definition ser_rre (bypp : Z) (subs : list subr) : list Z :=
  flat_map (fun r : subr => let '(x, y, sw, sh, c) := r in
                            lebytes (Z.to_nat bypp) c ++ be16 x ++ be16 y ++ be16 sw ++ be16 sh) subs.

Lemma rre_loop_ok subs : forall fuel s fb0 rx ry w h T ts,
  st_wf s -> (bypp_of s = 1 \/ bypp_of s = 2 \/ bypp_of s = 4) ->
  fb_wf (c_w s) (c_h s) fb0 -> c_fb s = blit_spec fb0 rx ry T -> rows_wf w h T ->
  0 <= rx -> 0 <= ry -> rx + w <= c_w s -> ry + h <= c_h s -> w <= 65535 -> h <= 65535 ->
  Forall (sub_inside w h) subs -> Forall (sub_colour_ok (bypp_of s)) subs ->
  (length subs < fuel)%nat ->
  rre_loop fuel (zlen subs) rx ry (bypp_of s) s (toks (ser_rre (bypp_of s) subs) ++ ts)
  = Ok tt (set_fb s (blit_spec fb0 rx ry (fold_left apply_sub subs T))) ts.
Proof.
  induction subs as [|r subs IH]; intros fuel s fb0 rx ry w h T ts Hs Hb Hfb0 Hfb HT Hrx Hry Hxw Hyh Hw Hh Hin Hcol Hf.
  - destruct fuel; cbn; unfold ret; rewrite <- Hfb, set_fb_id; reflexivity.
  - destruct fuel as [|fuel]; [cbn in Hf; lia|].
    rewrite zlen_cons. pose proof (zlen_nonneg subs). cbn [rre_loop].
    destruct (Z.leb_spec (1 + zlen subs) 0); [lia|].
    inversion Hin as [|? ? Hin1 Hin2]; subst. inversion Hcol as [|? ? Hc1 Hc2]; subst.
    pose proof (fill_rect_nest s fb0 rx ry w h T r) as Hfill.
    destruct r as [[[[sx sy] sw] sh] c]. unfold sub_inside in Hin1. unfold sub_colour_ok, px_ok in Hc1.
    cbn [ser_rre flat_map]. rewrite !toks_app, <- !app_assoc.
    erewrite bind_ok; [|apply rd_px_app; lia].
    erewrite bind_ok; [|apply rd_u16_app; lia].
    erewrite bind_ok; [|apply rd_u16_app; lia].
    erewrite bind_ok; [|apply rd_u16_app; lia].
    erewrite bind_ok; [|apply rd_u16_app; lia].
    erewrite bind_ok; [|apply Hfill; auto].
    replace (1 + zlen subs - 1) with (zlen subs) by lia.
    fold (ser_rre (bypp_of s) subs).
    change (bypp_of s) with (bypp_of (set_fb s (blit_spec fb0 rx ry (apply_sub T (sx, sy, sw, sh, c))))).
    erewrite (IH fuel _ fb0 rx ry w h (apply_sub T (sx, sy, sw, sh, c))); auto.
    + apply st_wf_set_fb; [assumption|]. apply blit_spec_wf. assumption.
    + apply apply_sub_wf. assumption.
    + cbn in Hf. lia.
Qed.

Lemma ser_rre_len bypp subs : (length subs <= length (ser_rre bypp subs))%nat.
Proof.
  induction subs as [|[[[[x y] sw] sh] c] subs IH]; cbn [ser_rre flat_map length]; [lia|].
  fold (ser_rre bypp subs). rewrite !app_length. unfold be16. cbn [length]. lia.
Qed.

Lemma rle_colours maxw t (P : Z -> Prop) : Forall P t -> Forall (fun cn => P (fst cn)) (rle maxw t).
Proof.
  induction 1 as [|a l Ha Hl IH]; cbn [rle]; [constructor|].
  destruct (rle maxw l) as [|[b n] r]; [repeat constructor; exact Ha|].
  pose proof (Forall_inv IH) as Hb. pose proof (Forall_inv_tail IH) as Hr. cbn [fst] in Hb.
  destruct ((a =? b) && (n <? maxw)); constructor; auto.
Qed.

Lemma plan_colour_ok ch base maxw maxh w h bypp tgt :
  0 <= bypp -> Forall (Forall (px_ok bypp)) tgt ->
  px_ok bypp (fst (plan ch base maxw maxh w h (pxmod_of bypp) tgt)) /\
  Forall (sub_colour_ok bypp) (snd (plan ch base maxw maxh w h (pxmod_of bypp) tgt)).
Proof.
  intros Hb Hp.
  assert (Hget : forall x y, px_ok bypp (tile_get tgt x y)).
  { intros x y. unfold tile_get, fb_get.
    destruct ((x <? 0) || (y <? 0)); [unfold px_ok; split; [lia|apply Z.pow_pos_nonneg; lia]|].
    destruct (nth_error tgt (Z.to_nat y)) as [r|] eqn:Er; [|unfold px_ok; split; [lia|apply Z.pow_pos_nonneg; lia]].
    destruct (nth_error r (Z.to_nat x)) as [v|] eqn:Ev; [|unfold px_ok; split; [lia|apply Z.pow_pos_nonneg; lia]].
    rewrite Forall_forall in Hp. specialize (Hp r (nth_error_In _ _ Er)).
    rewrite Forall_forall in Hp. exact (Hp v (nth_error_In _ _ Ev)). }
  assert (Hmod : forall v, px_ok bypp (v mod pxmod_of bypp)).
  { intros v. unfold px_ok, pxmod_of. replace (256 ^ bypp) with (2 ^ (8 * bypp)).
    - apply Z.mod_pos_bound. apply Z.pow_pos_nonneg; lia.
    - rewrite Z.pow_mul_r by lia. reflexivity. }
  unfold plan. cbn [fst snd]. split.
  - destruct (pick ch base 2 =? 0); auto.
  - apply Forall_app. split.
    + destruct ((0 <? w) && (0 <? h)); [|constructor].
      generalize (base + 4). induction (Z.to_nat (pick ch (base + 3) 4)); intros b; cbn [junk]; constructor; auto.
      unfold sub_colour_ok. apply Hget.
    + (* fix-up colours are target colours *)
      match goal with |- Forall _ (fix_rows ?m ?c tgt ?y) => generalize c; generalize y end. clear Hget.
      induction Hp as [|t tgt Ht Htgt IH]; intros y cur; destruct cur as [|c cur]; cbn [fix_rows]; try constructor.
      apply Forall_app. split; [|apply IH].
      pose proof (rle_colours maxw t (px_ok bypp) Ht) as Hruns.
      generalize 0 at 1. revert c. induction Hruns as [|[c' n'] runs Hc Hr IHr]; intros c x0; cbn [fix_runs]; [constructor|].
      cbv zeta. destruct (forallb _ _ && _); [apply IHr|]. constructor; [exact Hc|apply IHr].
Qed.

Theorem roundtrip_rre ch s x y w h tgt ts :
  st_wf s -> bypp_ok s -> 0 <= x -> 0 <= y -> 0 <= w <= 65535 -> 0 <= h <= 65535 ->
  x + w <= c_w s -> y + h <= c_h s ->
  rows_wf w h tgt -> Forall (Forall (px_ok (bypp_of s))) tgt ->
  dec_rre x y w h s (toks (ref_rre ch (bypp_of s) w h tgt) ++ ts) = Ok tt (set_fb s (blit_spec (c_fb s) x y tgt)) ts.
Proof.
  intros Hs [Hb1 Hb2] Hx Hy Hw Hh Hxw Hyh Ht Hp. unfold dec_rre, ref_rre.
  pose proof (plan_correct ch 0 65535 65535 w h (pxmod_of (bypp_of s)) tgt ltac:(lia) ltac:(lia) Ht) as Hcor.
  pose proof (plan_inside ch 0 65535 65535 w h (pxmod_of (bypp_of s)) tgt ltac:(lia) ltac:(lia) ltac:(lia) ltac:(lia) Ht) as Hin.
  pose proof (plan_len ch 0 65535 65535 w h (pxmod_of (bypp_of s)) tgt ltac:(lia) ltac:(lia) Ht) as Hlen.
  destruct (plan_colour_ok ch 0 65535 65535 w h (bypp_of s) tgt ltac:(lia) Hp) as [Hbg Hcol].
  destruct (plan ch 0 65535 65535 w h (pxmod_of (bypp_of s)) tgt) as [bg subs]. cbn [fst snd] in *.
  erewrite bind_ok; [|reflexivity].
  rewrite !toks_app, <- !app_assoc.
  pose proof (zlen_nonneg subs).
  erewrite bind_ok; [|apply rd_u32_app; nia].
  erewrite bind_ok; [|apply rd_px_app; [lia|exact Hbg]].
  erewrite bind_ok; [|apply fill_rect_spec; auto; lia].
  fold (ser_rre (bypp_of s) subs).
  set (s1 := set_fb s (blit_spec (c_fb s) x y (fill_rows w h bg))).
  change (bypp_of s) with (bypp_of s1).
  rewrite (rre_loop_ok subs _ s1 (c_fb s) x y w h (fill_rows w h bg)); auto; try lia.
  - unfold s1. rewrite set_fb_set_fb, Hcor. reflexivity.
  - apply st_wf_set_fb; [assumption|]. apply blit_spec_wf. apply Hs.
  - apply Hs.
  - apply fill_rows_wf; lia.
  - eapply Forall_impl; [|exact Hin]. intros r [A _]. exact A.
  - rewrite app_length. unfold toks. rewrite map_length. pose proof (ser_rre_len (bypp_of s1) subs). lia.
Qed.

(* ---------------------------------------------------------------- CoRRE *)
Definition rec_corre (bypp : Z) (r : subr) : list Z :=
  let '(x, y, sw, sh, c) := r in lebytes (Z.to_nat bypp) c ++ [x; y; sw; sh].

Lemma corre_subs_ok subs : forall s fb0 rx ry w h T ts,
  st_wf s -> (bypp_of s = 1 \/ bypp_of s = 2 \/ bypp_of s = 4) ->
  fb_wf (c_w s) (c_h s) fb0 -> c_fb s = blit_spec fb0 rx ry T -> rows_wf w h T ->
  0 <= rx -> 0 <= ry -> rx + w <= c_w s -> ry + h <= c_h s ->
  Forall (sub_inside w h) subs -> Forall (sub_colour_ok (bypp_of s)) subs ->
  corre_subs rx ry (bypp_of s) (map (rec_corre (bypp_of s)) subs) s ts
  = Ok tt (set_fb s (blit_spec fb0 rx ry (fold_left apply_sub subs T))) ts.
Proof.
  induction subs as [|r subs IH]; intros s fb0 rx ry w h T ts Hs Hb Hfb0 Hfb HT Hrx Hry Hxw Hyh Hin Hcol.
  - cbn. unfold ret. rewrite <- Hfb, set_fb_id. reflexivity.
  - cbn [map corre_subs fold_left].
    pose proof (Forall_inv Hin) as Hin1. pose proof (Forall_inv_tail Hin) as Hin2.
    pose proof (Forall_inv Hcol) as Hc1. pose proof (Forall_inv_tail Hcol) as Hc2.
    pose proof (fill_rect_nest s fb0 rx ry w h T r ts Hs Hfb0 Hfb HT Hrx Hry Hxw Hyh Hin1) as Hfill.
    destruct r as [[[[sx sy] sw] sh] c]. unfold sub_colour_ok, px_ok in Hc1.
    set (rest := map (rec_corre (bypp_of s)) subs).
    unfold rec_corre.
    rewrite firstn_app, firstn_all2 by (rewrite lebytes_len; lia).
    rewrite lebytes_len. replace (Z.to_nat (bypp_of s) - Z.to_nat (bypp_of s))%nat with 0%nat by lia.
    cbn [firstn]. rewrite app_nil_r.
    rewrite skipn_app, skipn_all2 by (rewrite lebytes_len; lia).
    rewrite lebytes_len. replace (Z.to_nat (bypp_of s) - Z.to_nat (bypp_of s))%nat with 0%nat by lia.
    cbn [skipn app]. unfold nthz. cbn [nth].
    rewrite le_val_lebytes by (rewrite Z2Nat.id by lia; exact Hc1).
    erewrite bind_ok; [|exact Hfill].
    subst rest.
    change (bypp_of s) with (bypp_of (set_fb s (blit_spec fb0 rx ry (apply_sub T (sx, sy, sw, sh, c))))).
    erewrite (IH _ fb0 rx ry w h (apply_sub T (sx, sy, sw, sh, c))); auto.
    + apply st_wf_set_fb; [assumption|]. apply blit_spec_wf. assumption.
    + apply apply_sub_wf. assumption.
Qed.

Lemma rec_corre_ok bypp w h r : w <= 255 -> h <= 255 -> sub_inside w h r -> Forall byte_ok (rec_corre bypp r).
Proof.
  intros Hw Hh Hin. destruct r as [[[[x y] sw] sh] c]. unfold sub_inside in Hin. unfold rec_corre.
  apply Forall_app. split; [apply lebytes_ok|]. repeat constructor; unfold byte_ok; lia.
Qed.

Theorem roundtrip_corre_count ch s x y w h tgt ts :
  st_wf s -> bypp_ok s -> 0 <= x -> 0 <= y -> 0 <= w <= 255 -> 0 <= h <= 255 ->
  x + w <= c_w s -> y + h <= c_h s ->
  rows_wf w h tgt -> Forall (Forall (px_ok (bypp_of s))) tgt ->
  (* the client refuses sub-rectangle counts above RFB_BUFFER_SIZE / (4 + Bpp): the EMITTED count must respect it *)
  zlen (snd (plan ch 0 255 255 w h (pxmod_of (bypp_of s)) tgt)) <= cCoRREBound_num / (4 + bypp_of s) ->
  dec_corre x y w h s (toks (ref_corre ch (bypp_of s) w h tgt) ++ ts) = Ok tt (set_fb s (blit_spec (c_fb s) x y tgt)) ts.
Proof.
  intros Hs [Hb1 Hb2] Hx Hy Hw Hh Hxw Hyh Ht Hp Hbound. unfold dec_corre, ref_corre.
  pose proof (plan_correct ch 0 255 255 w h (pxmod_of (bypp_of s)) tgt ltac:(lia) ltac:(lia) Ht) as Hcor.
  pose proof (plan_inside ch 0 255 255 w h (pxmod_of (bypp_of s)) tgt ltac:(lia) ltac:(lia) ltac:(lia) ltac:(lia) Ht) as Hin.
  pose proof (plan_len ch 0 255 255 w h (pxmod_of (bypp_of s)) tgt ltac:(lia) ltac:(lia) Ht) as Hlen.
  destruct (plan_colour_ok ch 0 255 255 w h (bypp_of s) tgt ltac:(lia) Hp) as [Hbg Hcol].
  destruct (plan ch 0 255 255 w h (pxmod_of (bypp_of s)) tgt) as [bg subs]. cbn [fst snd] in *.
  erewrite bind_ok; [|reflexivity].
  rewrite !toks_app, <- !app_assoc.
  pose proof (zlen_nonneg subs).
  assert (Hin' : Forall (sub_inside w h) subs) by (eapply Forall_impl; [|exact Hin]; intros r [A _]; exact A).
  erewrite bind_ok; [|apply rd_u32_app; nia].
  erewrite bind_ok; [|apply rd_px_app; [lia|exact Hbg]].
  erewrite bind_ok; [|apply fill_rect_spec; auto; lia].
  destruct (Z.ltb_spec (cCoRREBound_num / (4 + bypp_of s)) (zlen subs)); [lia|].
  set (s1 := set_fb s (blit_spec (c_fb s) x y (fill_rows w h bg))).
  assert (Hrecs : flat_map (fun r : subr => let '(x0, y0, sw, sh, c) := r in lebytes (Z.to_nat (bypp_of s)) c ++ [x0; y0; sw; sh]) subs
                  = concat (map (rec_corre (bypp_of s)) subs)).
  { rewrite flat_map_concat_map. reflexivity. }
  rewrite Hrecs.
  assert (Hreclen : Forall (fun r => zlen r = 4 + bypp_of s) (map (rec_corre (bypp_of s)) subs)).
  { apply Forall_forall. intros r Hr. apply in_map_iff in Hr. destruct Hr as [[[[[sx sy] sw] sh] c] [<- _]].
    unfold rec_corre, zlen. rewrite app_length, lebytes_len. cbn [length]. lia. }
  unfold rd_buf.
  assert (Hcap : zlen subs * (4 + bypp_of s) <= cRFB_BUFFER_SIZE).
  { pose proof (Z.mul_div_le cCoRREBound_num (4 + bypp_of s) ltac:(lia)).
    unfold cCoRREBound_num, cRFB_BUFFER_SIZE in *. nia. }
  destruct (Z.ltb_spec cRFB_BUFFER_SIZE (zlen subs * (4 + bypp_of s))); [lia|].
  erewrite bind_ok.
  2:{ apply rd_app.
      - apply Forall_concat. apply Forall_forall. intros r Hr. apply in_map_iff in Hr. destruct Hr as [r0 [<- Hr0]].
        rewrite Forall_forall in Hin'. apply (rec_corre_ok _ w h); [lia|lia|auto].
      - rewrite (concat_zlen (4 + bypp_of s)) by exact Hreclen. rewrite zlen_map. lia. }
  rewrite chunks_concat by (auto; lia).
  change (bypp_of s) with (bypp_of s1).
  rewrite (corre_subs_ok subs s1 (c_fb s) x y w h (fill_rows w h bg)); auto; try lia.
  - unfold s1. rewrite set_fb_set_fb, Hcor. reflexivity.
  - apply st_wf_set_fb; [assumption|]. apply blit_spec_wf. apply Hs.
  - apply Hs.
  - apply fill_rows_wf; lia.
Qed.

(* the area-based sufficient condition: the plan emits at most 3 + w * h sub-rectangles *)
Theorem roundtrip_corre ch s x y w h tgt ts :
  st_wf s -> bypp_ok s -> 0 <= x -> 0 <= y -> 0 <= w <= 255 -> 0 <= h <= 255 ->
  x + w <= c_w s -> y + h <= c_h s ->
  rows_wf w h tgt -> Forall (Forall (px_ok (bypp_of s))) tgt ->
  3 + w * h <= cCoRREBound_num / (4 + bypp_of s) ->
  dec_corre x y w h s (toks (ref_corre ch (bypp_of s) w h tgt) ++ ts) = Ok tt (set_fb s (blit_spec (c_fb s) x y tgt)) ts.
Proof.
  intros Hs Hb Hx Hy Hw Hh Hxw Hyh Ht Hp Hbound. apply roundtrip_corre_count; auto.
  pose proof (plan_len ch 0 255 255 w h (pxmod_of (bypp_of s)) tgt ltac:(lia) ltac:(lia) Ht) as Hlen. lia.
Qed.
