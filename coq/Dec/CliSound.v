(* CliSound.v - structural invariants of EVERY computation of the client mirror, for every token stream:
   a step that returns normally leaves a well-formed state (framebuffer dimensions consistent, pixel
   format and fix mask unchanged) and never yields more tokens than it was given.  This is the
   progress half of C08: HandleRFBServerMessage consumes at least one byte or fails, on an exhausted
   stream it fails. *)
From LV Require Import Dec.CliBase Dec.CliFbProofs Dec.CliDec Dec.CliDecZ Dec.CliMsg.
Require Import ZifyBool.
Local Open Scope Z_scope.

Definition keeps (s s' : cst) : Prop := st_wf s' /\ c_fmt s' = c_fmt s /\ c_fix s' = c_fix s.

Definition sound {A} (m : M A) : Prop :=
  forall s ts, st_wf s ->
    match m s ts with
    | Ok a s' ts' => keeps s s' /\ (length ts' <= length ts)%nat
    | _ => True
    end.

Lemma keeps_refl s : st_wf s -> keeps s s.
Proof. unfold keeps; auto. Qed.
Lemma keeps_trans a b c : keeps a b -> keeps b c -> keeps a c.
Proof. unfold keeps. intros (A1 & A2 & A3) (B1 & B2 & B3). split; [exact B1|]. split; [now rewrite B2|now rewrite B3]. Qed.

Lemma sound_ret {A} (a : A) : sound (ret a).
Proof. intros s ts H. cbn. split; [now apply keeps_refl|lia]. Qed.
Lemma sound_fail {A} : sound (@failM A).
Proof. intros s ts H. exact I. Qed.
Lemma sound_oob {A} c : sound (@oobM A c).
Proof. intros s ts H. exact I. Qed.
Lemma sound_desyncM {A} c : sound (@desyncM A c).
Proof. intros s ts _. exact I. Qed.
Lemma sound_const {A} (r : res A) : match r with Ok _ _ _ => False | _ => True end -> sound (fun _ _ => r).
Proof. intros Hr s ts H. destruct r; auto. contradiction. Qed.
Lemma sound_get : sound get_st.
Proof. intros s ts H. cbn. split; [now apply keeps_refl|lia]. Qed.

Lemma sound_bind {A B} (m : M A) (k : A -> M B) : sound m -> (forall a, sound (k a)) -> sound (bind m k).
Proof.
  intros Hm Hk s ts H. unfold bind. specialize (Hm s ts H).
  destruct (m s ts) as [a s1 ts1| | | |]; auto.
  destruct Hm as [K1 L1]. specialize (Hk a s1 ts1 (proj1 K1)).
  destruct (k a s1 ts1) as [b s2 ts2| | | |]; auto.
  destruct Hk as [K2 L2]. split; [eapply keeps_trans; eauto|lia].
Qed.

Lemma sound_upd (f : cst -> cst) : (forall s, st_wf s -> keeps s (f s)) -> sound (upd_st f).
Proof. intros Hf s ts H. cbn. split; [now apply Hf|lia]. Qed.

(* state updates that keep the invariant *)
Lemma keeps_same s s' : st_wf s -> c_w s' = c_w s -> c_h s' = c_h s -> c_fb s' = c_fb s -> c_fmt s' = c_fmt s -> c_fix s' = c_fix s -> keeps s s'.
Proof. intros (A & B & C) E1 E2 E3 E4 E5. unfold keeps, st_wf. rewrite E1, E2, E3. auto. Qed.

Lemma keeps_taint s : st_wf s -> keeps s (set_taint s).
Proof. intros; apply keeps_same; auto. Qed.
Lemma keeps_rawsz n s : st_wf s -> keeps s (set_rawsz s n).
Proof. intros; apply keeps_same; auto. Qed.
Lemma keeps_zact i b s : st_wf s -> keeps s (zact_set s i b).
Proof. intros; apply keeps_same; auto. Qed.
Lemma keeps_ev e s : st_wf s -> keeps s (add_ev s e).
Proof. intros; apply keeps_same; auto. Qed.
Lemma keeps_out bs s : st_wf s -> keeps s (add_out s bs).
Proof. intros; apply keeps_same; auto. Qed.
Lemma keeps_canfur b s : st_wf s -> keeps s (set_canfur s b).
Proof. intros; apply keeps_same; auto. Qed.

Lemma new_fb_wf w h : 0 <= w -> 0 <= h -> fb_wf w h (new_fb w h).
Proof.
  intros. unfold fb_wf, new_fb. split.
  - unfold zlen. rewrite repeat_length. lia.
  - apply Forall_forall. intros r Hr. apply repeat_spec in Hr. subst. unfold zlen. rewrite repeat_length. lia.
Qed.

Lemma keeps_fb s fb : st_wf s -> fb_wf (c_w s) (c_h s) fb -> keeps s (set_fb s fb).
Proof. intros (A & B & C) H. unfold keeps, st_wf. cbn. auto. Qed.

Hint Resolve sound_ret sound_fail sound_oob sound_get : snd.

Lemma sound_log e : sound (log_ev e).
Proof. apply sound_upd. intros; now apply keeps_ev. Qed.
Lemma sound_send bs : sound (send bs).
Proof. apply sound_upd. intros; now apply keeps_out. Qed.
Lemma sound_taint : sound (upd_st set_taint).
Proof. apply sound_upd. intros; now apply keeps_taint. Qed.
Hint Resolve sound_log sound_send sound_taint : snd.

(* ---------------------------------------------------------------- readers *)
Lemma take_bytes_len ts : forall n l r, take_bytes ts n = TkOk l r -> (length r <= length ts)%nat.
Proof.
  induction ts as [|t ts IH]; intros n l r; cbn [take_bytes].
  - destruct (n <=? 0); [|discriminate]. intros Hq; inversion Hq; subst; lia.
  - destruct (n <=? 0); [intros Hq; inversion Hq; subst; cbn; lia|].
    destruct t; try discriminate.
    destruct (take_bytes ts (n - 1)) as [l' r'| |] eqn:E; try discriminate.
    intros Hq; inversion Hq; subst. specialize (IH _ _ _ E). cbn. lia.
Qed.

(* a successful non-empty read consumes at least one token *)
Lemma take_bytes_strict ts : forall n l r, 0 < n -> take_bytes ts n = TkOk l r -> (length r < length ts)%nat.
Proof.
  destruct ts as [|t ts]; intros n l r Hn; cbn [take_bytes].
  - destruct (Z.leb_spec n 0); [lia|discriminate].
  - destruct (Z.leb_spec n 0); [lia|].
    destruct t; try discriminate.
    destruct (take_bytes ts (n - 1)) as [l' r'| |] eqn:E; try discriminate.
    intros Hq; inversion Hq; subst. apply take_bytes_len in E. cbn. lia.
Qed.

Lemma sound_rd n : sound (rd n).
Proof.
  intros s ts H. unfold rd. destruct (take_bytes ts n) as [l r| |] eqn:E; auto.
  split; [now apply keeps_refl|eapply take_bytes_len; eauto].
Qed.
Hint Resolve sound_rd : snd.

Lemma sound_rd_buf c cap n : sound (rd_buf c cap n).
Proof. unfold rd_buf. destruct (cap <? n); auto with snd. Qed.
Lemma sound_rd_u8 : sound rd_u8.
Proof. unfold rd_u8. apply sound_bind; auto with snd. Qed.
Lemma sound_rd_u16 : sound rd_u16.
Proof. unfold rd_u16. apply sound_bind; auto with snd. Qed.
Lemma sound_rd_u32 : sound rd_u32.
Proof. unfold rd_u32. apply sound_bind; auto with snd. Qed.
Lemma sound_rd_px b : sound (rd_px b).
Proof. unfold rd_px. apply sound_bind; auto with snd. Qed.
Lemma sound_rd_zblock : sound rd_zblock.
Proof. intros s ts H. unfold rd_zblock. destruct ts as [|[| |] r]; auto. split; [now apply keeps_refl|cbn; lia]. Qed.
Lemma sound_rd_lblock : sound rd_lblock.
Proof. intros s ts H. unfold rd_lblock. destruct ts as [|[| |] r]; auto. split; [now apply keeps_refl|cbn; lia]. Qed.
Hint Resolve sound_rd_buf sound_rd_u8 sound_rd_u16 sound_rd_u32 sound_rd_px sound_rd_zblock sound_rd_lblock : snd.

(* ---------------------------------------------------------------- framebuffer writers *)
Lemma list_set_forall {A} (P : A -> Prop) (l : list A) n v : Forall P l -> P v -> Forall P (list_set l n v).
Proof.
  revert n; induction l as [|a l IH]; intros n Hl Hv; cbn; [constructor|].
  inversion Hl; subst. destruct n; constructor; auto.
Qed.

Lemma fb_write_wf W H fb x y vals fb' : fb_wf W H fb -> fb_write fb x y vals = Some fb' -> fb_wf W H fb'.
Proof.
  intros [Hl Hr]. unfold fb_write. destruct (y <? 0); [discriminate|].
  destruct (nth_error fb (Z.to_nat y)) as [row|] eqn:Er; [|discriminate].
  destruct (row_write row x vals) as [row'|] eqn:Ew; [|discriminate].
  intros E; inversion E; subst. split.
  - unfold zlen in *. now rewrite list_set_length.
  - apply list_set_forall; [exact Hr|]. apply row_write_len in Ew. rewrite Ew.
    rewrite Forall_forall in Hr. apply Hr. eapply nth_error_In; eauto.
Qed.

Lemma write_rows_from_shape W fb : forall x k rows fb',
  Forall (fun r => zlen r = W) fb -> write_rows_from fb x k rows = Some fb' ->
  length fb' = length fb /\ Forall (fun r => zlen r = W) fb'.
Proof.
  induction fb as [|row fb1 IH]; intros x k rows fb' Hfb E.
  - destruct rows; cbn [write_rows_from] in E; [inversion E; subst; auto|discriminate].
  - destruct rows as [|r rs]; cbn [write_rows_from] in E; [inversion E; subst; auto|].
    pose proof (Forall_inv Hfb) as Hrow. pose proof (Forall_inv_tail Hfb) as Hfb1. cbn beta in Hrow.
    destruct k as [|k'].
    + destruct (row_write row x r) as [row'|] eqn:Er; [|discriminate].
      destruct (write_rows_from fb1 x 0 rs) as [t|] eqn:Et; [|discriminate]. injection E as <-.
      destruct (IH _ _ _ _ Hfb1 Et) as [L F]. split; [cbn [length]; lia|].
      constructor; [|exact F]. apply row_write_len in Er. lia.
    + destruct (write_rows_from fb1 x k' (r :: rs)) as [t|] eqn:Et; [|discriminate]. injection E as <-.
      destruct (IH _ _ _ _ Hfb1 Et) as [L F]. split; [cbn [length]; lia|]. constructor; assumption.
Qed.

Lemma fb_write_rows_wf W H rows : forall fb x y fb', fb_wf W H fb -> fb_write_rows fb x y rows = Some fb' -> fb_wf W H fb'.
Proof.
  intros fb x y fb' [Hl Hr] E. unfold fb_write_rows in E.
  destruct rows as [|r rs]; [injection E as <-; split; assumption|].
  destruct (y <? 0); [discriminate|].
  destruct (write_rows_from_shape W fb x (Z.to_nat y) (r :: rs) fb' Hr E) as [L F].
  split; [unfold zlen in *; lia|exact F].
Qed.

Lemma sound_write_rows c x y rows : sound (write_rowsM c x y rows).
Proof.
  intros s ts H. unfold write_rowsM. destruct (fb_write_rows (c_fb s) x y rows) as [fb'|] eqn:E; auto.
  split; [|lia]. apply keeps_fb; [exact H|]. eapply fb_write_rows_wf; [apply H|exact E].
Qed.
Hint Resolve sound_write_rows : snd.

Lemma sound_fill_rect x y w h c : sound (fill_rect x y w h c).
Proof.
  intros s ts H. unfold fill_rect. destruct (check_rect s x y w h).
  - exact (sound_write_rows 1 x y _ s ts H).
  - split; [now apply keeps_refl|lia].
Qed.

Lemma sound_copy_rect x y w h pix : sound (copy_rect x y w h pix).
Proof.
  intros s ts H. unfold copy_rect. destruct (check_rect s x y w h); [|split; [now apply keeps_refl|lia]].
  destruct (zlen pix <? w * h).
  - assert (Hw : st_wf (set_taint s)) by (apply keeps_taint; exact H).
    pose proof (sound_write_rows 2 x y (take_rows w h pix) (set_taint s) ts Hw) as Hs.
    destruct (write_rowsM 2 x y (take_rows w h pix) (set_taint s) ts); auto.
  - exact (sound_write_rows 2 x y (take_rows w h pix) s ts H).
Qed.

Lemma copy_row_wf W H idx : forall fb sx sy dx dy fb', fb_wf W H fb -> copy_row fb sx sy dx dy idx = Some fb' -> fb_wf W H fb'.
Proof.
  induction idx as [|i idx IH]; intros fb sx sy dx dy fb' Hfb; cbn [copy_row].
  - intros E; inversion E; subst; exact Hfb.
  - unfold copy_px. destruct (fb_get fb (sx + i) sy); [|discriminate].
    destruct (fb_write fb (dx + i) dy [z]) as [fb1|] eqn:E1; [|discriminate].
    apply IH. eapply fb_write_wf; eauto.
Qed.

Lemma copy_rows_wf W H rws : forall fb sx sy dx dy cols fb', fb_wf W H fb -> copy_rows fb sx sy dx dy cols rws = Some fb' -> fb_wf W H fb'.
Proof.
  induction rws as [|j rws IH]; intros fb sx sy dx dy cols fb' Hfb; cbn [copy_rows].
  - intros E; inversion E; subst; exact Hfb.
  - destruct (copy_row fb sx (sy + j) dx (dy + j) cols) as [fb1|] eqn:E1; [|discriminate].
    apply IH. eapply copy_row_wf; eauto.
Qed.

Lemma sound_copy_from_rect sx sy w h dx dy : sound (copy_from_rect sx sy w h dx dy).
Proof.
  intros s ts H. unfold copy_from_rect.
  destruct (negb (check_rect s sx sy w h)); [split; [now apply keeps_refl|lia]|].
  destruct (negb (check_rect s dx dy w h)); [split; [now apply keeps_refl|lia]|].
  match goal with |- match (match ?e with _ => _ end) with _ => _ end => destruct e as [fb'|] eqn:E end; auto.
  split; [|lia]. apply keeps_fb; [exact H|]. eapply copy_rows_wf; [apply H|exact E].
Qed.
Hint Resolve sound_fill_rect sound_copy_rect sound_copy_from_rect : snd.

(* ---------------------------------------------------------------- generic traversal tactic *)
Ltac snd_step :=
  first
    [ apply sound_ret | apply sound_fail | apply sound_oob | apply sound_get
    | solve [auto with snd]
    | apply sound_bind; [|intros]
    | match goal with
      | |- sound (if ?b then _ else _) => destruct b
      | |- sound (match ?x with _ => _ end) => destruct x
      | |- sound (let '(_, _) := ?x in _) => destruct x
      | |- sound (fun _ _ => More) => apply sound_const; exact I
      | |- sound (desyncM _) => apply sound_desyncM
      | |- sound (fun _ _ => Fail) => apply sound_const; exact I
      | |- sound (fun _ _ => Oob _) => apply sound_const; exact I
      end ].
Ltac snd := repeat snd_step.

Lemma sound_mapM {A B} (f : A -> M B) l : (forall a, sound (f a)) -> sound (mapM f l).
Proof. intros Hf. induction l; cbn [mapM]; snd; try apply Hf. Qed.

(* ---------------------------------------------------------------- CliDec.v *)
Lemma sound_send_fur i x y w h : sound (send_fur i x y w h).
Proof. unfold send_fur. snd. Qed.
Hint Resolve sound_send_fur : snd.
Lemma sound_send_incr : sound send_incr.
Proof. unfold send_incr. snd. Qed.
Hint Resolve sound_send_incr : snd.

Lemma sound_raw_loop fuel : forall x y w h bpl lines bypp, sound (raw_loop fuel x y w h bpl lines bypp).
Proof. induction fuel; intros; cbn [raw_loop]; snd. Qed.
Lemma sound_dec_raw x y w h : sound (dec_raw x y w h).
Proof. unfold dec_raw. snd; try apply sound_raw_loop. Qed.
Lemma sound_dec_copyrect x y w h : sound (dec_copyrect x y w h).
Proof. unfold dec_copyrect. snd. Qed.
Lemma sound_rre_loop fuel : forall n rx ry bypp, sound (rre_loop fuel n rx ry bypp).
Proof. induction fuel; intros; cbn [rre_loop]; snd. Qed.
Lemma sound_dec_rre x y w h : sound (dec_rre x y w h).
Proof. unfold dec_rre. snd; try (intros s ts H; apply sound_rre_loop; exact H). Qed.
Lemma sound_corre_subs rx ry bypp recs : sound (corre_subs rx ry bypp recs).
Proof. induction recs; cbn [corre_subs]; snd. Qed.
Lemma sound_dec_corre x y w h : sound (dec_corre x y w h).
Proof. unfold dec_corre. snd; try apply sound_corre_subs. Qed.
Lemma sound_hextile_coloured x y bypp recs : forall fg, sound (hextile_coloured x y bypp recs fg).
Proof. induction recs; intros; cbn [hextile_coloured]; snd. Qed.
Lemma sound_hextile_mono x y c recs : sound (hextile_mono x y c recs).
Proof. induction recs; cbn [hextile_mono]; snd. Qed.
Hint Resolve sound_hextile_coloured sound_hextile_mono : snd.
Lemma sound_hextile_tile x y w h bypp bg fg : sound (hextile_tile x y w h bypp bg fg).
Proof. unfold hextile_tile. snd. Qed.
Hint Resolve sound_hextile_tile : snd.
Lemma sound_hextile_cols fuel : forall cx y rx rw h bypp bg fg, sound (hextile_cols fuel cx y rx rw h bypp bg fg).
Proof. induction fuel; intros; cbn [hextile_cols]; snd. Qed.
Hint Resolve sound_hextile_cols : snd.
Lemma sound_hextile_rows fuel : forall cy rx ry rw rh bypp bg fg, sound (hextile_rows fuel cy rx ry rw rh bypp bg fg).
Proof. induction fuel; intros; cbn [hextile_rows]; snd. Qed.
Lemma sound_dec_hextile x y w h : sound (dec_hextile x y w h).
Proof. unfold dec_hextile. snd; try apply sound_hextile_rows. Qed.
Lemma sound_dec_cursor xh yh w h enc : sound (dec_cursor xh yh w h enc).
Proof. unfold dec_cursor. snd. Qed.
Hint Resolve sound_dec_raw sound_dec_copyrect sound_dec_rre sound_dec_corre sound_dec_hextile sound_dec_cursor : snd.

Lemma sound_resize w h : 0 <= w -> 0 <= h -> sound (resize w h).
Proof.
  intros Hw Hh. unfold resize. snd. apply sound_upd. intros s0 Hs0.
  unfold keeps, st_wf. cbn. repeat split; auto; apply new_fb_wf; assumption.
Qed.

(* ---------------------------------------------------------------- CliDecZ.v *)
Lemma sound_peek_at code cap c k n : sound (peek_at code cap c k n).
Proof. unfold peek_at. snd. Qed.
Lemma sound_peek code cap c n : sound (peek code cap c n).
Proof. apply sound_peek_at. Qed.
Hint Resolve sound_peek_at sound_peek : snd.
Lemma sound_cpix_at code cap v c k : sound (cpix_at code cap v c k).
Proof. unfold cpix_at. destruct v; snd. Qed.
Hint Resolve sound_cpix_at : snd.
Lemma sound_cpixels code cap v c n : forall k, sound (cpixels code cap v c k n).
Proof. induction n; intros; cbn [cpixels]; snd. Qed.
Lemma sound_paint_seq code x y w pix : sound (paint_seq code x y w pix).
Proof. unfold paint_seq. snd. Qed.
Lemma sound_pal_get code pal i : sound (pal_get code pal i).
Proof. unfold pal_get. snd. Qed.
Hint Resolve sound_cpixels sound_paint_seq sound_pal_get : snd.

Lemma sound_upd_zact i b : sound (upd_st (fun s => zact_set s i b)).
Proof. apply sound_upd. intros; now apply keeps_zact. Qed.
Lemma sound_upd_rawsz n : sound (upd_st (fun s => set_rawsz s n)).
Proof. apply sound_upd. intros; now apply keeps_rawsz. Qed.
Hint Resolve sound_upd_zact sound_upd_rawsz : snd.

Lemma sound_rd_stream sid : sound (rd_stream sid).
Proof. unfold rd_stream. snd. Qed.
Hint Resolve sound_rd_stream : snd.
Lemma sound_rd_zlib_stream : sound rd_zlib_stream.
Proof. unfold rd_zlib_stream, rd_shared. snd; try (apply sound_upd; intros; apply keeps_same; auto). Qed.
Lemma sound_rd_zrle_stream : sound rd_zrle_stream.
Proof. unfold rd_zrle_stream, rd_shared. snd; try (apply sound_upd; intros; apply keeps_same; auto). Qed.
Hint Resolve sound_rd_zlib_stream sound_rd_zrle_stream : snd.
Lemma sound_dec_zlib x y w h : sound (dec_zlib x y w h).
Proof. unfold dec_zlib. snd. Qed.
Lemma sound_dec_ultra x y w h : sound (dec_ultra x y w h).
Proof. unfold dec_ultra. snd. Qed.
Lemma sound_ultrazip_walk fuel : forall n cap bypp c, sound (ultrazip_walk fuel n cap bypp c).
Proof. induction fuel; intros; cbn [ultrazip_walk]; snd. Qed.
Hint Resolve sound_ultrazip_walk : snd.
Lemma sound_dec_ultrazip x y w h : sound (dec_ultrazip x y w h).
Proof. unfold dec_ultrazip. snd. Qed.
Hint Resolve sound_dec_zlib sound_dec_ultra sound_dec_ultrazip : snd.

Lemma sound_zrle_runlen l : forall cap pos bend acc n, sound (zrle_runlen l cap pos bend acc n).
Proof. induction l; intros; cbn [zrle_runlen]; snd. Qed.
Hint Resolve sound_zrle_runlen : snd.
Lemma sound_zrle_plain fuel : forall cap v c c0 blen total acc k, sound (zrle_plain fuel cap v c c0 blen total acc k).
Proof. induction fuel; intros; cbn [zrle_plain]; snd. Qed.
Lemma sound_zrle_palrle fuel : forall cap c c0 blen total pal acc k, sound (zrle_palrle fuel cap c c0 blen total pal acc k).
Proof. induction fuel; intros; cbn [zrle_palrle]; snd. Qed.
Hint Resolve sound_zrle_plain sound_zrle_palrle : snd.
Lemma sound_zrle_tile cap v c rem x y w h : sound (zrle_tile cap v c rem x y w h).
Proof. unfold zrle_tile. snd; try (apply sound_mapM; intros; snd; try (apply sound_mapM; intros; snd)). Qed.
Hint Resolve sound_zrle_tile : snd.
Lemma sound_zrle_cols fuel : forall cap v c rem i j rx ry rw th, sound (zrle_cols fuel cap v c rem i j rx ry rw th).
Proof. induction fuel; intros; cbn [zrle_cols]; snd. Qed.
Hint Resolve sound_zrle_cols : snd.
Lemma sound_zrle_rows fuel : forall cap v c rem j rx ry rw rh, sound (zrle_rows fuel cap v c rem j rx ry rw rh).
Proof. induction fuel; intros; cbn [zrle_rows]; snd. Qed.
Hint Resolve sound_zrle_rows : snd.
Lemma sound_dec_zrle x y w h : sound (dec_zrle x y w h).
Proof. unfold dec_zrle. snd. Qed.
Hint Resolve sound_dec_zrle : snd.

Lemma trle_runlen_ts_sound ts : forall cap cur off pos acc s,
  st_wf s -> match trle_runlen_ts ts cap cur off pos acc s with
             | Ok a s' ts' => keeps s s' /\ (length ts' <= length ts)%nat
             | _ => True end.
Proof.
  induction ts as [|t ts IH]; intros cap cur off pos acc s H; cbn [trle_runlen_ts].
  - destruct ((cur =? 255) && (pos <? cap - 1)); [destruct (cap <? off + 2); exact I|].
    split; [now apply keeps_refl|lia].
  - destruct ((cur =? 255) && (pos <? cap - 1)).
    + destruct (cap <? off + 2); [exact I|]. destruct t; try exact I.
      specialize (IH cap (b mod 256) (off + 1) (pos + 1) (acc + 255) s H).
      destruct (trle_runlen_ts ts cap (b mod 256) (off + 1) (pos + 1) (acc + 255) s); auto.
      destruct IH as [K L]. split; [exact K|cbn; lia].
    + split; [now apply keeps_refl|lia].
Qed.
Lemma sound_trle_runlen cap cur off pos acc : sound (trle_runlen cap cur off pos acc).
Proof. intros s ts H. apply trle_runlen_ts_sound. exact H. Qed.
Hint Resolve sound_trle_runlen : snd.
Lemma sound_trle_plain fuel : forall cap v total acc off, sound (trle_plain fuel cap v total acc off).
Proof. induction fuel; intros; cbn [trle_plain]; snd. Qed.
Lemma sound_trle_palrle fuel : forall cap total pal acc off, sound (trle_palrle fuel cap total pal acc off).
Proof. induction fuel; intros; cbn [trle_palrle]; snd. Qed.
Hint Resolve sound_trle_plain sound_trle_palrle : snd.
Lemma sound_trle_case127 cap v x y w h t type off : sound (trle_case127 cap v x y w h t type off).
Proof. unfold trle_case127. snd; try (apply sound_mapM; intros; snd; try (apply sound_mapM; intros; snd)). Qed.
Hint Resolve sound_trle_case127 : snd.
Lemma sound_trle_tile cap v x y w h t : sound (trle_tile cap v x y w h t).
Proof. unfold trle_tile. snd. Qed.
Hint Resolve sound_trle_tile : snd.
Lemma sound_trle_cols fuel : forall cap v cx y rx rw h t, sound (trle_cols fuel cap v cx y rx rw h t).
Proof. induction fuel; intros; cbn [trle_cols]; snd. Qed.
Hint Resolve sound_trle_cols : snd.
Lemma sound_trle_rows fuel : forall cap v cy rx ry rw rh t, sound (trle_rows fuel cap v cy rx ry rw rh t).
Proof. induction fuel; intros; cbn [trle_rows]; snd. Qed.
Hint Resolve sound_trle_rows : snd.
Lemma sound_dec_trle x y w h : sound (dec_trle x y w h).
Proof. unfold dec_trle. snd. Qed.
Hint Resolve sound_dec_trle : snd.

Lemma sound_rd_compact : sound rd_compact.
Proof. unfold rd_compact, rd_compact_aux. snd. Qed.
Hint Resolve sound_rd_compact : snd.
Lemma sound_tight_rows code f flt cut bypp rx y0 rw rowsize rowsdata prev :
  sound (tight_rows code f flt cut bypp rx y0 rw rowsize rowsdata prev).
Proof.
  unfold tight_rows. destruct flt; snd;
    try (apply sound_mapM; intros; snd; try (apply sound_mapM; intros; snd)).
Qed.
Hint Resolve sound_tight_rows : snd.

Lemma sound_write_lin code x y : sound (write_lin code x y).
Proof. unfold write_lin. snd. Qed.
Lemma sound_grad_zero_width code rx ry rh : sound (grad_zero_width code rx ry rh).
Proof. unfold grad_zero_width. snd. apply sound_mapM. intros. apply sound_write_lin. Qed.
Hint Resolve sound_write_lin sound_grad_zero_width : snd.

Lemma keeps_fold_zact c0 s : st_wf s ->
  keeps s (fold_left (fun s i => if flag c0 (2 ^ i) then zact_set s (i + 1) false else s) [0; 1; 2; 3] s).
Proof.
  intros H. cbn [fold_left].
  repeat match goal with |- context [if ?b then _ else _] => destruct b end;
  apply keeps_same; auto.
Qed.

Lemma sound_dec_tight x y w h : sound (dec_tight x y w h).
Proof.
  unfold dec_tight. snd; try (apply sound_upd; intros; now apply keeps_fold_zact).
Qed.
Hint Resolve sound_dec_tight : snd.

Hint Resolve sound_resize : snd.

(* ---------------------------------------------------------------- CliMsg.v *)
Lemma sound_bind_P {A B} (P : A -> Prop) (m : M A) (k : A -> M B) :
  sound m -> (forall s ts a s' ts', m s ts = Ok a s' ts' -> P a) -> (forall a, P a -> sound (k a)) -> sound (bind m k).
Proof.
  intros Hm HP Hk s ts H. unfold bind. specialize (Hm s ts H). specialize (HP s ts).
  destruct (m s ts) as [a s1 ts1| | | |]; auto.
  destruct Hm as [K1 L1]. specialize (Hk a (HP a s1 ts1 eq_refl) s1 ts1 (proj1 K1)).
  destruct (k a s1 ts1) as [b s2 ts2| | | |]; auto.
  destruct Hk as [K2 L2]. split; [eapply keeps_trans; eauto|lia].
Qed.

Definition nonneg_list (l : list Z) : Prop := Forall (fun b => 0 <= b) l.

Lemma take_bytes_nonneg ts : forall n l r, take_bytes ts n = TkOk l r -> nonneg_list l.
Proof.
  induction ts as [|t ts IH]; intros n l r; cbn [take_bytes].
  - destruct (n <=? 0); [|discriminate]. intros Hq; inversion Hq; subst; constructor.
  - destruct (n <=? 0); [intros Hq; inversion Hq; subst; constructor|].
    destruct t; try discriminate.
    destruct (take_bytes ts (n - 1)) as [l' r'| |] eqn:E; try discriminate.
    intros Hq; inversion Hq; subst. constructor; [apply Z.mod_pos_bound; lia|eapply IH; eauto].
Qed.

Lemma rd_nonneg n s ts l s' ts' : rd n s ts = Ok l s' ts' -> nonneg_list l.
Proof.
  unfold rd. destruct (take_bytes ts n) as [l0 r| |] eqn:E; try discriminate.
  intros Hq; inversion Hq; subst. eapply take_bytes_nonneg; eauto.
Qed.

Lemma be_val_nonneg l : nonneg_list l -> 0 <= be_val l.
Proof.
  unfold be_val. assert (G : forall acc, 0 <= acc -> nonneg_list l -> 0 <= fold_left (fun a b => a * 256 + b) l acc).
  { induction l as [|b l IH]; intros acc Ha Hl; cbn [fold_left]; [exact Ha|].
    inversion Hl; subst. apply IH; [lia|assumption]. }
  apply G. lia.
Qed.

Lemma nonneg_firstn n l : nonneg_list l -> nonneg_list (firstn n l).
Proof. unfold nonneg_list. rewrite !Forall_forall. intros H x Hx. apply H. rewrite <- (firstn_skipn n l). apply in_or_app. now left. Qed.
Lemma nonneg_skipn n l : nonneg_list l -> nonneg_list (skipn n l).
Proof. unfold nonneg_list. rewrite !Forall_forall. intros H x Hx. apply H. rewrite <- (firstn_skipn n l). apply in_or_app. now right. Qed.

Lemma rd_u16_nonneg s ts a s' ts' : rd_u16 s ts = Ok a s' ts' -> 0 <= a.
Proof.
  unfold rd_u16, bind, ret. destruct (rd 2 s ts) as [l s1 ts1| | | |] eqn:E; try discriminate.
  intros Hq; inversion Hq; subst. apply be_val_nonneg. eapply rd_nonneg; eauto.
Qed.

Lemma keeps_screen wh s : st_wf s -> keeps s (set_screen s wh).
Proof. intros; apply keeps_same; auto. Qed.
Lemma keeps_reqrs b s : st_wf s -> keeps s (set_reqrs s b).
Proof. intros; apply keeps_same; auto. Qed.
Lemma keeps_fold_screen (g : list Z -> bool) (wh : list Z -> Z * Z) l : forall s, st_wf s ->
  keeps s (fold_left (fun s r => if g r then set_screen s (wh r) else s) l s).
Proof.
  induction l as [|r l IH]; intros s H; cbn [fold_left]; [now apply keeps_refl|].
  destruct (g r); [|now apply IH].
  pose proof (keeps_screen (wh r) s H) as K. specialize (IH (set_screen s (wh r)) (proj1 K)).
  destruct IH as (I1 & I2 & I3). split; [exact I1|split; [now rewrite I2|now rewrite I3]].
Qed.

Lemma sound_do_rect : sound do_rect.
Proof.
  unfold do_rect.
  apply sound_bind; [auto with snd|intros x].
  apply sound_bind; [auto with snd|intros y].
  apply (sound_bind_P (fun w => 0 <= w)); [auto with snd|intros; eapply rd_u16_nonneg; eauto|intros w Hw].
  apply (sound_bind_P (fun h => 0 <= h)); [auto with snd|intros; eapply rd_u16_nonneg; eauto|intros h Hh].
  apply sound_bind; [auto with snd|intros enc].
  snd; try (apply sound_resize; assumption);
    try (apply sound_upd; intros; now apply keeps_canfur);
    try (apply sound_upd; intros; now apply keeps_reqrs);
    try (apply sound_upd; intros s0 Hs0;
         apply (keeps_fold_screen (fun r => negb (be_val (firstn 4 r) =? 0) && negb (be_val (firstn 2 (skipn 8 r)) =? 0)
                                            && negb (be_val (firstn 2 (skipn 10 r)) =? 0))
                                  (fun r => (be_val (firstn 2 (skipn 8 r)), be_val (firstn 2 (skipn 10 r))))); exact Hs0).
Qed.

Hint Resolve sound_do_rect : snd.
Lemma sound_rect_loop n : sound (rect_loop n).
Proof. induction n; cbn [rect_loop]; snd. Qed.
Hint Resolve sound_rect_loop : snd.

Definition handle_body : Z -> M unit :=
  ltac:(let b := eval unfold handle_msg in handle_msg in
        match b with bind rd_u8 ?k => exact k end).
Lemma handle_msg_eq : handle_msg = bind rd_u8 handle_body.
Proof. reflexivity. Qed.

Lemma sound_handle_body t : sound (handle_body t).
Proof.
  unfold handle_body.
  destruct (t =? cM_SetColourMapEntries); [snd|].
  destruct (t =? cM_FramebufferUpdate); [snd|].
  destruct (t =? cM_Bell); [snd|].
  destruct (t =? cM_ServerCutText); [snd|].
  destruct (t =? cM_TextChat); [snd|].
  destruct (t =? cM_Xvp); [snd|].
  destruct (t =? cM_ResizeFrameBuffer).
  { apply (sound_bind_P nonneg_list); [auto with snd|intros; eapply rd_nonneg; eauto|intros hdr Hh].
    assert (0 <= be_val (firstn 2 (skipn 1 hdr))) by (apply be_val_nonneg; auto using nonneg_firstn, nonneg_skipn).
    assert (0 <= be_val (firstn 2 (skipn 3 hdr))) by (apply be_val_nonneg; auto using nonneg_firstn, nonneg_skipn).
    snd. }
  destruct (t =? cM_PalmVNCReSizeFrameBuffer).
  { apply (sound_bind_P nonneg_list); [auto with snd|intros; eapply rd_nonneg; eauto|intros hdr Hh].
    assert (0 <= be_val (firstn 2 (skipn 5 hdr))) by (apply be_val_nonneg; auto using nonneg_firstn, nonneg_skipn).
    assert (0 <= be_val (firstn 2 (skipn 7 hdr))) by (apply be_val_nonneg; auto using nonneg_firstn, nonneg_skipn).
    snd. }
  snd.
Qed.

Lemma sound_handle_msg : sound handle_msg.
Proof. rewrite handle_msg_eq. apply sound_bind; [auto with snd|apply sound_handle_body]. Qed.

(* ---------------------------------------------------------------- progress *)
Lemma rd_u8_strict s ts a s' ts' : rd_u8 s ts = Ok a s' ts' -> s' = s /\ (length ts' < length ts)%nat.
Proof.
  unfold rd_u8, bind, ret, rd. destruct (take_bytes ts 1) as [l r| |] eqn:E; try discriminate.
  intros Hq; inversion Hq; subst. split; [reflexivity|]. eapply take_bytes_strict; eauto. lia.
Qed.

(* every HandleRFBServerMessage step that returns TRUE has consumed at least one token and leaves a
   well-formed state; in particular on an exhausted stream it does not return TRUE *)
Theorem progress s ts s' ts' :
  st_wf s -> handle_msg s ts = Ok tt s' ts' -> keeps s s' /\ (length ts' < length ts)%nat.
Proof.
  intros H E. rewrite handle_msg_eq in E. unfold bind in E.
  destruct (rd_u8 s ts) as [t s1 ts1| | | |] eqn:E1; try discriminate.
  destruct (rd_u8_strict _ _ _ _ _ E1) as [-> L1].
  pose proof (sound_handle_body t s ts1 H) as Hb. rewrite E in Hb. destruct Hb as [K L].
  split; [exact K|lia].
Qed.

Theorem exhausted_fails s : handle_msg s [] = More.
Proof. reflexivity. Qed.
