(* CliRtZrle.v - round trip for ZRLE: for EVERY choice oracle of the reference encoder (tile sub-encoding raw /
   solid / packed palette / plain RLE / palette RLE, palette padding, run splitting) the mirror of HandleZRLE
   paints exactly the encoded rectangle. *)
From LV Require Import Dec.CliBase Dec.CliFbProofs Dec.CliDec Dec.CliDecZ Dec.RefEnc Dec.RefEncZ Dec.CliRtBase Dec.CliRtSimple
     Dec.RefPlanProofs Dec.CliCopyProofs Dec.CliRtHextile Dec.CliRtZ Dec.CliRtTile.
Require Import ZifyBool.
Local Open Scope Z_scope.

(* ---------------------------------------------------------------- reading from the decompressed data *)
Lemma skipn_add {A} (a b : Z) (l : list A) : 0 <= a -> 0 <= b ->
  skipn (Z.to_nat (a + b)) l = skipn (Z.to_nat b) (skipn (Z.to_nat a) l).
Proof. intros Ha Hb. rewrite skipn_skipn'. f_equal. lia. Qed.

Lemma skipn_app_exact {A} (a b : list A) n : n = zlen a -> skipn (Z.to_nat n) (a ++ b) = b.
Proof.
  intros ->. unfold zlen. rewrite Nat2Z.id, skipn_app, Nat.sub_diag, skipn_all2 by lia. reflexivity.
Qed.
Lemma firstn_app_exact {A} (a b : list A) n : n = zlen a -> firstn (Z.to_nat n) (a ++ b) = a.
Proof.
  intros ->. unfold zlen. rewrite Nat2Z.id, firstn_app, Nat.sub_diag, firstn_all2 by lia. cbn [firstn]. now rewrite app_nil_r.
Qed.

Lemma peek_at_data code cap D pos k n bs post s ts :
  skipn (Z.to_nat k) D = bs ++ post -> zlen bs = n -> pos + k + n <= cap ->
  peek_at code cap (mkcur D pos) k n s ts = Ok bs s ts.
Proof.
  intros HD Hn Hc. unfold peek_at. cbn [bc_data bc_pos]. pose proof (zlen_nonneg bs).
  destruct (Z.leb_spec n 0).
  - assert (bs = []) by (destruct bs; [reflexivity|rewrite zlen_cons in Hn; pose proof (zlen_nonneg bs); lia]). subst bs. reflexivity.
  - destruct (Z.ltb_spec cap (pos + k + n)); [lia|]. rewrite HD.
    destruct (Z.ltb_spec (zlen (bs ++ post)) n); [rewrite zlen_app in *; pose proof (zlen_nonneg post); lia|].
    unfold ret. now rewrite firstn_app_exact by lia.
Qed.

Lemma pow256_3 : 256 ^ Z.of_nat 3 = 2 ^ 24. Proof. reflexivity. Qed.

Lemma cpix_at_data code cap f v D pos k p post s ts :
  cp_agree f v -> skipn (Z.to_nat k) D = cpixel_bytes f p ++ post -> pos + k + 4 <= cap ->
  cpix_at code cap v (mkcur D pos) k s ts = Ok (cp_norm v p) s ts.
Proof.
  intros Hag HD Hc. rewrite (cpixel_bytes_eq f v p Hag) in HD. unfold cpix_at. cbn [bc_pos].
  destruct v; try contradiction; cbn [cp_agree] in Hag.
  - erewrite bind_ok; [|apply (peek_at_data _ _ _ _ _ _ _ post); [exact HD|apply zlen_lebytes|cbn; lia]].
    unfold ret. rewrite le_val_lebytes_mod. reflexivity.
  - erewrite bind_ok; [|apply (peek_at_data _ _ _ _ _ _ _ post); [exact HD|apply zlen_lebytes|cbn; lia]].
    unfold ret. rewrite le_val_lebytes_mod. reflexivity.
  - destruct (Z.ltb_spec cap (pos + k + 4)); [lia|].
    erewrite bind_ok; [|apply (peek_at_data _ _ _ _ _ _ _ post); [exact HD|apply zlen_lebytes|lia]].
    unfold ret. rewrite le_val_lebytes_mod. reflexivity.
  - destruct (Z.ltb_spec cap (pos + k + 4)); [lia|].
    erewrite bind_ok; [|apply (peek_at_data _ _ _ _ _ _ _ post); [exact HD|apply zlen_lebytes|lia]].
    unfold ret. rewrite le_val_lebytes_mod. reflexivity.
  - erewrite bind_ok; [|apply (peek_at_data _ _ _ _ _ _ _ post); [exact HD|apply zlen_lebytes|cbn; lia]].
    unfold ret. rewrite le_val_lebytes_mod. reflexivity.
Qed.

Lemma cpixels_data code cap f v D pos s ts : cp_agree f v -> forall pal k post,
  skipn (Z.to_nat k) D = flat_map (cpixel_bytes f) pal ++ post -> 0 <= k ->
  pos + k + rbytes v * zlen pal + 4 <= cap ->
  cpixels code cap v (mkcur D pos) k (length pal) s ts = Ok (map (cp_norm v) pal) s ts.
Proof.
  intros Hag. induction pal as [|p pal IH]; intros k post HD Hk Hc; cbn [length cpixels map]; [reflexivity|].
  cbn [flat_map] in HD. rewrite <- app_assoc in HD. rewrite zlen_cons in Hc. pose proof (zlen_nonneg pal).
  assert (Hrb : 1 <= rbytes v) by (destruct v; cbn; lia).
  erewrite bind_ok; [|eapply cpix_at_data; [exact Hag|exact HD|nia]].
  erewrite bind_ok; [reflexivity|].
  apply (IH (k + rbytes v) post); [|lia|nia].
  rewrite skipn_add by lia. rewrite HD. apply skipn_app_exact. symmetry. now apply cpixel_bytes_len.
Qed.

Lemma runlen_data post cap bend r : 0 <= r < 255 -> forall q pos acc m,
  pos + Z.of_nat q + 1 <= bend ->
  forall s ts, zrle_runlen (repeat 255 q ++ [r] ++ post) cap pos bend acc m s ts
               = Ok (Some (acc + 255 * Z.of_nat q + r, m + Z.of_nat q + 1)) s ts.
Proof.
  intros Hr. induction q as [|q IH]; intros pos acc m Hb s ts.
  - cbn [repeat app zrle_runlen]. destruct (Z.eqb_spec r 255); [lia|]. unfold ret. do 3 f_equal; lia.
  - cbn [repeat app zrle_runlen]. rewrite Z.eqb_refl.
    destruct (Z.leb_spec bend (pos + 1)); [lia|].
    rewrite IH by lia. do 3 f_equal; lia.
Qed.

Lemma runlen_bytes_data n post cap bend pos s ts : 1 <= n -> pos + zlen (runlen_bytes n) <= bend ->
  zrle_runlen (runlen_bytes n ++ post) cap pos bend 1 0 s ts = Ok (Some (n, zlen (runlen_bytes n))) s ts.
Proof.
  intros Hn Hb. rewrite runlen_bytes_len in * by lia. unfold runlen_bytes. rewrite <- app_assoc.
  assert (0 <= (n - 1) / 255) by (apply Z.div_pos; lia).
  pose proof (Z.mod_pos_bound (n - 1) 255 ltac:(lia)).
  rewrite runlen_data by lia. rewrite Z2Nat.id by lia.
  pose proof (Z.div_mod (n - 1) 255 ltac:(lia)). do 3 f_equal; lia.
Qed.

(* ---------------------------------------------------------------- the RLE loops *)
Definition racc (v : cpv) (runs : list (Z * Z)) (acc : list Z) : list Z :=
  fold_left (fun a cn => repeat (cp_norm v (fst cn)) (Z.to_nat (snd cn)) ++ a) runs acc.

Lemma rev_repeat {A} (a : A) n : rev (repeat a n) = repeat a n.
Proof.
  induction n; [reflexivity|]. cbn [repeat rev]. rewrite IHn. clear IHn.
  induction n; [reflexivity|]. cbn [repeat app]. now rewrite IHn.
Qed.

Lemma rev_racc v runs : forall acc, rev (racc v runs acc) = rev acc ++ expand (map (fun cn => (cp_norm v (fst cn), snd cn)) runs).
Proof.
  induction runs as [|[c n] runs IH]; intros acc; cbn [racc fold_left map expand]; [now rewrite app_nil_r|].
  change (fold_left _ runs ?a) with (racc v runs a). rewrite IH, rev_app_distr, rev_repeat, <- app_assoc. reflexivity.
Qed.

Definition runs_len (runs : list (Z * Z)) : Z := fold_right (fun cn a => snd cn + a) 0 runs.

Definition plain_bytes (f : pixfmt) (runs : list (Z * Z)) : list Z :=
  flat_map (fun cn : Z * Z => cpixel_bytes f (fst cn) ++ runlen_bytes (snd cn)) runs.

Lemma plain_bytes_ok f runs : Forall (fun cn => 1 <= snd cn) runs -> Forall byte_ok (plain_bytes f runs).
Proof.
  intros H. unfold plain_bytes. induction H as [|cn runs H1 H2 IH]; cbn [flat_map]; [constructor|].
  apply Forall_app. split; [|exact IH]. apply Forall_app. split; [apply cpixel_bytes_ok|now apply runlen_bytes_ok].
Qed.

Lemma zrle_plain_data cap f v D pos blen total s ts : cp_agree f v -> blen = zlen D -> pos + zlen D + 4 <= cap ->
  forall runs fuel acc k post,
    skipn (Z.to_nat k) D = plain_bytes f runs ++ post -> 0 <= k ->
    Forall (fun cn => 1 <= snd cn) runs -> zlen acc + runs_len runs = total -> (length runs <= fuel)%nat ->
    k + zlen (plain_bytes f runs) + zlen post = zlen D ->
    zrle_plain fuel cap v (mkcur D pos) pos blen total acc k s ts
    = Ok (true, racc v runs acc, k + zlen (plain_bytes f runs)) s ts.
Proof.
  intros Hag Hbl Hcap. assert (Hrb : 1 <= rbytes v) by (destruct v; cbn; lia).
  induction runs as [|[c n] runs IH]; intros fuel acc k post HD Hk Hr Htot Hf Hlen.
  - cbn [runs_len fold_right] in Htot. cbn [racc fold_left plain_bytes flat_map].
    destruct fuel; cbn [zrle_plain]; (destruct (Z.leb_spec total (zlen acc)); [|lia]); unfold ret; do 2 f_equal; unfold zlen; cbn; lia.
  - destruct fuel as [|fuel]; [cbn [length] in Hf; lia|]. cbn [zrle_plain].
    pose proof (Forall_inv Hr) as Hn. pose proof (Forall_inv_tail Hr) as Hr'. cbn [snd] in Hn.
    cbn [runs_len fold_right snd] in Htot. fold (runs_len runs) in Htot.
    assert (Hrl : 0 <= runs_len runs).
    { clear -Hr'. induction Hr' as [|cn l H1 H2 IH2]; cbn [runs_len fold_right]; [lia|]. fold (runs_len l). lia. }
    destruct (Z.leb_spec total (zlen acc)); [lia|].
    cbn [bc_pos bc_data]. cbv zeta. replace (pos + k - pos) with k by lia.
    unfold plain_bytes in HD, Hlen. cbn [flat_map fst snd] in HD, Hlen. fold (plain_bytes f runs) in HD, Hlen.
    rewrite <- !app_assoc in HD. rewrite !zlen_app in Hlen. rewrite (cpixel_bytes_len f v c Hag) in Hlen.
    pose proof (runlen_bytes_len n Hn) as Hrl2. assert (0 <= (n - 1) / 255) by (apply Z.div_pos; lia).
    pose proof (zlen_nonneg (plain_bytes f runs)). pose proof (zlen_nonneg post).
    destruct (Z.ltb_spec blen (k + rbytes v + 1)); [lia|].
    erewrite bind_ok; [|eapply cpix_at_data; [exact Hag|exact HD|lia]].
    assert (HD2 : skipn (Z.to_nat (k + rbytes v)) D = runlen_bytes n ++ plain_bytes f runs ++ post).
    { rewrite skipn_add by lia. rewrite HD. apply skipn_app_exact. symmetry. now apply cpixel_bytes_len. }
    rewrite HD2.
    erewrite bind_ok; [|apply runlen_bytes_data; [exact Hn|lia]].
    cbv beta iota. replace (Z.min n (total - zlen acc)) with n by lia.
    rewrite (IH fuel (repeat (cp_norm v c) (Z.to_nat n) ++ acc) (k + rbytes v + zlen (runlen_bytes n)) post).
    + cbn [racc fold_left fst snd]. unfold plain_bytes at 2. cbn [flat_map fst snd]. fold (plain_bytes f runs).
      rewrite !zlen_app, (cpixel_bytes_len f v c Hag). do 2 f_equal. lia.
    + rewrite skipn_add by lia. rewrite HD2. now apply skipn_app_exact.
    + lia.
    + exact Hr'.
    + rewrite zlen_app, zlen_repeat. lia.
    + cbn [length] in Hf. lia.
    + lia.
Qed.

(* palette RLE *)
Definition prle_bytes (pal : list Z) (runs : list (Z * Z)) : list Z :=
  flat_map (fun cn : Z * Z => if snd cn =? 1 then [index_of (fst cn) pal]
                              else [index_of (fst cn) pal + 128] ++ runlen_bytes (snd cn)) runs.

Lemma pal_get_ok code (dpal : list Z) i s ts : 0 <= i < 128 -> i < zlen dpal ->
  pal_get code dpal i s ts = Ok (nth (Z.to_nat i) dpal 0) s ts.
Proof.
  intros Hi Hl. unfold pal_get. destruct (Z.leb_spec 128 i); [lia|].
  destruct (nth_error dpal (Z.to_nat i)) eqn:E.
  - unfold ret. f_equal. symmetry. now apply nth_error_nth.
  - apply nth_error_None in E. unfold zlen in Hl. lia.
Qed.

Lemma nth_map_norm v pal i : nth i (map (cp_norm v) pal) 0 = cp_norm v (nth i pal 0).
Proof. rewrite <- (cp_norm_0 v) at 1. apply map_nth. Qed.

Lemma zrle_palrle_data cap v D pos blen total pal s ts : blen = zlen D -> pos + zlen D + 4 <= cap -> zlen pal <= 127 ->
  forall runs fuel acc k post,
    skipn (Z.to_nat k) D = prle_bytes pal runs ++ post -> 0 <= k ->
    Forall (fun cn => 1 <= snd cn /\ In (fst cn) pal) runs -> zlen acc + runs_len runs = total -> (length runs <= fuel)%nat ->
    k + zlen (prle_bytes pal runs) + zlen post = zlen D ->
    zrle_palrle fuel cap (mkcur D pos) pos blen total (map (cp_norm v) pal) acc k s ts
    = Ok (true, racc v runs acc, k + zlen (prle_bytes pal runs)) s ts.
Proof.
  intros Hbl Hcap Hpal.
  induction runs as [|[c n] runs IH]; intros fuel acc k post HD Hk Hr Htot Hf Hlen.
  - cbn [runs_len fold_right] in Htot. cbn [racc fold_left prle_bytes flat_map].
    destruct fuel; cbn [zrle_palrle]; (destruct (Z.leb_spec total (zlen acc)); [|lia]); unfold ret; do 2 f_equal; unfold zlen; cbn; lia.
  - destruct fuel as [|fuel]; [cbn [length] in Hf; lia|]. cbn [zrle_palrle].
    pose proof (Forall_inv Hr) as [Hn Hin]. pose proof (Forall_inv_tail Hr) as Hr'. cbn [snd fst] in Hn, Hin.
    cbn [runs_len fold_right snd] in Htot. fold (runs_len runs) in Htot.
    assert (Hrl : 0 <= runs_len runs).
    { clear -Hr'. induction Hr' as [|cn l [H1 _] H2 IH2]; cbn [runs_len fold_right]; [lia|]. fold (runs_len l). lia. }
    destruct (Z.leb_spec total (zlen acc)); [lia|].
    cbn [bc_pos bc_data]. cbv zeta. replace (pos + k - pos) with k by lia.
    destruct (index_of_spec c pal Hin) as [Hi1 Hi2].
    unfold prle_bytes in HD, Hlen. cbn [flat_map fst snd] in HD, Hlen. fold (prle_bytes pal runs) in HD, Hlen.
    pose proof (zlen_nonneg (prle_bytes pal runs)). pose proof (zlen_nonneg post).
    assert (Hnth : nth (Z.to_nat (index_of c pal)) (map (cp_norm v) pal) 0 = cp_norm v c) by (rewrite nth_map_norm, Hi2; reflexivity).
    destruct (Z.eqb_spec n 1) as [->|Hn1].
    + (* a single pixel *)
      cbn [app] in HD. rewrite zlen_app in Hlen. change (zlen [index_of c pal]) with 1 in Hlen.
      destruct (Z.leb_spec blen k); [lia|].
      erewrite bind_ok; [|apply (peek_at_data _ _ _ _ _ _ [index_of c pal] (prle_bytes pal runs ++ post)); [exact HD|reflexivity|lia]].
      change (nthz [index_of c pal] 0) with (index_of c pal).
      rewrite (Z.mod_small (index_of c pal) 128) by lia.
      erewrite bind_ok; [|apply pal_get_ok; [lia|rewrite zlen_map; lia]]. rewrite Hnth.
      destruct (Z.leb_spec 128 (index_of c pal)); [lia|].
      rewrite (IH fuel (cp_norm v c :: acc) (k + 1) post).
      * cbn [racc fold_left fst snd]. change (Z.to_nat 1) with 1%nat. cbn [repeat app].
        unfold prle_bytes at 2. cbn [flat_map fst snd]. fold (prle_bytes pal runs).
        change (1 =? 1) with true. cbv iota. unfold racc.
        rewrite zlen_app. change (zlen [index_of c pal]) with 1. do 2 f_equal. lia.
      * rewrite skipn_add by lia. rewrite HD. reflexivity.
      * lia.
      * exact Hr'.
      * rewrite zlen_cons. lia.
      * cbn [length] in Hf. lia.
      * lia.
    + rewrite <- !app_assoc in HD. cbn [app] in HD. rewrite !zlen_app in Hlen. change (zlen [index_of c pal + 128]) with 1 in Hlen.
      pose proof (runlen_bytes_len n Hn) as Hrl2. assert (0 <= (n - 1) / 255) by (apply Z.div_pos; lia).
      destruct (Z.leb_spec blen k); [lia|].
      erewrite bind_ok; [|apply (peek_at_data _ _ _ _ _ _ [index_of c pal + 128] (runlen_bytes n ++ prle_bytes pal runs ++ post)); [exact HD|reflexivity|lia]].
      change (nthz [index_of c pal + 128] 0) with (index_of c pal + 128).
      replace ((index_of c pal + 128) mod 128) with (index_of c pal)
        by (rewrite <- (Z.mod_small (index_of c pal) 128) at 1 by lia; rewrite <- (Z.mod_add (index_of c pal) 1 128) by lia; f_equal; lia).
      erewrite bind_ok; [|apply pal_get_ok; [lia|rewrite zlen_map; lia]]. rewrite Hnth.
      destruct (Z.leb_spec 128 (index_of c pal + 128)); [|lia].
      destruct (Z.leb_spec blen (k + 1)); [lia|].
      assert (HD2 : skipn (Z.to_nat (k + 1)) D = runlen_bytes n ++ prle_bytes pal runs ++ post).
      { rewrite skipn_add by lia. rewrite HD. reflexivity. }
      rewrite HD2.
      erewrite bind_ok; [|apply runlen_bytes_data; [exact Hn|lia]].
      cbv beta iota. replace (Z.min n (total - zlen acc)) with n by lia.
      rewrite (IH fuel (repeat (cp_norm v c) (Z.to_nat n) ++ acc) (k + 1 + zlen (runlen_bytes n)) post).
      * cbn [racc fold_left fst snd]. unfold prle_bytes at 2. cbn [flat_map fst snd]. fold (prle_bytes pal runs).
        destruct (Z.eqb_spec n 1); [lia|]. unfold racc. rewrite !zlen_app. change (zlen [index_of c pal + 128]) with 1. do 2 f_equal. lia.
      * rewrite skipn_add by lia. rewrite HD2. now apply skipn_app_exact.
      * lia.
      * exact Hr'.
      * rewrite zlen_app, zlen_repeat. lia.
      * cbn [length] in Hf. lia.
      * lia.
Qed.

(* ---------------------------------------------------------------- painting *)
Lemma write_rows_ok code s x y w h T ts :
  st_wf s -> 0 <= x -> 0 <= y -> x + w <= c_w s -> y + h <= c_h s -> rows_wf w h T ->
  write_rowsM code x y T s ts = Ok tt (set_fb s (blit_spec (c_fb s) x y T)) ts.
Proof.
  intros (Hw0 & Hh0 & Hfb) Hx Hy Hxw Hyh [R1 R2]. unfold write_rowsM.
  rewrite (fb_write_rows_spec (c_w s) (c_h s) (c_fb s) x y w T Hfb Hx Hy Hxw ltac:(lia) R2). reflexivity.
Qed.

Lemma paint_seq_ok code s x y w h T ts :
  st_wf s -> 0 <= x -> 0 <= y -> 1 <= w -> x + w <= c_w s -> y + h <= c_h s -> rows_wf w h T ->
  paint_seq code x y w (concat T) s ts = Ok tt (set_fb s (blit_spec (c_fb s) x y T)) ts.
Proof.
  intros Hs Hx Hy Hw Hxw Hyh HT. unfold paint_seq. rewrite chunks_concat by (try lia; apply HT).
  eapply write_rows_ok; eauto.
Qed.

Lemma size_t_id n : 0 <= n -> size_t_of n = n.
Proof. intros H. unfold size_t_of. destruct (Z.ltb_spec n 0); [lia|reflexivity]. Qed.

(* what a correct tile decoder does with the tile bytes [bs] followed by anything *)
Definition ztile_ok (v : cpv) (bs : list Z) (T : list (list Z)) (w h : Z) : Prop :=
  Forall byte_ok bs /\
  forall s ts rest pos cap x y, st_wf s -> 0 <= x -> 0 <= y -> x + w <= c_w s -> y + h <= c_h s -> 0 <= pos ->
    pos + zlen (bs ++ rest) + 4 <= cap ->
    zrle_tile cap v (mkcur (bs ++ rest) pos) (zlen (bs ++ rest)) x y w h s ts
    = Ok (Some (zlen bs)) (set_fb s (blit_spec (c_fb s) x y T)) ts.

Lemma peek_head code cap t0 body pos s ts : pos + 1 <= cap ->
  peek code cap (mkcur (t0 :: body) pos) 1 s ts = Ok [t0] s ts.
Proof.
  intros H. unfold peek. apply (peek_at_data _ _ _ _ _ _ [t0] body); [reflexivity|reflexivity|lia].
Qed.

Ltac ztile_head :=
  unfold zrle_tile; rewrite size_t_id by apply zlen_nonneg; cbv zeta; cbn [app];
  match goal with |- context [zlen (?t0 :: ?l) <? 1] =>
    destruct (Z.ltb_spec (zlen (t0 :: l)) 1);
      [exfalso; rewrite zlen_cons in *; pose proof (zlen_nonneg l); lia|]
  end;
  cbn [bc_data];
  (erewrite bind_ok; [|reflexivity]);
  (erewrite bind_ok; [|apply peek_head; first [lia | nia]]);
  match goal with |- context [nthz [?t0] 0] => change (nthz [t0] 0) with t0 end.

Lemma div8_exact a R r : R = 8 * r -> a * R / 8 = a * r.
Proof. intros ->. replace (a * (8 * r)) with (a * r * 8) by lia. apply Z.div_mul. lia. Qed.

Lemma map_norm_id v l : Forall (cp_ok v) l -> map (cp_norm v) l = l.
Proof.
  intros H. rewrite <- (map_id l) at 2. apply map_ext_in. intros a Ha. rewrite Forall_forall in H. now apply cp_norm_ok, H.
Qed.

Lemma cp_ok_px v p : cp_ok v p -> match v with CP8 | CP16 | CP32 => px_ok (rbytes v) p | _ => True end.
Proof. destruct v; cbn; auto; unfold px_ok; intros; lia. Qed.

(* raw tile *)
Lemma ztile_raw f v T w h : cp_agree f v -> 1 <= w -> 1 <= h -> rows_wf w h T -> Forall (Forall (cp_ok v)) T ->
  ztile_ok v ([0] ++ flat_map (cpixel_bytes f) (concat T)) T w h.
Proof.
  intros Hag Hw Hh HT Hp. split.
  { apply Forall_app. split; [repeat constructor; unfold byte_ok; lia|apply flat_map_ok; intros; apply cpixel_bytes_ok]. }
  intros s ts rest pos cap x y Hs Hx Hy Hxw Hyh Hpos Hcap.
  pose proof HT as [T1 T2].
  assert (Hpix : zlen (concat T) = w * h) by (rewrite (concat_zlen w T T2), T1; reflexivity).
  assert (Hrb : 1 <= rbytes v <= 4) by (destruct v; cbn; lia).
  assert (Hlen : zlen (flat_map (cpixel_bytes f) (concat T)) = rbytes v * (w * h)).
  { rewrite (flat_map_zlen_const _ (rbytes v)); [now rewrite Hpix|]. intros a; now apply cpixel_bytes_len. }
  pose proof (zlen_nonneg rest).
  assert (HR : zlen (([0] ++ flat_map (cpixel_bytes f) (concat T)) ++ rest) = 1 + rbytes v * (w * h) + zlen rest)
    by (cbn [app]; rewrite zlen_cons, zlen_app; lia).
  assert (HB : zlen ([0] ++ flat_map (cpixel_bytes f) (concat T)) = 1 + rbytes v * (w * h)) by (cbn [app]; rewrite zlen_cons; lia).
  rewrite HB. rewrite HR in Hcap.
  assert (Hok : Forall (cp_ok v) (concat T)) by (apply Forall_concat; exact Hp).
  assert (Hwh : 1 <= w * h) by nia.
  ztile_head. cbn [app] in HR. rewrite ?HR. rewrite Z.eqb_refl.
  destruct (Z.eqb_spec (realbpp v) (cbpp v)) as [E|E]; cbn [negb].
  - (* GotBitmap path *)
    assert (Hv : rbytes v = cbpp v / 8 /\ realbpp v = 8 * rbytes v) by (destruct v; cbn in *; try lia; try contradiction).
    destruct Hv as [Hv1 Hv2].
    erewrite bind_ok; [|reflexivity].
    rewrite (div8_exact (w * h) (realbpp v) (rbytes v) Hv2).
    destruct (Z.ltb_spec (1 + rbytes v * (w * h) + zlen rest) (1 + w * h * rbytes v)); [lia|]. rewrite Bool.andb_false_r.
    assert (Hck : check_rect s x y w h = true) by (unfold check_rect; lia). rewrite Hck.
    erewrite bind_ok.
    2:{ erewrite bind_ok.
        2:{ apply (peek_at_data _ _ _ _ _ _ (flat_map (cpixel_bytes f) (concat T)) rest); [reflexivity| |rewrite <- Hv1; nia].
            rewrite Hlen, <- Hv1. lia. }
        assert (Epx : flat_map (cpixel_bytes f) (concat T) = px_bytes (cbpp v / 8) (concat T)).
        { unfold px_bytes. apply flat_map_ext. intros p. rewrite (cpixel_bytes_eq f v p Hag), <- Hv1.
          destruct v; cbn in E; try lia; reflexivity. }
        rewrite Epx. rewrite px_of_bytes_px_bytes.
        - apply (copy_rect_spec s x y w h T ts Hs Hx Hy Hw Hxw Hyh HT).
        - lia.
        - rewrite <- Hv1. eapply Forall_impl; [|exact Hok]. intros p Hpp. apply cp_ok_px in Hpp.
          destruct v; cbn in E; try lia; exact Hpp. }
    unfold ret. do 3 f_equal. lia.
  - (* CPIXEL loop *)
    assert (Hv2 : realbpp v = 8 * rbytes v) by (destruct v; cbn in *; try lia; try contradiction).
    rewrite (div8_exact (w * h) (realbpp v) (rbytes v) Hv2).
    destruct (Z.ltb_spec (1 + rbytes v * (w * h) + zlen rest) (1 + w * h * rbytes v)); [lia|].
    erewrite bind_ok.
    2:{ replace (Z.to_nat (w * h)) with (length (concat T)) by (unfold zlen in Hpix; lia).
        apply (cpixels_data _ _ f v _ _ _ _ Hag (concat T) 1 rest); [reflexivity|lia|rewrite Hpix; lia]. }
    rewrite map_norm_id by exact Hok.
    erewrite bind_ok; [|apply (paint_seq_ok 37 s x y w h T ts); auto; lia].
    unfold ret. do 3 f_equal. lia.
Qed.

(* solid tile *)
Lemma ztile_solid f v c w h : cp_agree f v -> 0 <= w -> 0 <= h -> cp_ok v c ->
  ztile_ok v ([1] ++ cpixel_bytes f c) (fill_rows w h c) w h.
Proof.
  intros Hag Hw Hh Hc. split.
  { apply Forall_app. split; [repeat constructor; unfold byte_ok; lia|apply cpixel_bytes_ok]. }
  intros s ts rest pos cap x y Hs Hx Hy Hxw Hyh Hpos Hcap.
  assert (Hrb : 1 <= rbytes v <= 4) by (destruct v; cbn; lia).
  pose proof (cpixel_bytes_len f v c Hag) as Hl.
  pose proof (zlen_nonneg rest).
  assert (HR : zlen (([1] ++ cpixel_bytes f c) ++ rest) = 1 + rbytes v + zlen rest) by (cbn [app]; rewrite zlen_cons, zlen_app; lia).
  assert (HB : zlen ([1] ++ cpixel_bytes f c) = 1 + rbytes v) by (cbn [app]; rewrite zlen_cons; lia).
  rewrite HB. rewrite HR in Hcap.
  ztile_head. cbn [app] in HR. rewrite ?HR. change (1 =? 0) with false. change (1 =? 1) with true. cbv iota.
  erewrite bind_ok; [|reflexivity].
  destruct (Z.ltb_spec (1 + rbytes v + zlen rest) (1 + rbytes v)); [lia|].
  rewrite Bool.andb_false_r.
  erewrite bind_ok; [|eapply (cpix_at_data _ _ f v _ _ 1 c rest); [exact Hag|reflexivity|lia]].
  rewrite (cp_norm_ok v c Hc).
  erewrite bind_ok; [|apply fill_rect_spec; auto].
  reflexivity.
Qed.

(* ---------------------------------------------------------------- RLE tiles *)
Lemma runs_len_expand runs : Forall (fun cn => 1 <= snd cn) runs -> runs_len runs = zlen (expand runs) /\ zlen runs <= runs_len runs.
Proof.
  induction 1 as [|[c n] runs H1 H2 [IH1 IH2]]; cbn [runs_len fold_right expand snd]; [split; reflexivity|].
  fold (runs_len runs). cbn [snd] in H1. rewrite zlen_app, zlen_repeat, zlen_cons. split; lia.
Qed.

Lemma expand_norm v runs : Forall (fun cn => cp_ok v (fst cn)) runs ->
  expand (map (fun cn : Z * Z => (cp_norm v (fst cn), snd cn)) runs) = expand runs.
Proof.
  induction 1 as [|[c n] runs H1 H2 IH]; cbn [map expand fst snd]; [reflexivity|].
  cbn [fst] in H1. now rewrite IH, (cp_norm_ok v c H1).
Qed.

Lemma ztile_plain f v runs T w h : cp_agree f v -> 1 <= w -> 1 <= h -> rows_wf w h T ->
  expand runs = concat T -> Forall (fun cn => 1 <= snd cn /\ cp_ok v (fst cn)) runs ->
  ztile_ok v ([128] ++ plain_bytes f runs) T w h.
Proof.
  intros Hag Hw Hh HT Hex Hr.
  assert (Hr1 : Forall (fun cn : Z * Z => 1 <= snd cn) runs) by (eapply Forall_impl; [|exact Hr]; intros a Ha; apply Ha).
  split.
  { apply Forall_app. split; [repeat constructor; unfold byte_ok; lia|now apply plain_bytes_ok]. }
  intros s ts rest pos cap x y Hs Hx Hy Hxw Hyh Hpos Hcap.
  pose proof HT as [T1 T2].
  assert (Hpix : zlen (concat T) = w * h) by (rewrite (concat_zlen w T T2), T1; reflexivity).
  assert (Hr2 : Forall (fun cn : Z * Z => cp_ok v (fst cn)) runs) by (eapply Forall_impl; [|exact Hr]; intros a Ha; apply Ha).
  destruct (runs_len_expand runs Hr1) as [L1 L2]. rewrite Hex, Hpix in L1.
  pose proof (zlen_nonneg rest). pose proof (zlen_nonneg (plain_bytes f runs)) as HPB.
  assert (HR : zlen (([128] ++ plain_bytes f runs) ++ rest) = 1 + zlen (plain_bytes f runs) + zlen rest)
    by (cbn [app]; rewrite zlen_cons, zlen_app; lia).
  assert (HB : zlen ([128] ++ plain_bytes f runs) = 1 + zlen (plain_bytes f runs)) by (cbn [app]; rewrite zlen_cons; lia).
  rewrite HB. rewrite HR in Hcap.
  ztile_head. cbn [app] in HR.
  change (128 =? 0) with false. change (128 =? 1) with false. change (128 <=? 127) with false. change (128 =? 128) with true. cbv iota.
  cbn [bc_pos].
  erewrite bind_ok.
  2:{ apply (zrle_plain_data cap f v _ pos _ (w * h) s ts Hag eq_refl ltac:(rewrite HR; lia) runs (Z.to_nat (w * h)) [] 1 rest).
      - reflexivity.
      - lia.
      - exact Hr1.
      - unfold zlen at 1. cbn [length]. lia.
      - unfold zlen in L2. lia.
      - rewrite HR. lia. }
  cbv beta iota.
  rewrite rev_racc. cbn [rev app]. rewrite (expand_norm v runs Hr2), Hex.
  erewrite bind_ok; [|apply (paint_seq_ok 46 s x y w h T ts); auto; lia].
  reflexivity.
Qed.

Lemma prle_bytes_pos pal runs : runs <> [] -> 1 <= zlen (prle_bytes pal runs).
Proof.
  destruct runs as [|[c n] runs]; [contradiction|]. intros _. unfold prle_bytes. cbn [flat_map fst snd].
  fold (prle_bytes pal runs). pose proof (zlen_nonneg (prle_bytes pal runs)).
  destruct (n =? 1); cbn [app]; rewrite zlen_cons;
    match goal with |- 1 <= 1 + zlen ?l => pose proof (zlen_nonneg l) end; lia.
Qed.

Lemma prle_bytes_ok pal runs : zlen pal <= 127 -> Forall (fun cn : Z * Z => 1 <= snd cn /\ In (fst cn) pal) runs ->
  Forall byte_ok (prle_bytes pal runs).
Proof.
  intros Hpal H. unfold prle_bytes. induction H as [|[c n] runs [H1 H2] H3 IH]; cbn [flat_map fst snd]; [constructor|].
  cbn [fst snd] in H1, H2. destruct (index_of_spec c pal H2) as [I1 _].
  apply Forall_app. split; [|exact IH].
  destruct (n =? 1); [repeat constructor; unfold byte_ok; lia|].
  apply Forall_app. split; [repeat constructor; unfold byte_ok; lia|now apply runlen_bytes_ok].
Qed.

Lemma ztile_prle f v pal runs T w h : cp_agree f v -> 1 <= w -> 1 <= h -> rows_wf w h T -> 2 <= zlen pal <= 127 ->
  expand runs = concat T -> Forall (fun cn => 1 <= snd cn /\ In (fst cn) pal /\ cp_ok v (fst cn)) runs ->
  ztile_ok v ([128 + zlen pal] ++ flat_map (cpixel_bytes f) pal ++ prle_bytes pal runs) T w h.
Proof.
  intros Hag Hw Hh HT Hpal Hex Hr.
  assert (Hr1 : Forall (fun cn : Z * Z => 1 <= snd cn) runs) by (eapply Forall_impl; [|exact Hr]; intros a Ha; apply Ha).
  assert (Hr3 : Forall (fun cn : Z * Z => 1 <= snd cn /\ In (fst cn) pal) runs) by (eapply Forall_impl; [|exact Hr]; intros a Ha; split; apply Ha).
  split.
  { apply Forall_app. split; [repeat constructor; unfold byte_ok; lia|].
    apply Forall_app. split; [apply flat_map_ok; intros; apply cpixel_bytes_ok|now apply prle_bytes_ok]. }
  intros s ts rest pos cap x y Hs Hx Hy Hxw Hyh Hpos Hcap.
  pose proof HT as [T1 T2].
  assert (Hpix : zlen (concat T) = w * h) by (rewrite (concat_zlen w T T2), T1; reflexivity).
  assert (Hr2 : Forall (fun cn : Z * Z => cp_ok v (fst cn)) runs) by (eapply Forall_impl; [|exact Hr]; intros a Ha; apply Ha).
  destruct (runs_len_expand runs Hr1) as [L1 L2]. rewrite Hex, Hpix in L1.
  assert (Hne : runs <> []) by (intros ->; cbn in L1; nia).
  pose proof (prle_bytes_pos pal runs Hne) as HP1.
  assert (Hrb : 1 <= rbytes v <= 4) by (destruct v; cbn; lia).
  assert (Hv2 : realbpp v = 8 * rbytes v) by (destruct v; cbn in *; try lia; try contradiction).
  assert (HCP : zlen (flat_map (cpixel_bytes f) pal) = rbytes v * zlen pal).
  { apply flat_map_zlen_const. intros a; now apply cpixel_bytes_len. }
  pose proof (zlen_nonneg rest).
  set (n := zlen pal) in *. set (CP := flat_map (cpixel_bytes f) pal) in *. set (PR := prle_bytes pal runs) in *.
  assert (HR : zlen (([128 + n] ++ CP ++ PR) ++ rest) = 1 + rbytes v * n + zlen PR + zlen rest)
    by (cbn [app]; rewrite zlen_cons, !zlen_app; lia).
  assert (HB : zlen ([128 + n] ++ CP ++ PR) = 1 + rbytes v * n + zlen PR) by (cbn [app]; rewrite zlen_cons, zlen_app; lia).
  rewrite HB. rewrite HR in Hcap.
  ztile_head. cbn [app] in HR. rewrite ?HR.
  destruct (Z.eqb_spec (128 + n) 0); [lia|]. destruct (Z.eqb_spec (128 + n) 1); [lia|].
  destruct (Z.leb_spec (128 + n) 127); [lia|]. destruct (Z.eqb_spec (128 + n) 128); [lia|]. destruct (Z.eqb_spec (128 + n) 129); [lia|].
  replace (128 + n - 128) with n by lia.
  rewrite (div8_exact n (realbpp v) (rbytes v) Hv2).
  destruct (Z.ltb_spec (1 + rbytes v * n + zlen PR + zlen rest) (2 + n * rbytes v)); [lia|].
  erewrite bind_ok.
  2:{ replace (Z.to_nat n) with (length pal) by (unfold n, zlen; lia).
      apply (cpixels_data _ _ f v _ _ _ _ Hag pal 1 (PR ++ rest)); [unfold CP; now rewrite <- app_assoc|lia|fold n; nia]. }
  cbn [bc_pos].
  erewrite bind_ok.
  2:{ apply (zrle_palrle_data cap v _ pos _ (w * h) pal s ts (eq_sym HR) ltac:(rewrite HR; nia) ltac:(lia)
               runs (Z.to_nat (w * h)) [] (1 + n * rbytes v) rest).
      - change (128 + n :: (CP ++ PR) ++ rest) with ([128 + n] ++ (CP ++ PR) ++ rest).
        rewrite <- !app_assoc. replace (1 + n * rbytes v) with (zlen ([128 + n] ++ CP)) by (cbn [app]; rewrite zlen_cons; lia).
        rewrite (app_assoc [128 + n] CP). now apply skipn_app_exact.
      - nia.
      - exact Hr3.
      - unfold zlen at 1. cbn [length]. lia.
      - unfold zlen in L2. lia.
      - rewrite HR. fold PR. lia. }
  cbv beta iota.
  rewrite rev_racc. cbn [rev app]. rewrite (expand_norm v runs Hr2), Hex.
  erewrite bind_ok; [|apply (paint_seq_ok 48 s x y w h T ts); auto; lia].
  unfold ret. fold PR. do 3 f_equal. lia.
Qed.

(* ---------------------------------------------------------------- packed palette tile *)
Lemma dec_bits_eq n : n <= 16 ->
  (if 4 <? n then (if 16 <? n then 8 else 4) else (if 2 <? n then 2 else 1)) = bits_for n.
Proof. intros H. unfold bits_for. destruct (Z.ltb_spec 4 n); destruct (Z.ltb_spec 16 n); destruct (Z.ltb_spec 2 n); destruct (Z.leb_spec n 2); destruct (Z.leb_spec n 4); lia. Qed.

Lemma dec_bits_eq2 n : (if 4 <? n then 4 else (if 2 <? n then 2 else 1)) = bits_for n.
Proof. unfold bits_for. destruct (Z.ltb_spec 4 n); destruct (Z.ltb_spec 2 n); destruct (Z.leb_spec n 2); destruct (Z.leb_spec n 4); lia. Qed.

Lemma bits_for_fits n : 1 <= n <= 16 -> n <= 2 ^ bits_for n.
Proof. intros H. unfold bits_for. destruct (Z.leb_spec n 2); [cbn; lia|]. destruct (Z.leb_spec n 4); cbn; lia. Qed.

Definition pk_rows (pal : list Z) (T : list (list Z)) : list Z :=
  flat_map (fun r => pack_row (bits_for (zlen pal)) (map (fun p => index_of p pal) r)) T.

Lemma skipn_app_le {A} n (a b : list A) : (n <= length a)%nat -> skipn n (a ++ b) = skipn n a ++ b.
Proof. intros H. rewrite skipn_app. replace (n - length a)%nat with 0%nat by lia. reflexivity. Qed.

Lemma ztile_packed f v pal T w h : cp_agree f v -> 1 <= w -> 1 <= h -> rows_wf w h T -> 2 <= zlen pal <= 16 ->
  Forall (Forall (fun p => In p pal /\ cp_ok v p)) T ->
  ztile_ok v ([zlen pal] ++ flat_map (cpixel_bytes f) pal ++ pk_rows pal T) T w h.
Proof.
  intros Hag Hw Hh HT Hpal Hp. split.
  { apply Forall_app. split; [repeat constructor; unfold byte_ok; lia|].
    apply Forall_app. split; [apply flat_map_ok; intros; apply cpixel_bytes_ok|].
    unfold pk_rows. apply Forall_forall. intros b Hb. apply in_flat_map in Hb. destruct Hb as (r & Hr & Hb).
    assert (Hidx : Forall (fun d => 0 <= d < 2 ^ bits_for (zlen pal)) (map (fun p => index_of p pal) r)).
    2:{ pose proof (pack_row_ok (bits_for (zlen pal)) (bits_for_cases _) _ Hidx) as G. rewrite Forall_forall in G. now apply G. }
    apply Forall_forall. intros i Hi. apply in_map_iff in Hi. destruct Hi as (p & <- & Hpi).
    rewrite Forall_forall in Hp. specialize (Hp r Hr). rewrite Forall_forall in Hp. destruct (Hp p Hpi) as [Hin _].
    destruct (index_of_spec p pal Hin) as [I1 _]. pose proof (bits_for_fits (zlen pal) ltac:(lia)). lia. }
  intros s ts rest pos cap x y Hs Hx Hy Hxw Hyh Hpos Hcap.
  pose proof HT as [T1 T2].
  assert (Hrb : 1 <= rbytes v <= 4) by (destruct v; cbn; lia).
  assert (Hv2 : realbpp v = 8 * rbytes v) by (destruct v; cbn in *; try lia; try contradiction).
  set (n := zlen pal) in *. set (bits := bits_for n).
  assert (Hbits : bits = 1 \/ bits = 2 \/ bits = 4) by apply bits_for_cases.
  destruct (per_bits bits Hbits) as [Hpb Hp1].
  set (rowbytes := (w + 8 / bits - 1) / (8 / bits)).
  assert (Hrow0 : 0 <= rowbytes) by (apply Z.div_pos; lia).
  set (gp := fun r : list Z => pack_row bits (map (fun p => index_of p pal) r)).
  assert (Hgl : Forall (fun r => zlen (gp r) = rowbytes) T).
  { eapply Forall_impl; [|exact T2]. intros r Hr. cbn beta in Hr. unfold gp. rewrite (pack_row_len bits Hbits), zlen_map, Hr. reflexivity. }
  set (CP := flat_map (cpixel_bytes f) pal) in *. set (PK := pk_rows pal T) in *.
  assert (HCP : zlen CP = rbytes v * n) by (apply flat_map_zlen_const; intros a; now apply cpixel_bytes_len).
  assert (HPK : zlen PK = rowbytes * h).
  { change (zlen (flat_map gp T) = rowbytes * h). clear -Hgl T1. rewrite <- T1. clear T1.
    induction Hgl as [|r T H1 H2 IH]; cbn [flat_map]; [unfold zlen; cbn; lia|]. rewrite zlen_app, zlen_cons, IH, H1. lia. }
  pose proof (zlen_nonneg rest).
  assert (HR : zlen (([n] ++ CP ++ PK) ++ rest) = 1 + rbytes v * n + rowbytes * h + zlen rest)
    by (cbn [app]; rewrite zlen_cons, !zlen_app; lia).
  assert (HB : zlen ([n] ++ CP ++ PK) = 1 + rbytes v * n + rowbytes * h) by (cbn [app]; rewrite zlen_cons, zlen_app; lia).
  assert (Hrh : 0 <= rowbytes * h) by nia.
  rewrite HB. rewrite HR in Hcap.
  ztile_head. cbn [app] in HR. rewrite ?HR.
  destruct (Z.eqb_spec n 0); [lia|]. destruct (Z.eqb_spec n 1); [lia|]. destruct (Z.leb_spec n 127); [|lia].
  erewrite bind_ok; [|reflexivity].
  destruct (Z.ltb_spec 16 n); [lia|]. rewrite Bool.andb_false_r.
  rewrite (dec_bits_eq2 n). fold bits. fold rowbytes.
  rewrite (div8_exact n (realbpp v) (rbytes v) Hv2).
  destruct (Z.ltb_spec (1 + rbytes v * n + rowbytes * h + zlen rest) (1 + n * rbytes v + rowbytes * h)); [lia|].
  erewrite bind_ok.
  2:{ replace (Z.to_nat n) with (length pal) by (unfold n, zlen; lia).
      apply (cpixels_data _ _ f v _ _ _ _ Hag pal 1 (PK ++ rest)); [unfold CP; now rewrite <- app_assoc|lia|fold n; nia]. }
  set (D := n :: (CP ++ PK) ++ rest) in *.
  assert (HDk : skipn (Z.to_nat (1 + n * rbytes v)) D = PK ++ rest).
  { unfold D. change (n :: (CP ++ PK) ++ rest) with ([n] ++ (CP ++ PK) ++ rest).
    rewrite <- !app_assoc. rewrite (app_assoc [n] CP). apply skipn_app_exact. cbn [app]. rewrite zlen_cons. lia. }
  (* the rows *)
  erewrite bind_ok.
  2:{ apply (mapM_pure _ (fun j => nth (Z.to_nat j) T [])). intros j Hj. apply in_zseq in Hj.
      assert (Hjn : (Z.to_nat j < length T)%nat) by (unfold zlen in T1; lia).
      set (row := nth (Z.to_nat j) T []).
      assert (Hrow_in : In row T) by (apply nth_In; exact Hjn).
      assert (Hroww : zlen row = w) by (rewrite Forall_forall in T2; now apply T2).
      assert (Hrowp : Forall (fun p => In p pal /\ cp_ok v p) row) by (rewrite Forall_forall in Hp; now apply Hp).
      assert (HDj : skipn (Z.to_nat (1 + n * rbytes v + j * rowbytes)) D = gp row ++ (flat_map gp (skipn (S (Z.to_nat j)) T) ++ rest)).
      { rewrite skipn_add by nia. rewrite HDk.
        rewrite skipn_app_le.
        - change PK with (flat_map gp T).
          replace (j * rowbytes) with (Z.of_nat (Z.to_nat j) * rowbytes) by lia.
          rewrite (flat_map_skip gp rowbytes [] Hrow0 T (Z.to_nat j) Hgl Hjn). fold row. now rewrite <- app_assoc.
        - unfold zlen in HPK. nia. }
      erewrite bind_ok.
      2:{ eapply peek_at_data; [exact HDj| |].
          - rewrite Forall_forall in Hgl. now apply Hgl.
          - nia. }
      unfold gp. rewrite <- (app_nil_r (pack_row bits (map (fun p => index_of p pal) row))).
      replace w with (zlen (map (fun p => index_of p pal) row)) by (rewrite zlen_map; exact Hroww).
      rewrite (pack_row_unpack bits Hbits).
      2:{ apply Forall_forall. intros i Hi. apply in_map_iff in Hi. destruct Hi as (p & <- & Hpi).
          rewrite Forall_forall in Hrowp. destruct (Hrowp p Hpi) as [Hin _].
          destruct (index_of_spec p pal Hin) as [I1 _]. pose proof (bits_for_fits n ltac:(lia)) as Hfit. change (bits_for n) with bits in Hfit. change (zlen pal) with n in I1. lia. }
      rewrite (mapM_pure _ (fun i => nth (Z.to_nat i) (map (cp_norm v) pal) 0)).
      - f_equal. rewrite map_map. rewrite <- (map_id row) at 2. apply map_ext_in. intros p Hpi.
        rewrite Forall_forall in Hrowp. destruct (Hrowp p Hpi) as [Hin Hok].
        destruct (index_of_spec p pal Hin) as [_ I2]. rewrite nth_map_norm, I2. now apply cp_norm_ok.
      - intros i Hi. apply in_map_iff in Hi. destruct Hi as (p & <- & Hpi).
        rewrite Forall_forall in Hrowp. destruct (Hrowp p Hpi) as [Hin _].
        destruct (index_of_spec p pal Hin) as [I1 _]. apply pal_get_ok; [change (zlen pal) with n in I1; lia|rewrite zlen_map; apply I1]. }
  rewrite <- T1 at 1. rewrite (zseq_nth_gen [] T).
  erewrite bind_ok; [|apply (write_rows_ok 45 s x y w h T ts); auto].
  unfold ret. do 3 f_equal. lia.
Qed.

(* ---------------------------------------------------------------- every tile the reference encoder can emit *)
Lemma fill_rows_eq w h c T : rows_wf w h T -> (forall p, In p (concat T) -> p = c) -> T = fill_rows w h c.
Proof.
  intros [T1 T2] Hall. unfold fill_rows. rewrite <- T1. unfold zlen. rewrite Nat2Z.id. clear T1.
  induction T as [|r T IH]; [reflexivity|]. cbn [length repeat]. f_equal.
  - pose proof (Forall_inv T2) as Hr. cbn beta in Hr. rewrite <- Hr. unfold zlen. rewrite Nat2Z.id.
    assert (Hrc : forall p, In p r -> p = c) by (intros p Hp; apply Hall; cbn [concat]; apply in_or_app; now left).
    clear -Hrc. induction r as [|a r IHr]; [reflexivity|]. cbn [length repeat]. f_equal; [apply Hrc; now left|apply IHr; intros; apply Hrc; now right].
  - apply IH; [exact (Forall_inv_tail T2)|]. intros p Hp. apply Hall. cbn [concat]. apply in_or_app. now right.
Qed.

Lemma padded_pal_facts ch base cols lim pxmod (n := zlen cols) :
  1 <= n <= lim ->
  let extra := Z.min (pick ch (base + 3) 4) (lim - n) in
  let extra' := if n + extra <? 2 then 1 else extra in
  2 <= lim ->
  2 <= zlen (cols ++ pad_palette ch (base + 10) (Z.to_nat extra') pxmod) <= lim.
Proof.
  intros Hn extra extra' Hlim. pose proof (pick_range1 ch (base + 3) 4) as Hp.
  rewrite zlen_app. replace (zlen (pad_palette ch (base + 10) (Z.to_nat extra') pxmod)) with (Z.of_nat (Z.to_nat extra'))
    by (unfold zlen; now rewrite pad_palette_len). fold n.
  unfold extra', extra. destruct (Z.ltb_spec (n + Z.min (pick ch (base + 3) 4) (lim - n)) 2); lia.
Qed.

Lemma tile_body_zrle ch base f v T w h pk pp :
  cp_agree f v -> 1 <= w -> 1 <= h -> rows_wf w h T -> Forall (Forall (cp_ok v)) T ->
  ztile_ok v (fst (fst (tile_body ch base f false T pk pp))) T w h.
Proof.
  intros Hag Hw Hh HT Hp. pose proof HT as [T1 T2].
  assert (Hpix : zlen (concat T) = w * h) by (rewrite (concat_zlen w T T2), T1; reflexivity).
  assert (Hok : Forall (cp_ok v) (concat T)) by (apply Forall_concat; exact Hp).
  unfold tile_body. cbv zeta. cbn [andb].
  set (pix := concat T) in *. set (cols := distinct pix). set (n := zlen cols).
  assert (Hcols : forall p, In p pix -> In p cols) by (intros p Hpi; now apply distinct_In).
  assert (Hcols' : forall p, In p cols -> In p pix) by (intros p Hpi; now apply distinct_In).
  assert (Hn1 : 1 <= n).
  { destruct pix as [|p0 pix'] eqn:E; [unfold zlen in Hpix; cbn in Hpix; nia|].
    assert (In p0 cols) by (apply Hcols; now left). unfold n. destruct cols; [contradiction|]. rewrite zlen_cons. pose proof (zlen_nonneg cols). lia. }
  set (cap := nth (Z.to_nat (pick ch (base + 1) (zlen run_caps))) run_caps 1).
  (* the plain RLE tile, used by several modes *)
  assert (Hplain : ztile_ok v ([128] ++ flat_map (fun cn : Z * Z => cpixel_bytes f (fst cn) ++ runlen_bytes (snd cn)) (rle cap pix)) T w h).
  { destruct (rle_expand cap pix) as [E1 E2].
    apply (ztile_plain f v (rle cap pix) T w h Hag Hw Hh HT E1).
    pose proof (rle_colours cap pix (cp_ok v) Hok) as Hc.
    unfold runs_ok in E2. apply Forall_forall. intros cn Hcn. rewrite Forall_forall in Hc, E2. split; [apply (E2 cn Hcn)|apply (Hc cn Hcn)]. }
  assert (Hraw : ztile_ok v ([0] ++ flat_map (cpixel_bytes f) pix) T w h) by (apply ztile_raw; auto).
  destruct (pick ch base 6 =? 0); [exact Hraw|].
  destruct (pick ch base 6 =? 1).
  { destruct (Z.eqb_spec n 1) as [En|En]; [|exact Hraw]. cbn [fst].
    assert (Hc1 : exists c, cols = [c]).
    { unfold n in En. destruct cols as [|c [|c2 cols']]; [unfold zlen in En; cbn in En; lia|now exists c|].
      rewrite !zlen_cons in En. pose proof (zlen_nonneg cols'). lia. }
    destruct Hc1 as [c Hc1]. rewrite Hc1. cbn [nth].
    assert (Hall : forall p, In p pix -> p = c).
    { intros p Hpi. apply Hcols in Hpi. rewrite Hc1 in Hpi. destruct Hpi as [->|[]]. reflexivity. }
    rewrite (fill_rows_eq w h c T HT Hall).
    apply ztile_solid; auto; try lia.
    assert (In c pix) by (apply Hcols'; rewrite Hc1; now left). rewrite Forall_forall in Hok. now apply Hok. }
  destruct (pick ch base 6 =? 2).
  { destruct ((2 <=? n) && (n <=? 16) || (n =? 1)) eqn:Ec; [|exact Hplain]. cbn [fst].
    assert (Hn16 : n <= 16) by lia.
    pose proof (padded_pal_facts ch base cols 16 (2 ^ f_bpp f) ltac:(fold n; lia) ltac:(lia)) as Hpl. cbv zeta in Hpl. fold n in Hpl.
    match goal with |- ztile_ok v ([zlen ?pl] ++ _ ++ _) T w h => set (pal := pl) in * end.
    apply (ztile_packed f v pal T w h Hag Hw Hh HT Hpl).
    apply Forall_forall. intros r Hr. apply Forall_forall. intros p Hpr.
    assert (Hpp : In p pix) by (unfold pix; apply in_concat; exists r; split; assumption).
    split; [unfold pal; apply in_or_app; left; now apply Hcols|]. rewrite Forall_forall in Hok. now apply Hok. }
  destruct (pick ch base 6 =? 3); [exact Hplain|].
  destruct (Z.leb_spec n 127); [|exact Hplain]. cbn [fst].
  pose proof (padded_pal_facts ch base cols 127 (2 ^ f_bpp f) ltac:(fold n; lia) ltac:(lia)) as Hpl. cbv zeta in Hpl. fold n in Hpl.
  match goal with |- ztile_ok v ([128 + zlen ?pl] ++ _ ++ _) T w h => set (pal := pl) in * end.
  destruct (rle_expand cap pix) as [E1 E2].
  apply (ztile_prle f v pal (rle cap pix) T w h Hag Hw Hh HT Hpl E1).
  pose proof (rle_colours cap pix (fun c => In c pal /\ cp_ok v c)) as Hc.
  assert (Hc' : Forall (fun cn : Z * Z => In (fst cn) pal /\ cp_ok v (fst cn)) (rle cap pix)).
  { apply Hc. apply Forall_forall. intros p Hpp. split; [unfold pal; apply in_or_app; left; now apply Hcols|].
    rewrite Forall_forall in Hok. now apply Hok. }
  unfold runs_ok in E2. apply Forall_forall. intros cn Hcn. rewrite Forall_forall in Hc', E2. destruct (Hc' cn Hcn). split; [apply (E2 cn Hcn)|split; assumption].
Qed.

(* ---------------------------------------------------------------- tiles of a rectangle *)
Lemma adv_app a b pos : adv (mkcur (a ++ b) pos) (zlen a) = mkcur b (pos + zlen a).
Proof.
  unfold adv. cbn [bc_data bc_pos]. rewrite zlen_app. pose proof (zlen_nonneg b).
  rewrite Z.min_l by lia. f_equal. now apply skipn_app_exact.
Qed.

Lemma zcols_ok ch f v fuel : cp_agree f v -> forall base s rx ry rw cy th tgt TH cx pk pp rest pos cap ts,
  st_wf s -> 0 <= rx -> 0 <= ry -> 0 <= cy -> 1 <= th <= 64 -> 0 <= cx -> 0 <= rw ->
  rx + rw <= c_w s -> ry + cy + th <= c_h s -> rows_wf rw TH tgt -> cy + th <= TH ->
  Forall (Forall (cp_ok v)) tgt -> rw - cx <= 64 * Z.of_nat fuel -> 0 <= pos ->
  pos + zlen (fst (fst (tiles_cols ch base f false 64 fuel cx cy rw th tgt pk pp)) ++ rest) + 4 <= cap ->
  zrle_cols fuel cap v (mkcur (fst (fst (tiles_cols ch base f false 64 fuel cx cy rw th tgt pk pp)) ++ rest) pos)
            (zlen (fst (fst (tiles_cols ch base f false 64 fuel cx cy rw th tgt pk pp)) ++ rest)) cx cy rx ry rw th s ts
  = Ok (Some (mkcur rest (pos + zlen (fst (fst (tiles_cols ch base f false 64 fuel cx cy rw th tgt pk pp)))), zlen rest))
       (set_fb s (blit_spec (c_fb s) (rx + cx) (ry + cy) (sub_block tgt cx cy (Z.max 0 (rw - cx)) th))) ts.
Proof.
  intros Hag. induction fuel as [|fuel IH]; intros base s rx ry rw cy th tgt TH cx pk pp rest pos cap ts
    Hs Hrx Hry Hcy Hth Hcx Hrw Hxw Hyh Ht HyTH Hp Hfuel Hpos Hcap.
  - cbn [tiles_cols zrle_cols fst snd app] in *. unfold ret.
    replace (Z.max 0 (rw - cx)) with 0 by lia.
    rewrite blit_zero_width by apply sub_block_zero. rewrite set_fb_id.
    change (zlen (@nil Z)) with 0. now rewrite Z.add_0_r.
  - cbn [tiles_cols zrle_cols] in *.
    destruct (Z.leb_spec rw cx).
    + cbn [fst snd app] in *. unfold ret. replace (Z.max 0 (rw - cx)) with 0 by lia.
      rewrite blit_zero_width by apply sub_block_zero. rewrite set_fb_id.
      change (zlen (@nil Z)) with 0. now rewrite Z.add_0_r.
    + set (w := Z.min 64 (rw - cx)) in *.
      assert (Hw : 1 <= w <= 64) by lia.
      replace (if rw <? cx + cZRLETileWidth then rw - cx else cZRLETileWidth) with w
        by (unfold w, cZRLETileWidth; destruct (Z.ltb_spec rw (cx + 64)); lia).
      set (T := sub_block tgt cx cy w th) in *.
      assert (HT : rows_wf w th T) by (eapply sub_block_wf; [exact Ht| | | | | |]; lia).
      assert (HpT : Forall (Forall (cp_ok v)) T) by (apply sub_block_px; exact Hp).
      pose proof (tile_body_zrle ch base f v T w th pk pp Hag ltac:(lia) ltac:(lia) HT HpT) as Htile.
      destruct (tile_body ch base f false T pk pp) as [[tb pk1] pp1] eqn:Eenc. cbn [fst snd] in Htile.
      specialize (IH (base + 1000)).
      destruct (tiles_cols ch (base + 1000) f false 64 fuel (cx + 64) cy rw th tgt pk1 pp1) as [[rb pk2] pp2] eqn:Erec.
      cbn [fst snd] in *.
      rewrite <- app_assoc in *.
      erewrite bind_ok; [|apply (proj2 Htile s ts (rb ++ rest) pos cap (rx + cx) (ry + cy) Hs); lia].
      set (s1 := set_fb s (blit_spec (c_fb s) (rx + cx) (ry + cy) T)) in *.
      assert (Hs1 : st_wf s1) by (apply st_wf_set_fb; [assumption|apply blit_spec_wf; apply Hs]).
      cbv beta iota. rewrite adv_app.
      replace (zlen (tb ++ rb ++ rest) - zlen tb) with (zlen (rb ++ rest)) by (rewrite (zlen_app tb); lia).
      pose proof (IH s1 rx ry rw cy th tgt TH (cx + 64) pk1 pp1 rest (pos + zlen tb) cap ts) as E.
      rewrite Erec in E. cbn [fst snd] in E.
      pose proof (zlen_nonneg tb).
      change (cx + cZRLETileWidth) with (cx + 64).
      rewrite E; auto; try lia.
      2:{ rewrite (zlen_app tb) in Hcap. lia. }
      f_equal.
      * do 3 f_equal. rewrite zlen_app. lia.
      * unfold s1. rewrite set_fb_set_fb. f_equal. cbn [c_fb set_fb].
        destruct (Z.leb_spec (rw - cx) 64).
        -- assert (Hwl : w = rw - cx) by lia.
           replace (Z.max 0 (rw - (cx + 64))) with 0 by lia.
           rewrite (blit_zero_width _ (rx + (cx + 64)) (ry + cy)) by apply sub_block_zero.
           unfold T. f_equal. f_equal. lia.
        -- assert (Hw64 : w = 64) by lia.
           replace (Z.max 0 (rw - (cx + 64))) with (rw - cx - 64) by lia.
           replace (Z.max 0 (rw - cx)) with (64 + (rw - cx - 64)) by lia.
           replace (rx + (cx + 64)) with (rx + cx + 64) by lia.
           unfold T. rewrite Hw64.
           apply (blit_hjoin (c_w s) (c_h s) (c_fb s) (rx + cx) (ry + cy) tgt rw TH cx cy 64 (rw - cx - 64) th); auto; try lia.
           apply Hs.
Qed.

Lemma zcols_bytes_ok ch f v fuel : cp_agree f v -> forall base rw cy th tgt TH cx pk pp,
  1 <= th <= 64 -> 0 <= cx -> 0 <= cy -> rows_wf rw TH tgt -> cy + th <= TH -> Forall (Forall (cp_ok v)) tgt ->
  Forall byte_ok (fst (fst (tiles_cols ch base f false 64 fuel cx cy rw th tgt pk pp))).
Proof.
  intros Hag. induction fuel as [|fuel IH]; intros base rw cy th tgt TH cx pk pp Hth Hcx Hcy Ht HyTH Hp; cbn [tiles_cols fst]; [constructor|].
  destruct (Z.leb_spec rw cx); [cbn [fst]; constructor|].
  set (w := Z.min 64 (rw - cx)). set (T := sub_block tgt cx cy w th).
  assert (HT : rows_wf w th T) by (eapply sub_block_wf; [exact Ht| | | | | |]; lia).
  assert (HpT : Forall (Forall (cp_ok v)) T) by (apply sub_block_px; exact Hp).
  pose proof (proj1 (tile_body_zrle ch base f v T w th pk pp Hag ltac:(lia) ltac:(lia) HT HpT)) as Htile.
  destruct (tile_body ch base f false T pk pp) as [[tb pk1] pp1]. cbn [fst snd] in Htile.
  specialize (IH (base + 1000) rw cy th tgt TH (cx + 64) pk1 pp1 Hth ltac:(lia) Hcy Ht HyTH Hp).
  destruct (tiles_cols ch (base + 1000) f false 64 fuel (cx + 64) cy rw th tgt pk1 pp1) as [[rb pk2] pp2]. cbn [fst snd] in *.
  apply Forall_app. split; assumption.
Qed.

Lemma zrows_bytes_ok ch f v fuel : cp_agree f v -> forall base rw rh tgt cy pk pp,
  0 <= cy -> rows_wf rw rh tgt -> Forall (Forall (cp_ok v)) tgt ->
  Forall byte_ok (tiles_rows ch base f false 64 fuel cy rw rh tgt pk pp).
Proof.
  intros Hag. induction fuel as [|fuel IH]; intros base rw rh tgt cy pk pp Hcy Ht Hp; cbn [tiles_rows]; [constructor|].
  destruct (Z.leb_spec rh cy); [constructor|].
  pose proof (zcols_bytes_ok ch f v (Z.to_nat (rw / 64 + 1)) Hag base rw cy (Z.min 64 (rh - cy)) tgt rh 0 pk pp
                ltac:(lia) ltac:(lia) Hcy Ht ltac:(lia) Hp) as Hc.
  destruct (tiles_cols ch base f false 64 (Z.to_nat (rw / 64 + 1)) 0 cy rw (Z.min 64 (rh - cy)) tgt pk pp) as [[bs pk1] pp1].
  cbn [fst] in Hc. apply Forall_app. split; [exact Hc|]. apply IH; auto. lia.
Qed.

Lemma zrows_ok ch f v fuel : cp_agree f v -> forall base s rx ry rw rh tgt cy pk pp rest pos cap ts,
  st_wf s -> 0 <= rx -> 0 <= ry -> 0 <= cy -> 0 <= rw -> 0 <= rh ->
  rx + rw <= c_w s -> ry + rh <= c_h s -> rows_wf rw rh tgt ->
  Forall (Forall (cp_ok v)) tgt -> rh - cy <= 64 * Z.of_nat fuel -> 0 <= pos ->
  pos + zlen (tiles_rows ch base f false 64 fuel cy rw rh tgt pk pp ++ rest) + 4 <= cap ->
  zrle_rows fuel cap v (mkcur (tiles_rows ch base f false 64 fuel cy rw rh tgt pk pp ++ rest) pos)
            (zlen (tiles_rows ch base f false 64 fuel cy rw rh tgt pk pp ++ rest)) cy rx ry rw rh s ts
  = Ok tt (set_fb s (blit_spec (c_fb s) rx (ry + cy) (sub_block tgt 0 cy rw (Z.max 0 (rh - cy))))) ts.
Proof.
  intros Hag. induction fuel as [|fuel IH]; intros base s rx ry rw rh tgt cy pk pp rest pos cap ts
    Hs Hrx Hry Hcy Hrw Hrh Hxw Hyh Ht Hp Hfuel Hpos Hcap.
  - cbn [tiles_rows zrle_rows]. unfold ret.
    replace (Z.max 0 (rh - cy)) with 0 by lia. unfold sub_block. cbn [Z.to_nat firstn map].
    unfold blit_spec. rewrite blit_from_nil, set_fb_id. reflexivity.
  - cbn [tiles_rows zrle_rows] in *.
    destruct (Z.leb_spec rh cy).
    + unfold ret. replace (Z.max 0 (rh - cy)) with 0 by lia. unfold sub_block. cbn [Z.to_nat firstn map].
      unfold blit_spec. rewrite blit_from_nil, set_fb_id. reflexivity.
    + set (th := Z.min 64 (rh - cy)) in *. assert (Hth : 1 <= th <= 64) by lia.
      replace (if rh <? cy + cZRLETileHeight then rh - cy else cZRLETileHeight) with th
        by (unfold th, cZRLETileHeight; destruct (Z.ltb_spec rh (cy + 64)); lia).
      change (rw / cZRLETileWidth + 1) with (rw / 64 + 1).
      assert (Hcf : rw - 0 <= 64 * Z.of_nat (Z.to_nat (rw / 64 + 1))).
      { pose proof (Z.div_mod rw 64 ltac:(lia)). pose proof (Z.mod_pos_bound rw 64 ltac:(lia)).
        assert (0 <= rw / 64) by (apply Z.div_pos; lia). lia. }
      pose proof (zcols_ok ch f v (Z.to_nat (rw / 64 + 1)) Hag base s rx ry rw cy th tgt rh 0 pk pp) as Ecols.
      destruct (tiles_cols ch base f false 64 (Z.to_nat (rw / 64 + 1)) 0 cy rw th tgt pk pp) as [[bs pk1] pp1] eqn:Eenc.
      cbn [fst snd] in Ecols.
      rewrite <- app_assoc in *.
      erewrite bind_ok; [|apply Ecols; auto; lia].
      replace (rx + 0) with rx by lia.
      set (A := sub_block tgt 0 cy (Z.max 0 (rw - 0)) th) in *.
      set (s1 := set_fb s (blit_spec (c_fb s) rx (ry + cy) A)) in *.
      assert (Hs1 : st_wf s1) by (apply st_wf_set_fb; [assumption|apply blit_spec_wf; apply Hs]).
      cbv beta iota. pose proof (zlen_nonneg bs).
      change (cy + cZRLETileHeight) with (cy + 64).
      replace (zlen (tiles_rows ch (base + 1000000) f false 64 fuel (cy + 64) rw rh tgt pk1 pp1 ++ rest))
        with (zlen (tiles_rows ch (base + 1000000) f false 64 fuel (cy + 64) rw rh tgt pk1 pp1 ++ rest)) by reflexivity.
      rewrite (IH (base + 1000000) s1 rx ry rw rh tgt (cy + 64) pk1 pp1 rest (pos + zlen bs) cap ts); auto; try lia.
      2:{ rewrite (zlen_app bs) in Hcap. lia. }
      f_equal. unfold s1. rewrite set_fb_set_fb. f_equal. cbn [c_fb set_fb].
      assert (HA : rows_wf rw th A).
      { unfold A. replace (Z.max 0 (rw - 0)) with rw by lia. eapply sub_block_wf; [exact Ht| | | | | |]; lia. }
      destruct HA as [A1 A2].
      destruct (Z.leb_spec (rh - cy) 64).
      * replace (Z.max 0 (rh - (cy + 64))) with 0 by lia.
        unfold sub_block at 1. cbn [Z.to_nat firstn map]. unfold blit_spec at 1. rewrite blit_from_nil.
        unfold A. f_equal. f_equal; lia.
      * assert (Hth64 : th = 64) by lia.
        replace (ry + (cy + 64)) with (ry + cy + zlen A) by lia.
        rewrite blit_split_v by lia. f_equal.
        replace (Z.max 0 (rh - cy)) with (64 + Z.max 0 (rh - (cy + 64))) by lia.
        rewrite sub_block_vsplit by lia. unfold A. rewrite Hth64. f_equal. f_equal. lia.
Qed.

(* ---------------------------------------------------------------- HandleZRLE *)
(* which inflate stream of the client takes ZRLE blocks: its own (fix 11) or the one shared with the Zlib encoding *)
Definition zrle_fresh (s : cst) : bool := if fixed s 11 then negb (c_zrlez s) else negb (zact_get s 0).
Definition zrle_mark (s : cst) : cst := if fixed s 11 then set_zrlez s true else zact_set (set_zrlez s true) 0 true.

Lemma rd_zrle_stream_ok s fresh data ts : zs_ready c_zrlez c_zlibz s -> fresh = zrle_fresh s ->
  rd_zrle_stream s (TZ 5 fresh true data :: ts) = Ok (true, map (fun b => b mod 256) data) (zrle_mark s) ts.
Proof.
  intros Hr ->. unfold rd_zrle_stream, zrle_fresh, zrle_mark. unfold bind at 1. unfold get_st at 1.
  destruct (fixed s 11) eqn:F.
  - unfold rd_zblock, bind, get_st, upd_st, ret. cbn [negb Z.eqb Pos.eqb]. destruct (c_zrlez s); reflexivity.
  - destruct Hr as [Hr|[H1 H2]]; [congruence|]. now apply rd_shared_ok.
Qed.

Lemma zrle_mark_same s : c_w (zrle_mark s) = c_w s /\ c_h (zrle_mark s) = c_h s /\ c_fb (zrle_mark s) = c_fb s.
Proof. unfold zrle_mark. destruct (fixed s 11); repeat split; reflexivity. Qed.

Theorem roundtrip_zrle ch s x y w h tgt ts fresh :
  st_wf s -> cp_agree (c_fmt s) (variant_of s) -> fixed s 8 = true ->
  0 <= x -> 0 <= y -> 0 <= w -> 0 <= h -> x + w <= c_w s -> y + h <= c_h s ->
  rows_wf w h tgt -> Forall (Forall (cp_ok (variant_of s))) tgt ->
  zs_ready c_zrlez c_zlibz s -> fresh = zrle_fresh s ->
  let minsz := (if fixed s 12 then zrle_bound w h (rbytes (variant_of s)) else w * h * rbytes (variant_of s) * 2) + 4 in
  let cap := if c_rawsz s <? minsz then minsz else c_rawsz s in
  (* the scratch area must hold the tile stream: known finding C07-F2 when it does not *)
  zlen (tiles_rows ch 0 (c_fmt s) false 64 (Z.to_nat (h / 64 + 1)) 0 w h tgt 0 []) <= cap - 4 ->
  dec_zrle x y w h s (ref_zrle ch (c_fmt s) fresh w h tgt ++ ts)
  = Ok tt (set_fb (zrle_mark (set_rawsz s cap)) (blit_spec (c_fb s) x y tgt)) ts.
Proof.
  intros Hs Hag F8 Hx Hy Hw Hh Hxw Hyh Ht Hp Hready Hfresh minsz cap Hfit.
  unfold dec_zrle, ref_zrle. cbn [app].
  erewrite bind_ok; [|reflexivity]. rewrite F8. cbv zeta. fold minsz. fold cap.
  erewrite bind_ok; [|reflexivity].
  erewrite bind_ok; [|apply rd_zrle_stream_ok; [exact Hready|exact Hfresh]].
  set (data := tiles_rows ch 0 (c_fmt s) false 64 (Z.to_nat (h / 64 + 1)) 0 w h tgt 0 []) in *.
  assert (Hdata : Forall byte_ok data) by (apply (zrows_bytes_ok ch (c_fmt s) (variant_of s) _ Hag); auto; lia).
  rewrite map_mod_id by exact Hdata. cbn [negb].
  destruct (Z.ltb_spec (cap - 4) (zlen data)); [lia|].
  set (s1 := zrle_mark (set_rawsz s cap)).
  assert (Hs1 : st_wf s1) by (destruct (zrle_mark_same (set_rawsz s cap)) as (A & B & C); eapply st_wf_ext; [exact A|exact B|exact C|exact Hs]).
  assert (Hcf : h - 0 <= 64 * Z.of_nat (Z.to_nat (h / 64 + 1))).
  { pose proof (Z.div_mod h 64 ltac:(lia)). pose proof (Z.mod_pos_bound h 64 ltac:(lia)).
    assert (0 <= h / 64) by (apply Z.div_pos; lia). lia. }
  assert (Esm : c_w s1 = c_w s /\ c_h s1 = c_h s /\ c_fb s1 = c_fb s).
  { unfold s1, zrle_mark. destruct (fixed (set_rawsz s cap) 11); repeat split; reflexivity. }
  destruct Esm as (E1 & E2 & E3).
  pose proof (zrows_ok ch (c_fmt s) (variant_of s) (Z.to_nat (h / 64 + 1)) Hag 0 s1 x y w h tgt 0 0 [] [] 0 cap ts
                Hs1 Hx Hy ltac:(lia) Hw Hh ltac:(rewrite E1; exact Hxw) ltac:(rewrite E2; exact Hyh) Ht Hp Hcf ltac:(lia)) as E.
  fold data in E. rewrite app_nil_r in E.
  change (h / cZRLETileHeight + 1) with (h / 64 + 1).
  rewrite E by lia. rewrite E3.
  replace (y + 0) with y by lia. replace (Z.max 0 (h - 0)) with h by lia. rewrite sub_block_all by assumption. reflexivity.
Qed.
