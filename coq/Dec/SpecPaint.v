(* C01/C07 - RFB specification, sub-rectangle family (RRE, CoRRE, Hextile): a rectangle is the
   background colour overwritten, in transmission order, by uniformly coloured
   sub-rectangles, each of which must lie inside the rectangle (otherwise: error). *)
From Coq Require Import ZArith List Lia Bool Arith.
From LV Require Import Enc.EncBase.
Import ListNotations.

(* colour, x, y, w, h *)
Definition prect := (Z * nat * nat * nat * nat)%type.

Definition prect_inside (w h : nat) (s : prect) : bool :=
  let '(_, x, y, sw, sh) := s in (x + sw <=? w) && (y + sh <=? h).

Definition paint (g : grid) (s : prect) : grid :=
  let '(c, x, y, sw, sh) := s in fill_rect g x y sw sh c.

Fixpoint paint_all (w h : nat) (g : grid) (subs : list prect) : option grid :=
  match subs with
  | [] => Some g
  | s :: t => if prect_inside w h s then paint_all w h (paint g s) t else None
  end.
