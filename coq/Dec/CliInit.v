(* CliInit.v - what the client writes during rfbClientInitialise for a 3.8 / security None server:
   protocol version, security choice, ClientInit, SetPixelFormat, SetEncodings
   (mirror of SetFormatAndEncodings, rfbclient.c:1247-1472), first FramebufferUpdateRequest.
   Definitions only. *)
From LV Require Export Dec.CliMsg.
Local Open Scope Z_scope.

(* words of appData.encodingsString, numbered:
   0 raw, 1 copyrect, 2 tight, 3 hextile, 4 zlib, 5 zlibhex, 6 trle, 7 zrle, 8 zywrle, 9 ultra/ultrazip,
   10 corre, 11 rre, anything else: unknown word (ignored) *)
Record encreq : Type := mkencreq { er_encs : list Z; er_comp : bool; er_qual : bool; er_last : bool }.

Definition enc_word (compress_ok jpeg : bool) (r : encreq) (wd : Z) : encreq :=
  let add l := mkencreq (er_encs r ++ l) in
  if wd =? 0 then add [cE_Raw] (er_comp r) (er_qual r) (er_last r)
  else if wd =? 1 then add [cE_CopyRect] (er_comp r) (er_qual r) (er_last r)
  else if wd =? 2 then add [cE_Tight] (er_comp r || compress_ok) (er_qual r || jpeg) true
  else if wd =? 3 then add [cE_Hextile] (er_comp r) (er_qual r) (er_last r)
  else if wd =? 4 then add [cE_Zlib] (er_comp r || compress_ok) (er_qual r) (er_last r)
  else if wd =? 5 then add [8] (er_comp r || compress_ok) (er_qual r) (er_last r)
  else if wd =? 6 then add [cE_TRLE] (er_comp r) (er_qual r) (er_last r)
  else if wd =? 7 then add [cE_ZRLE] (er_comp r) (er_qual r) (er_last r)
  else if wd =? 8 then add [cE_ZYWRLE] (er_comp r) true (er_last r)
  else if wd =? 9 then add [cE_Ultra; cE_UltraZip] (er_comp r) (er_qual r) (er_last r)
  else if wd =? 10 then add [cE_CoRRE] (er_comp r) (er_qual r) (er_last r)
  else if wd =? 11 then add [cE_RRE] (er_comp r) (er_qual r) (er_last r)
  else r.

(* the do-while over the words stops once MAX_ENCODINGS entries are present *)
Fixpoint enc_words (compress_ok jpeg : bool) (r : encreq) (wds : list Z) : encreq :=
  match wds with
  | [] => r
  | wd :: rest =>
      let r' := enc_word compress_ok jpeg r wd in
      if zlen (er_encs r') <? cMAX_ENCODINGS then enc_words compress_ok jpeg r' rest else r'
  end.

Definition push (l : list Z) (v : Z) : list Z := if zlen l <? cMAX_ENCODINGS then l ++ [v] else l.

Definition client_encodings (wds : list Z) (compress quality : Z) (jpeg cursor newfb : bool) : list Z :=
  let cok := (0 <=? compress) && (compress <=? 9) in
  let r := enc_words cok jpeg (mkencreq [] false false false) wds in
  let l := er_encs r in
  let l := if er_comp r then push l (compress + cE_CompressLevel0) else l in
  let q := if (quality <? 0) || (9 <? quality) then 5 else quality in
  let l := if er_qual r then push l (q + cE_QualityLevel0) else l in
  let l := if cursor then push (push (push l cE_XCursor) cE_RichCursor) cE_PointerPos else l in
  let l := push l cE_KeyboardLedState in
  let l := if newfb then push l cE_NewFBSize else l in
  let l := push l cE_ExtDesktopSize in
  let l := if er_last r then push l cE_LastRect else l in
  let l := push (push (push l cE_SupportedMessages) cE_SupportedEncodings) cE_ServerIdentity in
  let l := push l cE_Xvp in
  push l cE_QemuExtendedKeyEvent.

Definition spf_bytes (f : pixfmt) : list Z :=
  [cC_SetPixelFormat; 0; 0; 0; f_bpp f; f_depth f; (if f_be f then 1 else 0); 1]
  ++ be_bytes 2 (f_rmax f) ++ be_bytes 2 (f_gmax f) ++ be_bytes 2 (f_bmax f)
  ++ [f_rshift f; f_gshift f; f_bshift f; 0; 0; 0].

Definition se_bytes (encs : list Z) : list Z :=
  [cC_SetEncodings; 0] ++ be_bytes 2 (zlen encs) ++ flat_map (be_bytes 4) encs.

Definition version_bytes : list Z := [82; 70; 66; 32; 48; 48; 51; 46; 48; 48; 56; 10].   (* "RFB 003.008\n" *)

Definition init_out (f : pixfmt) (wds : list Z) (compress quality : Z) (jpeg cursor newfb : bool) (w h : Z) : list Z :=
  version_bytes ++ [1] ++ [1] ++ spf_bytes f
  ++ se_bytes (client_encodings wds compress quality jpeg cursor newfb)
  ++ fur_bytes 0 0 0 w h.

Definition init_state (f : pixfmt) (sigmax w h : Z) : cst :=
  mkcst w h (new_fb w h) f sigmax (-1) [false; false; false; false; false] false (0, 0, w, h) true 8191 [] [] (0, 0) false false false.   (* baseline: the repaired control flow (fix commits dd06ff7..a7a3a60 = bits 0..6, d211e4c = bit 7, 281f33a = bit 8, a41e88e = bit 9, a24a50e = bit 10, 9fe693e = bit 11; bit 12 = notes/fix_C07_4.diff, ZRLE raw_buffer sized by zrle_bound) *)

Definition clr_log (s : cst) : cst :=
  mkcst (c_w s) (c_h s) (c_fb s) (c_fmt s) (c_sigmax s) (c_rawsz s) (c_zact s) (c_taint s) (c_upd s) (c_canfur s) (c_fix s) [] [] (c_screen s) (c_reqrs s) (c_zrlez s) (c_zlibz s).

Definition load_fb (s : cst) (fb : fbuf) : cst := set_fb s fb.

(* an application call between two messages *)
Definition api_ext_size (w h : Z) (s : cst) : cst :=
  match send_ext_size w h s [] with Ok _ s' _ => s' | _ => s end.
