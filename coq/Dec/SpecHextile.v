(* RFB spec 7.7.5 Hextile: 16x16 tiles, left-to-right, top-to-bottom; last tiles smaller.
   Per tile a subencoding mask: Raw(1) | BackgroundSpecified(2) | ForegroundSpecified(4) |
   AnySubrects(8) | SubrectsColoured(16).  Background and foreground persist from tile to
   tile when not specified; using one that was never specified is an error. *)
From Coq Require Import ZArith List Lia Bool Arith.
From LV Require Import Enc.EncBase Dec.SpecBase Dec.SpecPaint.
Import ListNotations.

Definition hx_dstate := (option Z * option Z)%type.   (* background, foreground *)

Fixpoint dec_hx_subs (coloured : bool) (bypp : nat) (fg : option Z) (n : nat) (bs : list Z)
  : option (list prect * list Z) :=
  match n with
  | O => Some ([], bs)
  | S k =>
    do (c, r1) <- (if coloured then take_pixel bypp bs
                   else match fg with Some f => Some (f, bs) | None => None end);
    match r1 with
    | xy :: wh :: r2 =>
      do (subs, rest) <- dec_hx_subs coloured bypp fg k r2;
      Some ((c, Z.to_nat (xy / 16), Z.to_nat (xy mod 16),
             S (Z.to_nat (wh / 16)), S (Z.to_nat (wh mod 16))) :: subs, rest)
    | _ => None
    end
  end.

Definition dec_hx_tile (bypp tw th : nat) (st : hx_dstate) (bs : list Z)
  : option (grid * hx_dstate * list Z) :=
  match bs with
  | [] => None
  | b :: r0 =>
    if Z.testbit b 0 then
      do (g, rest) <- take_rows bypp tw th r0; Some (g, st, rest)
    else
      do (bg, r1) <- (if Z.testbit b 1 then do (p, r) <- take_pixel bypp r0; Some (Some p, r)
                      else Some (fst st, r0));
      do (fg, r2) <- (if Z.testbit b 2 then do (p, r) <- take_pixel bypp r1; Some (Some p, r)
                      else Some (snd st, r1));
      match bg with
      | None => None
      | Some bgc =>
        if Z.testbit b 3 then
          match r2 with
          | [] => None
          | n :: r3 =>
            do (subs, rest) <- dec_hx_subs (Z.testbit b 4) bypp fg (Z.to_nat n) r3;
            do g <- paint_all tw th (mk_grid tw th bgc) subs;
            Some (g, (bg, fg), rest)
          end
        else Some (mk_grid tw th bgc, (bg, fg), r2)
      end
  end.

Fixpoint dec_hx_tiles (bypp : nat) (ts : list (nat * nat * nat * nat)) (st : hx_dstate)
         (bs : list Z) (canvas : grid) : option (grid * list Z) :=
  match ts with
  | [] => Some (canvas, bs)
  | (x, y, tw, th) :: ts' =>
    do (t, st', rest) <- dec_hx_tile bypp tw th st bs;
    dec_hx_tiles bypp ts' st' rest (paste canvas x y t)
  end.

(* [canvas0]: the client's framebuffer area before the update (every cell gets overwritten) *)
Definition dec_hextile_on (canvas0 : grid) (bypp w h : nat) (bs : list Z) : option grid :=
  all_consumed (dec_hx_tiles bypp (tiles w h 16 16) (None, None) bs canvas0).

Definition dec_hextile (bypp w h : nat) (bs : list Z) : option grid :=
  dec_hextile_on (mk_grid w h 0%Z) bypp w h bs.
