(* RFB spec 7.7.3 RRE / 7.7.4 CoRRE:
     U32 number-of-subrectangles, PIXEL background, then per sub-rectangle
     PIXEL colour, x, y, w, h (U16 each for RRE, U8 each for CoRRE).
   The rectangle is the background overwritten in order by the sub-rectangles. *)
From Coq Require Import ZArith List Lia Bool Arith.
From LV Require Import Enc.EncBase Dec.SpecBase Dec.SpecPaint.
Import ListNotations.

Fixpoint dec_rre_subs (fsz bypp : nat) (n : nat) (bs : list Z) : option (list prect * list Z) :=
  match n with
  | O => Some ([], bs)
  | S k =>
    do (c, r1) <- take_pixel bypp bs;
    do (x, r2) <- take_be fsz r1;
    do (y, r3) <- take_be fsz r2;
    do (w, r4) <- take_be fsz r3;
    do (h, r5) <- take_be fsz r4;
    do (subs, rest) <- dec_rre_subs fsz bypp k r5;
    Some ((c, x, y, w, h) :: subs, rest)
  end.

Definition dec_rre_gen (fsz bypp w h : nat) (bs : list Z) : option grid :=
  do (nb, r1) <- take 4 bs;
  do (bg, r2) <- take_pixel bypp r1;
  let n := be_val nb in
  (* a well-formed rectangle carries exactly n sub-rectangles *)
  if (n * Z.of_nat (bypp + 4 * fsz) =? Z.of_nat (length r2))%Z then
    do subs <- all_consumed (dec_rre_subs fsz bypp (Z.to_nat n) r2);
    paint_all w h (mk_grid w h bg) subs
  else None.

Definition dec_rre := dec_rre_gen 2.
Definition dec_corre := dec_rre_gen 1.
